/-
  C16 — the week-year theorems on *dates* (calendar year + day number, through `weekYear`/`weekOf`), for regular
  rules; and the refutation of the same statements for irregular (BCL-style) rules on concrete Gregorian dates.

  `C16.lean` states "weeks advance" on week-year starts; here the statement is lifted to the getters
  (`weeks_advance_dates`, `week_boundary_dates`), the inverse round trip (accepted triple → date → same triple) is
  proved for regular rules (`localDate_sound`, `localDate_ok_iff`), and the full statements are kept as
  `def …Statement` so that `…_irregular_fails` can say exactly what the BCL semantics give up.
-/
import PyodaProofs.C16Irregular

namespace Pyoda.C16
open Pyoda Pyoda.WeekYear

/-! ### year starts and week-year starts increase over all of `Int` -/

theorem start_add_le {c : Cal} (hc : CalWF c) (y : Int) (n : Nat) :
    c.start y + 7 * (n : Int) ≤ c.start (y + (n : Int)) := by
  induction n with
  | zero => simp
  | succ k ih =>
    have h := hc (y + (k : Int))
    have e : y + ((k + 1 : Nat) : Int) = y + (k : Int) + 1 := by omega
    rw [e]; omega

theorem start_mono {c : Cal} (hc : CalWF c) {y y' : Int} (h : y ≤ y') : c.start y ≤ c.start y' := by
  have h1 := start_add_le hc y (y' - y).toNat
  have e : y + ((y' - y).toNat : Int) = y' := by omega
  rw [e] at h1; omega

/-- a day lies in at most one calendar year -/
theorem year_unique {c : Cal} (hc : CalWF c) {y y' d : Int} (h1 : c.start y ≤ d) (h2 : d < c.start (y + 1))
    (h1' : c.start y' ≤ d) (h2' : d < c.start (y' + 1)) : y = y' := by
  rcases Int.lt_trichotomy y y' with h | h | h
  · have := start_mono hc (show y + 1 ≤ y' by omega); omega
  · exact h
  · have := start_mono hc (show y' + 1 ≤ y by omega); omega

/-- the hypothesis `YearOf` of the `get_local_date` theorems is satisfiable for every year table -/
theorem yearOf_exists {c : Cal} (hc : CalWF c) : ∃ yo, YearOf c yo := by
  classical
  refine ⟨fun d => if h : ∃ y, c.start y ≤ d ∧ d < c.start (y + 1) then Classical.choose h else 0, ?_⟩
  intro y d h1 h2
  have hex : ∃ y, c.start y ≤ d ∧ d < c.start (y + 1) := ⟨y, h1, h2⟩
  simp only [hex, dif_pos]
  have hs := Classical.choose_spec hex
  exact year_unique hc hs.1 hs.2 h1 h2

section
variable {r : Rule} {c : Cal} (hr : RuleOK r) (hc : CalWF c)
include hr hc

theorem weekYearStart_add_le (y : Int) (n : Nat) :
    weekYearStart r c y + 7 * (n : Int) ≤ weekYearStart r c (y + (n : Int)) := by
  induction n with
  | zero => simp
  | succ k ih =>
    have h := weeks_span hr hc (y + (k : Int))
    have e : y + ((k + 1 : Nat) : Int) = y + (k : Int) + 1 := by omega
    rw [e]; omega

theorem weekYearStart_mono {y y' : Int} (h : y ≤ y') : weekYearStart r c y ≤ weekYearStart r c y' := by
  have h1 := weekYearStart_add_le hr hc y (y' - y).toNat
  have e : y + ((y' - y).toNat : Int) = y' := by omega
  rw [e] at h1; omega

/-- the week-year whose span contains a date is the one `get_week_year` reports -/
theorem weekYear_unique (cy d y : Int) (h1 : c.start cy ≤ d) (h2 : d < c.start (cy + 1))
    (hy1 : weekYearStart r c y ≤ d) (hy2 : d < weekYearStart r c (y + 1)) : weekYear r c cy d = y := by
  have k := weekYear_contains hr hc cy d h1 h2
  rcases Int.lt_trichotomy (weekYear r c cy d) y with h | h | h
  · have := weekYearStart_mono hr hc (show weekYear r c cy d + 1 ≤ y by omega); omega
  · exact h
  · have := weekYearStart_mono hr hc (show y + 1 ≤ weekYear r c cy d by omega); omega

/-- **weeks advance by one every seven days**, on dates: seven days later either the week-year is the same and the
    week number one higher, or the date was in the last week of its week-year and is now in week 1 of the next -/
theorem weeks_advance_dates (cy cy' d : Int) (h1 : c.start cy ≤ d) (h2 : d < c.start (cy + 1))
    (h1' : c.start cy' ≤ d + 7) (h2' : d + 7 < c.start (cy' + 1)) :
    (weekYear r c cy' (d + 7) = weekYear r c cy d ∧ weekOf r c cy' (d + 7) = weekOf r c cy d + 1) ∨
    (weekYear r c cy' (d + 7) = weekYear r c cy d + 1 ∧ weekOf r c cy' (d + 7) = 1 ∧
      weekOf r c cy d = weeksIn r c (weekYear r c cy d)) := by
  have k := weekYear_contains hr hc cy d h1 h2
  have adv := weeks_advance hr hc (weekYear r c cy d) d k.1 k.2
  rcases adv with ⟨a1, a2⟩ | ⟨a1, a2, a3, a4⟩
  · left
    have hu := weekYear_unique hr hc cy' (d + 7) (weekYear r c cy d) h1' h2' (by omega) a1
    refine ⟨hu, ?_⟩
    rw [weekOf_eq, weekOf_eq, hu]
    simp (disch := decide) only [tdiv_pos]
    rw [if_pos (by omega), if_pos (by omega)]
    exact a2
  · right
    have hu := weekYear_unique hr hc cy' (d + 7) (weekYear r c cy d + 1) h1' h2' a1 a2
    refine ⟨hu, ?_, ?_⟩
    · rw [weekOf_eq, hu]
      simp (disch := decide) only [tdiv_pos]
      rw [if_pos (by omega)]
      exact a3
    · rw [weekOf_eq]
      simp (disch := decide) only [tdiv_pos]
      rw [if_pos (by omega)]
      exact a4

/-- **week boundaries fall on the rule's first day of week**: two consecutive days are in the same week of the same
    week-year exactly when the later one is not the first day of week -/
theorem week_boundary_dates (cy cy' d : Int) (h1 : c.start cy ≤ d - 1) (h2 : d - 1 < c.start (cy + 1))
    (h1' : c.start cy' ≤ d) (h2' : d < c.start (cy' + 1)) :
    (weekYear r c cy' d = weekYear r c cy (d - 1) ∧ weekOf r c cy' d = weekOf r c cy (d - 1)) ↔
      dayOfWeek d ≠ r.firstDayOfWeek := by
  have k := weekYear_contains hr hc cy (d - 1) h1 h2
  have ha := weekYearStart_aligned hr (c := c) (weekYear r c cy (d - 1))
  have hb := weekYearStart_aligned hr (c := c) (weekYear r c cy (d - 1) + 1)
  have hlt := weekYearStart_lt hr hc (weekYear r c cy (d - 1) + 1)
  rw [dayOfWeek_eq] at ha hb
  rw [dayOfWeek_eq]
  by_cases hd : d < weekYearStart r c (weekYear r c cy (d - 1) + 1)
  · have hu := weekYear_unique hr hc cy' d (weekYear r c cy (d - 1)) h1' h2' (by omega) hd
    rw [weekOf_eq, weekOf_eq, hu]
    simp (disch := decide) only [tdiv_pos]
    obtain ⟨_, g1, g2, g3, g4⟩ := hr
    generalize weekYear r c cy (d - 1) = w at *
    generalize weekYearStart r c w = ws at *
    rw [if_pos (by omega), if_pos (by omega)]
    constructor
    · intro h; omega
    · intro h; exact ⟨trivial, by omega⟩
  · have hu := weekYear_unique hr hc cy' d (weekYear r c cy (d - 1) + 1) h1' h2' (by omega) (by omega)
    constructor
    · intro h; omega
    · intro h; omega

omit hc in
/-- `get_local_date` with a regular rule: accepted exactly when the week number is within the weeks of the
    week-year and the day is inside the calendar -/
theorem localDate_ok_iff (yo : Int → Int) (wy w dow d : Int)
    (hv : validateWeekYear r c wy = .ok ()) (hdow : 1 ≤ dow ∧ dow ≤ 7) :
    localDate r c yo wy w dow = .ok d ↔
      (1 ≤ w ∧ w ≤ weeksIn r c wy) ∧ d = weekDateDays r c wy w dow ∧ (c.minDays ≤ d ∧ d ≤ c.maxDays) := by
  have hi := hr.1
  simp only [localDate, hv, bind, Except.bind, checkRange, weekDateDays]
  rw [if_neg (by omega)]
  simp only [hi, Bool.false_eq_true, false_and, if_false]
  generalize weekYearStart r c wy + (w - 1) * 7 + (dow - r.firstDayOfWeek + 7) % 7 = D
  by_cases cw : w < 1 ∨ w > weeksIn r c wy
  · rw [if_pos cw]
    constructor
    · intro h; cases h
    · intro h; omega
  · rw [if_neg cw]
    by_cases cd : D < c.minDays ∨ D > c.maxDays
    · rw [if_pos cd]
      constructor
      · intro h; cases h
      · intro h; omega
    · rw [if_neg cd]
      constructor
      · intro h; cases h; exact ⟨by omega, rfl, by omega⟩
      · intro h; rw [h.2.1]

/-- an accepted triple is the triple of the date returned: (week-year, week, day-of-week) → date → the same triple -/
theorem localDate_sound (yo : Int → Int) (hyo : YearOf c yo) (wy w dow d : Int)
    (hv : validateWeekYear r c wy = .ok ()) (hdow : 1 ≤ dow ∧ dow ≤ 7)
    (h : localDate r c yo wy w dow = .ok d) :
    weekYear r c (yo d) d = wy ∧ weekOf r c (yo d) d = w ∧ dayOfWeek d = dow := by
  obtain ⟨hw, hd, _⟩ := (localDate_ok_iff hr yo wy w dow d hv hdow).1 h
  have ha := weekYearStart_aligned hr (c := c) wy
  have sp := weeks_span hr hc wy
  have wA := weekYearStart_window hr (c := c) wy
  have wB := weekYearStart_window hr (c := c) (wy + 1)
  have hy0 := hc wy
  have hy1 := hc (wy + 1)
  have hy' := hc (wy - 1)
  have e1 : wy - 1 + 1 = wy := by omega
  rw [e1] at hy'
  unfold weekDateDays at hd
  have hr' := hr
  obtain ⟨_, g1, g2, g3, g4⟩ := hr'
  have hlo : weekYearStart r c wy ≤ d := by omega
  have hhi : d < weekYearStart r c (wy + 1) := by omega
  have hwy : weekYear r c (yo d) d = wy := by
    by_cases c1 : d < c.start wy
    · have hy : yo d = wy - 1 := hyo (wy - 1) d (by omega) (by rw [e1]; exact c1)
      rw [hy]
      exact weekYear_unique hr hc (wy - 1) d wy (by omega) (by rw [e1]; exact c1) hlo hhi
    · by_cases c2 : d < c.start (wy + 1)
      · have hy : yo d = wy := hyo wy d (by omega) c2
        rw [hy]
        exact weekYear_unique hr hc wy d wy (by omega) c2 hlo hhi
      · have hy : yo d = wy + 1 := hyo (wy + 1) d (by omega) (by omega)
        rw [hy]
        exact weekYear_unique hr hc (wy + 1) d wy (by omega) (by omega) hlo hhi
  refine ⟨hwy, ?_, ?_⟩
  · rw [weekOf_eq, hwy]
    simp (disch := decide) only [tdiv_pos]
    rw [if_pos (by omega)]
    omega
  · rw [dayOfWeek_eq] at ha
    rw [dayOfWeek_eq]
    omega

end

/-! ### small facts about the argument checks -/

/-- `LocalDate.next/previous` and the four weekday adjuster factories accept exactly Monday … Sunday -/
theorem adjusterFactory_ok_iff (t : Int) : adjusterFactory t = .ok () ↔ (1 ≤ t ∧ t ≤ 7) := by
  unfold adjusterFactory checkRange
  by_cases h : t < 1 ∨ t > 7
  · rw [if_pos h]; constructor
    · intro h'; cases h'
    · intro h'; omega
  · rw [if_neg h]; constructor
    · intro _; omega
    · intro _; rfl

/-- an irregular rule never accepts a week-year beyond the calendar's last year (a regular rule may accept
    `maxYear + 1`), and none accepts one before `minYear - 1` -/
theorem irr_validate_range {r : Rule} {c : Cal} (hr : IrrOK r) (wy : Int)
    (hv : validateWeekYear r c wy = .ok ()) : c.minYear - 1 ≤ wy ∧ wy ≤ c.maxYear := by
  have hi := hr.1
  unfold validateWeekYear checkRange at hv
  by_cases h : c.minYear < wy ∧ wy < c.maxYear
  · omega
  · rw [if_neg h] at hv
    simp only [hi, true_or, if_true] at hv
    generalize hlo : (if weekYearStart r c c.minYear > c.minDays then c.minYear - 1 else c.minYear) = lo at hv
    by_cases h2 : wy < lo ∨ wy > c.maxYear
    · rw [if_pos h2] at hv; cases hv
    · split at hlo <;> omega

/-! ### the full statements, and where irregular rules depart from them (by design: BCL semantics) -/

/-- the number of weeks of a week-year is the distance to the next week-year start -/
def weeksSpanStatement (r : Rule) (c : Cal) : Prop :=
  ∀ y, weeksIn r c y * 7 = weekYearStart r c (y + 1) - weekYearStart r c y ∧ 1 ≤ weeksIn r c y

/-- the week-year spans from its start to the next week-year start -/
def weekYearContainsStatement (r : Rule) (c : Cal) : Prop :=
  ∀ cy d, c.start cy ≤ d → d < c.start (cy + 1) →
    weekYearStart r c (weekYear r c cy d) ≤ d ∧ d < weekYearStart r c (weekYear r c cy d + 1)

/-- weeks advance by one every seven days (restarting at 1 in the next week-year) -/
def weeksAdvanceStatement (r : Rule) (c : Cal) : Prop :=
  ∀ cy cy' d, c.start cy ≤ d → d < c.start (cy + 1) → c.start cy' ≤ d + 7 → d + 7 < c.start (cy' + 1) →
    (weekYear r c cy' (d + 7) = weekYear r c cy d ∧ weekOf r c cy' (d + 7) = weekOf r c cy d + 1) ∨
    (weekYear r c cy' (d + 7) = weekYear r c cy d + 1 ∧ weekOf r c cy' (d + 7) = 1 ∧
      weekOf r c cy d = weeksIn r c (weekYear r c cy d))

/-- the (week-year, week) pair changes exactly on the rule's first day of week -/
def weekBoundaryStatement (r : Rule) (c : Cal) : Prop :=
  ∀ cy cy' d, c.start cy ≤ d - 1 → d - 1 < c.start (cy + 1) → c.start cy' ≤ d → d < c.start (cy' + 1) →
    ((weekYear r c cy' d = weekYear r c cy (d - 1) ∧ weekOf r c cy' d = weekOf r c cy (d - 1)) ↔
      dayOfWeek d ≠ r.firstDayOfWeek)

/-- "the week-year of an irregular rule is the calendar year" -/
def weekYearIsCalendarYearStatement (r : Rule) (c : Cal) : Prop :=
  ∀ cy d, c.start cy ≤ d → d < c.start (cy + 1) → weekYear r c cy d = cy

theorem weeksSpan_regular {r : Rule} {c : Cal} (hr : RuleOK r) (hc : CalWF c) : weeksSpanStatement r c :=
  fun y => weeks_span hr hc y
theorem weekYearContains_regular {r : Rule} {c : Cal} (hr : RuleOK r) (hc : CalWF c) :
    weekYearContainsStatement r c := fun cy d h1 h2 => weekYear_contains hr hc cy d h1 h2
theorem weeksAdvance_regular {r : Rule} {c : Cal} (hr : RuleOK r) (hc : CalWF c) : weeksAdvanceStatement r c :=
  fun cy cy' d h1 h2 h1' h2' => weeks_advance_dates hr hc cy cy' d h1 h2 h1' h2'
theorem weekBoundary_regular {r : Rule} {c : Cal} (hr : RuleOK r) (hc : CalWF c) : weekBoundaryStatement r c :=
  fun cy cy' d h1 h2 h1' h2' => week_boundary_dates hr hc cy cy' d h1 h2 h1' h2'

/-- `CalendarWeekRule.FIRST_DAY`, weeks starting on Monday -/
def bclFirstDay : Rule := ⟨1, 1, true⟩
/-- `CalendarWeekRule.FIRST_FOUR_DAY_WEEK`, weeks starting on Monday (the BCL's not-quite-ISO rule) -/
def bclFourDay : Rule := ⟨4, 1, true⟩
/-- `CalendarWeekRule.FIRST_FULL_WEEK`, weeks starting on Sunday -/
def bclFullWeek : Rule := ⟨7, 7, true⟩

example : IrrOK bclFirstDay := by simp [IrrOK, RuleRange, bclFirstDay]
example : IrrOK bclFourDay := by simp [IrrOK, RuleRange, bclFourDay]
example : IrrOK bclFullWeek := by simp [IrrOK, RuleRange, bclFullWeek]

/-- for FIRST_DAY rules the statement holds … -/
theorem weekYearIsCalendarYear_firstDay {r : Rule} {c : Cal} (hr : IrrOK r) (hmd : r.minDaysInFirstWeek = 1) :
    weekYearIsCalendarYearStatement r c := fun cy d h1 _ => irr_weekYear_firstDay hr hmd cy d h1

/-- … for the others it does not: Friday 2021-01-01 (day 18628) is in week 53 of week-year 2020 under
    FIRST_FOUR_DAY_WEEK/Monday, exactly as `GetWeekOfYear` says -/
theorem weekYearIsCalendarYear_irregular_fails : ¬ weekYearIsCalendarYearStatement bclFourDay gregCal := by
  intro h
  have := h 2021 18628 (by decide) (by decide)
  revert this
  decide

example : weekYear bclFourDay gregCal 2021 18628 = 2020 ∧ weekOf bclFourDay gregCal 2021 18628 = 53 := by decide

/-- 2021 has 53 (partly short) weeks under FIRST_DAY/Monday although its week-year starts are 52 weeks apart -/
theorem weeksSpan_irregular_fails : ¬ weeksSpanStatement bclFirstDay gregCal := by
  intro h
  have := (h 2021).1
  revert this
  decide

/-- Monday 2019-12-30 (day 18260) is the start of week-year 2020 under FIRST_FOUR_DAY_WEEK/Monday, but being a day
    of calendar year 2019 it is reported as week 53 of week-year 2019: an irregular week-year ends with its
    calendar year (or just after it), not at the next week-year start -/
theorem weekYearContains_irregular_fails : ¬ weekYearContainsStatement bclFourDay gregCal := by
  intro h
  have := (h 2019 18260 (by decide) (by decide)).2
  revert this
  decide

/-- Monday 2020-12-28 (day 18624) is in week 53 of 2020 under FIRST_DAY/Monday; seven days later, Monday 2021-01-04
    is in week 2 of 2021 (week 1 of 2021 is Friday to Sunday only) -/
theorem weeksAdvance_irregular_fails : ¬ weeksAdvanceStatement bclFirstDay gregCal := by
  intro h
  have := h 2020 2021 18624 (by decide) (by decide) (by decide) (by decide)
  revert this
  decide

example : weekOf bclFirstDay gregCal 2020 18624 = 53 ∧ weekYear bclFirstDay gregCal 2021 18631 = 2021 ∧
    weekOf bclFirstDay gregCal 2021 18631 = 2 := by decide

/-- under FIRST_DAY/Monday week 1 of 2021 starts on Friday 2021-01-01 (day 18628): a week boundary that is not on
    the rule's first day of week -/
theorem weekBoundary_irregular_fails : ¬ weekBoundaryStatement bclFirstDay gregCal := by
  intro h
  have := (h 2020 2021 18628 (by decide) (by decide) (by decide) (by decide)).2
  revert this
  decide

/-! ### the hypotheses are satisfiable: the Gregorian table, concrete irregular dates -/

example : CalWF gregCal := gregCal_wf.1
-- Thursday 2020-12-31 → (2020, 53, 4) under FIRST_FOUR_DAY_WEEK/Monday; Friday 2021-01-01 is the next day of the
-- same week 53
example : weekYear bclFourDay gregCal 2020 18627 = 2020 ∧ weekOf bclFourDay gregCal 2020 18627 = 53 ∧
    dayOfWeek 18627 = 4 := by decide
-- (2021, 1, Friday) under FIRST_DAY/Monday is 2021-01-01; (2021, 1, Thursday) would be 2020-12-31 and is rejected
example : localDate bclFirstDay gregCal (fun _ => 2021) 2021 1 5 = .ok 18628 := by decide
example : localDate bclFirstDay gregCal (fun _ => 2020) 2021 1 4 = .error .valueError := by decide
-- (2020, 53, Friday) under FIRST_FOUR_DAY_WEEK/Monday is 2021-01-01 in the *next* calendar year and is accepted
example : localDate bclFourDay gregCal (fun _ => 2021) 2020 53 5 = .ok 18628 := by decide
-- (2020, 53, Friday) under FIRST_DAY/Monday is 2021-01-01 as well, but that day is week 1 of 2021: rejected
example : localDate bclFirstDay gregCal (fun _ => 2021) 2020 53 5 = .error .valueError := by decide

end Pyoda.C16
