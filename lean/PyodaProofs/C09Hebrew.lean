/-
  C09 — the Hebrew calendars (civil and scriptural month numbering).
  `WF (Heb.cal scr)` and `YearLen (Heb.cal scr)` are hypotheses here; they are discharged by evaluation of the checkers
  `wfCheck` (C01, driver op `cal.wf 4|5`) and `yearLenCheck` (driver op `date.wf 4|5`) on every run.
-/
import PyodaModel.DateArith
import PyodaProofs.C09
import PyodaProofs.C09Generic
import PyodaProofs.C09Between

namespace Pyoda.C09
open Pyoda Pyoda.Calendar Pyoda.DateArith Pyoda.C01

local macro "fin3" : tactic =>
  `(tactic| (refine ⟨by omega, by omega, ?_⟩; first | trivial | rfl | omega | (intro h13; first | rfl | trivial | (exfalso; omega))))

def hebCal (scr : Bool) : Cal := ⟨if scr then 5 else 4, Heb.cal scr, .hebrew scr⟩

/-! ## month numbering -/

/-- `m` is a month of year `y` in scriptural numbering -/
def ScrMonth (y m : Int) : Prop := 1 ≤ m ∧ m ≤ 13 ∧ (m = 13 → Heb.isLeap y = true)

theorem heb_months (scr : Bool) (y : Int) : (Heb.cal scr).months y = Hebrew.monthsIn y := rfl

theorem heb_dim (scr : Bool) (y m : Int) : (Heb.cal scr).dim y m = Heb.dimS y (Hebrew.toScriptural scr y m) := by
  cases scr <;> rfl

theorem toScriptural_scr (scr : Bool) (y m : Int) (hm : 1 ≤ m ∧ m ≤ Hebrew.monthsIn y) :
    ScrMonth y (Hebrew.toScriptural scr y m) := by
  unfold ScrMonth Hebrew.toScriptural
  unfold Hebrew.monthsIn at hm
  cases scr
  · simp only [Bool.false_eq_true, ↓reduceIte]
    unfold Heb.civilToScriptural
    cases hl : Heb.isLeap y <;> simp only [hl, ↓reduceIte, Bool.false_eq_true] at hm ⊢ <;>
      (repeat' split) <;> fin3
  · simp only [↓reduceIte]
    cases hl : Heb.isLeap y <;> simp only [hl, ↓reduceIte, Bool.false_eq_true] at hm ⊢ <;> fin3

theorem fromScriptural_ok (scr : Bool) (Y sm : Int) (h : ScrMonth Y sm) :
    1 ≤ Hebrew.fromScriptural scr Y sm ∧ Hebrew.fromScriptural scr Y sm ≤ Hebrew.monthsIn Y ∧
    Hebrew.toScriptural scr Y (Hebrew.fromScriptural scr Y sm) = sm := by
  obtain ⟨h1, h2, h3⟩ := h
  unfold Hebrew.fromScriptural Hebrew.toScriptural Hebrew.monthsIn
  cases scr
  · simp only [Bool.false_eq_true, ↓reduceIte]
    unfold Heb.civilToScriptural Heb.scripturalToCivil
    cases hl : Heb.isLeap Y
    · have : sm ≠ 13 := fun hc => by have := h3 hc; rw [hl] at this; cases this
      simp only [Bool.false_eq_true, ↓reduceIte]
      (repeat' split) <;> omega
    · simp only [↓reduceIte]
      (repeat' split) <;> omega
  · simp only [↓reduceIte]
    cases hl : Heb.isLeap Y
    · have : sm ≠ 13 := fun hc => by have := h3 hc; rw [hl] at this; cases this
      simp only [Bool.false_eq_true, ↓reduceIte]; fin3
    · simp only [↓reduceIte]; fin3

theorem heb_len_cases (y : Int) : (Heb.heshvan y = 29 ∨ Heb.heshvan y = 30) ∧ (Heb.kislev y = 29 ∨ Heb.kislev y = 30) := by
  unfold Heb.heshvan Heb.kislev
  constructor <;> split <;> simp

/-- lengths of the scriptural months -/
theorem dimS_cases (y m : Int) :
    29 ≤ Heb.dimS y m ∧ Heb.dimS y m ≤ 30 ∧
    (m = 2 ∨ m = 4 ∨ m = 6 ∨ m = 10 ∨ m = 13 → Heb.dimS y m = 29) ∧
    (m = 12 → Heb.isLeap y = false → Heb.dimS y m = 29) ∧ (m = 12 → Heb.isLeap y = true → Heb.dimS y m = 30) ∧
    (¬ (m = 2 ∨ m = 4 ∨ m = 6 ∨ m = 10 ∨ m = 13) → m ≠ 8 → m ≠ 9 → m ≠ 12 → Heb.dimS y m = 30) := by
  have hc := heb_len_cases y
  unfold Heb.dimS
  by_cases h1 : m = 2 ∨ m = 4 ∨ m = 6 ∨ m = 10 ∨ m = 13
  · rw [if_pos h1]
    exact ⟨by omega, by omega, fun _ => rfl, fun hm _ => by omega, fun hm _ => by omega, fun hn => absurd h1 hn⟩
  · rw [if_neg h1]
    by_cases h8 : m = 8
    · rw [if_pos h8]; exact ⟨by omega, by omega, fun hh => absurd hh h1, fun hm => by omega, fun hm => by omega, fun _ hn => absurd h8 hn⟩
    · rw [if_neg h8]
      by_cases h9 : m = 9
      · rw [if_pos h9]; exact ⟨by omega, by omega, fun hh => absurd hh h1, fun hm => by omega, fun hm => by omega, fun _ _ hn => absurd h9 hn⟩
      · rw [if_neg h9]
        by_cases h12 : m = 12
        · rw [if_pos h12]
          cases hl : Heb.isLeap y <;> simp [h12]
        · rw [if_neg h12]
          exact ⟨by omega, by omega, fun hh => absurd hh h1, fun hm => absurd hm h12, fun hm => absurd hm h12, fun _ _ _ _ => rfl⟩

/-- `_set_year` seen in scriptural numbering: a month of the target year and a day that month has -/
theorem hebSetYear_scr (scr : Bool) (p : Ymd) (Y : Int) (hm : ScrMonth p.1 (Hebrew.toScriptural scr p.1 p.2.1))
    (hd : 1 ≤ p.2.2 ∧ p.2.2 ≤ Heb.dimS p.1 (Hebrew.toScriptural scr p.1 p.2.1)) :
    ∃ sm' d', Hebrew.setYear scr p Y = (Y, Hebrew.fromScriptural scr Y sm', d') ∧ ScrMonth Y sm' ∧ 1 ≤ d' ∧ d' ≤ Heb.dimS Y sm' := by
  obtain ⟨m1, m2, m3⟩ := hm
  unfold Hebrew.setYear
  dsimp only
  generalize Hebrew.toScriptural scr p.1 p.2.1 = sm0 at *
  have ds := dimS_cases p.1 sm0
  -- the month after the Adar rules
  have key : ∃ sm1, (if sm0 = 13 ∧ ¬ Heb.isLeap Y = true then 12
        else if sm0 = 12 ∧ Heb.isLeap Y = true ∧ ¬ Heb.isLeap p.1 = true then 13 else sm0) = sm1 ∧ ScrMonth Y sm1 ∧
      (p.2.2 = 30 → sm1 = sm0 ∧ ¬ (sm0 = 2 ∨ sm0 = 4 ∨ sm0 = 6 ∨ sm0 = 10 ∨ sm0 = 13)) := by
    refine ⟨_, rfl, ?_, ?_⟩
    · unfold ScrMonth
      cases hlY : Heb.isLeap Y <;> cases hly : Heb.isLeap p.1 <;>
        simp only [hly, Bool.false_eq_true, not_false_eq_true, not_true_eq_false, and_true, and_false, ↓reduceIte] at m3 ⊢ <;>
        (repeat' split) <;> fin3
    · intro h30
      have n1 : ¬ (sm0 = 2 ∨ sm0 = 4 ∨ sm0 = 6 ∨ sm0 = 10 ∨ sm0 = 13) := by
        intro hc; have := ds.2.2.1 hc; omega
      refine ⟨?_, n1⟩
      rw [if_neg (by omega)]
      by_cases h12 : sm0 = 12
      · cases hly : Heb.isLeap p.1
        · have := ds.2.2.2.1 h12 hly; omega
        · rw [if_neg (by simp)]
      · rw [if_neg (by omega)]
  obtain ⟨sm1, e1, s1, k30⟩ := key
  rw [e1]
  have dY := dimS_cases Y sm1
  by_cases hroll : p.2.2 = 30 ∧ (sm1 = 8 ∨ sm1 = 9 ∨ sm1 = 12) ∧ Heb.dimS Y sm1 ≠ 30
  · rw [if_pos hroll]
    have dn := dimS_cases Y (if sm1 + 1 = 13 then 1 else sm1 + 1)
    refine ⟨_, 1, rfl, ?_, by omega, by omega⟩
    unfold ScrMonth
    split <;> fin3
  · rw [if_neg hroll]
    refine ⟨sm1, p.2.2, rfl, s1, hd.1, ?_⟩
    by_cases h30 : p.2.2 = 30
    · obtain ⟨q1, q2⟩ := k30 h30
      by_cases h8 : sm1 = 8 ∨ sm1 = 9 ∨ sm1 = 12
      · have : Heb.dimS Y sm1 = 30 := by
          by_cases hq : Heb.dimS Y sm1 = 30
          · exact hq
          · exact absurd ⟨h30, h8, hq⟩ hroll
        omega
      · have := dY.2.2.2.2.2 (by rw [q1]; exact q2) (by omega) (by omega) (by omega)
        omega
    · omega

/-! ## validity of year and month addition -/

theorem heb_valid_inv (scr : Bool) (s : Ymd) (hs : Valid (Heb.cal scr) s) :
    1 ≤ s.1 ∧ s.1 ≤ 9999 ∧ 1 ≤ s.2.1 ∧ s.2.1 ≤ Hebrew.monthsIn s.1 ∧ 1 ≤ s.2.2 ∧
    s.2.2 ≤ Heb.dimS s.1 (Hebrew.toScriptural scr s.1 s.2.1) := by
  have := validate_inv hs
  rw [heb_months, heb_dim] at this
  exact this

theorem heb_valid_of (scr : Bool) (hw : WF (Heb.cal scr)) (Y rm d : Int) (hY : 1 ≤ Y ∧ Y ≤ 9999)
    (hm : 1 ≤ rm ∧ rm ≤ Hebrew.monthsIn Y) (hd : 1 ≤ d ∧ d ≤ Heb.dimS Y (Hebrew.toScriptural scr Y rm)) :
    Valid (Heb.cal scr) (Y, rm, d) :=
  validate_ok hw hY.1 hY.2 hm.1 (by rw [heb_months]; exact hm.2) hd.1 (by rw [heb_dim]; exact hd.2)

/-- Hebrew `_set_year` returns a valid date of the requested year -/
theorem heb_setYear_valid (scr : Bool) (hw : WF (Heb.cal scr)) (s : Ymd) (Y : Int) (hs : Valid (Heb.cal scr) s)
    (h1 : (Heb.cal scr).minYear ≤ Y) (h2 : Y ≤ (Heb.cal scr).maxYear) :
    ∃ r, setYear (hebCal scr) s Y = .ok r ∧ Valid (Heb.cal scr) r ∧ r.1 = Y := by
  obtain ⟨_, _, m1, m2, d1, d2⟩ := heb_valid_inv scr s hs
  obtain ⟨sm', d', e1, e2, e3, e4⟩ := hebSetYear_scr scr s Y (toScriptural_scr scr s.1 s.2.1 ⟨m1, m2⟩) ⟨d1, d2⟩
  obtain ⟨f1, f2, f3⟩ := fromScriptural_ok scr Y sm' e2
  refine ⟨Hebrew.setYear scr s Y, rfl, ?_, by rw [e1]⟩
  rw [e1]
  exact heb_valid_of scr hw Y _ d' ⟨h1, h2⟩ ⟨f1, f2⟩ ⟨e3, by rw [f3]; exact e4⟩

theorem heb_yearsField_law (scr : Bool) (hw : WF (Heb.cal scr)) : FieldLaw (Heb.cal scr) (yearsField (hebCal scr)) :=
  (yearsField_unit_of_setYear (hebCal scr) hw (fun s Y hs h1 h2 => heb_setYear_valid scr hw s Y hs h1 h2)).toLaw hw

/-- civil month number of a valid date -/
theorem heb_civil_range (scr : Bool) (y m : Int) (hm : 1 ≤ m ∧ m ≤ Hebrew.monthsIn y) :
    1 ≤ Hebrew.toCivil scr y m ∧ Hebrew.toCivil scr y m ≤ Hebrew.monthsIn y := by
  cases scr
  · exact hm
  · have hsm : ScrMonth y m := by
      unfold Hebrew.monthsIn at hm
      refine ⟨hm.1, by split at hm <;> omega, fun h13 => ?_⟩
      cases hl : Heb.isLeap y
      · rw [hl] at hm; simp at hm; omega
      · rfl
    have := fromScriptural_ok false y m hsm
    exact ⟨this.1, this.2.1⟩

theorem heb_fromCivil_range (scr : Bool) (Y C : Int) (hC : 1 ≤ C ∧ C ≤ Hebrew.monthsIn Y) :
    1 ≤ Hebrew.fromCivil scr Y C ∧ Hebrew.fromCivil scr Y C ≤ Hebrew.monthsIn Y := by
  cases scr
  · exact hC
  · have h := toScriptural_scr false Y C hC
    obtain ⟨a1, a2, a3⟩ := h
    have e : Hebrew.fromCivil true Y C = Hebrew.toScriptural false Y C := rfl
    rw [e]
    refine ⟨a1, ?_⟩
    unfold Hebrew.monthsIn
    cases hl : Heb.isLeap Y
    · have : Hebrew.toScriptural false Y C ≠ 13 := fun hc => by have := a3 hc; rw [hl] at this; cases this
      simp; omega
    · simp; omega

/-- month position along the civil order -/
def hebPos (scr : Bool) (p : Ymd) : Int := hebBefore p.1 + Hebrew.toCivil scr p.1 p.2.1 - 1

/-- `_add_months` on a valid date: inside the calendar a valid date at position + n whose day is the start day, or the
    month's length if that is shorter; `OverflowError` exactly when the target year is outside the calendar -/
theorem heb_addMonths_spec (scr : Bool) (hw : WF (Heb.cal scr)) (s : Ymd) (hs : Valid (Heb.cal scr) s) (n : Int)
    (hn : n ≠ 0) (hb : -decBound < n ∧ n < decBound) :
    ∃ Y, hebBefore Y ≤ hebPos scr s + n ∧ hebPos scr s + n < hebBefore (Y + 1) ∧
      ((1 ≤ Y ∧ Y ≤ 9999) → ∃ r, Hebrew.addMonths scr (Heb.cal scr) s n = .ok r ∧ Valid (Heb.cal scr) r ∧ r.1 = Y ∧
        hebPos scr r = hebPos scr s + n ∧ r.2.2 ≤ s.2.2 ∧ (r.2.2 = s.2.2 ∨ r.2.2 = (Heb.cal scr).dim r.1 r.2.1)) ∧
      (¬ (1 ≤ Y ∧ Y ≤ 9999) → Hebrew.addMonths scr (Heb.cal scr) s n = .error .overflowError) := by
  obtain ⟨_, _, m1, m2, d1, d2⟩ := heb_valid_inv scr s hs
  have hc := heb_civil_range scr s.1 s.2.1 ⟨m1, m2⟩
  obtain ⟨Y, C, c1, c2, c3, c4, c5, c6⟩ := addMonthsHebrew_spec scr (Heb.cal scr) s.1 s.2.1 s.2.2 n hn hb hc
  have hrec := heb_recur Y
  refine ⟨Y, by unfold hebPos; omega, by unfold hebPos; omega, ?_, fun hY => c6 hY⟩
  intro hY
  have hfc := heb_fromCivil_range scr Y C ⟨c1, c2⟩
  have hp := hw.pack_day Y (Hebrew.fromCivil scr Y C) hY.1 hY.2 hfc.1 (by rw [heb_months]; exact hfc.2)
  refine ⟨_, c5 hY, ?_, rfl, ?_, Int.min_le_right _ _, ?_⟩
  · exact validate_ok hw hY.1 hY.2 hfc.1 (by rw [heb_months]; exact hfc.2) (Int.le_min.2 ⟨hp.1, d1⟩) (Int.min_le_left _ _)
  · unfold hebPos; dsimp only; rw [c4]; omega
  · dsimp only
    by_cases hle : (Heb.cal scr).dim Y (Hebrew.fromCivil scr Y C) ≤ s.2.2
    · right; exact Int.min_eq_left hle
    · left; exact Int.min_eq_right (by omega)

/-- month addition never yields an invalid Hebrew date -/
theorem heb_addMonths_valid (scr : Bool) (hw : WF (Heb.cal scr)) (s : Ymd) (hs : Valid (Heb.cal scr) s) (n : Int) (r : Ymd)
    (hr : Hebrew.addMonths scr (Heb.cal scr) s n = .ok r) : Valid (Heb.cal scr) r := by
  by_cases hn : n = 0
  · unfold Hebrew.addMonths at hr; rw [if_pos hn] at hr; cases hr; exact hs
  · have hb : -decBound < n ∧ n < decBound := by
      have hu := hr
      unfold Hebrew.addMonths at hu
      rw [if_neg hn] at hu
      cases hq : pyTdiv n 235 with
      | error x => rw [hq] at hu; cases hu
      | ok q => exact pyTdiv_ok_inv _ _ _ hq
    obtain ⟨Y, _, _, a3, a4⟩ := heb_addMonths_spec scr hw s hs n hn hb
    by_cases hY : 1 ≤ Y ∧ Y ≤ 9999
    · obtain ⟨r', q1, q2, _⟩ := a3 hY
      rw [q1] at hr; cases hr; exact q2
    · rw [a4 hY] at hr; cases hr

end Pyoda.C09
