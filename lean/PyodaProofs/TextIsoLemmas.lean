/- Helper lemmas about the modelled ISO patterns: field accessors, one parse action applied to the text one
   format action wrote. No property statements here. -/
import PyodaProofs.TextLemmas

namespace Pyoda.Text

/-! ### format actions on in-range values -/

theorem format2_eq (v : Int) (h0 : 0 ≤ v) (h1 : v < 100) : format2 v = padN 2 v.toNat := by
  unfold format2 padSigned
  have : v ≥ 0 := h0
  simp only [this, if_true]
  exact leftPadNonNeg_eq_padN _ _ (by decide) (by omega)

theorem format4_nonneg (v : Int) (h0 : 0 ≤ v) (h1 : v ≤ 9999) : format4 v = padN 4 v.toNat := by
  unfold format4 padSigned
  have h2 : ¬ v < 0 := by omega
  have : v ≥ 0 := h0
  simp only [h2, this, if_true, if_false]
  exact leftPadNonNeg_eq_padN _ _ (by decide) (by omega)

theorem format4_neg (v : Int) (h0 : v < 0) (h1 : -9999 ≤ v) : format4 v = '-' :: padN 4 (-v).toNat := by
  unfold format4 padSigned
  have : -v ≥ 0 := by omega
  simp only [h0, this, if_true]
  rw [leftPadNonNeg_eq_padN _ _ (by decide) (by omega)]

/-! ### single parse actions on formatted text -/

theorem isDigit_dash : isDigit '-' = false := by decide

theorem padN_head_isDigit (n v : Nat) (rest : Text) (hn : 1 ≤ n) :
    ∃ c l, padN n v ++ rest = c :: l ∧ isDigit c = true := by
  cases n with
  | zero => omega
  | succ n =>
    have hlen := length_padN (n + 1) v
    cases hp : padN (n + 1) v with
    | nil => rw [hp] at hlen; simp at hlen
    | cons c l =>
      refine ⟨c, l ++ rest, by simp, ?_⟩
      exact padN_isDigit (n + 1) v c (by rw [hp]; simp)

theorem matchChar_dash_padN (n v : Nat) (rest : Text) (hn : 1 ≤ n) :
    matchChar '-' (padN n v ++ rest) = none := by
  obtain ⟨c, l, e, hc⟩ := padN_head_isDigit n v rest hn
  rw [e]
  unfold matchChar
  have : c ≠ '-' := by intro h; subst h; rw [isDigit_dash] at hc; cases hc
  simp [this]

theorem matchChar_self (c : Char) (l : Text) : matchChar c (c :: l) = some l := by
  simp [matchChar]

/-- a full-width non-negative field is read back, whatever follows -/
theorem parseField_padN (n v : Nat) (lo hi : Int) (rest : Text) (hn : 1 ≤ n) (hv : v < 10 ^ n)
    (hlo : lo ≤ (v : Int)) (hhi : (v : Int) ≤ hi) :
    parseField n n lo hi (padN n v ++ rest) = some ((v : Int), rest) := by
  unfold parseField
  rw [matchChar_dash_padN n v rest hn]
  simp only [Option.isSome_none, Bool.false_eq_true, if_false, false_and]
  unfold parseDigits
  rw [scanDigits_padN n v n rest hv (Nat.le_refl _) (Or.inl rfl)]
  have h1 : ¬ n < n := Nat.lt_irrefl _
  have h2 : ¬ ((v : Int) < lo ∨ (v : Int) > hi) := by omega
  simp [h1, h2]

/-- `-` followed by a full-width field is read back as a negative value when the field admits it -/
theorem parseField_neg_padN (n v : Nat) (lo hi : Int) (rest : Text) (hv : v < 10 ^ n)
    (hneg : lo < 0) (hlo : lo ≤ -(v : Int)) (hhi : -(v : Int) ≤ hi) :
    parseField n n lo hi ('-' :: (padN n v ++ rest)) = some (-(v : Int), rest) := by
  unfold parseField
  rw [matchChar_self]
  have hnn : ¬ (lo ≥ 0) := by omega
  simp only [Option.isSome_some, if_true, List.tail_cons, hnn, and_false, if_false]
  unfold parseDigits
  rw [scanDigits_padN n v n rest hv (Nat.le_refl _) (Or.inl rfl)]
  have h1 : ¬ n < n := Nat.lt_irrefl _
  have h2 : ¬ (-(v : Int) < lo ∨ -(v : Int) > hi) := by omega
  simp [h1, h2]

theorem parseField_format2 (v lo hi : Int) (rest : Text) (h0 : 0 ≤ v) (h1 : v < 100)
    (hlo : lo ≤ v) (hhi : v ≤ hi) :
    parseField 2 2 lo hi (format2 v ++ rest) = some (v, rest) := by
  rw [format2_eq v h0 h1]
  have := parseField_padN 2 v.toNat lo hi rest (by decide) (by omega) (by omega) (by omega)
  rw [this]
  congr 2; omega

theorem parseField_format4 (y : Int) (rest : Text) (h0 : -9999 ≤ y) (h1 : y ≤ 9999) :
    parseField 4 4 (-9999) 9999 (format4 y ++ rest) = some (y, rest) := by
  by_cases hy : 0 ≤ y
  · rw [format4_nonneg y hy h1]
    have := parseField_padN 4 y.toNat (-9999) 9999 rest (by decide) (by omega) (by omega) (by omega)
    rw [this]; congr 2; omega
  · rw [format4_neg y (by omega) h0]
    have := parseField_neg_padN 4 (-y).toNat (-9999) 9999 rest (by omega) (by decide) (by omega) (by omega)
    rw [List.cons_append, this]; congr 2; omega

/-- the range check of a numeric field action -/
theorem parseField_bounds (minD maxD : Nat) (lo hi : Int) (l : Text) (v : Int) (rest : Text)
    (h : parseField minD maxD lo hi l = some (v, rest)) : lo ≤ v ∧ v ≤ hi := by
  unfold parseField at h
  dsimp only at h
  by_cases c1 : ((matchChar '-' l).isSome = true ∧ lo ≥ 0)
  · rw [if_pos c1] at h; cases h
  · rw [if_neg c1] at h
    cases hp : parseDigits minD maxD (if (matchChar '-' l).isSome = true then l.tail else l) with
    | none => rw [hp] at h; cases h
    | some q =>
      obtain ⟨n, r⟩ := q
      rw [hp] at h
      dsimp only at h
      generalize (if (matchChar '-' l).isSome = true then -(n : Int) else (n : Int)) = v' at h
      by_cases c2 : v' < lo ∨ v' > hi
      · rw [if_pos c2] at h; cases h
      · rw [if_neg c2] at h
        injection h with h; injection h with h1 h2
        omega

/-! ### time-of-day accessors -/

theorem shr13 (x : Int) : x >>> 13 = x / 8192 := by
  rw [Int.shiftRight_eq_div_pow]; rfl

theorem shr11 (x : Int) : x >>> 11 = x / 2048 := by
  rw [Int.shiftRight_eq_div_pow]; rfl

/-- for a nanosecond-of-day value the accessors are the usual quotient/remainders -/
theorem time_accessors (nod : Int) (h0 : 0 ≤ nod) (h1 : nod < 86400000000000) :
    ltHour nod = nod / 3600000000000 ∧ ltMinute nod = nod / 60000000000 % 60 ∧
    ltSecond nod = nod / 1000000000 % 60 ∧ ltNano nod = nod % 1000000000 := by
  unfold ltHour ltMinute ltSecond ltNano int32Overflow NPS
  rw [shr13, shr11]
  simp (disch := decide) only [tdiv_pos, csharpMod_pos, fmod_pos]
  refine ⟨?_, ?_, ?_, ?_⟩
  · have : (0 : Int) ≤ nod / 8192 := by omega
    simp only [this, if_true]; omega
  · have : (0 : Int) ≤ nod / 2048 := by omega
    simp only [this, if_true]
    have h2 : ¬ (nod / 2048 / 29296875 < 0 ∧ 0 < nod / 2048 / 29296875 % 60) := by omega
    simp only [h2, if_false]; omega
  · simp only [h0, if_true]
    have h2 : ¬ (nod / 1000000000 < 0 ∧ 0 < nod / 1000000000 % 60) := by omega
    simp only [h2, if_false]
  · have h2 : ¬ (nod < 0 ∧ 0 < nod % 1000000000) := by omega
    simp only [h2, if_false]; omega

theorem time_recompose (nod : Int) :
    ltFromHmsn (nod / 3600000000000) (nod / 60000000000 % 60) (nod / 1000000000 % 60) (nod % 1000000000) = nod := by
  unfold ltFromHmsn NPH NPMin NPS; omega

/-! ### the action sequences of the ISO patterns on formatted text -/

theorem timeFields_hms (maxH : Int) (k : Frac) (h m s : Int) (tail : Text)
    (hh0 : 0 ≤ h) (hh1 : h ≤ maxH) (hh2 : h < 100) (hm0 : 0 ≤ m) (hm1 : m ≤ 59) (hs0 : 0 ≤ s) (hs1 : s ≤ 59) :
    timeFields maxH k (format2 h ++ [':'] ++ format2 m ++ [':'] ++ format2 s ++ tail) =
      (match fracPart k tail with
       | none => none
       | some (n, l) => some ((h, m, s, n), l)) := by
  simp only [timeFields, List.append_assoc, List.cons_append, List.nil_append]
  rw [parseField_format2 h 0 maxH _ hh0 hh2 hh0 hh1]
  simp only [Option.bind_eq_bind, Option.bind_some, matchChar_self]
  rw [parseField_format2 m 0 59 _ hm0 (by omega) hm0 hm1]
  simp only [Option.bind_some, matchChar_self]
  rw [parseField_format2 s 0 59 _ hs0 (by omega) hs0 hs1]
  simp only [Option.bind_some]
  cases fracPart k tail with
  | none => rfl
  | some p => rfl

theorem dateFields_fmt (y m d : Int) (tail : Text) (hy0 : -9999 ≤ y) (hy1 : y ≤ 9999)
    (hm0 : 1 ≤ m) (hm1 : m ≤ 99) (hd0 : 1 ≤ d) (hd1 : d ≤ 99) :
    dateFields (fmtIsoDate y m d ++ tail) = some ((y, m, d), tail) := by
  simp only [dateFields, fmtIsoDate, List.append_assoc, List.cons_append, List.nil_append]
  rw [parseField_format4 y _ hy0 hy1]
  simp only [Option.bind_eq_bind, Option.bind_some, matchChar_self]
  rw [parseField_format2 m 1 99 _ (by omega) (by omega) hm0 hm1]
  simp only [Option.bind_some, matchChar_self]
  rw [parseField_format2 d 1 99 _ (by omega) (by omega) hd0 hd1]
  simp only [Option.bind_some]
  rfl

theorem isoDateValue_valid (y m d : Int) (h : validDate y m d) : isoDateValue y m d = some (y, m, d) := by
  obtain ⟨h1, h2, h3, h4, h5, h6⟩ := h
  unfold isoDateValue ISO_MIN_YEAR ISO_MAX_YEAR at *
  have hdim : daysInMonth y m ≤ 31 := by unfold daysInMonth; split <;> (try split) <;> omega
  have c1 : ¬ (y > 9999 ∨ y < -9998) := by omega
  have c2 : ¬ m > 12 := by omega
  have c3 : ¬ (d > 31 ∨ (d > 28 ∧ d > daysInMonth y m)) := by omega
  simp only [c1, c2, c3, if_false]

theorem daysInMonth_bounds (y m : Int) : 28 ≤ daysInMonth y m ∧ daysInMonth y m ≤ 31 := by
  unfold daysInMonth; split <;> (try split) <;> omega

/-- what `isoDateValue` accepts is a valid date (given the field ranges of the parse actions) -/
theorem isoDateValue_some (y m d : Int) (v : Int × Int × Int) (hm : 1 ≤ m) (hd : 1 ≤ d)
    (h : isoDateValue y m d = some v) : v = (y, m, d) ∧ validDate y m d := by
  unfold isoDateValue at h
  split at h
  · cases h
  · split at h
    · cases h
    · split at h
      · cases h
      · rename_i c1 c2 c3
        injection h with h
        refine ⟨h.symm, ?_⟩
        have := daysInMonth_bounds y m
        unfold validDate
        unfold ISO_MIN_YEAR ISO_MAX_YEAR at *
        omega

theorem fracPart_optF9_dot (l : Text) :
    fracPart .optF9 ('.' :: l) =
      (match parseFraction 9 9 1 l with | none => none | some (v, rest) => some ((v : Int), rest)) := by
  simp only [fracPart, matchChar_self]
  cases parseFraction 9 9 1 l with
  | none => rfl
  | some p => rfl

theorem fracPart_optF9_nil : fracPart .optF9 [] = some (0, []) := by
  simp [fracPart, matchChar]

theorem fracPart_optF9_Z (l : Text) : fracPart .optF9 ('Z' :: l) = some (0, 'Z' :: l) := by
  simp [fracPart, matchChar]

/-! ### offsets -/

theorem off_accessors (s : Int) (h0 : -64800 ≤ s) (h1 : s ≤ 64800) :
    offHours s = (s.natAbs : Int) / 3600 ∧ offMinutes s = (s.natAbs : Int) / 60 % 60 ∧
    offSecs s = (s.natAbs : Int) % 60 := by
  unfold offHours offMinutes offSecs offMillis
  have e : (((s * 1000).natAbs : Nat) : Int) = (s.natAbs : Int) * 1000 := by omega
  rw [e]
  simp (disch := decide) only [tdiv_pos, csharpMod_pos]
  have p0 : (0 : Int) ≤ (s.natAbs : Int) * 1000 := by omega
  have c1 : ¬ ((s.natAbs : Int) * 1000 < 0 ∧ 0 < (s.natAbs : Int) * 1000 % 3600000) := by omega
  have c2 : ¬ ((s.natAbs : Int) * 1000 < 0 ∧ 0 < (s.natAbs : Int) * 1000 % 60000) := by omega
  simp only [p0, c1, c2, if_true, if_false]
  have p1 : (0 : Int) ≤ (s.natAbs : Int) * 1000 % 3600000 := by omega
  have p2 : (0 : Int) ≤ (s.natAbs : Int) * 1000 % 60000 := by omega
  simp only [p1, p2, if_true]
  omega

theorem signPart_plus (l : Text) : signPart ('+' :: l) = some (false, l) := by
  simp [signPart, matchChar]

theorem signPart_minus (l : Text) : signPart ('-' :: l) = some (true, l) := by
  simp [signPart, matchChar]

theorem offSign_cases (s : Int) : (0 ≤ s ∧ offSign s = '+') ∨ (s < 0 ∧ offSign s = '-') := by
  unfold offSign offMillis
  by_cases h : s * 1000 ≥ 0
  · left; exact ⟨by omega, by simp [h]⟩
  · right; exact ⟨by omega, by simp [h]⟩

theorem signPart_offSign (s : Int) (l : Text) : signPart (offSign s :: l) = some (decide (s < 0), l) := by
  rcases offSign_cases s with ⟨h, e⟩ | ⟨h, e⟩
  · rw [e, signPart_plus]; simp; omega
  · rw [e, signPart_minus]; simp [h]

end Pyoda.Text
