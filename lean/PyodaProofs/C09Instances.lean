/-
  C09 — the side conditions `YearLen` (every year has at least 299 days) and `RegularCal` (regular family: the same
  12 or 13 months every year, packed comparison, C01's `WF`) for every calendar of the library.

  `WF` comes from the symbolic C01 instances where they exist (ISO/Gregorian, Julian, Coptic, the eight tabular
  Islamic calendars, Persian simple and arithmetic) and otherwise from one evaluation of C01's checker
  (`wfCheck c = true`, driver op `cal.wf`, evaluated by harness/c09.py on every run for Persian astronomical,
  Um Al Qura, Hebrew civil/scriptural and Badi).  `YearLen` is symbolic for every calendar except the two Hebrew
  ones, where it is the evaluated checker `yearLenCheck` (driver op `date.wf`).
-/
import PyodaModel.DateArith
import PyodaProofs.C09Lemmas
import PyodaProofs.C01Islamic
import PyodaProofs.C01PersianSimple
import PyodaProofs.C01PersianArithmetic
import PyodaProofs.C01WfCheck

namespace Pyoda.C09
open Pyoda Pyoda.Calendar Pyoda.DateArith Pyoda.C01

/-! ## year lengths -/

theorem yearLen_islamic (bits : Nat) (epoch : Int) : YearLen (Isl.cal bits epoch) := by
  intro y _ _; show 299 ≤ Isl.len bits y; unfold Isl.len; split <;> omega

theorem yearLen_persian (tbl : Array Int) (leap : Int → Bool) (e : Int) : YearLen (Pers.cal tbl leap e) := by
  intro y _ _; show 299 ≤ Pers.lenOf leap y; unfold Pers.lenOf; split <;> omega

theorem sumFrom_nonneg (f : Int → Int) (hf : ∀ i, 0 ≤ f i) : ∀ (n : Nat) (i : Int), 0 ≤ sumFrom f n i := by
  intro n
  induction n with
  | zero => intro i; simp [sumFrom]
  | succ n ih => intro i; unfold sumFrom; have := hf i; have := ih (i + 1); omega

theorem yearLen_umAlQura : YearLen UAQ.cal := by
  intro y _ _
  show 299 ≤ UAQ.len y
  unfold UAQ.len
  split
  · omega
  · have := sumFrom_nonneg (UAQ.bit y) (fun i => by unfold UAQ.bit; split <;> omega) 12 1
    omega

theorem yearLen_badi : YearLen Badi.cal := by
  intro y _ _
  show 299 ≤ Badi.len y
  unfold Badi.len Badi.ayyamiHa
  repeat' split
  all_goals omega

/-- soundness of the evaluated year-length checker (used for the Hebrew calendars) -/
theorem yearLenCheck_sound (c : Calc) (h : yearLenCheck c = true) : YearLen c := by
  intro y h1 h2
  have := allInts_spec _ _ _ h y h1 h2
  simpa using this

/-! ## the regular family -/

theorem regular_of_wf (ord : Nat) (c : Calc) (M : Int) (hM : M = 12 ∨ M = 13) (hw : WF c) (hm : ∀ y, c.months y = M)
    (hp : c.ownCompare = false) : RegularCal ⟨ord, c, .regular⟩ M := ⟨rfl, hw, hM, hm, hp⟩

theorem regular_islamic (ord : Nat) (bits : Nat) (epoch : Int) (hw : WF (Isl.cal bits epoch)) :
    RegularCal ⟨ord, Isl.cal bits epoch, .regular⟩ 12 := regular_of_wf ord _ 12 (Or.inl rfl) hw (fun _ => rfl) rfl

theorem regular_islamic_all :
    RegularCal ⟨9, Isl.cal Isl.bitsBase15 Isl.astronomicalEpoch, .regular⟩ 12 ∧
    RegularCal ⟨10, Isl.cal Isl.bitsBase16 Isl.astronomicalEpoch, .regular⟩ 12 ∧
    RegularCal ⟨11, Isl.cal Isl.bitsIndian Isl.astronomicalEpoch, .regular⟩ 12 ∧
    RegularCal ⟨12, Isl.cal Isl.bitsHabash Isl.astronomicalEpoch, .regular⟩ 12 ∧
    RegularCal ⟨13, Isl.cal Isl.bitsBase15 Isl.civilEpoch, .regular⟩ 12 ∧
    RegularCal ⟨14, Isl.cal Isl.bitsBase16 Isl.civilEpoch, .regular⟩ 12 ∧
    RegularCal ⟨15, Isl.cal Isl.bitsIndian Isl.civilEpoch, .regular⟩ 12 ∧
    RegularCal ⟨16, Isl.cal Isl.bitsHabash Isl.civilEpoch, .regular⟩ 12 := by
  obtain ⟨h1, h2, h3, h4, h5, h6, h7, h8⟩ := islamic_wf
  exact ⟨regular_islamic _ _ _ h1, regular_islamic _ _ _ h2, regular_islamic _ _ _ h3, regular_islamic _ _ _ h4,
    regular_islamic _ _ _ h5, regular_islamic _ _ _ h6, regular_islamic _ _ _ h7, regular_islamic _ _ _ h8⟩

theorem regular_persianSimple : RegularCal ⟨6, Pers.simple, .regular⟩ 12 :=
  regular_of_wf 6 _ 12 (Or.inl rfl) persianSimple_wf (fun _ => rfl) rfl

theorem regular_persianArithmetic : RegularCal ⟨7, Pers.arithmetic, .regular⟩ 12 :=
  regular_of_wf 7 _ 12 (Or.inl rfl) persianArithmetic_wf (fun _ => rfl) rfl

/-- Persian astronomical: `WF` from one evaluation of C01's checker (`cal.wf 8`) -/
theorem regular_persianAstronomical (h : wfCheck Pers.astronomical = true) : RegularCal ⟨8, Pers.astronomical, .regular⟩ 12 :=
  regular_of_wf 8 _ 12 (Or.inl rfl) (wfCheck_sound _ h) (fun _ => rfl) rfl

/-- Um Al Qura: `WF` from one evaluation of C01's checker (`cal.wf 17`) -/
theorem regular_umAlQura (h : wfCheck UAQ.cal = true) : RegularCal ⟨17, UAQ.cal, .regular⟩ 12 :=
  regular_of_wf 17 _ 12 (Or.inl rfl) (wfCheck_sound _ h) (fun _ => rfl) rfl

/-- the descriptions used above are the ones the driver and `Cal.ofOrd` use for these ordinals -/
theorem ordinals_match :
    Cal.ofOrd 6 = some ⟨6, Pers.simple, .regular⟩ ∧ Cal.ofOrd 7 = some ⟨7, Pers.arithmetic, .regular⟩ ∧
    Cal.ofOrd 8 = some ⟨8, Pers.astronomical, .regular⟩ ∧ Cal.ofOrd 17 = some ⟨17, UAQ.cal, .regular⟩ ∧
    Cal.ofOrd 9 = some ⟨9, Isl.cal Isl.bitsBase15 Isl.astronomicalEpoch, .regular⟩ ∧
    Cal.ofOrd 16 = some ⟨16, Isl.cal Isl.bitsHabash Isl.civilEpoch, .regular⟩ ∧
    Cal.ofOrd 4 = some ⟨4, Heb.cal false, .hebrew false⟩ ∧ Cal.ofOrd 5 = some ⟨5, Heb.cal true, .hebrew true⟩ ∧
    Cal.ofOrd 18 = some ⟨18, Badi.cal, .badi⟩ :=
  ⟨rfl, rfl, rfl, rfl, rfl, rfl, rfl, rfl, rfl⟩

end Pyoda.C09
