/-
  C16 — week-year rules and weekday navigation.
  Theorems for regular rules (every minimum-days-in-first-week 1…7, every first day of week) over an arbitrary
  calendar year table with `start (y+1) = start y + len y` and `len y ≥ 7` (what C01 gives for every calendar).
  Irregular (BCL-style) rules: C16Irregular.lean (every minimum-days value, every first day of week); the same
  statements on dates through the getters, the inverse round trip for regular rules, and the refutation of the
  regular statements for irregular rules: C16Dates.lean.  CPython's isocalendar is transcribed in the model
  (`pyIsocalendar`) and tied to the real one by the correspondence op `wy.pyiso` (harness/c16.py).
-/
import PyodaModel.WeekYear
import PyodaProofs.Basic
import PyodaProofs.C01Instances

namespace Pyoda.C16
open Pyoda Pyoda.WeekYear

def CalWF (c : Cal) : Prop := ∀ y, c.start (y + 1) = c.start y + c.len y ∧ 7 ≤ c.len y
def RuleOK (r : Rule) : Prop :=
  r.irregular = false ∧ 1 ≤ r.minDaysInFirstWeek ∧ r.minDaysInFirstWeek ≤ 7 ∧ 1 ≤ r.firstDayOfWeek ∧ r.firstDayOfWeek ≤ 7

/-- the code's two-branch day-of-week formula is the ISO weekday of the day number -/
theorem dayOfWeek_eq (d : Int) : dayOfWeek d = (d + 3) % 7 + 1 := by
  unfold dayOfWeek
  simp only [csharpMod_pos _ _ (by decide : (0:Int) < 7)]
  split <;> split <;> omega

theorem dayOfWeek_range (d : Int) : 1 ≤ dayOfWeek d ∧ dayOfWeek d ≤ 7 := by
  rw [dayOfWeek_eq]; omega

section
variable {r : Rule} {c : Cal} (hr : RuleOK r) (hc : CalWF c)
include hr

/-- a week-year starts on the rule's first day of week -/
theorem weekYearStart_aligned (y : Int) : dayOfWeek (weekYearStart r c y) = r.firstDayOfWeek := by
  obtain ⟨_, h1, h2, h3, h4⟩ := hr
  rw [dayOfWeek_eq]
  simp only [weekYearStart]
  split <;> split <;> omega

/-- … and lies in the window that puts at least `minDaysInFirstWeek` days of week 1 into the calendar year -/
theorem weekYearStart_window (y : Int) :
    c.start y - 7 + r.minDaysInFirstWeek ≤ weekYearStart r c y ∧
    weekYearStart r c y ≤ c.start y + r.minDaysInFirstWeek - 1 := by
  obtain ⟨_, h1, h2, h3, h4⟩ := hr
  simp only [weekYearStart]
  split <;> split <;> omega

include hc

/-- the number of weeks reported for a week-year is the distance to the next week-year start, in weeks -/
theorem weeks_span (y : Int) :
    weeksIn r c y * 7 = weekYearStart r c (y + 1) - weekYearStart r c y ∧ 1 ≤ weeksIn r c y := by
  have a1 := weekYearStart_aligned hr (c := c) y
  have a2 := weekYearStart_aligned hr (c := c) (y + 1)
  have w1 := weekYearStart_window hr (c := c) y
  have w2 := weekYearStart_window hr (c := c) (y + 1)
  have hy := hc y
  obtain ⟨hi, h1, h2, h3, h4⟩ := hr
  rw [dayOfWeek_eq] at a1 a2
  simp only [weeksIn, hi, Bool.false_eq_true, if_false]
  simp (disch := decide) only [tdiv_pos]
  generalize weekYearStart r c y = ws at *
  generalize weekYearStart r c (y + 1) = ws' at *
  split <;> omega

/-- week-year starts are strictly increasing -/
theorem weekYearStart_lt (y : Int) : weekYearStart r c y < weekYearStart r c (y + 1) := by
  have := weeks_span hr hc y
  omega

/-- the week-year reported for a date of calendar year `cy` contains that date -/
theorem weekYear_contains (cy d : Int) (h1 : c.start cy ≤ d) (h2 : d < c.start (cy + 1)) :
    weekYearStart r c (weekYear r c cy d) ≤ d ∧ d < weekYearStart r c (weekYear r c cy d + 1) := by
  have s0 := weeks_span hr hc cy
  have sm := weeks_span hr hc (cy - 1)
  have wA := weekYearStart_window hr (c := c) cy
  have wB := weekYearStart_window hr (c := c) (cy + 1)
  have wC := weekYearStart_window hr (c := c) (cy - 1)
  have wD := weekYearStart_window hr (c := c) (cy + 1 + 1)
  have hy := hc cy
  have hy' := hc (cy - 1)
  have hy'' := hc (cy + 1)
  have e1 : cy - 1 + 1 = cy := by omega
  rw [e1] at sm hy'
  obtain ⟨hi, g1, g2, g3, g4⟩ := hr
  simp only [weekYear, hi, Bool.false_eq_true, if_false]
  split
  · rw [e1]; omega
  · split
    · omega
    · omega

/-- the week-year differs from the calendar year by at most one -/
theorem weekYear_adjacent (cy d : Int) :
    cy - 1 ≤ weekYear r c cy d ∧ weekYear r c cy d ≤ cy + 1 := by
  simp only [weekYear]
  split <;> (try split) <;> (try split) <;> omega

/-- the week number lies within the number of weeks of its week-year -/
theorem week_le_weeksInYear (cy d : Int) (h1 : c.start cy ≤ d) (h2 : d < c.start (cy + 1)) :
    1 ≤ weekOf r c cy d ∧ weekOf r c cy d ≤ weeksIn r c (weekYear r c cy d) := by
  have hcont := weekYear_contains hr hc cy d h1 h2
  have hs := weeks_span hr hc (weekYear r c cy d)
  simp only [weekOf]
  simp (disch := decide) only [tdiv_pos]
  generalize weekYear r c cy d = w at *
  split <;> omega

/-- (week-year, week, day-of-week) converts back to the same day -/
theorem weekDate_roundtrip (cy d : Int) (h1 : c.start cy ≤ d) (h2 : d < c.start (cy + 1)) :
    weekYearStart r c (weekYear r c cy d) + (weekOf r c cy d - 1) * 7 +
      (dayOfWeek d - r.firstDayOfWeek + 7) % 7 = d := by
  have hcont := weekYear_contains hr hc cy d h1 h2
  have ha := weekYearStart_aligned hr (c := c) (weekYear r c cy d)
  rw [dayOfWeek_eq] at ha
  rw [dayOfWeek_eq]
  simp only [weekOf]
  simp (disch := decide) only [tdiv_pos]
  obtain ⟨_, g1, g2, g3, g4⟩ := hr
  generalize weekYear r c cy d = w at *
  generalize weekYearStart r c w = ws at *
  split <;> omega

/-- `get_local_date` inverts `get_week_year`/`get_week_of_week_year`/`day_of_week` whenever it accepts the week-year
    and the day lies in the calendar's day range -/
theorem localDate_roundtrip (yo : Int → Int) (cy d : Int) (h1 : c.start cy ≤ d) (h2 : d < c.start (cy + 1))
    (hv : validateWeekYear r c (weekYear r c cy d) = .ok ()) (hd : c.minDays ≤ d ∧ d ≤ c.maxDays) :
    localDate r c yo (weekYear r c cy d) (weekOf r c cy d) (dayOfWeek d) = .ok d := by
  have hw := week_le_weeksInYear hr hc cy d h1 h2
  have hrt := weekDate_roundtrip hr hc cy d h1 h2
  have hdow := dayOfWeek_range d
  have hi := hr.1
  simp only [localDate, hv, bind, Except.bind, checkRange]
  rw [if_neg (by omega)]
  simp only []
  rw [if_neg (by omega)]
  rw [hrt]
  rw [if_neg (by omega)]
  simp [hi]

/-- weeks advance by one every seven days, restarting at 1 when the next week-year begins -/
theorem weeks_advance (w d : Int) (h1 : weekYearStart r c w ≤ d) (h2 : d < weekYearStart r c (w + 1)) :
    (d + 7 < weekYearStart r c (w + 1) ∧ (d + 7 - weekYearStart r c w) / 7 + 1 = (d - weekYearStart r c w) / 7 + 1 + 1) ∨
    (weekYearStart r c (w + 1) ≤ d + 7 ∧ d + 7 < weekYearStart r c (w + 1 + 1) ∧
      (d + 7 - weekYearStart r c (w + 1)) / 7 + 1 = 1 ∧ (d - weekYearStart r c w) / 7 + 1 = weeksIn r c w) := by
  have s0 := weeks_span hr hc w
  have s1 := weeks_span hr hc (w + 1)
  generalize weekYearStart r c w = a at *
  generalize weekYearStart r c (w + 1) = b at *
  generalize weekYearStart r c (w + 1 + 1) = e at *
  omega

end

/-! ### the ISO rule agrees with CPython's `isocalendar` -/

def isoRule' : Rule := ⟨4, 1, false⟩

theorem isoRule_ok : RuleOK isoRule' := by simp [RuleOK, isoRule']

/-- CPython's first-Monday computation is the ISO rule's week-year start (as an ordinal) -/
theorem pyIsoWeek1Monday_eq (c : Cal) (y : Int) :
    pyIsoWeek1Monday c y = weekYearStart isoRule' c y + 719163 := by
  simp only [pyIsoWeek1Monday, weekYearStart, isoRule']
  split <;> split <;> split <;> omega

/-- For every date of a calendar whose years have at least 365 days (the Gregorian table in particular), the
    ISO rule's (week-year, week, weekday) is exactly what `datetime.date.isocalendar()` computes. -/
theorem iso_rule_matches_isocalendar {c : Cal} (hc : CalWF c) (hlen : ∀ y, 365 ≤ c.len y) (cy d : Int)
    (h1 : c.start cy ≤ d) (h2 : d < c.start (cy + 1)) :
    pyIsocalendar c cy d = (weekYear isoRule' c cy d, weekOf isoRule' c cy d, dayOfWeek d) := by
  have hr := isoRule_ok
  have s0 := weeks_span hr hc cy
  have sm := weeks_span hr hc (cy - 1)
  have wA := weekYearStart_window hr (c := c) cy
  have wB := weekYearStart_window hr (c := c) (cy + 1)
  have wC := weekYearStart_window hr (c := c) (cy - 1)
  have aA := weekYearStart_aligned hr (c := c) cy
  have aC := weekYearStart_aligned hr (c := c) (cy - 1)
  have aB := weekYearStart_aligned hr (c := c) (cy + 1)
  have hy := hc cy
  have hy' := hc (cy - 1)
  have l0 := hlen cy
  have l1 := hlen (cy - 1)
  have e1 : cy - 1 + 1 = cy := by omega
  rw [e1] at sm hy'
  rw [dayOfWeek_eq] at aA aB aC
  simp only [pyIsocalendar, pyIsoWeek1Monday_eq, weekYear, weekOf, dayOfWeek_eq, isoRule', Bool.false_eq_true, if_false]
  simp only [isoRule'] at *
  simp (disch := decide) only [tdiv_pos]
  by_cases c1 : d < weekYearStart ⟨4, 1, false⟩ c cy
  · have g1 : (d + 719163 - (weekYearStart ⟨4, 1, false⟩ c cy + 719163)) / 7 < 0 := by omega
    simp only [g1, if_true, c1]
    refine Prod.ext ?_ (Prod.ext ?_ ?_) <;> simp only [] <;> (try split) <;> omega
  · have g1 : ¬ (d + 719163 - (weekYearStart ⟨4, 1, false⟩ c cy + 719163)) / 7 < 0 := by omega
    simp only [g1, if_false, c1]
    by_cases c2 : d < weekYearStart ⟨4, 1, false⟩ c cy + weeksIn ⟨4, 1, false⟩ c cy * 7
    · have g2 : ¬ ((d + 719163 - (weekYearStart ⟨4, 1, false⟩ c cy + 719163)) / 7 ≥ 52 ∧
          d + 719163 ≥ weekYearStart ⟨4, 1, false⟩ c (cy + 1) + 719163) := by omega
      simp only [g2, if_false, c2, if_true]
      refine Prod.ext ?_ (Prod.ext ?_ ?_) <;> simp only [] <;> (try split) <;> omega
    · have g2 : (d + 719163 - (weekYearStart ⟨4, 1, false⟩ c cy + 719163)) / 7 ≥ 52 ∧
          d + 719163 ≥ weekYearStart ⟨4, 1, false⟩ c (cy + 1) + 719163 := by omega
      simp only [g2, and_self, if_true, c2, if_false]
      refine Prod.ext ?_ (Prod.ext ?_ ?_) <;> simp only [] <;> (try split) <;> omega

/-- the Gregorian/ISO calendar of the Calendar area as a week-year table -/
def gregCal : Cal :=
  { start := Calendar.Greg.start, len := Calendar.Greg.len, minYear := -9998, maxYear := 9999,
    minDays := -4371222, maxDays := 2932896 }

theorem greg_len_ge (y : Int) : 365 ≤ Calendar.Greg.len y := by
  unfold Calendar.Greg.len; split <;> omega

theorem gregCal_wf : CalWF gregCal ∧ ∀ y, 365 ≤ gregCal.len y := by
  refine ⟨fun y => ?_, fun y => greg_len_ge y⟩
  show Calendar.Greg.start (y + 1) = Calendar.Greg.start y + Calendar.Greg.len y ∧ 7 ≤ Calendar.Greg.len y
  have := C01.greg_recur y
  have hl := greg_len_ge y
  exact ⟨this.1, by omega⟩

/-- **ISO 8601**: for every Gregorian date, the ISO rule gives exactly CPython's `isocalendar()` -/
theorem iso_matches_isocalendar_gregorian (cy d : Int)
    (h1 : Calendar.Greg.start cy ≤ d) (h2 : d < Calendar.Greg.start (cy + 1)) :
    pyIsocalendar gregCal cy d = (weekYear isoRule' gregCal cy d, weekOf isoRule' gregCal cy d, dayOfWeek d) :=
  iso_rule_matches_isocalendar gregCal_wf.1 gregCal_wf.2 cy d h1 h2

/-! ### weekday navigation -/

theorem next_spec (d t : Int) (ht : 1 ≤ t ∧ t ≤ 7) :
    1 ≤ nextDiff d t ∧ nextDiff d t ≤ 7 ∧ dayOfWeek (d + nextDiff d t) = t := by
  simp only [nextDiff, dayOfWeek_eq]
  split <;> omega

theorem previous_spec (d t : Int) (ht : 1 ≤ t ∧ t ≤ 7) :
    -7 ≤ prevDiff d t ∧ prevDiff d t ≤ -1 ∧ dayOfWeek (d + prevDiff d t) = t := by
  simp only [prevDiff, dayOfWeek_eq]
  split <;> omega

theorem nextOrSame_spec (d t : Int) (ht : 1 ≤ t ∧ t ≤ 7) :
    0 ≤ nextOrSameDiff d t ∧ nextOrSameDiff d t ≤ 6 ∧ dayOfWeek (d + nextOrSameDiff d t) = t := by
  simp only [nextOrSameDiff, nextDiff, dayOfWeek_eq]
  split <;> (try split) <;> omega

theorem previousOrSame_spec (d t : Int) (ht : 1 ≤ t ∧ t ≤ 7) :
    -6 ≤ prevOrSameDiff d t ∧ prevOrSameDiff d t ≤ 0 ∧ dayOfWeek (d + prevOrSameDiff d t) = t := by
  simp only [prevOrSameDiff, prevDiff, dayOfWeek_eq]
  split <;> (try split) <;> omega

/-- the n-th (or, for 5, the last) requested weekday of a month -/
theorem nthWeekday_spec (first dim occ dow : Int) (ho : 1 ≤ occ ∧ occ ≤ 5) (hd : 1 ≤ dow ∧ dow ≤ 7)
    (hm : 28 ≤ dim ∧ dim ≤ 31) :
    ∃ day, nthWeekdayOfMonth first dim occ dow = .ok day ∧ 1 ≤ day ∧ day ≤ dim ∧
      dayOfWeek (first + day - 1) = dow ∧ ((day - 1) / 7 + 1 = occ ∨ (occ = 5 ∧ day + 7 > dim)) := by
  simp only [nthWeekdayOfMonth, checkRange, bind, Except.bind, dayOfWeek_eq]
  rw [if_neg (by omega), if_neg (by omega)]
  simp only []
  split <;> split <;> (refine ⟨_, rfl, ?_⟩; omega)

/-! ### non-vacuity: the Gregorian years 2024–2026 as a table, the ISO rule -/
def isoRule : Rule := ⟨4, 1, false⟩
example : RuleOK isoRule := by simp [RuleOK, isoRule]
example : dayOfWeek 19723 = 1 := by decide    -- 2024-01-01 is a Monday
example : nthWeekdayOfMonth 19814 30 3 1 = .ok 15 := by decide   -- third Monday of April 2024

end Pyoda.C16
