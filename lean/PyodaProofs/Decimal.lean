/-
  The Decimal-based `_towards_zero_division` is exact truncation for operands below 10^27 in magnitude.
  (Until now this was an ASSUMPTION of the trusted base, tied to CPython by sampling; it is now a theorem about
  the full model `Decimal.pyTdivFull` of the 28-digit decimal arithmetic, and the model is tied to CPython by
  the correspondence op `tdivfull` on operands of any size.)
-/
import PyodaModel.Decimal
import Mathlib.Tactic.Linarith
import Mathlib.Tactic.Ring

namespace Pyoda.Decimal
open Pyoda

theorem digits_zero : digits 0 = 0 := by unfold digits; simp

theorem digits_pos (n : Nat) (h : n ≠ 0) : digits n = 1 + digits (n / 10) := by
  rw [digits]; simp [h]

/-- `n < 10 ^ digits n` -/
theorem lt_pow_digits (n : Nat) : n < 10 ^ digits n := by
  induction n using Nat.strongRecOn with
  | _ n ih =>
    by_cases h : n = 0
    · subst h; rw [digits_zero]; decide
    · rw [digits_pos n h, Nat.pow_add]
      have := ih (n / 10) (by omega)
      omega

/-- `10 ^ (digits n - 1) ≤ n` for `n ≠ 0` -/
theorem pow_digits_le (n : Nat) (h : n ≠ 0) : 10 ^ (digits n - 1) ≤ n := by
  induction n using Nat.strongRecOn with
  | _ n ih =>
    rw [digits_pos n h]
    by_cases h10 : n / 10 = 0
    · rw [h10, digits_zero]; simp; omega
    · have := ih (n / 10) (by omega) h10
      have e : 1 + digits (n / 10) - 1 = (digits (n / 10) - 1) + 1 := by
        have : digits (n / 10) ≠ 0 := by rw [digits_pos _ h10]; omega
        omega
      rw [e, Nat.pow_succ]
      omega

/-- the rounding never reaches the integer part when the divisor is below `10 ^ s` -/
theorem no_carry (a b s : Nat) (hb : 0 < b) (hbs : b < 10 ^ s) (c : Nat) (hc : c ≤ 1) :
    (a * 10 ^ s / b + c) / 10 ^ s = a / b := by
  have hp : 0 < 10 ^ s := Nat.pos_of_ne_zero (by positivity)
  -- a = n b + r
  have hdm := Nat.div_add_mod a b
  set n := a / b with hn
  set r := a % b with hr
  have hrb : r < b := Nat.mod_lt _ hb
  -- a * 10^s = (n * 10^s) * b + r * 10^s
  have e1 : a * 10 ^ s = b * (n * 10 ^ s) + r * 10 ^ s := by rw [← hdm]; ring
  have e2 : a * 10 ^ s / b = n * 10 ^ s + r * 10 ^ s / b := by
    rw [e1, Nat.mul_add_div hb]
  -- f = r * 10^s / b ≤ 10^s - 2
  have hf : r * 10 ^ s / b + 1 < 10 ^ s := by
    have h1 : r * 10 ^ s ≤ (b - 1) * 10 ^ s := Nat.mul_le_mul_right _ (by omega)
    -- (b-1) * 10^s < (10^s - 1) * b  because b < 10^s
    have h2 : (b - 1) * 10 ^ s < (10 ^ s - 1) * b := by
      have hb1 : b - 1 + 1 = b := by omega
      have hp1 : 10 ^ s - 1 + 1 = 10 ^ s := by omega
      nlinarith
    have h3 : r * 10 ^ s / b < 10 ^ s - 1 := by
      apply Nat.div_lt_of_lt_mul
      calc r * 10 ^ s ≤ (b - 1) * 10 ^ s := h1
        _ < (10 ^ s - 1) * b := h2
        _ = b * (10 ^ s - 1) := by ring
    omega
  rw [e2]
  have : n * 10 ^ s + r * 10 ^ s / b + c = r * 10 ^ s / b + c + n * 10 ^ s := by ring
  rw [this, Nat.add_mul_div_right _ _ hp, Nat.div_eq_of_lt (by omega)]
  omega

/-- magnitudes: below 10^27 the Decimal route returns the truncated quotient -/
theorem tdivMag_exact (a b : Nat) (hb : 0 < b) (ha : a < 10 ^ 27) (hb2 : b < 10 ^ 27) :
    tdivMag a b = some (a / b) := by
  have hn : a / b < 10 ^ 27 := lt_of_le_of_lt (Nat.div_le_self _ _) ha
  have hn28 : ¬ a / b ≥ 10 ^ prec := by unfold prec; omega
  have hk : digits (a / b) ≤ 27 := by
    by_contra hc
    have h28 : 28 ≤ digits (a / b) := by omega
    have hne : a / b ≠ 0 := by intro h0; rw [h0, digits_zero] at h28; omega
    have := pow_digits_le (a / b) hne
    have : 10 ^ 27 ≤ 10 ^ (digits (a / b) - 1) := Nat.pow_le_pow_right (by decide) (by omega)
    omega
  -- b < 10 ^ (28 - digits n)
  have hbs : b < 10 ^ (prec - digits (a / b)) := by
    unfold prec
    by_cases h0 : a / b = 0
    · rw [h0, digits_zero]; omega
    · have h1 := pow_digits_le (a / b) h0
      have h2 : a / b * b ≤ a := Nat.div_mul_le_self a b
      by_contra hc
      have hc' : 10 ^ (28 - digits (a / b)) ≤ b := by omega
      have : 10 ^ (digits (a / b) - 1) * 10 ^ (28 - digits (a / b)) ≤ a / b * b := Nat.mul_le_mul h1 hc'
      have hd : digits (a / b) ≠ 0 := by rw [digits_pos _ h0]; omega
      rw [← Nat.pow_add] at this
      have e : digits (a / b) - 1 + (28 - digits (a / b)) = 27 := by omega
      rw [e] at this
      omega
  unfold tdivMag
  simp only [hn28, if_false]
  split
  · rw [no_carry a b _ hb hbs 1 (by omega)]
    simp only [hn28, if_false]
  · have := no_carry a b _ hb hbs 0 (by omega)
    simp only [Nat.add_zero] at this
    rw [this]
    simp only [hn28, if_false]

/-- **exactness**: for operands below 10^27 in magnitude the Decimal-based division is truncation toward zero -/
theorem pyTdivFull_exact (x y : Int) (hy : y ≠ 0) (hx1 : -decBound < x) (hx2 : x < decBound)
    (hy1 : -decBound < y) (hy2 : y < decBound) : pyTdivFull x y = .ok (Int.tdiv x y) := by
  have ha : x.natAbs < 10 ^ 27 := by unfold decBound at hx1 hx2; omega
  have hb2 : y.natAbs < 10 ^ 27 := by unfold decBound at hy1 hy2; omega
  have hb : 0 < y.natAbs := by omega
  unfold pyTdivFull
  rw [if_neg hy, tdivMag_exact _ _ hb ha hb2]
  simp only [Except.ok.injEq]
  -- sign bookkeeping of truncated division
  obtain ⟨a, rfl | rfl⟩ := Int.eq_nat_or_neg x <;> obtain ⟨b, rfl | rfl⟩ := Int.eq_nat_or_neg y
  · have h1 : ¬ ((a : Int) < 0) := by omega
    have h2 : ¬ ((b : Int) < 0) := by omega
    simp only [h1, h2, if_true, Int.natAbs_natCast, Int.ofNat_tdiv]
  · have h1 : ¬ ((a : Int) < 0) := by omega
    have h2 : (-(b : Int) < 0) := by omega
    simp only [h1, h2, eq_iff_iff, false_iff, not_true_eq_false, if_false, Int.natAbs_neg, Int.natAbs_natCast,
      Int.tdiv_neg, Int.ofNat_tdiv]
  · have h2 : ¬ ((b : Int) < 0) := by omega
    by_cases ha0 : a = 0
    · subst ha0; simp
    · have h1 : (-(a : Int) < 0) := by omega
      simp only [h1, h2, eq_iff_iff, iff_false, not_true_eq_false, if_false, Int.natAbs_neg, Int.natAbs_natCast,
        Int.neg_tdiv, Int.ofNat_tdiv]
  · have h2 : (-(b : Int) < 0) := by omega
    by_cases ha0 : a = 0
    · subst ha0; simp
    · have h1 : (-(a : Int) < 0) := by omega
      simp only [h1, h2, if_true, Int.natAbs_neg, Int.natAbs_natCast, Int.neg_tdiv, Int.tdiv_neg, Int.neg_neg,
        Int.ofNat_tdiv]

/-- `Prelude.pyTdiv` (the function the models use) is the restriction of the full Decimal model to operands
    below 10^27: whenever it answers, the full model answers the same -/
theorem pyTdiv_refines_full (x y : Int) (q : Int) (h : pyTdiv x y = .ok q) : pyTdivFull x y = .ok q := by
  unfold pyTdiv at h
  by_cases hy : y = 0
  · rw [if_pos hy] at h; split at h <;> cases h
  · rw [if_neg hy] at h
    by_cases hd : inDecDomain x y = true
    · rw [if_pos hd] at h
      simp only [inDecDomain, Bool.and_eq_true, decide_eq_true_eq] at hd
      rw [pyTdivFull_exact x y hy hd.1.1.1 hd.1.1.2 hd.1.2 hd.2]
      exact h
    · rw [if_neg hd] at h; cases h

/-- errors agree as well on a zero divisor -/
theorem pyTdiv_zero_divisor (x : Int) : pyTdiv x 0 = pyTdivFull x 0 := by
  unfold pyTdiv pyTdivFull; simp

/-- outside the exactness domain the Decimal route really differs from truncation: the fraction 0.99…9 of
    (10^30 - 1) / 10^30 is rounded up to 1 (this was the day-carry defect repaired in /repo), a 28-digit
    quotient is rounded half-even, and longer quotients raise InvalidOperation -/
example : pyTdivFull (10 ^ 30 - 1) (10 ^ 30) = .ok 1 ∧ Int.tdiv (10 ^ 30 - 1) (10 ^ 30) = 0 := by decide +kernel
example : pyTdivFull (2 * (10 ^ 28 - 1) + 1) 2 = .error .decimalDomain := by decide +kernel
example : pyTdivFull (2 * (10 ^ 27 + 1) + 1) 2 = .ok (10 ^ 27 + 2) ∧ Int.tdiv (2 * (10 ^ 27 + 1) + 1) 2 = 10 ^ 27 + 1 := by
  decide +kernel
example : pyTdivFull (10 ^ 30) 1 = .error .decimalDomain := by decide +kernel

end Pyoda.Decimal
