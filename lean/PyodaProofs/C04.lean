/-
  C04 — each zone partitions the timeline into maximal offset intervals.
  Theorems about the model of the precalculated part (binary search over stored periods), of fixed zones, and
  of the seam between the stored periods and the recurring tail.  The recurring tail is treated in C04Tail /
  C04TailRules (years 1901…9994) and C04TailEnd (`tail_seq`, `tail_partition_end`: through year 9999 and the
  final interval ending at the after-max sentinel), the whole zone including the seam in C04Zone
  (`zoneOK_sound`, `zoneOK_gives_spec`), walks and maximality in C04Walk.  `tailPartitionStatement` below (the
  tail map ALONE on every valid instant, i.e. also before its first covered transition of 1901, where
  `Precalc.get` never consults it) stays unproved and is not needed.
-/
import PyodaModel.ZoneOps
import PyodaProofs.Basic

namespace Pyoda.C04
open Pyoda Pyoda.Zone

/-- well-formedness of the stored periods (decidable; evaluated on the current data by `zone.wf`) -/
structure PeriodsWF (ps : Array ZI) : Prop where
  nonempty : 0 < ps.size
  pos : ∀ (i : Nat) (z : ZI), ps[i]? = some z → z.s < z.e
  abut : ∀ (i : Nat) (a b : ZI), ps[i]? = some a → ps[i+1]? = some b → a.e = b.s

theorem get?_some_of_lt (ps : Array ZI) (i : Nat) (h : i < ps.size) : ∃ z, ps[i]? = some z :=
  ⟨ps[i], by simp [h]⟩

theorem lt_of_get?_some (ps : Array ZI) (i : Nat) (z : ZI) (h : ps[i]? = some z) : i < ps.size := by
  by_cases hi : i < ps.size
  · exact hi
  · simp [hi] at h

/-- later periods start at or after the end of earlier ones -/
theorem mono {ps : Array ZI} (wf : PeriodsWF ps) :
    ∀ (d i : Nat) (a b : ZI), ps[i]? = some a → ps[i + d + 1]? = some b → a.e ≤ b.s := by
  intro d
  induction d with
  | zero => intro i a b ha hb; exact Int.le_of_eq (wf.abut i a b ha hb)
  | succ d ih =>
    intro i a b ha hb
    have hlt := lt_of_get?_some ps _ b hb
    obtain ⟨c, hc⟩ := get?_some_of_lt ps (i + d + 1) (by omega)
    have h1 := ih i a c ha hc
    have h2 := wf.abut (i + d + 1) c b hc (by rw [show i + d + 1 + 1 = i + (d + 1) + 1 by omega]; exact hb)
    have h3 := wf.pos _ c hc
    omega

theorem mono' {ps : Array ZI} (wf : PeriodsWF ps) (i j : Nat) (a b : ZI) (hij : i < j)
    (ha : ps[i]? = some a) (hb : ps[j]? = some b) : a.e ≤ b.s := by
  have := mono wf (j - i - 1) i a b ha (by rw [show i + (j - i - 1) + 1 = j by omega]; exact hb)
  exact this

/-- The binary search of `_PrecalculatedDateTimeZone.get_zone_interval` returns the stored period containing
    `t` whenever one exists between `lower` and `upper` and the fuel covers the remaining range. -/
theorem search_spec {ps : Array ZI} (wf : PeriodsWF ps) (t : Int) :
    ∀ (fuel lower upper : Nat), upper ≤ ps.size → upper - lower < fuel →
      (∃ (k : Nat) (z : ZI), lower ≤ k ∧ k < upper ∧ ps[k]? = some z ∧ z.s ≤ t ∧ t < z.e) →
      ∃ z, Precalc.search ps t fuel lower upper = .ok z ∧ z.s ≤ t ∧ t < z.e ∧ ∃ k : Nat, ps[k]? = some z := by
  intro fuel
  induction fuel with
  | zero => intro lower upper _ hf; omega
  | succ fuel ih =>
    intro lower upper hu hf ⟨k, z, hk1, hk2, hkz, hz1, hz2⟩
    unfold Precalc.search
    have hlu : lower < upper := by omega
    simp only [hlu, if_true]
    have hcur : (lower + upper) / 2 < ps.size := by omega
    obtain ⟨c, hc⟩ := get?_some_of_lt ps _ hcur
    simp only [hc]
    by_cases h1 : c.s > t
    · simp only [h1, if_true]
      have hkc : k < (lower + upper) / 2 := by
        by_cases hq : k < (lower + upper) / 2
        · exact hq
        · exfalso
          by_cases he : k = (lower + upper) / 2
          · rw [he, hc] at hkz; cases hkz; omega
          · have := mono' wf ((lower + upper) / 2) k c z (by omega) hc hkz
            have := wf.pos _ c hc
            omega
      exact ih lower ((lower + upper) / 2) (by omega) (by omega) ⟨k, z, hk1, hkc, hkz, hz1, hz2⟩
    · simp only [h1, if_false]
      by_cases h2 : c.e ≤ t
      · simp only [h2, if_true]
        have hkc : (lower + upper) / 2 + 1 ≤ k := by
          by_cases hq : (lower + upper) / 2 + 1 ≤ k
          · exact hq
          · exfalso
            by_cases he : k = (lower + upper) / 2
            · rw [he, hc] at hkz; cases hkz; omega
            · have := mono' wf k ((lower + upper) / 2) z c (by omega) hkz hc
              have := wf.pos _ z hkz
              omega
        exact ih ((lower + upper) / 2 + 1) upper hu (by omega) ⟨k, z, hkc, hk2, hkz, hz1, hz2⟩
      · simp only [h2, if_false]
        exact ⟨c, rfl, by omega, by omega, _, hc⟩

/-- the stored periods cover everything from the start of the first to the end of the last -/
theorem cover {ps : Array ZI} (wf : PeriodsWF ps) (t : Int) :
    ∀ (n : Nat) (a b : ZI), ps[0]? = some a → ps[n]? = some b → a.s ≤ t → t < b.e →
      ∃ (k : Nat) (z : ZI), k ≤ n ∧ ps[k]? = some z ∧ z.s ≤ t ∧ t < z.e := by
  intro n
  induction n with
  | zero =>
    intro a b ha hb h1 h2
    rw [ha] at hb; cases hb
    exact ⟨0, a, Nat.le_refl 0, ha, h1, h2⟩
  | succ n ih =>
    intro a b ha hb h1 h2
    have hlt := lt_of_get?_some ps _ b hb
    obtain ⟨c, hc⟩ := get?_some_of_lt ps n (by omega)
    have hab := wf.abut n c b hc hb
    by_cases hq : t < c.e
    · obtain ⟨k, z, hk, hz⟩ := ih a c ha hc h1 hq
      exact ⟨k, z, by omega, hz⟩
    · exact ⟨n + 1, b, Nat.le_refl _, hb, by omega, h2⟩

/-- Precalculated part: every instant from the beginning of time up to the end of the stored periods gets the
    stored period that contains it. -/
theorem precalc_get_contains (p : Precalc) (wf : PeriodsWF p.periods) (t : Int) (a : ZI)
    (ha : p.periods[0]? = some a) (h1 : a.s ≤ t) (h2 : t < p.tailStart) :
    ∃ z, p.get t = .ok z ∧ z.s ≤ t ∧ t < z.e ∧ ∃ k : Nat, p.periods[k]? = some z := by
  have hne := wf.nonempty
  obtain ⟨b, hb⟩ := get?_some_of_lt p.periods (p.periods.size - 1) (by omega)
  have hback : p.periods.back? = some b := by
    simp only [Array.back?]; exact hb
  have hts : p.tailStart = b.e := by simp [Precalc.tailStart, hback]
  rw [hts] at h2
  obtain ⟨k, z, hk, hz, hz1, hz2⟩ := cover wf t (p.periods.size - 1) a b ha hb h1 h2
  have key := search_spec wf t (p.periods.size + 1) 0 p.periods.size (Nat.le_refl _) (by omega)
    ⟨k, z, Nat.zero_le _, by omega, hz, hz1, hz2⟩
  unfold Precalc.get
  cases htl : p.tail with
  | none => simpa using key
  | some tz =>
    have : ¬ (t ≥ p.tailStart) := by rw [hts]; omega
    simp only [this, if_false]
    exact key

/-- two stored periods containing the same instant are the same period (no overlap) -/
theorem precalc_get_unique {ps : Array ZI} (wf : PeriodsWF ps) (t : Int) (i j : Nat) (a b : ZI)
    (ha : ps[i]? = some a) (hb : ps[j]? = some b) (h1 : a.s ≤ t ∧ t < a.e) (h2 : b.s ≤ t ∧ t < b.e) : i = j := by
  by_cases hij : i = j
  · exact hij
  · exfalso
    by_cases hlt : i < j
    · have := mono' wf i j a b hlt ha hb; omega
    · have := mono' wf j i b a (by omega) hb ha; omega

/-- consecutive stored periods abut: the period found at the end of one starts exactly there -/
theorem precalc_abut (p : Precalc) (wf : PeriodsWF p.periods) (k : Nat) (z a : ZI)
    (ha : p.periods[0]? = some a) (hz : p.periods[k]? = some z) (he : z.e < p.tailStart) :
    ∃ z', p.get z.e = .ok z' ∧ z'.s = z.e := by
  have hk := lt_of_get?_some _ _ _ hz
  have has : a.s ≤ z.e := by
    have := wf.pos _ z hz
    by_cases h0 : k = 0
    · subst h0; rw [ha] at hz; cases hz; omega
    · have := mono' wf 0 k a z (by omega) ha hz
      have := wf.pos _ a ha
      omega
  obtain ⟨z', h1, h2, h3, j, hj⟩ := precalc_get_contains p wf z.e a ha has he
  refine ⟨z', h1, ?_⟩
  -- z' contains z.e, so it comes after z; by monotonicity its start is ≥ z.e
  have hjk : k < j := by
    by_cases hq : k < j
    · exact hq
    · exfalso
      by_cases he' : j = k
      · subst he'; rw [hz] at hj; cases hj; omega
      · have := mono' wf j k z' z (by omega) hj hz
        have := wf.pos _ z hz
        omega
  have := mono' wf k j z z' hjk hz hj
  omega

/-- the decidable check evaluated by the driver on the current data (`zone.wf`) implies `PeriodsWF` -/
theorem periodsWF_sound (ps : Array ZI) (h : periodsWF ps = true) : PeriodsWF ps := by
  simp only [periodsWF, Bool.and_eq_true, decide_eq_true_eq, List.all_eq_true, List.mem_range] at h
  obtain ⟨⟨⟨h1, _⟩, h3⟩, h4⟩ := h
  refine ⟨h1, ?_, ?_⟩
  · intro i z hz
    have hi := lt_of_get?_some _ _ _ hz
    rw [Array.all_eq_true] at h3
    have := h3 i hi
    have e : ps[i] = z := by
      have : ps[i]? = some ps[i] := by simp [hi]
      rw [this] at hz; exact Option.some.inj hz
    rw [e] at this
    simp only [Bool.and_eq_true, decide_eq_true_eq] at this
    exact this.1.1
  · intro i a b ha hb
    have hi := lt_of_get?_some _ _ _ hb
    have := h4 i (by omega)
    rw [ha, hb] at this
    simp only [Bool.and_eq_true, beq_iff_eq] at this
    exact this.1

/-- a fixed zone is a single interval covering all of time -/
theorem fixed_partition (z : ZI) (t : Int) : (ZoneDef.fixed z).get t = .ok z := rfl

/-- at the seam the tail's first interval is clamped to start where the stored periods end -/
theorem tail_seam (p : Precalc) (tz : AltMap) (htl : p.tail = some tz) (t : Int) (ht : t ≥ p.tailStart)
    (z : ZI) (hz : p.get t = .ok z) : p.tailStart ≤ z.s := by
  unfold Precalc.get at hz
  simp only [htl, ht, if_true, bind, Except.bind] at hz
  cases hiv : tz.get t with
  | error e => rw [hiv] at hz; cases hz
  | ok iv =>
    rw [hiv] at hz
    simp only at hz
    by_cases hc : iv.s < p.tailStart
    · simp only [hc, if_true] at hz
      cases hf : tz.get p.tailStart with
      | error e => rw [hf] at hz; cases hz
      | ok first =>
        rw [hf] at hz
        simp only [ZI.withStart, ZI.mk'] at hz
        split at hz
        · cases hz
        · cases hz; exact Int.le_refl _
    · simp only [hc, if_false] at hz
      cases hz; omega

/-- any interval the alternating map returns is non-empty, its wall offset is standard + savings within ±18 h -/
theorem altmap_get_shape (m : AltMap) (t : Int) (z : ZI) (h : m.get t = .ok z) :
    z.s < z.e ∧ -64800 ≤ z.wall ∧ z.wall ≤ 64800 ∧ z.wall = m.std + z.savings := by
  unfold AltMap.get at h
  simp only [bind, Except.bind] at h
  cases h1 : m.nextTransition t with
  | error e => rw [h1] at h; cases h
  | ok nx =>
    rw [h1] at h
    obtain ⟨n, cur⟩ := nx
    simp only at h
    cases h2 : (if cur = true then m.dstRec else m.stdRec).prevOrFail t m.std (if cur = true then 0 else m.dstRec.savings) with
    | error e => rw [h2] at h; cases h
    | ok pv =>
      rw [h2] at h
      simp only [offAdd] at h
      by_cases hr : m.std + (if cur = true then m.dstRec else m.stdRec).savings < -64800 ∨
          m.std + (if cur = true then m.dstRec else m.stdRec).savings > 64800
      · simp only [hr, if_true] at h; cases h
      · simp only [hr, if_false, ZI.mk'] at h
        by_cases hs : pv ≥ n
        · simp only [hs, if_true] at h; cases h
        · simp only [hs, if_false] at h
          cases h
          dsimp only
          exact ⟨by omega, by omega, by omega, rfl⟩

/-- the statement for the tail map alone on EVERY valid instant; proved from the first covered transition on
    (`C04.tail_partition_end`), not for the years before 1901, which `Precalc.get` never asks the tail map about -/
def tailPartitionStatement (m : AltMap) : Prop :=
  ∀ t, MINI ≤ t → t ≤ MAXI → ∃ z, m.get t = .ok z ∧ z.s ≤ t ∧ t < z.e ∧
    (∀ u, MINI ≤ u → u ≤ MAXI → z.s ≤ u → u < z.e → m.get u = .ok z)

/-! ### non-vacuity -/
def toyPeriods : Array ZI := #[⟨BMIN, 0, "A", 0, 0⟩, ⟨0, 1000, "B", 3600, 3600⟩, ⟨1000, AMAX, "A", 0, 0⟩]
example : Precalc.get ⟨toyPeriods, none⟩ 500 = .ok ⟨0, 1000, "B", 3600, 3600⟩ := by decide
example : Precalc.get ⟨toyPeriods, none⟩ 1000 = .ok ⟨1000, AMAX, "A", 0, 0⟩ := by decide
example : PeriodsWF toyPeriods := by
  refine ⟨by decide, ?_, ?_⟩
  · intro i z h
    have := lt_of_get?_some _ _ _ h
    have hs : toyPeriods.size = 3 := rfl
    rcases i with _ | _ | _ | i <;> simp [toyPeriods] at h <;> (try omega) <;> (subst h; simp [BMIN, AMAX, NPD])
  · intro i a b ha hb
    have := lt_of_get?_some _ _ _ hb
    have hs : toyPeriods.size = 3 := rfl
    rcases i with _ | _ | i <;> simp [toyPeriods] at ha hb <;> (try omega) <;> (subst ha; subst hb; rfl)

end Pyoda.C04
