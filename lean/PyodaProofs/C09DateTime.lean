/-
  C09 — `Period.between(LocalDateTime, LocalDateTime, units)` for every calendar with `DateLaws`:
  the end date is moved one day towards the start when the time of day of the end lies "behind" that of the start,
  the date units are counted up to that adjusted date, and the rest is expressed in the time units.
  Positions are measured on the local time line: `posDT c date nanos = dayNo c date · NPD + nanos`.
  `LocalDateTime.plus(period)` (C10: time units first with day carry, then years, months, weeks, days + carry) reaches
  position `posDT r startNanos + timeTotal` where `r` is start date + years + months + weeks + days.
-/
import PyodaModel.DateArith
import PyodaProofs.C09Between

namespace Pyoda.C09
open Pyoda Pyoda.Calendar Pyoda.DateArith Pyoda.C01

local macro "unfold_consts" : tactic =>
  `(tactic| simp only [NPD, NPH, NPMin, NPS, NPMs, NPUs, NPT] at *)

def posDT (c : Calc) (p : Ymd) (n : Int) : Int := dayNo c p * NPD + n

set_option maxRecDepth 4000 in
theorem mask_bits : ∀ mask : Nat, mask < 1024 →
    (mask &&& dateMask = 0 → bit mask 0 = false ∧ bit mask 1 = false ∧ bit mask 2 = false ∧ bit mask 3 = false) ∧
    (mask &&& timeMask = 0 → bit mask 4 = false ∧ bit mask 5 = false ∧ bit mask 6 = false ∧ bit mask 7 = false ∧
      bit mask 8 = false ∧ bit mask 9 = false) := by decide +kernel

theorem timeComponents_off (mask : Nat) (t : Int) (h : bit mask 4 = false ∧ bit mask 5 = false ∧ bit mask 6 = false ∧
    bit mask 7 = false ∧ bit mask 8 = false ∧ bit mask 9 = false) : (timeComponents mask t).1 = [0, 0, 0, 0, 0, 0] := by
  obtain ⟨h4, h5, h6, h7, h8, h9⟩ := h
  unfold timeComponents stepTime
  simp [h4, h5, h6, h7, h8, h9]

theorem nanosBetween_valid {c : Calc} (h : WF c) (a b : Ymd) (an bn : Int) (ha : Valid c a) (hb : Valid c b) :
    nanosBetween c a an b bn = .ok ((dayNo c b - dayNo c a) * NPD + (bn - an)) := by
  unfold nanosBetween
  rw [daysOf_valid h a ha, daysOf_valid h b hb]

theorem cmpDateTime_sign {c : Calc} (h : WF c) (s e : Ymd) (sn en : Int) (hs : Valid c s) (he : Valid c e)
    (hsn : 0 ≤ sn ∧ sn < NPD) (hen : 0 ≤ en ∧ en < NPD) :
    (cmpDateTime c s sn e en < 0 ↔ posDT c s sn < posDT c e en) ∧ (cmpDateTime c s sn e en > 0 ↔ posDT c s sn > posDT c e en) := by
  have cs := cmp_sign h s e hs he
  unfold cmpDateTime posDT
  unfold_consts
  by_cases h0 : cmpYmd c s e ≠ 0
  · rw [if_pos h0]
    constructor <;> constructor <;> intro hh <;> (have := cs.1; have := cs.2.1; have := cs.2.2; omega)
  · rw [if_neg h0]
    have : dayNo c s = dayNo c e := cs.2.1.1 (by omega)
    rw [this]
    constructor <;> constructor <;> intro hh <;> omega

/-- the end date adjusted by the times of day is a valid date, at most one day from the end towards the start -/
theorem adjustedEnd_spec {c : Calc} (h : WF c) (hl : YearLen c) (s e : Ymd) (sn en : Int) (hs : Valid c s) (he : Valid c e)
    (hsn : 0 ≤ sn ∧ sn < NPD) (hen : 0 ≤ en ∧ en < NPD) :
    ∃ ed, adjustedEnd c s sn e en = .ok ed ∧ Valid c ed ∧
      (posDT c s sn ≤ posDT c e en → dayNo c s ≤ dayNo c ed ∧ dayNo c ed ≤ dayNo c e ∧
        (sn ≤ en → ed = e) ∧ (sn > en → posDT c s sn < posDT c e en → dayNo c ed = dayNo c e - 1)) ∧
      (posDT c e en ≤ posDT c s sn → dayNo c e ≤ dayNo c ed ∧ dayNo c ed ≤ dayNo c s ∧
        (en ≤ sn → ed = e) ∧ (en > sn → posDT c e en < posDT c s sn → dayNo c ed = dayNo c e + 1)) := by
  have cd := cmpDateTime_sign h s e sn en hs he hsn hen
  have rs := valid_range h s hs
  have re := valid_range h e he
  unfold adjustedEnd
  by_cases hlt : cmpDateTime c s sn e en < 0
  · rw [if_pos hlt]
    have hp := cd.1.1 hlt
    by_cases htm : sn > en
    · rw [if_pos htm]
      have hd : dayNo c s < dayNo c e := by unfold posDT at hp; unfold_consts; omega
      have hex := addFixed_exact h hl 1 e he (-1)
      obtain ⟨q, q1, q2, q3, _⟩ := hex.1 (by omega)
      refine ⟨q, q1, q2, ?_, ?_⟩
      · intro _; exact ⟨by omega, by omega, fun hh => by omega, fun _ _ => by omega⟩
      · intro hh; omega
    · rw [if_neg htm]
      refine ⟨e, rfl, he, ?_, ?_⟩
      · intro _
        have hd : dayNo c s ≤ dayNo c e := by unfold posDT at hp; unfold_consts; omega
        exact ⟨hd, by omega, fun _ => rfl, fun hh => by omega⟩
      · intro hh; omega
  · rw [if_neg hlt]
    by_cases hgt : cmpDateTime c s sn e en > 0 ∧ sn < en
    · rw [if_pos hgt]
      have hp := cd.2.1 hgt.1
      have hd : dayNo c e < dayNo c s := by unfold posDT at hp; unfold_consts; omega
      have hex := addFixed_exact h hl 1 e he 1
      obtain ⟨q, q1, q2, q3, _⟩ := hex.1 (by omega)
      refine ⟨q, q1, q2, ?_, ?_⟩
      · intro hh; omega
      · intro _; exact ⟨by omega, by omega, fun hh => by omega, fun _ _ => by omega⟩
    · rw [if_neg hgt]
      refine ⟨e, rfl, he, ?_, ?_⟩
      · intro hle
        have : ¬ posDT c s sn < posDT c e en := fun hh => hlt (cd.1.2 hh)
        have heq : posDT c s sn = posDT c e en := by omega
        have hd : dayNo c s = dayNo c e := by unfold posDT at heq; unfold_consts; omega
        exact ⟨by omega, by omega, fun _ => rfl, fun _ hh => by omega⟩
      · intro hge
        by_cases hp : posDT c e en < posDT c s sn
        · have hc := cd.2.2 hp
          have hd : dayNo c e ≤ dayNo c s := by unfold posDT at hp; unfold_consts; omega
          exact ⟨by omega, hd, fun _ => rfl, fun hh _ => by exfalso; exact hgt ⟨hc, hh⟩⟩
        · have heq : posDT c s sn = posDT c e en := by omega
          have hd : dayNo c s = dayNo c e := by unfold posDT at heq; unfold_consts; omega
          exact ⟨by omega, by omega, fun _ => rfl, fun _ hh => by omega⟩

/-- Core of `Period.between` on date-times: the date part `y m w d` leads from the start date to a valid date `r`
    between the start date and the adjusted end date, and the time part is `__time_components_between` of the
    nanoseconds from (`r`, start time) to the end, which have the sign of the direction of travel. -/
theorem betweenDateTimes_core (k : Cal) (L : DateLaws k) (mask : Nat) (hmask : 0 < mask ∧ mask < 1024) (s e : Ymd)
    (sn en : Int) (hs : Valid k.c s) (he : Valid k.c e) (hsn : 0 ≤ sn ∧ sn < NPD) (hen : 0 ≤ en ∧ en < NPD) :
    ∃ y m w d r, plusParts (yearsField k) (monthsField k) (weeksField k) (daysField k) s y m w d = .ok r ∧ Valid k.c r ∧
      betweenDateTimes k mask s sn e en =
        .ok ([y, m, w, d] ++ (timeComponents mask ((dayNo k.c e - dayNo k.c r) * NPD + (en - sn))).1) ∧
      (bit mask 0 = false → y = 0) ∧ (bit mask 1 = false → m = 0) ∧ (bit mask 2 = false → w = 0) ∧
      (bit mask 3 = false → d = 0) ∧
      (posDT k.c s sn ≤ posDT k.c e en → 0 ≤ y ∧ 0 ≤ m ∧ 0 ≤ w ∧ 0 ≤ d ∧ dayNo k.c s ≤ dayNo k.c r ∧
        0 ≤ (dayNo k.c e - dayNo k.c r) * NPD + (en - sn)) ∧
      (posDT k.c e en ≤ posDT k.c s sn → y ≤ 0 ∧ m ≤ 0 ∧ w ≤ 0 ∧ d ≤ 0 ∧ dayNo k.c r ≤ dayNo k.c s ∧
        (dayNo k.c e - dayNo k.c r) * NPD + (en - sn) ≤ 0) := by
  have h := L.wf
  have ly := L.years
  have lm := L.months
  have lw := L.weeks
  have ld := L.days
  have hbits := mask_bits mask hmask.2
  obtain ⟨ed, ha, hv, hfw, hbw⟩ := adjustedEnd_spec h L.ylen s e sn en hs he hsn hen
  obtain ⟨n1, r1, a1, b1, v1, c1, t1, f1, g1⟩ := stepField_spec (yearsField k) ly (bit mask 0) s ed hs hv
  obtain ⟨n2, r2, a2, b2, v2, c2, t2, f2, g2⟩ := stepField_spec (monthsField k) lm (bit mask 1) r1 ed v1 hv
  obtain ⟨n3, r3, a3, b3, v3, c3, t3, f3, g3⟩ := stepField_spec (weeksField k) lw (bit mask 2) r2 ed v2 hv
  obtain ⟨n4, r4, a4, b4, v4, c4, t4, f4, g4⟩ := stepField_spec (daysField k) ld (bit mask 3) r3 ed v3 hv
  have hdc : dateComponents (yearsField k) (monthsField k) (weeksField k) (daysField k) mask s ed = .ok ⟨r4, n1, n2, n3, n4⟩ := by
    unfold dateComponents; simp only [a1, a2, a3, a4]
  have hpp : plusParts (yearsField k) (monthsField k) (weeksField k) (daysField k) s n1 n2 n3 n4 = .ok r4 := by
    unfold plusParts; simp only [b1, b2, b3, b4]
  -- direction facts
  have hF : posDT k.c s sn ≤ posDT k.c e en → 0 ≤ n1 ∧ 0 ≤ n2 ∧ 0 ≤ n3 ∧ 0 ≤ n4 ∧ dayNo k.c s ≤ dayNo k.c r4 ∧
      0 ≤ (dayNo k.c e - dayNo k.c r4) * NPD + (en - sn) := by
    intro hle
    obtain ⟨x1, x2, x3, x4⟩ := hfw hle
    obtain ⟨p1, p2, p3⟩ := f1 x1
    obtain ⟨q1, q2, q3⟩ := f2 p3
    obtain ⟨u1, u2, u3⟩ := f3 q3
    obtain ⟨w1, w2, w3⟩ := f4 u3
    refine ⟨p1, q1, u1, w1, by omega, ?_⟩
    by_cases htm : sn ≤ en
    · unfold_consts; omega
    · by_cases hst : posDT k.c s sn < posDT k.c e en
      · have := x4 (by omega) hst; unfold_consts; omega
      · have heq : posDT k.c s sn = posDT k.c e en := by omega
        unfold posDT at heq; unfold_consts; omega
  have hB : posDT k.c e en ≤ posDT k.c s sn → n1 ≤ 0 ∧ n2 ≤ 0 ∧ n3 ≤ 0 ∧ n4 ≤ 0 ∧ dayNo k.c r4 ≤ dayNo k.c s ∧
      (dayNo k.c e - dayNo k.c r4) * NPD + (en - sn) ≤ 0 := by
    intro hle
    obtain ⟨x1, x2, x3, x4⟩ := hbw hle
    obtain ⟨p1, p2, p3⟩ := g1 x2
    obtain ⟨q1, q2, q3⟩ := g2 p2
    obtain ⟨u1, u2, u3⟩ := g3 q2
    obtain ⟨w1, w2, w3⟩ := g4 u2
    refine ⟨p1, q1, u1, w1, by omega, ?_⟩
    by_cases htm : en ≤ sn
    · unfold_consts; omega
    · by_cases hst : posDT k.c e en < posDT k.c s sn
      · have := x4 (by omega) hst; unfold_consts; omega
      · have heq : posDT k.c s sn = posDT k.c e en := by omega
        unfold posDT at heq; unfold_consts; omega
  refine ⟨n1, n2, n3, n4, r4, hpp, v4, ?_, c1, c2, c3, c4, hF, hB⟩
  -- the value computed by `between`
  unfold betweenDateTimes
  rw [if_neg (by omega)]
  by_cases heq : s = e ∧ sn = en
  · rw [if_pos heq]
    obtain ⟨rfl, rfl⟩ := heq
    have q1 := hF (by omega)
    have q2 := hB (by omega)
    have e1 : n1 = 0 := by omega
    have e2 : n2 = 0 := by omega
    have e3 : n3 = 0 := by omega
    have e4 : n4 = 0 := by omega
    subst e1 e2 e3 e4
    have hr : r4 = s := by
      unfold plusParts at hpp
      simp only [ly.add_zero, lm.add_zero, lw.add_zero, ld.add_zero] at hpp
      exact (Except.ok.inj hpp).symm
    subst hr
    have : (dayNo k.c r4 - dayNo k.c r4) * NPD + (sn - sn) = 0 := by omega
    rw [this]
    unfold timeComponents stepTime
    simp [zero10]
    repeat' split
    all_goals simp [Int.tdiv]
  · rw [if_neg heq, ha]
    dsimp only
    by_cases m1 : mask = 1
    · rw [if_pos m1]
      subst m1
      have hbt : yearsBetween k s ed = .ok n1 := t1 (by decide)
      rw [hbt, c2 (by decide), c3 (by decide), c4 (by decide), timeComponents_off 1 _ (by decide)]; rfl
    · rw [if_neg m1]
      by_cases m2 : mask = 2
      · rw [if_pos m2]
        subst m2
        have e1 : n1 = 0 := c1 (by decide)
        subst e1
        have hr1 : r1 = s := by
          have := ly.add_zero s; rw [this] at b1; exact (Except.ok.inj b1).symm
        subst hr1
        have hbt : monthsBetween k r1 ed = .ok n2 := t2 (by decide)
        rw [hbt, c3 (by decide), c4 (by decide), timeComponents_off 2 _ (by decide)]; rfl
      · rw [if_neg m2]
        by_cases m4 : mask = 4
        · rw [if_pos m4]
          subst m4
          have e1 : n1 = 0 := c1 (by decide)
          subst e1
          have hr1 : r1 = s := by
            have := ly.add_zero s; rw [this] at b1; exact (Except.ok.inj b1).symm
          subst hr1
          have e2 : n2 = 0 := c2 (by decide)
          subst e2
          have hr2 : r2 = r1 := by
            have := lm.add_zero r1; rw [this] at b2; exact (Except.ok.inj b2).symm
          subst hr2
          have hbt : fixedBetween k.c 7 r2 ed = .ok n3 := t3 (by decide)
          rw [hbt, c4 (by decide), timeComponents_off 4 _ (by decide)]; rfl
        · rw [if_neg m4]
          by_cases m8 : mask = 8
          · rw [if_pos m8]
            subst m8
            have e1 : n1 = 0 := c1 (by decide)
            subst e1
            have hr1 : r1 = s := by
              have := ly.add_zero s; rw [this] at b1; exact (Except.ok.inj b1).symm
            subst hr1
            have e2 : n2 = 0 := c2 (by decide)
            subst e2
            have hr2 : r2 = r1 := by
              have := lm.add_zero r1; rw [this] at b2; exact (Except.ok.inj b2).symm
            subst hr2
            have e3 : n3 = 0 := c3 (by decide)
            subst e3
            have hr3 : r3 = r2 := by
              have := lw.add_zero r2; rw [this] at b3; exact (Except.ok.inj b3).symm
            subst hr3
            have hbt : fixedBetween k.c 1 r3 ed = .ok n4 := t4 (by decide)
            have hdb : daysBetween k.c r3 ed = .ok n4 := by
              rw [fixedBetween_valid h 1 r3 ed hs hv] at hbt
              rw [daysBetween_valid h r3 ed hs hv]
              have e9 : Int.tdiv (dayNo k.c ed - dayNo k.c r3) 1 = dayNo k.c ed - dayNo k.c r3 := by
                simp (disch := decide) only [tdiv_pos]; split <;> omega
              rw [e9] at hbt; exact hbt
            rw [hdb, timeComponents_off 8 _ (by decide)]; rfl
          · rw [if_neg m8]
            by_cases mt : mask = 16 ∨ mask = 32 ∨ mask = 64 ∨ mask = 128 ∨ mask = 256 ∨ mask = 512
            · rw [if_pos mt]
              have hd0 : bit mask 0 = false ∧ bit mask 1 = false ∧ bit mask 2 = false ∧ bit mask 3 = false :=
                hbits.1 (by rcases mt with rfl | rfl | rfl | rfl | rfl | rfl <;> decide)
              have e1 : n1 = 0 := c1 hd0.1
              subst e1
              have hr1 : r1 = s := by
                have := ly.add_zero s; rw [this] at b1; exact (Except.ok.inj b1).symm
              subst hr1
              have e2 : n2 = 0 := c2 hd0.2.1
              subst e2
              have hr2 : r2 = r1 := by
                have := lm.add_zero r1; rw [this] at b2; exact (Except.ok.inj b2).symm
              subst hr2
              have e3 : n3 = 0 := c3 hd0.2.2.1
              subst e3
              have hr3 : r3 = r2 := by
                have := lw.add_zero r2; rw [this] at b3; exact (Except.ok.inj b3).symm
              subst hr3
              have e4 : n4 = 0 := c4 hd0.2.2.2
              subst e4
              have hr4 : r4 = r3 := by
                have := ld.add_zero r3; rw [this] at b4; exact (Except.ok.inj b4).symm
              subst hr4
              rw [nanosBetween_valid h r4 e sn en hs he]; rfl
            · rw [if_neg mt]
              have hparts : (if mask &&& dateMask ≠ 0 then
                    dateComponents (yearsField k) (monthsField k) (weeksField k) (daysField k) mask s ed
                  else .ok ⟨s, 0, 0, 0, 0⟩) = .ok ⟨r4, n1, n2, n3, n4⟩ := by
                by_cases hdm : mask &&& dateMask ≠ 0
                · rw [if_pos hdm]; exact hdc
                · rw [if_neg hdm]
                  have hd0 := hbits.1 (by omega)
                  have e1 : n1 = 0 := c1 hd0.1
                  subst e1
                  have hr1 : r1 = s := by
                    have := ly.add_zero s; rw [this] at b1; exact (Except.ok.inj b1).symm
                  subst hr1
                  have e2 : n2 = 0 := c2 hd0.2.1
                  subst e2
                  have hr2 : r2 = r1 := by
                    have := lm.add_zero r1; rw [this] at b2; exact (Except.ok.inj b2).symm
                  subst hr2
                  have e3 : n3 = 0 := c3 hd0.2.2.1
                  subst e3
                  have hr3 : r3 = r2 := by
                    have := lw.add_zero r2; rw [this] at b3; exact (Except.ok.inj b3).symm
                  subst hr3
                  have e4 : n4 = 0 := c4 hd0.2.2.2
                  subst e4
                  have hr4 : r4 = r3 := by
                    have := ld.add_zero r3; rw [this] at b4; exact (Except.ok.inj b4).symm
                  subst hr4
                  rfl
              rw [hparts]
              dsimp only
              by_cases htm : mask &&& timeMask = 0
              · rw [if_pos htm, timeComponents_off mask _ (hbits.2 htm)]; rfl
              · rw [if_neg htm, nanosBetween_valid h r4 e sn en v4 he]

/-- `Period.between(LocalDateTime, LocalDateTime, units)`, the stated laws:
    * `between_units_subset`: a component is zero unless its unit was requested;
    * `between_one_sign`: all ten components have the sign of the direction of travel;
    * `between_bounded`: start + period (position `posDT r startNanos + time total`) lies between start and end;
    * `between_hits_end`: with nanoseconds among the units — or ticks when the two values are a whole number of ticks
      apart — start + period is the end. -/
theorem betweenDateTimes_laws (k : Cal) (L : DateLaws k) (mask : Nat) (hmask : 0 < mask ∧ mask < 1024) (s e : Ymd)
    (sn en : Int) (hs : Valid k.c s) (he : Valid k.c e) (hsn : 0 ≤ sn ∧ sn < NPD) (hen : 0 ≤ en ∧ en < NPD) :
    ∃ y m w d hh mi sec ms tk ns r,
      betweenDateTimes k mask s sn e en = .ok [y, m, w, d, hh, mi, sec, ms, tk, ns] ∧
      plusParts (yearsField k) (monthsField k) (weeksField k) (daysField k) s y m w d = .ok r ∧ Valid k.c r ∧
      (bit mask 0 = false → y = 0) ∧ (bit mask 1 = false → m = 0) ∧ (bit mask 2 = false → w = 0) ∧
      (bit mask 3 = false → d = 0) ∧ (bit mask 4 = false → hh = 0) ∧ (bit mask 5 = false → mi = 0) ∧
      (bit mask 6 = false → sec = 0) ∧ (bit mask 7 = false → ms = 0) ∧ (bit mask 8 = false → tk = 0) ∧
      (bit mask 9 = false → ns = 0) ∧
      (posDT k.c s sn ≤ posDT k.c e en →
        0 ≤ y ∧ 0 ≤ m ∧ 0 ≤ w ∧ 0 ≤ d ∧ 0 ≤ hh ∧ 0 ≤ mi ∧ 0 ≤ sec ∧ 0 ≤ ms ∧ 0 ≤ tk ∧ 0 ≤ ns ∧
        posDT k.c s sn ≤ posDT k.c r sn + (hh * NPH + mi * NPMin + sec * NPS + ms * NPMs + tk * NPT + ns) ∧
        posDT k.c r sn + (hh * NPH + mi * NPMin + sec * NPS + ms * NPMs + tk * NPT + ns) ≤ posDT k.c e en) ∧
      (posDT k.c e en ≤ posDT k.c s sn →
        y ≤ 0 ∧ m ≤ 0 ∧ w ≤ 0 ∧ d ≤ 0 ∧ hh ≤ 0 ∧ mi ≤ 0 ∧ sec ≤ 0 ∧ ms ≤ 0 ∧ tk ≤ 0 ∧ ns ≤ 0 ∧
        posDT k.c e en ≤ posDT k.c r sn + (hh * NPH + mi * NPMin + sec * NPS + ms * NPMs + tk * NPT + ns) ∧
        posDT k.c r sn + (hh * NPH + mi * NPMin + sec * NPS + ms * NPMs + tk * NPT + ns) ≤ posDT k.c s sn) ∧
      (bit mask 9 = true ∨ (bit mask 8 = true ∧ (posDT k.c e en - posDT k.c s sn) % 100 = 0) →
        posDT k.c r sn + (hh * NPH + mi * NPMin + sec * NPS + ms * NPMs + tk * NPT + ns) = posDT k.c e en) := by
  obtain ⟨y, m, w, d, r, h1, h2, h3, z0, z1, z2, z3, hF, hB⟩ := betweenDateTimes_core k L mask hmask s e sn en hs he hsn hen
  obtain ⟨hh, mi, sec, ms, tk, ns, rest, t1, t2, t3, t4, u4, u5, u6, u7, u8, u9, t5, t6⟩ :=
    timeComponents_exact mask ((dayNo k.c e - dayNo k.c r) * NPD + (en - sn))
  rw [t1] at h3
  have hpos : posDT k.c r sn + (hh * NPH + mi * NPMin + sec * NPS + ms * NPMs + tk * NPT + ns) + rest = posDT k.c e en := by
    unfold posDT; unfold_consts; omega
  refine ⟨y, m, w, d, hh, mi, sec, ms, tk, ns, r, h3, h1, h2, z0, z1, z2, z3, u4, u5, u6, u7, u8, u9, ?_, ?_, ?_⟩
  · intro hle
    obtain ⟨a1, a2, a3, a4, a5, a6⟩ := hF hle
    obtain ⟨b1, b2, b3, b4, b5, b6, b7⟩ := t3 a6
    have : posDT k.c s sn ≤ posDT k.c r sn := by unfold posDT; unfold_consts; omega
    refine ⟨a1, a2, a3, a4, b1, b2, b3, b4, b5, b6, ?_, by omega⟩
    unfold_consts; omega
  · intro hle
    obtain ⟨a1, a2, a3, a4, a5, a6⟩ := hB hle
    obtain ⟨b1, b2, b3, b4, b5, b6, b7⟩ := t4 a6
    have : posDT k.c r sn ≤ posDT k.c s sn := by unfold posDT; unfold_consts; omega
    refine ⟨a1, a2, a3, a4, b1, b2, b3, b4, b5, b6, by omega, ?_⟩
    unfold_consts; omega
  · intro hfin
    have hrest : rest = 0 := by
      rcases hfin with h9 | ⟨h8, hal⟩
      · exact t5 h9
      · refine t6 h8 ?_
        unfold posDT at hal; unfold_consts; omega
    omega

end Pyoda.C09
