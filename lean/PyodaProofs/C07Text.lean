/-
  C07 (text steps) — names written by a format action are read back by the longest-match parse action.
  `parseLongest_formatted`: for name tables `t1`, `t2` (the second optional), a non-empty name `a` at position `K`
  of one of them, `parseLongest low (a ++ tail) t1 t2 = some (K, tail)` provided
    * `nameOK low t1 t2 K a`  (decidable): no other position holds a name of `a`'s length equal to `a` up to ASCII case,
    * `tailSafe low (dangerChars low t1 t2 a) tail` (decidable): the following text does not start with a character by
      which some candidate strictly extends `a`.
  Instances: month names (genitive and plain tables searched together), day names, am/pm designators, era names.
  Case folding is ASCII (`low`): the stated domain of the model.
-/
import PyodaModel.Text.WellFormed
import PyodaProofs.TextLemmas

namespace Pyoda.C07
open Pyoda Pyoda.Text

variable {low : Char → Char}

/-! ## case-insensitive matching -/

/-- `cursor._match_case_insensitive(c, _)` succeeds -/
def mCI (low : Char → Char) (c l : Text) : Bool := (matchCI low c l).isSome

theorem matchCI_drop (c l r : Text) (h : matchCI low c l = some r) : r = l.drop c.length := by
  unfold matchCI at h
  split at h
  · cases h
  · split at h
    · injection h with h; exact h.symm
    · cases h

theorem mCI_nil (l : Text) : mCI low [] l = true := by simp [mCI, matchCI]

theorem mCI_cons_nil (x : Char) (cs : Text) : mCI low (x :: cs) [] = false := by simp [mCI, matchCI]

theorem mCI_cons_cons (x y : Char) (cs l : Text) :
    mCI low (x :: cs) (y :: l) = (decide (low y = low x) && mCI low cs l) := by
  simp only [mCI, matchCI, List.length_cons, List.take_succ_cons, List.map_cons, List.cons.injEq]
  by_cases h1 : cs.length > l.length
  · have : cs.length + 1 > l.length + 1 := by omega
    simp [h1, this]
  · have : ¬ (cs.length + 1 > l.length + 1) := by omega
    simp only [h1, this, if_false]
    by_cases h2 : low y = low x
    · simp only [h2, true_and, decide_true, Bool.true_and]
      split <;> rfl
    · simp [h2]

theorem ciEq_cons (x y : Char) (xs ys : Text) :
    ciEq low (x :: xs) (y :: ys) = (decide (low x = low y) && ciEq low xs ys) := by
  simp only [ciEq, List.map_cons, List.cons.injEq]
  by_cases h : low x = low y <;> simp [h]

/-- a candidate no longer than `a`: it matches `a ++ tail` iff it equals the corresponding prefix of `a` up to case -/
theorem mCI_short : ∀ (c a tail : Text), c.length ≤ a.length → mCI low c (a ++ tail) = ciEq low (a.take c.length) c := by
  intro c
  induction c with
  | nil => intro a tail _; simp [mCI_nil, ciEq]
  | cons x cs ih =>
    intro a tail h
    cases a with
    | nil => simp at h
    | cons y as =>
      simp only [List.cons_append, mCI_cons_cons, List.length_cons, List.take_succ_cons, ciEq_cons]
      rw [ih as tail (by simp at h; omega)]

/-- a candidate longer than `a` that matches `a ++ tail`: it strictly extends `a`, and the tail starts (up to case)
    with the candidate's next character -/
theorem mCI_long : ∀ (c a tail : Text), a.length < c.length → mCI low c (a ++ tail) = true →
    strictExt low c a = true ∧ ∃ x tl, tail = x :: tl ∧ low x = low (c.getD a.length ' ') := by
  intro c
  induction c with
  | nil => intro a tail h _; simp at h
  | cons x cs ih =>
    intro a tail h hm
    cases a with
    | nil =>
      cases tail with
      | nil => rw [List.nil_append, mCI_cons_nil] at hm; cases hm
      | cons y tl =>
        rw [List.nil_append, mCI_cons_cons] at hm
        simp only [Bool.and_eq_true, decide_eq_true_eq] at hm
        refine ⟨by simp [strictExt, ciEq], y, tl, rfl, ?_⟩
        simpa using hm.1
    | cons y as =>
      rw [List.cons_append, mCI_cons_cons] at hm
      simp only [Bool.and_eq_true, decide_eq_true_eq] at hm
      obtain ⟨h1, x', tl, e, h2⟩ := ih as tail (by simp at h; omega) hm.2
      refine ⟨?_, x', tl, e, by simpa using h2⟩
      simp only [strictExt, Bool.and_eq_true, decide_eq_true_eq, List.length_cons] at h1 ⊢
      refine ⟨by omega, ?_⟩
      rw [List.take_succ_cons, ciEq_cons, h1.2]
      simp [hm.1.symm]

theorem ciEq_symm (x y : Text) : ciEq low x y = ciEq low y x := by
  simp only [ciEq]
  by_cases h : x.map low = y.map low
  · simp [h]
  · have : ¬ (y.map low = x.map low) := fun e => h e.symm
    simp [h, this]

theorem ciEq_refl (x : Text) : ciEq low x x = true := by simp [ciEq]

/-- a candidate of `a`'s length matches `a ++ tail` iff it equals `a` up to case -/
theorem mCI_same (c a tail : Text) (h : c.length = a.length) : mCI low c (a ++ tail) = ciEq low c a := by
  rw [mCI_short c a tail (by omega), h, List.take_length, ciEq_symm]

/-! ## the longest-match loop -/

theorem findLongest_inv (l : Text) (n : Nat) (K : Int) : ∀ (t : List Text) (i : Nat) (best : Int) (longest : Nat),
    (∀ c ∈ t, mCI low c l = true → c.length ≤ n) →
    (∀ (p : Nat) (c : Text), t[p]? = some c → c.length = n → mCI low c l = true → ((i + p : Nat) : Int) = K) →
    longest ≤ n → (longest = n → best = K) →
    longest ≤ (findLongest low l t i best longest).2 ∧ (findLongest low l t i best longest).2 ≤ n ∧
    ((findLongest low l t i best longest).2 = n → (findLongest low l t i best longest).1 = K) ∧
    ((∃ (p : Nat) (c : Text), t[p]? = some c ∧ c.length = n ∧ mCI low c l = true) → (findLongest low l t i best longest).2 = n) := by
  intro t
  induction t with
  | nil =>
    intro i best longest _ _ h1 h2
    simp only [findLongest]
    refine ⟨Nat.le_refl _, h1, h2, ?_⟩
    rintro ⟨p, c, hp, _⟩; simp at hp
  | cons cand cs ih =>
    intro i best longest p1 p2 h1 h2
    have p1' : ∀ c ∈ cs, mCI low c l = true → c.length ≤ n := fun c hc => p1 c (List.mem_cons_of_mem _ hc)
    have p2' : ∀ (p : Nat) (c : Text), cs[p]? = some c → c.length = n → mCI low c l = true → ((i + 1 + p : Nat) : Int) = K := by
      intro p c hp hl hm
      have := p2 (p + 1) c (by simpa using hp) hl hm
      rw [← this]; congr 1; omega
    unfold findLongest
    by_cases hlen : cand.length ≤ longest
    · rw [if_pos hlen]
      obtain ⟨a1, a2, a3, a4⟩ := ih (i + 1) best longest p1' p2' h1 h2
      refine ⟨a1, a2, a3, ?_⟩
      rintro ⟨p, c, hp, hl, hm⟩
      cases p with
      | zero =>
        simp only [List.getElem?_cons_zero, Option.some.injEq] at hp
        subst hp
        -- the target is no longer than the best so far, which is at most n: the best so far has length n already
        have : longest = n := by omega
        omega
      | succ p => exact a4 ⟨p, c, by simpa using hp, hl, hm⟩
    · rw [if_neg hlen]
      by_cases hm : (matchCI low cand l).isSome = true
      · rw [if_pos hm]
        have hc : cand.length ≤ n := p1 cand (List.mem_cons_self ..) hm
        have hk : cand.length = n → ((i : Nat) : Int) = K := by
          intro e
          have := p2 0 cand (by simp) e hm
          simpa using this
        obtain ⟨a1, a2, a3, a4⟩ := ih (i + 1) (i : Int) cand.length p1' p2' hc hk
        refine ⟨by omega, a2, a3, ?_⟩
        rintro ⟨p, c, hp, hl, hm'⟩
        cases p with
        | zero =>
          simp only [List.getElem?_cons_zero, Option.some.injEq] at hp
          subst hp
          omega
        | succ p => exact a4 ⟨p, c, by simpa using hp, hl, hm'⟩
      · rw [if_neg hm]
        obtain ⟨a1, a2, a3, a4⟩ := ih (i + 1) best longest p1' p2' h1 h2
        refine ⟨a1, a2, a3, ?_⟩
        rintro ⟨p, c, hp, hl, hm'⟩
        cases p with
        | zero =>
          simp only [List.getElem?_cons_zero, Option.some.injEq] at hp
          subst hp
          exact absurd hm' hm
        | succ p => exact a4 ⟨p, c, by simpa using hp, hl, hm'⟩

/-! ## from the decidable conditions to the hypotheses of the loop -/

theorem clashAt_false (a : Text) (K : Nat) : ∀ (t : List Text) (i : Nat), clashAt low a K t i = false →
    ∀ (p : Nat) (c : Text), t[p]? = some c → c.length = a.length → ciEq low c a = true → i + p = K := by
  intro t
  induction t with
  | nil => intro i _ p c hp; simp at hp
  | cons x xs ih =>
    intro i h p c hp hl he
    simp only [clashAt, Bool.or_eq_false_iff, Bool.and_eq_false_iff, decide_eq_false_iff_not, Decidable.not_not] at h
    cases p with
    | zero =>
      simp only [List.getElem?_cons_zero, Option.some.injEq] at hp
      subst hp
      rcases h.1 with (h1 | h1) | h1
      · omega
      · exact absurd hl h1
      · rw [he] at h1; cases h1
    | succ p =>
      have := ih (i + 1) h.2 p c (by simpa using hp) hl he
      omega

theorem dangerOf_mem (a : Text) : ∀ (t : List Text) (c : Text), c ∈ t → strictExt low c a = true →
    low (c.getD a.length ' ') ∈ dangerOf low a t := by
  intro t
  induction t with
  | nil => intro c hc; simp at hc
  | cons x xs ih =>
    intro c hc he
    simp only [dangerOf]
    rcases List.mem_cons.mp hc with rfl | hc
    · rw [if_pos he]; exact List.mem_cons_self ..
    · split
      · exact List.mem_cons_of_mem _ (ih c hc he)
      · exact ih c hc he

/-- no candidate longer than `a` matches `a ++ tail` when the tail is safe -/
theorem no_longer_match (a tail : Text) (t : List Text) (hs : tailSafe low (dangerOf low a t) tail = true) :
    ∀ c ∈ t, mCI low c (a ++ tail) = true → c.length ≤ a.length := by
  intro c hc hm
  by_cases hl : c.length ≤ a.length
  · exact hl
  · obtain ⟨he, x, tl, e, hx⟩ := mCI_long c a tail (by omega) hm
    have hmem := dangerOf_mem a t c hc he
    rw [e] at hs
    simp only [tailSafe, Bool.not_eq_true', List.contains_eq_mem, decide_eq_false_iff_not] at hs
    rw [hx] at hs
    exact absurd hmem hs

theorem tailSafe_append (d1 d2 : List Char) (tail : Text) (h : tailSafe low (d1 ++ d2) tail = true) :
    tailSafe low d1 tail = true ∧ tailSafe low d2 tail = true := by
  cases tail with
  | nil => exact ⟨rfl, rfl⟩
  | cons x tl =>
    simp only [tailSafe, Bool.not_eq_true', List.contains_eq_mem, decide_eq_false_iff_not, List.mem_append, not_or] at h ⊢
    exact h

/-- **longest match reads a formatted name back**: `a` (non-empty) at position `K` of the first or of the second
    table, no other position repeating it up to case, the following text not continuing it into a longer candidate -/
theorem parseLongest_formatted (t1 : List Text) (t2 : Option (List Text)) (K : Nat) (a tail : Text)
    (hmem : t1[K]? = some a ∨ ∃ t, t2 = some t ∧ t[K]? = some a)
    (hok : nameOK low t1 t2 K a = true) (hs : tailSafe low (dangerChars low t1 t2 a) tail = true) :
    parseLongest low (a ++ tail) t1 t2 = some ((K : Int), tail) := by
  simp only [nameOK, Bool.and_eq_true, decide_eq_true_eq, Bool.not_eq_true'] at hok
  obtain ⟨⟨hne, hc1⟩, hc2⟩ := hok
  obtain ⟨hs1, hs2⟩ := tailSafe_append _ _ tail hs
  have hpos : 0 < a.length := by cases a with | nil => exact absurd rfl hne | cons _ _ => simp
  have hma : mCI low a (a ++ tail) = true := by rw [mCI_same a a tail rfl, ciEq_refl]
  -- hypotheses of the loop for a table
  have P1 : ∀ t, tailSafe low (dangerOf low a t) tail = true → ∀ c ∈ t, mCI low c (a ++ tail) = true → c.length ≤ a.length :=
    fun t h => no_longer_match a tail t h
  have P2 : ∀ t, clashAt low a K t 0 = false → ∀ (p : Nat) (c : Text), t[p]? = some c → c.length = a.length →
      mCI low c (a ++ tail) = true → ((0 + p : Nat) : Int) = (K : Int) := by
    intro t h p c hp hl hm
    rw [mCI_same c a tail hl] at hm
    have := clashAt_false a K t 0 h p c hp hl hm
    omega
  have drop_a : (a ++ tail).drop a.length = tail := by simp
  obtain ⟨a1, a2, a3, a4⟩ := findLongest_inv (a ++ tail) a.length (K : Int) t1 0 (-1) 0 (P1 t1 hs1) (P2 t1 hc1)
    (Nat.zero_le _) (by intro h; omega)
  cases t2 with
  | none =>
    rcases hmem with h | ⟨t, ht, _⟩
    · have e2 := a4 ⟨K, a, h, rfl, hma⟩
      have e1 := a3 e2
      simp only [parseLongest]
      rw [e1, e2, drop_a]
      simp
    · cases ht
  | some t =>
    simp only [Option.getD_some] at hc2 hs2
    obtain ⟨b1, b2, b3, b4⟩ := findLongest_inv (a ++ tail) a.length (K : Int) t 0
      (findLongest low (a ++ tail) t1 0 (-1) 0).1 (findLongest low (a ++ tail) t1 0 (-1) 0).2 (P1 t hs2) (P2 t hc2) a2 a3
    have e2 : (findLongest low (a ++ tail) t 0 (findLongest low (a ++ tail) t1 0 (-1) 0).1
        (findLongest low (a ++ tail) t1 0 (-1) 0).2).2 = a.length := by
      rcases hmem with h | ⟨t', ht, h⟩
      · have := a4 ⟨K, a, h, rfl, hma⟩
        omega
      · injection ht with ht; subst ht
        exact b4 ⟨K, a, h, rfl, hma⟩
    have e1 := b3 e2
    simp only [parseLongest]
    rw [e1, e2, drop_a]
    simp

theorem tailSafe_of_forall (ds : List Char) (tail : Text) (h : ∀ x ∈ ds, tailSafe low [x] tail = true) :
    tailSafe low ds tail = true := by
  cases tail with
  | nil => rfl
  | cons y tl =>
    simp only [tailSafe, Bool.not_eq_true', List.contains_eq_mem, decide_eq_false_iff_not]
    intro hm
    have := h _ hm
    simp [tailSafe] at this

theorem tailSafe_subset (small big : List Char) (tail : Text) (h : ∀ x ∈ small, x ∈ big) (hs : tailSafe low big tail = true) :
    tailSafe low small tail = true := by
  cases tail with
  | nil => rfl
  | cons y tl =>
    simp only [tailSafe, Bool.not_eq_true', List.contains_eq_mem, decide_eq_false_iff_not] at hs ⊢
    exact fun hm => hs (h _ hm)

/-! ## month names -/

theorem pyIndex_nat (table : List Text) (K : Nat) (a : Text) (h : table[K]? = some a) :
    pyIndex table (K : Int) = .ok a := by
  have hlt : K < table.length := by
    rcases Nat.lt_or_ge K table.length with h' | h'
    · exact h'
    · rw [List.getElem?_eq_none h'] at h; cases h
  unfold pyIndex
  have h0 : ¬ ((K : Int) < 0) := by omega
  simp only [h0, if_false]
  have h1 : ¬ ((K : Int) ≥ (table.length : Int)) := by omega
  simp only [Int.toNat_natCast, h, false_or]
  rw [if_neg h1]

/-- the culture-level condition gives the per-name conditions for every month 1 … 12 -/
theorem monthNamesOK_at (cu : Culture) (count : Nat) (gen : Bool) (h : monthNamesOK cu count gen = true) (K : Nat)
    (h1 : 1 ≤ K) (h2 : K ≤ 12) :
    ∃ a, (monthTable cu count gen)[K]? = some a ∧ nameOK (lowC cu) (monthTable cu count true) (monthSecond cu count) K a = true := by
  unfold monthNamesOK at h
  rw [List.all_eq_true] at h
  have := h (K - 1) (by simp; omega)
  have e : K - 1 + 1 = K := by omega
  rw [e] at this
  cases hq : (monthTable cu count gen)[K]? with
  | none => rw [hq] at this; cases this
  | some a => rw [hq] at this; exact ⟨a, rfl, this⟩

theorem monthDanger_at (cu : Culture) (count : Nat) (gen : Bool) (K : Nat) (h1 : 1 ≤ K) (h2 : K ≤ 12) (a : Text)
    (ha : (monthTable cu count gen)[K]? = some a) :
    ∀ x ∈ dangerChars (lowC cu) (monthTable cu count true) (monthSecond cu count) a, x ∈ monthDanger cu count gen := by
  intro x hx
  unfold monthDanger
  rw [List.mem_flatMap]
  refine ⟨K - 1, by simp; omega, ?_⟩
  have e : K - 1 + 1 = K := by omega
  rw [e]
  have : (monthTable cu count gen).getD K [] = a := by simp [List.getD, ha]
  rw [this]; exact hx

/-- the month-name step: what the format action writes for month `K` is read back as `K` -/
theorem monthText_roundtrip (cu : Culture) (used : Nat) (get : Getter) (b : Bucket) (buf tail : Text) (count K : Nat) (a : Text)
    (hK : get .monthNum = (K : Int)) (ha : (monthTable cu count (genitiveOf used))[K]? = some a)
    (hok : nameOK (lowC cu) (monthTable cu count true) (monthSecond cu count) K a = true)
    (hs : tailSafe (lowC cu) (dangerChars (lowC cu) (monthTable cu count true) (monthSecond cu count) a) tail = true) :
    formatStep cu used get buf (.monthText count) = .ok (buf ++ a) ∧
    parseStep cu (a ++ tail) b (.monthText count) = .ok (some (b.set .monthText (K : Int), tail)) := by
  constructor
  · have hlt : ¬ ((K : Int) ≥ ((monthTable cu count (genitiveOf used)).length : Int)) := by
      rcases Nat.lt_or_ge K (monthTable cu count (genitiveOf used)).length with h' | h'
      · omega
      · rw [List.getElem?_eq_none h'] at ha; cases ha
    simp only [formatStep, hK, if_neg hlt, pyIndex_nat _ K a ha]
  · have hmem : (monthTable cu count true)[K]? = some a ∨
        ∃ t, monthSecond cu count = some t ∧ t[K]? = some a := by
      cases hg : genitiveOf used with
      | true => left; rw [hg] at ha; exact ha
      | false =>
        rw [hg] at ha
        unfold monthSecond
        by_cases he : monthTable cu count false = monthTable cu count true
        · left; rw [← he]; exact ha
        · right; rw [if_neg he]; exact ⟨_, rfl, ha⟩
    have := parseLongest_formatted _ _ K a tail hmem hok hs
    simp only [parseStep]
    unfold monthSecond at this
    rw [this]

/-! ## day names -/

theorem dayNamesOK_at (cu : Culture) (count : Nat) (h : dayNamesOK cu count = true) (K : Nat) (h1 : 1 ≤ K) (h2 : K ≤ 7) :
    ∃ a, (dayTable cu count)[K]? = some a ∧ nameOK (lowC cu) (dayTable cu count) none K a = true := by
  unfold dayNamesOK at h
  rw [List.all_eq_true] at h
  have := h (K - 1) (by simp; omega)
  have e : K - 1 + 1 = K := by omega
  rw [e] at this
  cases hq : (dayTable cu count)[K]? with
  | none => rw [hq] at this; cases this
  | some a => rw [hq] at this; exact ⟨a, rfl, this⟩

theorem dayDanger_at (cu : Culture) (count : Nat) (K : Nat) (h1 : 1 ≤ K) (h2 : K ≤ 7) (a : Text)
    (ha : (dayTable cu count)[K]? = some a) :
    ∀ x ∈ dangerChars (lowC cu) (dayTable cu count) none a, x ∈ dayDanger cu count := by
  intro x hx
  unfold dayDanger
  rw [List.mem_flatMap]
  refine ⟨K - 1, by simp; omega, ?_⟩
  have e : K - 1 + 1 = K := by omega
  rw [e]
  have : (dayTable cu count).getD K [] = a := by simp [List.getD, ha]
  rw [this]; exact hx

/-- the day-name step: what the format action writes for weekday `K` is read back as `K` -/
theorem dayText_roundtrip (cu : Culture) (used : Nat) (get : Getter) (b : Bucket) (buf tail : Text) (count K : Nat) (a : Text)
    (hK : get .dayOfWeek = (K : Int)) (ha : (dayTable cu count)[K]? = some a)
    (hok : nameOK (lowC cu) (dayTable cu count) none K a = true)
    (hs : tailSafe (lowC cu) (dangerChars (lowC cu) (dayTable cu count) none a) tail = true) :
    formatStep cu used get buf (.dayText count) = .ok (buf ++ a) ∧
    parseStep cu (a ++ tail) b (.dayText count) = .ok (some (b.set .dayOfWeek (K : Int), tail)) := by
  constructor
  · simp only [formatStep, hK, pyIndex_nat _ K a ha]
  · have := parseLongest_formatted (dayTable cu count) none K a tail (Or.inl ha) hok hs
    simp only [parseStep, this]

/-! ## am/pm designators -/

theorem matchCI_self (s tail : Text) : matchCI low s (s ++ tail) = some tail := by
  unfold matchCI
  have h1 : ¬ (s.length > (s ++ tail).length) := by simp
  rw [if_neg h1]
  simp

theorem matchCI_none_of_not_mCI (c l : Text) (h : mCI low c l = false) : matchCI low c l = none := by
  unfold mCI at h
  cases hm : matchCI low c l with
  | none => rfl
  | some r => rw [hm] at h; cases h

/-- a non-empty candidate does not match a tail that is safe against its first character -/
theorem not_mCI_of_tailSafe (c tail : Text) (hc : c ≠ []) (hs : tailSafe low ((c.take 1).map low) tail = true) :
    mCI low c tail = false := by
  cases c with
  | nil => exact absurd rfl hc
  | cons x cs =>
    cases tail with
    | nil => exact mCI_cons_nil x cs
    | cons y tl =>
      rw [mCI_cons_cons]
      simp only [tailSafe, List.take_succ_cons, List.take_zero, List.map_cons, List.map_nil, Bool.not_eq_true',
        List.contains_eq_mem, decide_eq_false_iff_not, List.mem_singleton] at hs
      simp [hs]

/-- the value the am/pm parse action stores for an hour of day: 2 when the culture has no designators at all -/
def amPmValue (cu : Culture) (hour : Int) : Int :=
  if cu.am = [] ∧ cu.pm = [] then 2 else if hour > 11 then 1 else 0

theorem tdiv12 (hour : Int) (h0 : 0 ≤ hour) (h1 : hour ≤ 23) : Int.tdiv hour 12 = if hour > 11 then 1 else 0 := by
  rw [Int.tdiv_eq_ediv_of_nonneg h0]
  split <;> omega

/-- the am/pm step: the designator written for the hour is read back as that half of the day -/
theorem amPm_roundtrip (cu : Culture) (used : Nat) (get : Getter) (b : Bucket) (buf tail : Text) (count : Nat)
    (h0 : 0 ≤ get .hours24) (h1 : get .hours24 ≤ 23)
    (hok : amPmOK cu count = true) (hs : tailSafe (lowC cu) (amPmDanger cu count) tail = true) :
    formatStep cu used get buf (.amPm count) = .ok (buf ++ formatAmPm cu count (get .hours24)) ∧
    parseStep cu (formatAmPm cu count (get .hours24) ++ tail) b (.amPm count) =
      .ok (some (b.set .amPm (amPmValue cu (get .hours24)), tail)) := by
  refine ⟨rfl, ?_⟩
  generalize get .hours24 = hour at h0 h1
  have ht := tdiv12 hour h0 h1
  suffices hp : parseAmPm cu count (formatAmPm cu count hour ++ tail) = some (amPmValue cu hour, tail) by
    simp only [parseStep, hp]
  unfold parseAmPm formatAmPm amPmValue
  by_cases hA : cu.am = [] ∧ cu.pm = []
  · simp only [hA, and_self, if_true, List.nil_append]
  · rw [if_neg hA, if_neg hA, if_neg hA]
    by_cases hB : cu.am = [] ∨ cu.pm = []
    · rw [if_pos hB, if_pos hB]
      dsimp only
      -- one designator: `sd` is the non-empty one
      have hdanger : amPmDanger cu count = ((if cu.am = [] then cu.pm else cu.am).take 1).map (lowC cu) := by
        unfold amPmDanger
        rw [if_neg hA]
        by_cases ha : cu.am = []
        · simp only [ha, if_true]
        · have hp : cu.pm = [] := by rcases hB with h | h; exact absurd h ha; exact h
          simp only [ha, hp, if_false, if_true]
      have hsd : (if cu.am = [] then cu.pm else cu.am) ≠ [] := by
        by_cases ha : cu.am = []
        · simp only [ha, if_true]; intro hp; exact hA ⟨ha, hp⟩
        · simp only [ha, if_false]; exact ha
      by_cases ha : cu.am = []
      · -- pm is specified (value 1)
        simp only [ha, if_true] at hdanger hsd ⊢
        simp only [ht]
        by_cases hh : hour > 11
        · simp only [hh, if_true, matchCI_self]
        · have e01 : ¬ ((0 : Int) = 1) := by decide
          simp only [hh, if_false, e01, List.nil_append]
          have hsd1 : (if count = 1 then cu.pm.take 1 else cu.pm) ≠ [] := by
            split
            · cases hq : cu.pm with
              | nil => exact absurd hq hsd
              | cons x xs => simp
            · exact hsd
          have : ((if count = 1 then cu.pm.take 1 else cu.pm).take 1).map (lowC cu) = (cu.pm.take 1).map (lowC cu) := by
            split
            · simp [List.take_take]
            · rfl
          rw [matchCI_none_of_not_mCI _ _ (not_mCI_of_tailSafe _ tail hsd1 (by rw [this, ← hdanger]; exact hs))]
          rfl
      · -- am is specified (value 0)
        have hp : cu.pm = [] := by rcases hB with h | h; exact absurd h ha; exact h
        simp only [ha, if_false] at hdanger hsd ⊢
        have e01 : ¬ ((0 : Int) = 1) := by decide
        simp only [e01, if_false, ht]
        by_cases hh : hour > 11
        · have e10 : ¬ ((1 : Int) = 0) := by decide
          simp only [hh, if_true, e10, if_false, List.nil_append]
          have hsd1 : (if count = 1 then cu.am.take 1 else cu.am) ≠ [] := by
            split
            · cases hq : cu.am with
              | nil => exact absurd hq hsd
              | cons x xs => simp
            · exact hsd
          have : ((if count = 1 then cu.am.take 1 else cu.am).take 1).map (lowC cu) = (cu.am.take 1).map (lowC cu) := by
            split
            · simp [List.take_take]
            · rfl
          rw [matchCI_none_of_not_mCI _ _ (not_mCI_of_tailSafe _ tail hsd1 (by rw [this, ← hdanger]; exact hs))]
          rfl
        · simp only [hh, if_false, if_true, matchCI_self]
    · rw [if_neg hB, if_neg hB]
      have hok' := hok
      unfold amPmOK at hok'
      rw [if_neg hB] at hok'
      by_cases hc : count = 1
      · rw [if_pos hc, if_pos hc]
        rw [if_pos hc] at hok'
        by_cases hh : hour > 11
        · simp only [hh, if_true]
          have hl : (cu.am.take 1).length = (cu.pm.take 1).length := by
            have h1 : cu.am ≠ [] := fun h => hB (Or.inl h)
            have h2 : cu.pm ≠ [] := fun h => hB (Or.inr h)
            cases ha : cu.am with
            | nil => exact absurd ha h1
            | cons x xs =>
              cases hp : cu.pm with
              | nil => exact absurd hp h2
              | cons y ys => simp
          have hn : mCI (lowC cu) (cu.am.take 1) (cu.pm.take 1 ++ tail) = false := by
            rw [mCI_same _ _ tail hl]; simpa using hok'
          rw [matchCI_none_of_not_mCI _ _ hn, matchCI_self]
        · simp only [hh, if_false, matchCI_self]
      · rw [if_neg hc, if_neg hc]
        rw [if_neg hc] at hok'
        dsimp only at hok' ⊢
        by_cases hpl : cu.pm.length > cu.am.length
        · -- pm is the longer designator
          simp only [hpl, decide_true, if_true] at hok' ⊢
          by_cases hh : hour > 11
          · simp only [hh, if_true, matchCI_self]
          · simp only [hh, if_false]
            have hn : mCI (lowC cu) cu.pm (cu.am ++ tail) = false := by
              cases hm : mCI (lowC cu) cu.pm (cu.am ++ tail) with
              | false => rfl
              | true =>
                obtain ⟨he, _⟩ := mCI_long cu.pm cu.am tail hpl hm
                simp only [strictExt, Bool.and_eq_true] at he
                rw [he.2] at hok'; cases hok'
            rw [matchCI_none_of_not_mCI _ _ hn, matchCI_self]
            rfl
        · -- am is the longer (or equally long) designator
          simp only [hpl, decide_false, Bool.false_eq_true, if_false] at hok' ⊢
          by_cases hh : hour > 11
          · simp only [hh, if_true]
            have hn : mCI (lowC cu) cu.am (cu.pm ++ tail) = false := by
              cases hm : mCI (lowC cu) cu.am (cu.pm ++ tail) with
              | false => rfl
              | true =>
                by_cases hl : cu.pm.length < cu.am.length
                · obtain ⟨he, _⟩ := mCI_long cu.am cu.pm tail hl hm
                  simp only [strictExt, Bool.and_eq_true] at he
                  rw [he.2] at hok'; cases hok'
                · have hl' : cu.am.length = cu.pm.length := by omega
                  rw [mCI_same _ _ tail hl'] at hm
                  rw [← hl', List.take_length, hm] at hok'; cases hok'
            rw [matchCI_none_of_not_mCI _ _ hn, matchCI_self]
            rfl
          · simp only [hh, if_false, matchCI_self]

/-! ## era names -/

/-- the era parse action as one scan over the tagged names (BCE names, then CE names) -/
def firstTagged (low : Char → Char) (l : Text) : List (Int × Text) → Option (Int × Text)
  | [] => none
  | (e, n) :: ns =>
    match matchCI low n l with
    | some r => some (e, r)
    | none => firstTagged low l ns

theorem firstTagged_map_append (l : Text) (e : Int) (rest : List (Int × Text)) : ∀ names : List Text,
    firstTagged low l (names.map (fun n => (e, n)) ++ rest) =
      match firstMatchCI low l names with
      | some r => some (e, r)
      | none => firstTagged low l rest := by
  intro names
  induction names with
  | nil => simp [firstMatchCI]
  | cons n ns ih =>
    simp only [List.map_cons, List.cons_append, firstTagged, firstMatchCI]
    cases matchCI low n l with
    | some r => rfl
    | none => exact ih

theorem parseEra_eq (cu : Culture) (l : Text) : parseEra cu l = firstTagged (lowC cu) l (eraCands cu) := by
  unfold parseEra eraCands
  rw [firstTagged_map_append]
  cases firstMatchCI (lowC cu) l cu.eraNamesBCE with
  | some r => rfl
  | none =>
    dsimp only
    have := firstTagged_map_append (low := lowC cu) l 1 [] cu.eraNamesCE
    rw [List.append_nil] at this
    rw [this]
    cases firstMatchCI (lowC cu) l cu.eraNamesCE with
    | some r => rfl
    | none => rfl

theorem eraScan_sound (P : Text) (e : Int) (tail : Text) : ∀ (N : List (Int × Text)) (ds : List Char),
    eraScan low P e N = some ds → tailSafe low ds tail = true → firstTagged low (P ++ tail) N = some (e, tail) := by
  intro N
  induction N with
  | nil => intro ds h; simp [eraScan] at h
  | cons x ns ih =>
    obtain ⟨e', n⟩ := x
    intro ds h hs
    unfold eraScan at h
    unfold firstTagged
    by_cases h1 : (decide (n.length ≤ P.length) && ciEq low (P.take n.length) n) = true
    · rw [if_pos h1] at h
      simp only [Bool.and_eq_true, decide_eq_true_eq] at h1
      split at h
      · rename_i h2
        have hm : mCI low n (P ++ tail) = true := by rw [mCI_short n P tail h1.1]; exact h1.2
        unfold mCI at hm
        cases hq : matchCI low n (P ++ tail) with
        | none => rw [hq] at hm; cases hm
        | some r =>
          have := matchCI_drop n (P ++ tail) r hq
          rw [h2.1] at this
          simp only [List.drop_left] at this
          rw [this, h2.2]
      · cases h
    · rw [if_neg h1] at h
      have hno : mCI low n (P ++ tail) = true → strictExt low n P = true ∧
          ∃ x tl, tail = x :: tl ∧ low x = low (n.getD P.length ' ') := by
        intro hm
        by_cases hl : n.length ≤ P.length
        · rw [mCI_short n P tail hl] at hm
          exact absurd (by simp [hl, hm]) h1
        · exact mCI_long n P tail (by omega) hm
      by_cases h2 : strictExt low n P = true
      · rw [if_pos h2] at h
        cases hq : eraScan low P e ns with
        | none => rw [hq] at h; cases h
        | some ds' =>
          rw [hq] at h
          simp only [Option.map_some, Option.some.injEq] at h
          subst h
          have hs' : tailSafe low ds' tail = true ∧ mCI low n (P ++ tail) = false := by
            cases tail with
            | nil =>
              refine ⟨rfl, ?_⟩
              cases hm : mCI low n (P ++ []) with
              | false => rfl
              | true => obtain ⟨_, x, tl, e1, _⟩ := hno hm; cases e1
            | cons y tl =>
              simp only [tailSafe, Bool.not_eq_true', List.contains_eq_mem, decide_eq_false_iff_not, List.mem_cons, not_or] at hs ⊢
              refine ⟨hs.2, ?_⟩
              cases hm : mCI low n (P ++ y :: tl) with
              | false => rfl
              | true =>
                obtain ⟨_, x, tl', e1, e2⟩ := hno hm
                injection e1 with e1 _
                subst e1
                exact absurd e2 hs.1
          rw [matchCI_none_of_not_mCI _ _ hs'.2]
          exact ih ds' hq hs'.1
      · rw [if_neg h2] at h
        have : mCI low n (P ++ tail) = false := by
          cases hm : mCI low n (P ++ tail) with
          | false => rfl
          | true => exact absurd (hno hm).1 h2
        rw [matchCI_none_of_not_mCI _ _ this]
        exact ih ds h hs

/-- the era step: the primary name written for era `e` (0 = BCE, 1 = CE) is read back as `e` -/
theorem era_roundtrip (cu : Culture) (used : Nat) (get : Getter) (b : Bucket) (buf tail : Text)
    (he : get .era = 0 ∨ get .era = 1) (hok : eraOK cu = true) (hs : tailSafe (lowC cu) (eraDanger cu) tail = true) :
    formatStep cu used get buf .era = .ok (buf ++ eraPrimary cu (get .era)) ∧
    parseStep cu (eraPrimary cu (get .era) ++ tail) b .era = .ok (some (b.set .era (get .era), tail)) := by
  refine ⟨by rcases he with e | e <;> simp [formatStep, eraPrimary, eraPrimaryOf, e], ?_⟩
  unfold eraOK at hok
  simp only [Bool.and_eq_true, decide_eq_true_eq] at hok
  obtain ⟨⟨⟨o1, o2⟩, _⟩, _⟩ := hok
  unfold eraDanger at hs
  obtain ⟨s1, s2⟩ := tailSafe_append _ _ tail hs
  simp only [parseStep, parseEra_eq]
  rcases he with e0 | e1
  · rw [e0]
    have : eraPrimary cu 0 = cu.eraPrimaryBCE := by simp [eraPrimary]
    rw [this]
    cases hq : eraScan (lowC cu) cu.eraPrimaryBCE 0 (eraCands cu) with
    | none => rw [hq] at o1; cases o1
    | some ds =>
      rw [hq] at s1
      rw [eraScan_sound _ 0 tail _ ds hq s1]
  · rw [e1]
    have : eraPrimary cu 1 = cu.eraPrimaryCE := by simp [eraPrimary]
    rw [this]
    cases hq : eraScan (lowC cu) cu.eraPrimaryCE 1 (eraCands cu) with
    | none => rw [hq] at o2; cases o2
    | some ds =>
      rw [hq] at s2
      rw [eraScan_sound _ 1 tail _ ds hq s2]

/-- the era step of a single-era calendar: the primary name of its era is written and read back -/
theorem eraC_roundtrip (cu : Culture) (used : Nat) (get : Getter) (b : Bucket) (buf tail : Text) (cal : Nat)
    (he : get .era = eraIdOfCal cal) (hok : eraCOK cu cal = true) (hs : tailSafe (lowC cu) (eraCDanger cu cal) tail = true) :
    formatStep cu used get buf (.eraC cal) = .ok (buf ++ eraPrimaryOf cu (get .era)) ∧
    parseStep cu (eraPrimaryOf cu (get .era) ++ tail) b (.eraC cal) = .ok (some (b.set .era (get .era), tail)) := by
  refine ⟨rfl, ?_⟩
  unfold eraCOK at hok
  simp only [Bool.and_eq_true, decide_eq_true_eq] at hok
  unfold eraCDanger at hs
  rw [he]
  cases hq : eraScan (lowC cu) (eraPrimaryOf cu (eraIdOfCal cal)) (eraIdOfCal cal) (eraCandsC cu cal) with
  | none => rw [hq] at hok; cases hok.1
  | some ds =>
    rw [hq] at hs
    have h1 := eraScan_sound _ (eraIdOfCal cal) tail _ ds hq hs
    unfold eraCandsC at h1
    have h2 := firstTagged_map_append (low := lowC cu) (eraPrimaryOf cu (eraIdOfCal cal) ++ tail) (eraIdOfCal cal) [] (eraNamesOf cu (eraIdOfCal cal))
    rw [List.append_nil] at h2
    rw [h2] at h1
    simp only [parseStep]
    cases hm : firstMatchCI (lowC cu) (eraPrimaryOf cu (eraIdOfCal cal) ++ tail) (eraNamesOf cu (eraIdOfCal cal)) with
    | none => rw [hm] at h1; simp [firstTagged] at h1
    | some r =>
      rw [hm] at h1
      simp only [Option.some.injEq, Prod.mk.injEq] at h1
      rw [h1.2]

/-! ## the calendar id -/

theorem matchText_head_ne (c d : Char) (i l : Text) (h : c ≠ d) : matchText (c :: i) (d :: l) = none := by
  unfold matchText
  simp only [List.length_cons, List.take_succ_cons, List.cons.injEq]
  have : ¬ (d = c ∧ List.take i.length l = i) := fun hh => h hh.1.symm
  rw [if_neg this]

theorem calendarIds_eq : calendarIds =
    [['B', 'a', 'd', 'i'],
     ['C', 'o', 'p', 't', 'i', 'c'],
     ['G', 'r', 'e', 'g', 'o', 'r', 'i', 'a', 'n'],
     ['H', 'e', 'b', 'r', 'e', 'w', ' ', 'C', 'i', 'v', 'i', 'l'],
     ['H', 'e', 'b', 'r', 'e', 'w', ' ', 'S', 'c', 'r', 'i', 'p', 't', 'u', 'r', 'a', 'l'],
     ['H', 'i', 'j', 'r', 'i', ' ', 'C', 'i', 'v', 'i', 'l', '-', 'B', 'a', 's', 'e', '1', '5'],
     ['H', 'i', 'j', 'r', 'i', ' ', 'A', 's', 't', 'r', 'o', 'n', 'o', 'm', 'i', 'c', 'a', 'l', '-', 'B', 'a', 's', 'e', '1', '5'],
     ['H', 'i', 'j', 'r', 'i', ' ', 'C', 'i', 'v', 'i', 'l', '-', 'B', 'a', 's', 'e', '1', '6'],
     ['H', 'i', 'j', 'r', 'i', ' ', 'A', 's', 't', 'r', 'o', 'n', 'o', 'm', 'i', 'c', 'a', 'l', '-', 'B', 'a', 's', 'e', '1', '6'],
     ['H', 'i', 'j', 'r', 'i', ' ', 'C', 'i', 'v', 'i', 'l', '-', 'I', 'n', 'd', 'i', 'a', 'n'],
     ['H', 'i', 'j', 'r', 'i', ' ', 'A', 's', 't', 'r', 'o', 'n', 'o', 'm', 'i', 'c', 'a', 'l', '-', 'I', 'n', 'd', 'i', 'a', 'n'],
     ['H', 'i', 'j', 'r', 'i', ' ', 'C', 'i', 'v', 'i', 'l', '-', 'H', 'a', 'b', 'a', 's', 'h', 'A', 'l', 'H', 'a', 's', 'i', 'b'],
     ['H', 'i', 'j', 'r', 'i', ' ', 'A', 's', 't', 'r', 'o', 'n', 'o', 'm', 'i', 'c', 'a', 'l', '-', 'H', 'a', 'b', 'a', 's', 'h', 'A', 'l', 'H', 'a', 's', 'i', 'b'],
     ['I', 'S', 'O'],
     ['J', 'u', 'l', 'i', 'a', 'n'],
     ['P', 'e', 'r', 's', 'i', 'a', 'n', ' ', 'S', 'i', 'm', 'p', 'l', 'e'],
     ['P', 'e', 'r', 's', 'i', 'a', 'n', ' ', 'A', 'r', 'i', 't', 'h', 'm', 'e', 't', 'i', 'c'],
     ['P', 'e', 'r', 's', 'i', 'a', 'n', ' ', 'A', 'l', 'g', 'o', 'r', 'i', 't', 'h', 'm', 'i', 'c'],
     ['U', 'm', ' ', 'A', 'l', ' ', 'Q', 'u', 'r', 'a']] := by decide

/-- some position within the common length of `j` and `i` differs -/
def diverge : Text → Text → Bool
  | x :: xs, y :: ys => decide (x ≠ y) || diverge xs ys
  | _, _ => false

theorem matchText_diverge : ∀ (j i tail : Text), diverge j i = true → matchText j (i ++ tail) = none := by
  intro j
  induction j with
  | nil => intro i tail h; cases i <;> simp [diverge] at h
  | cons x xs ih =>
    intro i tail h
    cases i with
    | nil => simp [diverge] at h
    | cons y ys =>
      simp only [diverge, Bool.or_eq_true, decide_eq_true_eq] at h
      rcases h with h | h
      · exact matchText_head_ne x y xs (ys ++ tail) h
      · have := ih ys tail h
        unfold matchText at this ⊢
        simp only [List.cons_append, List.length_cons, List.take_succ_cons, List.cons.injEq]
        by_cases hq : List.take xs.length (ys ++ tail) = xs
        · rw [if_pos hq] at this; cases this
        · rw [if_neg (fun hh => hq hh.2)]

/-- an id that every other id of the list diverges from is the one the parse action finds -/
theorem parseCalendarId_of_diverge (i tail : Text) : ∀ ids : List Text, i ∈ ids →
    (∀ j ∈ ids, j ≠ i → diverge j i = true) → parseCalendarId (i ++ tail) ids = some (i, tail) := by
  intro ids
  induction ids with
  | nil => intro h; cases h
  | cons x xs ih =>
    intro hm hd
    simp only [parseCalendarId]
    by_cases hx : x = i
    · subst hx
      have : matchText x (x ++ tail) = some tail := by unfold matchText; simp
      rw [this]
    · rw [matchText_diverge x i tail (hd x (by simp) hx)]
      have hm' : i ∈ xs := by
        rcases List.mem_cons.mp hm with h | h
        · exact absurd h.symm hx
        · exact h
      exact ih hm' (fun j hj hne => hd j (by simp [hj]) hne)

/-- every calendar id is found by the parse action (the ids are prefix-free in both directions) and names its ordinal -/
def calIdOK (k : Nat) : Bool :=
  let i := idOfOrd (k : Int)
  calendarIds.contains i && calendarIds.all (fun j => j == i || diverge j i) && (ordOfId i == (k : Int))

theorem calIdOK_all : ∀ k : Fin 19, calIdOK k.val = true := by decide +kernel

/-- the calendar step: the id of the value's calendar is written and read back as its ordinal -/
theorem calendar_roundtrip (cu : Culture) (used : Nat) (get : Getter) (b : Bucket) (buf tail : Text)
    (hk : 0 ≤ get .calendar ∧ get .calendar ≤ 18) :
    formatStep cu used get buf .calendar = .ok (buf ++ idOfOrd (get .calendar)) ∧
    parseStep cu (idOfOrd (get .calendar) ++ tail) b .calendar = .ok (some (b.set .calendar (get .calendar), tail)) := by
  refine ⟨rfl, ?_⟩
  obtain ⟨k, hkk, hlt⟩ : ∃ k : Nat, get .calendar = (k : Int) ∧ k < 19 := ⟨(get .calendar).toNat, by omega, by omega⟩
  have hok := calIdOK_all ⟨k, hlt⟩
  simp only [calIdOK, Bool.and_eq_true, List.contains_eq_mem, decide_eq_true_eq, List.all_eq_true, Bool.or_eq_true,
    beq_iff_eq] at hok
  obtain ⟨⟨hm, hd⟩, ho⟩ := hok
  rw [hkk]
  have hp := parseCalendarId_of_diverge (idOfOrd (k : Int)) tail calendarIds hm
    (fun j hj hne => by rcases hd j hj with h | h; exact absurd h hne; exact h)
  simp only [parseStep, hp, ho]

end Pyoda.C07
