/-
  GenAgreeC05 — agreement between the zone code GENERATED from pyoda_time's Python source (`PyodaGen/C05.lean`:
  `DateTimeZone.map_local` with its four interval-search helpers, `ZoneInterval`'s containment tests and guarded bounds,
  `_PrecalculatedDateTimeZone.get_zone_interval` with its binary search) and the Zone model (`PyodaModel/Zone.lean`:
  `mapLocal`, `earlierMatching`, `laterMatching`, `intervalBeforeGap`, `intervalAfterGap`, `Precalc.search`, `Precalc.get`).
  Shared by C05 and C04.

  Instants, local instants, durations and offsets are the model's integers (PyodaGen/GlueC05.lean); a zone's
  `get_zone_interval` is the abstract callee `getIv`, exactly the `get` parameter of the model's `mapLocal`.
-/
import PyodaGen.C05
import PyodaModel.Zone
import PyodaProofs.Basic

namespace Pyoda.GenAgree.C05
open Pyoda Pyoda.Zone

/-! ## ZoneInterval -/

theorem gen_ZoneInterval_rawStart_eq (z : ZI) : Gen.C05.ZoneInterval.rawStart z = z.s := rfl
theorem gen_ZoneInterval_rawEnd_eq (z : ZI) : Gen.C05.ZoneInterval.rawEnd z = z.e := rfl
theorem gen_ZoneInterval_wallOffset_eq (z : ZI) : Gen.C05.ZoneInterval.wallOffset z = z.wall := rfl
theorem gen_ZoneInterval_savings_eq (z : ZI) : Gen.C05.ZoneInterval.savings z = z.savings := rfl
theorem gen_ZoneInterval_hasStart_eq (z : ZI) : Gen.C05.ZoneInterval.hasStart z = z.hasStart := rfl
theorem gen_ZoneInterval_hasEnd_eq (z : ZI) : Gen.C05.ZoneInterval.hasEnd z = z.hasEnd := rfl

theorem gen_ZoneInterval_start_eq (z : ZI) :
    Gen.C05.ZoneInterval.start z = if z.hasStart then .ok z.s else .error .runtimeError := by
  unfold Gen.C05.ZoneInterval.start Gen.checkState Gen.C05.ZoneInterval.rawStart ZI.hasStart
  cases isValid z.s <;> rfl

theorem gen_ZoneInterval_end_eq (z : ZI) :
    Gen.C05.ZoneInterval.end z = if z.hasEnd then .ok z.e else .error .runtimeError := by
  unfold Gen.C05.ZoneInterval.end Gen.checkState Gen.C05.ZoneInterval.rawEnd ZI.hasEnd
  cases isValid z.e <;> rfl

theorem gen_ZoneInterval_containsInstant_eq (z : ZI) (t : Int) : Gen.C05.ZoneInterval.containsInstant z t = z.contains t := by
  unfold Gen.C05.ZoneInterval.containsInstant ZI.contains Gen.C05Glue.instLe Gen.C05Glue.instLt Gen.C05.ZoneInterval.rawStart
    Gen.C05.ZoneInterval.rawEnd
  simp only [Bool.decide_and, Bool.decide_eq_true]

theorem gen_ZoneInterval_containsLocal_eq (z : ZI) (l : Int) : Gen.C05.ZoneInterval.containsLocal z l = z.containsLocal l := by
  unfold Gen.C05.ZoneInterval.containsLocal ZI.containsLocal Gen.C05Glue.instLe Gen.C05Glue.instLt
  simp only [Bool.decide_and, Bool.decide_eq_true]

theorem gen_ZoneLocalMapping_earlyInterval_eq (m : Mapping) : Gen.C05.ZoneLocalMapping.earlyInterval m = m.early := rfl
theorem gen_ZoneLocalMapping_lateInterval_eq (m : Mapping) : Gen.C05.ZoneLocalMapping.lateInterval m = m.late := rfl

/-! ## `DateTimeZone.map_local` and its helpers (`getIv` = the zone's `get_zone_interval`) -/

theorem gen_Zone_getEarlierMatchingInterval_eq (getIv : Int → R ZI) (iv : ZI) (l : Int) :
    Gen.C05.Zone.getEarlierMatchingInterval getIv iv l = earlierMatching getIv iv l := by
  unfold Gen.C05.Zone.getEarlierMatchingInterval earlierMatching Gen.C05Glue.instMinusDur Gen.C05Glue.epsilon
  simp only [gen_ZoneInterval_rawStart_eq, gen_ZoneInterval_containsLocal_eq]

theorem gen_Zone_getLaterMatchingInterval_eq (getIv : Int → R ZI) (iv : ZI) (l : Int) :
    Gen.C05.Zone.getLaterMatchingInterval getIv iv l = laterMatching getIv iv l := by
  unfold Gen.C05.Zone.getLaterMatchingInterval laterMatching
  simp only [gen_ZoneInterval_rawEnd_eq, gen_ZoneInterval_containsLocal_eq]

theorem gen_Zone_getIntervalBeforeGap_eq (getIv : Int → R ZI) (l : Int) :
    Gen.C05.Zone.getIntervalBeforeGap getIv l = intervalBeforeGap getIv l := by
  unfold Gen.C05.Zone.getIntervalBeforeGap intervalBeforeGap Gen.C05Glue.minusZeroOffset Gen.C05Glue.localMinus
    Gen.C05Glue.instLt Gen.C05Glue.instMinusDur Gen.C05Glue.epsilon
  simp only [gen_ZoneInterval_wallOffset_eq, gen_ZoneInterval_rawStart_eq, gen_ZoneInterval_start_eq, bind, Except.bind]
  cases getIv l with
  | error e => rfl
  | ok g =>
    simp only
    cases untrusted (l - g.wall * NPS) with
    | error e => rfl
    | ok t =>
      simp only [decide_eq_true_eq]
      by_cases h : t < g.s
      · simp only [h, if_true]
        cases hs : g.hasStart
        · simp
        · simp only [if_true, Bool.not_true, Bool.false_eq_true, if_false]
          cases untrusted (g.s - 1) <;> rfl
      · simp [h]

theorem gen_Zone_getIntervalAfterGap_eq (getIv : Int → R ZI) (l : Int) :
    Gen.C05.Zone.getIntervalAfterGap getIv l = intervalAfterGap getIv l := by
  unfold Gen.C05.Zone.getIntervalAfterGap intervalAfterGap Gen.C05Glue.minusZeroOffset Gen.C05Glue.localMinus
    Gen.C05Glue.instLt
  simp only [gen_ZoneInterval_wallOffset_eq, gen_ZoneInterval_rawStart_eq, gen_ZoneInterval_end_eq, bind, Except.bind]
  cases getIv l with
  | error e => rfl
  | ok g =>
    simp only
    cases untrusted (l - g.wall * NPS) with
    | error e => rfl
    | ok t =>
      simp only [decide_eq_true_eq]
      by_cases h : t < g.s
      · simp [h]
      · simp only [h, if_false]
        cases hs : g.hasEnd
        · simp
        · simp

/-- `map_local`: the mapping of the local instant of the given `LocalDateTime` -/
theorem gen_Zone_mapLocal_eq (getIv : Int → R ZI) (ldt : Gen.LdtObj) :
    Gen.C05.Zone.mapLocal getIv ldt = mapLocal getIv ldt.localInstant := by
  unfold Gen.C05.Zone.mapLocal mapLocal Gen.C05Glue.minusZeroOffset Gen.C05Glue.mkMapping
  simp only [gen_ZoneInterval_containsLocal_eq, gen_Zone_getEarlierMatchingInterval_eq, gen_Zone_getLaterMatchingInterval_eq,
    gen_Zone_getIntervalBeforeGap_eq, gen_Zone_getIntervalAfterGap_eq, bind, Except.bind]
  cases getIv ldt.localInstant with
  | error e => rfl
  | ok iv =>
    simp only
    cases hc : iv.containsLocal ldt.localInstant
    · simp only [Bool.false_eq_true, if_false]
      cases earlierMatching getIv iv ldt.localInstant with
      | error e => rfl
      | ok oe =>
        cases oe with
        | some e => rfl
        | none =>
          simp only
          cases laterMatching getIv iv ldt.localInstant with
          | error e => rfl
          | ok ol =>
            cases ol with
            | some la => rfl
            | none =>
              simp only
              cases intervalBeforeGap getIv ldt.localInstant with
              | error e => rfl
              | ok b =>
                simp only
                cases intervalAfterGap getIv ldt.localInstant <;> rfl
    · simp only [if_true]
      cases earlierMatching getIv iv ldt.localInstant with
      | error e => rfl
      | ok oe =>
        cases oe with
        | some e => rfl
        | none =>
          simp only
          cases laterMatching getIv iv ldt.localInstant with
          | error e => rfl
          | ok ol => cases ol <;> rfl

/-! ## `_PrecalculatedDateTimeZone.get_zone_interval`: the binary search (indices are Python ints in the code, naturals in the model) -/

theorem pyListIndex_nat {α} (ps : Array α) (k : Nat) (h : k < ps.size) :
    Gen.pyListIndex ps (k : Int) = (match ps[k]? with | some v => .ok v | none => .error .indexError) := by
  unfold Gen.pyListIndex
  have h0 : ¬ ((k : Int) < 0) := by omega
  simp only [h0, if_false]
  rw [if_pos ⟨by omega, by omega⟩]
  rfl

theorem tdiv_mid (lo hi : Nat) (hb : (hi : Int) < 9223372036854775808) (hle : lo ≤ hi) :
    pyTdiv ((lo : Int) + (hi : Int)) 2 = .ok (((lo + hi) / 2 : Nat) : Int) := by
  rw [pyTdiv_ok _ _ (by decide) (by unfold decBound; omega) (by unfold decBound; omega) (by decide) (by decide)]
  rfl

/-- how the generated loop (which also reports the loop variables) and the model's search relate -/
def LoopRel (g : R (Option ZI × (Int × Int))) (m : R ZI) : Prop :=
  (∃ z c, g = .ok (some z, c) ∧ m = .ok z) ∨ (∃ c, g = .ok (none, c) ∧ m = .error .runtimeError)

/-- with enough fuel on both sides (each halving of the index range costs one unit) the generated loop and the
    model's `search` take the same steps -/
theorem gen_Precalc_loop_rel (ps : Array ZI) (t : Int) (hsz : (ps.size : Int) < 9223372036854775808) :
    ∀ (fa fb lo hi : Nat), hi ≤ ps.size → hi - lo < 2 ^ fa → hi - lo < 2 ^ fb →
      LoopRel (Gen.C05.Precalc.getZoneIntervalNoTail.loop1 ps t (fa + 1) (hi : Int) (lo : Int)) (Precalc.search ps t (fb + 1) lo hi) := by
  intro fa
  induction fa with
  | zero =>
    intro fb lo hi hhi ha hb
    have hge : ¬ lo < hi := by simp at ha; omega
    unfold Gen.C05.Precalc.getZoneIntervalNoTail.loop1 Precalc.search
    have hge' : ¬ ((lo : Int) < (hi : Int)) := by omega
    simp only [hge, hge', if_false]
    exact Or.inr ⟨_, rfl, rfl⟩
  | succ k ih =>
    intro fb lo hi hhi ha hb
    unfold Gen.C05.Precalc.getZoneIntervalNoTail.loop1 Precalc.search
    by_cases hlt : lo < hi
    · have hlt' : (lo : Int) < (hi : Int) := by omega
      simp only [hlt, hlt', if_true]
      cases fb with
      | zero => simp at hb; omega
      | succ fb' =>
        have hcur : (lo + hi) / 2 < ps.size := by omega
        rw [tdiv_mid lo hi (by omega) (by omega)]
        simp only [bind, Except.bind, pyListIndex_nat ps _ hcur]
        cases hc : ps[(lo + hi) / 2]? with
        | none =>
          exfalso
          have := Array.getElem?_eq_none_iff.mp hc
          omega
        | some c =>
          simp only [gen_ZoneInterval_rawStart_eq, gen_ZoneInterval_rawEnd_eq, Gen.C05Glue.instGt, Gen.C05Glue.instLe, decide_eq_true_eq]
          have hpow : 2 ^ (k + 1) = 2 * 2 ^ k := by rw [Nat.pow_succ]; omega
          have hpow' : 2 ^ (fb' + 1) = 2 * 2 ^ fb' := by rw [Nat.pow_succ]; omega
          by_cases h1 : c.s > t
          · simp only [h1, if_true]
            exact ih fb' lo ((lo + hi) / 2) (by omega) (by omega) (by omega)
          · simp only [h1, if_false]
            by_cases h2 : c.e ≤ t
            · simp only [h2, if_true]
              have e : (((lo + hi) / 2 : Nat) : Int) + 1 = (((lo + hi) / 2 + 1 : Nat) : Int) := by omega
              rw [e]
              exact ih fb' ((lo + hi) / 2 + 1) hi hhi (by omega) (by omega)
            · simp only [h2, if_false]
              exact Or.inl ⟨c, _, rfl, rfl⟩
    · have hlt' : ¬ ((lo : Int) < (hi : Int)) := by omega
      simp only [hlt, hlt', if_false]
      exact Or.inr ⟨_, rfl, rfl⟩

theorem search_total (ps : Array ZI) (t : Int) (hsz : (ps.size : Int) < 9223372036854775808) :
    (Gen.C05.Precalc.getZoneIntervalNoTail.loop1 ps t 64 (ps.size : Int) 0 >>= fun r =>
        match r.1 with
        | some v => .ok v
        | none => (.error .runtimeError : R ZI)) =
      Precalc.search ps t (ps.size + 1) 0 ps.size := by
  have h := gen_Precalc_loop_rel ps t hsz 63 ps.size 0 ps.size (Nat.le_refl _)
    (by have : ps.size < 2 ^ 63 := by omega
        omega)
    (by have := Nat.lt_two_pow_self (n := ps.size); omega)
  have e0 : ((0 : Nat) : Int) = 0 := rfl
  rw [e0] at h
  rcases h with ⟨z, c, hg, hm⟩ | ⟨c, hg, hm⟩
  · rw [hg, hm]; rfl
  · rw [hg, hm]; rfl

/-- a precalculated zone without tail: the lookup is the model's `Precalc.get` -/
theorem gen_Precalc_getZoneIntervalNoTail_eq (ps : Array ZI) (t : Int) (hsz : (ps.size : Int) < 9223372036854775808) :
    Gen.C05.Precalc.getZoneIntervalNoTail ps t = Precalc.get ⟨ps, none⟩ t := by
  unfold Gen.C05.Precalc.getZoneIntervalNoTail Precalc.get
  have h := search_total ps t hsz
  simp only at h ⊢
  rw [← h]
  simp only [bind, Except.bind]
  cases Gen.C05.Precalc.getZoneIntervalNoTail.loop1 ps t 64 (ps.size : Int) 0 with
  | error e => rfl
  | ok r =>
    obtain ⟨o, u, l⟩ := r
    cases o <;> rfl

theorem gen_Precalc_getZoneIntervalNoTail_loop1_eq (ps : Array ZI) (t : Int) (hsz : (ps.size : Int) < 9223372036854775808) :
    (Gen.C05.Precalc.getZoneIntervalNoTail.loop1 ps t 64 (ps.size : Int) 0).map (·.1) =
      (match Precalc.search ps t (ps.size + 1) 0 ps.size with
        | .ok z => .ok (some z)
        | .error .runtimeError => .ok none
        | .error e => .error e) := by
  have h := gen_Precalc_loop_rel ps t hsz 63 ps.size 0 ps.size (Nat.le_refl _)
    (by have : ps.size < 2 ^ 63 := by omega
        omega)
    (by have := Nat.lt_two_pow_self (n := ps.size); omega)
  have e0 : ((0 : Nat) : Int) = 0 := rfl
  rw [e0] at h
  rcases h with ⟨z, c, hg, hm⟩ | ⟨c, hg, hm⟩
  · rw [hg, hm]; rfl
  · rw [hg, hm]; rfl

/-- the two generated copies of the loop (tail / no tail specialisation of the same source loop) coincide -/
theorem gen_Precalc_getZoneIntervalTail_loop1_eq (tailGet : Int → R ZI) (ps : Array ZI) (ts : Int) (fi : ZI) (t : Int) (f : Nat) (hi lo : Int) :
    Gen.C05.Precalc.getZoneIntervalTail.loop1 tailGet ps ts fi t f hi lo = Gen.C05.Precalc.getZoneIntervalNoTail.loop1 ps t f hi lo := by
  induction f generalizing hi lo with
  | zero => rfl
  | succ k ih =>
    unfold Gen.C05.Precalc.getZoneIntervalTail.loop1 Gen.C05.Precalc.getZoneIntervalNoTail.loop1
    simp only [ih]

/-- a precalculated zone with a tail zone `tz`: `__tail_zone_start` is the end of the last period and
    `__first_tail_zone_interval` what `__init__` computed (`hfirst`) -/
theorem gen_Precalc_getZoneIntervalTail_eq (ps : Array ZI) (tz : AltMap) (fi : ZI) (t : Int)
    (hsz : (ps.size : Int) < 9223372036854775808)
    (hfirst : (do let first ← tz.get (Precalc.tailStart ⟨ps, some tz⟩); first.withStart (Precalc.tailStart ⟨ps, some tz⟩)) = .ok fi) :
    Gen.C05.Precalc.getZoneIntervalTail tz.get ps (Precalc.tailStart ⟨ps, some tz⟩) fi t = Precalc.get ⟨ps, some tz⟩ t := by
  unfold Gen.C05.Precalc.getZoneIntervalTail Precalc.get
  simp only [Gen.C05Glue.instGe, Gen.C05Glue.instLt, gen_ZoneInterval_rawStart_eq, decide_eq_true_eq,
    gen_Precalc_getZoneIntervalTail_loop1_eq]
  by_cases h : t ≥ Precalc.tailStart ⟨ps, some tz⟩
  · simp only [h, if_true, bind, Except.bind]
    cases tz.get t with
    | error e => rfl
    | ok iv =>
      simp only
      by_cases h2 : iv.s < Precalc.tailStart ⟨ps, some tz⟩
      · simp only [h2, if_true]
        exact hfirst.symm
      · simp [h2]
  · simp only [h, if_false]
    have hh := search_total ps t hsz
    rw [← hh]
    simp only [bind, Except.bind]
    cases Gen.C05.Precalc.getZoneIntervalNoTail.loop1 ps t 64 (ps.size : Int) 0 with
    | error e => rfl
    | ok r =>
      obtain ⟨o, u, l⟩ := r
      cases o <;> rfl


/-! ## `ZoneLocalMapping.single / first / last`: which interval is built and which exception is raised
    (`build` = `__build_zoned_date_time`; the model's results are the instants of the built values, `buildInstant l`) -/

private theorem count_cases3 {α : Type} (n : Nat) (a b c d : α) :
    (if (n : Int) = 0 then a else if (n : Int) = 1 then b else if (n : Int) = 2 then c else d) =
      (match n with | 0 => a | 1 => b | 2 => c | _ => d) := by
  rcases n with _ | _ | _ | k
  · rfl
  · rfl
  · rfl
  · have h0 : ¬ (((k + 1 + 1 + 1 : Nat) : Int) = 0) := by omega
    have h1 : ¬ (((k + 1 + 1 + 1 : Nat) : Int) = 1) := by omega
    have h2 : ¬ (((k + 1 + 1 + 1 : Nat) : Int) = 2) := by omega
    simp only [h0, h1, h2, if_false]

private theorem count_cases2 {α : Type} (n : Nat) (a b d : α) :
    (if (n : Int) = 0 then a else if (n : Int) = 1 ∨ (n : Int) = 2 then b else d) =
      (match n with | 0 => a | 1 => b | 2 => b | _ => d) := by
  rcases n with _ | _ | _ | k
  · rfl
  · rfl
  · rfl
  · have h0 : ¬ (((k + 1 + 1 + 1 : Nat) : Int) = 0) := by omega
    have h1 : ¬ (((k + 1 + 1 + 1 : Nat) : Int) = 1 ∨ ((k + 1 + 1 + 1 : Nat) : Int) = 2) := by omega
    simp only [h0, h1, if_false]

theorem gen_ZoneLocalMapping_count_eq (m : Mapping) : Gen.C05.ZoneLocalMapping.count m = (m.count : Int) := rfl

theorem gen_ZoneLocalMapping_first_eq (build : ZI → R Int) (m : Mapping) :
    Gen.C05.ZoneLocalMapping.first build m =
      (match m.count with
        | 0 => .error .skippedTime
        | 1 => build m.early
        | 2 => build m.early
        | _ => .error .runtimeError) := by
  unfold Gen.C05.ZoneLocalMapping.first
  simp only [gen_ZoneLocalMapping_count_eq, gen_ZoneLocalMapping_earlyInterval_eq]
  exact count_cases2 _ _ _ _

theorem gen_ZoneLocalMapping_last_eq (build : ZI → R Int) (m : Mapping) :
    Gen.C05.ZoneLocalMapping.last build m =
      (match m.count with
        | 0 => .error .skippedTime
        | 1 => build m.early
        | 2 => build m.late
        | _ => .error .runtimeError) := by
  unfold Gen.C05.ZoneLocalMapping.last
  simp only [gen_ZoneLocalMapping_count_eq, gen_ZoneLocalMapping_earlyInterval_eq, gen_ZoneLocalMapping_lateInterval_eq]
  exact count_cases3 _ _ _ _ _

/-- `single()`: for an ambiguous time both candidates are built before `AmbiguousTimeError` is raised (their failure
    would come first) -/
theorem gen_ZoneLocalMapping_single_eq (build : ZI → R Int) (m : Mapping) :
    Gen.C05.ZoneLocalMapping.single build m =
      (match m.count with
        | 0 => .error .skippedTime
        | 1 => build m.early
        | 2 => (do let _ ← build m.early; let _ ← build m.late; .error .ambiguousTime)
        | _ => .error .runtimeError) := by
  unfold Gen.C05.ZoneLocalMapping.single
  simp only [gen_ZoneLocalMapping_count_eq, gen_ZoneLocalMapping_earlyInterval_eq, gen_ZoneLocalMapping_lateInterval_eq]
  exact count_cases3 _ _ _ _ _

/-- with the model's reading of a built value (its instant `l − wall`), `first()` / `last()` of a mapping that `map_local`
    produced (count ≤ 2) are the model's `Mapping.first` / `Mapping.last` -/
theorem gen_first_is_model (l : Int) (m : Mapping) (h : m.count ≤ 2) :
    Gen.C05.ZoneLocalMapping.first (buildInstant l) m = m.first l := by
  rw [gen_ZoneLocalMapping_first_eq]
  unfold Mapping.first
  rcases hm : m.count with _ | _ | _ | k
  · rfl
  · rfl
  · rfl
  · omega

theorem gen_last_is_model (l : Int) (m : Mapping) (h : m.count ≤ 2) :
    Gen.C05.ZoneLocalMapping.last (buildInstant l) m = m.last l := by
  rw [gen_ZoneLocalMapping_last_eq]
  unfold Mapping.last
  rcases hm : m.count with _ | _ | _ | k
  · rfl
  · rfl
  · rfl
  · omega

/-- `single()` agrees with the model whenever the two candidates of an ambiguous time can be built (always, away from
    the ends of time: C05 `buildInstant_ok`) -/
theorem gen_single_is_model (l : Int) (m : Mapping) (h : m.count ≤ 2)
    (hb : m.count = 2 → ∃ a b, buildInstant l m.early = .ok a ∧ buildInstant l m.late = .ok b) :
    Gen.C05.ZoneLocalMapping.single (buildInstant l) m = m.single l := by
  rw [gen_ZoneLocalMapping_single_eq]
  unfold Mapping.single
  rcases hm : m.count with _ | _ | _ | k
  · rfl
  · rfl
  · obtain ⟨a, b, ha, hb'⟩ := hb hm
    simp only [ha, hb', bind, Except.bind]
  · omega

/-! ## kernel evaluation: a three-period zone -/

def demoPeriods : Array ZI := #[⟨BMIN, 0, "A", 0, 0⟩, ⟨0, 1000, "B", 3600, 3600⟩, ⟨1000, AMAX, "C", 0, 0⟩]

example : Gen.C05.Precalc.getZoneIntervalNoTail demoPeriods 500 = .ok ⟨0, 1000, "B", 3600, 3600⟩ := by decide
example : Gen.C05.Precalc.getZoneIntervalNoTail demoPeriods (-5) = .ok ⟨BMIN, 0, "A", 0, 0⟩ := by decide
example : (Gen.C05.Zone.mapLocal (fun t => Precalc.get ⟨demoPeriods, none⟩ t) ⟨3600 * NPS + 500⟩).map (·.count) = .ok 2 := by decide

end Pyoda.GenAgree.C05
