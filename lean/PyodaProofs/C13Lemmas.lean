/- Helper lemmas for C13 (no property statements here). -/
import PyodaModel.Cache

namespace Pyoda.C13
open Pyoda.Cache

/-! ### interleavings: invariants survive every schedule -/
section Interleave
open Interleave

theorem runSched_global {σ τ} (step : Nat → σ → τ → σ × τ) (P : Sys σ τ → Prop)
    (h : ∀ sys tid, P sys → P (stepAt step sys tid)) :
    ∀ (sched : List Nat) (sys : Sys σ τ), P sys → P (runSched step sys sched) := by
  intro sched
  induction sched with
  | nil => intro sys h0; exact h0
  | cons tid rest ih =>
    intro sys h0
    simp only [runSched, List.foldl_cons]
    exact ih _ (h sys tid h0)

/-- shared invariant `I`, per-thread invariant `J` that does not mention the shared state -/
theorem runSched_inv {σ τ} (step : Nat → σ → τ → σ × τ) (I : σ → Prop) (J : Nat → τ → Prop)
    (h : ∀ tid s t, I s → J tid t → I (step tid s t).1 ∧ J tid (step tid s t).2)
    (sched : List Nat) (sys : Sys σ τ) (h0 : I sys.shared) (h1 : ∀ i, J i (sys.threads i)) :
    I (runSched step sys sched).shared ∧ ∀ i, J i ((runSched step sys sched).threads i) := by
  refine runSched_global step (fun sys => I sys.shared ∧ ∀ i, J i (sys.threads i)) ?_ sched sys ⟨h0, h1⟩
  intro sys tid ⟨hI, hJ⟩
  have := h tid sys.shared (sys.threads tid) hI (hJ tid)
  refine ⟨this.1, ?_⟩
  intro i
  simp only [stepAt]
  by_cases hi : i = tid
  · subst hi; simp only [if_true]; exact this.2
  · simp only [hi, if_false]; exact hJ i

end Interleave

/-! ### year-start cache entries -/
section Year
open YearCache

theorem startDays_mkEntry (y d : Int) : startDays (mkEntry y d) = d := by
  unfold startDays mkEntry validator; omega

theorem mkEntry_emod (y d : Int) : mkEntry y d % 128 = validator y := by
  unfold mkEntry validator; omega

theorem isValidFor_mkEntry (y' d y : Int) : isValidFor (mkEntry y' d) y = true ↔ validator y = validator y' := by
  unfold isValidFor
  rw [mkEntry_emod]
  simp

theorem not_valid_invalid (y : Int) (hy : InRange y) : isValidFor invalidEntry y = false := by
  unfold invalidEntry
  cases h : isValidFor (mkEntry invalidYear 0) y with
  | false => rfl
  | true =>
    rw [isValidFor_mkEntry] at h
    unfold InRange at hy
    unfold validator invalidYear at h
    omega

theorem key_injective {y y' : Int} (hy : InRange y) (hy' : InRange y')
    (hi : indexOf y = indexOf y') (hv : validator y = validator y') : y = y' := by
  unfold InRange at hy hy'
  unfold indexOf at hi
  unfold validator at hv
  omega

/-- what a slot (or a thread's local copy of it) may hold when all writers computed `val` for in-range years -/
def GoodEntry (val : Int → Int) (i : Nat) (e : Int) : Prop :=
  e = invalidEntry ∨ ∃ y', InRange y' ∧ indexOf y' = i ∧ e = mkEntry y' (val y')

def Good (val : Int → Int) (s : State) : Prop := ∀ i, GoodEntry val i (s i)

theorem good_init (val : Int → Int) : Good val init := fun _ => Or.inl rfl

theorem good_update (val : Int → Int) (s : State) (y : Int) (hs : Good val s) (hy : InRange y) :
    Good val (update s (indexOf y) (mkEntry y (val y))) := by
  intro i
  unfold update
  by_cases hi : i = indexOf y
  · simp only [hi, if_true]; exact Or.inr ⟨y, hy, rfl, rfl⟩
  · simp only [hi, if_false]; exact hs i

/-- a good entry that passes the validator check for an in-range year holds that year's value -/
theorem good_valid (val : Int → Int) (e y : Int) (hy : InRange y) (he : GoodEntry val (indexOf y) e)
    (hv : isValidFor e y = true) : startDays e = val y := by
  rcases he with he | ⟨y', hy', hi, he⟩
  · rw [he, not_valid_invalid y hy] at hv; cases hv
  · subst he
    rw [isValidFor_mkEntry] at hv
    have : y = y' := key_injective hy hy' hi.symm hv
    subst this
    exact startDays_mkEntry _ _

theorem step_correct (val : Int → Int) (s : State) (y : Int) (hs : Good val s) (hy : InRange y) :
    Good val (YearCache.step val s y).1 ∧ (YearCache.step val s y).2.value = val y := by
  unfold YearCache.step
  by_cases hv : isValidFor (s (indexOf y)) y = true
  · simp only [hv, if_true]; exact ⟨hs, good_valid val _ y hy (hs _) hv⟩
  · simp only [hv]
    exact ⟨good_update val s y hs hy, startDays_mkEntry _ _⟩

theorem run_correct (val : Int → Int) : ∀ (ys : List Int) (s : State), Good val s → (∀ y ∈ ys, InRange y) →
    Good val (YearCache.run val s ys).1 ∧ (YearCache.run val s ys).2.map (·.value) = ys.map val := by
  intro ys
  induction ys with
  | nil => intro s hs _; exact ⟨hs, rfl⟩
  | cons y rest ih =>
    intro s hs hr
    have h1 := step_correct val s y hs (hr y (List.mem_cons_self ..))
    have h2 := ih (YearCache.step val s y).1 h1.1 (fun z hz => hr z (List.mem_cons_of_mem _ hz))
    simp only [YearCache.run, List.map_cons]
    exact ⟨h2.1, by rw [h1.2, h2.2]⟩

end Year

/-! ### the year cache under interleaving -/
section YearConc
open YearCache YearCacheConc

/-- the lookup a thread is in the middle of -/
def pending : Phase → List Int
  | .idle => []
  | .haveEntry y _ => [y]
  | .computed y _ => [y]
  | .written y _ => [y]

def PhaseOK (val : Int → Int) : Phase → Prop
  | .idle => True
  | .haveEntry y e => InRange y ∧ GoodEntry val (indexOf y) e
  | .computed y e => InRange y ∧ e = mkEntry y (val y)
  | .written y e => InRange y ∧ e = mkEntry y (val y)

/-- thread invariant: answers so far are right and are, in order, the answers to a prefix of the program -/
def ThreadInv (val : Int → Int) (prog : List Int) (t : Thread) : Prop :=
  (∀ y ∈ t.todo, InRange y) ∧ (∀ p ∈ t.out, p.2 = val p.1) ∧ PhaseOK val t.phase ∧
  (t.out.reverse.map (·.1)) ++ pending t.phase ++ t.todo = prog

theorem conc_step (val : Int → Int) (prog : List Int) (tid : Nat) (s : State) (t : Thread)
    (hs : Good val s) (ht : ThreadInv val prog t) :
    Good val (YearCacheConc.step val tid s t).1 ∧ ThreadInv val prog (YearCacheConc.step val tid s t).2 := by
  obtain ⟨todo, phase, out⟩ := t
  obtain ⟨h1, h2, h3, h4⟩ := ht
  simp only at h1 h2 h3 h4
  cases phase with
  | idle =>
    cases todo with
    | nil => exact ⟨hs, h1, h2, h3, h4⟩
    | cons y rest =>
      simp only [YearCacheConc.step]
      refine ⟨hs, ?_, h2, ⟨h1 y (List.mem_cons_self ..), hs _⟩, ?_⟩
      · intro z hz; exact h1 z (List.mem_cons_of_mem _ hz)
      · simpa [pending] using h4
  | haveEntry y e =>
    simp only [PhaseOK] at h3
    simp only [YearCacheConc.step]
    by_cases hv : isValidFor e y = true
    · simp only [hv, if_true]
      refine ⟨hs, h1, ?_, trivial, ?_⟩
      · intro p hp
        rcases List.mem_cons.mp hp with rfl | hp
        · exact good_valid val e y h3.1 h3.2 hv
        · exact h2 p hp
      · simpa [pending] using h4
    · simp only [hv]
      exact ⟨hs, h1, h2, ⟨h3.1, rfl⟩, by simpa [pending] using h4⟩
  | computed y e =>
    simp only [PhaseOK] at h3
    simp only [YearCacheConc.step]
    refine ⟨?_, h1, h2, h3, by simpa [pending] using h4⟩
    rw [h3.2]
    exact good_update val s y hs h3.1
  | written y e =>
    simp only [PhaseOK] at h3
    simp only [YearCacheConc.step]
    refine ⟨hs, h1, ?_, trivial, by simpa [pending] using h4⟩
    intro p hp
    rcases List.mem_cons.mp hp with rfl | hp
    · simp only; rw [h3.2]; exact startDays_mkEntry _ _
    · exact h2 p hp

end YearConc

/-! ### lazily filled maps -/
section LazySeq
open Lazy

theorem sget_keeps (known : Nat → Bool) (s : SState) (k j o : Nat) (h : s.map j = some o) :
    (sget known s k).1.map j = some o := by
  unfold sget
  split
  · split
    · exact h
    · rename_i hk
      simp only
      by_cases hj : j = k
      · subst hj; rw [hk] at h; cases h
      · simp only [hj, if_false]; exact h
  · exact h

theorem srun_keeps (known : Nat → Bool) : ∀ (ks : List Nat) (s : SState) (j o : Nat), s.map j = some o →
    (srun known s ks).1.map j = some o := by
  intro ks
  induction ks with
  | nil => intro s j o h; exact h
  | cons k rest ih =>
    intro s j o h
    simp only [srun]
    exact ih _ j o (sget_keeps known s k j o h)

theorem sget_binds (known : Nat → Bool) (s : SState) (k : Nat) (hk : known k = true) :
    ∃ o, (sget known s k).2 = some o ∧ (sget known s k).1.map k = some o := by
  unfold sget
  simp only [hk, if_true]
  split
  · rename_i o ho; exact ⟨o, rfl, ho⟩
  · exact ⟨s.next, rfl, by simp⟩

theorem sget_unknown (known : Nat → Bool) (s : SState) (k : Nat) (hk : known k = false) :
    (sget known s k).2 = none := by
  unfold sget; simp [hk]

/-- every answer in a history is what the final map holds for that key -/
theorem srun_answers (known : Nat → Bool) : ∀ (ks : List Nat) (s : SState),
    ∀ p ∈ ks.zip (srun known s ks).2,
      p.2 = if known p.1 then (srun known s ks).1.map p.1 else none := by
  intro ks
  induction ks with
  | nil => intro s p hp; simp [srun] at hp
  | cons k rest ih =>
    intro s p hp
    simp only [srun, List.zip_cons_cons, List.mem_cons] at hp ⊢
    rcases hp with rfl | hp
    · simp only
      cases hk : known k with
      | true =>
        obtain ⟨o, h1, h2⟩ := sget_binds known s k hk
        simp only [if_true]
        rw [h1, srun_keeps known rest _ k o h2]
      | false => simp only [Bool.false_eq_true, if_false]; exact sget_unknown known s k hk
    · exact ih _ p hp

end LazySeq

section LazyConc
open Lazy Interleave

def inCrit : PC → Bool
  | .locked => true
  | .checked _ => true
  | .created _ => true
  | .stored _ => true
  | _ => false

/-- the object a thread has in hand, if any -/
def holds : PC → Option Nat
  | .checked (some o) => some o
  | .created o => some o
  | .stored o => some o
  | .done o => some o
  | _ => none

structure LockedInv (sys : Lazy.Sys) : Prop where
  mutex : ∀ i, inCrit (sys.threads i) = true → sys.shared.lock = some i
  absent : ∀ i, sys.threads i = .checked none → sys.shared.slot = none ∧ sys.shared.next = 0
  obj : ∀ i o, holds (sys.threads i) = some o → o = 0
  slot : ∀ o, sys.shared.slot = some o → o = 0
  once : sys.shared.next ≤ 1
  made : sys.shared.next = 0 ∨ sys.shared.slot = some 0 ∨ ∃ h, sys.threads h = .created 0

theorem lockedInv_init : LockedInv sys0 := by
  constructor <;> simp [sys0, shared0, inCrit, holds]

theorem lockedInv_step (sys : Lazy.Sys) (tid : Nat) (h : LockedInv sys) :
    LockedInv (stepAt stepLocked sys tid) := by
  obtain ⟨⟨slot, next, lock⟩, threads⟩ := sys
  obtain ⟨hm, ha, ho, hs, h1, hf⟩ := h
  simp only at hm ha ho hs h1 hf
  -- facts about the scheduled thread
  have hm' := hm tid
  have ha' := ha tid
  have ho' := ho tid
  -- any other thread inside the critical region would hold the same lock
  have excl : ∀ j, j ≠ tid → inCrit (threads tid) = true → inCrit (threads j) = false := by
    intro j hj hc
    cases hcj : inCrit (threads j) with
    | false => rfl
    | true => have := hm j hcj; have := hm tid hc; simp_all
  cases hpc : threads tid with
  | start =>
    simp only [stepAt, stepLocked, hpc]
    by_cases hl : lock = none
    · simp only [hl, if_true]
      have nocrit : ∀ j, inCrit (threads j) = false := by
        intro j
        cases hcj : inCrit (threads j) with
        | false => rfl
        | true => have := hm j hcj; simp_all
      constructor
      · intro i hi; simp only at hi ⊢
        by_cases hit : i = tid
        · simp [hit]
        · simp only [hit, if_false] at hi; rw [nocrit i] at hi; cases hi
      · intro i hi; simp only at hi ⊢
        by_cases hit : i = tid
        · simp [hit] at hi
        · simp only [hit, if_false] at hi; exact ha i hi
      · intro i o hi; simp only at hi
        by_cases hit : i = tid
        · simp [hit, holds] at hi
        · simp only [hit, if_false] at hi; exact ho i o hi
      · exact hs
      · exact h1
      · simp only
        rcases hf with hf | hf | ⟨h, hf⟩
        · exact Or.inl hf
        · exact Or.inr (Or.inl hf)
        · have := nocrit h; rw [hf] at this; simp [inCrit] at this
    · simp only [hl, if_false]
      constructor
      · intro i hi; simp only at hi ⊢
        by_cases hit : i = tid
        · simp [hit, inCrit] at hi
        · simp only [hit, if_false] at hi; exact hm i hi
      · intro i hi; simp only at hi ⊢
        by_cases hit : i = tid
        · simp [hit] at hi
        · simp only [hit, if_false] at hi; exact ha i hi
      · intro i o hi; simp only at hi
        by_cases hit : i = tid
        · simp [hit, holds] at hi
        · simp only [hit, if_false] at hi; exact ho i o hi
      · exact hs
      · exact h1
      · simp only
        rcases hf with hf | hf | ⟨h, hf⟩
        · exact Or.inl hf
        · exact Or.inr (Or.inl hf)
        · refine Or.inr (Or.inr ⟨h, ?_⟩)
          have : h ≠ tid := by intro e; rw [e, hpc] at hf; cases hf
          simp [this, hf]
  | locked =>
    simp only [stepAt, stepLocked, hpc]
    have hc : inCrit (threads tid) = true := by rw [hpc]; rfl
    constructor
    · intro i hi; simp only at hi ⊢
      by_cases hit : i = tid
      · rw [hit]; exact hm tid hc
      · simp only [hit, if_false] at hi; exact hm i hi
    · intro i hi; simp only at hi ⊢
      by_cases hit : i = tid
      · simp only [hit, if_true] at hi
        have hsl : slot = none := by injection hi
        refine ⟨hsl, ?_⟩
        rcases hf with hf | hf | ⟨h, hf⟩
        · exact hf
        · rw [hsl] at hf; cases hf
        · by_cases hh : h = tid
          · rw [hh, hpc] at hf; cases hf
          · have := excl h hh hc; rw [hf] at this; simp [inCrit] at this
      · simp only [hit, if_false] at hi; exact ha i hi
    · intro i o hi; simp only at hi
      by_cases hit : i = tid
      · simp only [hit, if_true] at hi
        cases hsl : slot with
        | none => rw [hsl] at hi; simp [holds] at hi
        | some o' => rw [hsl] at hi; simp only [holds, Option.some.injEq] at hi; subst hi; exact hs o' hsl
      · simp only [hit, if_false] at hi; exact ho i o hi
    · exact hs
    · exact h1
    · simp only
      rcases hf with hf | hf | ⟨h, hf⟩
      · exact Or.inl hf
      · exact Or.inr (Or.inl hf)
      · refine Or.inr (Or.inr ⟨h, ?_⟩)
        have : h ≠ tid := by intro e; rw [e, hpc] at hf; cases hf
        simp [this, hf]
  | checked seen =>
    have hc : inCrit (threads tid) = true := by rw [hpc]; rfl
    cases seen with
    | some o =>
      simp only [stepAt, stepLocked, hpc]
      constructor
      · intro i hi; simp only at hi ⊢
        by_cases hit : i = tid
        · simp [hit, inCrit] at hi
        · simp only [hit, if_false] at hi; rw [excl i hit hc] at hi; cases hi
      · intro i hi; simp only at hi ⊢
        by_cases hit : i = tid
        · simp [hit] at hi
        · simp only [hit, if_false] at hi; exact ha i hi
      · intro i o' hi; simp only at hi
        by_cases hit : i = tid
        · simp only [hit, if_true, holds, Option.some.injEq] at hi
          subst hi; exact ho tid o (by rw [hpc]; rfl)
        · simp only [hit, if_false] at hi; exact ho i o' hi
      · exact hs
      · exact h1
      · simp only
        rcases hf with hf | hf | ⟨h, hf⟩
        · exact Or.inl hf
        · exact Or.inr (Or.inl hf)
        · refine Or.inr (Or.inr ⟨h, ?_⟩)
          have : h ≠ tid := by intro e; rw [e, hpc] at hf; cases hf
          simp [this, hf]
    | none =>
      obtain ⟨hsl, hnx⟩ := ha tid hpc
      subst hsl hnx
      simp only [stepAt, stepLocked, hpc]
      constructor
      · intro i hi; simp only at hi ⊢
        by_cases hit : i = tid
        · rw [hit]; exact hm tid hc
        · simp only [hit, if_false] at hi; exact hm i hi
      · intro i hi; simp only at hi ⊢
        by_cases hit : i = tid
        · simp [hit] at hi
        · simp only [hit, if_false] at hi
          have := excl i hit hc; rw [hi] at this; simp [inCrit] at this
      · intro i o' hi; simp only at hi
        by_cases hit : i = tid
        · simp only [hit, if_true, holds, Option.some.injEq] at hi; omega
        · simp only [hit, if_false] at hi; exact ho i o' hi
      · exact hs
      · simp
      · exact Or.inr (Or.inr ⟨tid, by simp⟩)
  | created o =>
    have hc : inCrit (threads tid) = true := by rw [hpc]; rfl
    have ho0 : o = 0 := ho tid o (by rw [hpc]; rfl)
    subst ho0
    simp only [stepAt, stepLocked, hpc]
    constructor
    · intro i hi; simp only at hi ⊢
      by_cases hit : i = tid
      · rw [hit]; exact hm tid hc
      · simp only [hit, if_false] at hi; exact hm i hi
    · intro i hi; simp only at hi ⊢
      by_cases hit : i = tid
      · simp [hit] at hi
      · simp only [hit, if_false] at hi
        have := excl i hit hc; rw [hi] at this; simp [inCrit] at this
    · intro i o' hi; simp only at hi
      by_cases hit : i = tid
      · simp only [hit, if_true, holds, Option.some.injEq] at hi; omega
      · simp only [hit, if_false] at hi; exact ho i o' hi
    · intro o' h'; simp only [Option.some.injEq] at h'; omega
    · exact h1
    · exact Or.inr (Or.inl rfl)
  | stored o =>
    have hc : inCrit (threads tid) = true := by rw [hpc]; rfl
    simp only [stepAt, stepLocked, hpc]
    constructor
    · intro i hi; simp only at hi ⊢
      by_cases hit : i = tid
      · simp [hit, inCrit] at hi
      · simp only [hit, if_false] at hi; rw [excl i hit hc] at hi; cases hi
    · intro i hi; simp only at hi ⊢
      by_cases hit : i = tid
      · simp [hit] at hi
      · simp only [hit, if_false] at hi; exact ha i hi
    · intro i o' hi; simp only at hi
      by_cases hit : i = tid
      · simp only [hit, if_true, holds, Option.some.injEq] at hi
        subst hi; exact ho tid o (by rw [hpc]; rfl)
      · simp only [hit, if_false] at hi; exact ho i o' hi
    · exact hs
    · exact h1
    · simp only
      rcases hf with hf | hf | ⟨h, hf⟩
      · exact Or.inl hf
      · exact Or.inr (Or.inl hf)
      · refine Or.inr (Or.inr ⟨h, ?_⟩)
        have : h ≠ tid := by intro e; rw [e, hpc] at hf; cases hf
        simp [this, hf]
  | done o =>
    simp only [stepAt, stepLocked, hpc]
    constructor
    · intro i hi; simp only at hi ⊢
      by_cases hit : i = tid
      · simp [hit, inCrit] at hi
      · simp only [hit, if_false] at hi; exact hm i hi
    · intro i hi; simp only at hi ⊢
      by_cases hit : i = tid
      · simp [hit] at hi
      · simp only [hit, if_false] at hi; exact ha i hi
    · intro i o' hi; simp only at hi
      by_cases hit : i = tid
      · simp only [hit, if_true] at hi; exact ho tid o' (by rw [hpc]; exact hi)
      · simp only [hit, if_false] at hi; exact ho i o' hi
    · exact hs
    · exact h1
    · simp only
      rcases hf with hf | hf | ⟨h, hf⟩
      · exact Or.inl hf
      · exact Or.inr (Or.inl hf)
      · refine Or.inr (Or.inr ⟨h, ?_⟩)
        have : h ≠ tid := by intro e; rw [e, hpc] at hf; cases hf
        simp [this, hf]

end LazyConc

/-! ### `_Cache` -/
section LruSec
open Lru

theorem find_none_not_mem : ∀ (d : List (Int × Int)) (k : Int), find d k = none → k ∉ d.map Prod.fst := by
  intro d
  induction d with
  | nil => intro k _; simp
  | cons p rest ih =>
    intro k h
    obtain ⟨k', v⟩ := p
    simp only [find] at h
    split at h
    · cases h
    · rename_i hne
      simp only [List.map_cons, List.mem_cons, not_or]
      exact ⟨fun e => hne e.symm, ih k h⟩

theorem find_some_mem : ∀ (d : List (Int × Int)) (k v : Int), find d k = some v → (k, v) ∈ d := by
  intro d
  induction d with
  | nil => intro k v h; simp [find] at h
  | cons p rest ih =>
    intro k v h
    obtain ⟨k', v'⟩ := p
    simp only [find] at h
    split at h
    · rename_i he; cases h; subst he; exact List.mem_cons_self ..
    · exact List.mem_cons_of_mem _ (ih k v h)

theorem find_append_new : ∀ (d : List (Int × Int)) (k v : Int), k ∉ d.map Prod.fst →
    find (d ++ [(k, v)]) k = some v := by
  intro d
  induction d with
  | nil => intro k v _; simp [find]
  | cons p rest ih =>
    intro k v h
    obtain ⟨k', v'⟩ := p
    simp only [List.map_cons, List.mem_cons, not_or] at h
    simp only [List.cons_append, find]
    have : ¬ k' = k := fun e => h.1 e.symm
    simp only [this, if_false]
    exact ih k v h.2

structure LruInv (f : Int → Int) (size : Nat) (s : State) : Prop where
  keysEq : s.dict.map Prod.fst = s.keys
  nodup : s.keys.Nodup
  vals : ∀ p ∈ s.dict, p.2 = f p.1
  le : s.dict.length ≤ size

theorem lruInv_init (f : Int → Int) (size : Nat) : LruInv f size init :=
  ⟨rfl, List.nodup_nil, (by intro p hp; cases hp), Nat.zero_le _⟩

theorem evict_fits (size : Nat) (d : List (Int × Int)) (keys : List Int) (h : d.length ≤ size) :
    evict size d keys = (⟨d, keys⟩, none) := by
  cases keys with
  | nil => simp only [evict]; simp [Nat.not_lt.mpr h]
  | cons k ks => simp only [evict]; simp [Nat.not_lt.mpr h]

theorem step_correct_lru (f : Int → Int) (size : Nat) (hsz : 1 ≤ size) (s : State) (k : Int)
    (hs : LruInv f size s) :
    LruInv f size (Lru.step f size s k).1 ∧ (Lru.step f size s k).2.res = .ok (f k) := by
  obtain ⟨dict, keys⟩ := s
  obtain ⟨hk, hn, hv, hl⟩ := hs
  simp only at hk hn hv hl
  unfold Lru.step
  cases hf : find dict k with
  | some v =>
    simp only
    refine ⟨⟨hk, hn, hv, hl⟩, ?_⟩
    have := hv _ (find_some_mem dict k v hf)
    simp only at this
    rw [this]
  | none =>
    simp only
    have hnot : k ∉ dict.map Prod.fst := find_none_not_mem dict k hf
    have hnotk : k ∉ keys := by rw [← hk]; exact hnot
    by_cases hfit : (dict ++ [(k, f k)]).length ≤ size
    · rw [evict_fits size _ _ hfit]
      simp only []
      rw [find_append_new dict k (f k) hnot]
      refine ⟨⟨by simp [hk], ?_, ?_, hfit⟩, rfl⟩
      · exact List.nodup_append.mpr ⟨hn, (by simp), by
          intro a ha b hb; simp only [List.mem_singleton] at hb; subst hb; intro e; subst e; exact hnotk ha⟩
      · intro p hp
        rcases List.mem_append.mp hp with hp | hp
        · exact hv p hp
        · simp only [List.mem_singleton] at hp; subst hp; rfl
    · -- the dict was full: exactly the oldest key goes
      have hlen : dict.length = size := by
        simp only [List.length_append, List.length_cons, List.length_nil] at hfit; omega
      cases dict with
      | nil => simp at hlen; omega
      | cons p d' =>
        obtain ⟨k0, v0⟩ := p
        cases keys with
        | nil => simp at hk
        | cons k0' ks =>
          simp only [List.map_cons, List.cons.injEq] at hk
          obtain ⟨hk0, hks⟩ := hk
          subst hk0
          have hgt : ((k0, v0) :: d' ++ [(k, f k)]).length > size := by
            simp only [List.length_append, List.length_cons, List.length_nil] at hlen ⊢; omega
          have hfit' : (d' ++ [(k, f k)]).length ≤ size := by
            simp only [List.length_append, List.length_cons, List.length_nil] at hlen ⊢; omega
          have hnot' : k ∉ d'.map Prod.fst := by
            intro h; exact hnot (by simp only [List.map_cons, List.mem_cons]; exact Or.inr h)
          simp only [List.cons_append, List.length_cons, evict] at hgt ⊢
          rw [if_pos hgt]
          simp only [del, ↓reduceIte]
          rw [evict_fits size _ _ hfit']
          simp only
          rw [find_append_new d' k (f k) hnot']
          have hn' := (List.nodup_cons.mp hn).2
          have hnotk' : k ∉ ks := fun h => hnotk (List.mem_cons_of_mem _ h)
          refine ⟨⟨by simp [hks], ?_, ?_, hfit'⟩, rfl⟩
          · exact List.nodup_append.mpr ⟨hn', (by simp), by
              intro a ha b hb; simp only [List.mem_singleton] at hb; subst hb; intro e; subst e; exact hnotk' ha⟩
          · intro p hp
            rcases List.mem_append.mp hp with hp | hp
            · exact hv p (List.mem_cons_of_mem _ hp)
            · simp only [List.mem_singleton] at hp; subst hp; rfl

theorem run_correct_lru (f : Int → Int) (size : Nat) (hsz : 1 ≤ size) : ∀ (ks : List Int) (s : State),
    LruInv f size s →
    LruInv f size (Lru.run f size s ks).1 ∧ (Lru.run f size s ks).2.map (·.res) = ks.map (fun k => .ok (f k)) := by
  intro ks
  induction ks with
  | nil => intro s hs; exact ⟨hs, rfl⟩
  | cons k rest ih =>
    intro s hs
    have h1 := step_correct_lru f size hsz s k hs
    have h2 := ih _ h1.1
    simp only [Lru.run, List.map_cons]
    exact ⟨h2.1, by rw [h1.2, h2.2]⟩

end LruSec

/-! ### zone-interval hash cache -/
section ZoneSec
open ZoneHashCache

/-- the base map is a partition of the instants `[lo, hi)`: every instant lies in its own interval, intervals do not
    reach past `hi` (the end-of-time sentinel), and an interval is the answer for every instant inside it -/
structure Partition (get : Int → Interval) (lo hi : Int) : Prop where
  covers : ∀ t, lo ≤ t → t < hi → (get t).start ≤ t ∧ t < (get t).stop ∧ (get t).stop ≤ hi
  same : ∀ t u, lo ≤ t → t < hi → lo ≤ u → (get t).start ≤ u → u < (get t).stop → get u = get t

/-- `e` is an interval of the base map -/
def IsIv (get : Int → Interval) (lo hi : Int) (e : Interval) : Prop := ∃ s, lo ≤ s ∧ s < hi ∧ e = get s

/-- chain invariant: every node holds a base interval, neighbours touch, the oldest starts at or before `b` -/
def ChainInv (get : Int → Interval) (lo hi b : Int) : Interval → List Interval → Prop
  | cur, [] => IsIv get lo hi cur ∧ cur.start ≤ b
  | cur, p :: rest => IsIv get lo hi cur ∧ cur.start ≤ p.stop ∧ ChainInv get lo hi b p rest

theorem isIv_hit {get : Int → Interval} {lo hi : Int} (hp : Partition get lo hi) {e : Interval} (he : IsIv get lo hi e)
    {t : Int} (hlo : lo ≤ t) (h1 : e.start ≤ t) (h2 : t < e.stop) : get t = e := by
  obtain ⟨s, hs, hs', rfl⟩ := he
  exact hp.same s t hs hs' hlo h1 h2

theorem walk_correct {get : Int → Interval} {lo hi b : Int} (hp : Partition get lo hi) (t : Int) (hlo : lo ≤ t) (hb : b ≤ t) :
    ∀ (prev : List Interval) (cur : Interval), ChainInv get lo hi b cur prev → t < cur.stop →
      walk t cur prev = get t := by
  intro prev
  induction prev with
  | nil =>
    intro cur hc ht
    simp only [ChainInv] at hc
    simp only [walk]
    exact (isIv_hit hp hc.1 hlo (by omega) ht).symm
  | cons p rest ih =>
    intro cur hc ht
    simp only [ChainInv] at hc
    simp only [walk]
    by_cases hgt : cur.start > t
    · simp only [hgt, if_true]
      exact ih p hc.2.2 (by omega)
    · simp only [hgt, if_false]
      exact (isIv_hit hp hc.1 hlo (by omega) ht).symm

theorem extend_spec {cfg : Cfg} {lo hi b : Int} (hp : Partition cfg.get lo hi) (next : Int) (hnext : next * NPD ≤ hi) :
    ∀ (fuel : Nat) (cur : Interval) (prev : List Interval) (c : Interval) (pr : List Interval),
      ChainInv cfg.get lo hi b cur prev → extend cfg next fuel cur prev = some (c, pr) →
      ChainInv cfg.get lo hi b c pr ∧ next * NPD ≤ c.stop := by
  intro fuel
  induction fuel with
  | zero => intro cur prev c pr _ h; simp [extend] at h
  | succ n ih =>
    intro cur prev c pr hc h
    simp only [extend] at h
    have hiv : IsIv cfg.get lo hi cur := by cases prev <;> exact hc.1
    by_cases hlt : cur.stop / NPD < next
    · simp only [hlt, if_true] at h
      obtain ⟨s, hs, hs', hcur⟩ := hiv
      have hcov := hp.covers s hs hs'
      rw [← hcur] at hcov
      have hlo' : lo ≤ cur.stop := by omega
      have hhi' : cur.stop < hi := by simp only [NPD] at hlt hnext; omega
      have hnew := hp.covers cur.stop hlo' hhi'
      exact ih (cfg.get cur.stop) (cur :: prev) c pr
        (show ChainInv cfg.get lo hi b _ (cur :: prev) from ⟨⟨cur.stop, hlo', hhi', rfl⟩, hnew.1, hc⟩) h
    · simp only [hlt, if_false, Option.some.injEq, Prod.mk.injEq] at h
      obtain ⟨rfl, rfl⟩ := h
      refine ⟨hc, ?_⟩
      simp only [NPD] at hlt ⊢
      omega

theorem extend_terminates {cfg : Cfg} {lo hi : Int} (hp : Partition cfg.get lo hi) (next : Int) (hnext : next * NPD ≤ hi) :
    ∀ (fuel : Nat) (cur : Interval) (prev : List Interval), IsIv cfg.get lo hi cur →
      (next * NPD - cur.stop).toNat < fuel → ∃ r, extend cfg next fuel cur prev = some r := by
  intro fuel
  induction fuel with
  | zero => intro cur prev _ h; omega
  | succ n ih =>
    intro cur prev hiv hm
    simp only [extend]
    by_cases hlt : cur.stop / NPD < next
    · simp only [hlt, if_true]
      obtain ⟨s, hs, hs', hcur⟩ := hiv
      have hcov := hp.covers s hs hs'
      rw [← hcur] at hcov
      have hlo' : lo ≤ cur.stop := by omega
      have hhi' : cur.stop < hi := by simp only [NPD] at hlt hnext; omega
      have hnew := hp.covers cur.stop hlo' hhi'
      apply ih _ _ ⟨cur.stop, hlo', hhi', rfl⟩
      simp only [NPD] at hlt hm ⊢
      omega
    · simp only [hlt, if_false]
      exact ⟨_, rfl⟩

def NodeOK (cfg : Cfg) (lo hi : Int) (n : Node) : Prop :=
  ChainInv cfg.get lo hi (periodStart cfg n.period) n.cur n.prev ∧ (n.period * 32 + 32) * NPD ≤ n.cur.stop

def ZInv (cfg : Cfg) (lo hi : Int) (s : State) : Prop := ∀ i n, s i = some n → NodeOK cfg lo hi n

/-- instants the caching map may be asked about: not before `Instant.min_value`, and their 32-day period ends
    before the end-of-time sentinel -/
def Askable (cfg : Cfg) (hi t : Int) : Prop := cfg.minDays * NPD ≤ t ∧ (periodOf t * 32 + 32) * NPD ≤ hi

theorem period_bounds (t : Int) : periodOf t * 32 * NPD ≤ t ∧ t < (periodOf t * 32 + 32) * NPD := by
  simp only [periodOf, NPD]; omega

theorem createNode_ok {cfg : Cfg} {hi : Int} (hp : Partition cfg.get (cfg.minDays * NPD) hi)
    (hfuel : 32 * 86400000000000 < cfg.fuel) (t : Int) (ht : Askable cfg hi t) :
    ∃ n, createNode cfg (periodOf t) = some n ∧ n.period = periodOf t ∧ NodeOK cfg (cfg.minDays * NPD) hi n := by
  have hb := period_bounds t
  obtain ⟨ht1, ht2⟩ := ht
  have hlo : cfg.minDays * NPD ≤ periodStart cfg (periodOf t) := by
    simp only [periodStart, NPD]; omega
  have hhi : periodStart cfg (periodOf t) < hi := by
    simp only [periodStart, NPD] at hb ht1 ht2 ⊢; omega
  have hcov := hp.covers _ hlo hhi
  have hiv : IsIv cfg.get (cfg.minDays * NPD) hi (cfg.get (periodStart cfg (periodOf t))) := ⟨_, hlo, hhi, rfl⟩
  obtain ⟨⟨c, pr⟩, hr⟩ := extend_terminates hp (periodOf t * 32 + 32) ht2 cfg.fuel
    (cfg.get (periodStart cfg (periodOf t))) [] hiv (by
      simp only [periodStart, NPD] at hcov ⊢
      omega)
  have hspec := extend_spec (b := periodStart cfg (periodOf t)) hp (periodOf t * 32 + 32) ht2 cfg.fuel _ [] c pr
    ⟨hiv, hcov.1⟩ hr
  refine ⟨⟨periodOf t, c, pr⟩, ?_, rfl, hspec.1, hspec.2⟩
  simp only [createNode, hr]

theorem node_lookup {cfg : Cfg} {hi : Int} (hp : Partition cfg.get (cfg.minDays * NPD) hi) (n : Node)
    (hn : NodeOK cfg (cfg.minDays * NPD) hi n) (t : Int) (hlo : cfg.minDays * NPD ≤ t) (hper : n.period = periodOf t) :
    walk t n.cur n.prev = cfg.get t := by
  have hb := period_bounds t
  rw [← hper] at hb
  refine walk_correct hp t hlo ?_ n.prev n.cur hn.1 (by have := hn.2; omega)
  simp only [periodStart, NPD] at hb hlo ⊢
  omega

theorem zstep_correct {cfg : Cfg} {hi : Int} (hp : Partition cfg.get (cfg.minDays * NPD) hi)
    (hfuel : 32 * 86400000000000 < cfg.fuel)
    (s : State) (t : Int) (hs : ZInv cfg (cfg.minDays * NPD) hi s) (ht : Askable cfg hi t) :
    ∃ s' o, ZoneHashCache.step cfg s t = some (s', o) ∧ ZInv cfg (cfg.minDays * NPD) hi s' ∧ o.iv = cfg.get t := by
  obtain ⟨n, hcn, hnp, hnok⟩ := createNode_ok hp hfuel t ht
  have hlo := ht.1
  have hupd : ZInv cfg (cfg.minDays * NPD) hi (update s (slotOf (periodOf t)) (some n)) := by
    intro i m hm
    unfold update at hm
    by_cases hi' : i = slotOf (periodOf t)
    · simp only [hi', if_true, Option.some.injEq] at hm; subst hm; exact hnok
    · simp only [hi', if_false] at hm; exact hs i m hm
  unfold ZoneHashCache.step
  simp only
  cases hsl : s (slotOf (periodOf t)) with
  | none =>
    simp only [hcn]
    exact ⟨_, _, rfl, hupd, node_lookup hp n hnok t hlo hnp⟩
  | some node =>
    simp only
    by_cases hper : node.period = periodOf t
    · simp only [hper, if_true]
      exact ⟨_, _, rfl, hs, node_lookup hp node (hs _ _ hsl) t hlo hper⟩
    · simp only [hper, if_false, hcn]
      exact ⟨_, _, rfl, hupd, node_lookup hp n hnok t hlo hnp⟩

theorem zrun_correct {cfg : Cfg} {hi : Int} (hp : Partition cfg.get (cfg.minDays * NPD) hi)
    (hfuel : 32 * 86400000000000 < cfg.fuel) :
    ∀ (ts : List Int) (s : State), ZInv cfg (cfg.minDays * NPD) hi s → (∀ t ∈ ts, Askable cfg hi t) →
      ∃ s' outs, ZoneHashCache.run cfg s ts = some (s', outs) ∧ ZInv cfg (cfg.minDays * NPD) hi s' ∧
        outs.map (·.iv) = ts.map cfg.get := by
  intro ts
  induction ts with
  | nil => intro s hs _; exact ⟨s, [], rfl, hs, rfl⟩
  | cons t rest ih =>
    intro s hs hr
    obtain ⟨s1, o, h1, hs1, ho⟩ := zstep_correct hp hfuel s t hs (hr t (List.mem_cons_self ..))
    obtain ⟨s2, os, h2, hs2, hos⟩ := ih s1 hs1 (fun u hu => hr u (List.mem_cons_of_mem _ hu))
    refine ⟨s2, o :: os, ?_, hs2, ?_⟩
    · simp only [ZoneHashCache.run, h1, h2]
    · simp only [List.map_cons, ho, hos]

end ZoneSec

/-! ### Hebrew global cache -/
section HebrewSec
open YearCache YearCache.Hebrew

theorem packEntry_div4 (d n : Int) : packEntry d n / 4 = d := by
  unfold packEntry
  simp only
  split <;> split <;> omega

theorem hebrew_inRange {y : Int} (h1 : minYear ≤ y) (h2 : y ≤ maxYear) : InRange y := by
  unfold minYear at h1; unfold maxYear at h2; unfold InRange; omega

/-- reading the next year's slot gives the same packed value as computing both year starts -/
theorem computeEntry_eq (elapsed : Int → Int) (s : State) (y : Int)
    (hs : Good (entryOf elapsed) s) (hy : InRange (y + 1)) :
    computeEntry elapsed s y = entryOf elapsed y := by
  unfold computeEntry entryOf
  simp only
  by_cases hlt : y + 1 < maxYear
  · simp only [hlt, if_true]
    by_cases hv : isValidFor (s (indexOf (y + 1))) (y + 1) = true
    · simp only [hv, if_true]
      have := good_valid (entryOf elapsed) _ (y + 1) hy (hs _) hv
      rw [this]
      unfold entryOf
      rw [packEntry_div4]
    · simp only [hv, Bool.false_eq_true, if_false]
  · simp only [hlt, if_false]

theorem hstep_correct (elapsed : Int → Int) (s : State) (y : Int) (hs : Good (entryOf elapsed) s)
    (hy : InRange y) (hy1 : InRange (y + 1)) :
    Good (entryOf elapsed) (Hebrew.step elapsed s y).1 ∧ (Hebrew.step elapsed s y).2.value = entryOf elapsed y := by
  unfold Hebrew.step
  by_cases hout : y < minYear ∨ y > maxYear
  · simp only [hout, if_true]
    exact ⟨hs, computeEntry_eq elapsed s y hs hy1⟩
  · simp only [hout, if_false]
    by_cases hv : isValidFor (s (indexOf y)) y = true
    · simp only [hv, if_true]
      exact ⟨hs, good_valid (entryOf elapsed) _ y hy (hs _) hv⟩
    · simp only [hv]
      rw [computeEntry_eq elapsed s y hs hy1]
      exact ⟨good_update (entryOf elapsed) s y hs hy, startDays_mkEntry _ _⟩

theorem hrun_correct (elapsed : Int → Int) : ∀ (ys : List Int) (s : State), Good (entryOf elapsed) s →
    (∀ y ∈ ys, InRange y ∧ InRange (y + 1)) →
    Good (entryOf elapsed) (Hebrew.run elapsed s ys).1 ∧
      (Hebrew.run elapsed s ys).2.map (·.value) = ys.map (entryOf elapsed) := by
  intro ys
  induction ys with
  | nil => intro s hs _; exact ⟨hs, rfl⟩
  | cons y rest ih =>
    intro s hs hr
    have hy := hr y (List.mem_cons_self ..)
    have h1 := hstep_correct elapsed s y hs hy.1 hy.2
    have h2 := ih _ h1.1 (fun z hz => hr z (List.mem_cons_of_mem _ hz))
    simp only [Hebrew.run, List.map_cons]
    exact ⟨h2.1, by rw [h1.2, h2.2]⟩

end HebrewSec

end Pyoda.C13
