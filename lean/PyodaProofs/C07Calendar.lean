/-
  C07 — all 19 calendars: `LocalDatePattern.full_roundtrip` (`uuuu'-'MM'-'dd '('c')'`) round-trips EVERY date of EVERY
  calendar through the generic theorem `pattern_roundtrip` — the calendar field writes the id of the value's calendar and
  reads it back into the bucket's calendar slot (`calendar_roundtrip`), and `calculate_value` then works in that calendar
  (`dateValueC`, through the calendar descriptions `Calendar.Calc`).
-/
import PyodaProofs.C07Stepped
import PyodaProofs.C08Calendar

namespace Pyoda.C07
open Pyoda Pyoda.Text
open Pyoda.Calendar (Calc calcOf)
open Pyoda.C08 (InCal)

def fullDateSteps : List Step :=
  [.num .year .year 4 4 (-9999) 9999, .lit ['-'], .num .monthNum .monthNum 2 2 1 99, .lit ['-'],
   .num .dayOfMonth .dayOfMonth 2 2 1 99, .lit [' '], .lit ['('], .calendar, .lit [')']]

theorem fullDate_compiles :
    compiledSteps (compileCustom .date invariantCulture "uuuu'-'MM'-'dd '('c')'".toList) = some (38016, fullDateSteps) := by
  decide +kernel

theorem fullDate_delimited : Delimited invariantCulture 38016 true fullDateSteps = true := by decide

/-- the pattern has the calendar field, so its pattern object is evaluated by the all-calendar bucket -/
theorem fullDate_evalType : evalType .date fullDateSteps = .dateC TmplC.default := by decide

/-- every calendar's years have at most four digits -/
theorem calendar_years_four_digits : ∀ k : Fin 19, ∀ c, calcOf k.val = some c → -9999 ≤ c.minYear ∧ c.maxYear ≤ 9999 := by
  intro k
  match k with
  | ⟨0, _⟩ | ⟨1, _⟩ | ⟨2, _⟩ | ⟨3, _⟩ | ⟨4, _⟩ | ⟨5, _⟩ | ⟨6, _⟩ | ⟨7, _⟩ | ⟨8, _⟩ | ⟨9, _⟩ | ⟨10, _⟩ | ⟨11, _⟩
  | ⟨12, _⟩ | ⟨13, _⟩ | ⟨14, _⟩ | ⟨15, _⟩ | ⟨16, _⟩ | ⟨17, _⟩ | ⟨18, _⟩ =>
    intro c hc; simp only [calcOf] at hc; injection hc with hc; subst hc; constructor <;> decide
  | ⟨n + 19, h⟩ => exact absurd h (by omega)

/-- **full_roundtrip in every calendar**: for every calendar ordinal `cal` (0 … 18), every date `(y, m, d)` the calendar
    has (months up to 99 and days up to 99: true of every calendar, e.g. by `WF.pack_month` / `pack_day`), the text
    `uuuu-MM-dd (c)` writes for it parses back to that date in that calendar -/
theorem fullDate_generic_roundtrip (cal : Int) (hcal : 0 ≤ cal ∧ cal ≤ 18) (c : Calc) (hc : calcOfInt cal = some c)
    (y m d : Int) (hin : InCal c y m d) (hm : m ≤ 99) (hd : d ≤ 99) :
    parsePat .date (outSteps invariantCulture 38016 (dateGetterC cal c y m d) fullDateSteps)
      (.stepped ⟨invariantCulture, 38016, fullDateSteps⟩) = .ok (some (showDateC (y, m, d, cal))) := by
  obtain ⟨hy1, hy2, hm1, hm2, hd1, hd2⟩ := hin
  have hyb : -9999 ≤ c.minYear ∧ c.maxYear ≤ 9999 := by
    unfold calcOfInt at hc
    rw [if_neg (by omega)] at hc
    exact calendar_years_four_digits ⟨cal.toNat, by omega⟩ c hc
  have hval : ∀ s ∈ fullDateSteps, ValOK (dateGetterC cal c y m d) s := by
    intro s hs
    simp only [fullDateSteps, List.mem_cons, List.mem_nil_iff, or_false] at hs
    rcases hs with rfl | rfl | rfl | rfl | rfl | rfl | rfl | rfl | rfl
    · exact ⟨by simp only [dateGetterC]; omega, by simp only [dateGetterC]; omega, by decide, by decide, by decide,
        by simp only [dateGetterC]; omega⟩
    · trivial
    · exact ⟨by simp only [dateGetterC]; omega, by simp only [dateGetterC]; omega, by decide, by decide, by decide,
        by simp only [dateGetterC]; omega⟩
    · trivial
    · exact ⟨by simp only [dateGetterC]; omega, by simp only [dateGetterC]; omega, by decide, by decide, by decide,
        by simp only [dateGetterC]; omega⟩
    · trivial
    · trivial
    · exact hcal
    · trivial
  have hr : Representable (.dateC TmplC.default) ⟨invariantCulture, 38016, fullDateSteps⟩ (dateGetterC cal c y m d)
      (showDateC (y, m, d, cal)) := by
    unfold Representable bucketValue
    dsimp only
    generalize hb : setSteps invariantCulture (dateGetterC cal c y m d) (bucket0 (.dateC TmplC.default)) fullDateSteps = b'
    have bY : b' .year = y := by rw [← hb]; simp [fullDateSteps, setSteps, setStep, Bucket.set, dateGetterC]
    have bM : b' .monthNum = m := by rw [← hb]; simp [fullDateSteps, setSteps, setStep, Bucket.set, dateGetterC]
    have bD : b' .dayOfMonth = d := by rw [← hb]; simp [fullDateSteps, setSteps, setStep, Bucket.set, dateGetterC]
    have bC : b' .calendar = cal := by rw [← hb]; simp [fullDateSteps, setSteps, setStep, Bucket.set, dateGetterC]
    have u0 : ¬ ((38016 : Nat) = (F.year ||| F.monthNum ||| F.dayOfMonth)) := by decide
    have u1 : hasAny 38016 F.year = true := by decide
    have u2 : hasAny 38016 F.era = false := by decide
    have u3 : hasAny 38016 F.yearOfEra = false := by decide
    have u5 : (38016 : Nat) &&& (F.monthNum ||| F.monthText) = F.monthNum := by decide
    have u6 : hasAny 38016 F.dayOfMonth = true := by decide
    have u7 : hasAny 38016 F.dayOfWeek = false := by decide
    have hyr : ¬ (y > c.maxYear ∨ y < c.minYear) := by omega
    have hmr : ¬ (m > c.months y) := by omega
    have hdr : ¬ (d > c.dim y m) := by omega
    unfold dateValueG
    rw [bC, hc]
    simp only [dateValueC, u0, false_and, if_false, determineYearC, u1, u2, u3, if_true, bY, hyr, Bool.false_eq_true,
      determineMonthC, u5, bM, hmr, u6, bD, hdr, u7, mapR, Option.map]
  have hne : outSteps invariantCulture 38016 (dateGetterC cal c y m d) fullDateSteps ≠ [] := by
    simp only [fullDateSteps, outSteps, outStep]
    obtain ⟨_, _, hne⟩ := numOut_last 4 (dateGetterC cal c y m d .year)
    intro h
    exact hne (List.append_eq_nil_iff.mp h).1
  have := (pattern_roundtrip (.dateC TmplC.default) ⟨invariantCulture, 38016, fullDateSteps⟩ (dateGetterC cal c y m d)
    (showDateC (y, m, d, cal)) fullDate_delimited hval hr hne).2
  simp only [parsePat, fullDate_evalType]
  exact this

/-- concrete values: a Badi date of the intercalary days (month 18, day 23), a Hebrew date of month 13, a date of the last
    Um Al Qura year — written and read back by the compiled model -/
example : (calcOfInt 18).map (fun c => parsePat .date (outSteps invariantCulture 38016 (dateGetterC 18 c 170 18 23) fullDateSteps)
    (.stepped ⟨invariantCulture, 38016, fullDateSteps⟩)) = some (.ok (some [170, 18, 23, 18])) := by decide +kernel
example : (calcOfInt 4).map (fun c => parsePat .date (outSteps invariantCulture 38016 (dateGetterC 4 c 5784 13 29) fullDateSteps)
    (.stepped ⟨invariantCulture, 38016, fullDateSteps⟩)) = some (.ok (some [5784, 13, 29, 4])) := by decide +kernel
example : (calcOfInt 18).map (fun c => outSteps invariantCulture 38016 (dateGetterC 18 c 170 19 1) fullDateSteps) =
    some "0170-19-01 (Badi)".toList := by decide +kernel

end Pyoda.C07
