/- Helper definitions and lemmas for C05 (local → instant mapping). No property statements here. -/
import PyodaModel.Zone
import PyodaProofs.Basic

namespace Pyoda.C05
open Pyoda Pyoda.Zone

def H18 : Int := 64800 * NPS

/-- What C04 establishes for a zone, stated for a total interval function `g`. -/
structure Spec (g : Int → ZI) : Prop where
  part : ∀ t, MINI ≤ t → t ≤ MAXI → (g t).s ≤ t ∧ t < (g t).e
  const : ∀ t u, MINI ≤ t → t ≤ MAXI → MINI ≤ u → u ≤ MAXI → (g t).s ≤ u → u < (g t).e → g u = g t
  bounded : ∀ t, -64800 ≤ (g t).wall ∧ (g t).wall ≤ 64800
  ends : ∀ t, ((g t).s = BMIN ∨ (MINI ≤ (g t).s ∧ (g t).s ≤ MAXI)) ∧ ((g t).e = AMAX ∨ (MINI ≤ (g t).e ∧ (g t).e ≤ MAXI))
  minlen : ∀ t, MINI ≤ (g t).s → (g t).e ≤ MAXI → (g t).e - (g t).s ≥ 2 * H18

/-- local instants at least two days inside the ends of time -/
def Interior (l : Int) : Prop := MINI + 2 * NPD ≤ l ∧ l ≤ MAXI - 2 * NPD

macro "zconsts" : tactic =>
  `(tactic| simp only [MINI, MAXI, BMIN, AMAX, MIN_DAYS, MAX_DAYS, NPD, NPS, H18, dayOf] at *)

/-- shape of an interval as the zone data provide it -/
def Shaped (z : ZI) : Prop :=
  (z.s = BMIN ∨ (MINI ≤ z.s ∧ z.s ≤ MAXI)) ∧ (z.e = AMAX ∨ (MINI ≤ z.e ∧ z.e ≤ MAXI)) ∧ -64800 ≤ z.wall ∧ z.wall ≤ 64800

theorem safePlus_le_iff (s w l : Int) (hs : s = BMIN ∨ (MINI ≤ s ∧ s ≤ MAXI)) (hw : -64800 ≤ w ∧ w ≤ 64800)
    (hl : Interior l) : safePlus s (w * NPS) ≤ l ↔ s ≤ l - w * NPS := by
  simp only [safePlus, Interior] at *
  zconsts
  rcases hs with rfl | hs
  · simp; omega
  · (repeat' split) <;> omega

theorem lt_safePlus_iff (e w l : Int) (he : e = AMAX ∨ (MINI ≤ e ∧ e ≤ MAXI)) (hw : -64800 ≤ w ∧ w ≤ 64800)
    (hl : Interior l) : l < safePlus e (w * NPS) ↔ l - w * NPS < e := by
  simp only [safePlus, Interior] at *
  zconsts
  rcases he with rfl | he
  · simp; omega
  · (repeat' split) <;> omega

theorem containsLocal_iff_aux (z : ZI) (l : Int) (hz : Shaped z) (hl : Interior l) :
    z.containsLocal l = true ↔ z.s ≤ l - z.wall * NPS ∧ l - z.wall * NPS < z.e := by
  obtain ⟨hs, he, h4, h5⟩ := hz
  simp only [ZI.containsLocal, ZI.localStart, ZI.localEnd, Bool.and_eq_true, decide_eq_true_eq,
    safePlus_le_iff z.s z.wall l hs ⟨h4, h5⟩ hl, lt_safePlus_iff z.e z.wall l he ⟨h4, h5⟩ hl]

theorem untrusted_ok (t : Int) (h1 : MINI ≤ t) (h2 : t ≤ MAXI) : untrusted t = .ok t := by
  have hc : ¬(dayOf t < MIN_DAYS ∨ dayOf t > MAX_DAYS) := by zconsts; omega
  unfold untrusted
  rw [if_neg hc]

theorem Spec.shaped {g : Int → ZI} (h : Spec g) (t : Int) : Shaped (g t) :=
  ⟨(h.ends t).1, (h.ends t).2, (h.bounded t).1, (h.bounded t).2⟩

end Pyoda.C05

namespace Pyoda.C05
open Pyoda Pyoda.Zone

/-- the model's zone function for a total `g` -/
def getT (g : Int → ZI) : Int → R ZI := fun t => .ok (g t)

/-- `get` (a model zone function, possibly failing outside the instant range) agrees with the total `g`
    on every valid instant -/
def Agrees (get : Int → R ZI) (g : Int → ZI) : Prop := ∀ t, MINI ≤ t → t ≤ MAXI → get t = .ok (g t)

theorem getT_agrees (g : Int → ZI) : Agrees (getT g) g := fun _ _ _ => rfl

section
variable {g : Int → ZI} (h : Spec g)
include h

theorem iv_valid_l {l : Int} (hl : Interior l) : MINI ≤ l ∧ l ≤ MAXI := by
  simp only [Interior] at hl; zconsts; omega

/-- the interval just before `g l` ends where `g l` starts -/
theorem prev_facts {l : Int} (hl : Interior l) (hs : MINI < (g l).s) :
    (g ((g l).s - 1)).e = (g l).s ∧ (g ((g l).s - 1)).s ≤ (g l).s - 1 := by
  have hv := iv_valid_l h hl
  have hI := h.part l hv.1 hv.2
  have hsv : (g l).s ≤ MAXI := by omega
  have hP := h.part ((g l).s - 1) (by omega) (by omega)
  refine ⟨?_, hP.1⟩
  by_cases hgt : (g ((g l).s - 1)).e ≤ (g l).s
  · omega
  · exfalso
    have h1 : g (g l).s = g ((g l).s - 1) :=
      h.const ((g l).s - 1) (g l).s (by omega) (by omega) (by omega) hsv (by omega) (by omega)
    have h2 : g (g l).s = g l := h.const l (g l).s hv.1 hv.2 (by omega) hsv (by omega) (by omega)
    rw [h2] at h1
    rw [← h1] at hP
    omega

/-- the interval just after `g l` starts where `g l` ends -/
theorem next_facts {l : Int} (hl : Interior l) (he : (g l).e ≤ MAXI) :
    (g (g l).e).s = (g l).e ∧ (g l).e < (g (g l).e).e := by
  have hv := iv_valid_l h hl
  have hI := h.part l hv.1 hv.2
  have hN := h.part (g l).e (by omega) he
  refine ⟨?_, hN.2⟩
  by_cases hgt : (g l).e ≤ (g (g l).e).s
  · omega
  · exfalso
    have h1 : g ((g l).e - 1) = g (g l).e :=
      h.const (g l).e ((g l).e - 1) (by omega) he (by omega) (by omega) (by omega) (by omega)
    have h2 : g ((g l).e - 1) = g l :=
      h.const l ((g l).e - 1) hv.1 hv.2 (by omega) (by omega) (by omega) (by omega)
    rw [h2] at h1
    rw [← h1] at hN
    omega

end

section
variable {g : Int → ZI} (h : Spec g) {get : Int → R ZI} (hget : Agrees get g)
include h hget

/-- `__get_earlier_matching_interval` on the model, characterised -/
theorem earlier_eq {l : Int} (hl : Interior l) :
    earlierMatching get (g l) l =
      .ok (if MINI < (g l).s ∧ (g ((g l).s - 1)).containsLocal l = true then some (g ((g l).s - 1)) else none) := by
  have hv := iv_valid_l h hl
  have hI := h.part l hv.1 hv.2
  have hE := h.ends l
  unfold earlierMatching
  by_cases hpre : dayOf l ≤ dayOf (g l).s + 1
  · have hs : MINI < (g l).s := by
      rcases hE.1 with hb | hb
      · rw [hb] at hpre; simp only [Interior] at hl; zconsts; omega
      · simp only [Interior] at hl; zconsts; omega
    have hu : untrusted ((g l).s - 1) = .ok ((g l).s - 1) :=
      untrusted_ok _ (by omega) (by omega)
    simp only [hpre, if_true, hu, hget _ (show MINI ≤ (g l).s - 1 by omega) (show (g l).s - 1 ≤ MAXI by omega), bind, Except.bind, hs, true_and]
    split <;> rfl
  · simp only [hpre, if_false]
    by_cases hs : MINI < (g l).s
    · have hP := prev_facts h hl hs
      have hc : (g ((g l).s - 1)).containsLocal l = false := by
        rcases hb : (g ((g l).s - 1)).containsLocal l with _ | _
        · rfl
        · exfalso
          rw [containsLocal_iff_aux _ l (h.shaped _) hl] at hb
          have hw := h.bounded ((g l).s - 1)
          rw [hP.1] at hb
          simp only [Interior] at hl; zconsts; omega
      simp [hc]
    · simp [hs]

/-- `__get_later_matching_interval` on the model, characterised -/
theorem later_eq {l : Int} (hl : Interior l) :
    laterMatching get (g l) l =
      .ok (if (g l).e ≤ MAXI ∧ (g (g l).e).containsLocal l = true then some (g (g l).e) else none) := by
  have hv := iv_valid_l h hl
  have hI := h.part l hv.1 hv.2
  have hE := h.ends l
  unfold laterMatching
  by_cases hpre : dayOf l ≥ dayOf (g l).e - 1
  · have he : (g l).e ≤ MAXI := by
      rcases hE.2 with hb | hb
      · rw [hb] at hpre; simp only [Interior] at hl; zconsts; omega
      · omega
    simp only [hpre, if_true, hget _ (show MINI ≤ (g l).e by omega) he, bind, Except.bind, he, true_and]
    split <;> rfl
  · simp only [hpre, if_false]
    by_cases he : (g l).e ≤ MAXI
    · have hN := next_facts h hl he
      have hc : (g (g l).e).containsLocal l = false := by
        rcases hb : (g (g l).e).containsLocal l with _ | _
        · rfl
        · exfalso
          rw [containsLocal_iff_aux _ l (h.shaped _) hl] at hb
          have hw := h.bounded (g l).e
          rw [hN.1] at hb
          simp only [Interior] at hl; zconsts; omega
      simp [hc]
    · simp [he]

omit h hget in
theorem isValid_of (t : Int) (h1 : MINI ≤ t) (h2 : t ≤ MAXI) : isValid t = true := by
  simp only [isValid, Bool.and_eq_true, decide_eq_true_eq]; zconsts; omega

/-- The complete case analysis of `map_local` on an interior local instant. -/
theorem mapLocal_eq {l : Int} (hl : Interior l) :
    mapLocal get l = .ok (
      if (g l).containsLocal l = true then
        (if MINI < (g l).s ∧ (g ((g l).s - 1)).containsLocal l = true then ⟨2, g ((g l).s - 1), g l⟩
         else if (g l).e ≤ MAXI ∧ (g (g l).e).containsLocal l = true then ⟨2, g l, g (g l).e⟩
         else ⟨1, g l, g l⟩)
      else
        (if MINI < (g l).s ∧ (g ((g l).s - 1)).containsLocal l = true then ⟨1, g ((g l).s - 1), g ((g l).s - 1)⟩
         else if (g l).e ≤ MAXI ∧ (g (g l).e).containsLocal l = true then ⟨1, g (g l).e, g (g l).e⟩
         else if l - (g l).wall * NPS < (g l).s then ⟨0, g ((g l).s - 1), g l⟩
         else ⟨0, g l, g (g l).e⟩)) := by
  have hv := iv_valid_l h hl
  have hI := h.part l hv.1 hv.2
  have hw := h.bounded l
  have hg : get l = .ok (g l) := hget l hv.1 hv.2
  unfold mapLocal
  simp only [hg, bind, Except.bind, earlier_eq h hget hl, later_eq h hget hl]
  by_cases c1 : (g l).containsLocal l = true
  · simp only [c1, if_true]
    by_cases c2 : MINI < (g l).s ∧ (g ((g l).s - 1)).containsLocal l = true
    · simp only [c2, and_self, if_true]
    · simp only [c2, if_false]
      by_cases c3 : (g l).e ≤ MAXI ∧ (g (g l).e).containsLocal l = true
      · simp only [c3, and_self, if_true]
      · simp only [c3, if_false]
  · simp only [c1, if_false, Bool.false_eq_true]
    by_cases c2 : MINI < (g l).s ∧ (g ((g l).s - 1)).containsLocal l = true
    · simp only [c2, and_self, if_true]
    · simp only [c2, if_false]
      by_cases c3 : (g l).e ≤ MAXI ∧ (g (g l).e).containsLocal l = true
      · simp only [c3, and_self, if_true]
      · simp only [c3, if_false]
        have hu : untrusted (l - (g l).wall * NPS) = .ok (l - (g l).wall * NPS) :=
          untrusted_ok _ (by simp only [Interior] at hl; zconsts; omega) (by simp only [Interior] at hl; zconsts; omega)
        have hc1 : ¬((g l).s ≤ l - (g l).wall * NPS ∧ l - (g l).wall * NPS < (g l).e) := by
          rw [← containsLocal_iff_aux _ l (h.shaped _) hl]; exact c1
        simp only [intervalBeforeGap, intervalAfterGap, hg, bind, Except.bind, hu]
        by_cases c4 : l - (g l).wall * NPS < (g l).s
        · have hs1 : MINI ≤ (g l).s := by simp only [Interior] at hl; zconsts; omega
          have hv1 : MINI ≤ (g l).s - 1 := by simp only [Interior] at hl; zconsts; omega
          simp only [c4, if_true, ZI.hasStart, isValid_of _ hs1 (by omega), Bool.not_true, Bool.false_eq_true, if_false,
            untrusted_ok ((g l).s - 1) hv1 (by omega), hget _ hv1 (by omega)]
        · have he1 : (g l).e ≤ MAXI := by simp only [Interior] at hl; zconsts; omega
          have he0 : MINI ≤ (g l).e := by omega
          simp only [c4, if_false, ZI.hasEnd, isValid_of _ he0 he1, Bool.not_true, Bool.false_eq_true, hget _ he0 he1]

end
end Pyoda.C05
