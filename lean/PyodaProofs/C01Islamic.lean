/-
  The eight tabular Islamic calendars: closed form of the year start as the code computes it (whole 30-year
  cycles plus a loop over the years of the last cycle), and `WF` for an arbitrary leap-year bit pattern with 11 leap
  years per cycle and an arbitrary epoch.
-/
import PyodaModel.Calendar
import PyodaProofs.Basic
import PyodaProofs.C01Lemmas
import PyodaProofs.C01Instances

namespace Pyoda.C01
open Pyoda Pyoda.Calendar

/-- length of the year at position `i` (0-based) of a 30-year cycle that starts at a year ≡ 1 (mod 30) -/
def islL (bits : Nat) (i : Int) : Int := if bits.testBit ((1 + i) % 30).toNat then 355 else 354

/-- days in the first `n` years of a cycle -/
def islT (bits : Nat) (n : Nat) : Int := sumFrom (islL bits) n 0

theorem sumFrom_congr (f g : Int → Int) : ∀ (n : Nat) (a b : Int),
    (∀ i : Nat, i < n → f (a + i) = g (b + i)) → sumFrom f n a = sumFrom g n b := by
  intro n
  induction n with
  | zero => intros; rfl
  | succ n ih =>
    intro a b h
    unfold sumFrom
    have h0 := h 0 (by omega)
    simp only [Int.natCast_zero, Int.add_zero] at h0
    rw [h0, ih (a + 1) (b + 1)]
    intro i hi
    have := h (i + 1) (by omega)
    have e1 : a + ((i + 1 : Nat) : Int) = a + 1 + i := by omega
    have e2 : b + ((i + 1 : Nat) : Int) = b + 1 + i := by omega
    rw [e1, e2] at this; exact this

theorem sumFrom_succ_end (f : Int → Int) : ∀ (n : Nat) (a : Int),
    sumFrom f (n + 1) a = sumFrom f n a + f (a + n) := by
  intro n
  induction n with
  | zero => intro a; simp [sumFrom]
  | succ n ih =>
    intro a
    rw [sumFrom, ih (a + 1)]
    conv => rhs; rw [sumFrom]
    have e : a + 1 + (n : Int) = a + ((n + 1 : Nat) : Int) := by omega
    rw [e]; omega

theorem islL_range (bits : Nat) (i : Int) : 354 ≤ islL bits i ∧ islL bits i ≤ 355 := by
  unfold islL; split <;> omega

theorem islT_bounds (bits : Nat) : ∀ n : Nat, 354 * (n : Int) ≤ islT bits n ∧ islT bits n ≤ 355 * (n : Int) := by
  intro n
  induction n with
  | zero => simp [islT, sumFrom]
  | succ n ih =>
    unfold islT at *
    rw [sumFrom_succ_end]
    have := islL_range bits (0 + n)
    omega

theorem isl_len_eq (bits : Nat) (c i : Int) (hc : 0 ≤ c) (hi : 0 ≤ i) :
    Isl.len bits (c * 30 + 1 + i) = islL bits i := by
  have h1 : (if c * 30 + 1 + i ≥ 0 then csharpMod (c * 30 + 1 + i) 30 else csharpMod (c * 30 + 1 + i) 30 + 30)
      = (1 + i) % 30 := by
    rw [if_pos (by omega), csharpMod_pos _ _ (by decide), if_neg (by omega)]; omega
  unfold Isl.len Isl.isLeap islL
  simp only []
  rw [h1]

/-- year start for positive years: `epoch + 10631·c + T(n)` with `y - 1 = 30c + n` -/
theorem isl_start_pos (bits : Nat) (epoch y : Int) (hy : 1 ≤ y) :
    Isl.start bits epoch y = epoch + (y - 1) / 30 * 10631 + islT bits ((y - 1) % 30).toNat := by
  unfold Isl.start
  simp only []
  rw [if_pos (by omega), tdiv_pos _ _ (by decide : (0 : Int) < 30), if_pos (by omega)]
  have e : (y - ((y - 1) / 30 * 30 + 1)).toNat = ((y - 1) % 30).toNat := by congr 1; omega
  rw [e]
  unfold islT
  congr 1
  apply sumFrom_congr
  intro i _
  have := isl_len_eq bits ((y - 1) / 30) i (by omega) (by omega)
  rw [this]; congr 1; omega

/-- recurrence for any bit pattern whose 30-year cycle has 10631 days -/
theorem isl_recur (bits : Nat) (epoch : Int) (hT : islT bits 30 = 10631) (y : Int) (hy : 1 ≤ y) :
    Isl.start bits epoch (y + 1) = Isl.start bits epoch y + Isl.len bits y ∧ 0 < Isl.len bits y := by
  rw [isl_start_pos bits epoch (y + 1) (by omega), isl_start_pos bits epoch y hy]
  have hlen : Isl.len bits y = islL bits ((y - 1) % 30) := by
    have := isl_len_eq bits ((y - 1) / 30) ((y - 1) % 30) (by omega) (by omega)
    have e : (y - 1) / 30 * 30 + 1 + (y - 1) % 30 = y := by omega
    rw [e] at this; exact this
  have hr := islL_range bits ((y - 1) % 30)
  refine ⟨?_, by omega⟩
  rw [hlen]
  have e1 : y + 1 - 1 = y := by omega
  rw [e1]
  by_cases hn : (y - 1) % 30 < 29
  · have a : y / 30 = (y - 1) / 30 := by omega
    have b : (y % 30).toNat = ((y - 1) % 30).toNat + 1 := by omega
    rw [a, b]
    unfold islT
    rw [sumFrom_succ_end]
    have e : (0 : Int) + (((y - 1) % 30).toNat : Int) = (y - 1) % 30 := by omega
    rw [e]; omega
  · have a : y / 30 = (y - 1) / 30 + 1 := by omega
    have b : (y % 30).toNat = 0 := by omega
    have c : ((y - 1) % 30).toNat = 29 := by omega
    have d : (y - 1) % 30 = 29 := by omega
    rw [a, b, c, d]
    have h30 : islT bits 30 = islT bits 29 + islL bits 29 := by
      unfold islT; rw [sumFrom_succ_end]; simp
    have h0 : islT bits 0 = 0 := rfl
    rw [h0]; omega

/-- linear bound used for the year estimate: `30·(start y − epoch)` is within [-319, 551] of `10631·(y − 1)` -/
theorem isl_lin (bits : Nat) (epoch y : Int) (hy : 1 ≤ y) :
    10631 * (y - 1) - 319 ≤ 30 * (Isl.start bits epoch y - epoch) ∧
    30 * (Isl.start bits epoch y - epoch) ≤ 10631 * (y - 1) + 551 := by
  rw [isl_start_pos bits epoch y hy]
  have hb := islT_bounds bits ((y - 1) % 30).toNat
  have e : (((y - 1) % 30).toNat : Int) = (y - 1) % 30 := by omega
  rw [e] at hb
  omega

theorem isl_est_core (y x q : Int) (hy : 1 ≤ y) (hy2 : y ≤ 9665) (hx : 0 ≤ x)
    (hs : 10631 * (y - 1) - 319 ≤ 30 * x) (he : 30 * x < 10631 * y + 551)
    (hq1 : 3545 * q ≤ x * 10 ∧ x * 10 < 3545 * q + 3545) :
    1 ≤ q + 1 ∧ q + 1 ≤ 9665 + 1 ∧ q + 1 ≤ y + 60 ∧ y ≤ q + 1 + 60 := by
  omega

/-! month table (same for every pattern; month 12 has 30 days in leap years) -/

theorem isl_split_tbl : ∀ n : Nat, n < 356 → 1 ≤ n →
    (1 ≤ (Isl.split 0 n).1 ∧ (Isl.split 0 n).1 ≤ 12 ∧ 1 ≤ (Isl.split 0 n).2 ∧
     ((Isl.split 0 n).2 ≤ 29 ∨ ((Isl.split 0 n).2 = 30 ∧ ((Isl.split 0 n).1 % 2 = 1 ∨ n = 355))) ∧
     Isl.toMonth (Isl.split 0 n).1 + (Isl.split 0 n).2 = n ∧ ((Isl.split 0 n).1 = 12 ∨ n < 355)) := by decide +kernel

theorem isl_unsplit_tbl : ∀ m : Nat, m < 13 → ∀ d : Nat, d < 31 → (1 ≤ m ∧ 1 ≤ d ∧ (d ≤ 29 ∨ m % 2 = 1 ∨ m = 12) →
    (1 ≤ Isl.toMonth m + d ∧ Isl.toMonth m + d ≤ 355 ∧
     Isl.split 0 (Isl.toMonth m + d) = ((m : Int), (d : Int)))) := by decide +kernel

theorem isl_unsplit_355 : ∀ m : Nat, m < 13 → ∀ d : Nat, d < 31 → (1 ≤ m ∧ 1 ≤ d ∧ Isl.toMonth m + d = 355 →
    (m = 12 ∧ d = 30)) := by decide +kernel

theorem isl_toMonth_tbl : ∀ m : Nat, m < 13 → 1 ≤ m →
    (Isl.toMonth m = 29 * ((m : Int) - 1) + (m : Int) / 2 ∧
     ∀ m2 : Nat, m2 < 13 → m < m2 → Isl.toMonth m + 30 ≤ Isl.toMonth m2 + (if m % 2 = 1 then 0 else 1)) := by
  decide +kernel

theorem isl_dim_cases (bits : Nat) (y m : Int) (h1 : 1 ≤ m) (h2 : m ≤ 12) :
    Isl.dim bits y m = (if m = 12 ∧ Isl.isLeap bits y = true then 30 else if m % 2 = 0 then 29 else 30) := by
  unfold Isl.dim
  rw [fmod_pos _ _ (by decide : (0 : Int) < 2)]

theorem isl_wf (bits : Nat) (epoch : Int) (hT : islT bits 30 = 10631)
    (he : -1000000 < epoch ∧ epoch < 1000000) : WF (Isl.cal bits epoch) where
  dom_lo := by show -bigDom ≤ (1 : Int); decide
  search_lo := by show -bigDom ≤ (1 : Int) ∧ (1 : Int) ≤ 1; decide
  recur_lo := fun y h1 h2 => by
    have a : (1 : Int) ≤ y := h1
    have b : y < (1 : Int) := h2
    omega
  dom_hi := by show (9665 : Int) + 1 ≤ bigDom; decide
  year_order := by show (1 : Int) ≤ 9665; decide
  recur := fun y hy _ => isl_recur bits epoch hT y hy
  avg_ok := by show (0 : Int) < 3544 + 1 ∧ (3544 : Int) + 1 < 1000000000; decide
  small := by
    have l1 := isl_lin bits epoch 1 (by decide)
    have l2 := isl_lin bits epoch 9666 (by decide)
    show -1000000000 < Isl.start bits epoch 1 ∧ Isl.start bits epoch (9665 + 1) < 1000000000 ∧
      -1000000000 < epoch ∧ epoch < 1000000000
    have e : (9665 : Int) + 1 = 9666 := by decide
    rw [e]; omega
  est := by
    intro y d hy hy2 hs hee
    have hy' : 1 ≤ y := hy
    have hy2' : y ≤ 9665 := hy2
    have hs' : Isl.start bits epoch y ≤ d := hs
    have he' : d < Isl.start bits epoch (y + 1) := hee
    have l1 := isl_lin bits epoch y hy'
    have l2 := isl_lin bits epoch (y + 1) (by omega)
    have e1 : y + 1 - 1 = y := by omega
    rw [e1] at l2
    show 1 ≤ Int.tdiv ((d - epoch) * 10) (3544 + 1) + 1 ∧ _
    have e3 : (3544 : Int) + 1 = 3545 := by decide
    rw [e3]
    have tb := tdiv_bounds ((d - epoch) * 10) 3545 (by decide)
    have hx : 0 ≤ d - epoch := by
      by_cases h1 : y = 1
      · subst h1
        have := isl_start_pos bits epoch 1 (by decide)
        have h0 : islT bits ((1 - 1 : Int) % 30).toNat = 0 := rfl
        rw [h0] at this
        have e0 : ((1 : Int) - 1) / 30 * 10631 = 0 := by decide
        rw [e0] at this
        omega
      · omega
    exact isl_est_core y (d - epoch) _ hy' hy2' hx (by omega) (by omega) (tb.1 (by omega))
  split_ok := by
    intro y doy hy hy2 h1 h2
    have h2' : doy ≤ (if Isl.isLeap bits y then 355 else 354) := h2
    have hdoy : doy ≤ 355 := by cases hl : Isl.isLeap bits y <;> rw [hl] at h2' <;> simp at h2' <;> omega
    obtain ⟨n, rfl⟩ := natOf (x := doy) (by omega)
    obtain ⟨a, b, c, d, e, f⟩ := isl_split_tbl n (by omega) (by omega)
    show 1 ≤ (Isl.split y n).1 ∧ (Isl.split y n).1 ≤ 12 ∧ 1 ≤ (Isl.split y n).2 ∧
      (Isl.split y n).2 ≤ Isl.dim bits y (Isl.split y n).1 ∧ Isl.toMonth (Isl.split y n).1 + (Isl.split y n).2 = n
    have hs : Isl.split y n = Isl.split 0 n := rfl
    rw [hs, isl_dim_cases bits y _ a b]
    refine ⟨a, b, c, ?_, e⟩
    generalize (Isl.split 0 (n : Int)).1 = m at *
    generalize (Isl.split 0 (n : Int)).2 = dd at *
    cases hl : Isl.isLeap bits y
    · rw [hl] at h2'; simp only [Bool.false_eq_true, if_false, and_false] at h2' ⊢
      split <;> omega
    · simp only [and_true]
      split
      · omega
      · split <;> omega
  unsplit_ok := by
    intro y m dd hy hy2 h1 h2 h3 h4
    have h2' : m ≤ 12 := h2
    have h4' : dd ≤ Isl.dim bits y m := h4
    rw [isl_dim_cases bits y m h1 h2'] at h4'
    obtain ⟨n, rfl⟩ := natOf (x := m) (by omega)
    have hdd : dd ≤ 30 := by
      revert h4'; split
      · omega
      · split <;> omega
    obtain ⟨k, rfl⟩ := natOf (x := dd) (by omega)
    have hcond : k ≤ 29 ∨ n % 2 = 1 ∨ n = 12 := by
      revert h4'; split
      · intro _; omega
      · split <;> omega
    obtain ⟨a, b, d⟩ := isl_unsplit_tbl n (by omega) k (by omega) ⟨by omega, by omega, hcond⟩
    have c := fun h => isl_unsplit_355 n (by omega) k (by omega) ⟨by omega, by omega, h⟩
    show 1 ≤ Isl.toMonth n + k ∧ Isl.toMonth n + k ≤ (if Isl.isLeap bits y then 355 else 354) ∧
      Isl.split y (Isl.toMonth n + k) = ((n : Int), (k : Int))
    refine ⟨a, ?_, d⟩
    cases hl : Isl.isLeap bits y
    · simp only [Bool.false_eq_true, if_false]
      by_cases h355 : Isl.toMonth n + k = 355
      · obtain ⟨c1, c2⟩ := c h355
        rw [hl] at h4'; simp at h4'
        revert h4'; split <;> omega
      · omega
    · simp only [if_true]; exact b
  pack_year := by show (-16383 : Int) ≤ 1 ∧ (9665 : Int) ≤ 16384; decide
  pack_month := fun _ _ _ => by show (1 : Int) ≤ 12 ∧ (12 : Int) ≤ 32; decide
  pack_day := by
    intro y m _ _ h1 h2
    have h2' : m ≤ 12 := h2
    show 1 ≤ Isl.dim bits y m ∧ Isl.dim bits y m ≤ 64
    rw [isl_dim_cases bits y m h1 h2']
    split
    · omega
    · split <;> omega
  month_order := by
    intro y m1 m2 _ _ h1 h2 h3 h4 h5
    have h2' : m1 ≤ 12 := h2
    have h4' : m2 ≤ 12 := h4
    have h5' : m1 < m2 := h5
    show Isl.toMonth m1 + Isl.dim bits y m1 ≤ Isl.toMonth m2
    rw [isl_dim_cases bits y m1 h1 h2']
    obtain ⟨n1, rfl⟩ := natOf (x := m1) (by omega)
    obtain ⟨n2, rfl⟩ := natOf (x := m2) (by omega)
    have := (isl_toMonth_tbl n1 (by omega) (by omega)).2 n2 (by omega) (by omega)
    rw [if_neg (by omega)]
    split
    · split at this <;> omega
    · split at this <;> omega
  month_key_inj := fun _ _ _ _ _ _ _ _ _ h => h
  plain_key := fun _ _ _ _ _ _ _ => rfl

theorem islT_base15 : islT Isl.bitsBase15 30 = 10631 := by decide +kernel
theorem islT_base16 : islT Isl.bitsBase16 30 = 10631 := by decide +kernel
theorem islT_indian : islT Isl.bitsIndian 30 = 10631 := by decide +kernel
theorem islT_habash : islT Isl.bitsHabash 30 = 10631 := by decide +kernel

/-- all eight tabular Islamic calendars of the library are well-formed -/
theorem islamic_wf :
    WF (Isl.cal Isl.bitsBase15 Isl.astronomicalEpoch) ∧ WF (Isl.cal Isl.bitsBase16 Isl.astronomicalEpoch) ∧
    WF (Isl.cal Isl.bitsIndian Isl.astronomicalEpoch) ∧ WF (Isl.cal Isl.bitsHabash Isl.astronomicalEpoch) ∧
    WF (Isl.cal Isl.bitsBase15 Isl.civilEpoch) ∧ WF (Isl.cal Isl.bitsBase16 Isl.civilEpoch) ∧
    WF (Isl.cal Isl.bitsIndian Isl.civilEpoch) ∧ WF (Isl.cal Isl.bitsHabash Isl.civilEpoch) :=
  ⟨isl_wf _ _ islT_base15 (by decide), isl_wf _ _ islT_base16 (by decide), isl_wf _ _ islT_indian (by decide),
   isl_wf _ _ islT_habash (by decide), isl_wf _ _ islT_base15 (by decide), isl_wf _ _ islT_base16 (by decide),
   isl_wf _ _ islT_indian (by decide), isl_wf _ _ islT_habash (by decide)⟩

end Pyoda.C01
