/-
  C08 — all 19 calendars, patterns with embedded parts (`parseSegmentedG`: template value in any calendar, or the
  calendar field inside an embedded date pattern / among the plain steps): parsing never raises and a success is a date of
  the calendar the bucket ended with, with a time inside the day.
-/
import PyodaProofs.C08Calendar

namespace Pyoda.C08
open Pyoda Pyoda.Text
open Pyoda.Calendar (Calc calcOf)

/-- `SegInv` with the calendar slot: once an embedded date has been parsed (and no plain step assigns the date slots or
    the calendar), the date slots hold a date of the calendar in the calendar slot -/
structure SegInvG (used : Nat) (fm fd ft sD sT : Bool) (b : Bucket) : Prop where
  ok : DtOK fm fd ft b
  cal : CalOK b
  dv : hasAny used F.embeddedDate = true → sD = true →
    ∃ c, calcOfInt (b .calendar) = some c ∧ InCal c (b .year) (b .monthNum) (b .dayOfMonth)
  tv : hasAny used F.embeddedTime = true → sT = true → b .hours24 ≤ 23

def noCalSetter (s : Step) : Bool := stepSets s ≠ some .calendar

theorem parseSegsG_spec (tc : TmplC) (htm : TmplCOK tc) (cu : Culture) (hcu : cu.monthHeadsEmpty = true) (used : Nat) :
    ∀ (segs : List Seg) (l : Text) (b : Bucket) (fm fd ft sD sT : Bool),
    (plainSteps segs).all dtStepWF = true → segs.all segInnerWF = true →
    (hasAny used F.embeddedDate = true → (plainSteps segs).all noDateSetter = true) →
    (hasAny used F.embeddedDate = true → (plainSteps segs).all noCalSetter = true) →
    (hasAny used F.embeddedTime = true → (plainSteps segs).all noTimeSetter = true) →
    SegInvG used fm fd ft sD sT b →
    (∃ r, parseSegsG tc cu segs l b = .ok r) ∧
    ∀ b' r, parseSegsG tc cu segs l b = .ok (some (b', r)) →
      SegInvG used (fm || (plainSteps segs).any (setsSlot .monthNum)) (fd || (plainSteps segs).any (setsSlot .dayOfMonth))
        (ft || (plainSteps segs).any (setsSlot .monthText)) (sD || segs.any isDateSeg) (sT || segs.any isTimeSeg) b' := by
  intro segs
  induction segs with
  | nil =>
    intro l b fm fd ft sD sT _ _ _ _ _ hi
    refine ⟨⟨_, rfl⟩, fun b' r h => ?_⟩
    simp only [parseSegsG] at h; injection h with h; injection h with h; injection h with h _
    rw [← h]; simpa [plainSteps] using hi
  | cons sg segs ih =>
    intro l b fm fd ft sD sT hw hin hD hC hT hi
    simp only [List.all_cons, Bool.and_eq_true] at hin
    cases sg with
    | plain ss =>
      simp only [plainSteps, List.all_append, Bool.and_eq_true] at hw hD hC hT
      simp only [parseSegsG]
      obtain ⟨o, hp⟩ := parseSteps_total_all cu ss l b
      rw [hp]
      cases o with
      | none => exact ⟨⟨_, rfl⟩, fun b' r h => by cases h⟩
      | some q =>
        obtain ⟨b1, l1⟩ := q
        dsimp only
        have hok := parseSteps_dt_ok cu hcu ss l b b1 l1 fm fd ft hw.1 hi.ok hp
        have hcal := parseSteps_calOK cu ss l b b1 l1 (all_calSafe_of_dtStepWF _ hw.1) hp hi.cal
        have fr : ∀ x, (∀ s ∈ ss, stepSets s ≠ some x) → b1 x = b x :=
          fun x hx => parseSteps_frame_all cu x ss l b b1 l1 hx hp
        have hi1 : SegInvG used (fm || ss.any (setsSlot .monthNum)) (fd || ss.any (setsSlot .dayOfMonth))
            (ft || ss.any (setsSlot .monthText)) sD sT b1 := by
          refine ⟨hok, hcal, ?_, ?_⟩
          · intro hE hs
            have hn := (hD hE).1
            have hc := (hC hE).1
            rw [List.all_eq_true] at hn hc
            have e1 := fr .year (fun s hs' => by have := hn s hs'; simp only [noDateSetter, Bool.and_eq_true, decide_eq_true_eq] at this; exact this.1.1)
            have e2 := fr .monthNum (fun s hs' => by have := hn s hs'; simp only [noDateSetter, Bool.and_eq_true, decide_eq_true_eq] at this; exact this.1.2)
            have e3 := fr .dayOfMonth (fun s hs' => by have := hn s hs'; simp only [noDateSetter, Bool.and_eq_true, decide_eq_true_eq] at this; exact this.2)
            have e4 := fr .calendar (fun s hs' => by have := hc s hs'; simpa [noCalSetter] using this)
            rw [e1, e2, e3, e4]; exact hi.dv hE hs
          · intro hE hs
            have hn := (hT hE).1
            rw [List.all_eq_true] at hn
            have e1 := fr .hours24 (fun s hs' => by have := hn s hs'; simp only [noTimeSetter, Bool.and_eq_true, decide_eq_true_eq] at this; exact this.1.1.1)
            rw [e1]; exact hi.tv hE hs
        obtain ⟨t, hv⟩ := ih l1 b1 _ _ _ sD sT hw.2 hin.2 (fun hE => (hD hE).2) (fun hE => (hC hE).2) (fun hE => (hT hE).2) hi1
        refine ⟨t, fun b' r h => ?_⟩
        have := hv b' r h
        simpa [plainSteps, List.any_append, Bool.or_assoc, isDateSeg, isTimeSeg] using this
    | date c =>
      simp only [plainSteps] at hw hD hC hT
      simp only [segInnerWF, Bool.and_eq_true] at hin
      obtain ⟨⟨⟨cw, cs⟩, cc⟩, hin2⟩ := hin
      simp only [parseSegsG]
      obtain ⟨o, hp⟩ := parseSteps_total_all c.cu c.steps l (dateBucketC tc)
      rw [hp]
      cases o with
      | none => exact ⟨⟨_, rfl⟩, fun b' r h => by cases h⟩
      | some q =>
        obtain ⟨bi, l1⟩ := q
        dsimp only
        have hbi := parseSteps_dt_ok c.cu cc c.steps l _ bi l1 false false false cw (dateBucketC_ok tc) hp
        have hcali := parseSteps_calOK c.cu c.steps l _ bi l1 (all_calSafe_of_dtStepWF _ cw) hp (dateBucketC_calOK tc htm.cal)
        obtain ⟨s1, s2, s3⟩ := fieldsSound_flags c.used c.steps cs
        obtain ⟨ov, hv⟩ := dateValueG_total tc c.used bi hcali
        rw [hv]
        cases ov with
        | none => exact ⟨⟨_, rfl⟩, fun b' r h => by cases h⟩
        | some w =>
          obtain ⟨y, m, d, cal⟩ := w
          dsimp only
          obtain ⟨ecal, k, hk, hin3⟩ := dateValueG_valid tc htm c.used bi _ _ _ hbi s1 s2 s3 (y, m, d, cal) hv
          dsimp only at ecal hk hin3
          obtain ⟨a1, a2, a3, a4, a5, a6, a7, a8, a9⟩ := hi.ok
          have hi1 : SegInvG used fm fd ft true sT ((((b.set .calendar cal).set .year y).set .monthNum m).set .dayOfMonth d) := by
            refine ⟨⟨by simpa [Bucket.set] using a1, by simpa [Bucket.set] using a2, by simpa [Bucket.set] using a3,
              by simpa [Bucket.set] using a4, by simpa [Bucket.set] using a5, by simpa [Bucket.set] using a6,
              fun _ => by simp only [Bucket.set]; simp; exact hin3.2.2.1,
              fun _ => by simp only [Bucket.set]; simp; exact hin3.2.2.2.2.1,
              by simpa [Bucket.set] using a9⟩, ?_, ?_, ?_⟩
            · unfold CalOK; simp only [Bucket.set]; simp; rw [ecal]; exact hcali
            · intro _ _; refine ⟨k, ?_, ?_⟩ <;> simp only [Bucket.set] <;> simp
              · exact hk
              · exact hin3
            · intro hE hs; have := hi.tv hE hs; simpa [Bucket.set] using this
          obtain ⟨t, hv2⟩ := ih l1 _ fm fd ft true sT hw hin2 hD hC hT hi1
          refine ⟨t, fun b' r h => ?_⟩
          have := hv2 b' r h
          simpa [plainSteps, isDateSeg, isTimeSeg] using this
    | time c =>
      simp only [plainSteps] at hw hD hC hT
      simp only [segInnerWF] at hin
      obtain ⟨cw, hin2⟩ := hin
      simp only [parseSegsG]
      obtain ⟨o, hp⟩ := parseSteps_total_all c.cu c.steps l (timeBucket0 tc.nod)
      rw [hp]
      cases o with
      | none => exact ⟨⟨_, rfl⟩, fun b' r h => by cases h⟩
      | some q =>
        obtain ⟨bi, l1⟩ := q
        dsimp only
        cases hv : timeValue tc.nod c.used bi with
        | none => exact ⟨⟨_, rfl⟩, fun b' r h => by cases h⟩
        | some t =>
          dsimp only
          have hbi := parseSteps_time_ok c.cu c.steps l _ bi l1 cw (timeBucketOK_of_tmpl tc.nod htm.t0 htm.t1) hp
          obtain ⟨hd, h23⟩ := dtOK_of_timeBucketOK bi hbi
          obtain ⟨t0, t1⟩ := timeValueT_valid tc.nod htm.t0 htm.t1 c.used bi _ _ _ hd h23 t hv
          obtain ⟨e1, e2, e3, e4⟩ := time_accessors t t0 t1
          obtain ⟨a1, a2, a3, a4, a5, a6, a7, a8, a9⟩ := hi.ok
          have hi1 : SegInvG used fm fd ft sD true
              ((((b.set .hours24 (ltHour t)).set .minutes (ltMinute t)).set .seconds (ltSecond t)).set .fraction (ltNano t)) := by
            refine ⟨⟨by simp only [Bucket.set]; simp; omega, by simpa [Bucket.set] using a2,
              by simp only [Bucket.set]; simp; omega, by simp only [Bucket.set]; simp; omega,
              by simp only [Bucket.set]; simp; omega, by simpa [Bucket.set] using a6,
              by simpa [Bucket.set] using a7, by simpa [Bucket.set] using a8, by simpa [Bucket.set] using a9⟩, ?_, ?_, ?_⟩
            · have := hi.cal; simpa [CalOK, Bucket.set] using this
            · intro hE hs; have := hi.dv hE hs; simpa [Bucket.set] using this
            · intro _ _; simp only [Bucket.set]; simp; omega
          obtain ⟨r0, hv2⟩ := ih l1 _ fm fd ft sD true hw hin2 hD hC hT hi1
          refine ⟨r0, fun b' r h => ?_⟩
          have := hv2 b' r h
          simpa [plainSteps, isDateSeg, isTimeSeg] using this

/-! ## `calculate_value` of the combined bucket with the embedded branches, any calendar -/

theorem dtValueEG_spec (H : AllWF) (tc : TmplC) (htm : TmplCOK tc) (used : Nat) (b : Bucket) (fm fd ft sD sT : Bool)
    (hi : SegInvG used fm fd ft sD sT b)
    (eD : hasAny used F.embeddedDate = true → sD = true)
    (s1 : hasAny used F.monthNum = true → fm = true) (s2 : hasAny used F.dayOfMonth = true → fd = true)
    (s3 : hasAny used F.monthText = true → ft = true) :
    (∃ r, dtValueEG tc used b = .ok r) ∧ ∀ v, dtValueEG tc used b = .ok (some v) → DtInCal v := by
  unfold dtValueEG
  dsimp only
  generalize hb' : (if decide (b .hours24 = 24) = true then b.set .hours24 0 else b) = b'
  have hb := hi.ok
  have hb2 : DtOK fm fd ft b' ∧ b' .hours24 ≤ 23 ∧ b' .year = b .year ∧ b' .monthNum = b .monthNum ∧
      b' .dayOfMonth = b .dayOfMonth ∧ b' .calendar = b .calendar := by
    rw [← hb']
    by_cases h24 : b .hours24 = 24
    · simp only [h24, decide_true, if_true]
      obtain ⟨a1, a2, a3, a4, a5, a6, a7, a8, a9⟩ := hb
      exact ⟨⟨by simp [Bucket.set], by simpa [Bucket.set] using a2, by simpa [Bucket.set] using a3,
        by simpa [Bucket.set] using a4, by simpa [Bucket.set] using a5, by simpa [Bucket.set] using a6,
        by simpa [Bucket.set] using a7, by simpa [Bucket.set] using a8, by simpa [Bucket.set] using a9⟩,
        by simp [Bucket.set], by simp [Bucket.set], by simp [Bucket.set], by simp [Bucket.set], by simp [Bucket.set]⟩
    · simp only [h24, decide_false, Bool.false_eq_true, if_false]
      exact ⟨hb, (by have := hb.h24; omega), trivial, trivial, trivial, trivial⟩
  obtain ⟨hok', h23, ey, em, ed, ec⟩ := hb2
  have hcal' : CalOK b' := by unfold CalOK; rw [ec]; exact hi.cal
  -- the date part: total, and a date of its calendar
  have hdate : (∃ r, dateValueEG tc (used &&& F.allDate) b' = .ok r) ∧
      ∀ w, dateValueEG tc (used &&& F.allDate) b' = .ok (some w) → ∃ c, calcOfInt w.2.2.2 = some c ∧ InCal c w.1 w.2.1 w.2.2.1 := by
    unfold dateValueEG
    rw [hasAny_and used F.allDate F.embeddedDate (by decide)]
    by_cases hE : hasAny used F.embeddedDate = true
    · have hne : used &&& F.allDate ≠ (F.year ||| F.monthNum ||| F.dayOfMonth) := by
        intro e
        have h1 : hasAny (used &&& F.allDate) F.embeddedDate = true := by
          rw [hasAny_and used F.allDate F.embeddedDate (by decide)]; exact hE
        rw [e] at h1; exact absurd h1 (by decide)
      rw [if_pos ⟨Or.inl hne, hE⟩]
      refine ⟨⟨_, rfl⟩, fun w hw => ?_⟩
      injection hw with hw; injection hw with hw
      subst hw
      dsimp only
      rw [ey, em, ed, ec]
      exact hi.dv hE (eD hE)
    · rw [if_neg (fun hh => hE hh.2)]
      refine ⟨dateValueG_total tc _ b' hcal', fun w hw => ?_⟩
      exact (dateValueG_valid tc htm (used &&& F.allDate) b' fm fd ft hok'
        (by rw [hasAny_and used F.allDate F.monthNum (by decide)]; exact s1)
        (by rw [hasAny_and used F.allDate F.dayOfMonth (by decide)]; exact s2)
        (by rw [hasAny_and used F.allDate F.monthText (by decide)]; exact s3) w hw).2
  -- the time part
  have htime : ∀ t, timeValueE tc.nod (used &&& F.allTime) b' = some t → 0 ≤ t ∧ t < 86400000000000 := by
    intro t ht
    unfold timeValueE at ht
    rw [hasAny_and used F.allTime F.embeddedTime (by decide)] at ht
    by_cases hE : hasAny used F.embeddedTime = true
    · have hne : (used &&& F.allTime) &&& F.allTimeExceptFraction ≠ (F.hours24 ||| F.minutes ||| F.seconds) := by
        intro e
        have h1 : hasAny ((used &&& F.allTime) &&& F.allTimeExceptFraction) F.embeddedTime = true := by
          rw [hasAny_and _ F.allTimeExceptFraction F.embeddedTime (by decide),
            hasAny_and used F.allTime F.embeddedTime (by decide)]; exact hE
        rw [e] at h1; exact absurd h1 (by decide)
      rw [if_pos ⟨hne, hE⟩] at ht
      injection ht with ht
      obtain ⟨a1, _, a3, a4, a5, _, _, _, _⟩ := hok'
      rw [← ht]; unfold ltFromHmsn NPH NPMin NPS; omega
    · rw [if_neg (fun hh => hE hh.2)] at ht
      exact timeValueT_valid tc.nod htm.t0 htm.t1 (used &&& F.allTime) b' fm fd ft hok' h23 t ht
  obtain ⟨⟨r, hr⟩, hdv⟩ := hdate
  rw [hr]
  cases r with
  | none => exact ⟨⟨_, rfl⟩, fun v h => by cases h⟩
  | some w =>
    obtain ⟨y, m, d, cal⟩ := w
    dsimp only
    obtain ⟨c, hc, hin⟩ := hdv (y, m, d, cal) hr
    dsimp only at hc hin
    cases ht : timeValueE tc.nod (used &&& F.allTime) b' with
    | none => exact ⟨⟨_, rfl⟩, fun v h => by cases h⟩
    | some t =>
      dsimp only
      have htv := htime t ht
      split
      · split
        · exact ⟨⟨_, rfl⟩, fun v h => by cases h⟩
        · have hp : plusOneDayG cal y m d = DateArith.addFixed c 1 (y, m, d) 1 := by
            unfold plusOneDayG; rw [hc]
          rw [hp]
          rcases addOne_ok_or_overflow c (calcOfInt_wf H cal c hc) y m d hin with ⟨q, hq, hqv⟩ | he
          · obtain ⟨y', m', d'⟩ := q
            rw [hq]
            refine ⟨⟨_, rfl⟩, fun v h => ?_⟩
            injection h with h; injection h with h
            subst h
            exact ⟨c, hc, hqv, htv⟩
          · rw [he]
            exact ⟨⟨_, rfl⟩, fun v h => by cases h⟩
      · refine ⟨⟨_, rfl⟩, fun v h => ?_⟩
        injection h with h; injection h with h
        subst h
        exact ⟨c, hc, hin, htv⟩

/-- **LocalDateTime patterns with embedded parts, any calendar** (template value in any calendar, or the calendar field
    inside an embedded date pattern): parsing never raises, and a success is a date of the calendar the bucket ended with
    and a time inside the day — for every segment list passing the decidable check `segWF` -/
theorem parseSegmentedG_spec (H : AllWF) (tc : TmplC) (htm : TmplCOK tc) (cu : Culture) (used : Nat) (segs : List Seg)
    (hwf : segWF cu used segs = true) (l : Text) :
    (∃ r, parseSegmentedG tc cu used segs l = .ok r) ∧ ∀ v, parseSegmentedG tc cu used segs l = .ok (some v) → DtResult v := by
  unfold segWF at hwf
  simp only [Bool.and_eq_true, Bool.or_eq_true, Bool.not_eq_true'] at hwf
  obtain ⟨⟨⟨⟨⟨⟨hw, hs⟩, hcu⟩, hin⟩, hD⟩, hT⟩, hC⟩ := hwf
  have hD1 : hasAny used F.embeddedDate = true → segs.any isDateSeg = true ∧ (plainSteps segs).all noDateSetter = true := by
    intro hE
    rcases hD with e | e
    · rw [e] at hE; cases hE
    · exact e
  have hT1 : hasAny used F.embeddedTime = true → segs.any isTimeSeg = true ∧ (plainSteps segs).all noTimeSetter = true := by
    intro hE
    rcases hT with e | e
    · rw [e] at hE; cases hE
    · exact e
  have hC1 : hasAny used F.embeddedDate = true → (plainSteps segs).all noCalSetter = true := by
    intro hE
    rcases hC with e | e
    · rw [e] at hE; cases hE
    · exact e
  unfold parseSegmentedG
  split
  · exact ⟨⟨_, rfl⟩, fun v h => by cases h⟩
  · have hi0 : SegInvG used false false false false false (dtBucketC tc) :=
      ⟨dtBucketC_ok tc htm, dtBucketC_calOK tc htm.cal, fun _ x => (by cases x), fun _ x => (by cases x)⟩
    obtain ⟨⟨o, hp⟩, hinv⟩ := parseSegsG_spec tc htm cu hcu used segs l _ false false false false false hw hin
      (fun hE => (hD1 hE).2) hC1 (fun hE => (hT1 hE).2) hi0
    rw [hp]
    cases o with
    | none => exact ⟨⟨_, rfl⟩, fun v h => by cases h⟩
    | some q =>
      obtain ⟨b, rest⟩ := q
      dsimp only
      have hi := hinv b rest hp
      obtain ⟨s1, s2, s3⟩ := fieldsSound_flags used (plainSteps segs) hs
      obtain ⟨⟨ov, hv⟩, hval⟩ := dtValueEG_spec H tc htm used b _ _ _ _ _ hi (fun hE => by simp [(hD1 hE).1]) s1 s2 s3
      rw [hv]
      cases ov with
      | none => exact ⟨⟨_, rfl⟩, fun v h => by cases h⟩
      | some w =>
        dsimp only
        split
        · refine ⟨⟨_, rfl⟩, fun v h => ?_⟩
          injection h with h; injection h with h
          exact ⟨w, h.symm, hval w hv⟩
        · exact ⟨⟨_, rfl⟩, fun v h => by cases h⟩

end Pyoda.C08
