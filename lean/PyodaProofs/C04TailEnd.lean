/-
  C04, recurring tail — up to the end of time.  Extends `recSpec_of_rule` / `tailOK_sound` (C04TailRules) to the
  years through 9999 and to the final interval that runs to the after-max sentinel `AMAX`: the sentinel branches
  of `Recurrence.next` / `previousOrSame` (`y2 > MAX_GREG_YEAR → AMAX`, `safeLocal ≥ maxLocal`,
  `!isValid safeLocal`) are covered.  Result: a uniform description of the tail as ONE strictly increasing
  transition sequence `tailU` (two transitions per year, closed by `AMAX`) with the interval `tailIv k` between
  transitions `k` and `k+1`, from the decidable check `tailOKE` the driver evaluates on the current rules.
-/
import PyodaModel.ZoneCheck
import PyodaProofs.C04TailRules
import PyodaProofs.C04Seq

namespace Pyoda.C04
open Pyoda Pyoda.Zone

/-- a transition sequence closed by the end-of-time sentinel after year 9999 -/
def seqE (T : Int → Int) (y : Int) : Int := if y ≤ 9999 then T y else AMAX

/-- the yearly rule's occurrence lies inside its own local year for every year `lo … 9999`; the last one stays
    two days inside the end of time -/
structure RuleOKE (yo : YearOffset) (occ : Int → Int) (lo : Int) : Prop where
  range : -9998 < lo ∧ lo ≤ 9999
  ok : ∀ y, lo ≤ y → y ≤ 9999 → yo.occurrence y = .ok (occ y)
  inYear : ∀ y, lo ≤ y → y ≤ 9999 → ysNs y ≤ occ y ∧ occ y < ysNs (y + 1)
  last : occ 9999 + 2 * NPD ≤ ysNs 10000

theorem ysNs_10000 : ysNs 10000 = MAXI + 1 := by
  have : Calendar.Greg.start 10000 = 2932897 := by rw [C01.greg_start_closed]; omega
  simp only [ysNs, this, MAXI, MAX_DAYS, NPD]; omega

/-- year starts of the years `-9997 … 9999` are a year inside both ends of time -/
theorem ysNs_inside (y : Int) (h1 : -9998 < y) (h2 : y ≤ 9999) :
    MINI + 365 * NPD ≤ ysNs y ∧ ysNs y + 365 * NPD ≤ MAXI + 1 ∧ ysNs (y + 1) ≤ MAXI + 1 := by
  have b0 := greg_start_bounds (y - 1) (by omega) (by omega)
  have s0 := greg_step (y - 1)
  have e : y - 1 + 1 = y := by omega
  rw [e] at s0
  have s1 := greg_step y
  have b1 := greg_start_bounds (y + 1) (by omega) (by omega)
  simp only [ysNs, MINI, MAXI, MIN_DAYS, MAX_DAYS, NPD] at *
  omega

/-- `safePlus` on the last day of the timeline or beyond it: the sentinel, or the plain sum when it stays valid -/
theorem safePlus_last (t off : Int) (h : dayOf t ≥ MAX_DAYS) (hoff : -NPD ≤ off) :
    safePlus t off = AMAX ∨ (safePlus t off = t + off ∧ dayOf (t + off) ≤ MAX_DAYS ∧ dayOf t = MAX_DAYS) := by
  unfold safePlus
  simp only []
  have c1 : ¬(MIN_DAYS < dayOf t ∧ dayOf t < MAX_DAYS) := by omega
  have c2 : ¬(dayOf t < MIN_DAYS) := by simp only [MIN_DAYS, MAX_DAYS] at *; omega
  rw [if_neg c1, if_neg c2]
  by_cases c3 : dayOf t > MAX_DAYS
  · rw [if_pos c3]; exact Or.inl rfl
  · rw [if_neg c3]
    have c5 : ¬(dayOf (t + off) < MIN_DAYS) := by
      simp only [dayOf, MIN_DAYS, MAX_DAYS, NPD] at *; omega
    rw [if_neg c5]
    by_cases c6 : dayOf (t + off) > MAX_DAYS
    · rw [if_pos c6]; exact Or.inl rfl
    · rw [if_neg c6]; exact Or.inr ⟨rfl, by omega, by omega⟩

theorem isValid_AMAX : isValid AMAX = false := by decide

section
variable {r : Recurrence} {std ps ro : Int} {occ : Int → Int} {lo : Int}

/-- a rule satisfying `RuleOKE`, in an infinite recurrence, is an increasing transition sequence through year
    9999 followed by the end-of-time sentinel: for `t` at or after the transition of 9999 (valid or not, up to
    `AMAX`) `next` answers `AMAX` and `previous_or_same` the transition of 9999 -/
theorem recSpec_of_rule_end (hinf : r.fromYear = INT_MIN ∧ r.toYear = INT_MAX)
    (hro : r.yo.ruleOffset std ps = .ok ro) (hrob : -64800 ≤ ro ∧ ro ≤ 64800)
    (hwall : -64800 ≤ std + r.savings ∧ std + r.savings ≤ 64800)
    (h : RuleOKE r.yo occ lo) :
    RecSpec r std ps (seqE (fun y => occ y - ro * NPS)) lo 10000 := by
  obtain ⟨hlo, hhi⟩ := h.range
  have hoff : offAdd std r.savings = .ok (std + r.savings) := by
    unfold offAdd; rw [if_neg (by omega)]
  have hmn : r.minLocal = .ok BMIN := by simp [Recurrence.minLocal, hinf.1]
  have hmx : r.maxLocal = .ok AMAX := by simp [Recurrence.maxLocal, hinf.2]
  have h10 := ysNs_10000
  -- every occurrence is two days inside both ends of time
  have occb : ∀ y, lo ≤ y → y ≤ 9999 → MINI + 2 * NPD ≤ occ y ∧ occ y + 2 * NPD ≤ MAXI + 1 := by
    intro y h1 h2
    have a := h.inYear y h1 h2
    have b := ysNs_inside y (by omega) h2
    by_cases hy : y = 9999
    · subst hy; have := h.last; simp only [NPD] at *; omega
    · have c := ysNs_inside (y + 1) (by omega) (by omega)
      simp only [NPD] at *; omega
  have hsm : ∀ y, lo ≤ y → y ≤ 9999 → safeMinus (occ y) (ro * NPS) = occ y - ro * NPS := by
    intro y h1 h2
    have b := occb y h1 h2
    exact safeMinus_interior _ _ (by simp only [NPD] at *; omega) (by simp only [NPD] at *; omega)
  have seq_lt : ∀ y, y ≤ 9999 → seqE (fun y => occ y - ro * NPS) y = occ y - ro * NPS := by
    intro y hy; simp only [seqE]; rw [if_pos hy]
  have seq_end : seqE (fun y => occ y - ro * NPS) (9999 + 1) = AMAX := by
    simp only [seqE]; rw [if_neg (by omega)]
  refine ⟨?_, ?_, ?_⟩
  · intro y h1 h2
    rw [seq_lt y (by omega)]
    by_cases hy : y = 9999
    · subst hy; rw [seq_end]
      have b := occb 9999 h1 (by omega)
      simp only [AMAX, MAXI, MAX_DAYS, NPD, NPS] at *; omega
    · rw [seq_lt (y + 1) (by omega)]
      have a := h.inYear y h1 (by omega)
      have b := h.inYear (y + 1) (by omega) (by omega)
      omega
  · -- next
    intro y t h1 h2 h3 h4
    rw [seq_lt y (by omega)] at h3
    have a := h.inYear y h1 (by omega)
    have ba := occb y h1 (by omega)
    have ya := ysNs_inside y (by omega) (by omega)
    have my := greg_start_mono y
    by_cases hy : y = 9999
    · -- the last year: the answer is the sentinel
      subst hy
      rw [seq_end] at h4 ⊢
      simp only [Recurrence.next, hro, hoff, hmn, hmx, bind, Except.bind]
      have tail_case : ∀ sl, (sl = AMAX ∨ (sl = t + ro * NPS ∧ dayOf (t + ro * NPS) ≤ MAX_DAYS)) →
          (do
            let target ←
              if sl < BMIN then (pure (some r.fromYear) : R (Option Int))
              else if sl ≥ AMAX then pure none
              else if sl = BMIN then pure (some MIN_GREG_YEAR)
              else do let y ← yearOfDays (dayOf sl); pure (some y)
            match target with
            | none => if AMAX = AMAX then .ok (some AMAX) else .ok none
            | some y => do
              let tr ← r.yo.occurrence y
              let st := safeMinus tr (ro * NPS)
              if st > t then .ok (some st)
              else
                let y2 := y + 1
                if y2 > MAX_GREG_YEAR then .ok (some AMAX)
                else do
                  let tr2 ← r.yo.occurrence y2
                  .ok (some (safeMinus tr2 (ro * NPS)))) = (.ok (some AMAX) : R (Option Int)) := by
        intro sl hsl
        rcases hsl with rfl | ⟨rfl, hd⟩
        · have c1 : ¬(AMAX < BMIN) := by decide
          simp only [c1, if_false, ge_iff_le, Int.le_refl, if_true, pure, Except.pure, bind, Except.bind]
        · have c1 : ¬(t + ro * NPS < BMIN) := by simp only [BMIN, MINI, MIN_DAYS, NPD, NPS] at *; omega
          have c2 : ¬(t + ro * NPS ≥ AMAX) := by simp only [dayOf, AMAX, MAX_DAYS, NPD, NPS] at *; omega
          have c3 : ¬(t + ro * NPS = BMIN) := by simp only [BMIN, MINI, MIN_DAYS, NPD, NPS] at *; omega
          have hy' : yearOfDays (dayOf (t + ro * NPS)) = .ok 9999 :=
            greg_year_of _ 9999 (by omega) (by omega) (by simp only [dayOf, ysNs, NPD] at *; omega)
              (by have : Calendar.Greg.start (9999 + 1) = 2932897 := by rw [C01.greg_start_closed]; omega
                  rw [this]; simp only [MAX_DAYS] at hd; omega)
          simp only [c1, c2, c3, if_false, hy', pure, Except.pure, bind, Except.bind, h.ok 9999 h1 (by omega),
            hsm 9999 h1 (by omega)]
          rw [if_neg (by omega)]
          rw [if_pos (by simp only [MAX_GREG_YEAR]; omega)]
      by_cases hd : dayOf t < MAX_DAYS
      · have hsp : safePlus t (ro * NPS) = t + ro * NPS :=
          safePlus_interior _ _ (by simp only [MINI, MAXI, MIN_DAYS, MAX_DAYS, NPD, NPS] at *; omega)
            (by simp only [dayOf, MINI, MAXI, MIN_DAYS, MAX_DAYS, NPD, NPS] at *; omega)
        rw [hsp]
        exact tail_case _ (Or.inr ⟨rfl, by simp only [dayOf, MAX_DAYS, NPD, NPS] at *; omega⟩)
      · rcases safePlus_last t (ro * NPS) (by omega) (by simp only [NPD, NPS]; omega) with hs | ⟨hs, hd2, _⟩
        · rw [hs]; exact tail_case _ (Or.inl rfl)
        · rw [hs]; exact tail_case _ (Or.inr ⟨rfl, hd2⟩)
    · -- an ordinary year
      rw [seq_lt (y + 1) (by omega)] at h4 ⊢
      have b := h.inYear (y + 1) (by omega) (by omega)
      have bb := occb (y + 1) (by omega) (by omega)
      have my1 := greg_start_mono (y + 1)
      have hsp : safePlus t (ro * NPS) = t + ro * NPS :=
        safePlus_interior _ _ (by simp only [MINI, MAXI, MIN_DAYS, MAX_DAYS, NPD, NPS] at *; omega)
          (by simp only [MINI, MAXI, MIN_DAYS, MAX_DAYS, NPD, NPS] at *; omega)
      simp only [Recurrence.next, hro, hoff, hsp, hmn, hmx, bind, Except.bind]
      have c1 : ¬ (t + ro * NPS < BMIN) := by simp only [BMIN, MINI, MIN_DAYS, NPD, NPS] at *; omega
      have c2 : ¬ (t + ro * NPS ≥ AMAX) := by simp only [AMAX, MAXI, MAX_DAYS, NPD, NPS] at *; omega
      have c3 : ¬ (t + ro * NPS = BMIN) := by simp only [BMIN, MINI, MIN_DAYS, NPD, NPS] at *; omega
      simp only [c1, c2, c3, if_false]
      by_cases hq : dayOf (t + ro * NPS) < Calendar.Greg.start (y + 1)
      · have hy' : yearOfDays (dayOf (t + ro * NPS)) = .ok y :=
          greg_year_of _ y (by omega) (by omega) (by simp only [dayOf, ysNs, NPD] at *; omega) hq
        simp only [hy', pure, Except.pure, h.ok y h1 (by omega), hsm y h1 (by omega)]
        rw [if_neg (by omega)]
        rw [if_neg (by simp only [MAX_GREG_YEAR]; omega)]
        simp only [h.ok (y + 1) (by omega) (by omega), hsm (y + 1) (by omega) (by omega)]
      · have hy' : yearOfDays (dayOf (t + ro * NPS)) = .ok (y + 1) :=
          greg_year_of _ (y + 1) (by omega) (by omega) (by omega) (by simp only [dayOf, ysNs, NPD] at *; omega)
        simp only [hy', pure, Except.pure, h.ok (y + 1) (by omega) (by omega), hsm (y + 1) (by omega) (by omega)]
        rw [if_pos (by omega)]
  · -- previous or same
    intro y t h1 h2 h3 h4
    rw [seq_lt y (by omega)] at h3 ⊢
    have a := h.inYear y h1 (by omega)
    have ba := occb y h1 (by omega)
    have ya := ysNs_inside y (by omega) (by omega)
    have my := greg_start_mono y
    have hgo : Recurrence.previousOrSame.go r t ro y = .ok (some (occ y - ro * NPS)) := by
      simp only [Recurrence.previousOrSame.go, bind, Except.bind, h.ok y h1 (by omega), hsm y h1 (by omega)]
      rw [if_pos (by omega)]
    by_cases hy : y = 9999
    · subst hy
      rw [seq_end] at h4
      simp only [Recurrence.previousOrSame, hro, hoff, hmn, hmx, bind, Except.bind]
      have tail_case : ∀ sl, (sl = AMAX ∨ (sl = t + ro * NPS ∧ dayOf (t + ro * NPS) ≤ MAX_DAYS)) →
          (if sl > AMAX then Recurrence.previousOrSame.go r t ro r.toYear
           else if sl < BMIN then .ok none
           else if (!(isValid sl)) = true then
             (if sl = BMIN then .ok (some BMIN) else Recurrence.previousOrSame.go r t ro MAX_GREG_YEAR)
           else do
             let y ← yearOfDays (dayOf sl)
             Recurrence.previousOrSame.go r t ro y) = (.ok (some (occ 9999 - ro * NPS)) : R (Option Int)) := by
        intro sl hsl
        rcases hsl with rfl | ⟨rfl, hd⟩
        · have c1 : ¬(AMAX > AMAX) := by omega
          have c2 : ¬(AMAX < BMIN) := by decide
          have c3 : ¬(AMAX = BMIN) := by decide
          simp only [c1, c2, c3, if_false, isValid_AMAX, Bool.not_false, if_true, MAX_GREG_YEAR]
          exact hgo
        · have c1 : ¬(t + ro * NPS > AMAX) := by simp only [dayOf, AMAX, MAX_DAYS, NPD, NPS] at *; omega
          have c2 : ¬(t + ro * NPS < BMIN) := by simp only [BMIN, MINI, MIN_DAYS, NPD, NPS] at *; omega
          have hval : isValid (t + ro * NPS) = true :=
            isValid_interior _ (by simp only [MINI, MAXI, MIN_DAYS, MAX_DAYS, NPD, NPS] at *; omega)
              (by simp only [dayOf, MINI, MAXI, MIN_DAYS, MAX_DAYS, NPD, NPS] at *; omega)
          have hy' : yearOfDays (dayOf (t + ro * NPS)) = .ok 9999 :=
            greg_year_of _ 9999 (by omega) (by omega) (by simp only [dayOf, ysNs, NPD] at *; omega)
              (by have : Calendar.Greg.start (9999 + 1) = 2932897 := by rw [C01.greg_start_closed]; omega
                  rw [this]; simp only [MAX_DAYS] at hd; omega)
          simp only [c1, c2, if_false, hval, Bool.not_true, Bool.false_eq_true, hy', bind, Except.bind]
          exact hgo
      by_cases hd : dayOf t < MAX_DAYS
      · have hsp : safePlus t (ro * NPS) = t + ro * NPS :=
          safePlus_interior _ _ (by simp only [MINI, MAXI, MIN_DAYS, MAX_DAYS, NPD, NPS] at *; omega)
            (by simp only [dayOf, MINI, MAXI, MIN_DAYS, MAX_DAYS, NPD, NPS] at *; omega)
        rw [hsp]
        exact tail_case _ (Or.inr ⟨rfl, by simp only [dayOf, MAX_DAYS, NPD, NPS] at *; omega⟩)
      · rcases safePlus_last t (ro * NPS) (by omega) (by simp only [NPD, NPS]; omega) with hs | ⟨hs, hd2, _⟩
        · rw [hs]; exact tail_case _ (Or.inl rfl)
        · rw [hs]; exact tail_case _ (Or.inr ⟨rfl, hd2⟩)
    · rw [seq_lt (y + 1) (by omega)] at h4
      have b := h.inYear (y + 1) (by omega) (by omega)
      have bb := occb (y + 1) (by omega) (by omega)
      have my1 := greg_start_mono (y + 1)
      have hsp : safePlus t (ro * NPS) = t + ro * NPS :=
        safePlus_interior _ _ (by simp only [MINI, MAXI, MIN_DAYS, MAX_DAYS, NPD, NPS] at *; omega)
          (by simp only [MINI, MAXI, MIN_DAYS, MAX_DAYS, NPD, NPS] at *; omega)
      have hval : isValid (t + ro * NPS) = true :=
        isValid_interior _ (by simp only [MINI, MAXI, MIN_DAYS, MAX_DAYS, NPD, NPS] at *; omega)
          (by simp only [MINI, MAXI, MIN_DAYS, MAX_DAYS, NPD, NPS] at *; omega)
      simp only [Recurrence.previousOrSame, hro, hoff, hsp, hmn, hmx, bind, Except.bind]
      have c1 : ¬ (t + ro * NPS > AMAX) := by simp only [AMAX, MAXI, MAX_DAYS, NPD, NPS] at *; omega
      have c2 : ¬ (t + ro * NPS < BMIN) := by simp only [BMIN, MINI, MIN_DAYS, NPD, NPS] at *; omega
      simp only [c1, c2, if_false, hval, Bool.not_true, Bool.false_eq_true]
      by_cases hq : dayOf (t + ro * NPS) < Calendar.Greg.start (y + 1)
      · have hy' : yearOfDays (dayOf (t + ro * NPS)) = .ok y :=
          greg_year_of _ y (by omega) (by omega) (by simp only [dayOf, ysNs, NPD] at *; omega) hq
        simp only [hy']
        exact hgo
      · have hy' : yearOfDays (dayOf (t + ro * NPS)) = .ok (y + 1) :=
          greg_year_of _ (y + 1) (by omega) (by omega) (by omega) (by simp only [dayOf, ysNs, NPD] at *; omega)
        simp only [hy', Recurrence.previousOrSame.go, bind, Except.bind, h.ok (y + 1) (by omega) (by omega),
          hsm (y + 1) (by omega) (by omega)]
        rw [if_neg (by omega)]
        rw [if_neg (by simp only [MIN_GREG_YEAR]; omega)]
        have e : y + 1 - 1 = y := by omega
        simp only [e, h.ok y h1 (by omega), hsm y h1 (by omega)]

end

/-! ### the alternating map up to the end of time -/

/-- both recurrences are transition sequences for the years `lo … hi`, closed by the end-of-time sentinel -/
structure AltSpecE (m : AltMap) (D S : Int → Int) (lo hi : Int) : Prop where
  d : RecSpec m.dstRec m.std 0 D lo (hi + 1)
  s : RecSpec m.stdRec m.std m.dstRec.savings S lo (hi + 1)
  endD : D (hi + 1) = AMAX
  endS : S (hi + 1) = AMAX
  wallOk : -64800 ≤ m.std + m.dstRec.savings ∧ m.std + m.dstRec.savings ≤ 64800 ∧ -64800 ≤ m.std ∧ m.std ≤ 64800
  stdSavings : m.stdRec.savings = 0

def dstIv (m : AltMap) (a b : Int) : ZI := ⟨a, b, m.dstRec.name, m.std + m.dstRec.savings, m.dstRec.savings⟩
def stdIv (m : AltMap) (a b : Int) : ZI := ⟨a, b, m.stdRec.name, m.std, 0⟩

section
variable {m : AltMap} {D S : Int → Int} {lo hi : Int} (h : AltSpecE m D S lo hi)
include h

/-- daylight rule first in each year -/
def AltD (D S : Int → Int) (lo hi : Int) : Prop := ∀ y, lo ≤ y → y ≤ hi → D y < S y ∧ (y < hi → S y < D (y + 1))
/-- standard rule first in each year -/
def AltS (D S : Int → Int) (lo hi : Int) : Prop := ∀ y, lo ≤ y → y ≤ hi → S y < D y ∧ (y < hi → D y < S (y + 1))

theorem getD_dst (alt : AltD D S lo hi) (y t : Int) (hy1 : lo < y) (hy2 : y ≤ hi) (h1 : D y ≤ t) (h2 : t < S y) :
    m.get t = .ok (dstIv m (D y) (S y)) := by
  have a := alt y (by omega) hy2
  have am := alt (y - 1) (by omega) (by omega)
  have e1 : y - 1 + 1 = y := by omega
  rw [e1] at am
  have sm := h.s.mono y (by omega) (by omega)
  have hlt : S y < D (y + 1) := by
    by_cases hq : y < hi
    · exact a.2 hq
    · have : y = hi := by omega
      subst this; rw [h.endD]; rw [h.endS] at sm; exact sm
  have hd := h.d.nextOrFail y t (by omega) (by omega) h1 (by omega)
  have hs := h.s.nextOrFail (y - 1) t (by omega) (by omega) (by have := am.2 (by omega); omega) (by rw [e1]; exact h2)
  rw [e1] at hs
  have hp := h.d.prevOrFail y t (by omega) (by omega) h1 (by omega)
  simp only [AltMap.get, AltMap.nextTransition, hd, hs, bind, Except.bind, hlt, if_true, hp, offAdd, dstIv]
  rw [if_neg (by have := h.wallOk; omega)]
  simp only [ZI.mk']
  rw [if_neg (by omega)]

theorem getD_std (alt : AltD D S lo hi) (y t : Int) (hy1 : lo ≤ y) (hy2 : y < hi) (h1 : S y ≤ t) (h2 : t < D (y + 1)) :
    m.get t = .ok (stdIv m (S y) (D (y + 1))) := by
  have a := alt y hy1 (by omega)
  have ap := alt (y + 1) (by omega) (by omega)
  have hd := h.d.nextOrFail y t hy1 (by omega) (by omega) h2
  have hs := h.s.nextOrFail y t hy1 (by omega) h1 (by omega)
  have hp := h.s.prevOrFail y t hy1 (by omega) h1 (by omega)
  have hlt : ¬ (S (y + 1) < D (y + 1)) := by omega
  have hgt : S (y + 1) > D (y + 1) := by omega
  simp only [AltMap.get, AltMap.nextTransition, hd, hs, bind, Except.bind, hlt, if_false, hgt, if_true, hp, offAdd,
    Bool.false_eq_true, h.stdSavings, Int.add_zero, stdIv]
  rw [if_neg (by have := h.wallOk; omega)]
  simp only [ZI.mk']
  rw [if_neg (by omega)]

theorem getD_last (alt : AltD D S lo hi) (hlh : lo ≤ hi) (t : Int) (h1 : S hi ≤ t) (h2 : t < AMAX) :
    m.get t = .ok (stdIv m (S hi) AMAX) := by
  have a := alt hi hlh (by omega)
  have hd := h.d.nextOrFail hi t hlh (by omega) (by omega) (by rw [h.endD]; exact h2)
  have hs := h.s.nextOrFail hi t hlh (by omega) h1 (by rw [h.endS]; exact h2)
  have hpd := h.d.prevOrFail hi t hlh (by omega) (by omega) (by rw [h.endD]; exact h2)
  have hps := h.s.prevOrFail hi t hlh (by omega) h1 (by rw [h.endS]; exact h2)
  rw [h.endD] at hd; rw [h.endS] at hs
  have c1 : ¬ (AMAX < AMAX) := by omega
  have c2 : ¬ (AMAX > AMAX) := by omega
  have c3 : ¬ (D hi > S hi) := by omega
  simp only [AltMap.get, AltMap.nextTransition, hd, hs, bind, Except.bind, c1, c3, if_false, isValid_AMAX, hpd, hps,
    Bool.false_eq_true, offAdd, h.stdSavings, Int.add_zero, stdIv]
  rw [if_neg (by have := h.wallOk; omega)]
  simp only [ZI.mk']
  rw [if_neg (by omega)]

theorem getS_std (alt : AltS D S lo hi) (y t : Int) (hy1 : lo < y) (hy2 : y ≤ hi) (h1 : S y ≤ t) (h2 : t < D y) :
    m.get t = .ok (stdIv m (S y) (D y)) := by
  have a := alt y (by omega) hy2
  have am := alt (y - 1) (by omega) (by omega)
  have e1 : y - 1 + 1 = y := by omega
  rw [e1] at am
  have dm := h.d.mono y (by omega) (by omega)
  have hgt : S (y + 1) > D y := by
    by_cases hq : y < hi
    · exact a.2 hq
    · have : y = hi := by omega
      subst this; rw [h.endS]; rw [h.endD] at dm; exact dm
  have hd := h.d.nextOrFail (y - 1) t (by omega) (by omega) (by have := am.2 (by omega); omega) (by rw [e1]; exact h2)
  rw [e1] at hd
  have hs := h.s.nextOrFail y t (by omega) (by omega) h1 (by omega)
  have hp := h.s.prevOrFail y t (by omega) (by omega) h1 (by omega)
  have hlt : ¬ (S (y + 1) < D y) := by omega
  simp only [AltMap.get, AltMap.nextTransition, hd, hs, bind, Except.bind, hlt, if_false, hgt, if_true, hp, offAdd,
    Bool.false_eq_true, h.stdSavings, Int.add_zero, stdIv]
  rw [if_neg (by have := h.wallOk; omega)]
  simp only [ZI.mk']
  rw [if_neg (by omega)]

theorem getS_dst (alt : AltS D S lo hi) (y t : Int) (hy1 : lo ≤ y) (hy2 : y < hi) (h1 : D y ≤ t) (h2 : t < S (y + 1)) :
    m.get t = .ok (dstIv m (D y) (S (y + 1))) := by
  have a := alt y hy1 (by omega)
  have ap := alt (y + 1) (by omega) (by omega)
  have hd := h.d.nextOrFail y t hy1 (by omega) h1 (by omega)
  have hs := h.s.nextOrFail y t hy1 (by omega) (by omega) h2
  have hp := h.d.prevOrFail y t hy1 (by omega) h1 (by omega)
  have hlt : S (y + 1) < D (y + 1) := ap.1
  simp only [AltMap.get, AltMap.nextTransition, hd, hs, bind, Except.bind, hlt, if_true, hp, offAdd, dstIv]
  rw [if_neg (by have := h.wallOk; omega)]
  simp only [ZI.mk']
  rw [if_neg (by omega)]

theorem getS_last (alt : AltS D S lo hi) (hlh : lo ≤ hi) (t : Int) (h1 : D hi ≤ t) (h2 : t < AMAX) :
    m.get t = .ok (dstIv m (D hi) AMAX) := by
  have a := alt hi hlh (by omega)
  have hd := h.d.nextOrFail hi t hlh (by omega) h1 (by rw [h.endD]; exact h2)
  have hs := h.s.nextOrFail hi t hlh (by omega) (by omega) (by rw [h.endS]; exact h2)
  have hpd := h.d.prevOrFail hi t hlh (by omega) h1 (by rw [h.endD]; exact h2)
  have hps := h.s.prevOrFail hi t hlh (by omega) (by omega) (by rw [h.endS]; exact h2)
  rw [h.endD] at hd; rw [h.endS] at hs
  have c1 : ¬ (AMAX < AMAX) := by omega
  have c2 : ¬ (AMAX > AMAX) := by omega
  have c3 : D hi > S hi := by omega
  simp only [AltMap.get, AltMap.nextTransition, hd, hs, bind, Except.bind, c1, c3, if_false, if_true, isValid_AMAX, hpd, hps,
    Bool.false_eq_true, offAdd, dstIv]
  rw [if_neg (by have := h.wallOk; omega)]
  simp only [ZI.mk']
  rw [if_neg (by omega)]

end

/-! ### from the evaluated check `tailOKE` to the hypotheses -/

theorem ruleOKE_sound (yo : YearOffset) (lo : Int) (h : ruleOKE yo lo = true) : RuleOKE yo (occOf yo) lo := by
  simp only [ruleOKE, Bool.and_eq_true, decide_eq_true_eq] at h
  obtain ⟨⟨⟨h1, h2⟩, h3⟩, h4⟩ := h
  have key : ∀ y, lo ≤ y → y ≤ 9999 → yo.occurrence y = .ok (occOf yo y) ∧ ysNs y ≤ occOf yo y ∧ occOf yo y < ysNs (y + 1) := by
    intro y hy1 hy2
    have := allYears_spec lo 9999 _ h3 y hy1 hy2
    simp only [occOf]
    cases ho : yo.occurrence y with
    | error e => rw [ho] at this; simp at this
    | ok v =>
      rw [ho] at this
      change (decide (ysNsM y ≤ v) && decide (v < ysNsM (y + 1))) = true at this
      rw [Bool.and_eq_true] at this
      refine ⟨rfl, ?_, ?_⟩
      · show ysNs y ≤ v
        exact of_decide_eq_true this.1
      · show v < ysNs (y + 1)
        exact of_decide_eq_true this.2
  exact ⟨⟨h1, h2⟩, fun y a b => (key y a b).1, fun y a b => (key y a b).2, h4⟩

theorem seqE_le (T : Int → Int) (y : Int) (h : y ≤ 9999) : seqE T y = T y := by
  simp only [seqE]; rw [if_pos h]

theorem seqE_end (T : Int → Int) : seqE T (9999 + 1) = AMAX := by
  simp only [seqE]; rw [if_neg (by omega)]

/-- the evaluated per-year check of a tail through year 9999 yields the end-aware alternation hypotheses:
    result 1 = daylight rule first in each year, result 2 = standard rule first -/
theorem tailOKE_sound (m : AltMap) (lo : Int) :
    (tailOKE m lo ≠ 0 → AltSpecE m (seqE (tdOf m)) (seqE (tsOf m)) lo 9999 ∧ lo ≤ 9999) ∧
    (tailOKE m lo = 1 → AltD (seqE (tdOf m)) (seqE (tsOf m)) lo 9999) ∧
    (tailOKE m lo = 2 → AltS (seqE (tdOf m)) (seqE (tsOf m)) lo 9999) := by
  unfold tailOKE
  by_cases hbase : tailBaseE m lo = true
  · simp only [hbase, if_true]
    have hb := hbase
    simp only [tailBaseE, Bool.and_eq_true, decide_eq_true_eq] at hb
    obtain ⟨⟨⟨⟨⟨⟨⟨⟨⟨⟨⟨⟨b1, b2⟩, b3⟩, b4⟩, b5⟩, b6⟩, b7⟩, b8⟩, b9⟩, b10⟩, b11⟩, b12⟩, b13⟩ := hb
    cases hroD : m.dstRec.yo.ruleOffset m.std 0 with
    | error e => rw [hroD] at b10; simp at b10
    | ok roD =>
    cases hroS : m.stdRec.yo.ruleOffset m.std m.dstRec.savings with
    | error e => rw [hroS] at b11; simp at b11
    | ok roS =>
    rw [hroD] at b10; rw [hroS] at b11
    simp only [Bool.and_eq_true, decide_eq_true_eq] at b10 b11
    have okD := ruleOKE_sound _ _ b12
    have rD := recSpec_of_rule_end (r := m.dstRec) (std := m.std) (ps := 0) (ro := roD) ⟨b1, b2⟩ hroD b10
      ⟨b8, b9⟩ okD
    have rS := recSpec_of_rule_end (r := m.stdRec) (std := m.std) (ps := m.dstRec.savings) (ro := roS) ⟨b3, b4⟩ hroS b11
      (by rw [b5]; omega) (ruleOKE_sound _ _ b13)
    have eD : (fun y => occOf m.dstRec.yo y - roD * NPS) = tdOf m := by
      funext y; simp [tdOf, roOf, hroD]
    have eS : (fun y => occOf m.stdRec.yo y - roS * NPS) = tsOf m := by
      funext y; simp [tsOf, roOf, hroS]
    rw [eD] at rD; rw [eS] at rS
    have base : AltSpecE m (seqE (tdOf m)) (seqE (tsOf m)) lo 9999 ∧ lo ≤ 9999 :=
      ⟨⟨rD, rS, seqE_end _, seqE_end _, ⟨b8, b9, b6, b7⟩, b5⟩, okD.range.2⟩
    by_cases ha : altD m lo 9999 = true
    · simp only [ha, if_true]
      refine ⟨fun _ => base, fun _ => ?_, fun h => by omega⟩
      intro y h1 h2
      have := allYears_spec lo 9999 _ ha y h1 h2
      simp only [Bool.and_eq_true, Bool.or_eq_true, decide_eq_true_eq] at this
      rw [seqE_le _ y h2, seqE_le _ y h2]
      refine ⟨this.1, fun hlt => ?_⟩
      rw [seqE_le _ (y + 1) (by omega)]
      rcases this.2 with h | h
      · omega
      · exact h
    · simp only [ha, if_false, Bool.false_eq_true]
      by_cases hs : altS m lo 9999 = true
      · simp only [hs, if_true]
        refine ⟨fun _ => base, fun h => by omega, fun _ => ?_⟩
        intro y h1 h2
        have := allYears_spec lo 9999 _ hs y h1 h2
        simp only [Bool.and_eq_true, Bool.or_eq_true, decide_eq_true_eq] at this
        rw [seqE_le _ y h2, seqE_le _ y h2]
        refine ⟨this.1, fun hlt => ?_⟩
        rw [seqE_le _ (y + 1) (by omega)]
        rcases this.2 with h | h
        · omega
        · exact h
      · simp only [hs, if_false, Bool.false_eq_true]
        exact ⟨fun h => by omega, fun h => by omega, fun h => by omega⟩
  · simp only [hbase, if_false, Bool.false_eq_true]
    exact ⟨fun h => by omega, fun h => by omega, fun h => by omega⟩

/-! ### the tail as one transition sequence -/

theorem tailOKE_cases (m : AltMap) (lo : Int) : tailOKE m lo = 0 ∨ tailOKE m lo = 1 ∨ tailOKE m lo = 2 := by
  unfold tailOKE
  (repeat' split) <;> simp

theorem tailU_1_even (m : AltMap) (y : Int) (hy : y ≤ 9999) : tailU m 1 (2 * y) = seqE (tdOf m) y := by
  have e : 2 * y / 2 = y := by omega
  have e2 : 2 * y % 2 = 0 := by omega
  simp only [tailU, seqE, e, e2]
  rw [if_neg (by omega), if_pos hy]; simp
theorem tailU_1_odd (m : AltMap) (y : Int) (hy : y ≤ 9999) : tailU m 1 (2 * y + 1) = seqE (tsOf m) y := by
  have e : (2 * y + 1) / 2 = y := by omega
  have e2 : ¬ ((2 * y + 1) % 2 = 0) := by omega
  simp only [tailU, seqE, e]
  rw [if_neg (by omega), if_neg e2, if_pos hy]; simp
theorem tailU_1_next (m : AltMap) (y : Int) (hy : y ≤ 9999) : tailU m 1 (2 * y + 1 + 1) = seqE (tdOf m) (y + 1) := by
  by_cases hq : y = 9999
  · subst hq; simp only [tailU, seqE]; rw [if_pos (by omega), if_neg (by omega)]
  · have e : 2 * y + 1 + 1 = 2 * (y + 1) := by omega
    rw [e]; exact tailU_1_even m (y + 1) (by omega)

theorem tailU_2_even (m : AltMap) (y : Int) (hy : y ≤ 9999) : tailU m 2 (2 * y) = seqE (tsOf m) y := by
  have e : 2 * y / 2 = y := by omega
  have e2 : 2 * y % 2 = 0 := by omega
  simp only [tailU, seqE, e, e2]
  rw [if_neg (by omega), if_pos hy]; simp
theorem tailU_2_odd (m : AltMap) (y : Int) (hy : y ≤ 9999) : tailU m 2 (2 * y + 1) = seqE (tdOf m) y := by
  have e : (2 * y + 1) / 2 = y := by omega
  have e2 : ¬ ((2 * y + 1) % 2 = 0) := by omega
  simp only [tailU, seqE, e]
  rw [if_neg (by omega), if_neg e2, if_pos hy]; simp
theorem tailU_2_next (m : AltMap) (y : Int) (hy : y ≤ 9999) : tailU m 2 (2 * y + 1 + 1) = seqE (tsOf m) (y + 1) := by
  by_cases hq : y = 9999
  · subst hq; simp only [tailU, seqE]; rw [if_pos (by omega), if_neg (by omega)]
  · have e : 2 * y + 1 + 1 = 2 * (y + 1) := by omega
    rw [e]; exact tailU_2_even m (y + 1) (by omega)

theorem tailIv_1_even (m : AltMap) (y : Int) :
    tailIv m 1 (2 * y) = dstIv m (tailU m 1 (2 * y)) (tailU m 1 (2 * y + 1)) := by
  have e2 : 2 * y % 2 = 0 := by omega
  simp [tailIv, dstIv, e2]
theorem tailIv_1_odd (m : AltMap) (y : Int) :
    tailIv m 1 (2 * y + 1) = stdIv m (tailU m 1 (2 * y + 1)) (tailU m 1 (2 * y + 1 + 1)) := by
  simp [tailIv, stdIv]
theorem tailIv_2_even (m : AltMap) (y : Int) :
    tailIv m 2 (2 * y) = stdIv m (tailU m 2 (2 * y)) (tailU m 2 (2 * y + 1)) := by
  have e2 : 2 * y % 2 = 0 := by omega
  simp [tailIv, stdIv, e2]
theorem tailIv_2_odd (m : AltMap) (y : Int) :
    tailIv m 2 (2 * y + 1) = dstIv m (tailU m 2 (2 * y + 1)) (tailU m 2 (2 * y + 1 + 1)) := by
  simp [tailIv, dstIv]

/-- **The recurring tail through the end of time** (from the evaluated check): the transitions of the two rules
    form one strictly increasing sequence `tailU` — two per year from year `lo+1` through 9999, closed by the
    end-of-time sentinel — and for every instant between transitions `k` and `k+1` (the last interval runs to
    `AMAX`) the alternating map returns exactly the interval `tailIv k = [tailU k, tailU (k+1))`. -/
theorem tail_seq (m : AltMap) (lo : Int) (hm : tailOKE m lo ≠ 0) :
    SeqSpec m.get (tailU m (tailOKE m lo)) (tailIv m (tailOKE m lo)) (2 * lo + 2) 19999 ∧
    tailU m (tailOKE m lo) (19999 + 1) = AMAX := by
  obtain ⟨hb, hD, hS⟩ := tailOKE_sound m lo
  obtain ⟨base, hlo⟩ := hb hm
  have hend : tailU m (tailOKE m lo) (19999 + 1) = AMAX := by simp only [tailU]; rw [if_pos (by omega)]
  refine ⟨?_, hend⟩
  have par : ∀ k : Int, ∃ y, k = 2 * y ∨ k = 2 * y + 1 := fun k => ⟨k / 2, by omega⟩
  rcases tailOKE_cases m lo with h0 | h1 | h2
  · exact absurd h0 hm
  · -- daylight rule first
    rw [h1]
    have alt := hD h1
    have getk : ∀ k t, 2 * lo + 2 ≤ k → k ≤ 19999 → tailU m 1 k ≤ t → t < tailU m 1 (k + 1) →
        m.get t = .ok (tailIv m 1 k) := by
      intro k t k1 k2 t1 t2
      obtain ⟨y, rfl | rfl⟩ := par k
      · rw [tailIv_1_even]
        rw [tailU_1_even m y (by omega)] at t1 ⊢
        rw [tailU_1_odd m y (by omega)] at t2 ⊢
        exact getD_dst base alt y t (by omega) (by omega) t1 t2
      · rw [tailIv_1_odd]
        rw [tailU_1_odd m y (by omega)] at t1 ⊢
        rw [tailU_1_next m y (by omega)] at t2 ⊢
        by_cases hy : y < 9999
        · exact getD_std base alt y t (by omega) hy t1 t2
        · have : y = 9999 := by omega
          subst this
          rw [seqE_end] at t2 ⊢
          exact getD_last base alt hlo t t1 t2
    refine ⟨?_, getk, ?_, ?_⟩
    · intro k k1 k2
      obtain ⟨y, rfl | rfl⟩ := par k
      · rw [tailU_1_even m y (by omega), tailU_1_odd m y (by omega)]
        exact (alt y (by omega) (by omega)).1
      · rw [tailU_1_odd m y (by omega), tailU_1_next m y (by omega)]
        by_cases hy : y < 9999
        · exact (alt y (by omega) (by omega)).2 hy
        · have : y = 9999 := by omega
          subst this
          have := base.s.mono 9999 hlo (by omega)
          rw [base.endS] at this
          rw [seqE_end]; exact this
    · intro k _ _
      obtain ⟨y, rfl | rfl⟩ := par k
      · rw [tailIv_1_even]; rfl
      · rw [tailIv_1_odd]; rfl
    · intro k _ _
      obtain ⟨y, rfl | rfl⟩ := par k
      · rw [tailIv_1_even]; rfl
      · rw [tailIv_1_odd]; rfl
  · -- standard rule first
    rw [h2]
    have alt := hS h2
    have getk : ∀ k t, 2 * lo + 2 ≤ k → k ≤ 19999 → tailU m 2 k ≤ t → t < tailU m 2 (k + 1) →
        m.get t = .ok (tailIv m 2 k) := by
      intro k t k1 k2 t1 t2
      obtain ⟨y, rfl | rfl⟩ := par k
      · rw [tailIv_2_even]
        rw [tailU_2_even m y (by omega)] at t1 ⊢
        rw [tailU_2_odd m y (by omega)] at t2 ⊢
        exact getS_std base alt y t (by omega) (by omega) t1 t2
      · rw [tailIv_2_odd]
        rw [tailU_2_odd m y (by omega)] at t1 ⊢
        rw [tailU_2_next m y (by omega)] at t2 ⊢
        by_cases hy : y < 9999
        · exact getS_dst base alt y t (by omega) hy t1 t2
        · have : y = 9999 := by omega
          subst this
          rw [seqE_end] at t2 ⊢
          exact getS_last base alt hlo t t1 t2
    refine ⟨?_, getk, ?_, ?_⟩
    · intro k k1 k2
      obtain ⟨y, rfl | rfl⟩ := par k
      · rw [tailU_2_even m y (by omega), tailU_2_odd m y (by omega)]
        exact (alt y (by omega) (by omega)).1
      · rw [tailU_2_odd m y (by omega), tailU_2_next m y (by omega)]
        by_cases hy : y < 9999
        · exact (alt y (by omega) (by omega)).2 hy
        · have : y = 9999 := by omega
          subst this
          have := base.d.mono 9999 hlo (by omega)
          rw [base.endD] at this
          rw [seqE_end]; exact this
    · intro k _ _
      obtain ⟨y, rfl | rfl⟩ := par k
      · rw [tailIv_2_even]; rfl
      · rw [tailIv_2_odd]; rfl
    · intro k _ _
      obtain ⟨y, rfl | rfl⟩ := par k
      · rw [tailIv_2_even]; rfl
      · rw [tailIv_2_odd]; rfl

/-- **Tail partition up to the end of time**: every instant (valid or not, below the sentinel) at or after the
    first covered transition lies in exactly the interval the map returns for it — the interval between the two
    surrounding transitions, the last one ending at `AMAX` —, the map is constant on that interval, and the
    interval found at its end starts exactly there. -/
theorem tail_partition_end (m : AltMap) (lo : Int) (hm : tailOKE m lo ≠ 0) (hlo : lo < 9999) (t : Int)
    (h1 : tailU m (tailOKE m lo) (2 * lo + 2) ≤ t) (h2 : t < AMAX) :
    ∃ z, m.get t = .ok z ∧ z.s ≤ t ∧ t < z.e ∧ (∀ u, z.s ≤ u → u < z.e → m.get u = .ok z) ∧
      (z.e < AMAX → ∃ z', m.get z.e = .ok z' ∧ z'.s = z.e) := by
  obtain ⟨sq, hend⟩ := tail_seq m lo hm
  have := sq.partition t (by omega) h1 (by rw [hend]; exact h2)
  rw [hend] at this
  exact this

/-! ### side facts of the tail sequence: valid transitions, bounded offsets, minimum length -/

theorem RuleOKE.occ_bounds {yo : YearOffset} {occ : Int → Int} {lo : Int} (h : RuleOKE yo occ lo) (y : Int)
    (h1 : lo ≤ y) (h2 : y ≤ 9999) : MINI + 2 * NPD ≤ occ y ∧ occ y + 2 * NPD ≤ MAXI + 1 := by
  have hlo := h.range.1
  have h10 := ysNs_10000
  have a := h.inYear y h1 h2
  have b := ysNs_inside y (by omega) h2
  by_cases hy : y = 9999
  · subst hy; have := h.last; simp only [NPD] at *; omega
  · have c := ysNs_inside (y + 1) (by omega) (by omega)
    simp only [NPD] at *; omega

/-- every transition of the tail sequence through year 9999 is a valid instant -/
theorem tail_valid (m : AltMap) (lo : Int) (hm : tailOKE m lo ≠ 0) (k : Int) (k1 : 2 * lo ≤ k) (k2 : k ≤ 19999) :
    MINI ≤ tailU m (tailOKE m lo) k ∧ tailU m (tailOKE m lo) k ≤ MAXI := by
  have hbase : tailBaseE m lo = true := by
    unfold tailOKE at hm
    by_cases hb : tailBaseE m lo = true
    · exact hb
    · simp [hb] at hm
  simp only [tailBaseE, Bool.and_eq_true, decide_eq_true_eq] at hbase
  obtain ⟨⟨⟨⟨⟨⟨⟨⟨⟨⟨⟨⟨b1, b2⟩, b3⟩, b4⟩, b5⟩, b6⟩, b7⟩, b8⟩, b9⟩, b10⟩, b11⟩, b12⟩, b13⟩ := hbase
  have okD := ruleOKE_sound _ _ b12
  have okS := ruleOKE_sound _ _ b13
  have rD : -64800 ≤ roOf m.dstRec.yo m.std 0 ∧ roOf m.dstRec.yo m.std 0 ≤ 64800 := by
    unfold roOf
    cases hro : m.dstRec.yo.ruleOffset m.std 0 with
    | error e => rw [hro] at b10; simp at b10
    | ok v => rw [hro] at b10; simpa using b10
  have rS : -64800 ≤ roOf m.stdRec.yo m.std m.dstRec.savings ∧ roOf m.stdRec.yo m.std m.dstRec.savings ≤ 64800 := by
    unfold roOf
    cases hro : m.stdRec.yo.ruleOffset m.std m.dstRec.savings with
    | error e => rw [hro] at b11; simp at b11
    | ok v => rw [hro] at b11; simpa using b11
  have vd : ∀ y, lo ≤ y → y ≤ 9999 → MINI ≤ tdOf m y ∧ tdOf m y ≤ MAXI := by
    intro y y1 y2
    have := okD.occ_bounds y y1 y2
    simp only [tdOf, MINI, MAXI, MIN_DAYS, MAX_DAYS, NPD, NPS] at *; omega
  have vs : ∀ y, lo ≤ y → y ≤ 9999 → MINI ≤ tsOf m y ∧ tsOf m y ≤ MAXI := by
    intro y y1 y2
    have := okS.occ_bounds y y1 y2
    simp only [tsOf, MINI, MAXI, MIN_DAYS, MAX_DAYS, NPD, NPS] at *; omega
  have hd := vd (k / 2) (by omega) (by omega)
  have hs := vs (k / 2) (by omega) (by omega)
  simp only [tailU]
  rw [if_neg (by omega)]
  (repeat' split) <;> assumption

/-- wall offsets of the tail intervals are within ±18 h -/
theorem tail_walls (m : AltMap) (lo : Int) (hm : tailOKE m lo ≠ 0) (mode : Nat) (k : Int) :
    -64800 ≤ (tailIv m mode k).wall ∧ (tailIv m mode k).wall ≤ 64800 := by
  have w := ((tailOKE_sound m lo).1 hm).1.wallOk
  simp only [tailIv]
  split <;> (simp only []; omega)

/-- the evaluated minimum-length check: consecutive transitions through the last one of 9999 are ≥ 36 h apart -/
theorem tailLen_sound (m : AltMap) (lo : Int) (mode : Nat) (h : tailLenOK m lo mode = true) (k : Int)
    (k1 : 2 * lo ≤ k) (k2 : k < 19999) : tailU m mode k + G36 ≤ tailU m mode (k + 1) := by
  have := allYears_spec lo 9999 _ h (k / 2) (by omega) (by omega)
  simp only [Bool.and_eq_true, Bool.or_eq_true, decide_eq_true_eq] at this
  obtain ⟨a, b⟩ := this
  by_cases he : k % 2 = 0
  · have e : 2 * (k / 2) = k := by omega
    rw [e] at a; exact a
  · have e : 2 * (k / 2) + 1 = k := by omega
    have e2 : 2 * (k / 2) + 2 = k + 1 := by omega
    rw [e, e2] at b
    rcases b with b | b
    · omega
    · exact b

/-! ### non-vacuity: the rules of America/New_York and of Australia/Sydney pass the check on the last years -/

def nyTail : AltMap :=
  ⟨-18000, ⟨"EST", 0, ⟨1, 11, 1, 7, true, 7200000000000, false⟩, INT_MIN, INT_MAX⟩,
           ⟨"EDT", 3600, ⟨1, 3, 8, 7, true, 7200000000000, false⟩, INT_MIN, INT_MAX⟩⟩
def sydneyTail : AltMap :=
  ⟨36000, ⟨"AEST", 0, ⟨2, 4, 1, 7, true, 7200000000000, false⟩, INT_MIN, INT_MAX⟩,
          ⟨"AEDT", 3600, ⟨2, 10, 1, 7, true, 7200000000000, false⟩, INT_MIN, INT_MAX⟩⟩

example : tailOKE nyTail 9995 = 1 := by decide +kernel
example : tailOKE sydneyTail 9995 = 2 := by decide +kernel
/-- the last interval of New York: standard time from the first Sunday of November 9999 to the end of time -/
example : nyTail.get MAXI = .ok (tailIv nyTail 1 19999) ∧ (tailIv nyTail 1 19999).e = AMAX := by decide +kernel
/-- Sydney stays on daylight time from October 9999 to the end of time -/
example : sydneyTail.get MAXI = .ok (tailIv sydneyTail 2 19999) ∧ (tailIv sydneyTail 2 19999).savings = 3600 := by
  decide +kernel

end Pyoda.C04
