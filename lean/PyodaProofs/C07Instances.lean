/-
  C07 (generic engine) — the built-in ISO date pattern and the long Offset pattern as instances of the generic
  `pattern_roundtrip` (the ISO time pattern is in C07Stepped): the straight-line ISO theorems of C07/C07b are
  re-obtained from the step-language theorem.
-/
import PyodaProofs.C07Stepped
import PyodaProofs.C07b

namespace Pyoda.C07
open Pyoda Pyoda.Text

/-- LocalDatePattern.iso through the generic theorem: every valid ISO date -/
theorem isoDate_generic_roundtrip (y m d : Int) (hv : validDate y m d) :
    parseCompiled .date ⟨invariantCulture, 5248, isoDateSteps⟩ (outSteps invariantCulture 5248 (dateGetter y m d) isoDateSteps) = .ok (some [y, m, d]) := by
  have hv' := hv
  obtain ⟨h1, h2, h3, h4, h5, h6⟩ := hv
  have hb := daysInMonth_bounds y m
  unfold ISO_MIN_YEAR ISO_MAX_YEAR at *
  have hval : ∀ s ∈ isoDateSteps, ValOK (dateGetter y m d) s := by
    intro s hs
    simp only [isoDateSteps, List.mem_cons, List.mem_nil_iff, or_false] at hs
    rcases hs with rfl | rfl | rfl | rfl | rfl
    · exact ⟨by simp only [dateGetter]; omega, by simp only [dateGetter]; omega, by decide, by decide, by decide,
        by simp only [dateGetter]; omega⟩
    · trivial
    · exact ⟨by simp only [dateGetter]; omega, by simp only [dateGetter]; omega, by decide, by decide, by decide,
        by simp only [dateGetter]; omega⟩
    · trivial
    · exact ⟨by simp only [dateGetter]; omega, by simp only [dateGetter]; omega, by decide, by decide, by decide,
        by simp only [dateGetter]; omega⟩
  have hr : Representable .date ⟨invariantCulture, 5248, isoDateSteps⟩ (dateGetter y m d) [y, m, d] := by
    unfold Representable bucketValue
    have hu : (5248 : Nat) = (F.year ||| F.monthNum ||| F.dayOfMonth) := by decide
    simp only [dateValue, dateValueT, hu, if_true, isoDateSteps, setSteps, setStep, Bucket.set, dateGetter]
    simp (config := { decide := true }) only [if_false, isoDateValue_valid y m d hv', Option.map]
  have hne : outSteps invariantCulture 5248 (dateGetter y m d) isoDateSteps ≠ [] := by
    simp only [isoDateSteps, outSteps, outStep]
    obtain ⟨_, _, hne⟩ := numOut_last 4 (dateGetter y m d .year)
    intro h
    exact hne (List.append_eq_nil_iff.mp h).1
  exact (pattern_roundtrip .date ⟨invariantCulture, 5248, isoDateSteps⟩ (dateGetter y m d) [y, m, d] isoDate_delimited hval hr hne).2

/-- the long Offset pattern `+HH:mm:ss` through the generic theorem: every offset within ±18 h -/
theorem offsetLong_generic_roundtrip (s : Int) (h0 : -64800 ≤ s) (h1 : s ≤ 64800) :
    parseCompiled .offset ⟨invariantCulture, 29, offsetLongSteps⟩ (outSteps invariantCulture 29 (offsetGetter s) offsetLongSteps) = .ok (some [s]) := by
  obtain ⟨eh, em, es⟩ := off_accessors s h0 h1
  have hA : (s.natAbs : Int) ≤ 64800 := by omega
  have hsign : offsetGetter s .sign = (if s < 0 then 1 else 0) := by
    show (if offMillis s ≥ 0 then (0 : Int) else 1) = _
    unfold offMillis
    by_cases hs : s < 0
    · rw [if_pos hs, if_neg (by omega)]
    · rw [if_neg hs, if_pos (by omega)]
  have hval : ∀ t ∈ offsetLongSteps, ValOK (offsetGetter s) t := by
    intro t ht
    simp only [offsetLongSteps, List.mem_cons, List.mem_nil_iff, or_false] at ht
    rcases ht with rfl | rfl | rfl | rfl | rfl | rfl
    · show offsetGetter s .sign = 0 ∨ offsetGetter s .sign = 1
      rw [hsign]; split <;> simp
    · exact ⟨by simp only [offsetGetter]; omega, by simp only [offsetGetter]; omega, by decide, by decide, by decide,
        by simp only [offsetGetter]; omega⟩
    · trivial
    · exact ⟨by simp only [offsetGetter]; omega, by simp only [offsetGetter]; omega, by decide, by decide, by decide,
        by simp only [offsetGetter]; omega⟩
    · trivial
    · exact ⟨by simp only [offsetGetter]; omega, by simp only [offsetGetter]; omega, by decide, by decide, by decide,
        by simp only [offsetGetter]; omega⟩
  have hr : Representable .offset ⟨invariantCulture, 29, offsetLongSteps⟩ (offsetGetter s) [s] := by
    unfold Representable bucketValue offsetBucketValue
    simp only [offsetLongSteps, setSteps, setStep, Bucket.set]
    simp (config := { decide := true }) only [if_true, if_false]
    have hv : offsetValue (decide (offsetGetter s .sign = 1)) (offsetGetter s .hours24) (offsetGetter s .minutes)
        (offsetGetter s .seconds) = .ok (some s) := by
      apply offsetValue_ok _ _ _ _ _ h0 h1
      rw [hsign]
      simp only [offsetGetter, eh, em, es]
      by_cases hs : s < 0
      · simp only [hs, if_true, decide_true]; omega
      · have : ¬ ((0 : Int) = 1) := by decide
        simp only [hs, if_false, this, decide_false, Bool.false_eq_true]; omega
    rw [hv]; rfl
  have hne : outSteps invariantCulture 29 (offsetGetter s) offsetLongSteps ≠ [] := by
    simp [offsetLongSteps, outSteps, outStep]
  exact (pattern_roundtrip .offset ⟨invariantCulture, 29, offsetLongSteps⟩ (offsetGetter s) [s] offsetLong_delimited hval hr hne).2

end Pyoda.C07
