/-
  C11 — offset and zoned date-times keep instant, local time, offset and calendar in step.
  `instVal i` is the number of nanoseconds since the epoch an Instant denotes, `localVal x` the local
  date-time of an OffsetDateTime on the same scale (day number × NPD + nanosecond of day), `instantVal x`
  = local − offset.  `WF x`: nanosecond-of-day normalised, offset within ±18 h, day inside the calendar's
  range, the calendar's range inside the Duration day range (true of all 19 calendars; harness rule).
-/
import PyodaModel.OffsetTypes
import PyodaProofs.Basic
import PyodaProofs.C03
import PyodaProofs.C11Lemmas

namespace Pyoda.C11
open Pyoda Pyoda.C03

local macro "unfold_consts" : tactic =>
  `(tactic| simp only [NPD, NPH, NPMin, NPS, NPMs, NPUs, NPT, TPD, TPS, TPH, SPD,
      Duration.MIN_DAYS, Duration.MAX_DAYS, Instant.MIN_DAYS, Instant.MAX_DAYS,
      OffsetTime.NANO_BITS_POW, Offset.MIN_S, Offset.MAX_S] at *)

/-- The packed representation of OffsetTime is lossless: nanosecond-of-day (47 bits) and offset seconds
    are recovered exactly, for every offset (also negative ones). -/
theorem offsetTime_pack_unpack (n o : Int) (h0 : 0 ≤ n) (h1 : n < OffsetTime.NANO_BITS_POW) :
    (OffsetTime.ofParts n o).nanosecondOfDay = n ∧ (OffsetTime.ofParts n o).offsetSeconds = o := by
  simp only [OffsetTime.ofParts, OffsetTime.nanosecondOfDay, OffsetTime.offsetSeconds, shr47]
  unfold_consts
  omega

/-- … and conversely every packed value is the packing of its two parts. -/
theorem offsetTime_unpack_pack (t : OffsetTime) :
    OffsetTime.ofParts t.nanosecondOfDay t.offsetSeconds = t := by
  obtain ⟨p⟩ := t
  simp only [OffsetTime.ofParts, OffsetTime.nanosecondOfDay, OffsetTime.offsetSeconds, shr47, OffsetTime.mk.injEq]
  unfold_consts
  omega

/-! ### instant = local − offset -/

/-- Instant equals local minus offset (`toInstant_eq_local_minus_offset`), and `to_instant()` raises
    exactly when that value is outside the Instant range. -/
theorem toInstant_eq_local_minus_offset (x : OffsetDateTime) (hx : WF x) :
    (∀ i, x.toInstant = .ok i → Norm i.dur ∧ IValid i ∧ instVal i = localVal x - x.offsetSeconds * NPS) ∧
    ((∃ e, x.toInstant = .error e) ↔ ¬ InstNsInRange (localVal x - x.offsetSeconds * NPS)) := by
  refine ⟨fun i h => toInstant_ok x hx i h, ?_, ?_⟩
  · rintro ⟨e, h⟩; exact toInstant_err x hx e h
  · intro hr
    cases h : x.toInstant with
    | error e => exact ⟨e, rfl⟩
    | ok i =>
      exfalso; apply hr
      obtain ⟨hn, hv, he⟩ := toInstant_ok x hx i h
      simp only [instantVal] at he
      simp only [InstNsInRange, ← he, instVal, Norm, IValid] at *
      unfold_consts; omega

/-! ### local = instant + offset -/

/-- **Local date-time equals instant plus offset**, in every calendar: the value built from an instant and
    an offset shows exactly `instant + offset` as its local date-time, normalised, with that offset and calendar. -/
theorem local_eq_instant_plus_offset (i : Instant) (o : Offset) (c : Cal) (x : OffsetDateTime) (hi : Norm i.dur)
    (ho : OffOK o.seconds) (h : OffsetDateTime.ofInstant i o c = .ok x) :
    localVal x = instVal i + o.seconds * NPS ∧ (0 ≤ x.nanosecondOfDay ∧ x.nanosecondOfDay < NPD) ∧
      x.offsetSeconds = o.seconds ∧ x.calendar = c ∧ (c.minDays ≤ x.date.days ∧ x.date.days ≤ c.maxDays) :=
  ofInstant_ok i o c x hi ho h

/-- … and the construction fails exactly when the local day `(instant + offset) / NPD` is outside the calendar. -/
theorem ofInstant_raises_iff (i : Instant) (o : Offset) (c : Cal) (hi : Norm i.dur) (ho : OffOK o.seconds) :
    (∃ e, OffsetDateTime.ofInstant i o c = .error e) ↔
      ¬ (c.minDays ≤ (instVal i + o.seconds * NPS) / NPD ∧ (instVal i + o.seconds * NPS) / NPD ≤ c.maxDays) := by
  constructor
  · rintro ⟨e, h⟩
    simp only [OffsetDateTime.ofInstant, Date.ofDays, checkRange, Offset.nanoseconds, bind, Except.bind, OffOK, Norm,
      instVal] at *
    unfold_consts
    grind
  · intro hr
    cases h : OffsetDateTime.ofInstant i o c with
    | error e => exact ⟨e, rfl⟩
    | ok x =>
      exfalso; apply hr
      obtain ⟨h1, h2, _, _, h5⟩ := ofInstant_ok i o c x hi ho h
      simp only [localVal, instVal] at *
      unfold_consts
      omega

/-- **Instant equals local minus offset**: reading back the instant of a value built from an instant gives it back. -/
theorem toInstant_ofInstant (i : Instant) (o : Offset) (c : Cal) (x : OffsetDateTime) (hi : Norm i.dur) (hv : IValid i)
    (ho : OffOK o.seconds) (hc : CalOK c) (h : OffsetDateTime.ofInstant i o c = .ok x) : x.toInstant = .ok i := by
  have hw := wf_ofInstant i o c x hi ho hc h
  obtain ⟨h1, _, h3, _, _⟩ := ofInstant_ok i o c x hi ho h
  rw [toInstant_eq_ok_iff x hw]
  refine ⟨hi, hv, ?_⟩
  simp only [instantVal, h1, h3]; omega

/-! ### changing offset, calendar, date, time -/

/-- **Changing the offset never changes the instant** (up to two day carries in either direction); the new
    offset is the requested one and the calendar is kept. -/
theorem withOffset_same_instant (x : OffsetDateTime) (o : Offset) (y : OffsetDateTime) (hx : WF x) (ho : OffOK o.seconds)
    (h : x.withOffset o = .ok y) :
    (∀ i, y.toInstant = .ok i ↔ x.toInstant = .ok i) ∧ localVal y - o.seconds * NPS = localVal x - x.offsetSeconds * NPS ∧
      y.offsetSeconds = o.seconds ∧ y.calendar = x.calendar ∧ (0 ≤ y.nanosecondOfDay ∧ y.nanosecondOfDay < NPD) := by
  obtain ⟨hw, hi, hs, hc⟩ := withOffset_ok x o y hx ho h
  refine ⟨fun i => ?_, ?_, hs, hc, hw.nod⟩
  · rw [toInstant_eq_ok_iff y hw, toInstant_eq_ok_iff x hx, hi]
  · simp only [instantVal, hs] at hi; exact hi

/-- `with_offset` fails exactly when the re-expressed local day leaves the calendar's range. -/
theorem withOffset_raises_iff (x : OffsetDateTime) (o : Offset) (hx : WF x) (ho : OffOK o.seconds) :
    (∃ e, x.withOffset o = .error e) ↔
      ¬ (x.date.cal.minDays ≤ (instantVal x + o.seconds * NPS) / NPD ∧ (instantVal x + o.seconds * NPS) / NPD ≤ x.date.cal.maxDays) := by
  constructor
  · rintro ⟨e, h⟩
    obtain ⟨hn, hf, hd, hc⟩ := hx
    simp only [OffsetDateTime.withOffset, Date.plusDays, Offset.nanoseconds, OffsetTime.offsetNanoseconds, bind, Except.bind,
      OffOK, instantVal, localVal, OffsetDateTime.nanosecondOfDay, OffsetDateTime.offsetSeconds,
      OffsetTime.nanosecondOfDay, OffsetTime.offsetSeconds, shr47] at *
    unfold_consts
    grind
  · intro hr
    cases h : x.withOffset o with
    | error e => exact ⟨e, rfl⟩
    | ok y =>
      exfalso; apply hr
      obtain ⟨hw, hi, hs, hc⟩ := withOffset_ok x o y hx ho h
      have h1 := hw.nod
      have h2 := hw.inCal
      simp only [OffsetDateTime.calendar] at hc
      rw [hc] at h2
      rw [← hi]
      simp only [instantVal, localVal, hs] at *
      unfold_consts
      omega

/-- **Changing the calendar never changes the instant nor the physical day**; time and offset are untouched. -/
theorem withCalendar_same_instant_same_day (x : OffsetDateTime) (c : Cal) (y : OffsetDateTime)
    (h : x.withCalendar c = .ok y) :
    y.date.days = x.date.days ∧ y.ot = x.ot ∧ y.calendar = c ∧ y.toInstant = x.toInstant ∧
      (c.minDays ≤ x.date.days ∧ x.date.days ≤ c.maxDays) := by
  simp only [OffsetDateTime.withCalendar, Date.withCalendar, Date.ofDays, checkRange, bind, Except.bind] at h
  by_cases hr : x.date.days < c.minDays ∨ x.date.days > c.maxDays
  · simp only [hr, if_true] at h; cases h
  · simp only [hr, if_false, Except.ok.injEq] at h; subst h
    exact ⟨rfl, rfl, rfl, rfl, by omega⟩

theorem withCalendar_raises_iff (x : OffsetDateTime) (c : Cal) :
    (∃ e, x.withCalendar c = .error e) ↔ ¬ (c.minDays ≤ x.date.days ∧ x.date.days ≤ c.maxDays) := by
  simp only [OffsetDateTime.withCalendar, Date.withCalendar, Date.ofDays, checkRange, bind, Except.bind]
  by_cases hr : x.date.days < c.minDays ∨ x.date.days > c.maxDays
  · simp only [hr, if_true]; constructor
    · intro _; omega
    · intro _; exact ⟨_, rfl⟩
  · simp only [hr, if_false]; constructor
    · rintro ⟨e, h⟩; cases h
    · intro h; omega

/-- **Changing only the date keeps time of day and offset.** -/
theorem with_date_keeps_time_offset (x : OffsetDateTime) (d : Date) :
    (x.withDate d).date = d ∧ (x.withDate d).nanosecondOfDay = x.nanosecondOfDay ∧
      (x.withDate d).offsetSeconds = x.offsetSeconds := ⟨rfl, rfl, rfl⟩

/-- **Changing only the time keeps date (and calendar) and offset.** -/
theorem with_time_keeps_date_offset (x : OffsetDateTime) (n : Int) (h0 : 0 ≤ n) (h1 : n < NPD) :
    (x.withTime n).date = x.date ∧ (x.withTime n).nanosecondOfDay = n ∧ (x.withTime n).offsetSeconds = x.offsetSeconds := by
  have := offsetTime_pack_unpack n x.ot.offsetSeconds h0 (by unfold_consts; omega)
  exact ⟨rfl, this.1, this.2⟩

/-! ### arithmetic with durations -/

theorem plus_aux (x : OffsetDateTime) (j : Instant) (y : OffsetDateTime) (hx : WF x)
    (hj : Norm j.dur ∧ IValid j) (h : OffsetDateTime.ofInstant j ⟨x.offsetSeconds⟩ x.calendar = .ok y) :
    WF y ∧ y.toInstant = .ok j ∧ y.offsetSeconds = x.offsetSeconds ∧ y.calendar = x.calendar := by
  have hw := wf_ofInstant j _ _ y hj.1 hx.off hx.calOK h
  have ht := toInstant_ofInstant j _ _ y hj.1 hj.2 hx.off hx.calOK h
  obtain ⟨_, _, h3, h4, _⟩ := ofInstant_ok j _ _ y hj.1 hx.off h
  exact ⟨hw, ht, h3, h4⟩

/-- **Adding a duration moves the instant by exactly that duration and retains offset and calendar.** -/
theorem plus_duration_exact (x : OffsetDateTime) (d : Duration) (y : OffsetDateTime) (hx : WF x) (hd : Norm d)
    (h : x.plus d = .ok y) :
    ∃ i j, x.toInstant = .ok i ∧ y.toInstant = .ok j ∧ instVal j = instVal i + val d ∧
      y.offsetSeconds = x.offsetSeconds ∧ y.calendar = x.calendar ∧ WF y := by
  simp only [OffsetDateTime.plus, bind, Except.bind] at h
  cases hi : x.toInstant with
  | error e => rw [hi] at h; cases h
  | ok i =>
    rw [hi] at h; simp only at h
    cases hj : Instant.plus i d with
    | error e => rw [hj] at h; cases h
    | ok j =>
      rw [hj, offset_of_wf x hx] at h; simp only at h
      obtain ⟨hin, _, _⟩ := toInstant_ok x hx i hi
      obtain ⟨hjn, hjv, hje⟩ := instant_plus_exact i d j hin hd hj
      obtain ⟨hw, ht, ho, hc⟩ := plus_aux x j y hx ⟨hjn, hjv⟩ h
      exact ⟨i, j, rfl, ht, by simpa only [instVal, val] using hje, ho, hc, hw⟩

/-- **Subtracting a duration** likewise. -/
theorem minus_duration_exact (x : OffsetDateTime) (d : Duration) (y : OffsetDateTime) (hx : WF x) (hd : Norm d)
    (h : x.minusDur d = .ok y) :
    ∃ i j, x.toInstant = .ok i ∧ y.toInstant = .ok j ∧ instVal j = instVal i - val d ∧
      y.offsetSeconds = x.offsetSeconds ∧ y.calendar = x.calendar ∧ WF y := by
  simp only [OffsetDateTime.minusDur, bind, Except.bind] at h
  cases hi : x.toInstant with
  | error e => rw [hi] at h; cases h
  | ok i =>
    rw [hi] at h; simp only at h
    cases hj : Instant.minusDur i d with
    | error e => rw [hj] at h; cases h
    | ok j =>
      rw [hj, offset_of_wf x hx] at h; simp only at h
      obtain ⟨hin, _, _⟩ := toInstant_ok x hx i hi
      have hj' := hj
      simp only [Instant.minusDur, bind, Except.bind] at hj'
      cases hs : Duration.sub i.dur d with
      | error e => rw [hs] at hj'; cases hj'
      | ok s =>
        rw [hs] at hj'; simp only [Instant.fromUntrusted] at hj'
        obtain ⟨hsn, _, hse⟩ := sub_exact i.dur d s hin hd hs
        split at hj'
        · cases hj'
        · rename_i hr
          simp only [Except.ok.injEq] at hj'; subst hj'
          have hjv : IValid (⟨s⟩ : Instant) := by simp only [IValid]; omega
          obtain ⟨hw, ht, ho, hc⟩ := plus_aux x ⟨s⟩ y hx ⟨hsn, hjv⟩ h
          exact ⟨i, ⟨s⟩, rfl, ht, by simpa only [instVal, val] using hse, ho, hc, hw⟩

/-- **Subtracting two offset date-times gives the elapsed time between their instants**, whatever their
    offsets and calendars. -/
theorem sub_is_elapsed (a b : OffsetDateTime) (d : Duration) (ha : WF a) (hb : WF b) (h : a.minus b = .ok d) :
    Norm d ∧ val d = (localVal a - a.offsetSeconds * NPS) - (localVal b - b.offsetSeconds * NPS) := by
  simp only [OffsetDateTime.minus, bind, Except.bind] at h
  cases hi : a.toInstant with
  | error e => rw [hi] at h; cases h
  | ok i =>
    cases hj : b.toInstant with
    | error e => rw [hi, hj] at h; cases h
    | ok j =>
      rw [hi, hj] at h; simp only at h
      obtain ⟨hin, _, hie⟩ := toInstant_ok a ha i hi
      obtain ⟨hjn, _, hje⟩ := toInstant_ok b hb j hj
      obtain ⟨hn, he⟩ := instant_minus_exact i j d hin hjn h
      refine ⟨hn, ?_⟩
      simp only [instantVal, instVal] at hie hje
      simp only [val] at he ⊢
      omega

/-! ### zoned values -/

theorem zoned_ofInstant_ok (z : Zone) (hz : ZoneOK z) (i : Instant) (c : Cal) (y : ZonedDateTime) (hi : Norm i.dur)
    (hv : IValid i) (hc : CalOK c) (h : ZonedDateTime.ofInstant z i c = .ok y) :
    ∃ o, z i = .ok o ∧ y.odt.toInstant = .ok i ∧ y.odt.offsetSeconds = o.seconds ∧ y.odt.calendar = c ∧ WF y.odt ∧
      localVal y.odt = instVal i + o.seconds * NPS := by
  simp only [ZonedDateTime.ofInstant, bind, Except.bind] at h
  cases ho : z i with
  | error e => rw [ho] at h; cases h
  | ok o =>
    rw [ho] at h; simp only at h
    cases hx : OffsetDateTime.ofInstant i o c with
    | error e => rw [hx] at h; cases h
    | ok x =>
      rw [hx] at h; simp only [Except.ok.injEq] at h; subst h
      have hok := hz i o ho
      obtain ⟨h1, _, h3, h4, _⟩ := ofInstant_ok i o c x hi hok hx
      exact ⟨o, rfl, toInstant_ofInstant i o c x hi hv hok hc hx, h3, h4, wf_ofInstant i o c x hi hok hc hx, h1⟩

/-- **Adding a duration to a zoned value** moves the instant by exactly the duration, keeps zone and
    calendar, and re-derives the offset from the zone at the new instant. -/
theorem zoned_plus_duration (z : Zone) (hz : ZoneOK z) (x : ZonedDateTime) (d : Duration) (y : ZonedDateTime)
    (hx : WF x.odt) (hd : Norm d) (h : ZonedDateTime.plus z x d = .ok y) :
    ∃ i j o, x.toInstant = .ok i ∧ y.toInstant = .ok j ∧ instVal j = instVal i + val d ∧ z j = .ok o ∧
      y.odt.offsetSeconds = o.seconds ∧ y.odt.calendar = x.odt.calendar ∧ localVal y.odt = instVal j + o.seconds * NPS := by
  simp only [ZonedDateTime.plus, ZonedDateTime.toInstant, bind, Except.bind] at h
  cases hi : x.odt.toInstant with
  | error e => rw [hi] at h; cases h
  | ok i =>
    rw [hi] at h; simp only at h
    cases hj : Instant.plus i d with
    | error e => rw [hj] at h; cases h
    | ok j =>
      rw [hj] at h; simp only at h
      obtain ⟨hin, _, _⟩ := toInstant_ok x.odt hx i hi
      obtain ⟨hjn, hjv, hje⟩ := instant_plus_exact i d j hin hd hj
      obtain ⟨o, ho, ht, hs, hc, _, hl⟩ := zoned_ofInstant_ok z hz j x.odt.calendar y hjn hjv hx.calOK h
      exact ⟨i, j, o, hi, ht, by simpa only [instVal, val] using hje, ho, hs, hc, hl⟩

/-- **Changing the zone keeps the instant and the calendar**; the offset is the new zone's at that instant. -/
theorem zoned_withZone_same_instant (z2 : Zone) (hz : ZoneOK z2) (x : ZonedDateTime) (y : ZonedDateTime)
    (hx : WF x.odt) (h : ZonedDateTime.withZone z2 x = .ok y) :
    ∃ i o, x.toInstant = .ok i ∧ y.toInstant = .ok i ∧ z2 i = .ok o ∧ y.odt.offsetSeconds = o.seconds ∧
      y.odt.calendar = x.odt.calendar := by
  simp only [ZonedDateTime.withZone, ZonedDateTime.toInstant, bind, Except.bind] at h
  cases hi : x.odt.toInstant with
  | error e => rw [hi] at h; cases h
  | ok i =>
    rw [hi] at h; simp only at h
    obtain ⟨hin, hiv, _⟩ := toInstant_ok x.odt hx i hi
    obtain ⟨o, ho, ht, hs, hc, _, _⟩ := zoned_ofInstant_ok z2 hz i x.odt.calendar y hin hiv hx.calOK h
    exact ⟨i, o, hi, ht, ho, hs, hc⟩

/-- **Changing the calendar of a zoned value keeps the instant** (and the zone's offset at it). -/
theorem zoned_withCalendar_same_instant (z : Zone) (hz : ZoneOK z) (x : ZonedDateTime) (c : Cal) (y : ZonedDateTime)
    (hx : WF x.odt) (hc : CalOK c) (h : ZonedDateTime.withCalendar z x c = .ok y) :
    ∃ i o, x.toInstant = .ok i ∧ y.toInstant = .ok i ∧ z i = .ok o ∧ y.odt.offsetSeconds = o.seconds ∧ y.odt.calendar = c := by
  simp only [ZonedDateTime.withCalendar, ZonedDateTime.toInstant, bind, Except.bind] at h
  cases hi : x.odt.toInstant with
  | error e => rw [hi] at h; cases h
  | ok i =>
    rw [hi] at h; simp only at h
    obtain ⟨hin, hiv, _⟩ := toInstant_ok x.odt hx i hi
    obtain ⟨o, ho, ht, hs, hcc, _, _⟩ := zoned_ofInstant_ok z hz i c y hin hiv hc h
    exact ⟨i, o, hi, ht, ho, hs, hcc⟩

/-- The checked constructor `ZonedDateTime(local_date_time, zone, offset)` accepts exactly the offset the zone
    has at the instant `local − offset`, and then stores the local value and offset unchanged. -/
theorem zoned_ofLocal_checks_offset (z : Zone) (d : Date) (nod : Int) (o : Offset) (y : ZonedDateTime)
    (h : ZonedDateTime.ofLocal z d nod o = .ok y) :
    y.odt = OffsetDateTime.ofLocal d nod o ∧
      ∃ l i c, LocalInstant.ofDuration ⟨d.days, nod⟩ = .ok l ∧ LocalInstant.minus l o = .ok i ∧ z i = .ok c ∧
        c.seconds = o.seconds := by
  simp only [ZonedDateTime.ofLocal, bind, Except.bind] at h
  cases hl : LocalInstant.ofDuration ⟨d.days, nod⟩ with
  | error e => rw [hl] at h; cases h
  | ok l =>
    rw [hl] at h; simp only at h
    cases hi : LocalInstant.minus l o with
    | error e => rw [hi] at h; cases h
    | ok i =>
      rw [hi] at h; simp only at h
      cases hc : z i with
      | error e => rw [hc] at h; cases h
      | ok c =>
        rw [hc] at h; simp only at h
        split at h
        · cases h
        · rename_i hne
          simp only [Except.ok.injEq] at h
          subst h
          exact ⟨rfl, l, i, c, rfl, hi, hc, by omega⟩

/-- **Subtracting two zoned values gives the elapsed time between their instants.** -/
theorem zoned_sub_is_elapsed (a b : ZonedDateTime) (d : Duration) (ha : WF a.odt) (hb : WF b.odt)
    (h : ZonedDateTime.minus a b = .ok d) :
    Norm d ∧ val d = (localVal a.odt - a.odt.offsetSeconds * NPS) - (localVal b.odt - b.odt.offsetSeconds * NPS) :=
  sub_is_elapsed a.odt b.odt d ha hb h

/-! hypotheses are satisfiable on concrete non-trivial values -/
example : OffsetDateTime.ofInstant ⟨⟨19000, 86399999999999⟩⟩ ⟨64800⟩ ⟨2, -4370934, 2932604⟩ =
    .ok ⟨⟨⟨2, -4370934, 2932604⟩, 19001⟩, OffsetTime.ofParts 64799999999999 64800⟩ := by decide
example : (OffsetTypes.mkOdt 2 (-4370934) 2932604 19001 1000 64800).withOffset ⟨-64800⟩ =
    .ok (OffsetTypes.mkOdt 2 (-4370934) 2932604 18999 43200000001000 (-64800)) := by decide
example : (OffsetTypes.mkOdt 2 (-4370934) 2932604 19001 64799999999999 64800).plus ⟨2, 5⟩ =
    .ok (OffsetTypes.mkOdt 2 (-4370934) 2932604 19003 64800000000004 64800) := by decide

end Pyoda.C11
