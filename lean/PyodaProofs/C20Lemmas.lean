/- Helper lemmas for C20 (progress of the readers, field framing). No property statements here. -/
import PyodaModel.Codec
import PyodaProofs.Basic
import PyodaProofs.C14Lemmas

namespace Pyoda.C20
open Pyoda Pyoda.Codec

/-! ## progress: a successful read consumes at least one byte -/

def Progress {α} (f : Bytes → R (α × Bytes)) : Prop := ∀ bs a r, f bs = .ok (a, r) → r.length < bs.length

theorem readByte_progress : Progress readByte := by
  intro bs a r h
  cases bs with
  | nil => cases h
  | cons b t => simp only [readByte] at h; cases h; simp

theorem readVarintAux_progress (bs : Bytes) : ∀ acc shift v r, readVarintAux bs acc shift = .ok (v, r) → r.length < bs.length := by
  induction bs with
  | nil => intro acc shift v r h; cases h
  | cons b t ih =>
    intro acc shift v r h
    unfold readVarintAux at h
    simp only at h
    split at h
    · cases h; simp
    · have := ih _ _ _ _ h
      simp only [List.length_cons]; omega

theorem readCount_progress : Progress readCount := by
  intro bs a r h
  unfold readCount readVarint at h
  cases hv : readVarintAux bs 0 0 with
  | error e => rw [hv] at h; cases h
  | ok p =>
    obtain ⟨u, r'⟩ := p
    rw [hv] at h
    simp only [bind, Except.bind] at h
    have hp := readVarintAux_progress bs 0 0 u r' hv
    split at h
    · cases h
    · cases h; exact hp

theorem takeExact_length (n : Nat) : ∀ (bs t r : Bytes), takeExact n bs = some (t, r) → r.length + n = bs.length := by
  induction n with
  | zero => intro bs t r h; simp only [takeExact] at h; cases h; rfl
  | succ n ih =>
    intro bs t r h
    cases bs with
    | nil => simp [takeExact] at h
    | cons b bs =>
      simp only [takeExact] at h
      cases ht : takeExact n bs with
      | none => rw [ht] at h; cases h
      | some p =>
        obtain ⟨t', r'⟩ := p
        rw [ht] at h
        cases h
        have := ih bs t' r ht
        simp only [List.length_cons]; omega

theorem readString_progress (pool : Option (List Str)) : Progress (readString pool) := by
  intro bs a r h
  unfold readString at h
  cases hc : readCount bs with
  | error e => rw [hc] at h; cases h
  | ok p =>
    obtain ⟨n, r1⟩ := p
    rw [hc] at h
    have h1 := readCount_progress bs n r1 hc
    simp only [bind, Except.bind] at h
    cases pool with
    | none =>
      simp only at h
      cases ht : takeExact n.toNat r1 with
      | none => rw [ht] at h; cases h
      | some q =>
        obtain ⟨data, r2⟩ := q
        rw [ht] at h
        simp only at h
        have := takeExact_length _ _ _ _ ht
        split at h
        · cases h; omega
        · cases h
    | some p =>
      simp only at h
      split at h
      · cases h; exact h1
      · cases h


/-! ## field framing -/

/-- a complete field as `_TzdbStreamField` framing lays it out: id byte, payload length (count), payload -/
def encodeField (id : Nat) (data : Bytes) : Bytes := id :: (writeVarint data.length ++ data)

theorem takeExact_short (n : Nat) : ∀ (bs : Bytes), bs.length < n → takeExact n bs = none := by
  induction n with
  | zero => intro bs h; omega
  | succ n ih =>
    intro bs h
    cases bs with
    | nil => rfl
    | cons b bs =>
      simp only [takeExact]
      rw [ih bs (by simp only [List.length_cons] at h; omega)]

theorem readFields_field (fuel : Nat) (b : Builder) (id : Nat) (data rest : Bytes) (hid : ¬ id > 7)
    (hl : (data.length : Int) ≤ INT_MAX) :
    readFields (fuel + 1) b (encodeField id data ++ rest) =
      (handleField b id data >>= fun b' => readFields fuel b' rest) := by
  unfold encodeField
  simp only [List.cons_append, List.append_assoc, readFields, hid, if_false]
  have := C14.readCount_varint (data.length : Int) ⟨by omega, hl⟩ (data ++ rest)
  simp only [Int.toNat_natCast] at this
  rw [this]
  simp only [bind, Except.bind, Int.toNat_natCast, C14.takeExact_append]

theorem readFields_truncated (fuel : Nat) (b : Builder) (id n : Nat) (part : Bytes) (hn : (n : Int) ≤ INT_MAX)
    (hp : part.length < n) : ∃ e, readFields (fuel + 1) b (id :: (writeVarint n ++ part)) = .error e := by
  simp only [readFields]
  by_cases hid : id > 7
  · simp only [hid, if_true]; exact ⟨_, rfl⟩
  · simp only [hid, if_false]
    have := C14.readCount_varint (n : Int) ⟨by omega, hn⟩ part
    simp only [Int.toNat_natCast] at this
    rw [this]
    simp only [bind, Except.bind, Int.toNat_natCast, takeExact_short n part hp]
    exact ⟨_, rfl⟩

def encodeFields (fields : List (Nat × Bytes)) : Bytes := fields.flatMap fun f => encodeField f.1 f.2

theorem readFields_cut (fields : List (Nat × Bytes)) (id n : Nat) (part : Bytes)
    (hf : ∀ f ∈ fields, (f.2.length : Int) ≤ INT_MAX) (hn : (n : Int) ≤ INT_MAX) (hp : part.length < n) :
    ∀ (fuel : Nat) (b : Builder), (encodeFields fields ++ id :: (writeVarint n ++ part)).length ≤ fuel →
      ∃ e, readFields fuel b (encodeFields fields ++ id :: (writeVarint n ++ part)) = .error e := by
  induction fields with
  | nil =>
    intro fuel b hfuel
    simp only [encodeFields, List.flatMap_nil, List.nil_append] at *
    cases fuel with
    | zero => simp at hfuel
    | succ k => exact readFields_truncated k b id n part hn hp
  | cons f fs ih =>
    intro fuel b hfuel
    have hfs : ∀ g ∈ fs, (g.2.length : Int) ≤ INT_MAX := fun g hg => hf g (List.mem_cons_of_mem _ hg)
    have e : encodeFields (f :: fs) = encodeField f.1 f.2 ++ encodeFields fs := by
      simp [encodeFields, List.flatMap_cons]
    rw [e, List.append_assoc] at hfuel ⊢
    cases fuel with
    | zero => simp [encodeField] at hfuel
    | succ k =>
      by_cases hid : f.1 > 7
      · refine ⟨.valueError, ?_⟩
        simp only [encodeField, List.cons_append, readFields, hid, if_true]
      · rw [readFields_field k b f.1 f.2 _ hid (hf f (List.mem_cons_self))]
        cases hh : handleField b f.1 f.2 with
        | error e => exact ⟨e, rfl⟩
        | ok b' =>
          simp only [bind, Except.bind]
          apply ih hfs k b'
          simp only [encodeField, List.length_append, List.length_cons] at hfuel ⊢
          omega


end Pyoda.C20
