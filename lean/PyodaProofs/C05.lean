/-
  C05 — local date-times map to exactly the instants whose local rendering is that value.
  Property theorems over an abstract zone `g` satisfying `Spec` (partition, bounded offsets, finite
  intervals of at least 36 h — what C04 establishes for the bundled zones) and local instants at least two
  days inside the ends of time (`Interior`).  Helper lemmas: PyodaProofs.C05Lemmas.
-/
import PyodaProofs.C05Lemmas

namespace Pyoda.C05
open Pyoda Pyoda.Zone

/-- the instants a mapping denotes, earlier first -/
def results (m : Mapping) (l : Int) : List Int :=
  match m.count with
  | 0 => []
  | 1 => [l - m.early.wall * NPS]
  | _ => [l - m.early.wall * NPS, l - m.late.wall * NPS]

/-- an instant renders as local `l` in the zone -/
def Renders (g : Int → ZI) (t l : Int) : Prop := MINI ≤ t ∧ t ≤ MAXI ∧ t + (g t).wall * NPS = l

/-- local containment is containment of the offset-adjusted instant (interior local instants) -/
theorem containsLocal_iff {g : Int → ZI} (h : Spec g) (t l : Int) (hl : Interior l) :
    (g t).containsLocal l = true ↔ (g t).s ≤ l - (g t).wall * NPS ∧ l - (g t).wall * NPS < (g t).e :=
  containsLocal_iff_aux (g t) l (h.shaped t) hl

section
variable {g : Int → ZI} (h : Spec g) {get : Int → R ZI} (hget : Agrees get g)
include h hget

/-- every reported instant renders as the requested local value -/
theorem mapLocal_sound {l : Int} (hl : Interior l) (m : Mapping) (hm : mapLocal get l = .ok m) :
    ∀ t ∈ results m l, Renders g t l := by
  have hv := iv_valid_l h hl
  have hI := h.part l hv.1 hv.2
  have cI := containsLocal_iff_aux (g l) l (h.shaped _) hl
  have cP := containsLocal_iff_aux (g ((g l).s - 1)) l (h.shaped _) hl
  have cN := containsLocal_iff_aux (g (g l).e) l (h.shaped _) hl
  have wI := h.bounded l
  have wP := h.bounded ((g l).s - 1)
  have wN := h.bounded (g l).e
  -- an instant inside one of the three candidate intervals renders through that interval
  have key : ∀ u : Int, MINI ≤ u → u ≤ MAXI → ∀ t, t = l - (g u).wall * NPS → (g u).s ≤ t → t < (g u).e →
      Renders g t l := by
    intro u hu1 hu2 t ht h1 h2
    have hb := h.bounded u
    have hvt : MINI ≤ t ∧ t ≤ MAXI := by simp only [Interior] at hl; zconsts; omega
    have : g t = g u := h.const u t hu1 hu2 hvt.1 hvt.2 h1 h2
    exact ⟨hvt.1, hvt.2, by rw [this]; omega⟩
  rw [mapLocal_eq h hget hl] at hm
  simp only [Except.ok.injEq] at hm
  subst hm
  intro t ht
  split at ht
  · -- the guessed interval matches
    rename_i c1
    have c1' := cI.mp c1
    split at ht
    · rename_i c2
      have hP := prev_facts h hl c2.1
      have c2' := cP.mp c2.2
      simp only [results, List.mem_cons, List.not_mem_nil, or_false] at ht
      rcases ht with rfl | rfl
      · exact key ((g l).s - 1) (by omega) (by omega) _ rfl c2'.1 c2'.2
      · exact key l hv.1 hv.2 _ rfl c1'.1 c1'.2
    · split at ht
      · rename_i c3
        have c3' := cN.mp c3.2
        simp only [results, List.mem_cons, List.not_mem_nil, or_false] at ht
        rcases ht with rfl | rfl
        · exact key l hv.1 hv.2 _ rfl c1'.1 c1'.2
        · exact key (g l).e (by omega) c3.1 _ rfl c3'.1 c3'.2
      · simp only [results, List.mem_cons, List.not_mem_nil, or_false] at ht
        subst ht
        exact key l hv.1 hv.2 _ rfl c1'.1 c1'.2
  · split at ht
    · rename_i c2
      have c2' := cP.mp c2.2
      simp only [results, List.mem_cons, List.not_mem_nil, or_false] at ht
      subst ht
      exact key ((g l).s - 1) (by omega) (by omega) _ rfl c2'.1 c2'.2
    · split at ht
      · rename_i c3
        have c3' := cN.mp c3.2
        simp only [results, List.mem_cons, List.not_mem_nil, or_false] at ht
        subst ht
        exact key (g l).e (by omega) c3.1 _ rfl c3'.1 c3'.2
      · split at ht <;> simp [results] at ht

/-- every instant that renders as the requested local value is reported -/
theorem mapLocal_complete {l : Int} (hl : Interior l) (m : Mapping) (hm : mapLocal get l = .ok m)
    (t : Int) (ht : Renders g t l) : t ∈ results m l := by
  obtain ⟨ht1, ht2, ht3⟩ := ht
  have hv := iv_valid_l h hl
  have hI := h.part l hv.1 hv.2
  have hT := h.part t ht1 ht2
  have cI := containsLocal_iff_aux (g l) l (h.shaped _) hl
  have cP := containsLocal_iff_aux (g ((g l).s - 1)) l (h.shaped _) hl
  have cN := containsLocal_iff_aux (g (g l).e) l (h.shaped _) hl
  have wI := h.bounded l
  have wT := h.bounded t
  have wP := h.bounded ((g l).s - 1)
  have wN := h.bounded (g l).e
  have eI := h.ends l
  rw [mapLocal_eq h hget hl] at hm
  simp only [Except.ok.injEq] at hm
  subst hm
  -- where does t live: in the guessed interval, the one before, or the one after
  by_cases hin : (g l).s ≤ t ∧ t < (g l).e
  · -- same interval as the guess
    have heq : g t = g l := h.const l t hv.1 hv.2 ht1 ht2 hin.1 hin.2
    have c1 : (g l).containsLocal l = true := cI.mpr (by rw [← heq]; constructor <;> omega)
    have ht' : t = l - (g l).wall * NPS := by rw [← heq]; omega
    simp only [c1, if_true]
    split
    · simp [results, ht']
    · split <;> simp [results, ht']
  · by_cases hlt : t < (g l).s
    · -- t lies before the guessed interval: it must be in the previous one
      have hs : MINI < (g l).s := by omega
      have hP := prev_facts h hl hs
      have hPp := h.part ((g l).s - 1) (by omega) (by omega)
      have hge : (g ((g l).s - 1)).s ≤ t := by
        rcases (h.ends ((g l).s - 1)).1 with hb | hb
        · rw [hb]; zconsts; omega
        · have := h.minlen ((g l).s - 1) hb.1 (by rw [hP.1]; omega)
          rw [hP.1] at this
          simp only [Interior] at hl; zconsts; omega
      have heq : g t = g ((g l).s - 1) :=
        h.const ((g l).s - 1) t (by omega) (by omega) ht1 ht2 hge (by rw [hP.1]; exact hlt)
      have c2 : (g ((g l).s - 1)).containsLocal l = true := cP.mpr (by rw [← heq]; constructor <;> omega)
      have ht' : t = l - (g ((g l).s - 1)).wall * NPS := by rw [← heq]; omega
      simp only [hs, c2, and_self, if_true]
      split <;> simp [results, ht']
    · -- t lies after the guessed interval: it must be in the next one
      have hge : (g l).e ≤ t := by omega
      have he : (g l).e ≤ MAXI := by omega
      have hN := next_facts h hl he
      have hlt2 : t < (g (g l).e).e := by
        rcases (h.ends (g l).e).2 with hb | hb
        · rw [hb]; zconsts; omega
        · have := h.minlen (g l).e (by rw [hN.1]; omega) hb.2
          rw [hN.1] at this
          simp only [Interior] at hl; zconsts; omega
      have heq : g t = g (g l).e :=
        h.const (g l).e t (by omega) he ht1 ht2 (by rw [hN.1]; exact hge) hlt2
      have c3 : (g (g l).e).containsLocal l = true := cN.mpr (by rw [← heq]; constructor <;> omega)
      have ht' : t = l - (g (g l).e).wall * NPS := by rw [← heq]; omega
      -- the earlier neighbour cannot match as well: the guessed interval would be shorter than 36 h
      have hnoP : ¬(MINI < (g l).s ∧ (g ((g l).s - 1)).containsLocal l = true) := by
        rintro ⟨hs, c2⟩
        have hP := prev_facts h hl hs
        have c2' := cP.mp c2
        rw [hP.1] at c2'
        have := h.minlen l (by omega) he
        simp only [Interior] at hl; zconsts; omega
      simp only [hnoP, if_false, he, c3, and_self, if_true]
      split <;> simp [results, ht']

/-- at most two results, as many as the reported count -/
theorem mapLocal_count_le_two {l : Int} (hl : Interior l) (m : Mapping) (hm : mapLocal get l = .ok m) :
    m.count ≤ 2 ∧ (results m l).length = m.count := by
  rw [mapLocal_eq h hget hl] at hm
  simp only [Except.ok.injEq] at hm
  subst hm
  (repeat' split) <;> simp [results]

/-- with two results the earlier instant comes first -/
theorem mapLocal_sorted {l : Int} (hl : Interior l) (m : Mapping) (hm : mapLocal get l = .ok m)
    (h2 : m.count = 2) : l - m.early.wall * NPS < l - m.late.wall * NPS ∧ m.early.e = m.late.s := by
  have hv := iv_valid_l h hl
  have hI := h.part l hv.1 hv.2
  have cI := containsLocal_iff_aux (g l) l (h.shaped _) hl
  have cP := containsLocal_iff_aux (g ((g l).s - 1)) l (h.shaped _) hl
  have cN := containsLocal_iff_aux (g (g l).e) l (h.shaped _) hl
  rw [mapLocal_eq h hget hl] at hm
  simp only [Except.ok.injEq] at hm
  subst hm
  split at h2
  · rename_i c1
    have c1' := cI.mp c1
    split at h2
    · rename_i c2
      have hP := prev_facts h hl c2.1
      have c2' := cP.mp c2.2
      simp only [c1, c2, and_self, if_true]
      rw [hP.1] at c2'
      exact ⟨by omega, hP.1⟩
    · rename_i c2
      split at h2
      · rename_i c3
        have hN := next_facts h hl c3.1
        have c3' := cN.mp c3.2
        simp only [c1, c2, c3, and_self, if_true, if_false]
        rw [hN.1] at c3'
        exact ⟨by omega, hN.1.symm⟩
      · simp at h2
  · (repeat' split at h2) <;> simp at h2

/-- no result: the two reported intervals are adjacent and the local value falls in the gap between them -/
theorem mapLocal_gap {l : Int} (hl : Interior l) (m : Mapping) (hm : mapLocal get l = .ok m)
    (h0 : m.count = 0) :
    m.early.e = m.late.s ∧ m.early.e + m.early.wall * NPS ≤ l ∧ l < m.late.s + m.late.wall * NPS := by
  have hv := iv_valid_l h hl
  have hI := h.part l hv.1 hv.2
  have cI := containsLocal_iff_aux (g l) l (h.shaped _) hl
  have cP := containsLocal_iff_aux (g ((g l).s - 1)) l (h.shaped _) hl
  have cN := containsLocal_iff_aux (g (g l).e) l (h.shaped _) hl
  have wI := h.bounded l
  have wP := h.bounded ((g l).s - 1)
  have wN := h.bounded (g l).e
  rw [mapLocal_eq h hget hl] at hm
  simp only [Except.ok.injEq] at hm
  subst hm
  split at h0
  · (repeat' split at h0) <;> simp at h0
  · rename_i c1
    have c1' : ¬((g l).s ≤ l - (g l).wall * NPS ∧ l - (g l).wall * NPS < (g l).e) := fun x => c1 (cI.mpr x)
    split at h0
    · simp at h0
    · rename_i c2
      split at h0
      · simp at h0
      · rename_i c3
        rw [if_neg c1, if_neg c2, if_neg c3]
        split
        · rename_i c4
          have hs : MINI < (g l).s := by simp only [Interior] at hl; zconsts; omega
          have hP := prev_facts h hl hs
          have c2' : ¬((g ((g l).s - 1)).s ≤ l - (g ((g l).s - 1)).wall * NPS ∧
              l - (g ((g l).s - 1)).wall * NPS < (g ((g l).s - 1)).e) := fun x => c2 ⟨hs, cP.mpr x⟩
          rw [hP.1] at c2'
          refine ⟨hP.1, ?_, by simp only []; omega⟩
          simp only []
          rw [hP.1]
          rcases (h.ends ((g l).s - 1)).1 with hb | hb
          · rw [hb] at c2'; zconsts; omega
          · have := h.minlen ((g l).s - 1) hb.1 (by rw [hP.1]; omega)
            rw [hP.1] at this
            simp only [Interior] at hl; zconsts; omega
        · rename_i c4
          have he : (g l).e ≤ MAXI := by simp only [Interior] at hl; zconsts; omega
          have hN := next_facts h hl he
          have c3' : ¬((g (g l).e).s ≤ l - (g (g l).e).wall * NPS ∧
              l - (g (g l).e).wall * NPS < (g (g l).e).e) := fun x => c3 ⟨he, cN.mpr x⟩
          rw [hN.1] at c3'
          refine ⟨hN.1.symm, by simp only []; omega, ?_⟩
          simp only []
          rw [hN.1]
          rcases (h.ends (g l).e).2 with hb | hb
          · rw [hb] at c3'; zconsts; omega
          · have := h.minlen (g l).e (by rw [hN.1]; omega) hb.2
            rw [hN.1] at this
            simp only [Interior] at hl; zconsts; omega

/-- an instant rendered in the zone and mapped back is recovered among the results -/
theorem instant_roundtrip (t : Int) (ht1 : MINI ≤ t) (ht2 : t ≤ MAXI) (hl : Interior (t + (g t).wall * NPS))
    (m : Mapping) (hm : mapLocal get (t + (g t).wall * NPS) = .ok m) :
    t ∈ results m (t + (g t).wall * NPS) :=
  mapLocal_complete h hget hl m hm t ⟨ht1, ht2, rfl⟩

/-- the reported intervals are intervals of the zone -/
theorem mapLocal_intervals {l : Int} (hl : Interior l) (m : Mapping) (hm : mapLocal get l = .ok m) :
    (∃ u, m.early = g u) ∧ (∃ v, m.late = g v) := by
  rw [mapLocal_eq h hget hl] at hm
  simp only [Except.ok.injEq] at hm
  subst hm
  (repeat' split) <;> exact ⟨⟨_, rfl⟩, ⟨_, rfl⟩⟩

omit h hget in
theorem buildInstant_ok {l : Int} (hl : Interior l) (z : ZI) (hz : -64800 ≤ z.wall ∧ z.wall ≤ 64800) :
    buildInstant l z = .ok (l - z.wall * NPS) :=
  untrusted_ok _ (by simp only [Interior] at hl; zconsts; omega) (by simp only [Interior] at hl; zconsts; omega)

/-- strict resolver: skipped → SkippedTimeError, ambiguous → AmbiguousTimeError, otherwise the unique instant -/
theorem strict_spec {l : Int} (hl : Interior l) (m : Mapping) (hm : mapLocal get l = .ok m) :
    (m.count = 0 → atStrictly get l = .error .skippedTime) ∧
    (m.count = 1 → atStrictly get l = .ok (l - m.early.wall * NPS)) ∧
    (m.count = 2 → atStrictly get l = .error .ambiguousTime) := by
  obtain ⟨⟨u, hu⟩, _⟩ := mapLocal_intervals h hget hl m hm
  have hb := buildInstant_ok hl m.early (by rw [hu]; exact h.bounded u)
  simp only [atStrictly, hm, bind, Except.bind]
  refine ⟨?_, ?_, ?_⟩ <;> intro hc <;> simp only [hc, hb]

/-- lenient resolver: the earlier instant when ambiguous; a skipped time is shifted forward by the length of
    the gap, landing inside the interval after the gap -/
theorem lenient_spec {l : Int} (hl : Interior l) (m : Mapping) (hm : mapLocal get l = .ok m) :
    atLeniently get l = .ok (l - m.early.wall * NPS) ∧
    (m.count = 0 → m.late.s ≤ l - m.early.wall * NPS ∧ l - m.early.wall * NPS < m.late.e ∧
      (l - m.early.wall * NPS) + m.late.wall * NPS = l + (m.late.wall - m.early.wall) * NPS) := by
  obtain ⟨⟨u, hu⟩, ⟨v, hv'⟩⟩ := mapLocal_intervals h hget hl m hm
  have hbe : -64800 ≤ m.early.wall ∧ m.early.wall ≤ 64800 := by rw [hu]; exact h.bounded u
  have hbl : -64800 ≤ m.late.wall ∧ m.late.wall ≤ 64800 := by rw [hv']; exact h.bounded v
  have hb := buildInstant_ok hl m.early hbe
  have hun : untrusted (l - m.early.wall * NPS) = .ok (l - m.early.wall * NPS) := hb
  constructor
  · simp only [atLeniently, hm, bind, Except.bind]
    split <;> simp only [hb, hun]
  · intro h0
    obtain ⟨g1, g2, g3⟩ := mapLocal_gap h hget hl m hm h0
    refine ⟨by omega, ?_, by simp only [NPS]; omega⟩
    have hiv := iv_valid_l h hl
    rcases (h.ends v).2 with hb' | hb'
    · rw [hv', hb']; simp only [Interior] at hl; zconsts; omega
    · have hs : MINI ≤ (g v).s := by
        rw [← hv', ← g1]
        rcases (h.ends u).2 with hq | hq
        · rw [hu, hq] at g2; simp only [Interior] at hl; zconsts; omega
        · rw [hu]; exact hq.1
      have := h.minlen v hs hb'.2
      rw [hv'] at g1 g3 ⊢
      rw [hv'] at hbl
      zconsts; omega

/-- the full statement of start-of-day: the earliest instant whose local date is the given date
    (proved: `startOfDay_spec` in PyodaProofs.C05StartOfDay) -/
def startOfDayStatement (g : Int → ZI) : Prop :=
  ∀ l, Interior l → l % NPD = 0 → ∀ r, atStartOfDay get l = .ok r →
    (dayOf (r + (g r).wall * NPS) = dayOf l ∧
     ∀ t, MINI ≤ t → t < r → dayOf (t + (g t).wall * NPS) ≠ dayOf l)

/-- start of day, proved part: with a mapping for local midnight the result is its earliest instant; with
    none, it is the start of the interval after the gap provided that instant still falls on the date (else
    SkippedTimeError), and every instant of the interval before the gap renders before local midnight.
    Minimality against instants more than one interval away — the rest of `startOfDayStatement` — is added by
    `startOfDay_spec` (PyodaProofs.C05StartOfDay). -/
theorem startOfDay_spec_partial {l : Int} (hl : Interior l) (m : Mapping) (hm : mapLocal get l = .ok m) :
    (m.count ≠ 0 → atStartOfDay get l = .ok (l - m.early.wall * NPS)) ∧
    (m.count = 0 →
      (dayOf (m.late.s + m.late.wall * NPS) = dayOf l → atStartOfDay get l = .ok m.late.s) ∧
      (dayOf (m.late.s + m.late.wall * NPS) ≠ dayOf l → atStartOfDay get l = .error .skippedTime) ∧
      (∀ t, m.early.s ≤ t → t < m.early.e → t + m.early.wall * NPS < l)) := by
  obtain ⟨⟨u, hu⟩, ⟨v, hv'⟩⟩ := mapLocal_intervals h hget hl m hm
  have hbe : -64800 ≤ m.early.wall ∧ m.early.wall ≤ 64800 := by rw [hu]; exact h.bounded u
  have hb := buildInstant_ok hl m.early hbe
  constructor
  · intro hc
    simp only [atStartOfDay, hm, bind, Except.bind]
    first
      | exact hb
      | (split
         · exact absurd ‹_› hc
         · exact hb)
  · intro h0
    obtain ⟨g1, g2, g3⟩ := mapLocal_gap h hget hl m hm h0
    have hiv := iv_valid_l h hl
    have hls : MINI ≤ m.late.s ∧ m.late.s ≤ MAXI := by
      rw [← g1]
      rcases (h.ends u).2 with hq | hq
      · rw [hu, hq] at g2; rw [hu] at hbe; simp only [Interior] at hl; zconsts; omega
      · rw [hu]; exact hq
    have hst : m.late.hasStart = true := isValid_of _ hls.1 hls.2
    refine ⟨?_, ?_, ?_⟩
    · intro hd
      simp only [atStartOfDay, hm, bind, Except.bind, h0, hst, Bool.not_true, Bool.false_eq_true, if_false, hd,
        ne_eq, not_true_eq_false]
    · intro hd
      simp only [atStartOfDay, hm, bind, Except.bind, h0, hst, Bool.not_true, Bool.false_eq_true, if_false, hd,
        ne_eq, not_false_eq_true, if_true]
    · intro t _ ht2; omega

end

/-! ### non-vacuity: a toy zone with one transition (a one-hour gap at the epoch) satisfies `Spec` -/

def toy (t : Int) : ZI := if t < 0 then ⟨BMIN, 0, "A", 0, 0⟩ else ⟨0, AMAX, "B", 3600, 3600⟩

theorem toy_spec : Spec toy := by
  refine ⟨?_, ?_, ?_, ?_, ?_⟩
  · intro t h1 h2
    by_cases ht : t < 0 <;> simp only [toy, ht, if_true, if_false] <;> zconsts <;> simp <;> omega
  · intro t u _ _ _ _ h1 h2
    by_cases ht : t < 0
    · by_cases hu : u < 0
      · simp [toy, ht, hu]
      · exfalso; simp [toy, ht] at h2; omega
    · by_cases hu : u < 0
      · exfalso; simp [toy, ht] at h1; omega
      · simp [toy, ht, hu]
  · intro t
    by_cases ht : t < 0 <;> simp [toy, ht]
  · intro t
    by_cases ht : t < 0 <;> simp [toy, ht] <;> zconsts <;> omega
  · intro t h1 h2
    by_cases ht : t < 0 <;> simp only [toy, ht, if_true, if_false] at * <;> exfalso <;> zconsts <;> omega

example : Interior 1800000000000 := by simp only [Interior]; zconsts; omega
example : (mapLocal (getT toy) 1800000000000).toOption.map (·.count) = some 0 := by decide
example : (mapLocal (getT toy) 3600000000000).toOption.map (·.count) = some 1 := by decide
example : atLeniently (getT toy) 1800000000000 = .ok 1800000000000 := by decide

end Pyoda.C05
