/-
  C08 (creation side of `success_value_valid` for LocalDate / LocalDateTime) — every pattern that `compileDate` /
  `compileDateTime` accept is a stepped pattern of well-formed date/time steps whose used-field set is accounted
  for by its steps (`dtStepWF`, `fieldsSound`); with `parseCompiled_date_valid` / `parseCompiled_datetime_valid`:
  whatever pattern text was accepted, a successful parse of any text carries a valid value.
-/
import PyodaProofs.C08DateTime

namespace Pyoda.C08
open Pyoda Pyoda.Text

/-- the field bit of the slots an embedded date / time pattern assigns -/
def trackedBit : Slot → Nat
  | .year => F.year
  | .monthNum => F.monthNum
  | .dayOfMonth => F.dayOfMonth
  | .hours24 => F.hours24
  | .minutes => F.minutes
  | .seconds => F.seconds
  | .fraction => F.fraction
  | .calendar => F.calendar
  | _ => 0

/-- a step that assigns one of the tracked slots has that slot's field bit among `bits` -/
def SetterBits (bits : Nat) (s : Step) : Prop :=
  ∀ x, stepSets s = some x → trackedBit x ≠ 0 → hasAny bits (trackedBit x) = true

/-- the steps a handler added are well formed and contain the setter of every month / day field it recorded;
    conversely every added setter of a tracked slot recorded its field; no embedded-pattern bit is recorded -/
def Good (bits : Nat) (added : List Step) : Prop :=
  added.all dtStepWF = true ∧
  (hasAny bits F.monthNum = true → added.any (setsSlot .monthNum) = true) ∧
  (hasAny bits F.dayOfMonth = true → added.any (setsSlot .dayOfMonth) = true) ∧
  (hasAny bits F.monthText = true → added.any (setsSlot .monthText) = true) ∧
  (∀ s ∈ added, SetterBits bits s) ∧
  hasAny bits (F.embeddedDate ||| F.embeddedTime) = false

/-- one handler call: field bits OR-ed in, steps appended -/
def Ext (st st' : CSt) : Prop :=
  ∃ bits added, st'.used = st.used ||| bits ∧ st'.steps = st.steps ++ added ∧ Good bits added

/-- the builder invariant -/
def Inv (st : CSt) : Prop := st.steps.all dtStepWF = true ∧ fieldsSound st.used st.steps = true

theorem hasAny_or (u b T : Nat) : hasAny (u ||| b) T = (hasAny u T || hasAny b T) := by
  unfold hasAny
  rw [Nat.and_or_distrib_right]
  by_cases h1 : u &&& T = 0 <;> by_cases h2 : b &&& T = 0 <;> simp [h1, h2, Nat.or_eq_zero_iff]

theorem inv_ext (st st' : CSt) (hi : Inv st) (he : Ext st st') : Inv st' := by
  obtain ⟨hw, hs⟩ := hi
  obtain ⟨bits, added, e1, e2, g1, g2, g3, g4, _, _⟩ := he
  unfold fieldsSound at hs
  simp only [Bool.and_eq_true, Bool.or_eq_true, Bool.not_eq_true'] at hs
  obtain ⟨⟨s1, s2⟩, s3⟩ := hs
  refine ⟨by rw [e2, List.all_append, hw, g1]; rfl, ?_⟩
  unfold fieldsSound
  rw [e1, e2]
  simp only [hasAny_or, List.any_append, Bool.and_eq_true, Bool.or_eq_true, Bool.not_eq_true', Bool.or_eq_false_iff]
  refine ⟨⟨?_, ?_⟩, ?_⟩
  · by_cases hb : hasAny bits F.monthNum = true
    · right; right; exact g2 hb
    · rcases s1 with e | e
      · left; exact ⟨e, by simpa using hb⟩
      · right; left; exact e
  · by_cases hb : hasAny bits F.dayOfMonth = true
    · right; right; exact g3 hb
    · rcases s2 with e | e
      · left; exact ⟨e, by simpa using hb⟩
      · right; left; exact e
  · by_cases hb : hasAny bits F.monthText = true
    · right; right; exact g4 hb
    · rcases s3 with e | e
      · left; exact ⟨e, by simpa using hb⟩
      · right; left; exact e

theorem ext_refl (st : CSt) : Ext st st :=
  ⟨0, [], by simp, by simp, rfl, fun h => absurd h (by decide), fun h => absurd h (by decide), fun h => absurd h (by decide),
    fun s hs => (by simp at hs), by decide⟩

/-- a literal (a well-formed step that records no field and assigns no slot) -/
theorem ext_addStep (st : CSt) (s : Step) (hw : dtStepWF s = true) (hn : stepSets s = none := by rfl) : Ext st (addStep st s) :=
  ⟨0, [s], by simp [addStep], rfl, by simp [hw], fun h => absurd h (by decide), fun h => absurd h (by decide),
    fun h => absurd h (by decide),
    fun t ht => (by simp only [List.mem_singleton] at ht; subst ht; intro x hx; rw [hn] at hx; cases hx), by decide⟩

theorem addField_ok (st st' : CSt) (bit : Nat) (h : addField st bit = .ok st') :
    st'.used = st.used ||| bit ∧ st'.steps = st.steps := by
  unfold addField at h
  split at h
  · cases h
  · injection h with h; rw [← h]; exact ⟨rfl, rfl⟩

/-- `_add_field(bit)` then one step -/
theorem ext_field_step (st st1 : CSt) (bit : Nat) (s : Step) (h : addField st bit = .ok st1) (g : Good bit [s]) :
    Ext st (addStep st1 s) := by
  obtain ⟨e1, e2⟩ := addField_ok st st1 bit h
  exact ⟨bit, [s], by simp [addStep, e1], by simp [addStep, e2], g⟩

/-- one step then `_add_field(bit)` -/
theorem ext_step_field (st st' : CSt) (bit : Nat) (s : Step) (h : addField (addStep st s) bit = .ok st') (g : Good bit [s]) :
    Ext st st' := by
  obtain ⟨e1, e2⟩ := addField_ok _ st' bit h
  exact ⟨bit, [s], by simp [addStep, e1], by simp [addStep, e2], g⟩

/-- `Good` for a field bit that is none of the month / day bits whose setters are tracked -/
theorem good_untracked (bit : Nat) (s : Step) (hw : dtStepWF s = true) (h1 : hasAny bit F.monthNum = false)
    (h2 : hasAny bit F.dayOfMonth = false) (h3 : hasAny bit F.monthText = false)
    (hc : SetterBits bit s) (he : hasAny bit (F.embeddedDate ||| F.embeddedTime) = false) : Good bit [s] :=
  ⟨by simp [hw], fun h => (by rw [h1] at h; cases h), fun h => (by rw [h2] at h; cases h),
    fun h => (by rw [h3] at h; cases h),
    fun t ht => (by simp only [List.mem_singleton] at ht; subst ht; exact hc), he⟩

/-- discharges `SetterBits bit s` for a concrete step and bit -/
macro "setter_bits" : tactic => `(tactic|
  (intro x hx hne
   simp only [stepSets, Option.some.injEq] at hx
   first
     | (subst hx; first | exact absurd rfl hne | decide)
     | cases hx))

theorem handlePadded_ext (c : Char) (rest : Text) (st : CSt) (maxCount bit : Nat) (minV maxV : Int) (slot : Slot)
    (hg : ∀ n, Good bit [.num slot slot n maxCount minV maxV])
    (st' : CSt) (k : Nat) (h : handlePadded c rest st maxCount bit minV maxV slot = .ok (st', k)) : Ext st st' := by
  unfold handlePadded at h
  cases h1 : repeatCount c rest maxCount with
  | error e => rw [h1] at h; cases h
  | ok n =>
    rw [h1] at h; dsimp only at h
    cases h2 : addField st bit with
    | error e => rw [h2] at h; cases h
    | ok st1 =>
      rw [h2] at h; injection h with h; injection h with h _
      rw [← h]; exact ext_field_step st st1 bit _ h2 (hg n)

theorem handleCounted_ext (c : Char) (rest : Text) (st : CSt) (maxCount bit : Nat) (mk : Nat → Step)
    (hg : ∀ n, Good bit [mk n])
    (st' : CSt) (k : Nat) (h : handleCounted c rest st maxCount bit mk = .ok (st', k)) : Ext st st' := by
  unfold handleCounted at h
  cases h1 : repeatCount c rest maxCount with
  | error e => rw [h1] at h; cases h
  | ok n =>
    rw [h1] at h; dsimp only at h
    cases h2 : addField st bit with
    | error e => rw [h2] at h; cases h
    | ok st1 =>
      rw [h2] at h; injection h with h; injection h with h _
      rw [← h]; exact ext_field_step st st1 bit _ h2 (hg n)

theorem handleSingle_ext (st : CSt) (bit : Nat) (step : Step) (hg : Good bit [step])
    (st' : CSt) (k : Nat) (h : handleSingle st bit step = .ok (st', k)) : Ext st st' := by
  unfold handleSingle at h
  cases h2 : addField st bit with
  | error e => rw [h2] at h; cases h
  | ok st1 =>
    rw [h2] at h; injection h with h; injection h with h _
    rw [← h]; exact ext_field_step st st1 bit _ h2 hg

theorem handleDot_ext (comma : Bool) (rest : Text) (st st' : CSt) (k : Nat)
    (h : handleDot comma rest st = .ok (st', k)) : Ext st st' := by
  unfold handleDot at h
  split at h
  · rename_i r
    cases h1 : repeatCount 'F' r 9 with
    | error e => rw [h1] at h; cases h
    | ok n =>
      rw [h1] at h; dsimp only at h
      have hn := (repeatCount_bounds 'F' r 9 n h1).2.1
      cases h2 : addField st F.fraction with
      | error e => rw [h2] at h; cases h
      | ok st1 =>
        rw [h2] at h; injection h with h; injection h with h _
        rw [← h]
        exact ext_field_step st st1 _ _ h2 (good_untracked _ _ (by simp [dtStepWF, hn]) (by decide) (by decide) (by decide) (by setter_bits) (by decide))
  · injection h with h; injection h with h _
    rw [← h]
    cases comma <;> exact ext_addStep st _ rfl

theorem handleFraction_ext (c : Char) (rest : Text) (st st' : CSt) (k : Nat)
    (h : handleFraction c rest st = .ok (st', k)) : Ext st st' := by
  unfold handleFraction at h
  cases h1 : repeatCount c rest 9 with
  | error e => rw [h1] at h; cases h
  | ok n =>
    rw [h1] at h; dsimp only at h
    have hn := (repeatCount_bounds c rest 9 n h1).2.1
    cases h2 : addField st F.fraction with
    | error e => rw [h2] at h; cases h
    | ok st1 =>
      rw [h2] at h; injection h with h; injection h with h _
      rw [← h]
      exact ext_field_step st st1 _ _ h2 (good_untracked _ _ (by simp [dtStepWF, hn]) (by decide) (by decide) (by decide) (by setter_bits) (by decide))

theorem handleDefault_ext (c : Char) (st st' : CSt) (k : Nat) (h : handleDefault c st = .ok (st', k)) : Ext st st' := by
  unfold handleDefault at h
  split at h
  · cases h
  · injection h with h; injection h with h _; rw [← h]; exact ext_addStep st _ rfl

theorem handleCommon_ext (c : Char) (rest : Text) (st st' : CSt) (k : Nat)
    (h : handleCommon c rest st = some (.ok (st', k))) : Ext st st' := by
  unfold handleCommon at h
  split at h
  · injection h with h
    unfold handlePercent at h
    split at h
    · cases h
    · split at h
      · cases h
      · injection h with h; injection h with h _; rw [← h]; exact ext_refl st
  · split at h
    · injection h with h
      unfold handleQuote at h
      cases hq : quotedString c rest with
      | error e => rw [hq] at h; cases h
      | ok p => rw [hq] at h; injection h with h; injection h with h _; rw [← h]; exact ext_addStep st _ rfl
    · split at h
      · injection h with h
        unfold handleBackslash at h
        split at h
        · cases h
        · injection h with h; injection h with h _; rw [← h]; exact ext_addStep st _ rfl
      · cases h

theorem setterBits_mono (b1 b2 : Nat) (s : Step) (h : SetterBits b1 s ∨ SetterBits b2 s) : SetterBits (b1 ||| b2) s := by
  intro x hx hne
  rw [hasAny_or]
  rcases h with h | h
  · rw [h x hx hne]; rfl
  · rw [h x hx hne]; simp

theorem ext_trans (a b c : CSt) (h1 : Ext a b) (h2 : Ext b c) : Ext a c := by
  obtain ⟨b1, a1, e1, e2, g1, g2, g3, g4, g5, g6⟩ := h1
  obtain ⟨b2, a2, f1, f2, k1, k2, k3, k4, k5, k6⟩ := h2
  refine ⟨b1 ||| b2, a1 ++ a2, by rw [f1, e1, Nat.or_assoc], by rw [f2, e2, List.append_assoc], ?_, ?_, ?_, ?_, ?_, ?_⟩
  · rw [List.all_append, g1, k1]; rfl
  · intro h; rw [hasAny_or] at h; rw [List.any_append]
    rcases Bool.or_eq_true _ _ ▸ h with h | h
    · rw [g2 h]; rfl
    · rw [k2 h]; simp
  · intro h; rw [hasAny_or] at h; rw [List.any_append]
    rcases Bool.or_eq_true _ _ ▸ h with h | h
    · rw [g3 h]; rfl
    · rw [k3 h]; simp
  · intro h; rw [hasAny_or] at h; rw [List.any_append]
    rcases Bool.or_eq_true _ _ ▸ h with h | h
    · rw [g4 h]; rfl
    · rw [k4 h]; simp
  · intro s hs
    rcases List.mem_append.mp hs with h | h
    · exact setterBits_mono b1 b2 s (Or.inl (g5 s h))
    · exact setterBits_mono b1 b2 s (Or.inr (k5 s h))
  · rw [hasAny_or, g6, k6]; rfl

theorem handleYearOfEra_ext (c : Char) (rest : Text) (st st' : CSt) (k : Nat)
    (h : handleYearOfEra c rest st = .ok (st', k)) : Ext st st' := by
  unfold handleYearOfEra at h
  cases h1 : repeatCount c rest 4 with
  | error e => rw [h1] at h; cases h
  | ok n =>
    rw [h1] at h; dsimp only at h
    cases h2 : addField st F.yearOfEra with
    | error e => rw [h2] at h; cases h
    | ok st1 =>
      rw [h2] at h; dsimp only at h
      split at h
      · cases h3 : addField (addStep st1 (.num .yearOfEra2 .yearOfEra 2 2 0 99)) F.yearTwoDigits with
        | error e => rw [h3] at h; cases h
        | ok st2 =>
          rw [h3] at h; injection h with h; injection h with h _
          rw [← h]
          have a := ext_field_step st st1 F.yearOfEra (.num .yearOfEra2 .yearOfEra 2 2 0 99) h2
            (good_untracked _ _ (by decide) (by decide) (by decide) (by decide) (by setter_bits) (by decide))
          obtain ⟨e1, e2⟩ := addField_ok _ st2 _ h3
          exact ext_trans _ _ _ a ⟨F.yearTwoDigits, [], e1, by simp [e2], rfl, fun h => absurd h (by decide),
            fun h => absurd h (by decide), fun h => absurd h (by decide), fun s hs => (by simp at hs), by decide⟩
      · split at h
        · injection h with h; injection h with h _
          rw [← h]
          exact ext_field_step st st1 F.yearOfEra _ h2 (good_untracked _ _ (by decide) (by decide) (by decide) (by decide) (by setter_bits) (by decide))
        · cases h

theorem handleMonthOrDay_ext (month : Bool) (c : Char) (rest : Text) (st st' : CSt) (k : Nat)
    (h : handleMonthOrDay month c rest st = .ok (st', k)) : Ext st st' := by
  unfold handleMonthOrDay at h
  cases h1 : repeatCount c rest 4 with
  | error e => rw [h1] at h; cases h
  | ok n =>
    rw [h1] at h; dsimp only at h
    by_cases hn : n ≤ 2
    · cases month
      · simp only [hn, decide_true, if_true, Bool.false_eq_true, if_false] at h
        cases h2 : addField (addStep st (.num .dayOfMonth .dayOfMonth n 2 1 99)) F.dayOfMonth with
        | error e => rw [h2] at h; cases h
        | ok st1 =>
          rw [h2] at h; injection h with h; injection h with h _
          rw [← h]
          exact ext_step_field st st1 _ _ h2 ⟨by simp [dtStepWF], fun h => absurd h (by decide), fun _ => by simp [setsSlot],
            fun h => absurd h (by decide), fun t ht => (by simp only [List.mem_singleton] at ht; subst ht; setter_bits), by decide⟩
      · simp only [hn, decide_true, if_true] at h
        cases h2 : addField (addStep st (.num .monthNum .monthNum n 2 1 99)) F.monthNum with
        | error e => rw [h2] at h; cases h
        | ok st1 =>
          rw [h2] at h; injection h with h; injection h with h _
          rw [← h]
          exact ext_step_field st st1 _ _ h2 ⟨by simp [dtStepWF], fun _ => by simp [setsSlot], fun h => absurd h (by decide),
            fun h => absurd h (by decide), fun t ht => (by simp only [List.mem_singleton] at ht; subst ht; setter_bits), by decide⟩
    · cases month
      · simp only [hn, decide_false, Bool.false_eq_true, if_false] at h
        cases h2 : addField (addStep st (.dayText n)) F.dayOfWeek with
        | error e => rw [h2] at h; cases h
        | ok st1 =>
          rw [h2] at h; injection h with h; injection h with h _
          rw [← h]
          exact ext_step_field st st1 _ _ h2 (good_untracked _ _ rfl (by decide) (by decide) (by decide) (by setter_bits) (by decide))
      · simp only [hn, decide_false, Bool.false_eq_true, if_false, if_true] at h
        cases h2 : addField (addStep st (.monthText n)) F.monthText with
        | error e => rw [h2] at h; cases h
        | ok st1 =>
          rw [h2] at h; injection h with h; injection h with h _
          rw [← h]
          exact ext_step_field st st1 _ _ h2 ⟨by simp [dtStepWF], fun h => absurd h (by decide), fun h => absurd h (by decide),
            fun _ => by simp [setsSlot], fun t ht => (by simp only [List.mem_singleton] at ht; subst ht; setter_bits), by decide⟩

theorem handleDate_ext (cu : Culture) (c : Char) (rest : Text) (st st' : CSt) (k : Nat)
    (h : handleDate cu c rest st = .ok (st', k)) : Ext st st' := by
  unfold handleDate at h
  cases hcm : handleCommon c rest st with
  | some r => rw [hcm] at h; dsimp only at h; rw [h] at hcm; exact handleCommon_ext c rest st st' k hcm
  | none =>
    rw [hcm] at h; dsimp only at h
    by_cases c0 : c = '/'
    · rw [if_pos c0] at h; injection h with h; injection h with h _; rw [← h]; exact ext_addStep st _ rfl
    rw [if_neg c0] at h
    by_cases c1 : c = 'y'
    · rw [if_pos c1] at h; exact handleYearOfEra_ext _ _ _ _ _ h
    rw [if_neg c1] at h
    by_cases c2 : c = 'u'
    · rw [if_pos c2] at h; exact handlePadded_ext _ _ _ _ _ _ _ _ (fun n => good_untracked _ _ (by simp [dtStepWF]) (by decide) (by decide) (by decide) (by setter_bits) (by decide)) _ _ h
    rw [if_neg c2] at h
    by_cases c3 : c = 'M'
    · rw [if_pos c3] at h; exact handleMonthOrDay_ext _ _ _ _ _ _ h
    rw [if_neg c3] at h
    by_cases c4 : c = 'd'
    · rw [if_pos c4] at h; exact handleMonthOrDay_ext _ _ _ _ _ _ h
    rw [if_neg c4] at h
    by_cases c5 : c = 'c'
    · rw [if_pos c5] at h; exact handleSingle_ext _ _ _ (good_untracked _ _ rfl (by decide) (by decide) (by decide) (by setter_bits) (by decide)) _ _ h
    rw [if_neg c5] at h
    by_cases c6 : c = 'g'
    · rw [if_pos c6] at h; exact handleCounted_ext _ _ _ _ _ _ (fun _ => good_untracked _ _ rfl (by decide) (by decide) (by decide) (by setter_bits) (by decide)) _ _ h
    rw [if_neg c6] at h
    exact handleDefault_ext _ _ _ _ h

theorem handleDateTime_ext (cu : Culture) (c : Char) (rest : Text) (st st' : CSt) (k : Nat)
    (h : handleDateTime cu c rest st = .ok (st', k)) : Ext st st' := by
  unfold handleDateTime at h
  cases hcm : handleCommon c rest st with
  | some r => rw [hcm] at h; dsimp only at h; rw [h] at hcm; exact handleCommon_ext c rest st st' k hcm
  | none =>
    rw [hcm] at h; dsimp only at h
    by_cases c0 : c = '/'
    · rw [if_pos c0] at h; injection h with h; injection h with h _; rw [← h]; exact ext_addStep st _ rfl
    rw [if_neg c0] at h
    by_cases c1 : c = 'T'
    · rw [if_pos c1] at h; injection h with h; injection h with h _; rw [← h]; exact ext_addStep st _ rfl
    rw [if_neg c1] at h
    by_cases c2 : c = 'y'
    · rw [if_pos c2] at h; exact handleYearOfEra_ext _ _ _ _ _ h
    rw [if_neg c2] at h
    by_cases c3 : c = 'u'
    · rw [if_pos c3] at h; exact handlePadded_ext _ _ _ _ _ _ _ _ (fun n => good_untracked _ _ (by simp [dtStepWF]) (by decide) (by decide) (by decide) (by setter_bits) (by decide)) _ _ h
    rw [if_neg c3] at h
    by_cases c4 : c = 'M'
    · rw [if_pos c4] at h; exact handleMonthOrDay_ext _ _ _ _ _ _ h
    rw [if_neg c4] at h
    by_cases c5 : c = 'd'
    · rw [if_pos c5] at h; exact handleMonthOrDay_ext _ _ _ _ _ _ h
    rw [if_neg c5] at h
    by_cases c6 : c = '.'
    · rw [if_pos c6] at h; exact handleDot_ext _ _ _ _ _ h
    rw [if_neg c6] at h
    by_cases c7 : c = ';'
    · rw [if_pos c7] at h; exact handleDot_ext _ _ _ _ _ h
    rw [if_neg c7] at h
    by_cases c8 : c = ':'
    · rw [if_pos c8] at h; injection h with h; injection h with h _; rw [← h]; exact ext_addStep st _ rfl
    rw [if_neg c8] at h
    by_cases c9 : c = 'h'
    · rw [if_pos c9] at h; exact handlePadded_ext _ _ _ _ _ _ _ _ (fun n => good_untracked _ _ (by simp [dtStepWF]) (by decide) (by decide) (by decide) (by setter_bits) (by decide)) _ _ h
    rw [if_neg c9] at h
    by_cases c10 : c = 'H'
    · rw [if_pos c10] at h; exact handlePadded_ext _ _ _ _ _ _ _ _ (fun n => good_untracked _ _ (by simp [dtStepWF]) (by decide) (by decide) (by decide) (by setter_bits) (by decide)) _ _ h
    rw [if_neg c10] at h
    by_cases c11 : c = 'm'
    · rw [if_pos c11] at h; exact handlePadded_ext _ _ _ _ _ _ _ _ (fun n => good_untracked _ _ (by simp [dtStepWF]) (by decide) (by decide) (by decide) (by setter_bits) (by decide)) _ _ h
    rw [if_neg c11] at h
    by_cases c12 : c = 's'
    · rw [if_pos c12] at h; exact handlePadded_ext _ _ _ _ _ _ _ _ (fun n => good_untracked _ _ (by simp [dtStepWF]) (by decide) (by decide) (by decide) (by setter_bits) (by decide)) _ _ h
    rw [if_neg c12] at h
    by_cases c13 : c = 'f' ∨ c = 'F'
    · rw [if_pos c13] at h; exact handleFraction_ext _ _ _ _ _ h
    rw [if_neg c13] at h
    by_cases c14 : c = 't'
    · rw [if_pos c14] at h; exact handleCounted_ext _ _ _ _ _ _ (fun _ => good_untracked _ _ rfl (by decide) (by decide) (by decide) (by setter_bits) (by decide)) _ _ h
    rw [if_neg c14] at h
    by_cases c15 : c = 'c'
    · rw [if_pos c15] at h; exact handleSingle_ext _ _ _ (good_untracked _ _ rfl (by decide) (by decide) (by decide) (by setter_bits) (by decide)) _ _ h
    rw [if_neg c15] at h
    by_cases c16 : c = 'g'
    · rw [if_pos c16] at h; exact handleCounted_ext _ _ _ _ _ _ (fun _ => good_untracked _ _ rfl (by decide) (by decide) (by decide) (by setter_bits) (by decide)) _ _ h
    rw [if_neg c16] at h
    by_cases c17 : c = 'l'
    · rw [if_pos c17] at h; cases h
    rw [if_neg c17] at h
    exact handleDefault_ext _ _ _ _ h

theorem handleAnnualDay_ext (c : Char) (rest : Text) (st st' : CSt) (k : Nat)
    (h : handleAnnualDay c rest st = .ok (st', k)) : Ext st st' := by
  unfold handleAnnualDay at h
  cases h1 : repeatCount c rest 2 with
  | error e => rw [h1] at h; cases h
  | ok n =>
    rw [h1] at h; dsimp only at h
    cases h2 : addField (addStep st (.num .dayOfMonth .dayOfMonth n 2 1 99)) F.dayOfMonth with
    | error e => rw [h2] at h; cases h
    | ok st1 =>
      rw [h2] at h; injection h with h; injection h with h _
      rw [← h]
      exact ext_step_field st st1 _ _ h2 ⟨by simp [dtStepWF], fun h => absurd h (by decide), fun _ => by simp [setsSlot],
        fun h => absurd h (by decide), fun t ht => (by simp only [List.mem_singleton] at ht; subst ht; setter_bits), by decide⟩

theorem handleAnnual_ext (cu : Culture) (c : Char) (rest : Text) (st st' : CSt) (k : Nat)
    (h : handleAnnual cu c rest st = .ok (st', k)) : Ext st st' := by
  unfold handleAnnual at h
  cases hcm : handleCommon c rest st with
  | some r => rw [hcm] at h; dsimp only at h; rw [h] at hcm; exact handleCommon_ext c rest st st' k hcm
  | none =>
    rw [hcm] at h; dsimp only at h
    by_cases c0 : c = '/'
    · rw [if_pos c0] at h; injection h with h; injection h with h _; rw [← h]; exact ext_addStep st _ rfl
    rw [if_neg c0] at h
    by_cases c1 : c = 'M'
    · rw [if_pos c1] at h; exact handleMonthOrDay_ext _ _ _ _ _ _ h
    rw [if_neg c1] at h
    by_cases c2 : c = 'd'
    · rw [if_pos c2] at h; exact handleAnnualDay_ext _ _ _ _ _ h
    rw [if_neg c2] at h
    exact handleDefault_ext _ _ _ _ h

/-- the types whose handler tables produce date / time steps with month and day fields -/
def isDateLike : PType → Bool
  | .date => true
  | .datetime _ => true
  | .annual _ _ => true
  | .dateC _ => true
  | .datetimeC _ => true
  | _ => false

theorem compileLoop_inv (ty : PType) (hty : isDateLike ty = true) (cu : Culture) : ∀ (fuel : Nat) (text : Text) (st st' : CSt),
    compileLoop ty cu fuel text st = .ok st' → Inv st → Inv st' := by
  intro fuel
  induction fuel with
  | zero =>
    intro text st st' h hs
    cases text with
    | nil => unfold compileLoop at h; injection h with h; rw [← h]; exact hs
    | cons c r => unfold compileLoop at h; cases h
  | succ f ih =>
    intro text st st' h hs
    cases text with
    | nil => unfold compileLoop at h; injection h with h; rw [← h]; exact hs
    | cons c rest =>
      unfold compileLoop at h
      cases hh : handleChar ty cu c rest st with
      | error e => rw [hh] at h; cases h
      | ok p =>
        obtain ⟨st1, k⟩ := p
        rw [hh] at h; dsimp only at h
        have g : Ext st st1 := by
          unfold handleChar at hh
          cases ty with
          | time => cases hty
          | date => exact handleDate_ext cu c rest st st1 k hh
          | offset => cases hty
          | datetime tm => exact handleDateTime_ext cu c rest st st1 k hh
          | annual tm td => exact handleAnnual_ext cu c rest st st1 k hh
          | duration => cases hty
          | dateC tc => exact handleDate_ext cu c rest st st1 k hh
          | datetimeC tc => exact handleDateTime_ext cu c rest st st1 k hh
        exact ih _ st1 st' h (inv_ext st st1 hs g)

theorem compileCustom_wf (ty : PType) (hty : isDateLike ty = true) (cu : Culture) (text : Text) (c : Compiled)
    (h : compileCustom ty cu text = .ok c) : c.cu = cu ∧ c.steps.all dtStepWF = true ∧ fieldsSound c.used c.steps = true := by
  unfold compileCustom at h
  cases h1 : compileLoop ty cu text.length text ⟨0, []⟩ with
  | error e => rw [h1] at h; cases h
  | ok st =>
    rw [h1] at h; dsimp only at h
    split at h
    · cases h
    · injection h with h; rw [← h]
      have := compileLoop_inv ty hty cu _ _ _ _ h1 ⟨rfl, by decide⟩
      exact ⟨rfl, this.1, this.2⟩

/-- a stepped pattern of well-formed date/time steps that account for its used fields, in a culture record whose
    month tables start with the empty entry -/
def DtWF (p : Pat) : Prop :=
  ∃ c, p = .stepped c ∧ c.cu.monthHeadsEmpty = true ∧ c.steps.all dtStepWF = true ∧ fieldsSound c.used c.steps = true

theorem steppedOf_wf (ty : PType) (hty : isDateLike ty = true) (cu : Culture) (hcu : cu.monthHeadsEmpty = true) (t : Text)
    (p : Pat) (h : steppedOf (compileCustom ty cu t) = .ok p) : DtWF p := by
  unfold steppedOf at h
  cases hc : compileCustom ty cu t with
  | error e => rw [hc] at h; cases h
  | ok c =>
    rw [hc] at h; injection h with h
    obtain ⟨e, w1, w2⟩ := compileCustom_wf ty hty cu t c hc
    exact ⟨c, h.symm, by rw [e]; exact hcu, w1, w2⟩

theorem invariantCulture_monthHeadsEmpty : invariantCulture.monthHeadsEmpty = true := by decide

/-- every LocalDate pattern `compile` accepts is well formed -/
theorem compileDate_wf (cu : Culture) (hcu : cu.monthHeadsEmpty = true) (ptext : Text) (p : Pat)
    (h : compileDate cu ptext = .ok p) : DtWF p := by
  unfold compileDate at h
  split at h
  · cases h
  · repeat' (first
      | exact steppedOf_wf .date rfl _ invariantCulture_monthHeadsEmpty _ p h
      | exact steppedOf_wf .date rfl _ hcu _ p h
      | cases h
      | split at h)
  · exact steppedOf_wf .date rfl _ hcu _ p h

theorem compileDTText_wf (tm : Tmpl) (cu : Culture) (hcu : cu.monthHeadsEmpty = true) (t : Text) (p : Pat)
    (h : compileDTText tm cu t = .ok p) : DtWF p ∨ ∃ cu' used segs, p = .segmented cu' used segs := by
  unfold compileDTText at h
  cases hc : compileCustom (.datetime tm) cu t with
  | ok c =>
    rw [hc] at h
    left; exact steppedOf_wf (.datetime tm) rfl cu hcu t p (by rw [hc]; exact h)
  | error e =>
    rw [hc] at h
    cases e <;> first
      | (simp only [steppedOf] at h; cases h; done)
      | (right
         dsimp only at h
         unfold compileSegmented at h
         cases h1 : compileLoopDT cu t.length t ⟨0, [], []⟩ with
         | error e => rw [h1] at h; cases h
         | ok st =>
           rw [h1] at h; dsimp only at h
           cases h2 : validateUsed st.used with
           | error e => rw [h2] at h; cases h
           | ok u =>
             rw [h2] at h; dsimp only at h
             cases h3 : buildCheck st.used with
             | error e => rw [h3] at h; cases h
             | ok u' => rw [h3] at h; injection h with h; exact ⟨_, _, _, h.symm⟩)

/-- every LocalDateTime pattern `compile` accepts is a well-formed stepped pattern, or a pattern with embedded
    date / time patterns -/
theorem compileDateTime_wf (tm : Tmpl) (cu : Culture) (hcu : cu.monthHeadsEmpty = true) (ptext : Text) (p : Pat)
    (h : compileDateTime tm cu ptext = .ok p) : DtWF p ∨ ∃ cu' used segs, p = .segmented cu' used segs := by
  unfold compileDateTime at h
  split at h
  · cases h
  · repeat' (first
      | exact Or.inl (steppedOf_wf (.datetime tm) rfl _ invariantCulture_monthHeadsEmpty _ p h)
      | exact compileDTText_wf tm cu hcu _ p h
      | cases h
      | split at h)
  · exact compileDTText_wf tm cu hcu _ p h

/-- **success_value_valid** for LocalDate: whatever pattern text WITHOUT the calendar field was accepted (default
    template, ISO calendar), in whatever culture record whose month tables start with the empty entry, a successful parse
    of any text carries a valid date (patterns with the calendar field and templates of other calendars:
    `C08Calendar.lean`, `date_success_valid_all`) -/
theorem date_success_valid (cu : Culture) (hcu : cu.monthHeadsEmpty = true) (ptext : Text) (p : Pat)
    (hp : compileDate cu ptext = .ok p) (hnc : patNoCal p = true) (l : Text) (v : List Int) (h : parsePat .date l p = .ok (some v)) :
    ∃ y m d, v = [y, m, d] ∧ validDate y m d := by
  obtain ⟨c, rfl, h1, h2, h3⟩ := compileDate_wf cu hcu ptext p hp
  simp only [patNoCal, Bool.not_eq_true'] at hnc
  simp only [parsePat, evalType, hnc, Bool.false_eq_true, if_false] at h
  exact parseCompiled_date_valid c h1 h2 h3 l v h

/-- **success_value_valid** for LocalDateTime: whatever pattern text was accepted, whatever valid ISO template
    value: a successful parse of any text carries a valid date and a time inside the day.  (The pattern object
    parses with `effTmpl tm ptext`: the built-in patterns behind `o O r R s S` keep the default template.)
    Patterns with embedded `ld<…>` / `lt<…>` parts (`Pat.segmented`) are not covered by this theorem. -/
theorem datetime_success_valid (tm : Tmpl) (htm : TmplOK tm) (cu : Culture) (hcu : cu.monthHeadsEmpty = true) (ptext : Text)
    (p : Pat) (hp : compileDateTime tm cu ptext = .ok p) (hns : ∀ cu' u s, p ≠ .segmented cu' u s) (hnc : patNoCal p = true)
    (l : Text) (v : List Int)
    (h : parsePat (.datetime (effTmpl tm ptext)) l p = .ok (some v)) :
    ∃ y m d nod, v = [y, m, d, nod] ∧ validDate y m d ∧ 0 ≤ nod ∧ nod < 86400000000000 := by
  obtain ⟨c, rfl, h1, h2, h3⟩ : DtWF p := by
    rcases compileDateTime_wf tm cu hcu ptext p hp with h | ⟨cu', u, s, e⟩
    · exact h
    · exact absurd e (hns cu' u s)
  simp only [patNoCal, Bool.not_eq_true'] at hnc
  simp only [parsePat, evalType, hnc, Bool.false_eq_true, if_false] at h
  have htm' : TmplOK (effTmpl tm ptext) := by
    unfold effTmpl
    split
    · split
      · exact tmplOK_default
      · exact htm
    · exact htm
  exact parseCompiled_datetime_valid _ htm' c h1 h2 h3 l v h

/-! ## AnnualDate -/

theorem compileAnnual_wf (tm td : Int) (cu : Culture) (hcu : cu.monthHeadsEmpty = true) (ptext : Text) (p : Pat)
    (h : compileAnnual tm td cu ptext = .ok p) : DtWF p := by
  unfold compileAnnual at h
  split at h
  · cases h
  · split at h
    · exact steppedOf_wf (.annual tm td) rfl _ invariantCulture_monthHeadsEmpty _ p h
    · cases h
  · exact steppedOf_wf (.annual tm td) rfl _ hcu _ p h

/-- `_AnnualDateParseBucket.calculate_value`: a success is a month 1 … 12 and a day of that month (leap year 2000) -/
theorem annualValue_valid (tm td : Int) (ht : 1 ≤ tm ∧ 1 ≤ td) (used : Nat) (b : Bucket) (fm fd ft : Bool)
    (hb : DtOK fm fd ft b)
    (s1 : hasAny used F.monthNum = true → fm = true) (s2 : hasAny used F.dayOfMonth = true → fd = true)
    (s3 : hasAny used F.monthText = true → ft = true)
    (m d : Int) (h : annualValue tm td used b = some (m, d)) :
    1 ≤ m ∧ m ≤ 12 ∧ 1 ≤ d ∧ d ≤ daysInMonth 2000 m := by
  unfold annualValue at h
  cases hmo : determineMonth tm used b with
  | none => rw [hmo] at h; cases h
  | some m' =>
    rw [hmo] at h; dsimp only at h
    have hmr : 1 ≤ m' ∧ m' ≤ 12 := by
      unfold determineMonth at hmo
      dsimp only at hmo
      split at hmo
      · cases hmo
      · rename_i mm hmm
        split at hmo
        · cases hmo
        · injection hmo with hmo
          subst hmo
          refine ⟨?_, by omega⟩
          split at hmm
          · rename_i hp
            injection hmm with hmm; rw [← hmm]
            exact hb.mo (s1 (by
              unfold hasAny
              have : used &&& F.monthNum = (used &&& (F.monthNum ||| F.monthText)) &&& F.monthNum := by
                rw [Nat.and_assoc]; rfl
              rw [this, hp]; decide))
          · split at hmm
            · rename_i hp
              injection hmm with hmm; rw [← hmm]
              exact hb.mt (s3 (by
                unfold hasAny
                have : used &&& F.monthText = (used &&& (F.monthNum ||| F.monthText)) &&& F.monthText := by
                  rw [Nat.and_assoc]; rfl
                rw [this, hp]; decide))
            · split at hmm
              · rename_i hp
                split at hmm
                · cases hmm
                · injection hmm with hmm; rw [← hmm]
                  exact hb.mo (s1 (by
                    unfold hasAny
                    have : used &&& F.monthNum = (used &&& (F.monthNum ||| F.monthText)) &&& F.monthNum := by
                      rw [Nat.and_assoc]; rfl
                    rw [this, hp]; decide))
              · injection hmm with hmm; rw [← hmm]; exact ht.1
    generalize hdd : (if hasAny used F.dayOfMonth = true then b .dayOfMonth else td) = dd at h
    have hd1 : 1 ≤ dd := by
      rw [← hdd]; split
      · rename_i hd; exact hb.dy (s2 hd)
      · exact ht.2
    split at h
    · cases h
    · injection h with h; injection h with e1 e2
      subst e1; subst e2
      exact ⟨hmr.1, hmr.2, hd1, by omega⟩

/-- **success_value_valid** for AnnualDate: whatever pattern text was accepted, whatever template value: a successful
    parse of any text carries a month 1 … 12 and a day that month has (in a leap year) -/
theorem annual_success_valid (tm td : Int) (ht : 1 ≤ tm ∧ 1 ≤ td) (cu : Culture) (hcu : cu.monthHeadsEmpty = true)
    (ptext : Text) (p : Pat) (hp : compileAnnual tm td cu ptext = .ok p) (l : Text) (v : List Int)
    (h : parsePat (.annual tm td) l p = .ok (some v)) :
    ∃ m d, v = [m, d] ∧ 1 ≤ m ∧ m ≤ 12 ∧ 1 ≤ d ∧ d ≤ daysInMonth 2000 m := by
  obtain ⟨c, rfl, hc, hw, hs⟩ := compileAnnual_wf tm td cu hcu ptext p hp
  simp only [parsePat, evalType] at h
  unfold parseCompiled at h
  split at h
  · cases h
  · cases hps : parseSteps c.cu c.steps l (bucket0 (.annual tm td)) with
    | error e => rw [hps] at h; cases h
    | ok o =>
      rw [hps] at h
      cases o with
      | none => cases h
      | some q =>
        obtain ⟨b, rest⟩ := q
        dsimp only at h
        have hb := parseSteps_dt_ok c.cu hc c.steps l _ b rest false false false hw dateBucket0_ok hps
        obtain ⟨s1, s2, s3⟩ := fieldsSound_flags c.used c.steps hs
        unfold bucketValue at h
        dsimp only at h
        cases hv : annualValue tm td c.used b with
        | none => rw [hv] at h; cases h
        | some w =>
          obtain ⟨m, d⟩ := w
          rw [hv] at h
          simp only [Option.map] at h
          split at h
          · injection h with h; injection h with h
            exact ⟨m, d, h.symm, annualValue_valid tm td ht c.used b _ _ _ hb s1 s2 s3 m d hv⟩
          · cases h

/-! ## Duration -/

/-- `_DurationParseBucket.calculate_value`: a success is a Duration inside the type's range -/
theorem durationValue_valid (b : Bucket) (fd n : Int) (h : durationValue b = .ok (some (fd, n))) :
    -1073741824 ≤ fd ∧ fd ≤ 1073741823 ∧ 0 ≤ n ∧ n < 86400000000000 := by
  unfold durationValue at h
  dsimp only at h
  generalize (if b .sign = 1 then -(b .dayOfMonth * NPD + b .hours24 * NPH + b .minutes * NPMin + b .seconds * NPS + b .fraction)
    else b .dayOfMonth * NPD + b .hours24 * NPH + b .minutes * NPMin + b .seconds * NPS + b .fraction) = x at h
  by_cases hx : x < DUR_MIN_NANOS ∨ x > DUR_MAX_NANOS
  · rw [if_pos hx] at h; cases h
  · rw [if_neg hx, durFromNanos_ok x (by omega) (by omega)] at h
    injection h with h; injection h with h; injection h with e1 e2
    unfold DUR_MIN_NANOS DUR_MAX_NANOS NPD at hx
    unfold NPD at e1 e2
    omega

theorem compileDuration_patOK (cu : Culture) (ptext : Text) (p : Pat) (h : compileDuration cu ptext = .ok p) :
    patOK p = true := by
  unfold compileDuration at h
  split at h
  · cases h
  · repeat' (first | exact steppedOf_patOK .duration rfl _ _ p h | cases h | split at h)
  · exact steppedOf_patOK .duration rfl _ _ p h

theorem compileAnnual_patOK (tm td : Int) (cu : Culture) (ptext : Text) (p : Pat) (h : compileAnnual tm td cu ptext = .ok p) :
    patOK p = true := by
  unfold compileAnnual at h
  split at h
  · cases h
  · repeat' (first | exact steppedOf_patOK (.annual tm td) rfl _ _ p h | cases h | split at h)
  · exact steppedOf_patOK (.annual tm td) rfl _ _ p h

/-- **parse_total** for AnnualDate and Duration patterns: whatever pattern text was accepted, in whatever culture
    record, parsing any text returns a result value (a success or a failure), never an exception -/
theorem annual_parse_total (tm td : Int) (cu : Culture) (ptext : Text) (p : Pat) (h : compileAnnual tm td cu ptext = .ok p)
    (l : Text) : ∃ r, parsePat (.annual tm td) l p = .ok r :=
  parsePat_total _ rfl l p (compileAnnual_patOK tm td cu ptext p h)

theorem duration_parse_total (cu : Culture) (ptext : Text) (p : Pat) (h : compileDuration cu ptext = .ok p) (l : Text) :
    ∃ r, parsePat .duration l p = .ok r :=
  parsePat_total _ rfl l p (compileDuration_patOK cu ptext p h)

/-- **success_value_valid** for Duration: every pattern object, whatever its steps: a success is a Duration between
    `Duration.min_value` and `Duration.max_value` with a nanosecond of day inside the day -/
theorem parseCompiled_duration_valid (c : Compiled) (l : Text) (v : List Int)
    (h : parseCompiled .duration c l = .ok (some v)) :
    ∃ fd n, v = [fd, n] ∧ -1073741824 ≤ fd ∧ fd ≤ 1073741823 ∧ 0 ≤ n ∧ n < 86400000000000 := by
  unfold parseCompiled at h
  split at h
  · cases h
  · cases hps : parseSteps c.cu c.steps l (bucket0 .duration) with
    | error e => rw [hps] at h; cases h
    | ok o =>
      rw [hps] at h
      cases o with
      | none => cases h
      | some q =>
        obtain ⟨b, rest⟩ := q
        dsimp only at h
        unfold bucketValue at h
        dsimp only at h
        cases hv : durationValue b with
        | error e => rw [hv] at h; cases h
        | ok ov =>
          rw [hv] at h
          cases ov with
          | none => cases h
          | some w =>
            obtain ⟨fd, n⟩ := w
            simp only [mapR, Option.map] at h
            split at h
            · injection h with h; injection h with h
              exact ⟨fd, n, h.symm, durationValue_valid b fd n hv⟩
            · cases h

theorem duration_success_valid (cu : Culture) (ptext : Text) (p : Pat) (hp : compileDuration cu ptext = .ok p) (l : Text)
    (v : List Int) (h : parsePat .duration l p = .ok (some v)) :
    ∃ fd n, v = [fd, n] ∧ -1073741824 ≤ fd ∧ fd ≤ 1073741823 ∧ 0 ≤ n ∧ n < 86400000000000 := by
  have : ∃ c, p = .stepped c := by
    unfold compileDuration at hp
    have key : ∀ cu' t, steppedOf (compileCustom .duration cu' t) = .ok p → ∃ c, p = .stepped c := by
      intro cu' t hh
      unfold steppedOf at hh
      cases hc : compileCustom .duration cu' t with
      | error e => rw [hc] at hh; cases hh
      | ok c => rw [hc] at hh; injection hh with hh; exact ⟨c, hh.symm⟩
    split at hp
    · cases hp
    · repeat' (first | exact key _ _ hp | cases hp | split at hp)
    · exact key _ _ hp
  obtain ⟨c, rfl⟩ := this
  simp only [parsePat, evalType] at h
  exact parseCompiled_duration_valid c l v h

/-- **parse_total** for LocalDate and LocalDateTime pattern objects without a calendar field (`patOK`): for every
    text a success or a failure result, never an exception (era and text fields included) -/
theorem datetime_parse_total (tm : Tmpl) (p : Pat)
    (hp : patOK p = true ∨ ∃ cu used segs, p = .segmented cu used segs ∧ segs.all segOK = true) (l : Text) :
    ∃ r, parsePat (.datetime tm) l p = .ok r := by
  rcases hp with hp | ⟨cu, used, segs, rfl, hs⟩
  · exact parsePat_total (.datetime tm) rfl l p hp
  · simp only [parsePat]
    rw [segsUseCalendar_of_segOK segs hs]
    exact parseSegmented_total tm cu used segs l hs

/-- Instant patterns are LocalDateTime patterns behind an adapter: creation is total, and the LocalDateTime theorems
    apply to the pattern object (`compileInstant` builds it with `compileDTText`) -/
theorem compileInstant_wf (tm : Tmpl) (cu : Culture) (hcu : cu.monthHeadsEmpty = true) (ptext : Text) (p : Pat)
    (h : compileInstant tm cu ptext = .ok p) : DtWF p ∨ ∃ cu' used segs, p = .segmented cu' used segs := by
  unfold compileInstant at h
  split at h
  · cases h
  · split at h
    · exact compileDTText_wf tm cu hcu _ p h
    · cases h
  · exact compileDTText_wf tm cu hcu _ p h

/-- **success_value_valid** for Instant patterns without embedded parts: the parsed UTC date-time is a valid date and
    a time inside the day (its conversion to an Instant, `Instant._ctor(days, nano_of_day)`, is outside this model) -/
theorem instant_success_valid (tm : Tmpl) (htm : TmplOK tm) (cu : Culture) (hcu : cu.monthHeadsEmpty = true) (ptext : Text)
    (p : Pat) (hp : compileInstant tm cu ptext = .ok p) (hns : ∀ cu' u s, p ≠ .segmented cu' u s) (hnc : patNoCal p = true)
    (l : Text) (v : List Int)
    (h : parsePat (.datetime tm) l p = .ok (some v)) :
    ∃ y m d nod, v = [y, m, d, nod] ∧ validDate y m d ∧ 0 ≤ nod ∧ nod < 86400000000000 := by
  obtain ⟨c, rfl, h1, h2, h3⟩ : DtWF p := by
    rcases compileInstant_wf tm cu hcu ptext p hp with h | ⟨cu', u, s, e⟩
    · exact h
    · exact absurd e (hns cu' u s)
  simp only [patNoCal, Bool.not_eq_true'] at hnc
  simp only [parsePat, evalType, hnc, Bool.false_eq_true, if_false] at h
  exact parseCompiled_datetime_valid _ htm c h1 h2 h3 l v h

end Pyoda.C08
