/-
  C09 — assembly: every calendar of the library satisfies `DateLaws` (and `MonthStartLaws`), so the `Period.between`
  theorems of `C09Between.lean` (dates, year-months) and `C09DateTime.lean` (date-times) apply to all 19 ordinals.

  `Evaluated` collects the hypotheses that are discharged by evaluation on the compiled driver on every run of the
  check (harness/c09.py, oracle "evaluated-hypotheses"): C01's `wfCheck` for the five calendars without a symbolic
  `WF` instance (ops `cal.wf 4|5|8|17|18`) and `yearLenCheck` for the two Hebrew calendars (ops `date.wf 4|5`).
-/
import PyodaModel.DateArith
import PyodaProofs.C09Instances
import PyodaProofs.C09Between
import PyodaProofs.C09DateTime
import PyodaProofs.C09Badi
import PyodaProofs.C09HebrewMonths

namespace Pyoda.C09
open Pyoda Pyoda.Calendar Pyoda.DateArith Pyoda.C01

structure Evaluated : Prop where
  wf_hebrewCivil : wfCheck (Heb.cal false) = true
  wf_hebrewScriptural : wfCheck (Heb.cal true) = true
  wf_persianAstronomical : wfCheck Pers.astronomical = true
  wf_umAlQura : wfCheck UAQ.cal = true
  wf_badi : wfCheck Badi.cal = true
  len_hebrewCivil : yearLenCheck (Heb.cal false) = true
  len_hebrewScriptural : yearLenCheck (Heb.cal true) = true

theorem dateLaws_badi (hw : WF Badi.cal) : DateLaws badiCal :=
  ⟨hw, yearLen_badi, badi_yearsField_law hw, badi_monthsField_law hw⟩

/-- every calendar ordinal has `DateLaws` -/
theorem dateLaws_all (H : Evaluated) (n : Nat) (k : Cal) (hk : Cal.ofOrd n = some k) : DateLaws k := by
  obtain ⟨i1, i2, i3, i4, i5, i6, i7, i8⟩ := regular_islamic_all
  have hn : n < 19 := by
    by_cases h : n < 19
    · exact h
    · have : calcOf n = none := by
        unfold calcOf
        split <;> first | rfl | omega
      unfold Cal.ofOrd at hk; rw [this] at hk; cases hk
  have cases19 : n = 0 ∨ n = 1 ∨ n = 2 ∨ n = 3 ∨ n = 4 ∨ n = 5 ∨ n = 6 ∨ n = 7 ∨ n = 8 ∨ n = 9 ∨ n = 10 ∨ n = 11 ∨
      n = 12 ∨ n = 13 ∨ n = 14 ∨ n = 15 ∨ n = 16 ∨ n = 17 ∨ n = 18 := by omega
  rcases cases19 with rfl | rfl | rfl | rfl | rfl | rfl | rfl | rfl | rfl | rfl | rfl | rfl | rfl | rfl | rfl | rfl | rfl | rfl | rfl <;>
    (have hk' := (Option.some.inj hk).symm; subst hk')
  · exact dateLaws_regular _ 12 regular_gregorian yearLen_gregorian
  · exact dateLaws_regular _ 12 ⟨rfl, greg_wf, Or.inl rfl, fun _ => rfl, rfl⟩ yearLen_gregorian
  · exact dateLaws_regular _ 12 regular_julian yearLen_julian
  · exact dateLaws_regular _ 13 regular_coptic yearLen_coptic
  · exact dateLaws_hebrew false (wfCheck_sound _ H.wf_hebrewCivil) (yearLenCheck_sound _ H.len_hebrewCivil)
  · exact dateLaws_hebrew true (wfCheck_sound _ H.wf_hebrewScriptural) (yearLenCheck_sound _ H.len_hebrewScriptural)
  · exact dateLaws_regular _ 12 regular_persianSimple (yearLen_persian _ _ _)
  · exact dateLaws_regular _ 12 regular_persianArithmetic (yearLen_persian _ _ _)
  · exact dateLaws_regular _ 12 (regular_persianAstronomical H.wf_persianAstronomical) (yearLen_persian _ _ _)
  · exact dateLaws_regular _ 12 i1 (yearLen_islamic _ _)
  · exact dateLaws_regular _ 12 i2 (yearLen_islamic _ _)
  · exact dateLaws_regular _ 12 i3 (yearLen_islamic _ _)
  · exact dateLaws_regular _ 12 i4 (yearLen_islamic _ _)
  · exact dateLaws_regular _ 12 i5 (yearLen_islamic _ _)
  · exact dateLaws_regular _ 12 i6 (yearLen_islamic _ _)
  · exact dateLaws_regular _ 12 i7 (yearLen_islamic _ _)
  · exact dateLaws_regular _ 12 i8 (yearLen_islamic _ _)
  · exact dateLaws_regular _ 12 (regular_umAlQura H.wf_umAlQura) yearLen_umAlQura
  · exact dateLaws_badi (wfCheck_sound _ H.wf_badi)

/-- `Period.between` on dates, every calendar: units asked for, one sign, bounded, hits the end with days -/
theorem between_dates_all (H : Evaluated) (n : Nat) (k : Cal) (hk : Cal.ofOrd n = some k) (mask : Nat)
    (hmask : 0 < mask ∧ mask < 16) (s e : Ymd) (hs : Valid k.c s) (he : Valid k.c e) :
    ∃ y m w d r, betweenDates k mask s e = .ok [y, m, w, d, 0, 0, 0, 0, 0, 0] ∧
      plusParts (yearsField k) (monthsField k) (weeksField k) (daysField k) s y m w d = .ok r ∧ Valid k.c r ∧
      (bit mask 0 = false → y = 0) ∧ (bit mask 1 = false → m = 0) ∧ (bit mask 2 = false → w = 0) ∧
      (bit mask 3 = false → d = 0) ∧
      (dayNo k.c s ≤ dayNo k.c e → 0 ≤ y ∧ 0 ≤ m ∧ 0 ≤ w ∧ 0 ≤ d ∧ dayNo k.c s ≤ dayNo k.c r ∧ dayNo k.c r ≤ dayNo k.c e) ∧
      (dayNo k.c e ≤ dayNo k.c s → y ≤ 0 ∧ m ≤ 0 ∧ w ≤ 0 ∧ d ≤ 0 ∧ dayNo k.c e ≤ dayNo k.c r ∧ dayNo k.c r ≤ dayNo k.c s) ∧
      (bit mask 3 = true → r = e) :=
  betweenDates_laws k (dateLaws_all H n k hk) mask hmask s e hs he

/-- plus_days / plus_weeks are exact in every calendar (the side conditions of `plusDays_exact` hold for all ordinals) -/
theorem plusDays_exact_all (H : Evaluated) (n : Nat) (k : Cal) (hk : Cal.ofOrd n = some k) (u : Int) (p : Ymd)
    (hv : Valid k.c p) (v : Int) : ExactAt k.c (addFixed k.c u p v) (dayNo k.c p + v * u) :=
  addFixed_exact (dateLaws_all H n k hk).wf (dateLaws_all H n k hk).ylen u p hv v

/-- `plus_months` and `plus_years` never return an invalid date, in any calendar: the units satisfy `FieldLaw`, and
    every successful addition is valid (regular family: `CoarseUnit.add_inv`; Badi: `badi_addMonths_valid`,
    `badi_setYear_valid`; Hebrew: `heb_addMonths_valid`, `heb_setYear_valid`). -/
theorem plusMonths_valid_all (H : Evaluated) (n : Nat) (k : Cal) (hk : Cal.ofOrd n = some k) (s : Ymd) (hs : Valid k.c s)
    (v : Int) (r : Ymd) (hr : addMonths k s v = .ok r) : Valid k.c r := by
  obtain ⟨i1, i2, i3, i4, i5, i6, i7, i8⟩ := regular_islamic_all
  have hn : n < 19 := by
    by_cases h : n < 19
    · exact h
    · have : calcOf n = none := by
        unfold calcOf
        split <;> first | rfl | omega
      unfold Cal.ofOrd at hk; rw [this] at hk; cases hk
  have reg : ∀ (k : Cal) (M : Int), RegularCal k M → ∀ s, Valid k.c s → ∀ v r, addMonths k s v = .ok r → Valid k.c r :=
    fun k M hR s hs v r hr => ((monthsField_unit k M hR).add_inv s v r hs hr).1
  have cases19 : n = 0 ∨ n = 1 ∨ n = 2 ∨ n = 3 ∨ n = 4 ∨ n = 5 ∨ n = 6 ∨ n = 7 ∨ n = 8 ∨ n = 9 ∨ n = 10 ∨ n = 11 ∨
      n = 12 ∨ n = 13 ∨ n = 14 ∨ n = 15 ∨ n = 16 ∨ n = 17 ∨ n = 18 := by omega
  rcases cases19 with rfl | rfl | rfl | rfl | rfl | rfl | rfl | rfl | rfl | rfl | rfl | rfl | rfl | rfl | rfl | rfl | rfl | rfl | rfl <;>
    (have hk' := (Option.some.inj hk).symm; subst hk')
  · exact reg _ 12 regular_gregorian s hs v r hr
  · exact reg _ 12 ⟨rfl, greg_wf, Or.inl rfl, fun _ => rfl, rfl⟩ s hs v r hr
  · exact reg _ 12 regular_julian s hs v r hr
  · exact reg _ 13 regular_coptic s hs v r hr
  · exact heb_addMonths_valid false (wfCheck_sound _ H.wf_hebrewCivil) s hs v r hr
  · exact heb_addMonths_valid true (wfCheck_sound _ H.wf_hebrewScriptural) s hs v r hr
  · exact reg _ 12 regular_persianSimple s hs v r hr
  · exact reg _ 12 regular_persianArithmetic s hs v r hr
  · exact reg _ 12 (regular_persianAstronomical H.wf_persianAstronomical) s hs v r hr
  · exact reg _ 12 i1 s hs v r hr
  · exact reg _ 12 i2 s hs v r hr
  · exact reg _ 12 i3 s hs v r hr
  · exact reg _ 12 i4 s hs v r hr
  · exact reg _ 12 i5 s hs v r hr
  · exact reg _ 12 i6 s hs v r hr
  · exact reg _ 12 i7 s hs v r hr
  · exact reg _ 12 i8 s hs v r hr
  · exact reg _ 12 (regular_umAlQura H.wf_umAlQura) s hs v r hr
  · exact badi_addMonths_valid (wfCheck_sound _ H.wf_badi) s hs v r hr

/-- `plus_years` never returns an invalid date: a successful `_YearsPeriodField.add` is a valid date of the target year -/
theorem plusYears_valid_all (H : Evaluated) (n : Nat) (k : Cal) (hk : Cal.ofOrd n = some k) (s : Ymd) (hs : Valid k.c s)
    (v : Int) (r : Ymd) (hr : addYears k s v = .ok r) : Valid k.c r ∧ r.1 = s.1 + v := by
  have L := dateLaws_all H n k hk
  -- `FieldLaw` alone does not expose the inverse; go through the per-family `_set_year` lemmas
  obtain ⟨i1, i2, i3, i4, i5, i6, i7, i8⟩ := regular_islamic_all
  have hn : n < 19 := by
    by_cases h : n < 19
    · exact h
    · have : calcOf n = none := by
        unfold calcOf
        split <;> first | rfl | omega
      unfold Cal.ofOrd at hk; rw [this] at hk; cases hk
  have reg : ∀ (k : Cal) (M : Int), RegularCal k M → ∀ s, Valid k.c s → ∀ v r, addYears k s v = .ok r → Valid k.c r ∧ r.1 = s.1 + v :=
    fun k M hR s hs v r hr => (yearsField_unit k M hR).add_inv s v r hs hr
  have gen : ∀ (k : Cal) (hw : WF k.c), (∀ s Y, Valid k.c s → k.c.minYear ≤ Y → Y ≤ k.c.maxYear →
      ∃ r, setYear k s Y = .ok r ∧ Valid k.c r ∧ r.1 = Y) → ∀ s, Valid k.c s → ∀ v r, addYears k s v = .ok r →
      Valid k.c r ∧ r.1 = s.1 + v :=
    fun k hw hset s hs v r hr => (yearsField_unit_of_setYear k hw hset).add_inv s v r hs hr
  have cases19 : n = 0 ∨ n = 1 ∨ n = 2 ∨ n = 3 ∨ n = 4 ∨ n = 5 ∨ n = 6 ∨ n = 7 ∨ n = 8 ∨ n = 9 ∨ n = 10 ∨ n = 11 ∨
      n = 12 ∨ n = 13 ∨ n = 14 ∨ n = 15 ∨ n = 16 ∨ n = 17 ∨ n = 18 := by omega
  rcases cases19 with rfl | rfl | rfl | rfl | rfl | rfl | rfl | rfl | rfl | rfl | rfl | rfl | rfl | rfl | rfl | rfl | rfl | rfl | rfl <;>
    (have hk' := (Option.some.inj hk).symm; subst hk')
  · exact reg _ 12 regular_gregorian s hs v r hr
  · exact reg _ 12 ⟨rfl, greg_wf, Or.inl rfl, fun _ => rfl, rfl⟩ s hs v r hr
  · exact reg _ 12 regular_julian s hs v r hr
  · exact reg _ 13 regular_coptic s hs v r hr
  · exact gen (hebCal false) (wfCheck_sound _ H.wf_hebrewCivil)
      (fun s Y hs h1 h2 => heb_setYear_valid false (wfCheck_sound _ H.wf_hebrewCivil) s Y hs h1 h2) s hs v r hr
  · exact gen (hebCal true) (wfCheck_sound _ H.wf_hebrewScriptural)
      (fun s Y hs h1 h2 => heb_setYear_valid true (wfCheck_sound _ H.wf_hebrewScriptural) s Y hs h1 h2) s hs v r hr
  · exact reg _ 12 regular_persianSimple s hs v r hr
  · exact reg _ 12 regular_persianArithmetic s hs v r hr
  · exact reg _ 12 (regular_persianAstronomical H.wf_persianAstronomical) s hs v r hr
  · exact reg _ 12 i1 s hs v r hr
  · exact reg _ 12 i2 s hs v r hr
  · exact reg _ 12 i3 s hs v r hr
  · exact reg _ 12 i4 s hs v r hr
  · exact reg _ 12 i5 s hs v r hr
  · exact reg _ 12 i6 s hs v r hr
  · exact reg _ 12 i7 s hs v r hr
  · exact reg _ 12 i8 s hs v r hr
  · exact reg _ 12 (regular_umAlQura H.wf_umAlQura) s hs v r hr
  · exact gen badiCal (wfCheck_sound _ H.wf_badi)
      (fun s Y hs h1 h2 => badi_setYear_valid (wfCheck_sound _ H.wf_badi) s Y hs h1 h2) s hs v r hr

end Pyoda.C09
