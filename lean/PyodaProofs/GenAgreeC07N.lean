/-
  GenAgreeC07N — agreement between the numeric core of the text engine GENERATED from pyoda_time's Python source
  (`PyodaGen/C07N.lean`: `_FormatHelper`, `_TextCursor`, `_ValueCursor`) and the hand-written model
  (`PyodaModel/Text/Numeric.lean`), shared by C07, C08 and C17 (builder T4).
  What Python's str operations and format specifications mean is `PyodaGen/TextSupport.lean` (compared with CPython by the
  translator self-test); the first part of this file proves those definitions equal to the model's `padN` / `leftPadNonNeg` /
  `padSigned`, the rest proves every generated definition equal to its model function.
  A value cursor `c : VC` (text, length, current character, index) stands for the model's remaining text `c.value.drop c.index`;
  `c.WF` says what `_TextCursor.__init__` and every `move` establish.
-/
import PyodaGen.C07N
import PyodaModel.Text
import PyodaProofs.TextLemmas

set_option linter.unusedSimpArgs false

namespace Pyoda.GenAgree.C07N
open Pyoda Pyoda.Text Pyoda.Gen Pyoda.Gen.Text

theorem ok_bind {α β} (a : α) (f : α → R β) : ((.ok a : R α) >>= f) = f a := rfl
theorem err_bind {α β} (e : PyExc) (f : α → R β) : ((.error e : R α) >>= f) = .error e := rfl

/-! ## Python's rendering of ints = the model's `padN` -/

theorem digitChar_eq (d : Nat) : digitChar d = Char.ofNat (48 + d % 10) := rfl

theorem pyDigitsAux_eq (f : Nat) : ∀ (n : Nat) (acc : List Char),
    pyDigitsAux f n acc = padN (numDigitsAux f n) n ++ acc := by
  induction f with
  | zero =>
    intro n acc
    simp [pyDigitsAux, numDigitsAux, padN, digitsLE, digitChar_eq]
  | succ f ih =>
    intro n acc
    simp only [pyDigitsAux, numDigitsAux]
    split
    · next h =>
      simp [padN, digitsLE, digitChar_eq, Nat.mod_eq_of_lt h]
    · rw [ih, padN_succ]
      simp [digitChar_eq]

theorem pyStrNat_eq (n : Nat) : pyStrNat n = padN (numDigits n) n := by
  unfold pyStrNat numDigits
  rw [pyDigitsAux_eq]; simp

theorem length_pyStrNat (n : Nat) : (pyStrNat n).length = numDigits n := by
  rw [pyStrNat_eq, length_padN]

theorem padN_zero_val (j : Nat) : padN j 0 = List.replicate j '0' := by
  induction j with
  | zero => simp [padN_zero]
  | succ j ih => rw [padN_succ, ih, List.replicate_succ']; rfl

theorem padN_pad (k : Nat) : ∀ (j v : Nat), v < 10 ^ k → padN (j + k) v = List.replicate j '0' ++ padN k v := by
  induction k with
  | zero =>
    intro j v h
    have : v = 0 := by simpa using h
    subst this
    simp [padN_zero_val]
  | succ k ih =>
    intro j v h
    have h' : v / 10 < 10 ^ k := by
      rw [Nat.div_lt_iff_lt_mul (by decide)]; rw [Nat.pow_succ] at h; exact h
    rw [← Nat.add_assoc, padN_succ, ih j _ h', padN_succ, List.append_assoc]

/-- zero filling up to a width = the model's `leftPadNonNeg` -/
theorem fill_eq_leftPadNonNeg (v w : Nat) :
    List.replicate (w - (pyStrNat v).length) '0' ++ pyStrNat v = leftPadNonNeg v w := by
  rw [length_pyStrNat, pyStrNat_eq]
  unfold leftPadNonNeg
  have hmax : max w (numDigits v) = (w - numDigits v) + numDigits v := by omega
  rw [hmax, padN_pad _ _ _ (lt_pow_numDigits v)]

/-- `format(v, "0N")` = the model's `padSigned` -/
theorem pyZeroPad_eq (v : Int) (n : Nat) : pyZeroPad v n = padSigned v n := by
  unfold pyZeroPad padSigned
  by_cases h : v < 0
  · have h' : ¬ v ≥ 0 := by omega
    simp only [h, h', if_true, if_false]
    rw [fill_eq_leftPadNonNeg]
  · have h' : v ≥ 0 := by omega
    simp only [h, h', if_true, if_false]
    rw [fill_eq_leftPadNonNeg]

theorem pyStrInt_nonneg (v : Int) (h : 0 ≤ v) : pyStrInt v = pyStrNat v.toNat := by
  unfold pyStrInt; simp [show ¬ v < 0 by omega]

/-! ## `_FormatHelper` -/

/-- `_left_pad_non_negative(value, length, buffer)` for `value ≥ 0` (the code is only called so): the buffer gets the model's
    `leftPadNonNeg`; a negative `length = -k` reads, inside the format specification `0>-k`, as width `k` -/
theorem gen_FormatHelper_leftPadNonNegative_eq (sb : SB) (value length : Int) (hv : 0 ≤ value)
    (hw : (length.natAbs : Int) ≤ pyMaxWidth) :
    Gen.C07N.FormatHelper.leftPadNonNegative sb value length
      = .ok ((), ⟨sb.s ++ leftPadNonNeg value.toNat length.natAbs⟩) := by
  unfold Gen.C07N.FormatHelper.leftPadNonNegative pyFmtFillRight
  have : ¬ ((length.natAbs : Int) > pyMaxWidth) := by omega
  simp only [this, if_false, ok_bind, pyStrInt_nonneg value hv, fill_eq_leftPadNonNeg]
  rfl

theorem gen_FormatHelper_leftPadNonNegative_dom (sb : SB) (value length : Int) (hw : (length.natAbs : Int) > pyMaxWidth) :
    Gen.C07N.FormatHelper.leftPadNonNegative sb value length = .error .decimalDomain := by
  unfold Gen.C07N.FormatHelper.leftPadNonNegative pyFmtFillRight
  simp only [hw, if_true, err_bind]

theorem gen_FormatHelper_format2DigitsNonNegative_eq (sb : SB) (value : Int) :
    Gen.C07N.FormatHelper.format2DigitsNonNegative sb value = ((), ⟨sb.s ++ format2 value⟩) := by
  unfold Gen.C07N.FormatHelper.format2DigitsNonNegative format2
  rw [pyZeroPad_eq]; rfl

theorem gen_FormatHelper_format4DigitsValueFits_eq (sb : SB) (value : Int) :
    Gen.C07N.FormatHelper.format4DigitsValueFits sb value = ((), ⟨sb.s ++ format4 value⟩) := by
  unfold Gen.C07N.FormatHelper.format4DigitsValueFits format4
  by_cases h : value < 0
  · simp only [h, if_true, pyZeroPad_eq, SB.append]
    simp
  · simp only [h, if_false, pyZeroPad_eq, SB.append]

/-! ### `_left_pad` -/

theorem slice_zeros (len : Nat) (h : 10 < len) :
    pySlice (['0', '0', '0', '0', '0', '0'] : List Char) (some (16 - (len : Int))) none = List.replicate (intMinZeros len) '0' := by
  have e : (['0', '0', '0', '0', '0', '0'] : List Char) = List.replicate 6 '0' := rfl
  rw [e]
  simp only [pySlice, List.length_replicate, List.take_replicate, List.drop_replicate, Nat.min_self]
  congr 1
  simp only [pySliceBound, intMinZeros]
  grind

/-- `_left_pad(value, length, buffer)` for a width `length = len ≥ 0` -/
theorem gen_FormatHelper_leftPad_eq (sb : SB) (value : Int) (len : Nat) (hw : (len : Int) ≤ pyMaxWidth) :
    Gen.C07N.FormatHelper.leftPad sb value (len : Int) = .ok ((), ⟨sb.s ++ leftPad value len⟩) := by
  unfold Gen.C07N.FormatHelper.leftPad leftPad
  have hna : ((len : Int).natAbs : Int) ≤ pyMaxWidth := by omega
  have hnat : (len : Int).natAbs = len := by omega
  by_cases h0 : value ≥ 0
  · simp only [h0, if_true]
    rw [gen_FormatHelper_leftPadNonNegative_eq sb value len h0 hna, hnat]; rfl
  · simp only [h0, if_false]
    by_cases hm : value = -2147483648
    · simp only [hm, if_true]
      by_cases hl : (len : Int) > 10
      · have hl' : 10 < len := by omega
        have hl'' : ¬ len ≤ 10 := by omega
        simp only [hl, if_true, SB.append, slice_zeros len hl']
        simp [intMinZeros, hl'']
      · have hl'' : len ≤ 10 := by omega
        simp only [hl, if_false, SB.append]
        simp [intMinZeros, hl'']
    · simp only [hm, if_false, SB.append]
      rw [gen_FormatHelper_leftPadNonNegative_eq _ (-value) len (by omega) hna, hnat]
      simp only [ok_bind, List.append_assoc, List.singleton_append]

/-! ### fractions -/

theorem tdiv10_bound (x : Int) (h1 : -decBound < x) (h2 : x < decBound) :
    -decBound < Int.tdiv x 10 ∧ Int.tdiv x 10 < decBound := by
  rw [tdiv_pos _ _ (by decide : (0 : Int) < 10)]
  unfold decBound at *
  split <;> omega

theorem iterTdiv10_bound (k : Nat) : ∀ (x : Int), -decBound < x → x < decBound →
    -decBound < iterTdiv10 k x ∧ iterTdiv10 k x < decBound := by
  induction k with
  | zero => intro x h1 h2; exact ⟨h1, h2⟩
  | succ k ih => intro x h1 h2; exact ih _ (tdiv10_bound x h1 h2).1 (tdiv10_bound x h1 h2).2

theorem appendFraction_loop1 (len : Int) (sb : SB) : ∀ (k fuel : Nat) (rd scale : Int), k < fuel → scale = len + k →
    -decBound < rd → rd < decBound →
    Gen.C07N.FormatHelper.appendFraction.loop1 len fuel rd scale sb = .ok (iterTdiv10 k rd, len, sb) := by
  intro k
  induction k with
  | zero =>
    intro fuel rd scale hf hs _ _
    obtain ⟨f, rfl⟩ : ∃ f, fuel = f + 1 := ⟨fuel - 1, by omega⟩
    have e : scale = len := by omega
    subst e
    simp [Gen.C07N.FormatHelper.appendFraction.loop1, iterTdiv10]
  | succ k ih =>
    intro fuel rd scale hf hs h1 h2
    obtain ⟨f, rfl⟩ : ∃ f, fuel = f + 1 := ⟨fuel - 1, by omega⟩
    have : scale > len := by omega
    simp only [Gen.C07N.FormatHelper.appendFraction.loop1, this, if_true]
    rw [pyTdiv_bind _ _ _ (by decide) h1 h2 (by decide) (by decide)]
    rw [ih f _ (scale - 1) (by omega) (by omega) (tdiv10_bound rd h1 h2).1 (tdiv10_bound rd h1 h2).2]
    rfl

theorem appendFractionTruncate_loop1 (len : Int) (sb : SB) : ∀ (k fuel : Nat) (rd scale : Int), k < fuel → scale = len + k →
    -decBound < rd → rd < decBound →
    Gen.C07N.FormatHelper.appendFractionTruncate.loop1 len fuel rd scale sb = .ok (iterTdiv10 k rd, len, sb) := by
  intro k
  induction k with
  | zero =>
    intro fuel rd scale hf hs _ _
    obtain ⟨f, rfl⟩ : ∃ f, fuel = f + 1 := ⟨fuel - 1, by omega⟩
    have e : scale = len := by omega
    subst e
    simp [Gen.C07N.FormatHelper.appendFractionTruncate.loop1, iterTdiv10]
  | succ k ih =>
    intro fuel rd scale hf hs h1 h2
    obtain ⟨f, rfl⟩ : ∃ f, fuel = f + 1 := ⟨fuel - 1, by omega⟩
    have : scale > len := by omega
    simp only [Gen.C07N.FormatHelper.appendFractionTruncate.loop1, this, if_true]
    rw [pyTdiv_bind _ _ _ (by decide) h1 h2 (by decide) (by decide)]
    rw [ih f _ (scale - 1) (by omega) (by omega) (tdiv10_bound rd h1 h2).1 (tdiv10_bound rd h1 h2).2]
    rfl

/-- when the scale does not exceed the length the loop does not run -/
theorem loop1_fuel (len scale : Nat) : (scale - len : Nat) < (((scale : Int) - (len : Int)).toNat + 1) := by omega

theorem pyFmtZeroPad_eq (v : Int) (n : Nat) (hw : (n : Int) ≤ pyMaxWidth) : pyFmtZeroPad v (n : Int) = .ok (padSigned v n) := by
  unfold pyFmtZeroPad
  have h1 : ¬ ((n : Int) < 0) := by omega
  have h2 : ¬ ((n : Int) > pyMaxWidth) := by omega
  simp only [h1, h2, if_false, pyZeroPad_eq, Int.toNat_natCast]

/-- `_append_fraction(value, length, scale, buffer)`; `|value| < 10^27` is the range in which `_towards_zero_division`
    (a `Decimal` division) is exact truncation -/
theorem gen_FormatHelper_appendFraction_eq (sb : SB) (value : Int) (len scale : Nat) (hw : (len : Int) ≤ pyMaxWidth)
    (h1 : -decBound < value) (h2 : value < decBound) :
    Gen.C07N.FormatHelper.appendFraction sb value (len : Int) (scale : Int)
      = .ok ((), ⟨sb.s ++ appendFraction value len scale⟩) := by
  unfold Gen.C07N.FormatHelper.appendFraction appendFraction
  dsimp only
  by_cases hs : len ≤ scale
  · rw [appendFraction_loop1 (len : Int) sb (scale - len) _ value (scale : Int) (loop1_fuel len scale) (by omega) h1 h2]
    simp only [ok_bind, pyFmtZeroPad_eq _ len hw]
    rfl
  · have e : scale - len = 0 := by omega
    rw [e]
    rw [show Gen.C07N.FormatHelper.appendFraction.loop1 (len : Int) (((scale : Int) - (len : Int)).toNat + 1) value (scale : Int) sb
          = .ok (value, (scale : Int), sb) from by
        simp only [Gen.C07N.FormatHelper.appendFraction.loop1, show ¬ ((scale : Int) > (len : Int)) by omega, if_false]]
    simp only [ok_bind, pyFmtZeroPad_eq _ len hw, iterTdiv10]
    rfl

theorem gen_FormatHelper_formatInvariant_eq (sb : SB) (value : Int) :
    Gen.C07N.FormatHelper.formatInvariant sb value = ((), ⟨sb.s ++ pyStrInt value⟩) := rfl

/-- `str(value)` of a non-negative value is the model's shortest rendering -/
theorem pyStrInt_eq_leftPadNonNeg (n : Nat) : pyStrInt (n : Int) = leftPadNonNeg n 0 := by
  rw [pyStrInt_nonneg _ (by omega), ← fill_eq_leftPadNonNeg]; simp

/-! ### `_append_fraction_truncate` -/

theorem stripZeros_le (n : Nat) : ∀ r : Int, (stripZeros n r).2 ≤ n := by
  induction n with
  | zero => intro r; simp [stripZeros]
  | succ n ih =>
    intro r
    unfold stripZeros
    split
    · exact Nat.le_refl _
    · exact Nat.le_succ_of_le (ih _)

theorem appendFractionTruncate_loop2 (sb : SB) : ∀ (n fuel : Nat) (rd : Int), n < fuel → -decBound < rd → rd < decBound →
    Gen.C07N.FormatHelper.appendFractionTruncate.loop2 fuel rd (n : Int) sb
      = .ok ((stripZeros n rd).1, ((stripZeros n rd).2 : Int), sb) := by
  intro n
  induction n with
  | zero =>
    intro fuel rd hf _ _
    obtain ⟨f, rfl⟩ : ∃ f, fuel = f + 1 := ⟨fuel - 1, by omega⟩
    simp [Gen.C07N.FormatHelper.appendFractionTruncate.loop2, stripZeros]
  | succ n ih =>
    intro fuel rd hf h1 h2
    obtain ⟨f, rfl⟩ : ∃ f, fuel = f + 1 := ⟨fuel - 1, by omega⟩
    have hpos : ((n + 1 : Nat) : Int) > 0 := by omega
    have hsub : ((n + 1 : Nat) : Int) - 1 = (n : Int) := by omega
    simp only [Gen.C07N.FormatHelper.appendFractionTruncate.loop2, hpos, if_true, stripZeros]
    by_cases hc : csharpMod rd 10 ≠ 0
    · rw [if_pos hc, if_pos hc]
    · rw [if_neg hc, if_neg hc]
      rw [pyTdiv_bind _ _ _ (by decide) h1 h2 (by decide) (by decide), hsub]
      exact ih f _ (by omega) (tdiv10_bound rd h1 h2).1 (tdiv10_bound rd h1 h2).2

theorem appendFractionTruncate_loop1_run (sb : SB) (value : Int) (len scale : Nat) (h1 : -decBound < value) (h2 : value < decBound) :
    ∃ sc, Gen.C07N.FormatHelper.appendFractionTruncate.loop1 (len : Int) (((scale : Int) - (len : Int)).toNat + 1) value (scale : Int) sb
      = .ok (iterTdiv10 (scale - len) value, sc, sb) := by
  by_cases hs : len ≤ scale
  · exact ⟨len, appendFractionTruncate_loop1 (len : Int) sb (scale - len) _ value (scale : Int) (loop1_fuel len scale) (by omega) h1 h2⟩
  · refine ⟨scale, ?_⟩
    have e : scale - len = 0 := by omega
    rw [e]
    simp only [Gen.C07N.FormatHelper.appendFractionTruncate.loop1, show ¬ ((scale : Int) > (len : Int)) by omega, if_false, iterTdiv10]

theorem pyStrIndex_last (s : PyText) (h : s ≠ []) : pyStrIndex s ((s.length : Int) - 1) = .ok (s.getLast h) := by
  have hl : 0 < s.length := List.length_pos_iff.mpr h
  unfold pyStrIndex
  have h1 : ¬ ((s.length : Int) - 1 < 0) := by omega
  have h2 : (0 ≤ (s.length : Int) - 1 ∧ (s.length : Int) - 1 < (s.length : Int)) := by omega
  simp only [h1, if_false, h2, and_self, if_true]
  have e : ((s.length : Int) - 1).toNat = s.length - 1 := by omega
  have hlt : s.length - 1 < s.length := by omega
  rw [e, List.getLast_eq_getElem, List.getElem?_eq_getElem hlt]

theorem pySlice_dropLast (s : PyText) (h : s ≠ []) : pySlice s none (some ((s.length : Int) - 1)) = s.dropLast := by
  have hl : 0 < s.length := List.length_pos_iff.mpr h
  unfold pySlice pySliceBound
  have h1 : ¬ ((s.length : Int) - 1 < 0) := by omega
  have h2 : ¬ ((s.length : Int) - 1 > (s.length : Int)) := by omega
  have e : ((s.length : Int) - 1).toNat = s.length - 1 := by omega
  simp only [h1, h2, if_false, e, List.drop_zero, List.dropLast_eq_take]

/-- `_append_fraction_truncate(value, length, scale, buffer)`: the new contents of the buffer -/
theorem gen_FormatHelper_appendFractionTruncate_eq (sb : SB) (value : Int) (len scale : Nat) (hw : (len : Int) ≤ pyMaxWidth)
    (h1 : -decBound < value) (h2 : value < decBound) :
    Gen.C07N.FormatHelper.appendFractionTruncate sb value (len : Int) (scale : Int)
      = .ok ((), ⟨appendFractionTruncate value len scale sb.s⟩) := by
  unfold Gen.C07N.FormatHelper.appendFractionTruncate appendFractionTruncate
  dsimp only
  obtain ⟨sc, hsc⟩ := appendFractionTruncate_loop1_run sb value len scale h1 h2
  rw [hsc]
  simp only [ok_bind]
  have hb := iterTdiv10_bound (scale - len) value h1 h2
  rw [appendFractionTruncate_loop2 sb len _ _ (by omega) hb.1 hb.2]
  simp only [ok_bind]
  have hle := stripZeros_le len (iterTdiv10 (scale - len) value)
  generalize stripZeros len (iterTdiv10 (scale - len) value) = p at hle
  by_cases hp : p.2 > 0
  · have hp' : ((p.2 : Nat) : Int) > 0 := by omega
    simp only [hp, hp', if_true]
    rw [pyFmtZeroPad_eq _ _ (by omega)]
    rfl
  · have hp' : ¬ ((p.2 : Nat) : Int) > 0 := by omega
    simp only [hp, hp', if_false]
    by_cases hs : sb.s = []
    · cases sb; simp_all [SB.length]
    · have hl : 0 < sb.s.length := List.length_pos_iff.mpr hs
      have hlen : ((sb.s.length : Nat) : Int) > 0 := by omega
      simp only [hlen, if_true, SB.getitem, SB.length, pyStrIndex_last sb.s hs, ok_bind]
      rw [List.getLast?_eq_some_getLast hs]
      by_cases hd : sb.s.getLast hs = '.'
      · have : pyChrEq (sb.s.getLast hs) '.' = true := by simp [pyChrEq, hd]
        simp only [this, if_true, hd]
        unfold SB.setLength
        have hr : (0 ≤ (sb.s.length : Int) - 1 ∧ (sb.s.length : Int) - 1 ≤ (sb.s.length : Int)) := by omega
        simp only [hr, and_self, if_true, ok_bind, pySlice_dropLast sb.s hs, hlen]
        simp [pyChrEq]
      · have : ¬ (pyChrEq (sb.s.getLast hs) '.' = true) := by simp [pyChrEq, hd]
        have hd' : ¬ (some (sb.s.getLast hs) = some '.') := by simpa using hd
        simp only [this, if_false, hd', hlen, if_true]
        rfl

/-! ## `_TextCursor` / `_ValueCursor`

A cursor over the text `v` at index `i` is the state `VC.at v i` (what `__init__` and every `move` leave: the length is
`len(v)`, the current character is `v[i]` inside the text and `'\0'` outside).  The model's "remaining text" is `v.drop i`. -/

def NUL : Char := Char.ofNat 0

def VC.at (v : PyText) (i : Int) : VC :=
  ⟨v, (v.length : Int), if 0 ≤ i ∧ i < (v.length : Int) then v.getD i.toNat NUL else NUL, i⟩

theorem pyStrIndex_ok (v : PyText) (t : Int) (h : 0 ≤ t ∧ t < (v.length : Int)) : pyStrIndex v t = .ok (v.getD t.toNat NUL) := by
  unfold pyStrIndex
  have h1 : ¬ t < 0 := by omega
  have hlt : t.toNat < v.length := by omega
  simp only [h1, if_false, h, and_self, if_true, List.getElem?_eq_getElem hlt, List.getD_eq_getElem?_getD, Option.getD_some]

theorem gen_Cursor_length_eq (v : PyText) (i : Int) : Gen.C07N.Cursor.length (VC.at v i) = (v.length : Int) := rfl
theorem gen_Cursor_value_eq (v : PyText) (i : Int) : Gen.C07N.Cursor.value (VC.at v i) = v := rfl
theorem gen_Cursor_index_eq (v : PyText) (i : Int) : Gen.C07N.Cursor.index (VC.at v i) = i := rfl
theorem gen_Cursor_current_eq (v : PyText) (i : Int) :
    Gen.C07N.Cursor.current (VC.at v i) = if 0 ≤ i ∧ i < (v.length : Int) then v.getD i.toNat NUL else NUL := rfl
theorem gen_Cursor_hasMoreCharacters_eq (v : PyText) (i : Int) :
    Gen.C07N.Cursor.hasMoreCharacters (VC.at v i) = decide (i + 1 < (v.length : Int)) := rfl

/-- where `move(target)` leaves the index -/
def moveTarget (v : PyText) (t : Int) : Int := if t < 0 then -1 else if t < (v.length : Int) then t else (v.length : Int)

/-- `_TextCursor.move(target_index)` -/
theorem gen_Cursor_move_eq (v : PyText) (i t : Int) :
    Gen.C07N.Cursor.move (VC.at v i) t = .ok (decide (0 ≤ t ∧ t < (v.length : Int)), VC.at v (moveTarget v t)) := by
  unfold Gen.C07N.Cursor.move moveTarget
  by_cases h0 : t ≥ 0
  · by_cases h1 : t < (v.length : Int)
    · have hr : (0 ≤ t ∧ t < (v.length : Int)) := ⟨h0, h1⟩
      have h0' : ¬ t < 0 := by omega
      simp only [h0, h1, hr, h0', if_true, if_false, Gen.C07N.Cursor.length, Gen.C07N.Cursor.value, Gen.C07N.Cursor.index,
        pyStrIndex_ok v t hr, ok_bind, decide_true, VC.at, and_self]
    · have hr : ¬ (0 ≤ t ∧ t < (v.length : Int)) := by omega
      have h0' : ¬ t < 0 := by omega
      have hl : ¬ (0 ≤ (v.length : Int) ∧ (v.length : Int) < (v.length : Int)) := by omega
      simp only [h0, h1, hr, h0', hl, if_true, if_false, gen_Cursor_length_eq, Gen.C07N.Cursor.length, decide_false, VC.at]
      rfl
  · have hr : ¬ (0 ≤ t ∧ t < (v.length : Int)) := by omega
    have h0' : t < 0 := by omega
    have hl : ¬ (0 ≤ (-1 : Int) ∧ (-1 : Int) < (v.length : Int)) := by omega
    simp only [h0, hr, h0', hl, if_true, if_false, decide_false, VC.at]
    rfl

/-- `move_next()` / `move_previous()` -/
theorem gen_Cursor_moveNext_eq (v : PyText) (i : Int) :
    Gen.C07N.Cursor.moveNext (VC.at v i)
      = .ok (decide (0 ≤ i + 1 ∧ i + 1 < (v.length : Int)), VC.at v (moveTarget v (i + 1))) := by
  unfold Gen.C07N.Cursor.moveNext
  rw [gen_Cursor_index_eq, gen_Cursor_move_eq]; rfl

theorem gen_Cursor_movePrevious_eq (v : PyText) (i : Int) :
    Gen.C07N.Cursor.movePrevious (VC.at v i)
      = .ok (decide (0 ≤ i - 1 ∧ i - 1 < (v.length : Int)), VC.at v (moveTarget v (i - 1))) := by
  unfold Gen.C07N.Cursor.movePrevious
  rw [gen_Cursor_index_eq, gen_Cursor_move_eq]; rfl

/-! ### digits -/

theorem isDigit_iff (c : Char) : isDigit c = true ↔ (48 ≤ c.toNat ∧ c.toNat ≤ 57) := by
  simp [isDigit]

theorem pyChrIsDigit_of_isDigit (c : Char) (h : isDigit c = true) : pyChrIsDigit c = true := by
  rw [isDigit_iff] at h
  unfold pyChrIsDigit pyDigitRanges
  rw [List.any_cons]
  simp [h.1, h.2]

/-- the test of the scanning loops: `not digit.isdigit() or not "0" <= digit <= "9"` is "not an ASCII digit" -/
theorem digit_test (d : Char) :
    ((¬ (pyChrIsDigit d = true)) ∨ (¬ ((pyChrLe '0' d = true) ∧ (pyChrLe d '9' = true)))) ↔ isDigit d = false := by
  have e0 : ('0' : Char).toNat = 48 := rfl
  have e9 : ('9' : Char).toNat = 57 := rfl
  by_cases h : isDigit d = true
  · have h' := (isDigit_iff d).mp h
    simp [pyChrIsDigit_of_isDigit d h, pyChrLe, e0, e9, h'.1, h'.2, h]
  · have hf : isDigit d = false := by simpa using h
    have h' : ¬ (48 ≤ d.toNat ∧ d.toNat ≤ 57) := fun x => h ((isDigit_iff d).mpr x)
    simp only [hf, iff_true, pyChrLe, e0, e9, decide_eq_true_eq]
    right; exact h'

theorem pyIntChr_digit (d : Char) (h : isDigit d = true) : pyIntChr d = .ok ((digitVal d : Nat) : Int) := by
  have h' := (isDigit_iff d).mp h
  unfold pyIntChr digitVal
  simp only [h'.1, h'.2, and_self, if_true]
  congr 1; omega

theorem digitVal_le (d : Char) (h : isDigit d = true) : digitVal d ≤ 9 := by
  have h' := (isDigit_iff d).mp h
  unfold digitVal; omega

/-- what the model's scanning loop returns: `k` digits consumed, value below `(acc + 1) * 10^k` -/
theorem scanDigits_spec : ∀ (m acc cnt : Nat) (l : Text), ∃ k a, k ≤ m ∧ k ≤ l.length ∧
    scanDigits m acc cnt l = (a, cnt + k, l.drop k) ∧ a < (acc + 1) * 10 ^ k := by
  intro m
  induction m with
  | zero => intro acc cnt l; exact ⟨0, acc, Nat.le_refl _, Nat.zero_le _, by simp [scanDigits], by simp⟩
  | succ m ih =>
    intro acc cnt l
    cases l with
    | nil => exact ⟨0, acc, Nat.zero_le _, Nat.le_refl _, by simp [scanDigits], by simp⟩
    | cons d l =>
      by_cases hd : isDigit d = true
      · obtain ⟨k, a, hk, hl, e, ha⟩ := ih (acc * 10 + digitVal d) (cnt + 1) l
        refine ⟨k + 1, a, by omega, by simp; omega, ?_, ?_⟩
        · simp only [scanDigits, hd, if_true, e, List.drop_succ_cons]
          congr 2; omega
        · have hv := digitVal_le d hd
          have h1 : (acc * 10 + digitVal d + 1) * 10 ^ k ≤ ((acc + 1) * 10) * 10 ^ k := Nat.mul_le_mul_right _ (by omega)
          have h2 : ((acc + 1) * 10) * 10 ^ k = (acc + 1) * 10 ^ (k + 1) := by
            rw [Nat.pow_succ, Nat.mul_assoc, Nat.mul_comm 10 (10 ^ k)]
          omega
      · have hf : isDigit d = false := by simpa using hd
        exact ⟨0, acc, Nat.zero_le _, Nat.zero_le _, by simp [scanDigits, hf], by simp⟩

theorem drop_cons_getD (v : PyText) (j : Nat) (d : Char) (l : Text) (h : v.drop j = d :: l) :
    j < v.length ∧ v.getD j NUL = d ∧ v.drop (j + 1) = l := by
  have hj : j < v.length := by
    rcases Nat.lt_or_ge j v.length with h' | h'
    · exact h'
    · rw [List.drop_eq_nil_of_le h'] at h; cases h
  refine ⟨hj, ?_, ?_⟩
  · have := List.drop_eq_getElem_cons hj
    rw [this] at h
    injection h with h1 h2
    simp [List.getD_eq_getElem?_getD, List.getElem?_eq_getElem hj, h1]
  · have := List.drop_eq_getElem_cons hj
    rw [this] at h
    injection h with h1 h2

/-- the scanning loop of `_parseDigits_` is the model's `scanDigits` on the remaining text -/
theorem parseDigits_loop1 (v : PyText) (i : Int) (M : Int) : ∀ (m fuel acc cnt j : Nat), m < fuel → j ≤ v.length →
    M = min (v.length : Int) ((j : Int) + (m : Int)) →
    Gen.C07N.Cursor.parseDigits.loop1 M fuel (acc : Int) (j : Int) (VC.at v i)
      = .ok (((scanDigits m acc cnt (v.drop j)).1 : Int), (j : Int) + ((scanDigits m acc cnt (v.drop j)).2.1 : Int) - (cnt : Int), VC.at v i) := by
  intro m
  induction m with
  | zero =>
    intro fuel acc cnt j hf hj hM
    obtain ⟨f, rfl⟩ : ∃ f, fuel = f + 1 := ⟨fuel - 1, by omega⟩
    have : ¬ ((j : Int) < M) := by omega
    simp only [Gen.C07N.Cursor.parseDigits.loop1, this, if_false, scanDigits]
    congr 3; omega
  | succ m ih =>
    intro fuel acc cnt j hf hj hM
    obtain ⟨f, rfl⟩ : ∃ f, fuel = f + 1 := ⟨fuel - 1, by omega⟩
    cases hl : v.drop j with
    | nil =>
      have hjl : v.length ≤ j := by
        rcases Nat.lt_or_ge j v.length with h' | h'
        · have := List.drop_eq_getElem_cons h'; rw [this] at hl; cases hl
        · exact h'
      have : ¬ ((j : Int) < M) := by omega
      simp only [Gen.C07N.Cursor.parseDigits.loop1, this, if_false, scanDigits]
      congr 3; omega
    | cons d l =>
      obtain ⟨hj', hd, hl'⟩ := drop_cons_getD v j d l hl
      have hlt : ((j : Int) < M) := by omega
      have hidx : pyStrIndex v (j : Int) = .ok d := by
        rw [pyStrIndex_ok v (j : Int) (by omega), Int.toNat_natCast, hd]
      simp only [Gen.C07N.Cursor.parseDigits.loop1, hlt, if_true, Gen.C07N.Cursor.value, VC.at, hidx, ok_bind]
      by_cases hdig : isDigit d = true
      · have ht : ¬ ((¬ (pyChrIsDigit d = true)) ∨ (¬ ((pyChrLe '0' d = true) ∧ (pyChrLe d '9' = true)))) := by
          rw [digit_test]; simp [hdig]
        simp only [ht, if_false, pyIntChr_digit d hdig, ok_bind, scanDigits, hdig, if_true]
        have e1 : (acc : Int) * 10 + ((digitVal d : Nat) : Int) = ((acc * 10 + digitVal d : Nat) : Int) := by omega
        have e2 : (j : Int) + 1 = ((j + 1 : Nat) : Int) := by omega
        rw [e1, e2]
        have := ih f (acc * 10 + digitVal d) (cnt + 1) (j + 1) (by omega) (by omega) (by omega)
        simp only [VC.at] at this
        rw [this, hl']
        congr 3; omega
      · have hf' : isDigit d = false := by simpa using hdig
        have ht : ((¬ (pyChrIsDigit d = true)) ∨ (¬ ((pyChrLe '0' d = true) ∧ (pyChrLe d '9' = true)))) := by
          rw [digit_test]; exact hf'
        simp only [ht, if_true, scanDigits, hf']
        congr 3
        simp

/-- the scanning loop of `_parseFraction_` is the model's `scanDigits` on the remaining text -/
theorem parseFraction_loop1 (v : PyText) (i : Int) (M : Int) : ∀ (m fuel acc cnt j : Nat), m < fuel → j ≤ v.length →
    M = min (v.length : Int) ((j : Int) + (m : Int)) →
    Gen.C07N.Cursor.parseFraction.loop1 M fuel (acc : Int) (j : Int) (VC.at v i)
      = .ok (((scanDigits m acc cnt (v.drop j)).1 : Int), (j : Int) + ((scanDigits m acc cnt (v.drop j)).2.1 : Int) - (cnt : Int), VC.at v i) := by
  intro m
  induction m with
  | zero =>
    intro fuel acc cnt j hf hj hM
    obtain ⟨f, rfl⟩ : ∃ f, fuel = f + 1 := ⟨fuel - 1, by omega⟩
    have : ¬ ((j : Int) < M) := by omega
    simp only [Gen.C07N.Cursor.parseFraction.loop1, this, if_false, scanDigits]
    congr 3; omega
  | succ m ih =>
    intro fuel acc cnt j hf hj hM
    obtain ⟨f, rfl⟩ : ∃ f, fuel = f + 1 := ⟨fuel - 1, by omega⟩
    cases hl : v.drop j with
    | nil =>
      have hjl : v.length ≤ j := by
        rcases Nat.lt_or_ge j v.length with h' | h'
        · have := List.drop_eq_getElem_cons h'; rw [this] at hl; cases hl
        · exact h'
      have : ¬ ((j : Int) < M) := by omega
      simp only [Gen.C07N.Cursor.parseFraction.loop1, this, if_false, scanDigits]
      congr 3; omega
    | cons d l =>
      obtain ⟨hj', hd, hl'⟩ := drop_cons_getD v j d l hl
      have hlt : ((j : Int) < M) := by omega
      have hidx : pyStrIndex v (j : Int) = .ok d := by
        rw [pyStrIndex_ok v (j : Int) (by omega), Int.toNat_natCast, hd]
      simp only [Gen.C07N.Cursor.parseFraction.loop1, hlt, if_true, Gen.C07N.Cursor.value, VC.at, hidx, ok_bind]
      by_cases hdig : isDigit d = true
      · have ht : ¬ ((¬ (pyChrIsDigit d = true)) ∨ (¬ ((pyChrLe '0' d = true) ∧ (pyChrLe d '9' = true)))) := by
          rw [digit_test]; simp [hdig]
        simp only [ht, if_false, pyIntChr_digit d hdig, ok_bind, scanDigits, hdig, if_true]
        have e1 : (acc : Int) * 10 + ((digitVal d : Nat) : Int) = ((acc * 10 + digitVal d : Nat) : Int) := by omega
        have e2 : (j : Int) + 1 = ((j + 1 : Nat) : Int) := by omega
        rw [e1, e2]
        have := ih f (acc * 10 + digitVal d) (cnt + 1) (j + 1) (by omega) (by omega) (by omega)
        simp only [VC.at] at this
        rw [this, hl']
        congr 3; omega
      · have hf' : isDigit d = false := by simpa using hdig
        have ht : ((¬ (pyChrIsDigit d = true)) ∨ (¬ ((pyChrLe '0' d = true) ∧ (pyChrLe d '9' = true)))) := by
          rw [digit_test]; exact hf'
        simp only [ht, if_true, scanDigits, hf']
        congr 3
        simp

/-- `_parse_digits(minimum_digits, maximum_digits)` on a cursor at index `i` of `v`, as a function of the model's scan of the
    remaining text `v.drop i`: failure returns the partial value and leaves the cursor, success moves it behind the digits -/
def cursorParseDigits (v : PyText) (i mn mx : Nat) : (Bool × Int) × VC :=
  let r := scanDigits mx 0 0 (v.drop i)
  if r.2.1 < mn then ((false, (r.1 : Int)), VC.at v i) else ((true, (r.1 : Int)), VC.at v ((i : Int) + (r.2.1 : Int)))

theorem gen_Cursor_parseDigits_eq (v : PyText) (i mn mx : Nat) (hi : i ≤ v.length) :
    Gen.C07N.Cursor.parseDigits (VC.at v i) (mn : Int) (mx : Int) = .ok (cursorParseDigits v i mn mx) := by
  unfold Gen.C07N.Cursor.parseDigits cursorParseDigits
  dsimp only
  have hloop := parseDigits_loop1 v (i : Int) (min (Gen.C07N.Cursor.length (VC.at v i)) (Gen.C07N.Cursor.index (VC.at v i) + (mx : Int)))
    mx ((mx : Int).toNat + 1) 0 0 i (by omega) hi (by rw [gen_Cursor_length_eq, gen_Cursor_index_eq])
  rw [gen_Cursor_index_eq] at hloop ⊢
  rw [show ((0 : Nat) : Int) = 0 from rfl] at hloop
  rw [hloop]
  simp only [ok_bind, gen_Cursor_index_eq]
  obtain ⟨k, a, hk, hkl, e, _⟩ := scanDigits_spec mx 0 0 (v.drop i)
  rw [e]
  simp only [Nat.zero_add]
  have hkl' : k ≤ v.length - i := by simpa using hkl
  have ec : (i : Int) + (k : Int) - 0 - (i : Int) = (k : Int) := by omega
  have et : (i : Int) + (k : Int) - 0 = (i : Int) + (k : Int) := by omega
  rw [ec, et]
  by_cases hmn : k < mn
  · have : (k : Int) < (mn : Int) := by omega
    simp only [this, hmn, if_true]
  · have : ¬ (k : Int) < (mn : Int) := by omega
    simp only [this, hmn, if_false, gen_Cursor_move_eq, ok_bind]
    have : moveTarget v ((i : Int) + (k : Int)) = (i : Int) + (k : Int) := by
      unfold moveTarget; split <;> (try split) <;> omega
    rw [this]

/-- the tie with the model's `parseDigits`: same verdict, same value, and the cursor stands at the model's remaining text -/
theorem gen_Cursor_parseDigits_model (v : PyText) (i mn mx : Nat) :
    match Text.parseDigits mn mx (v.drop i) with
    | none => (cursorParseDigits v i mn mx).1.1 = false ∧ (cursorParseDigits v i mn mx).2 = VC.at v i
    | some (val, rest) => ∃ k : Nat, (cursorParseDigits v i mn mx) = ((true, (val : Int)), VC.at v ((i : Int) + (k : Int))) ∧ rest = v.drop (i + k) := by
  unfold Text.parseDigits cursorParseDigits
  dsimp only
  obtain ⟨k, a, hk, hkl, e, _⟩ := scanDigits_spec mx 0 0 (v.drop i)
  rw [e]
  simp only [Nat.zero_add]
  by_cases hmn : k < mn
  · simp [hmn]
  · simp only [hmn, if_false]
    exact ⟨k, rfl, by rw [List.drop_drop]⟩

/-! ### fractions -/

/-- `_parse_fraction(maximum_digits, scale, minimum_digits)` on a cursor at index `i` of `v` -/
def cursorParseFraction (v : PyText) (i mx scale mn : Nat) : (Bool × Int) × VC :=
  if (v.drop i).length < mn then ((false, 0), VC.at v i) else
  let r := scanDigits mx 0 0 (v.drop i)
  if r.2.1 < mn then ((false, (r.1 : Int)), VC.at v i)
  else ((true, ((r.1 * 10 ^ (scale - r.2.1) : Nat) : Int)), VC.at v ((i : Int) + (r.2.1 : Int)))

theorem pow10_exact (a k scale : Nat) (ha : a < (0 + 1) * 10 ^ k) (hk : k ≤ scale) (hs : scale ≤ 15) :
    a * 10 ^ (scale - k) < 9007199254740992 := by
  have hp : 0 < 10 ^ (scale - k) := Nat.pow_pos (by decide)
  have h1 : a * 10 ^ (scale - k) < 10 ^ k * 10 ^ (scale - k) := Nat.mul_lt_mul_of_pos_right (by simpa using ha) hp
  have h2 : 10 ^ k * 10 ^ (scale - k) = 10 ^ scale := by rw [← Nat.pow_add]; congr 1; omega
  have h3 : 10 ^ scale ≤ 10 ^ 15 := Nat.pow_le_pow_right (by decide) hs
  have h4 : (10 : Nat) ^ 15 < 9007199254740992 := by decide
  omega

/-- `int(result * math.pow(10.0, scale - count))` is the exact integer inside `maximum_digits ≤ scale ≤ 15`: the product stays
    below 10^15 < 2^53, so the double computation is exact (PyodaGen/TextSupport.lean `pyIntMulPow10`) -/
theorem gen_Cursor_parseFraction_eq (v : PyText) (i mx scale mn : Nat) (hi : i ≤ v.length) (hms : mx ≤ scale) (hs : scale ≤ 15) :
    Gen.C07N.Cursor.parseFraction (VC.at v i) (mx : Int) (scale : Int) (mn : Int) = .ok (cursorParseFraction v i mx scale mn) := by
  unfold Gen.C07N.Cursor.parseFraction cursorParseFraction
  dsimp only
  rw [gen_Cursor_index_eq, gen_Cursor_length_eq]
  have hdl : (v.drop i).length = v.length - i := by simp
  by_cases hmin : (i : Int) + (mn : Int) > (v.length : Int)
  · have : (v.drop i).length < mn := by omega
    simp only [hmin, this, if_true]
  · have : ¬ (v.drop i).length < mn := by omega
    simp only [hmin, this, if_false]
    have hloop := parseFraction_loop1 v (i : Int) (min ((i : Int) + (mx : Int)) (v.length : Int))
      mx ((mx : Int).toNat + 1) 0 0 i (by omega) hi (by omega)
    rw [show ((0 : Nat) : Int) = 0 from rfl] at hloop
    rw [hloop]
    simp only [ok_bind, gen_Cursor_index_eq]
    obtain ⟨k, a, hk, hkl, e, ha⟩ := scanDigits_spec mx 0 0 (v.drop i)
    rw [e]
    simp only [Nat.zero_add]
    have hkl' : k ≤ v.length - i := by omega
    have ec : (i : Int) + (k : Int) - 0 - (i : Int) = (k : Int) := by omega
    have et : (i : Int) + (k : Int) - 0 = (i : Int) + (k : Int) := by omega
    rw [ec, et]
    by_cases hmn : k < mn
    · have : (k : Int) < (mn : Int) := by omega
      simp only [this, hmn, if_true]
    · have : ¬ (k : Int) < (mn : Int) := by omega
      simp only [this, hmn, if_false]
      have hx := pow10_exact a k scale ha (by omega) hs
      have etn : ((scale : Int) - (k : Int)).toNat = scale - k := by omega
      have hpow : pyIntMulPow10 (a : Int) ((scale : Int) - (k : Int)) = .ok ((a * 10 ^ (scale - k) : Nat) : Int) := by
        unfold pyIntMulPow10
        rw [etn]
        have hcast : (a : Int) * 10 ^ (scale - k) = ((a * 10 ^ (scale - k) : Nat) : Int) := by
          simp [Int.natCast_mul, Int.natCast_pow]
        have hlt : ((a * 10 ^ (scale - k) : Nat) : Int) < 9007199254740992 := by omega
        have hc : (0 ≤ (scale : Int) - (k : Int) ∧ (scale : Int) - (k : Int) ≤ 22 ∧ 0 ≤ (a : Int) ∧ (a : Int) * 10 ^ (scale - k) < 9007199254740992) := by
          refine ⟨by omega, by omega, by omega, ?_⟩
          rw [hcast]; exact hlt
        rw [if_pos hc, hcast]
      simp only [hpow, ok_bind, gen_Cursor_move_eq]
      have : moveTarget v ((i : Int) + (k : Int)) = (i : Int) + (k : Int) := by
        unfold moveTarget; split <;> (try split) <;> omega
      rw [this]

/-- the tie with the model's `parseFraction` -/
theorem gen_Cursor_parseFraction_model (v : PyText) (i mx scale mn : Nat) :
    match Text.parseFraction mx scale mn (v.drop i) with
    | none => (cursorParseFraction v i mx scale mn).1.1 = false ∧ (cursorParseFraction v i mx scale mn).2 = VC.at v i
    | some (val, rest) => ∃ k : Nat, (cursorParseFraction v i mx scale mn) = ((true, (val : Int)), VC.at v ((i : Int) + (k : Int))) ∧ rest = v.drop (i + k) := by
  unfold Text.parseFraction cursorParseFraction
  dsimp only
  by_cases hl : (v.drop i).length < mn
  · rw [if_pos hl, if_pos hl]
    exact ⟨rfl, rfl⟩
  · simp only [hl, if_false]
    obtain ⟨k, a, hk, hkl, e, _⟩ := scanDigits_spec mx 0 0 (v.drop i)
    rw [e]
    simp only [Nat.zero_add]
    by_cases hmn : k < mn
    · simp [hmn]
    · simp only [hmn, if_false]
      exact ⟨k, rfl, by rw [List.drop_drop]⟩

/-! ### `_match`, `__get_digit` -/

theorem pySlice_window (v : PyText) (i n : Nat) (hi : i ≤ v.length) :
    pySlice v (some (i : Int)) (some ((i : Int) + (n : Int))) = (v.drop i).take n := by
  unfold pySlice pySliceBound
  have h1 : ¬ ((i : Int) < 0) := by omega
  have h2 : ¬ ((i : Int) > (v.length : Int)) := by omega
  have h3 : ¬ ((i : Int) + (n : Int) < 0) := by omega
  simp only [h1, h2, h3, if_false, Int.toNat_natCast]
  by_cases h4 : (i : Int) + (n : Int) > (v.length : Int)
  · simp only [h4, if_true, List.take_length]
    rw [List.take_of_length_le (by simp; omega)]
  · have e : ((i : Int) + (n : Int)).toNat = i + n := by omega
    simp only [h4, if_false, e, List.drop_take]
    congr 1; omega

/-- `_match(match)` on a cursor at index `i` of `v`, by the model's `matchText` on the remaining text -/
def cursorMatch (v : PyText) (i : Nat) (s : PyText) : Bool × VC :=
  match Text.matchText s (v.drop i) with
  | some _ => (true, VC.at v ((i : Int) + (s.length : Int)))
  | none => (false, VC.at v i)

theorem gen_Cursor_matchText_eq (v : PyText) (i : Nat) (s : PyText) (hi : i ≤ v.length) :
    Gen.C07N.Cursor.matchText (VC.at v i) s = .ok (cursorMatch v i s) := by
  unfold Gen.C07N.Cursor.matchText cursorMatch Text.matchText
  dsimp only
  rw [gen_Cursor_index_eq, gen_Cursor_value_eq]
  unfold pyLenList
  rw [pySlice_window v i s.length hi]
  by_cases hm : (v.drop i).take s.length = s
  · have hlen : s.length ≤ v.length - i := by
      have := congrArg List.length hm
      simp at this; omega
    have : moveTarget v ((i : Int) + (s.length : Int)) = (i : Int) + (s.length : Int) := by
      unfold moveTarget; split <;> (try split) <;> omega
    simp only [pyTextEq, hm, decide_true, if_true, gen_Cursor_move_eq, ok_bind, this]
  · simp only [pyTextEq, hm, decide_false, if_false]
    rfl

theorem gen_Cursor_matchText_rest (v : PyText) (i : Nat) (s rest : PyText) (h : Text.matchText s (v.drop i) = some rest) :
    rest = v.drop (i + s.length) := by
  unfold Text.matchText at h
  split at h
  · injection h with h; rw [← h, List.drop_drop]
  · cases h

theorem isDigit_NUL : isDigit NUL = false := by decide

/-- `__get_digit()`: the value of the digit under the cursor, `-1` elsewhere (also at the end of the text) -/
theorem gen_Cursor_getDigit_eq (v : PyText) (i : Nat) (hi : i ≤ v.length) :
    Gen.C07N.Cursor.getDigit (VC.at v i) = .ok (match headDigit? (v.drop i) with | some d => (d : Int) | none => -1) := by
  unfold Gen.C07N.Cursor.getDigit
  rw [gen_Cursor_current_eq]
  cases hl : v.drop i with
  | nil =>
    have hjl : v.length ≤ i := by
      rcases Nat.lt_or_ge i v.length with h' | h'
      · have := List.drop_eq_getElem_cons h'; rw [this] at hl; cases hl
      · exact h'
    have : ¬ (0 ≤ (i : Int) ∧ (i : Int) < (v.length : Int)) := by omega
    have ht := (digit_test NUL).mpr isDigit_NUL
    have ht' : ¬ (pyChrIsDigit NUL = true ∧ (pyChrLe '0' NUL = true ∧ pyChrLe NUL '9' = true)) := by
      intro hc; rcases ht with h | h
      · exact h hc.1
      · exact h hc.2
    simp only [this, if_false, ht', headDigit?]
  | cons d l =>
    obtain ⟨hj', hd, _⟩ := drop_cons_getD v i d l hl
    have : (0 ≤ (i : Int) ∧ (i : Int) < (v.length : Int)) := by omega
    simp only [this, and_self, if_true, Int.toNat_natCast, hd, headDigit?]
    by_cases hdig : isDigit d = true
    · have ht : (pyChrIsDigit d = true ∧ (pyChrLe '0' d = true ∧ pyChrLe d '9' = true)) := by
        have : ¬ ((¬ (pyChrIsDigit d = true)) ∨ (¬ ((pyChrLe '0' d = true) ∧ (pyChrLe d '9' = true)))) := fun h => by
          have h2 := (digit_test d).mp h; rw [hdig] at h2; cases h2
        constructor
        · exact Classical.byContradiction fun h => this (Or.inl h)
        · exact Classical.byContradiction fun h => this (Or.inr h)
      simp only [ht, and_self, if_true, hdig, pyIntChr_digit d hdig]
    · have hf' : isDigit d = false := by simpa using hdig
      have ht := (digit_test d).mpr hf'
      have ht' : ¬ (pyChrIsDigit d = true ∧ (pyChrLe '0' d = true ∧ pyChrLe d '9' = true)) := by
        intro hc; rcases ht with h | h
        · exact h hc.1
        · exact h hc.2
      simp only [ht', if_false, hf']
      rfl

/-! ### `remainder`, `peek_next` -/

/-- `cursor.remainder` is the model's remaining text -/
theorem gen_Cursor_remainder_eq (v : PyText) (i : Nat) (hi : i ≤ v.length) :
    Gen.C07N.Cursor.remainder (VC.at v i) = v.drop i := by
  unfold Gen.C07N.Cursor.remainder
  rw [gen_Cursor_value_eq, gen_Cursor_index_eq]
  unfold pySlice pySliceBound
  have h1 : ¬ ((i : Int) < 0) := by omega
  have h2 : ¬ ((i : Int) > (v.length : Int)) := by omega
  simp only [h1, h2, if_false, Int.toNat_natCast, List.take_length]

/-- `peek_next()`: the character after the current one, `'\0'` when there is none (`index ≥ -1` always) -/
theorem gen_Cursor_peekNext_eq (v : PyText) (i : Int) (hi : -1 ≤ i) :
    Gen.C07N.Cursor.peekNext (VC.at v i)
      = .ok (if i + 1 < (v.length : Int) then v.getD (i + 1).toNat NUL else NUL) := by
  unfold Gen.C07N.Cursor.peekNext
  rw [gen_Cursor_hasMoreCharacters_eq, gen_Cursor_value_eq, gen_Cursor_index_eq]
  by_cases h : i + 1 < (v.length : Int)
  · simp only [h, decide_true, if_true]
    exact pyStrIndex_ok v (i + 1) ⟨by omega, h⟩
  · simp only [h, decide_false, if_false]
    rfl

/-! ## `StringBuilder`: the reading members, translated, are what `PyodaGen/GlueC07N.lean` writes by hand
(`append` returns `self` and the `length` setter asserts: those two stay hand-written) -/

theorem gen_StringBuilder_length_eq (sb : SB) : Gen.C07N.StringBuilder.length sb = SB.length sb := rfl
theorem gen_StringBuilder_getitem_eq (sb : SB) (i : Int) : Gen.C07N.StringBuilder.getitem sb i = SB.getitem sb i := rfl
theorem gen_StringBuilder_toString_eq (sb : SB) : Gen.C07N.StringBuilder.toString sb = sb.s := rfl

end Pyoda.GenAgree.C07N
