/- Helper lemmas for C14: composite values (year offset, alternating map, recurrence), inline strings. -/
import PyodaProofs.C14Lemmas

namespace Pyoda.C14
open Pyoda Pyoda.Codec

/-- the year offsets `_ZoneYearOffset._ctor` accepts whose time of day is a whole number of milliseconds -/
def YearOffsetDom (y : ZoneYearOffset) : Prop :=
  (1 ≤ y.monthOfYear ∧ y.monthOfYear ≤ 12) ∧
  ((1 ≤ y.dayOfMonth ∧ y.dayOfMonth ≤ 31) ∨ (-31 ≤ y.dayOfMonth ∧ y.dayOfMonth ≤ -1)) ∧
  (0 ≤ y.dayOfWeek ∧ y.dayOfWeek ≤ 7) ∧
  (0 ≤ y.timeOfDay ∧ y.timeOfDay < NPD ∧ y.timeOfDay % 1000000 = 0)

theorem flags_arith (m a d : Nat) (dow : Int) (hm : m ≤ 2) (ha : a ≤ 1) (hd : d ≤ 1) (hw : 0 ≤ dow ∧ dow ≤ 7) :
    0 ≤ ((m : Int) * 32 + dow * 4 + (a : Int) * 2 + (d : Int)) ∧ ((m : Int) * 32 + dow * 4 + (a : Int) * 2 + (d : Int)) ≤ 255 ∧
    ((m : Int) * 32 + dow * 4 + (a : Int) * 2 + (d : Int)).toNat / 32 = m ∧
    ((((m : Int) * 32 + dow * 4 + (a : Int) * 2 + (d : Int)).toNat / 4 % 8 : Nat) : Int) = dow ∧
    ((m : Int) * 32 + dow * 4 + (a : Int) * 2 + (d : Int)).toNat / 2 % 2 = a ∧
    ((m : Int) * 32 + dow * 4 + (a : Int) * 2 + (d : Int)).toNat % 2 = d := by
  refine ⟨by omega, by omega, by omega, by omega, by omega, by omega⟩

theorem flags_eq (mode : TransitionMode) (dow : Int) (adv addDay : Bool) :
    ((mode.toNat : Int) * 32 + dow * 4 + (if adv then 2 else 0) + (if addDay then 1 else 0)) =
    ((mode.toNat : Int) * 32 + dow * 4 + ((if adv then 1 else 0 : Nat) : Int) * 2 + ((if addDay then 1 else 0 : Nat) : Int)) := by
  cases adv <;> cases addDay <;> simp

theorem readYearOffset_writeYearOffset (y : ZoneYearOffset) (h : YearOffsetDom y) (rest : Bytes) :
    ∃ bs, writeYearOffset y = .ok bs ∧ readYearOffset (bs ++ rest) = .ok (y, rest) := by
  obtain ⟨hm, hd, hw, ht0, ht1, ht2⟩ := h
  cases y with | mk mode month dom dow adv tod addDay =>
  simp only at hm hd hw ht0 ht1 ht2
  have hmode : mode.toNat ≤ 2 := by cases mode <;> simp [TransitionMode.toNat]
  have ha : (if adv then 1 else 0 : Nat) ≤ 1 := by cases adv <;> simp
  have hdd : (if addDay then 1 else 0 : Nat) ≤ 1 := by cases addDay <;> simp
  obtain ⟨f0, f1, f2, f3, f4, f5⟩ := flags_arith mode.toNat _ _ dow hmode ha hdd hw
  have hms : -MsPD < tod / 1000000 ∧ tod / 1000000 < MsPD := by unfold MsPD; unfold NPD at ht1; omega
  obtain ⟨tb, hT1, hT2⟩ := readMilliseconds_writeMilliseconds (tod / 1000000) hms rest
  obtain ⟨db, hD1, hD2⟩ := readSignedCount_writeSignedCount dom (by unfold INT_MIN INT_MAX; omega) (tb ++ rest)
  have hM1 := writeCount_ok month ⟨by omega, by unfold INT_MAX; omega⟩
  have hM2 := readCount_varint month ⟨by omega, by unfold INT_MAX; omega⟩ (db ++ (tb ++ rest))
  refine ⟨((mode.toNat : Int) * 32 + dow * 4 + ((if adv then 1 else 0 : Nat) : Int) * 2 + ((if addDay then 1 else 0 : Nat) : Int)).toNat :: (writeVarint month.toNat ++ db ++ tb), ?_, ?_⟩
  · unfold writeYearOffset
    simp only [flags_eq]
    rw [writeByte_ok _ ⟨f0, f1⟩, hM1, hD1]
    have e1 : pyTdiv tod NPT = .ok (tod / 100) := pyTdiv_nonneg tod NPT ht0 (by unfold NPD at ht1; unfold decBound; omega) (by decide) (by decide)
    have e2 : pyTdiv (tod / 100) 10000 = .ok (tod / 1000000) := by
      rw [pyTdiv_nonneg (tod / 100) 10000 (by omega) (by unfold NPD at ht1; unfold decBound; omega) (by decide) (by decide)]
      congr 1; omega
    simp only [bind, Except.bind, e1, e2, hT1]
    rfl
  · unfold readYearOffset
    simp only [List.cons_append, List.append_assoc, readByte, bind, Except.bind]
    rw [f2]
    have hmo : TransitionMode.ofNat? mode.toNat = some mode := by cases mode <;> rfl
    simp only [hmo, hM2, hD2, hT2]
    have hl : localTimeFromMillis (tod / 1000000) = .ok tod := by
      unfold localTimeFromMillis checkRange
      have : ¬ (tod / 1000000 < 0 ∨ tod / 1000000 > MsPD - 1) := by unfold MsPD; unfold NPD at ht1; omega
      simp only [this, if_false, bind, Except.bind, NPMs]
      congr 1; omega
    simp only [hl]
    have hc : yearOffsetCtor mode month dom dow ((if adv then 1 else 0 : Nat) == 1) tod ((if addDay then 1 else 0 : Nat) == 1)
        = .ok ⟨mode, month, dom, dow, adv, tod, addDay⟩ := by
      unfold yearOffsetCtor verifyFieldValue
      have c1 : ¬ (month < 1 ∨ 12 < month) := by omega
      simp only [Bool.false_eq_true, false_and, if_false, c1, bind, Except.bind]
      have eadv : ((if adv then 1 else 0 : Nat) == 1) = adv := by cases adv <;> rfl
      have eadd : ((if addDay then 1 else 0 : Nat) == 1) = addDay := by cases addDay <;> rfl
      rw [eadv, eadd]
      by_cases hneg : dom < 0
      · have c2 : ¬ (dom < -31 ∨ -1 < dom) := by omega
        simp only [hneg, and_self, true_and, if_true, c2, if_false]
        by_cases hz : dow = 0
        · simp [hz]
        · have c3 : ¬ (dow < 1 ∨ 7 < dow) := by omega
          simp [hz, c3]
      · have c2 : ¬ (dom < 1 ∨ 31 < dom) := by omega
        simp only [hneg, and_false, if_false, c2]
        by_cases hz : dow = 0
        · simp [hz]
        · have c3 : ¬ (dow < 1 ∨ 7 < dow) := by omega
          simp [hz, c3]
    rw [f3, f4, f5, hc]

def StrDom (s : Str) : Prop := validUtf8 s = true ∧ (s.length : Int) ≤ INT_MAX
def OffsetDom (o : Offset) : Prop := Offset.MIN_S ≤ o.seconds ∧ o.seconds ≤ Offset.MAX_S

/-- the maps `_StandardDaylightAlternatingMap._ctor` produces from data: both recurrences infinite, the standard one
    without savings -/
def MapDom (m : AlternatingMap) : Prop :=
  OffsetDom m.standardOffset ∧
  StrDom m.standardRecurrence.name ∧ m.standardRecurrence.savings = ⟨0⟩ ∧ YearOffsetDom m.standardRecurrence.yearOffset ∧
  m.standardRecurrence.fromYear = INT_MIN ∧ m.standardRecurrence.toYear = INT_MAX ∧
  StrDom m.dstRecurrence.name ∧ OffsetDom m.dstRecurrence.savings ∧ YearOffsetDom m.dstRecurrence.yearOffset ∧
  m.dstRecurrence.fromYear = INT_MIN ∧ m.dstRecurrence.toYear = INT_MAX

theorem readAlternatingMap_writeAlternatingMap (m : AlternatingMap) (h : MapDom m) (rest : Bytes) :
    ∃ bs, writeAlternatingMap none m = .ok (bs, none) ∧ readAlternatingMap none (bs ++ rest) = .ok (m, rest) := by
  obtain ⟨ho, hsn, hss, hsy, hsf, hst, hdn, hds, hdy, hdf, hdt⟩ := h
  cases m with | mk so sr dr =>
  cases sr with | mk sname ssav syo sfrom sto =>
  cases dr with | mk dname dsav dyo dfrom dto =>
  simp only at ho hsn hss hsy hsf hst hdn hds hdy hdf hdt
  subst hss hsf hst hdf hdt
  obtain ⟨b6, w6, r6⟩ := readOffset_writeOffset dsav hds rest
  obtain ⟨b5, w5, r5⟩ := readYearOffset_writeYearOffset dyo hdy (b6 ++ rest)
  obtain ⟨b4, w4, r4⟩ := readString_inline dname hdn.1 hdn.2 (b5 ++ (b6 ++ rest))
  obtain ⟨b3, w3, r3⟩ := readYearOffset_writeYearOffset syo hsy (b4 ++ (b5 ++ (b6 ++ rest)))
  obtain ⟨b2, w2, r2⟩ := readString_inline sname hsn.1 hsn.2 (b3 ++ (b4 ++ (b5 ++ (b6 ++ rest))))
  obtain ⟨b1, w1, r1⟩ := readOffset_writeOffset so ho (b2 ++ (b3 ++ (b4 ++ (b5 ++ (b6 ++ rest)))))
  refine ⟨b1 ++ b2 ++ b3 ++ b4 ++ b5 ++ b6, ?_, ?_⟩
  · unfold writeAlternatingMap writeString
    simp only [w1, w2, w3, w4, w5, w6, bind, Except.bind]
  · unfold readAlternatingMap
    simp only [List.append_assoc, r1, r2, r3, r4, r5, r6, bind, Except.bind]
    rfl

/-- recurrences whose year bounds survive the encoding (`from_year` is written as `max(from_year, 0)` and 0 is read
    back as "since the beginning of time"): from = −∞ or 1…9999, to = +∞ or 0…9999 -/
def RecurrenceDom (z : ZoneRecurrence) : Prop :=
  StrDom z.name ∧ OffsetDom z.savings ∧ YearOffsetDom z.yearOffset ∧
  (z.fromYear = INT_MIN ∨ (1 ≤ z.fromYear ∧ z.fromYear ≤ 9999)) ∧
  (z.toYear = INT_MAX ∨ (0 ≤ z.toYear ∧ z.toYear ≤ 9999)) ∧
  recurrenceCtor z = .ok z

theorem readRecurrence_writeRecurrence (z : ZoneRecurrence) (h : RecurrenceDom z) (rest : Bytes) :
    ∃ bs, writeRecurrence none z = .ok (bs, none) ∧ readRecurrence none (bs ++ rest) = .ok (z, rest) := by
  obtain ⟨hn, hs, hy, hf, ht, hc⟩ := h
  cases z with | mk name sav yo fy ty =>
  simp only at hn hs hy hf ht
  have hty : 0 ≤ ty ∧ ty ≤ INT_MAX := by unfold INT_MAX at *; omega
  have hfy : 0 ≤ (if fy < 0 then 0 else fy) ∧ (if fy < 0 then 0 else fy) ≤ INT_MAX := by
    unfold INT_MAX INT_MIN at *; split <;> omega
  have w5 := writeCount_ok ty hty
  have r5 := readCount_varint ty hty rest
  have w4 := writeCount_ok _ hfy
  have r4 := readCount_varint _ hfy (writeVarint ty.toNat ++ rest)
  obtain ⟨b3, w3, r3⟩ := readYearOffset_writeYearOffset yo hy (writeVarint (if fy < 0 then 0 else fy).toNat ++ (writeVarint ty.toNat ++ rest))
  obtain ⟨b2, w2, r2⟩ := readOffset_writeOffset sav hs (b3 ++ (writeVarint (if fy < 0 then 0 else fy).toNat ++ (writeVarint ty.toNat ++ rest)))
  obtain ⟨b1, w1, r1⟩ := readString_inline name hn.1 hn.2 (b2 ++ (b3 ++ (writeVarint (if fy < 0 then 0 else fy).toNat ++ (writeVarint ty.toNat ++ rest))))
  refine ⟨b1 ++ b2 ++ b3 ++ writeVarint (if fy < 0 then 0 else fy).toNat ++ writeVarint ty.toNat, ?_, ?_⟩
  · unfold writeRecurrence writeString
    simp only [w1, w2, w3, w4, w5, bind, Except.bind]
  · unfold readRecurrence readRecurrenceFields
    simp only [List.append_assoc, r1, r2, r3, r4, r5, bind, Except.bind]
    have e : (if (if fy < 0 then 0 else fy) = 0 then INT_MIN else (if fy < 0 then 0 else fy)) = fy := by
      unfold INT_MIN at *; split <;> split <;> omega
    rw [e, hc]

end Pyoda.C14
