/- Helper lemmas shared by the property proofs (no property statements here). -/
import PyodaModel.Prelude

namespace Pyoda

theorem tdiv_pos (x y : Int) (_hy : 0 < y) :
    Int.tdiv x y = if 0 ≤ x then x / y else -((-x) / y) := by
  split
  · exact Int.tdiv_eq_ediv_of_nonneg ‹_›
  · have h : 0 ≤ -x := by omega
    have := Int.tdiv_eq_ediv_of_nonneg h (b := y)
    rw [Int.neg_tdiv] at this; omega

theorem fdiv_pos (x y : Int) (hy : 0 < y) : Int.fdiv x y = x / y :=
  Int.fdiv_eq_ediv_of_nonneg x (Int.le_of_lt hy)

theorem fmod_pos (x y : Int) (hy : 0 < y) : Int.fmod x y = x % y :=
  Int.fmod_eq_emod_of_nonneg x (Int.le_of_lt hy)

theorem shr14 (x : Int) : x >>> 14 = x / 16384 := by
  rw [Int.shiftRight_eq_div_pow]; rfl

theorem pyTdiv_ok (x y : Int) (hy : y ≠ 0) (hx1 : -decBound < x) (hx2 : x < decBound)
    (hy1 : -decBound < y) (hy2 : y < decBound) : pyTdiv x y = .ok (Int.tdiv x y) := by
  simp [pyTdiv, hy, inDecDomain, hx1, hx2, hy1, hy2]

theorem csharpMod_pos (a b : Int) (hb : 0 < b) :
    csharpMod a b = if a < 0 ∧ 0 < a % b then a % b - b else a % b := by
  unfold csharpMod
  simp only [fmod_pos a b hb]
  have : (b.natAbs : Int) = b := by omega
  rw [this]

theorem checkRange_bind {α} (v lo hi : Int) (f : Unit → R α) (r : α) :
    (checkRange v lo hi >>= f) = .ok r ↔ (lo ≤ v ∧ v ≤ hi) ∧ f () = .ok r := by
  unfold checkRange
  by_cases h : v < lo ∨ v > hi
  · simp only [h, if_true]
    constructor
    · intro h'; cases h'
    · intro ⟨h1, _⟩; omega
  · simp only [h, if_false]
    constructor
    · intro h'; exact ⟨by omega, h'⟩
    · intro ⟨_, h'⟩; exact h'

theorem checkRange_bind_err {α} (v lo hi : Int) (f : Unit → R α) (e : PyExc) :
    (checkRange v lo hi >>= f) = .error e ↔
      ((v < lo ∨ v > hi) ∧ e = .valueError) ∨ ((lo ≤ v ∧ v ≤ hi) ∧ f () = .error e) := by
  unfold checkRange
  by_cases h : v < lo ∨ v > hi
  · simp only [h, if_true]
    constructor
    · intro h'; left; refine ⟨trivial, ?_⟩; cases h'; rfl
    · intro h'
      rcases h' with ⟨_, rfl⟩ | ⟨h1, _⟩
      · rfl
      · omega
  · simp only [h, if_false]
    constructor
    · intro h'; right; exact ⟨by omega, h'⟩
    · intro h'
      rcases h' with ⟨h1, _⟩ | ⟨_, h2⟩
      · exact h1.elim
      · exact h2

theorem pyTdiv_bind {α} (x y : Int) (f : Int → R α) (hy : y ≠ 0) (hx1 : -decBound < x) (hx2 : x < decBound)
    (hy1 : -decBound < y) (hy2 : y < decBound) : (pyTdiv x y >>= f) = f (Int.tdiv x y) := by
  rw [pyTdiv_ok x y hy hx1 hx2 hy1 hy2]; rfl

theorem ite_ok_ne_error {α} {c : Prop} [Decidable c] (a b : α) (e : PyExc) :
    (if c then (Except.ok a : R α) else .ok b) ≠ .error e := by
  by_cases h : c <;> simp [h]

end Pyoda
