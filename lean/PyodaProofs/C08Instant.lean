/-
  C08 — the Instant adapter inside the model: for EVERY Instant pattern text that creation accepts, `parse` never raises
  (the conversion `Instant._ctor(days = date._days_since_epoch, …)` included), and a success is an Instant inside the
  Instant range with a nanosecond of day inside the day.
-/
import PyodaProofs.C08CalendarTop
import PyodaProofs.C07Instant
import PyodaProofs.C09Lemmas

namespace Pyoda.C08
open Pyoda Pyoda.Text
open Pyoda.Calendar (Calc calcOf)

/-- every calendar lies inside the Instant range (evaluated by the compiled model on every run: op `inst.extents`) -/
def CalExtents : Prop := ∀ (k : Nat) (c : Calc), calcOf k = some c →
  INST_MIN_DAYS ≤ c.start c.minYear ∧ c.start (c.maxYear + 1) - 1 ≤ INST_MAX_DAYS

/-- `_days_since_epoch` of a date of its calendar: no exception, and the day number lies inside the calendar -/
theorem daysOfDate_inCal (H : AllWF) (cal : Int) (c : Calc) (hc : calcOfInt cal = some c) (hne : cal ≠ 0) (y m d : Int)
    (hin : InCal c y m d) :
    ∃ days, daysOfDate cal y m d = .ok days ∧ c.start c.minYear ≤ days ∧ days ≤ c.start (c.maxYear + 1) - 1 := by
  have hw := calcOfInt_wf H cal c hc
  obtain ⟨a1, a2, a3, a4, a5, a6⟩ := hin
  have hval : Calendar.validate c y m d = .ok () := C01.validate_ok hw a1 a2 a3 a4 a5 a6
  obtain ⟨r1, r2, _, _⟩ := C09.valid_range hw (y, m, d) hval
  have hraw : Calendar.daysOfYmdRaw c y m d = .ok (c.start y + c.toMonth y m + d - 1) := C01.daysOfYmdRaw_eq hw a1 a2
  refine ⟨c.start y + c.toMonth y m + d - 1, ?_, r1, r2⟩
  unfold daysOfDate
  rw [hc]
  dsimp only
  by_cases h1 : cal ≤ 1
  · rw [if_pos h1]
    -- the Gregorian calendar (ordinal 1): the table path equals the general path
    have hcal : cal = 1 := by
      unfold calcOfInt at hc
      split at hc
      · cases hc
      · omega
    have hg : c = Calendar.Greg.cal := by
      rw [hcal] at hc
      have : calcOfInt 1 = some Calendar.Greg.cal := rfl
      rw [this] at hc; injection hc with hc; exact hc.symm
    subst hg
    rw [C01.greg_daysOfYmdFast_eq y m d a3 a4]
    exact hraw
  · rw [if_neg h1]; exact hraw

/-- **the Instant adapter never raises, and a success is an Instant of the range** — for every accepted Instant pattern
    text (calendar field or not, embedded parts or not), every culture record whose month tables start with the empty
    entry -/
theorem parseInstant_spec (H : AllWF) (E : CalExtents) (cu : Culture) (hcu : cu.monthHeadsEmpty = true) (ptext : Text) (p : Pat)
    (hp : compileInstant Tmpl.default cu ptext = .ok p) (l : Text) :
    (∃ r, parseInstant p l = .ok r) ∧
    ∀ days nod, parseInstant p l = .ok (some (days, nod)) →
      INST_MIN_DAYS ≤ days ∧ days ≤ INST_MAX_DAYS ∧ 0 ≤ nod ∧ nod < 86400000000000 := by
  obtain ⟨⟨r, hr⟩, hval⟩ := instant_parse_spec H Tmpl.default tmplOK_default cu hcu ptext p hp l
  unfold parseInstant
  rw [hr]
  cases r with
  | none => exact ⟨⟨_, rfl⟩, fun _ _ h => by cases h⟩
  | some v =>
    dsimp only
    obtain ⟨w, hv, c, hc, hin, t0, t1⟩ := hval v hr
    obtain ⟨y, m, d, nod, cal⟩ := w
    dsimp only at hc hin t0 t1
    unfold showDtC at hv
    dsimp only at hv
    by_cases h0 : cal = 0
    · rw [if_pos h0] at hv
      subst hv
      rw [h0, calcOfInt_zero] at hc
      injection hc with hc; subst hc
      obtain ⟨days, hd, r1, r2, _⟩ := C07.daysOfDate_spec y m d nod (validDate_of_inCal y m d hin)
      unfold instantOfFields
      dsimp only
      rw [hd]
      refine ⟨⟨_, rfl⟩, fun days' nod' h => ?_⟩
      injection h with h; injection h with h; injection h with e1 e2
      subst e1; subst e2
      exact ⟨r1, r2, t0, t1⟩
    · rw [if_neg h0] at hv
      subst hv
      obtain ⟨days, hd, r1, r2⟩ := daysOfDate_inCal H cal c hc h0 y m d hin
      have he : INST_MIN_DAYS ≤ c.start c.minYear ∧ c.start (c.maxYear + 1) - 1 ≤ INST_MAX_DAYS := by
        unfold calcOfInt at hc
        split at hc
        · cases hc
        · exact E _ c hc
      unfold instantOfFields
      dsimp only
      rw [hd]
      refine ⟨⟨_, rfl⟩, fun days' nod' h => ?_⟩
      injection h with h; injection h with h; injection h with e1 e2
      subst e1; subst e2
      exact ⟨by omega, by omega, t0, t1⟩

end Pyoda.C08
