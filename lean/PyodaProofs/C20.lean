/-
  C20 — damaged time-zone data is rejected with the documented error, promptly.

  The model keeps every failure kind apart inside the entry points (`fromStreamBody`, `createZoneBody`);
  `fromStreamRaw`, `forIdRaw`, `loadAndUseRaw` are the entry points as written (two `except` tuples), and
  `fromStream`, `forId`, `loadAndUse` the specified behaviour (a result or `InvalidPyodaDataError`).
  * `loadAndUse_outcome`: for ALL byte strings the outcome is a result or `invalidData`.
  * `truncation_inside_field`: a cut inside a field is always rejected (so prefixes collapse to field boundaries).
  * termination: every reader is a structurally recursive / fuel-indexed total function (no `partial`), and
    `readN_consumes`, `readNTicks_linear`, `readFields_fuel_irrelevant` bound the work of the loops by the number
    of bytes present: a loop over a reader that consumes a byte per success performs at most `bytes + 1` reads
    whatever count the data announces, and the framing loop never runs out of its `length` fuel.
  Not claimed: a bound in seconds, or a linear bound for the whole of `loadAndUse` (k aliases of one zone decode
  it k times); those are the harness's per-call timeout.
-/
import PyodaModel.Codec
import PyodaProofs.Basic
import PyodaProofs.C14Lemmas
import PyodaProofs.C20Lemmas
import PyodaProofs.C20Bounds
import PyodaProofs.C20Kinds

namespace Pyoda.C20
open Pyoda Pyoda.Codec

/-- the two admissible outcomes -/
def Documented {α} (r : R α) : Prop := (∃ a, r = .ok a) ∨ r = .error .invalidData

theorem toInvalidData_documented {α} (r : R α) : Documented (toInvalidData r) := by
  cases r with
  | ok a => exact Or.inl ⟨a, rfl⟩
  | error e => exact Or.inr rfl

theorem fromStream_outcome (bytes : Bytes) : Documented (fromStream bytes) := toInvalidData_documented _
theorem forId_outcome (d : StreamData) (id : Str) : Documented (forId d id) := toInvalidData_documented _

theorem fetchAll_documented (f : Str → R ZoneValue) (hf : ∀ id, Documented (f id)) (ids : List Str) :
    Documented (fetchAll f ids) := by
  induction ids with
  | nil => exact Or.inl ⟨0, rfl⟩
  | cons id ids ih =>
    unfold fetchAll
    rcases hf id with ⟨a, ha⟩ | he
    · rw [ha]
      rcases ih with ⟨n, hn⟩ | he2
      · rw [hn]; exact Or.inl ⟨n + 1, rfl⟩
      · rw [he2]; exact Or.inr rfl
    · rw [he]; exact Or.inr rfl

/-- C20 on the model of the intended behaviour: loading any byte string, listing the ids and fetching every zone
    either works or fails with the documented error — no other failure kind. -/
theorem loadAndUse_outcome (bytes : Bytes) : (∃ n, loadAndUse bytes = .ok n) ∨ loadAndUse bytes = .error .invalidData := by
  unfold loadAndUse
  rcases fromStream_outcome bytes with ⟨d, hd⟩ | he
  · rw [hd]
    exact fetchAll_documented (forId d) (forId_outcome d) (getIds d)
  · rw [he]; exact Or.inr rfl

/-- a stream shorter than its 4-byte header: `struct.error` inside the `try`, translated by the entry point -/
theorem short_header_rejected (bytes : Bytes) (h : bytes.length < 4) :
    fromStreamBody bytes = .error .structError ∧ fromStreamRaw bytes = .error .invalidData ∧
    fromStream bytes = .error .invalidData ∧ loadAndUse bytes = .error .invalidData := by
  have e : fromStreamBody bytes = .error .structError := by
    match bytes, h with
    | [], _ => rfl
    | [_], _ => rfl
    | [_, _], _ => rfl
    | [_, _, _], _ => rfl
  have e2 : fromStreamRaw bytes = .error .invalidData := by unfold fromStreamRaw; rw [e]; rfl
  refine ⟨e, e2, ?_, ?_⟩
  · unfold fromStream; rw [e2]; rfl
  · unfold loadAndUse fromStream; rw [e2]; rfl

/-! ## loops: the number of iterations is bounded by the bytes available -/

/-- a successful `readN f n` consumed at least `n` bytes: a count larger than the remaining data always fails -/
theorem readN_consumes {α} (f : Bytes → R (α × Bytes)) (hf : Progress f) (n : Nat) :
    ∀ bs l r, readN f n bs = .ok (l, r) → r.length + n ≤ bs.length := by
  induction n with
  | zero => intro bs l r h; simp only [readN] at h; cases h; omega
  | succ n ih =>
    intro bs l r h
    unfold readN at h
    cases h1 : f bs with
    | error e => rw [h1] at h; cases h
    | ok p =>
      obtain ⟨a, r1⟩ := p
      rw [h1] at h
      simp only [bind, Except.bind] at h
      cases h2 : readN f n r1 with
      | error e => rw [h2] at h; cases h
      | ok q =>
        obtain ⟨as, r2⟩ := q
        rw [h2] at h
        have := ih r1 as r2 h2
        have := hf bs a r1 h1
        simp only [Except.ok.injEq, Prod.mk.injEq] at h
        obtain ⟨_, rfl⟩ := h
        omega

/-- number of element reads `readN f n bs` performs (it stops at the first failure) -/
def readNTicks {α} (f : Bytes → R (α × Bytes)) : Nat → Bytes → Nat
  | 0, _ => 0
  | n + 1, bs => match f bs with
    | .error _ => 1
    | .ok (_, r) => 1 + readNTicks f n r

/-- whatever count the data announces (up to 2^31−1), a loop over a progressing reader performs at most
    `remaining bytes + 1` element reads before it returns or fails -/
theorem readNTicks_linear {α} (f : Bytes → R (α × Bytes)) (hf : Progress f) (n : Nat) :
    ∀ bs, readNTicks f n bs ≤ bs.length + 1 := by
  induction n with
  | zero => intro bs; simp [readNTicks]
  | succ n ih =>
    intro bs
    unfold readNTicks
    cases h1 : f bs with
    | error e => simp
    | ok p =>
      obtain ⟨a, r1⟩ := p
      simp only
      have := ih r1
      have := hf bs a r1 h1
      omega

/-! ## field framing: the fuel is never what stops `readFields` -/

theorem readFields_fuel_irrelevant (f1 : Nat) : ∀ (f2 : Nat) (b : Builder) (bs : Bytes), bs.length ≤ f1 → bs.length ≤ f2 →
    readFields f1 b bs = readFields f2 b bs := by
  induction f1 with
  | zero =>
    intro f2 b bs h1 _
    have : bs = [] := by cases bs with | nil => rfl | cons _ _ => simp at h1
    subst this
    cases f2 <;> rfl
  | succ f1 ih =>
    intro f2 b bs h1 h2
    cases bs with
    | nil => cases f2 <;> rfl
    | cons id r =>
      cases f2 with
      | zero => simp at h2
      | succ f2 =>
        simp only [readFields]
        split
        · rfl
        · cases hc : readCount r with
          | error e => rfl
          | ok p =>
            obtain ⟨len, r1⟩ := p
            simp only [bind, Except.bind]
            cases ht : takeExact len.toNat r1 with
            | none => rfl
            | some q =>
              obtain ⟨data, r2⟩ := q
              simp only
              cases hh : handleField b id data with
              | error e => rfl
              | ok b' =>
                simp only
                have hp1 := readCount_progress r len r1 hc
                have hp2 := takeExact_length _ _ _ _ ht
                simp only [List.length_cons] at h1 h2
                exact ih f2 b' r2 (by omega) (by omega)

/-- a stream cut anywhere strictly inside a field's payload (after any number of complete fields) is rejected
    with the documented error: the prefix space collapses to the field boundaries -/
theorem truncation_inside_field (fields : List (Nat × Bytes)) (id n : Nat) (part : Bytes)
    (hf : ∀ f ∈ fields, (f.2.length : Int) ≤ INT_MAX) (hn : (n : Int) ≤ INT_MAX) (hp : part.length < n) :
    fromStream (0 :: 0 :: 0 :: 0 :: (encodeFields fields ++ id :: (writeVarint n ++ part))) = .error .invalidData := by
  have hb : ∃ e, fromStreamBody (0 :: 0 :: 0 :: 0 :: (encodeFields fields ++ id :: (writeVarint n ++ part))) = .error e := by
    unfold fromStreamBody
    simp only [ne_eq, not_true_eq_false, or_self, if_false]
    obtain ⟨e, he⟩ := readFields_cut fields id n part hf hn hp _ {} (Nat.le_refl _)
    rw [he]
    exact ⟨e, rfl⟩
  obtain ⟨e, he⟩ := hb
  unfold fromStream fromStreamRaw
  rw [he]
  unfold translate
  simp only
  split <;> rfl

/-- Cutting a well-formed stream (version 0, complete fields) at ANY position short of its end gives the documented
    error, or — exactly when the cut falls on a field boundary — the well-formed stream of its first `k` fields.
    With `truncation_inside_field` this covers the whole prefix space. -/
theorem truncation_anywhere (fields : List (Nat × Bytes)) (hf : ∀ f ∈ fields, (f.2.length : Int) ≤ INT_MAX)
    (n : Nat) (hn : n < (wellFormed fields).length) :
    fromStream ((wellFormed fields).take n) = .error .invalidData ∨
    ∃ k, k < fields.length ∧ (wellFormed fields).take n = wellFormed (fields.take k) :=
  truncation_anywhere_aux fields hf n hn

/-- Work bound with the alias factor. `bytesHanded` = bytes given to decoders by load + list + fetch-all (framing pass,
    one handler pass per field payload, one `create_zone` pass per listed id over its zone field); every decoder is one
    left-to-right structural recursion over what it is given. The payloads are disjoint slices (`payloadBytes_le`), a
    zone field is one of them (`zoneField_le_stream`), hence
    `bytesHanded ≤ |bytes| · (2 + #ids)`; `#ids` cannot be dropped (k aliases of one zone decode it k times). -/
theorem loadAndUse_work_bound (bytes : Bytes) : bytesHanded bytes ≤ bytes.length * (2 + idCount bytes) :=
  bytesHanded_bound bytes

/-- the framed payloads are disjoint slices of the stream -/
theorem payloads_fit (bytes : Bytes) :
    payloadBytes (splitFields bytes.length bytes) + 2 * (splitFields bytes.length bytes).length ≤ bytes.length :=
  payloadBytes_le bytes.length bytes

/-! ## the entry points as written are the specification

  `fromStreamRaw`/`forIdRaw`/`loadAndUseRaw` model the repaired code literally (`try` body + `except` tuple). Every
  failure kind that can arise inside the two `try` blocks — through all readers, constructors and the tail-rule
  evaluation — is `InvalidPyodaDataError` or in the tuple (`fromStreamBody_kinds`, `createZoneBody_k7`; the Decimal
  helper never fails there because its operands are range-checked first), so nothing else can escape. -/

theorem fromStream_as_written (bytes : Bytes) : fromStreamRaw bytes = fromStream bytes := fromStreamRaw_eq_spec bytes

theorem forId_as_written (d : StreamData) (id : Str) (h : id ∈ getIds d) : forIdRaw d id = forId d id :=
  forIdRaw_eq_spec d id h

/-- C20 for the code as written (model): load, list ids, fetch every zone — a result or `invalidData`, for ALL bytes -/
theorem loadAndUseRaw_outcome (bytes : Bytes) :
    (∃ n, loadAndUseRaw bytes = .ok n) ∨ loadAndUseRaw bytes = .error .invalidData := by
  rw [loadAndUseRaw_eq_spec]
  exact loadAndUse_outcome bytes

/-- the progress hypothesis holds for the element readers of the string pool, the id map and the pooled names -/
theorem element_readers_progress (pool : Option (List Str)) :
    Progress readByte ∧ Progress readCount ∧ Progress (readString pool) :=
  ⟨readByte_progress, readCount_progress, readString_progress pool⟩

example : loadAndUse [] = .error .invalidData := (short_header_rejected [] (by decide)).2.2.2
example : fromStreamBody [0, 0] = .error .structError := rfl
example : fromStreamBody [0, 0, 0, 0, 9] = .error .valueError := by rfl
example : loadAndUseRaw [0, 0, 0, 0, 9] = .error .invalidData := by decide
example : loadAndUse [0, 0, 0, 0, 9] = .error .invalidData := by decide

end Pyoda.C20
