/-
  C12 — helper definitions (statement schemas) and lemmas for the property theorems in C12.lean.
-/
import PyodaModel.Compare
import PyodaProofs.Basic

namespace Pyoda.C12
open Pyoda Pyoda.Compare

/-! ## statement schemas -/

/-- `==` is reflexive, symmetric and transitive -/
def EqEquivalence {α} (eq : α → α → Bool) : Prop :=
  (∀ a, eq a a = true) ∧ (∀ a b, eq a b = eq b a) ∧ (∀ a b c, eq a b = true → eq b c = true → eq a c = true)

/-- `!=` is the negation of `==` -/
def NeNegates {α} (eq ne : α → α → Bool) : Prop := ∀ a b, ne a b = !eq a b

/-- the integer `c` has the sign of the comparison of the keys `k1`, `k2` -/
def SameSign (c k1 k2 : Int) : Prop := (c < 0 ↔ k1 < k2) ∧ (c = 0 ↔ k1 = k2) ∧ (c > 0 ↔ k1 > k2)

/-- inside one group (calendar) `compare_to` answers, with the sign of the comparison of the timeline keys -/
def CmpIffTimeline {α} (cmp : α → α → R Int) (grp key : α → Int) (V : α → Prop) : Prop :=
  ∀ a b, V a → V b → grp a = grp b → ∃ c, cmp a b = .ok c ∧ SameSign c (key a) (key b)

/-- `compare_to` is a total order inside one group: total and antisymmetric (trichotomy with the swapped
    comparison), ties are exactly the `==` values, transitive -/
def CmpTotalOrder {α} (cmp : α → α → R Int) (eq : α → α → Bool) (grp : α → Int) (V : α → Prop) : Prop :=
  ∀ a b c, V a → V b → V c → grp a = grp b → grp b = grp c →
    ∃ ab ba bc ac, cmp a b = .ok ab ∧ cmp b a = .ok ba ∧ cmp b c = .ok bc ∧ cmp a c = .ok ac ∧
      (ab < 0 ↔ ba > 0) ∧ (ab = 0 ↔ ba = 0) ∧ (ab > 0 ↔ ba < 0) ∧
      (ab = 0 ↔ eq a b = true) ∧
      (ab ≤ 0 → bc ≤ 0 → ac ≤ 0) ∧ (ab < 0 → bc ≤ 0 → ac < 0) ∧ (ab ≤ 0 → bc < 0 → ac < 0)

/-- `<, <=, >, >=` are `compare_to` tested against zero — including when `compare_to` raises -/
def OpsAgree {α} (lt le gt ge : α → α → R Bool) (cmp : α → α → R Int) : Prop :=
  ∀ a b, lt a b = (cmp a b).map (fun c => decide (c < 0)) ∧ le a b = (cmp a b).map (fun c => decide (c ≤ 0)) ∧
         gt a b = (cmp a b).map (fun c => decide (c > 0)) ∧ ge a b = (cmp a b).map (fun c => decide (c ≥ 0))

/-- `max(a, b)` is the greater operand by `compare_to`; on a tie the first operand (`tieFirst`) or the second -/
def MaxAgree {α} (mx : α → α → R α) (cmp : α → α → R Int) (tieFirst : Bool) : Prop :=
  match tieFirst with
  | true => ∀ a b, mx a b = (cmp a b).map (fun c => if c < 0 then b else a)
  | false => ∀ a b, mx a b = (cmp a b).map (fun c => if c ≤ 0 then b else a)

/-- `min(a, b)` is the smaller operand by `compare_to`; on a tie the first operand (`tieFirst`) or the second -/
def MinAgree {α} (mn : α → α → R α) (cmp : α → α → R Int) (tieFirst : Bool) : Prop :=
  match tieFirst with
  | true => ∀ a b, mn a b = (cmp a b).map (fun c => if c > 0 then b else a)
  | false => ∀ a b, mn a b = (cmp a b).map (fun c => if c ≥ 0 then b else a)

theorem pyMax_ok {α} (gt : α → α → R Bool) (x y : α) (p : Prop) [Decidable p] (h : gt y x = .ok (decide p)) :
    pyMax gt x y = .ok (if p then y else x) := by
  simp only [pyMax, h]; by_cases hp : p <;> simp [hp]

theorem pyMin_ok {α} (lt : α → α → R Bool) (x y : α) (p : Prop) [Decidable p] (h : lt y x = .ok (decide p)) :
    pyMin lt x y = .ok (if p then y else x) := by
  simp only [pyMin, h]; by_cases hp : p <;> simp [hp]

theorem pyMax_err {α} (gt : α → α → R Bool) (x y : α) (e : PyExc) (h : gt y x = .error e) :
    pyMax gt x y = .error e := by simp only [pyMax, h]

theorem pyMin_err {α} (lt : α → α → R Bool) (x y : α) (e : PyExc) (h : lt y x = .error e) :
    pyMin lt x y = .error e := by simp only [pyMin, h]

/-! ## generic lemmas -/

theorem eqEquivalence_of_iff_eq {α} (eq : α → α → Bool) (h : ∀ a b, eq a b = true ↔ a = b) : EqEquivalence eq := by
  refine ⟨fun a => (h a a).2 rfl, fun a b => ?_, fun a b c hab hbc => ?_⟩
  · rw [Bool.eq_iff_iff, h, h]; exact eq_comm
  · rw [h] at *; exact hab.trans hbc

theorem totalOrder_of_timeline {α} (cmp : α → α → R Int) (eq : α → α → Bool) (grp key : α → Int) (V : α → Prop)
    (ht : CmpIffTimeline cmp grp key V)
    (he : ∀ a b, V a → V b → grp a = grp b → (key a = key b ↔ eq a b = true)) : CmpTotalOrder cmp eq grp V := by
  intro a b c va vb vc gab gbc
  obtain ⟨ab, hab, sab⟩ := ht a b va vb gab
  obtain ⟨ba, hba, sba⟩ := ht b a vb va gab.symm
  obtain ⟨bc, hbc, sbc⟩ := ht b c vb vc gbc
  obtain ⟨ac, hac, sac⟩ := ht a c va vc (gab.trans gbc)
  have e := he a b va vb gab
  refine ⟨ab, ba, bc, ac, hab, hba, hbc, hac, ?_⟩
  simp only [SameSign] at *
  refine ⟨?_, ?_, ?_, ?_, ?_, ?_, ?_⟩
  · omega
  · omega
  · omega
  · rw [← e]; omega
  · omega
  · omega
  · omega

/-! ## packing -/

theorem unpack_pack' (y m d : Int) (h : FieldsOK m d) :
    ymdYear (packYMD y m d) = y ∧ ymdMonth (packYMD y m d) = m ∧ ymdDay (packYMD y m d) = d := by
  simp only [FieldsOK, ymdYear, ymdMonth, ymdDay, packYMD] at *
  omega

theorem repack (v : Int) :
    packYMD (ymdYear v) (ymdMonth v) (ymdDay v) = v ∧ FieldsOK (ymdMonth v) (ymdDay v) := by
  simp only [FieldsOK, ymdYear, ymdMonth, ymdDay, packYMD] at *
  omega

theorem packed_lt_iff (y1 m1 d1 y2 m2 d2 : Int) (h1 : FieldsOK m1 d1) (h2 : FieldsOK m2 d2) :
    (packYMD y1 m1 d1 < packYMD y2 m2 d2 ↔ (y1 < y2 ∨ (y1 = y2 ∧ (m1 < m2 ∨ (m1 = m2 ∧ d1 < d2))))) := by
  simp only [FieldsOK, packYMD] at *
  omega

theorem packed_eq_iff (y1 m1 d1 y2 m2 d2 : Int) (h1 : FieldsOK m1 d1) (h2 : FieldsOK m2 d2) :
    (packYMD y1 m1 d1 = packYMD y2 m2 d2 ↔ (y1 = y2 ∧ m1 = m2 ∧ d1 = d2)) := by
  simp only [FieldsOK, packYMD] at *
  omega

theorem packCal_fields (o y m d : Int) (ho : OrdOK o) :
    ymdcOrdinal (packYMDC o y m d) = o ∧ ymdcToYMD (packYMDC o y m d) = packYMD y m d := by
  simp only [OrdOK, ymdcOrdinal, ymdcToYMD, packYMDC] at *
  omega

theorem ymdc_split (v w : Int) : v = w ↔ (ymdcOrdinal v = ymdcOrdinal w ∧ ymdcToYMD v = ymdcToYMD w) := by
  simp only [ymdcOrdinal, ymdcToYMD]
  omega

/-! ## Hebrew scriptural months -/

/-- months that exist in Hebrew year `y` (scriptural numbering): 1 … 12, and 13 (Adar II) in leap years -/
def HebMonthOK (y m : Int) : Prop := 1 ≤ m ∧ m ≤ (if hebIsLeap y then 13 else 12)

theorem civil_range (y m : Int) (h : HebMonthOK y m) :
    1 ≤ scripturalToCivil y m ∧ scripturalToCivil y m ≤ 13 := by
  simp only [HebMonthOK, scripturalToCivil] at *
  by_cases hl : hebIsLeap y = true
  · simp only [hl, if_true] at *; split <;> omega
  · simp only [hl] at *; split <;> simp at * <;> omega

theorem civil_inj (y m1 m2 : Int) (h1 : HebMonthOK y m1) (h2 : HebMonthOK y m2)
    (h : scripturalToCivil y m1 = scripturalToCivil y m2) : m1 = m2 := by
  simp only [scripturalToCivil, HebMonthOK] at *
  by_cases hl : hebIsLeap y = true
  · simp only [hl, if_true] at *
    split at h <;> split at h <;> omega
  · simp only [hl] at *
    split at h <;> split at h <;> simp at * <;> omega

/-- the packed (year, civil month, day) of a scriptural `_YearMonthDay` value -/
def civilKey (v : Int) : Int := packYMD (ymdYear v) (scripturalToCivil (ymdYear v) (ymdMonth v)) (ymdDay v)

/-- the timeline key of a date inside its calendar: the packed (year, month, day), with the civil month
    for the scriptural Hebrew calendar -/
def dateKey (ord v : Int) : Int := if ord = HEBREW_SCRIPTURAL then civilKey v else v

/-- validity needed from a packed date: scriptural Hebrew months exist in their year -/
def YmdValid (ord v : Int) : Prop := ord = HEBREW_SCRIPTURAL → HebMonthOK (ymdYear v) (ymdMonth v)

theorem calCompare_sign (ord l r : Int) (hl : YmdValid ord l) (hr : YmdValid ord r) :
    SameSign (calCompare ord l r) (dateKey ord l) (dateKey ord r) := by
  by_cases ho : ord = HEBREW_SCRIPTURAL
  · have cl := civil_range _ _ (hl ho)
    have cr := civil_range _ _ (hr ho)
    have fl := (repack l).2
    have fr := (repack r).2
    simp only [calCompare, dateKey, ho, if_true, civilKey, SameSign, packYMD, FieldsOK] at *
    generalize scripturalToCivil (ymdYear l) (ymdMonth l) = cl' at *
    generalize scripturalToCivil (ymdYear r) (ymdMonth r) = cr' at *
    split
    · omega
    · split <;> omega
  · simp only [calCompare, dateKey, ho, if_false, SameSign]
    omega

theorem dateKey_inj (ord l r : Int) (hl : YmdValid ord l) (hr : YmdValid ord r) :
    dateKey ord l = dateKey ord r ↔ l = r := by
  by_cases ho : ord = HEBREW_SCRIPTURAL
  · constructor
    · intro h
      have cl := civil_range _ _ (hl ho)
      have cr := civil_range _ _ (hr ho)
      have fl := (repack l)
      have fr := (repack r)
      simp only [dateKey, ho, if_true, civilKey] at h
      rw [packed_eq_iff _ _ _ _ _ _ ⟨cl.1, by omega, fl.2.2.2.1, fl.2.2.2.2⟩ ⟨cr.1, by omega, fr.2.2.2.1, fr.2.2.2.2⟩] at h
      obtain ⟨hy, hm, hd⟩ := h
      have hm' : ymdMonth l = ymdMonth r := by
        have h2 := hr ho
        rw [← hy] at h2 hm
        exact civil_inj _ _ _ (hl ho) h2 hm
      rw [← fl.1, ← fr.1, hy, hm', hd]
    · intro h; rw [h]
  · simp only [dateKey, ho, if_false]

/-- the sign of `calCompare` flips when the operands are swapped (no validity needed) -/
theorem calCompare_swap (ord l r : Int) :
    (calCompare ord l r < 0 ↔ calCompare ord r l > 0) ∧ (calCompare ord l r = 0 ↔ calCompare ord r l = 0) ∧
    (calCompare ord l r > 0 ↔ calCompare ord r l < 0) := by
  simp only [calCompare]
  generalize scripturalToCivil (ymdYear l) (ymdMonth l) = cl
  generalize scripturalToCivil (ymdYear r) (ymdMonth r) = cr
  by_cases ho : ord = HEBREW_SCRIPTURAL
  · simp only [ho, if_true]
    split <;> split <;> (try split) <;> (try split) <;> omega
  · simp only [ho, if_false]; omega

/-! ## Duration comparison facts -/

theorem dur_lt_cmp (a b : Duration) : Duration.lt a b = decide (Duration.compareTo a b < 0) := by
  rw [Bool.eq_iff_iff]
  simp only [Duration.lt, Duration.compareTo, Bool.or_eq_true, Bool.and_eq_true, decide_eq_true_eq]
  split <;> simp only [decide_eq_true_eq] <;> omega

theorem dur_gt_cmp (a b : Duration) : Duration.gt a b = decide (Duration.compareTo a b > 0) := by
  rw [Bool.eq_iff_iff]
  simp only [Duration.gt, Duration.compareTo, Bool.or_eq_true, Bool.and_eq_true, decide_eq_true_eq]
  split <;> simp only [decide_eq_true_eq] <;> omega

theorem dur_beq_cmp (a b : Duration) : Duration.beq a b = decide (Duration.compareTo a b = 0) := by
  rw [Bool.eq_iff_iff]
  simp only [Duration.beq, Duration.compareTo, Bool.and_eq_true, decide_eq_true_eq]
  split <;> simp only [decide_eq_true_eq] <;> omega

theorem dur_le_cmp (a b : Duration) : Duration.le a b = decide (Duration.compareTo a b ≤ 0) := by
  rw [Bool.eq_iff_iff]
  simp only [Duration.le, dur_lt_cmp, dur_beq_cmp, Bool.or_eq_true, decide_eq_true_eq]
  omega

theorem dur_ge_cmp (a b : Duration) : Duration.ge a b = decide (Duration.compareTo a b ≥ 0) := by
  rw [Bool.eq_iff_iff]
  simp only [Duration.ge, dur_gt_cmp, dur_beq_cmp, Bool.or_eq_true, decide_eq_true_eq]
  omega

theorem dur_cmp_swap (a b : Duration) :
    (Duration.compareTo a b < 0 ↔ Duration.compareTo b a > 0) ∧ (Duration.compareTo a b > 0 ↔ Duration.compareTo b a < 0) := by
  simp only [Duration.compareTo]
  split <;> split <;> omega

theorem dur_beq_iff (a b : Duration) : Duration.beq a b = true ↔ a = b := by
  cases a; cases b; simp [Duration.beq]

/-- a normalised duration: nano-of-day inside one day -/
def DurNorm (d : Duration) : Prop := 0 ≤ d.nod ∧ d.nod < NPD

theorem dur_cmp_sign (a b : Duration) (ha : DurNorm a) (hb : DurNorm b) :
    SameSign (Duration.compareTo a b) (Duration.toNanos a) (Duration.toNanos b) := by
  simp only [SameSign, Duration.compareTo, Duration.toNanos, DurNorm, NPD] at *
  split <;> omega

end Pyoda.C12
