/-
  C07 (generic engine) — format-then-parse THROUGH embedded patterns: LocalDateTime patterns with `ld<…>` / `lt<…>` parts
  (`Pat.segmented`).

  `steps_roundtrip` (C07Stepped) composes steps against the text that follows the whole list; here the syntactic
  criterion is generalised to step lists that are followed by more text (`DelimitedF`, `followF`), segments are
  composed (`segs_roundtrip`), and `segmented_roundtrip` is the analogue of `pattern_roundtrip`:
  for every culture record, every `DelimitedSegs` list of segments and every value whose fields the steps can hold and
  the embedded patterns and the outer bucket can represent, `parse (format v) = v`.
-/
import PyodaProofs.C07Stepped

namespace Pyoda.C07
open Pyoda Pyoda.Text

/-! ## what a `Follow` promises about a text -/

def FollowSpec : Follow → Text → Prop
  | .stop, t => t = []
  | .char c, t => t.head? = some c
  | .digit, t => ∃ d, t.head? = some d ∧ isDigit d = true
  | .dotOr none, t => t = [] ∨ t.head? = some '.'
  | .dotOr (some c), t => t.head? = some c ∨ t.head? = some '.'
  | .unknown, _ => True

theorem spec_nonDigit (f : Follow) (t : Text) (hs : FollowSpec f t) (h : f.nonDigit = true) : NoDigitHead t := by
  cases f with
  | stop => simp only [FollowSpec] at hs; rw [hs]; exact noDigitHead_nil
  | char c =>
    simp only [FollowSpec] at hs
    simp only [Follow.nonDigit, Bool.not_eq_true'] at h
    intro d hd; rw [hs] at hd; injection hd with hd; rw [← hd]; exact h
  | digit => simp [Follow.nonDigit] at h
  | dotOr oc =>
    cases oc with
    | none =>
      simp only [FollowSpec] at hs
      rcases hs with e | e
      · rw [e]; exact noDigitHead_nil
      · intro d hd; rw [e] at hd; injection hd with hd; rw [← hd]; exact isDigit_dot
    | some c =>
      simp only [FollowSpec] at hs
      simp only [Follow.nonDigit, Bool.not_eq_true'] at h
      rcases hs with e | e
      · intro d hd; rw [e] at hd; injection hd with hd; rw [← hd]; exact h
      · intro d hd; rw [e] at hd; injection hd with hd; rw [← hd]; exact isDigit_dot
  | unknown => simp [Follow.nonDigit] at h

theorem spec_notChar (f : Follow) (t : Text) (x : Char) (hs : FollowSpec f t) (h : f.notChar x = true) : headIsNot x t := by
  unfold headIsNot
  cases f with
  | stop => simp only [FollowSpec] at hs; rw [hs]; simp
  | char c =>
    simp only [FollowSpec] at hs
    simp only [Follow.notChar, decide_eq_true_eq] at h
    rw [hs]; intro e; injection e with e; exact h e
  | digit =>
    simp only [FollowSpec] at hs
    simp only [Follow.notChar, Bool.not_eq_true'] at h
    obtain ⟨d, e, hd⟩ := hs
    rw [e]; intro e'; injection e' with e'; rw [e'] at hd; rw [hd] at h; cases h
  | dotOr oc =>
    cases oc with
    | none =>
      simp only [FollowSpec] at hs
      simp only [Follow.notChar, decide_eq_true_eq] at h
      rcases hs with e | e
      · rw [e]; simp
      · rw [e]; intro e'; injection e' with e'; exact h e'.symm
    | some c =>
      simp only [FollowSpec] at hs
      simp only [Follow.notChar, Bool.and_eq_true, decide_eq_true_eq] at h
      rcases hs with e | e
      · rw [e]; intro e'; injection e' with e'; exact h.2 e'
      · rw [e]; intro e'; injection e' with e'; exact h.1 e'.symm
  | unknown => simp [Follow.notChar] at h

theorem spec_notCharCI (cu : Culture) (f : Follow) (t : Text) (x : Char) (hs : FollowSpec f t)
    (h : f.notCharCI (lowC cu) x = true) : tailSafe (lowC cu) [x] t = true := by
  have key : ∀ (c : Char), t.head? = some c → lowC cu c ≠ x → tailSafe (lowC cu) [x] t = true := by
    intro c hc hne
    cases ho : t with
    | nil => rfl
    | cons y tl =>
      rw [ho] at hc; simp only [List.head?_cons, Option.some.injEq] at hc
      rw [tailSafe_single_cons, hc]; simpa using hne
  have dot : lowC cu '.' = '.' := lowC_dot cu
  cases f with
  | stop => simp only [FollowSpec] at hs; rw [hs]; rfl
  | char c =>
    simp only [FollowSpec] at hs
    simp only [Follow.notCharCI, decide_eq_true_eq] at h
    exact key c hs h
  | digit =>
    simp only [FollowSpec] at hs
    simp only [Follow.notCharCI, Bool.not_eq_true'] at h
    obtain ⟨d, e, hd⟩ := hs
    refine key d e ?_
    rw [lowC_digit cu d hd]
    intro e'; rw [e'] at hd; rw [hd] at h; cases h
  | dotOr oc =>
    cases oc with
    | none =>
      simp only [FollowSpec] at hs
      simp only [Follow.notCharCI, decide_eq_true_eq] at h
      rcases hs with e | e
      · rw [e]; rfl
      · exact key '.' e (by rw [dot]; exact fun e' => h e'.symm)
    | some c =>
      simp only [FollowSpec] at hs
      simp only [Follow.notCharCI, Bool.and_eq_true, decide_eq_true_eq] at h
      rcases hs with e | e
      · exact key c e h.2
      · exact key '.' e (by rw [dot]; exact fun e' => h.1 e'.symm)
  | unknown => simp [Follow.notCharCI] at h

theorem spec_danger (cu : Culture) (f : Follow) (t : Text) (ds : List Char) (hs : FollowSpec f t)
    (h : ds.all (f.notCharCI (lowC cu)) = true) : tailSafe (lowC cu) ds t = true := by
  apply tailSafe_of_forall
  intro x hx
  rw [List.all_eq_true] at h
  exact spec_notCharCI cu f t x hs (h x hx)

/-! ## `followF`: the follow of a step list that is followed by more text -/

theorem followF_sound (cu : Culture) (used : Nat) (get : Getter) (fo : Follow) (rest : Text) (hr : FollowSpec fo rest) :
    ∀ (ss : List Step), (∀ s ∈ ss, ValOK get s) → FollowSpec (followF fo ss) (outSteps cu used get ss ++ rest) := by
  intro ss
  induction ss with
  | nil => intro _; simpa [followF, outSteps] using hr
  | cons s ss ih =>
    intro hv
    have hvss : ∀ t ∈ ss, ValOK get t := fun t ht => hv t (by simp [ht])
    have ihs := ih hvss
    cases s with
    | lit t =>
      cases t with
      | nil => simpa [followF, outSteps, outStep] using ihs
      | cons c t => simp [followF, outSteps, outStep, FollowSpec]
    | semi => simp [followF, outSteps, outStep, FollowSpec]
    | num g st count maxCount minV maxV =>
      by_cases hm : minV ≥ 0
      · simp only [followF, hm, if_true, FollowSpec]
        have hn : NumOK count maxCount minV maxV (get g) := hv (.num g st count maxCount minV maxV) (by simp)
        have hv0 : get g ≥ 0 := by have := hn.lo; omega
        obtain ⟨c, l, e, hc⟩ := leftPad_head_digit (get g).toNat count (outSteps cu used get ss ++ rest) hn.c1
        refine ⟨c, ?_, hc⟩
        simp only [outSteps, outStep, numOut, if_pos hv0, List.append_assoc, e, List.head?_cons]
      · simp only [followF, hm, if_false, FollowSpec]
    | frac _ _ _ => simp [followF, FollowSpec]
    | dotFrac count scale comma =>
      have hd : dotOut (get .fraction) count scale = [] ∨ (dotOut (get .fraction) count scale).head? = some '.' := by
        unfold dotOut; split
        · left; rfl
        · right; rfl
      simp only [followF, outSteps, outStep, List.append_assoc]
      cases hf : followF fo ss with
      | stop =>
        rw [hf] at ihs; simp only [FollowSpec] at ihs ⊢
        rcases hd with h | h
        · left; rw [h, ihs]; rfl
        · right
          cases hq : dotOut (get .fraction) count scale with
          | nil => rw [hq] at h; simp at h
          | cons x xs => rw [hq] at h; simp at h; simp [h]
      | char c =>
        rw [hf] at ihs; simp only [FollowSpec] at ihs ⊢
        rcases hd with h | h
        · left; rw [h]; simpa using ihs
        · right
          cases hq : dotOut (get .fraction) count scale with
          | nil => rw [hq] at h; simp at h
          | cons x xs => rw [hq] at h; simp at h; simp [h]
      | digit => simp [FollowSpec]
      | dotOr _ => simp [FollowSpec]
      | unknown => simp [FollowSpec]
    | signRequired => simp [followF, FollowSpec]
    | signNegativeOnly => simp [followF, FollowSpec]
    | amPm _ => simp [followF, FollowSpec]
    | monthText _ => simp [followF, FollowSpec]
    | dayText _ => simp [followF, FollowSpec]
    | era => simp [followF, FollowSpec]
    | eraC _ => simp [followF, FollowSpec]
    | calendar => simp [followF, FollowSpec]

/-- the syntactic criterion with a continuation implies the per-step conditions against that continuation -/
theorem delimitedF_stepsOK (cu : Culture) (used : Nat) (get : Getter) (fo : Follow) (rest : Text) (hr : FollowSpec fo rest) :
    ∀ (ss : List Step) (safe : Bool) (buf : Text),
    DelimitedF cu used fo safe ss = true → (safe = true → NoDotEnd buf) → (∀ s ∈ ss, ValOK get s) →
    StepsOK cu used get buf ss rest := by
  intro ss
  induction ss with
  | nil => intro _ _ _ _ _; trivial
  | cons s ss ih =>
    intro safe buf hd hb hv
    simp only [DelimitedF, Bool.and_eq_true] at hd
    obtain ⟨hd1, hd2⟩ := hd
    have hvs : ValOK get s := hv s (by simp)
    have hvss : ∀ t ∈ ss, ValOK get t := fun t ht => hv t (by simp [ht])
    have hfs := followF_sound cu used get fo rest hr ss hvss
    refine ⟨?_, ?_⟩
    · cases s with
      | lit t => trivial
      | semi => trivial
      | signRequired => exact hvs
      | num g st count maxCount minV maxV =>
        refine ⟨hvs, ?_⟩
        simp only [delimStep, Bool.or_eq_true, decide_eq_true_eq] at hd1
        rcases hd1 with h | h
        · left; exact h
        · right; exact spec_nonDigit _ _ hfs h
      | frac count scale fixed =>
        refine ⟨hvs, ?_⟩
        intro hf; subst hf
        simp only [delimStep, Bool.false_or, Bool.and_eq_true] at hd1
        exact ⟨spec_nonDigit _ _ hfs hd1.1, fun _ => hb hd1.2⟩
      | dotFrac count scale comma =>
        simp only [delimStep, Bool.and_eq_true, Bool.or_eq_true, Bool.not_eq_true'] at hd1
        obtain ⟨⟨h1, h2⟩, h3⟩ := hd1
        refine ⟨hvs, spec_nonDigit _ _ hfs h1, fun _ => ⟨spec_notChar _ _ '.' hfs h2, ?_⟩⟩
        intro hc
        rcases h3 with h3 | h3
        · rw [hc] at h3; cases h3
        · exact spec_notChar _ _ ',' hfs h3
      | signNegativeOnly =>
        simp only [delimStep, Bool.and_eq_true] at hd1
        exact ⟨hvs, fun _ => ⟨spec_notChar _ _ '-' hfs hd1.1, spec_notChar _ _ '+' hfs hd1.2⟩⟩
      | amPm count =>
        simp only [delimStep, textStepOK, Bool.and_eq_true] at hd1
        exact ⟨hvs, hd1.1, spec_danger cu _ _ _ hfs hd1.2⟩
      | monthText count =>
        simp only [delimStep, textStepOK, Bool.and_eq_true] at hd1
        exact ⟨hvs, hd1.1, spec_danger cu _ _ _ hfs hd1.2⟩
      | dayText count =>
        simp only [delimStep, textStepOK, Bool.and_eq_true] at hd1
        exact ⟨hvs, hd1.1, spec_danger cu _ _ _ hfs hd1.2⟩
      | era =>
        simp only [delimStep, textStepOK, Bool.and_eq_true] at hd1
        exact ⟨hvs, hd1.1, spec_danger cu _ _ _ hfs hd1.2⟩
      | eraC cal =>
        simp only [delimStep, textStepOK, Bool.and_eq_true] at hd1
        exact ⟨hvs, hd1.1, spec_danger cu _ _ _ hfs hd1.2⟩
      | calendar => exact hvs
    · exact ih (lastSafe safe s) (buf ++ outStep cu used get s) hd2
        (fun hs => lastSafe_sound cu used get safe buf s hvs hb hs) hvss

/-- the buffer invariant along a step list -/
theorem lastSafeList_sound (cu : Culture) (used : Nat) (get : Getter) : ∀ (ss : List Step) (safe : Bool) (buf : Text),
    (∀ s ∈ ss, ValOK get s) → (safe = true → NoDotEnd buf) → lastSafeList safe ss = true →
    NoDotEnd (buf ++ outSteps cu used get ss) := by
  intro ss
  induction ss with
  | nil => intro safe buf _ hb hs; simpa [outSteps] using hb hs
  | cons s ss ih =>
    intro safe buf hv hb hs
    simp only [lastSafeList] at hs
    have := ih (lastSafe safe s) (buf ++ outStep cu used get s) (fun t ht => hv t (by simp [ht]))
      (fun h => lastSafe_sound cu used get safe buf s (hv s (by simp)) hb h) hs
    simpa [outSteps, List.append_assoc] using this

/-! ## segments -/

/-- the getter a segment's format actions see (`value_extractor`): the whole value, its date, its time of day -/
def segGetter (y m d nod : Int) : Seg → Getter
  | .plain _ => dtGetter y m d nod
  | .date _ => dateGetter y m d
  | .time _ => timeGetter nod

def segCu (cu : Culture) : Seg → Culture
  | .plain _ => cu
  | .date c => c.cu
  | .time c => c.cu

def segUsed (used : Nat) : Seg → Nat
  | .plain _ => used
  | .date c => c.used
  | .time c => c.used

def outSeg (cu : Culture) (used : Nat) (y m d nod : Int) (sg : Seg) : Text :=
  outSteps (segCu cu sg) (segUsed used sg) (segGetter y m d nod sg) (segSteps sg)

def outSegs (cu : Culture) (used : Nat) (y m d nod : Int) : List Seg → Text
  | [] => []
  | sg :: segs => outSeg cu used y m d nod sg ++ outSegs cu used y m d nod segs

/-- the outer bucket after a segment: plain steps set their slots; an embedded pattern assigns the fields of ITS value -/
def setSeg (cu : Culture) (y m d nod : Int) (b : Bucket) : Seg → Bucket
  | .plain ss => setSteps cu (dtGetter y m d nod) b ss
  | .date _ => ((b.set .year y).set .monthNum m).set .dayOfMonth d
  | .time _ => (((b.set .hours24 (ltHour nod)).set .minutes (ltMinute nod)).set .seconds (ltSecond nod)).set .fraction (ltNano nod)

def setSegs (cu : Culture) (y m d nod : Int) : Bucket → List Seg → Bucket
  | b, [] => b
  | b, sg :: segs => setSegs cu y m d nod (setSeg cu y m d nod b sg) segs

/-- "the embedded pattern's fields can represent the date / the time of day exactly" (its own bucket, the outer
    template's date / time as template) -/
def EmbOK (tm : Tmpl) (y m d nod : Int) : Seg → Prop
  | .plain _ => True
  | .date c => dateValueT tm.y tm.m tm.d c.used (setSteps c.cu (dateGetter y m d) dateBucket0 c.steps) = some (y, m, d)
  | .time c => timeValue tm.nod c.used (setSteps c.cu (timeGetter nod) (timeBucket0 tm.nod) c.steps) = some nod

/-- the per-step conditions along the segments, each step against everything written after it -/
def SegsOK (tm : Tmpl) (cu : Culture) (used : Nat) (y m d nod : Int) : Text → List Seg → Text → Prop
  | _, [], _ => True
  | buf, sg :: segs, rest =>
    StepsOK (segCu cu sg) (segUsed used sg) (segGetter y m d nod sg) buf (segSteps sg) (outSegs cu used y m d nod segs ++ rest) ∧
    EmbOK tm y m d nod sg ∧
    SegsOK tm cu used y m d nod (buf ++ outSeg cu used y m d nod sg) segs rest

/-- composition over segments -/
theorem segs_roundtrip (tm : Tmpl) (cu : Culture) (used : Nat) (y m d nod : Int) :
    ∀ (segs : List Seg) (buf rest : Text) (b : Bucket), SegsOK tm cu used y m d nod buf segs rest →
    fmtSegs cu used y m d nod segs buf = .ok (buf ++ outSegs cu used y m d nod segs) ∧
    parseSegs tm cu segs (outSegs cu used y m d nod segs ++ rest) b = .ok (some (setSegs cu y m d nod b segs, rest)) := by
  intro segs
  induction segs with
  | nil => intro buf rest b _; simp [fmtSegs, parseSegs, outSegs, setSegs]
  | cons sg segs ih =>
    intro buf rest b h
    obtain ⟨h1, he, h2⟩ := h
    cases sg with
    | plain ss =>
      obtain ⟨f1, p1⟩ := steps_roundtrip cu used (dtGetter y m d nod) ss buf (outSegs cu used y m d nod segs ++ rest) b h1
      obtain ⟨f2, p2⟩ := ih (buf ++ outSeg cu used y m d nod (.plain ss)) rest (setSeg cu y m d nod b (.plain ss)) h2
      constructor
      · simp only [fmtSegs, f1]
        simp only [outSeg, segCu, segUsed, segGetter, segSteps] at f2
        rw [f2]; simp [outSegs, outSeg, segCu, segUsed, segGetter, segSteps, List.append_assoc]
      · simp only [parseSegs, outSegs, outSeg, segCu, segUsed, segGetter, segSteps, List.append_assoc, p1]
        simp only [setSegs]
        exact p2
    | date c =>
      obtain ⟨f1, p1⟩ := steps_roundtrip c.cu c.used (dateGetter y m d) c.steps buf (outSegs cu used y m d nod segs ++ rest) dateBucket0 h1
      obtain ⟨f2, p2⟩ := ih (buf ++ outSeg cu used y m d nod (.date c)) rest (setSeg cu y m d nod b (.date c)) h2
      constructor
      · simp only [fmtSegs, f1]
        simp only [outSeg, segCu, segUsed, segGetter, segSteps] at f2
        rw [f2]; simp [outSegs, outSeg, segCu, segUsed, segGetter, segSteps, List.append_assoc]
      · simp only [EmbOK] at he
        simp only [parseSegs, outSegs, outSeg, segCu, segUsed, segGetter, segSteps, List.append_assoc, p1, he]
        simp only [setSegs]
        exact p2
    | time c =>
      obtain ⟨f1, p1⟩ := steps_roundtrip c.cu c.used (timeGetter nod) c.steps buf (outSegs cu used y m d nod segs ++ rest) (timeBucket0 tm.nod) h1
      obtain ⟨f2, p2⟩ := ih (buf ++ outSeg cu used y m d nod (.time c)) rest (setSeg cu y m d nod b (.time c)) h2
      constructor
      · simp only [fmtSegs, f1]
        simp only [outSeg, segCu, segUsed, segGetter, segSteps] at f2
        rw [f2]; simp [outSegs, outSeg, segCu, segUsed, segGetter, segSteps, List.append_assoc]
      · simp only [EmbOK] at he
        simp only [parseSegs, outSegs, outSeg, segCu, segUsed, segGetter, segSteps, List.append_assoc, p1, he]
        simp only [setSegs]
        exact p2

/-- the values' field conditions, segment by segment (each segment through the getter its actions see) -/
def SegValOK (y m d nod : Int) (sg : Seg) : Prop := ∀ s ∈ segSteps sg, ValOK (segGetter y m d nod sg) s

theorem segFollow_sound (cu : Culture) (used : Nat) (y m d nod : Int) : ∀ (segs : List Seg),
    (∀ sg ∈ segs, SegValOK y m d nod sg) → FollowSpec (segFollow segs) (outSegs cu used y m d nod segs) := by
  intro segs
  induction segs with
  | nil => intro _; simp [segFollow, outSegs, FollowSpec]
  | cons sg segs ih =>
    intro hv
    have h1 := ih (fun s hs => hv s (by simp [hs]))
    have := followF_sound (segCu cu sg) (segUsed used sg) (segGetter y m d nod sg) (segFollow segs) (outSegs cu used y m d nod segs)
      h1 (segSteps sg) (hv sg (by simp))
    simpa [segFollow, outSegs, outSeg] using this

/-- the decidable criterion implies the per-step conditions along the segments -/
theorem delimitedSegs_segsOK (tm : Tmpl) (cu : Culture) (used : Nat) (y m d nod : Int) :
    ∀ (segs : List Seg) (safe : Bool) (buf : Text),
    DelimitedSegs cu used safe segs = true → (safe = true → NoDotEnd buf) → (∀ sg ∈ segs, SegValOK y m d nod sg) →
    (∀ sg ∈ segs, EmbOK tm y m d nod sg) → SegsOK tm cu used y m d nod buf segs [] := by
  intro segs
  induction segs with
  | nil => intro _ _ _ _ _ _; trivial
  | cons sg segs ih =>
    intro safe buf hd hb hv he
    have hvs := hv sg (by simp)
    have hvss : ∀ s ∈ segs, SegValOK y m d nod s := fun s hs => hv s (by simp [hs])
    have hfs := segFollow_sound cu used y m d nod segs hvss
    have hfs' : FollowSpec (segFollow segs) (outSegs cu used y m d nod segs ++ []) := by simpa using hfs
    have key : DelimitedF (segCu cu sg) (segUsed used sg) (segFollow segs) safe (segSteps sg) = true ∧
        DelimitedSegs cu used (lastSafeList safe (segSteps sg)) segs = true := by
      cases sg <;> simpa [DelimitedSegs, segCu, segUsed, segSteps, Bool.and_eq_true] using hd
    refine ⟨?_, he sg (by simp), ?_⟩
    · exact delimitedF_stepsOK (segCu cu sg) (segUsed used sg) (segGetter y m d nod sg) (segFollow segs) _ hfs'
        (segSteps sg) safe buf key.1 hb hvs
    · exact ih (lastSafeList safe (segSteps sg)) (buf ++ outSeg cu used y m d nod sg) key.2
        (fun hs => lastSafeList_sound (segCu cu sg) (segUsed used sg) (segGetter y m d nod sg) (segSteps sg) safe buf hvs hb hs)
        hvss (fun s hs => he s (by simp [hs]))

/-- "the pattern's fields can represent the value exactly", for a pattern with embedded parts: every embedded pattern
    represents its part (`EmbOK`) and the outer bucket — plain steps' slots, embedded values' fields, template
    otherwise — evaluates to the value -/
def RepresentableSeg (tm : Tmpl) (cu : Culture) (used : Nat) (segs : List Seg) (y m d nod : Int) : Prop :=
  (∀ sg ∈ segs, EmbOK tm y m d nod sg) ∧
  dtValueE tm used (setSegs cu y m d nod (dtBucket0 tm) segs) = .ok (some (y, m, d, nod))

/-- **segmented_roundtrip**: a LocalDateTime pattern with embedded `ld<…>` / `lt<…>` parts (ISO template value, no
    calendar field: patterns with the calendar field go through the all-calendar bucket), `DelimitedSegs`, on a value its
    fields can hold and represent: `format` writes `outSegs`, and `parse` of that text succeeds with the value -/
theorem segmented_roundtrip (tm : Tmpl) (cu : Culture) (used : Nat) (segs : List Seg) (y m d nod : Int)
    (hc : segsUseCalendar segs = false)
    (hd : DelimitedSegs cu used true segs = true) (hv : ∀ sg ∈ segs, SegValOK y m d nod sg)
    (hr : RepresentableSeg tm cu used segs y m d nod) (hne : outSegs cu used y m d nod segs ≠ []) :
    fmtPat (.datetime tm) [y, m, d, nod] (dtGetter y m d nod) (.segmented cu used segs) = .ok (outSegs cu used y m d nod segs) ∧
    parsePat (.datetime tm) (outSegs cu used y m d nod segs) (.segmented cu used segs) = .ok (some [y, m, d, nod]) := by
  have hok := delimitedSegs_segsOK tm cu used y m d nod segs true [] hd (fun _ => by simp [NoDotEnd]) hv hr.1
  obtain ⟨f, p⟩ := segs_roundtrip tm cu used y m d nod segs [] [] (dtBucket0 tm) hok
  constructor
  · simpa [fmtPat] using f
  · simp only [parsePat, hc, Bool.false_eq_true, if_false, parseSegmented]
    rw [if_neg hne]
    simp only [List.append_nil] at p
    rw [p]
    dsimp only
    rw [hr.2]
    simp

end Pyoda.C07
