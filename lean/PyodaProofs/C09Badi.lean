/-
  C09 — the Badi calendar: its months and years units satisfy `FieldLaw`, so the `Period.between` date laws hold for it,
  and month/year addition never returns an invalid date.  `WF Badi.cal` is a hypothesis here; it is discharged by one
  evaluation of C01's checker (`wfCheck_sound`, driver op `cal.wf 18`, every run).
-/
import PyodaModel.DateArith
import PyodaProofs.C09
import PyodaProofs.C09Generic

namespace Pyoda.C09
open Pyoda Pyoda.Calendar Pyoda.DateArith Pyoda.C01

def badiCal : Cal := ⟨18, Badi.cal, .badi⟩

theorem badi_ayyamiHa (y : Int) : Badi.ayyamiHa y = 4 ∨ Badi.ayyamiHa y = 5 := by
  unfold Badi.ayyamiHa; repeat' split
  all_goals simp

theorem badi_dim (y m : Int) : 19 ≤ Badi.dim y m ∧ (m ≠ 18 → Badi.dim y m = 19) ∧ Badi.dim y 18 = 19 + Badi.ayyamiHa y := by
  have := badi_ayyamiHa y
  unfold Badi.dim
  refine ⟨by split <;> omega, fun h => by rw [if_neg h], by rw [if_pos rfl]⟩

/-- the fields of a valid Badi date -/
theorem badi_valid_inv (s : Ymd) (hs : Valid Badi.cal s) :
    1 ≤ s.1 ∧ s.1 ≤ 999 ∧ 1 ≤ s.2.1 ∧ s.2.1 ≤ 19 ∧ 1 ≤ s.2.2 ∧ s.2.2 ≤ Badi.dim s.1 s.2.1 := validate_inv hs

theorem badi_valid_of (hw : WF Badi.cal) (Y Mo nd : Int) (hY : 1 ≤ Y ∧ Y ≤ 999) (hM : 1 ≤ Mo ∧ Mo ≤ 19)
    (hd : 1 ≤ nd ∧ nd ≤ 19) : Valid Badi.cal (Y, Mo, nd) := by
  have := (badi_dim Y Mo).1
  exact validate_ok hw hY.1 hY.2 hM.1 hM.2 hd.1 (by show nd ≤ Badi.dim Y Mo; omega)

/-- the day `_add_months` carries over is always one of 1 … 19 -/
theorem badi_next_day (s : Ymd) (hs : Valid Badi.cal s) :
    1 ≤ (if BadiArith.inAyyamiHa s = true then s.2.2 - 19 else s.2.2) ∧
    (if BadiArith.inAyyamiHa s = true then s.2.2 - 19 else s.2.2) ≤ 19 := by
  obtain ⟨_, _, m1, m2, d1, d2⟩ := badi_valid_inv s hs
  have hd := badi_dim s.1 s.2.1
  have ha := badi_ayyamiHa s.1
  unfold BadiArith.inAyyamiHa
  by_cases h18 : s.2.1 = 18
  · rw [h18] at d2 hd
    by_cases h19 : s.2.2 > 19
    · simp only [h18, h19, beq_self_eq_true, decide_true, Bool.and_self, if_true]; omega
    · simp only [h19, decide_false, Bool.and_false, Bool.false_eq_true, if_false]; omega
  · have : (s.2.1 == 18) = false := by simp [h18]
    simp only [this, Bool.false_and, Bool.false_eq_true, if_false]
    have := hd.2.1 h18; omega

/-- `_add_months` in range: the result is a valid date at the expected month index -/
theorem badi_addMonths_ok (hw : WF Badi.cal) (s : Ymd) (hs : Valid Badi.cal s) (n : Int) (hn : n ≠ 0) (m0 : Int)
    (hm0 : m0 = if BadiArith.inAyyamiHa s = true ∧ n < 0 then s.2.1 + 1 else s.2.1)
    (hY : 1 ≤ s.1 + (m0 - 1 + n) / 19 ∧ s.1 + (m0 - 1 + n) / 19 ≤ 999) :
    ∃ r, BadiArith.addMonths Badi.cal s n = .ok r ∧ Valid Badi.cal r ∧
      r.1 * 19 + r.2.1 - 1 = s.1 * 19 + (m0 - 1) + n ∧
      r.2.2 = (if BadiArith.inAyyamiHa s = true then s.2.2 - 19 else s.2.2) := by
  obtain ⟨y, m, d⟩ := s
  obtain ⟨Y, Mo, e1, e2, e3, e4, _⟩ := addMonths_badi_spec Badi.cal y m d n hn m0 hm0
  have hYe : Y = y + (m0 - 1 + n) / 19 := by omega
  have hnd := badi_next_day (y, m, d) hs
  refine ⟨_, e4 (by rw [hYe]; exact hY), badi_valid_of hw Y Mo _ (by rw [hYe]; exact hY) ⟨e2, e3⟩ hnd, ?_, rfl⟩
  dsimp only; omega

/-- whatever `_add_months` returns is a valid date (month addition never yields an invalid Badi date) -/
theorem badi_addMonths_valid (hw : WF Badi.cal) (s : Ymd) (hs : Valid Badi.cal s) (n : Int) (r : Ymd)
    (hr : BadiArith.addMonths Badi.cal s n = .ok r) : Valid Badi.cal r := by
  by_cases hn : n = 0
  · unfold BadiArith.addMonths at hr; rw [if_pos hn] at hr; cases hr; exact hs
  · obtain ⟨y, m, d⟩ := s
    obtain ⟨Y, Mo, e1, e2, e3, e4, e5⟩ := addMonths_badi_spec Badi.cal y m d n hn _ rfl
    by_cases hY : Badi.cal.minYear ≤ Y ∧ Y ≤ Badi.cal.maxYear
    · rw [e4 hY] at hr; cases hr
      exact badi_valid_of hw Y Mo _ hY ⟨e2, e3⟩ (badi_next_day (y, m, d) hs)
    · rw [e5 hY] at hr; cases hr

theorem badi_monthsField_law (hw : WF Badi.cal) : FieldLaw Badi.cal (monthsField badiCal) where
  add_zero := by intro s; show BadiArith.addMonths Badi.cal s 0 = .ok s; unfold BadiArith.addMonths; rw [if_pos rfl]
  law := by
    intro s e hs he
    have hK : ∀ a b, Valid Badi.cal a → Valid Badi.cal b → a.1 * 19 + a.2.1 - 1 < b.1 * 19 + b.2.1 - 1 →
        dayNo Badi.cal a < dayNo Badi.cal b := by
      intro a b ha hb hlt
      obtain ⟨_, _, m1, m2, _⟩ := badi_valid_inv a ha
      obtain ⟨_, _, n1, n2, _⟩ := badi_valid_inv b hb
      by_cases hy : a.1 < b.1
      · exact dayNo_lt_of_year_lt hw a b ha hb hy
      · have hyy : a.1 = b.1 := by omega
        exact dayNo_lt_of_month_lt hw rfl a b ha hb hyy (by omega)
    obtain ⟨sy1, sy2, sm1, sm2, sd1, sd2⟩ := badi_valid_inv s hs
    have hzero : BadiArith.addMonths Badi.cal s 0 = .ok s := by unfold BadiArith.addMonths; rw [if_pos rfl]
    refine coarse_law_at hw (monthsField badiCal) (fun p => p.1 * 19 + p.2.1 - 1) s hs
      (if BadiArith.inAyyamiHa s = true then s.1 * 19 + s.2.1 - 1 + 1 else s.1 * 19 + s.2.1 - 1)
      (by split <;> simp) hK hzero ?_ ?_ ?_ ?_ e he
    · -- forward additions
      intro n b hn hb hle
      obtain ⟨_, b2, _, b4, _⟩ := badi_valid_inv b hb
      have hm0 : s.2.1 = if BadiArith.inAyyamiHa s = true ∧ n < 0 then s.2.1 + 1 else s.2.1 := by
        rw [if_neg (by omega)]
      obtain ⟨r, r1, r2, r3, _⟩ := badi_addMonths_ok hw s hs n (by omega) s.2.1 hm0 (by omega)
      exact ⟨r, r1, r2, by omega⟩
    · -- backward additions
      intro n a hn ha hle
      obtain ⟨a1, _, a3, _, _⟩ := badi_valid_inv a ha
      by_cases hah : BadiArith.inAyyamiHa s = true
      · rw [if_pos hah] at hle ⊢
        have hm0 : s.2.1 + 1 = if BadiArith.inAyyamiHa s = true ∧ n < 0 then s.2.1 + 1 else s.2.1 := by
          rw [if_pos ⟨hah, hn⟩]
        obtain ⟨r, r1, r2, r3, r4⟩ := badi_addMonths_ok hw s hs n (by omega) (s.2.1 + 1) hm0 (by omega)
        refine ⟨r, r1, r2, by omega, ?_⟩
        by_cases hlt : r.1 * 19 + r.2.1 - 1 < s.1 * 19 + s.2.1 - 1
        · have := hK r s r2 hs hlt; omega
        · -- one month back out of Ayyam-i-Ha: same year and month, earlier day
          obtain ⟨_, _, q3, q4, _⟩ := badi_valid_inv r r2
          have e1 : r.1 = s.1 := by omega
          have e2 : r.2.1 = s.2.1 := by omega
          rw [if_pos hah] at r4
          unfold dayNo
          rw [e1, e2, r4]; omega
      · rw [if_neg hah] at hle ⊢
        have hm0 : s.2.1 = if BadiArith.inAyyamiHa s = true ∧ n < 0 then s.2.1 + 1 else s.2.1 := by
          rw [if_neg (fun hc => hah hc.1)]
        obtain ⟨r, r1, r2, r3, _⟩ := badi_addMonths_ok hw s hs n (by omega) s.2.1 hm0 (by omega)
        refine ⟨r, r1, r2, by omega, ?_⟩
        have := hK r s r2 hs (by omega); omega
    · -- `_months_between`, start not after end
      intro e' simple he' hle ha
      have ce := cmp_sign hw e' s he' hs
      show BadiArith.monthsBetween Badi.cal s e' = _
      unfold BadiArith.monthsBetween
      dsimp only
      rw [if_neg (fun hc => by have := ce.1; omega)]
      have e1 : (e'.1 - s.1) * 19 + e'.2.1 - s.2.1 = e'.1 * 19 + e'.2.1 - 1 - (s.1 * 19 + s.2.1 - 1) := by omega
      have ha' : BadiArith.addMonths Badi.cal s (e'.1 * 19 + e'.2.1 - 1 - (s.1 * 19 + s.2.1 - 1)) = .ok simple := ha
      rw [e1, ha']
    · -- `_months_between`, start after end
      intro e' simple he' hlt ha
      have ce := cmp_sign hw e' s he' hs
      show BadiArith.monthsBetween Badi.cal s e' = _
      unfold BadiArith.monthsBetween
      dsimp only
      by_cases hah : BadiArith.inAyyamiHa s = true
      · rw [if_pos hah] at ha ⊢
        rw [if_pos ⟨hah, by have := ce.1; omega⟩]
        have e1 : (e'.1 - s.1) * 19 + e'.2.1 - (s.2.1 + 1) = e'.1 * 19 + e'.2.1 - 1 - (s.1 * 19 + s.2.1 - 1 + 1) := by omega
        have ha' : BadiArith.addMonths Badi.cal s (e'.1 * 19 + e'.2.1 - 1 - (s.1 * 19 + s.2.1 - 1 + 1)) = .ok simple := ha
        rw [e1, ha']
      · rw [if_neg hah] at ha ⊢
        rw [if_neg (fun hc => hah hc.1)]
        have e1 : (e'.1 - s.1) * 19 + e'.2.1 - s.2.1 = e'.1 * 19 + e'.2.1 - 1 - (s.1 * 19 + s.2.1 - 1) := by omega
        have ha' : BadiArith.addMonths Badi.cal s (e'.1 * 19 + e'.2.1 - 1 - (s.1 * 19 + s.2.1 - 1)) = .ok simple := ha
        rw [e1, ha']

/-- Badi `_set_year` returns a valid date of the requested year (day of Ayyam-i-Ha truncated to the year's length) -/
theorem badi_setYear_valid (hw : WF Badi.cal) (s : Ymd) (Y : Int) (hs : Valid Badi.cal s) (h1 : Badi.cal.minYear ≤ Y)
    (h2 : Y ≤ Badi.cal.maxYear) : ∃ r, setYear badiCal s Y = .ok r ∧ Valid Badi.cal r ∧ r.1 = Y := by
  obtain ⟨_, _, m1, m2, d1, d2⟩ := badi_valid_inv s hs
  have hY : 1 ≤ Y ∧ Y ≤ 999 := ⟨h1, h2⟩
  have hd := badi_dim s.1 s.2.1
  have hdY := badi_dim Y s.2.1
  have ha := badi_ayyamiHa s.1
  have haY := badi_ayyamiHa Y
  show ∃ r, BadiArith.setYear Badi.cal s Y = .ok r ∧ _
  unfold BadiArith.setYear checkRange
  rw [if_neg (by omega)]
  dsimp only
  by_cases hah : BadiArith.inAyyamiHa s = true
  · rw [if_pos hah]
    unfold BadiArith.inAyyamiHa at hah
    simp only [Bool.and_eq_true, beq_iff_eq, decide_eq_true_eq] at hah
    refine ⟨_, rfl, ?_, rfl⟩
    have e18 : s.2.1 = 18 := hah.1
    rw [e18] at hdY
    refine validate_ok hw h1 h2 m1 m2 (Int.le_min.2 ⟨d1, by omega⟩) ?_
    show min s.2.2 (19 + Badi.ayyamiHa Y) ≤ Badi.dim Y s.2.1
    rw [e18, hdY.2.2]; exact Int.min_le_right _ _
  · rw [if_neg hah]
    refine ⟨_, rfl, ?_, rfl⟩
    have hnd := badi_next_day s hs
    rw [if_neg hah] at hnd
    exact badi_valid_of hw Y s.2.1 s.2.2 hY ⟨m1, m2⟩ hnd

theorem badi_yearsField_law (hw : WF Badi.cal) : FieldLaw Badi.cal (yearsField badiCal) :=
  (yearsField_unit_of_setYear badiCal hw (fun s Y hs h1 h2 => badi_setYear_valid hw s Y hs h1 h2)).toLaw hw

end Pyoda.C09
