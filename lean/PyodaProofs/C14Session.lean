/-
  C14 — sessions: the reader and the writer as stateful objects.

  * `peek_pure`, `peek_iff_remaining`: `has_more_data` is a pure look-ahead (any number of calls, also on a buffered
    zero byte): it answers "do bytes remain" and never changes what later reads return.
  * `writeString_uses_current_pool`: the index written is the index of the string in the pool list as it is at the
    time of the call, whatever the caller did to the list before.
  * `session_roundtrip`: documents written by ONE writer (pool actions only between documents, or appends) and
    read back by ONE reader with arbitrary peeks interleaved return the values in order, and `has_more_data` is
    false at the end.
-/
import PyodaProofs.C14
import PyodaProofs.C14SessionRefine

namespace Pyoda.C14
open Pyoda Pyoda.Codec Pyoda.Codec.Session

/-! ## `has_more_data` -/

/-- states the caller cannot tell apart: same bytes still to come, same pool -/
def Sim (a b : RState) : Prop := a.abs = b.abs ∧ a.pool = b.pool

theorem Sim.refl (a : RState) : Sim a a := ⟨rfl, rfl⟩
theorem Sim.symm {a b : RState} (h : Sim a b) : Sim b a := ⟨h.1.symm, h.2.symm⟩
theorem Sim.trans {a b c : RState} (h : Sim a b) (h' : Sim b c) : Sim a c := ⟨h.1.trans h'.1, h.2.trans h'.2⟩

/-- the state machine of `has_more_data`: the answer is "bytes remain", the remaining bytes are unchanged -/
theorem hasMoreDataM_spec (st : RState) :
    ∃ st', hasMoreDataM st = .ok (!st.abs.isEmpty, st') ∧ Sim st' st := by
  obtain ⟨i, b, p⟩ := st
  cases b with
  | some x => exact ⟨_, rfl, Sim.refl _⟩
  | none =>
    cases i with
    | nil => exact ⟨_, rfl, Sim.refl _⟩
    | cons y r => exact ⟨⟨r, some y, p⟩, rfl, rfl, rfl⟩

/-- `has_more_data` is true iff bytes remain (buffered or in the stream) -/
theorem peek_iff_remaining (st st' : RState) (b : Bool) (h : hasMoreDataM st = .ok (b, st')) :
    (b = true ↔ st.abs ≠ []) ∧ st'.abs = st.abs ∧ st'.pool = st.pool := by
  obtain ⟨s, hs, hsim⟩ := hasMoreDataM_spec st
  rw [hs] at h
  cases h
  refine ⟨?_, hsim.1, hsim.2⟩
  cases st.abs <;> simp

theorem stepR_peek (st : RState) : ∃ st', stepR .peek st = .ok (.peeked (!st.abs.isEmpty), st') ∧ Sim st' st := by
  obtain ⟨s, hs, hsim⟩ := hasMoreDataM_spec st
  refine ⟨s, ?_, hsim⟩
  show (hasMoreDataM st >>= fun p => (pure (ROut.peeked p.1) : RM ROut) p.2) = _
  rw [hs]; rfl

theorem stepR_read (k : Kind) (st : RState) :
    stepR (.read k) st = (match readVal st.pool k st.abs with
      | .ok (v, r) => .ok (.value v, ⟨r, none, st.pool⟩)
      | .error e => .error e) := by
  show (readValM k st >>= fun p => (pure (ROut.value p.1) : RM ROut) p.2) = _
  rw [readValM_refines st.pool k st rfl]
  unfold lift
  cases readVal st.pool k st.abs with
  | error e => rfl
  | ok p => rfl

theorem stepR_pool (a : PoolAct) (st : RState) :
    stepR (.pool a) st = .ok (.poolOp, { st with pool := a.apply st.pool }) := rfl

/-- what an action returns depends only on the bytes still to come and the pool -/
theorem stepR_sim (a : RAct) (s t : RState) (h : Sim s t) :
    (∃ e, stepR a s = .error e ∧ stepR a t = .error e) ∨
    (∃ o s' t', stepR a s = .ok (o, s') ∧ stepR a t = .ok (o, t') ∧ Sim s' t') := by
  cases a with
  | peek =>
    obtain ⟨s', hs, hss⟩ := stepR_peek s
    obtain ⟨t', ht, htt⟩ := stepR_peek t
    rw [h.1] at hs
    exact Or.inr ⟨_, s', t', hs, ht, hss.trans (h.trans htt.symm)⟩
  | read k =>
    rw [stepR_read, stepR_read, h.1, h.2]
    cases readVal t.pool k t.abs with
    | error e => exact Or.inl ⟨e, rfl, rfl⟩
    | ok p => exact Or.inr ⟨_, _, _, rfl, rfl, Sim.refl _⟩
  | pool a =>
    rw [stepR_pool, stepR_pool]
    refine Or.inr ⟨_, _, _, rfl, rfl, ?_, ?_⟩
    · exact h.1
    · show a.apply s.pool = a.apply t.pool
      rw [h.2]

theorem runReader_cons_ok (a : RAct) (as : List RAct) (st st' : RState) (o : ROut) (h : stepR a st = .ok (o, st')) :
    runReader (a :: as) st = (o :: (runReader as st').1, (runReader as st').2) := by
  simp only [runReader, h]

theorem runReader_cons_err (a : RAct) (as : List RAct) (st : RState) (e : PyExc) (h : stepR a st = .error e) :
    runReader (a :: as) st = ([.err e], st) := by
  simp only [runReader, h]

theorem runReader_sim : ∀ (acts : List RAct) (s t : RState), Sim s t →
    (runReader acts s).1 = (runReader acts t).1 ∧ Sim (runReader acts s).2 (runReader acts t).2 := by
  intro acts
  induction acts with
  | nil => intro s t h; exact ⟨rfl, h⟩
  | cons a as ih =>
    intro s t h
    rcases stepR_sim a s t h with ⟨e, h1, h2⟩ | ⟨o, s', t', h1, h2, h3⟩
    · rw [runReader_cons_err a as s e h1, runReader_cons_err a as t e h2]; exact ⟨rfl, h⟩
    · rw [runReader_cons_ok a as s s' o h1, runReader_cons_ok a as t t' o h2]
      obtain ⟨i1, i2⟩ := ih s' t' h3
      exact ⟨by simp only [i1], i2⟩

def isPeek : RAct → Bool
  | .peek => true
  | _ => false

def isPeeked : ROut → Bool
  | .peeked _ => true
  | _ => false

/-- PEEKING IS PURE: drop every `has_more_data` call from a reader session (any number of them, anywhere, also on a
    buffered zero byte) and every read returns the same value, every exception is the same, and the bytes still to
    come at the end are the same. -/
theorem peek_pure (acts : List RAct) (st : RState) :
    ((runReader acts st).1.filter (fun o => !isPeeked o)) = (runReader (acts.filter (fun a => !isPeek a)) st).1 ∧
    (runReader acts st).2.abs = (runReader (acts.filter (fun a => !isPeek a)) st).2.abs := by
  suffices h : ∀ (acts : List RAct) (s t : RState), Sim s t →
      ((runReader acts s).1.filter (fun o => !isPeeked o)) = (runReader (acts.filter (fun a => !isPeek a)) t).1 ∧
      Sim (runReader acts s).2 (runReader (acts.filter (fun a => !isPeek a)) t).2 by
    obtain ⟨h1, h2⟩ := h acts st st (Sim.refl st)
    exact ⟨h1, h2.1⟩
  intro acts
  induction acts with
  | nil => intro s t h; exact ⟨rfl, h⟩
  | cons a as ih =>
    intro s t h
    cases a with
    | peek =>
      obtain ⟨s', hs, hss⟩ := stepR_peek s
      rw [runReader_cons_ok _ as s s' _ hs]
      rw [List.filter_cons_of_neg (a := ROut.peeked _) Bool.false_ne_true, List.filter_cons_of_neg (a := RAct.peek) Bool.false_ne_true]
      exact ih s' t (hss.trans h)
    | read k =>
      rw [List.filter_cons_of_pos (a := RAct.read k) rfl]
      rcases stepR_sim (.read k) s t h with ⟨e, h1, h2⟩ | ⟨o, s', t', h1, h2, h3⟩
      · rw [runReader_cons_err _ as s e h1, runReader_cons_err _ _ t e h2]
        exact ⟨rfl, h⟩
      · rw [runReader_cons_ok _ as s s' o h1, runReader_cons_ok _ _ t t' o h2]
        have ho : isPeeked o = false := by
          rw [stepR_read] at h1
          split at h1
          · cases h1; rfl
          · cases h1
        obtain ⟨i1, i2⟩ := ih s' t' h3
        rw [List.filter_cons_of_pos (by simp [ho])]
        exact ⟨by rw [i1], i2⟩
    | pool p =>
      rw [List.filter_cons_of_pos (a := RAct.pool p) rfl]
      rw [runReader_cons_ok _ as s _ _ (stepR_pool p s), runReader_cons_ok _ _ t _ _ (stepR_pool p t)]
      have h3 : Sim { s with pool := p.apply s.pool } { t with pool := p.apply t.pool } := by
        refine ⟨h.1, ?_⟩
        show p.apply s.pool = p.apply t.pool
        rw [h.2]
      obtain ⟨i1, i2⟩ := ih _ _ h3
      rw [List.filter_cons_of_pos (a := ROut.poolOp) rfl]
      exact ⟨by rw [i1], i2⟩


/-! ## pools that grow -/

/-- the pool only grew (a reader that has the later pool reads every index of the earlier one the same) -/
def PoolLe : Pool → Pool → Prop
  | none, none => True
  | some p, some q => p <+: q
  | _, _ => False

theorem PoolLe.refl (p : Pool) : PoolLe p p := by
  cases p with
  | none => trivial
  | some l => exact List.prefix_refl l

theorem PoolLe.trans {a b c : Pool} (h : PoolLe a b) (h' : PoolLe b c) : PoolLe a c := by
  cases a with
  | none => cases b with
    | none => exact h'
    | some _ => exact absurd h (by simp [PoolLe])
  | some x => cases b with
    | none => exact absurd h (by simp [PoolLe])
    | some y => cases c with
      | none => exact absurd h' (by simp [PoolLe])
      | some z => exact List.IsPrefix.trans h h'

/-- room for `k` more strings in the pool (indices are counts) -/
def PoolBudget (pool : Pool) (k : Nat) : Prop :=
  match pool with
  | none => True
  | some p => ((p.length + k : Nat) : Int) ≤ INT_MAX

/-- a string the writer can emit: without a pool it is encoded (valid UTF-8, below 2^31 bytes); with a pool any
    string (it is added when it is not yet there) -/
def StrW (pool : Pool) (s : Str) : Prop :=
  match pool with
  | none => StrDom s
  | some _ => True

def poolLen : Pool → Nat
  | none => 0
  | some p => p.length

theorem PoolBudget.mono {pool pool' : Pool} {k k' : Nat} (h : PoolBudget pool k) (hl : poolLen pool' + k' ≤ poolLen pool + k)
    (hs : pool.isSome = pool'.isSome) : PoolBudget pool' k' := by
  cases pool' with
  | none => trivial
  | some q => cases pool with
    | none => cases hs
    | some p => simp only [PoolBudget, poolLen] at *; omega

theorem StrW.mono {pool pool' : Pool} {s : Str} (h : StrW pool s) (hs : PoolLe pool pool') : StrW pool' s := by
  cases pool' with
  | some q => trivial
  | none => cases pool with
    | none => exact h
    | some p => exact absurd hs (by simp [PoolLe])

theorem indexOf_lt (p : List Str) (s : Str) (i : Nat) (h : indexOf? p s = some i) : i < p.length := by
  unfold indexOf? at h
  simp only at h
  split at h
  · cases h; assumption
  · cases h

/-- `write_string` with whatever pool the writer has: the pool only grows (by at most the string), and any reader
    whose pool extends the pool after the call reads the string back -/
theorem writeString_grow (pool : Pool) (s : Str) (hs : StrW pool s) (hb : PoolBudget pool 1) :
    ∃ bs pool', writeString pool s = .ok (bs, pool') ∧ PoolLe pool pool' ∧ poolLen pool' ≤ poolLen pool + 1 ∧
      ∀ final, PoolLe pool' final → ∀ rest, readString final (bs ++ rest) = .ok (s, rest) := by
  cases pool with
  | none =>
    refine ⟨_, none, writeString_none s hs, trivial, Nat.le_succ _, ?_⟩
    intro final hf rest
    cases final with
    | none => exact readString_none s hs rest
    | some q => exact absurd hf (by simp [PoolLe])
  | some p =>
    simp only [PoolBudget] at hb
    have key : ∃ bs p', writeStringPooled p s = .ok (bs, p') ∧ p <+: p' ∧ p'.length ≤ p.length + 1 := by
      unfold writeStringPooled
      cases hi : indexOf? p s with
      | some i =>
        have hlt := indexOf_lt p s i hi
        have hc := writeCount_ok (i : Int) ⟨by omega, by omega⟩
        exact ⟨writeVarint (i : Int).toNat, p, by simp only [hc, bind, Except.bind], List.prefix_refl p, Nat.le_succ _⟩
      | none =>
        have hc := writeCount_ok (p.length : Int) ⟨by omega, by omega⟩
        exact ⟨writeVarint (p.length : Int).toNat, p ++ [s], by simp only [hc, bind, Except.bind], List.prefix_append p [s], by simp⟩
    obtain ⟨bs, p', hw, hpre, hlen⟩ := key
    refine ⟨bs, some p', ?_, hpre, hlen, ?_⟩
    · unfold writeString
      simp only [hw, bind, Except.bind]
    · intro final hf rest
      cases final with
      | none => exact absurd hf (by simp [PoolLe])
      | some q => exact readString_pooled p s q bs p' hw hf rest


theorem PoolLe.isSome {a b : Pool} (h : PoolLe a b) : a.isSome = b.isSome := by
  cases a with
  | none => cases b with
    | none => rfl
    | some _ => exact absurd h (by simp [PoolLe])
  | some x => cases b with
    | none => exact absurd h (by simp [PoolLe])
    | some y => rfl

/-- the entry loop of `write_dictionary` with a pool that grows while it runs -/
theorem dict_go_grow : ∀ (d : List (Str × Str)) (pool : Pool),
    (∀ e ∈ d, StrW pool e.1 ∧ StrW pool e.2) → PoolBudget pool (2 * d.length) →
    ∃ bs pool', writeDictionary.go pool d = .ok (bs, pool') ∧ PoolLe pool pool' ∧
      poolLen pool' ≤ poolLen pool + 2 * d.length ∧
      ∀ final, PoolLe pool' final → ∀ rest, readN (pairReader final) d.length (bs ++ rest) = .ok (d, rest) := by
  intro d
  induction d with
  | nil =>
    intro pool _ _
    exact ⟨[], pool, rfl, PoolLe.refl pool, Nat.le_refl _, fun _ _ _ => rfl⟩
  | cons e es ih =>
    intro pool hs hb
    obtain ⟨k, v⟩ := e
    obtain ⟨hk, hv⟩ := hs (k, v) List.mem_cons_self
    have hlen : 2 * (((k, v) :: es).length) = 2 * es.length + 2 := by simp only [List.length_cons]; omega
    obtain ⟨bk, p1, wk, le1, len1, rk⟩ := writeString_grow pool k hk (hb.mono (by omega) rfl)
    obtain ⟨bv, p2, wv, le2, len2, rv⟩ := writeString_grow p1 v (hv.mono le1) (hb.mono (by omega) le1.isSome)
    have le12 := le1.trans le2
    obtain ⟨bs', p3, hw', le3, len3, hr'⟩ := ih p2
      (fun e he => ⟨(hs e (List.mem_cons_of_mem _ he)).1.mono le12, (hs e (List.mem_cons_of_mem _ he)).2.mono le12⟩)
      (hb.mono (by omega) le12.isSome)
    refine ⟨bk ++ bv ++ bs', p3, ?_, le12.trans le3, by omega, ?_⟩
    · unfold writeDictionary.go
      rw [wk]
      simp only [bind, Except.bind]
      rw [wv]
      simp only []
      rw [hw']
    · intro final hf rest
      have e1 : pairReader final (bk ++ (bv ++ (bs' ++ rest))) = .ok ((k, v), bs' ++ rest) := by
        unfold pairReader
        rw [rk final ((le2.trans le3).trans hf)]
        simp only [bind, Except.bind]
        rw [rv final (le3.trans hf)]
      simp only [List.length_cons, List.append_assoc]
      unfold readN
      rw [e1]
      simp only [bind, Except.bind]
      rw [hr' final hf rest]

/-- a dictionary the writer can emit with its current pool -/
def DictW (pool : Pool) (d : List (Str × Str)) : Prop :=
  (d.length : Int) ≤ INT_MAX ∧ (d.map (·.1)).Nodup ∧ (∀ e ∈ d, StrW pool e.1 ∧ StrW pool e.2) ∧
  PoolBudget pool (2 * d.length)

theorem writeDictionary_grow (pool : Pool) (d : List (Str × Str)) (h : DictW pool d) :
    ∃ bs pool', writeDictionary pool d = .ok (bs, pool') ∧ PoolLe pool pool' ∧
      ∀ final, PoolLe pool' final → ∀ rest, readDictionary final (bs ++ rest) = .ok (d, rest) := by
  obtain ⟨hl, hnd, hs, hb⟩ := h
  obtain ⟨bs, pool', hw, hle, _, hr⟩ := dict_go_grow d pool hs hb
  have hc := writeCount_ok (d.length : Int) ⟨by omega, hl⟩
  refine ⟨writeVarint d.length ++ bs, pool', ?_, hle, ?_⟩
  · unfold writeDictionary
    simp only [hc, hw, bind, Except.bind, Int.toNat_natCast]
  · intro final hf rest
    unfold readDictionary
    rw [readDictionaryEntries_eq]
    have hrc := readCount_varint (d.length : Int) ⟨by omega, hl⟩ (bs ++ rest)
    simp only [Int.toNat_natCast] at hrc
    simp only [List.append_assoc, hrc, bind, Except.bind, Int.toNat_natCast, hr final hf rest]
    rw [foldl_dictInsert d [] hnd (by intro _ _ a ha; cases ha)]
    rfl

/-- a recurrence the writer can emit with its current pool (the name may be new to the pool) -/
def RecurrenceW (pool : Pool) (z : ZoneRecurrence) : Prop :=
  StrW pool z.name ∧ PoolBudget pool 1 ∧ OffsetDom z.savings ∧ YearOffsetDom z.yearOffset ∧
  (z.fromYear = INT_MIN ∨ (1 ≤ z.fromYear ∧ z.fromYear ≤ 9999)) ∧
  (z.toYear = INT_MAX ∨ (0 ≤ z.toYear ∧ z.toYear ≤ 9999)) ∧
  recurrenceCtor z = .ok z

theorem writeRecurrence_grow (pool : Pool) (z : ZoneRecurrence) (h : RecurrenceW pool z) :
    ∃ bs pool', writeRecurrence pool z = .ok (bs, pool') ∧ PoolLe pool pool' ∧
      ∀ final, PoolLe pool' final → ∀ rest, readRecurrence final (bs ++ rest) = .ok (z, rest) := by
  obtain ⟨hn, hb, hs, hy, hf, ht, hc⟩ := h
  cases z with | mk name sav yo fy ty =>
  simp only at hn hs hy hf ht
  have hty : 0 ≤ ty ∧ ty ≤ INT_MAX := by unfold INT_MAX at *; omega
  have hfy : 0 ≤ (if fy < 0 then 0 else fy) ∧ (if fy < 0 then 0 else fy) ≤ INT_MAX := by
    unfold INT_MAX INT_MIN at *; split <;> omega
  have w5 := writeCount_ok ty hty
  have w4 := writeCount_ok _ hfy
  obtain ⟨b3, w3, _⟩ := readYearOffset_writeYearOffset yo hy []
  obtain ⟨b2, w2, _⟩ := readOffset_writeOffset sav hs []
  obtain ⟨b1, pool', w1, le1, _, r1⟩ := writeString_grow pool name hn hb
  refine ⟨b1 ++ b2 ++ b3 ++ writeVarint (if fy < 0 then 0 else fy).toNat ++ writeVarint ty.toNat, pool', ?_, le1, ?_⟩
  · unfold writeRecurrence
    simp only [w1, w2, w3, w4, w5, bind, Except.bind]
  · intro final hfin rest
    have r5 := readCount_varint ty hty rest
    have r4 := readCount_varint _ hfy (writeVarint ty.toNat ++ rest)
    obtain ⟨b3', w3', r3⟩ := readYearOffset_writeYearOffset yo hy (writeVarint (if fy < 0 then 0 else fy).toNat ++ (writeVarint ty.toNat ++ rest))
    rw [w3] at w3'; cases w3'
    obtain ⟨b2', w2', r2⟩ := readOffset_writeOffset sav hs (b3 ++ (writeVarint (if fy < 0 then 0 else fy).toNat ++ (writeVarint ty.toNat ++ rest)))
    rw [w2] at w2'; cases w2'
    unfold readRecurrence readRecurrenceFields
    simp only [List.append_assoc, r1 final hfin, r2, r3, r4, r5, bind, Except.bind]
    have e : (if (if fy < 0 then 0 else fy) = 0 then INT_MIN else (if fy < 0 then 0 else fy)) = fy := by
      unfold INT_MIN at *; split <;> split <;> omega
    rw [e, hc]


/-! ## one value, any pool -/

/-- the values a writer with pool `pool` must accept and a reader must give back -/
def ValDom (pool : Pool) : Val → Prop
  | .byte v => 0 ≤ v ∧ v ≤ 255
  | .count n => 0 ≤ n ∧ n ≤ INT_MAX
  | .scount n => INT_MIN ≤ n ∧ n ≤ INT_MAX
  | .ms v => -MsPD < v ∧ v < MsPD
  | .offset o => OffsetDom o
  | .trans p v => TransDom p v
  | .str s => StrW pool s ∧ PoolBudget pool 1
  | .dict d => DictW pool d
  | .yo y => YearOffsetDom y
  | .recur z => RecurrenceW pool z

theorem uniq_rest {β α} {w : R β} {f : β → Bytes} {rd : Bytes → R (α × Bytes)} {v : α}
    (h : ∀ rest, ∃ b, w = .ok b ∧ rd (f b ++ rest) = .ok (v, rest)) :
    ∃ b, w = .ok b ∧ ∀ rest, rd (f b ++ rest) = .ok (v, rest) := by
  obtain ⟨b, hw, _⟩ := h []
  refine ⟨b, hw, fun rest => ?_⟩
  obtain ⟨b', hw', hr'⟩ := h rest
  rw [hw] at hw'
  cases hw'
  exact hr'

/-- ONE VALUE: written with the writer's pool as it is, read back by any reader whose pool extends the pool the
    write left behind, whatever follows it in the stream -/
theorem val_roundtrip (pool : Pool) (v : Val) (h : ValDom pool v) :
    ∃ bs pool', writeVal pool v = .ok (bs, pool') ∧ PoolLe pool pool' ∧
      ∀ final, PoolLe pool' final → ∀ rest, readVal final v.kind (bs ++ rest) = .ok (v, rest) := by
  cases v with
  | byte x =>
    obtain ⟨b, hw, hr⟩ := uniq_rest (f := id) (read_write_byte x h)
    refine ⟨b, pool, by simp only [writeVal, hw, bind, Except.bind], PoolLe.refl _, fun final _ rest => ?_⟩
    have := hr rest
    simp only [id] at this
    simp only [readVal, Val.kind, this, bind, Except.bind]
    have h' : 0 ≤ x ∧ x ≤ 255 := h
    congr 3
    omega
  | count x =>
    obtain ⟨b, hw, hr⟩ := uniq_rest (f := id) (read_write_count x h)
    refine ⟨b, pool, by simp only [writeVal, hw, bind, Except.bind], PoolLe.refl _, fun final _ rest => ?_⟩
    have := hr rest
    simp only [id] at this
    simp only [readVal, Val.kind, this, bind, Except.bind]
  | scount x =>
    obtain ⟨b, hw, hr⟩ := uniq_rest (f := id) (read_write_signedCount x h)
    refine ⟨b, pool, by simp only [writeVal, hw, bind, Except.bind], PoolLe.refl _, fun final _ rest => ?_⟩
    have := hr rest
    simp only [id] at this
    simp only [readVal, Val.kind, this, bind, Except.bind]
  | ms x =>
    obtain ⟨b, hw, hr⟩ := uniq_rest (f := id) (read_write_milliseconds x h)
    refine ⟨b, pool, by simp only [writeVal, hw, bind, Except.bind], PoolLe.refl _, fun final _ rest => ?_⟩
    have := hr rest
    simp only [id] at this
    simp only [readVal, Val.kind, this, bind, Except.bind]
  | offset x =>
    obtain ⟨b, hw, hr⟩ := uniq_rest (f := id) (read_write_offset x h)
    refine ⟨b, pool, by simp only [writeVal, hw, bind, Except.bind], PoolLe.refl _, fun final _ rest => ?_⟩
    have := hr rest
    simp only [id] at this
    simp only [readVal, Val.kind, this, bind, Except.bind]
  | trans p x =>
    obtain ⟨b, hw, hr⟩ := uniq_rest (f := id) (read_write_transition p x h)
    refine ⟨b, pool, by simp only [writeVal, hw, bind, Except.bind], PoolLe.refl _, fun final _ rest => ?_⟩
    have := hr rest
    simp only [id] at this
    simp only [readVal, Val.kind, this, bind, Except.bind]
  | yo x =>
    obtain ⟨b, hw, hr⟩ := uniq_rest (f := id) (read_write_yearOffset x h)
    refine ⟨b, pool, by simp only [writeVal, hw, bind, Except.bind], PoolLe.refl _, fun final _ rest => ?_⟩
    have := hr rest
    simp only [id] at this
    simp only [readVal, Val.kind, this, bind, Except.bind]
  | str x =>
    obtain ⟨bs, pool', hw, hle, _, hr⟩ := writeString_grow pool x h.1 h.2
    refine ⟨bs, pool', hw, hle, fun final hf rest => ?_⟩
    simp only [readVal, Val.kind, hr final hf rest, bind, Except.bind]
  | dict x =>
    obtain ⟨bs, pool', hw, hle, hr⟩ := writeDictionary_grow pool x h
    refine ⟨bs, pool', hw, hle, fun final hf rest => ?_⟩
    simp only [readVal, Val.kind, hr final hf rest, bind, Except.bind]
  | recur x =>
    obtain ⟨bs, pool', hw, hle, hr⟩ := writeRecurrence_grow pool x h
    refine ⟨bs, pool', hw, hle, fun final hf rest => ?_⟩
    simp only [readVal, Val.kind, hr final hf rest, bind, Except.bind]

/-- no read succeeds at the end of the data (every read method starts with `read_byte`) -/
theorem readVal_nil (pool : Pool) (k : Kind) : ∃ e, readVal pool k [] = .error e := by
  cases k <;> exact ⟨_, rfl⟩

/-- so every written value occupies at least one byte -/
theorem val_bytes_ne_nil (pool : Pool) (v : Val) (h : ValDom pool v) (bs : Bytes) (pool' : Pool)
    (hw : writeVal pool v = .ok (bs, pool')) : bs ≠ [] := by
  obtain ⟨bs', p', hw', _, hr⟩ := val_roundtrip pool v h
  rw [hw] at hw'
  cases hw'
  intro hnil
  have := hr pool' (PoolLe.refl _) []
  rw [hnil] at this
  obtain ⟨e, he⟩ := readVal_nil pool' v.kind
  simp only [List.append_nil] at this
  rw [he] at this
  cases this


/-! ## whole sessions -/

/-- a script whose documents can be read back: every value is in the writer's domain for the pool it meets, and
    once a document has begun (`started`) the caller only APPENDS to the shared pool — clearing, reordering and
    replacing the list happen between documents -/
def ScriptDom : Bool → Pool → List Item → Prop
  | _, _, [] => True
  | _, q, .value _ v :: r => ValDom q v ∧ ∀ bs q', writeVal q v = .ok (bs, q') → ScriptDom true q' r
  | s, q, .pool a :: r => (s = true → ∃ x, a = .append x) ∧ ScriptDom s (a.apply q) r
  | _, q, .endDoc :: r => ScriptDom false q r

def setOut : Pool → List ROut
  | some _ => [.poolOp]
  | none => []

/-- what the reader must return for `readerActsAux`: every peek true, every value as written -/
def expectedAux : List Item → List Pool → List ROut
  | [], _ => []
  | .value n v :: r, ps => List.replicate n (ROut.peeked true) ++ ROut.value v :: expectedAux r ps
  | .pool _ :: r, ps => expectedAux r ps
  | .endDoc :: r, [] => expectedAux r []
  | .endDoc :: r, p :: ps => setOut p ++ expectedAux r ps

def sessionExpected (items : List Item) (pools : List Pool) (endPeeks : Nat) : List ROut :=
  (match pools with
   | [] => expectedAux items []
   | p :: ps => setOut p ++ expectedAux items ps) ++ List.replicate endPeeks (ROut.peeked false)

theorem runReader_peeks : ∀ (n : Nat) (st : RState) (k : List RAct),
    ∃ st', Sim st' st ∧ runReader (List.replicate n RAct.peek ++ k) st =
      (List.replicate n (ROut.peeked (!st.abs.isEmpty)) ++ (runReader k st').1, (runReader k st').2) := by
  intro n
  induction n with
  | zero => intro st k; exact ⟨st, Sim.refl st, rfl⟩
  | succ n ih =>
    intro st k
    obtain ⟨s1, h1, hs1⟩ := stepR_peek st
    obtain ⟨s2, hs2, h2⟩ := ih s1 k
    refine ⟨s2, hs2.trans hs1, ?_⟩
    rw [List.replicate_succ, List.cons_append, runReader_cons_ok _ _ st s1 _ h1, h2, hs1.1, List.replicate_succ,
      List.cons_append]

theorem apply_isSome (a : PoolAct) (q : Pool) : (a.apply q).isSome = q.isSome := by
  cases q <;> cases a <;> rfl

theorem runReader_setAct (p : Pool) (st : RState) (k : List RAct) (h : p.isSome = st.pool.isSome) :
    runReader (setAct p ++ k) st =
      (setOut p ++ (runReader k ⟨st.input, st.buffered, p⟩).1, (runReader k ⟨st.input, st.buffered, p⟩).2) := by
  obtain ⟨i, b, q⟩ := st
  cases p with
  | none =>
    cases q with
    | none => rfl
    | some l => cases h
  | some l =>
    cases q with
    | none => cases h
    | some l' =>
      show runReader (RAct.pool (.set l) :: k) _ = _
      rw [runReader_cons_ok _ k _ _ _ (stepR_pool (.set l) _)]
      rfl

theorem append_poolLe (x : Str) (q : Pool) : PoolLe q ((PoolAct.append x).apply q) := by
  cases q with
  | none => trivial
  | some l => exact List.prefix_append l [x]

theorem abs_nil (st : RState) (h : st.abs = []) : st.input = [] ∧ st.buffered = none := by
  obtain ⟨i, b, p⟩ := st
  cases b with
  | none => exact ⟨h, rfl⟩
  | some x => cases h

/-- the induction behind `session_roundtrip`: the rest of a script, from any writer state -/
theorem script_roundtrip : ∀ (items : List Item) (started : Bool) (q : Pool) (out : Bytes), ScriptDom started q items →
    ∃ p ps bs qf wouts, docPools items q = some (p :: ps) ∧
      runWriter (items.flatMap Item.wact) ⟨out, q⟩ = (wouts, ⟨out ++ bs, qf⟩) ∧ wHasErr wouts = false ∧
      (started = true → PoolLe q p) ∧ p.isSome = q.isSome ∧ (∀ x ∈ ps, x.isSome = q.isSome) ∧
      ∀ (rest : Bytes) (rst : RState) (k : List RAct), rst.abs = bs ++ rest → rst.pool = p →
        ∃ rst', rst'.abs = rest ∧
          runReader (readerActsAux items ps ++ k) rst =
            (expectedAux items ps ++ (runReader k rst').1, (runReader k rst').2) := by
  intro items
  induction items with
  | nil =>
    intro started q out _
    refine ⟨q, [], [], q, [], rfl, by simp [runWriter], rfl, fun _ => PoolLe.refl q, rfl, by simp, ?_⟩
    intro rest rst k ha _
    exact ⟨rst, by simpa using ha, rfl⟩
  | cons it r ih =>
    intro started q out hd
    cases it with
    | value n v =>
      obtain ⟨hv, hnext⟩ := hd
      obtain ⟨bs1, q', hw, hle, hr⟩ := val_roundtrip q v hv
      have hne := val_bytes_ne_nil q v hv bs1 q' hw
      obtain ⟨p, ps, bs2, qf, wouts, hdp, hrw, hnoerr, hle', hsome, hall, hread⟩ := ih true q' (out ++ bs1) (hnext bs1 q' hw)
      have hqq : q'.isSome = q.isSome := hle.isSome.symm
      refine ⟨p, ps, bs1 ++ bs2, qf, WOut.wrote bs1 :: wouts, ?_, ?_, ?_, fun _ => hle.trans (hle' rfl), hsome.trans hqq,
        fun x hx => (hall x hx).trans hqq, ?_⟩
      · simp only [docPools, hw, hdp]
      · have hstep : stepW (.write v) ⟨out, q⟩ = .ok (WOut.wrote bs1, ⟨out ++ bs1, q'⟩) := by
          simp only [stepW, hw, bind, Except.bind]
        simp only [List.flatMap_cons, Item.wact, List.singleton_append, runWriter, hstep, hrw, List.append_assoc]
      · simp only [wHasErr, List.any_cons, Bool.false_or]
        exact hnoerr
      · intro rest rst k ha hp
        have e1 : readerActsAux (.value n v :: r) ps ++ k =
            List.replicate n RAct.peek ++ (RAct.read v.kind :: (readerActsAux r ps ++ k)) := by
          simp only [readerActsAux, List.append_assoc, List.cons_append]
        obtain ⟨s1, hs1, hrun1⟩ := runReader_peeks n rst (RAct.read v.kind :: (readerActsAux r ps ++ k))
        have hnonempty : (!rst.abs.isEmpty) = true := by
          rw [ha]
          cases bs1 with
          | nil => exact absurd rfl hne
          | cons b t => rfl
        have hstep : stepR (.read v.kind) s1 = .ok (ROut.value v, ⟨bs2 ++ rest, none, p⟩) := by
          rw [stepR_read, hs1.1, hs1.2, hp, ha, List.append_assoc, hr p (hle' rfl) (bs2 ++ rest)]
        obtain ⟨s2, hs2, hrun2⟩ := hread rest ⟨bs2 ++ rest, none, p⟩ k rfl rfl
        refine ⟨s2, hs2, ?_⟩
        rw [e1, hrun1, hnonempty, runReader_cons_ok _ _ s1 _ _ hstep, hrun2]
        simp only [expectedAux, List.append_assoc, List.cons_append]
    | pool a =>
      obtain ⟨happ, hnext⟩ := hd
      obtain ⟨p, ps, bs, qf, wouts, hdp, hrw, hnoerr, hle', hsome, hall, hread⟩ := ih started (a.apply q) out hnext
      have hqq := apply_isSome a q
      refine ⟨p, ps, bs, qf, WOut.poolOp :: wouts, ?_, ?_, ?_, ?_, hsome.trans hqq, fun x hx => (hall x hx).trans hqq, ?_⟩
      · simp only [docPools, hdp]
      · have hstep : stepW (.pool a) ⟨out, q⟩ = .ok (WOut.poolOp, ⟨out, a.apply q⟩) := rfl
        simp only [List.flatMap_cons, Item.wact, List.singleton_append, runWriter, hstep, hrw]
      · simp only [wHasErr, List.any_cons, Bool.false_or]
        exact hnoerr
      · intro hs
        obtain ⟨x, hx⟩ := happ hs
        subst hx
        exact (append_poolLe x q).trans (hle' hs)
      · intro rest rst k ha hp
        obtain ⟨s2, hs2, hrun2⟩ := hread rest rst k ha hp
        exact ⟨s2, hs2, by simpa only [readerActsAux, expectedAux] using hrun2⟩
    | endDoc =>
      obtain ⟨p', ps', bs, qf, wouts, hdp, hrw, hnoerr, _, hsome, hall, hread⟩ := ih false q out hd
      refine ⟨q, p' :: ps', bs, qf, wouts, ?_, ?_, hnoerr, fun _ => PoolLe.refl q, rfl, ?_, ?_⟩
      · simp only [docPools, hdp, Option.map]
      · simpa only [List.flatMap_cons, Item.wact, List.nil_append] using hrw
      · intro x hx
        rcases List.mem_cons.mp hx with rfl | hx
        · exact hsome
        · exact hall x hx
      · intro rest rst k ha hp
        have hps : p'.isSome = rst.pool.isSome := by rw [hp]; exact hsome
        obtain ⟨s2, hs2, hrun2⟩ := hread rest ⟨rst.input, rst.buffered, p'⟩ k ha rfl
        refine ⟨s2, hs2, ?_⟩
        have e1 : readerActsAux (.endDoc :: r) (p' :: ps') ++ k = setAct p' ++ (readerActsAux r ps' ++ k) := by
          simp only [readerActsAux, List.append_assoc]
        rw [e1, runReader_setAct p' rst _ hps, hrun2]
        simp only [expectedAux, List.append_assoc]


/-- SESSIONS ROUND-TRIP. One writer writes the whole script (any number of documents; between documents the caller
    may clear, reorder or replace the shared pool list, inside a document it may only append). One reader over all
    the bytes written — its pool sequence set, at the start of each document, to the pool the writer ended that
    document with — reads with `has_more_data` called any number of times before each value. Then: the writer raises
    nothing; every peek before a value answers true; the values come back in order; `endPeeks` further peeks all
    answer false; nothing is left in the stream or in the look-ahead buffer. -/
theorem session_roundtrip (items : List Item) (pool : Pool) (endPeeks : Nat) (h : ScriptDom false pool items) :
    ∃ pools wouts bs qf fin, docPools items pool = some pools ∧
      runWriter (items.flatMap Item.wact) ⟨[], pool⟩ = (wouts, ⟨bs, qf⟩) ∧ wHasErr wouts = false ∧
      runReader (sessionReaderActs items pools endPeeks) ⟨bs, none, pool⟩ = (sessionExpected items pools endPeeks, fin) ∧
      fin.input = [] ∧ fin.buffered = none := by
  obtain ⟨p, ps, bs, qf, wouts, hdp, hrw, hnoerr, _, hsome, _, hread⟩ := script_roundtrip items false pool [] h
  simp only [List.nil_append] at hrw
  obtain ⟨s1, hs1, hrun1⟩ := hread [] ⟨bs, none, p⟩ (List.replicate endPeeks RAct.peek) (by simp [RState.abs]) rfl
  obtain ⟨s2, hs2, hrun2⟩ := runReader_peeks endPeeks s1 []
  have hfin := abs_nil s2 (hs2.1.trans hs1)
  refine ⟨p :: ps, wouts, bs, qf, s2, hdp, hrw, hnoerr, ?_, hfin.1, hfin.2⟩
  have e1 : sessionReaderActs items (p :: ps) endPeeks =
      setAct p ++ (readerActsAux items ps ++ List.replicate endPeeks RAct.peek) := by
    simp only [sessionReaderActs, List.append_assoc]
  rw [e1, runReader_setAct p ⟨bs, none, pool⟩ _ hsome, hrun1]
  have e2 : List.replicate endPeeks RAct.peek = List.replicate endPeeks RAct.peek ++ [] := by simp
  rw [e2, hrun2, hs1]
  simp [sessionExpected, runReader]

/-! ## `write_string` consults the pool list as it is NOW -/

theorem runWriter_cons_ok (a : WAct) (as : List WAct) (st st' : WState) (o : WOut) (h : stepW a st = .ok (o, st')) :
    runWriter (a :: as) st = (o :: (runWriter as st').1, (runWriter as st').2) := by
  simp only [runWriter, h]

theorem stepW_not_err (a : WAct) (st st' : WState) (o : WOut) (h : stepW a st = .ok (o, st')) :
    (match o with | .err _ => true | _ => false) = false := by
  cases a with
  | write v =>
    simp only [stepW] at h
    cases hv : writeVal st.pool v with
    | error e => rw [hv] at h; cases h
    | ok r => rw [hv] at h; cases h; rfl
  | pool p => cases h; rfl

theorem runWriter_append : ∀ (a1 a2 : List WAct) (st0 : WState), wHasErr (runWriter a1 st0).1 = false →
    runWriter (a1 ++ a2) st0 =
      ((runWriter a1 st0).1 ++ (runWriter a2 (runWriter a1 st0).2).1, (runWriter a2 (runWriter a1 st0).2).2) := by
  intro a1
  induction a1 with
  | nil => intro a2 st0 _; rfl
  | cons a as ih =>
    intro a2 st0 hne
    cases hs : stepW a st0 with
    | error e =>
      have : runWriter (a :: as) st0 = ([.err e], st0) := by simp only [runWriter, hs]
      rw [this] at hne
      exact absurd hne (by simp [wHasErr])
    | ok r =>
      obtain ⟨o, st'⟩ := r
      rw [runWriter_cons_ok a as st0 st' o hs] at hne ⊢
      rw [List.cons_append, runWriter_cons_ok a (as ++ a2) st0 st' o hs]
      have hne' : wHasErr (runWriter as st').1 = false := by
        simp only [wHasErr, List.any_cons, Bool.or_eq_false_iff] at hne
        exact hne.2
      rw [ih a2 st' hne']
      rfl

/-- one call of `write_string` on a writer whose shared pool list is `p` at that moment: the string is appended if
    (and only if) it is not in the list, and the index written is the FIRST position of the string in the list as
    it then stands -/
theorem stepW_writeString (out : Bytes) (p : List Str) (s : Str) (hb : ((p.length + 1 : Nat) : Int) ≤ INT_MAX) :
    ∃ i, stepW (.write (.str s)) ⟨out, some p⟩ =
        .ok (.wrote (writeVarint i), ⟨out ++ writeVarint i, some (if s ∈ p then p else p ++ [s])⟩) ∧
      (if s ∈ p then p else p ++ [s])[i]? = some s ∧
      ∀ j, j < i → (if s ∈ p then p else p ++ [s])[j]? ≠ some s := by
  by_cases hm : s ∈ p
  · obtain ⟨i, hi, hlt⟩ := indexOf_of_mem p s hm
    have hc := writeCount_ok (i : Int) ⟨by omega, by omega⟩
    refine ⟨i, ?_, ?_, ?_⟩
    · simp only [stepW, writeVal, writeString, writeStringPooled, hi, hc, bind, Except.bind, hm, if_true,
        Int.toNat_natCast]
    · simp only [hm, if_true]; exact indexOf_get p s i hi
    · intro j hj
      simp only [hm, if_true]
      have hidx : i = p.findIdx (· = s) := by
        unfold indexOf? at hi
        simp only at hi
        split at hi
        · cases hi; rfl
        · cases hi
      have hjl : j < p.length := by omega
      rw [List.getElem?_eq_getElem hjl]
      intro heq
      have := List.not_of_lt_findIdx (p := (· = s)) (xs := p) (i := j) (by rw [← hidx]; exact hj)
      simp only [Option.some.injEq] at heq
      simp [heq] at this
  · have hnone : indexOf? p s = none := by
      unfold indexOf?
      have : p.findIdx (· = s) = p.length := by
        rw [List.findIdx_eq_length]
        intro x hx
        simp only [decide_eq_false_iff_not]
        intro heq; exact hm (heq ▸ hx)
      simp [this]
    have hc := writeCount_ok (p.length : Int) ⟨by omega, by omega⟩
    refine ⟨p.length, ?_, ?_, ?_⟩
    · simp only [stepW, writeVal, writeString, writeStringPooled, hnone, hc, bind, Except.bind, hm, if_false,
        Int.toNat_natCast]
    · simp only [hm, if_false]; simp
    · intro j hj
      simp only [hm, if_false]
      rw [List.getElem?_append_left hj, List.getElem?_eq_getElem hj]
      intro heq
      simp only [Option.some.injEq] at heq
      exact hm (heq ▸ List.getElem_mem hj)

/-- THE WRITER USES THE CURRENT POOL: after ANY session on one writer (writes, and the caller clearing, reordering,
    replacing or extending the shared list), the next `write_string` emits the first index of the string in the list
    AS IT IS at the time of the call, adding the string exactly when the list does not contain it. -/
theorem writeString_uses_current_pool (acts : List WAct) (st0 : WState) (p : List Str) (s : Str)
    (hne : wHasErr (runWriter acts st0).1 = false) (hp : (runWriter acts st0).2.pool = some p)
    (hb : ((p.length + 1 : Nat) : Int) ≤ INT_MAX) :
    ∃ i, runWriter (acts ++ [.write (.str s)]) st0 =
        ((runWriter acts st0).1 ++ [.wrote (writeVarint i)],
         ⟨(runWriter acts st0).2.out ++ writeVarint i, some (if s ∈ p then p else p ++ [s])⟩) ∧
      (if s ∈ p then p else p ++ [s])[i]? = some s ∧
      ∀ j, j < i → (if s ∈ p then p else p ++ [s])[j]? ≠ some s := by
  obtain ⟨i, hstep, h1, h2⟩ := stepW_writeString (runWriter acts st0).2.out p s hb
  refine ⟨i, ?_, h1, h2⟩
  rw [runWriter_append acts _ st0 hne]
  have hst : (runWriter acts st0).2 = ⟨(runWriter acts st0).2.out, some p⟩ := by
    cases hh : (runWriter acts st0).2 with
    | mk o q => rw [hh] at hp; simp only at hp; rw [hp]
  rw [hst, runWriter_cons_ok _ [] _ _ _ hstep]
  simp [runWriter]


/-! ## the hypotheses are satisfiable; the seeded scenarios, evaluated -/

/-- two peeks on a buffered ZERO byte, then the read, then the end: count 0, count 5, then a trailing zero byte -/
example : (runReader [.peek, .peek, .read .count, .peek, .peek, .read .count, .peek, .peek, .read .byte, .peek, .peek]
      ⟨[0, 5, 0], none, none⟩).1 =
    [.peeked true, .peeked true, .value (.count 0), .peeked true, .peeked true, .value (.count 5),
     .peeked true, .peeked true, .value (.byte 0), .peeked false, .peeked false] := by decide

/-- one writer, two documents, the caller clears the shared pool in between: the second document starts again at
    index 0 (`LMT` = 76 77 84, `GMT` = 71 77 84) -/
example : runWriter [.write (.str [76, 77, 84]), .write (.str [71, 77, 84]), .pool .clear, .write (.str [71, 77, 84]),
      .write (.str [76, 77, 84]), .write (.str [71, 77, 84])] ⟨[], some []⟩ =
    ([.wrote [0], .wrote [1], .poolOp, .wrote [0], .wrote [1], .wrote [0]], ⟨[0, 1, 0, 1, 0], some [[71, 77, 84], [76, 77, 84]]⟩) := by
  decide

/-- a script with two documents, a cleared pool in between, zero-valued items and peeks satisfies `ScriptDom` -/
example : ScriptDom false (some []) [.value 2 (.count 0), .value 1 (.str [76, 77, 84]), .value 3 (.str []), .endDoc,
    .pool .clear, .value 2 (.str []), .pool (.append [90]), .value 0 (.trans none Instant.beforeMin), .value 2 (.str [76, 77, 84])] := by
  have hc0 : ValDom (some []) (.count 0) := by show (0 : Int) ≤ 0 ∧ (0 : Int) ≤ INT_MAX; decide
  refine ⟨hc0, fun bs q' h => ?_⟩
  cases h
  refine ⟨⟨trivial, by simp [PoolBudget, INT_MAX]⟩, fun bs q' h => ?_⟩
  have e : writeVal (some []) (.str [76, 77, 84]) = .ok ([0], some [[76, 77, 84]]) := by decide
  rw [e] at h; cases h
  refine ⟨⟨trivial, by simp [PoolBudget, INT_MAX]⟩, fun bs q' h => ?_⟩
  have e : writeVal (some [[76, 77, 84]]) (.str []) = .ok ([1], some [[76, 77, 84], []]) := by decide
  rw [e] at h; cases h
  show ScriptDom false (some [[76, 77, 84], []]) _
  refine ⟨(fun h => by cases h), ⟨trivial, by simp [PoolBudget, PoolAct.apply, INT_MAX]⟩, fun bs q' h => ?_⟩
  have e : writeVal (PoolAct.clear.apply (some [[76, 77, 84], []])) (.str []) = .ok ([0], some [[]]) := by decide
  rw [e] at h; cases h
  refine ⟨fun _ => ⟨_, rfl⟩, ⟨Or.inl rfl, trivial⟩, fun bs q' h => ?_⟩
  have e : writeVal ((PoolAct.append [90]).apply (some [[]])) (.trans none Instant.beforeMin) = .ok ([0], some [[], [90]]) := by decide
  rw [e] at h; cases h
  exact ⟨⟨trivial, by simp [PoolBudget, INT_MAX]⟩, fun _ _ _ => trivial⟩

end Pyoda.C14
