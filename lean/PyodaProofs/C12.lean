/-
  C12 — value types are immutable values with consistent equality, hashing and ordering.

  Property theorems about the model `PyodaModel.Compare`; the statement schemas (`EqEquivalence`, `NeNegates`,
  `CmpIffTimeline`, `CmpTotalOrder`, `OpsAgree`, `MaxAgree`, `MinAgree`, `SameSign`) and helper lemmas are in
  `PyodaProofs.C12Lemmas`.  Per type:
    * `eq_iff_components`  — `==` holds exactly when the documented components are equal;
    * `eq_equivalence`     — `==` is an equivalence and `!=` its negation;
    * `hash_congr`         — equal values have equal hashes (for the modelled hash functions);
    * `cmp_iff_timeline`   — `compare_to` has the sign of the comparison of the timeline keys;
    * `cmp_total_order`    — `compare_to` is total, antisymmetric (ties = equal values), transitive;
    * `ops_agree_with_cmp` — `<, <=, >, >=, min, max` are all derived from `compare_to` (and raise exactly when it does);
    * `cross_calendar_raises` — ordering values of different calendars is `ValueError`, equality is `False`.
  Attribute immutability is a runtime behaviour that a pure model cannot exhibit (harness checks only).
-/
import PyodaModel.Compare
import PyodaProofs.Basic
import PyodaProofs.C12Lemmas

namespace Pyoda.C12
open Pyoda Pyoda.Compare

/-! ## packed `_YearMonthDay` / `_YearMonthDayCalendar` values -/

/-- Comparing the raw packed integers is comparing (year, month, day) lexicographically — for every integer
    year, negative years included (the year is the signed high part of the packed value). -/
theorem packed_order_iff_fields (y1 m1 d1 y2 m2 d2 : Int) (h1 : FieldsOK m1 d1) (h2 : FieldsOK m2 d2) :
    (packYMD y1 m1 d1 < packYMD y2 m2 d2 ↔ (y1 < y2 ∨ (y1 = y2 ∧ (m1 < m2 ∨ (m1 = m2 ∧ d1 < d2))))) ∧
    (packYMD y1 m1 d1 = packYMD y2 m2 d2 ↔ (y1 = y2 ∧ m1 = m2 ∧ d1 = d2)) :=
  ⟨packed_lt_iff _ _ _ _ _ _ h1 h2, packed_eq_iff _ _ _ _ _ _ h1 h2⟩

/-- the accessors `_year`, `_month`, `_day` recover the packed fields -/
theorem unpack_pack (y m d : Int) (h : FieldsOK m d) :
    ymdYear (packYMD y m d) = y ∧ ymdMonth (packYMD y m d) = m ∧ ymdDay (packYMD y m d) = d :=
  unpack_pack' y m d h

theorem pack_injective (y1 m1 d1 y2 m2 d2 : Int) (h1 : FieldsOK m1 d1) (h2 : FieldsOK m2 d2)
    (h : packYMD y1 m1 d1 = packYMD y2 m2 d2) : y1 = y2 ∧ m1 = m2 ∧ d1 = d2 :=
  (packed_eq_iff _ _ _ _ _ _ h1 h2).1 h

theorem packCal_injective (o1 y1 m1 d1 o2 y2 m2 d2 : Int) (h1 : FieldsOK m1 d1) (h2 : FieldsOK m2 d2)
    (ho1 : OrdOK o1) (ho2 : OrdOK o2) :
    packYMDC o1 y1 m1 d1 = packYMDC o2 y2 m2 d2 ↔ (o1 = o2 ∧ y1 = y2 ∧ m1 = m2 ∧ d1 = d2) := by
  rw [ymdc_split, (packCal_fields o1 y1 m1 d1 ho1).1, (packCal_fields o1 y1 m1 d1 ho1).2,
    (packCal_fields o2 y2 m2 d2 ho2).1, (packCal_fields o2 y2 m2 d2 ho2).2, packed_eq_iff _ _ _ _ _ _ h1 h2]

/-- concrete negative years: 31 December of year -1 < 1 January of year 0 < 1 January of year 1 as raw integers -/
theorem packed_negative_year_order :
    packYMD (-1) 12 31 < packYMD 0 1 1 ∧ packYMD 0 1 1 < packYMD 1 1 1 ∧ packYMD (-9998) 1 1 < packYMD (-9997) 1 1 ∧
    packYMD 0 1 1 < 0 ∧ packYMD 1 1 1 = 0 := by decide

/-! ## Duration -/

theorem duration_eq_iff_components (a b : Duration) :
    Dur.eq a b = true ↔ (a.days = b.days ∧ a.nod = b.nod) := by
  simp [Dur.eq, Duration.beq]

theorem duration_eq_equivalence : EqEquivalence Dur.eq ∧ NeNegates Dur.eq Dur.ne :=
  ⟨eqEquivalence_of_iff_eq _ (fun a b => dur_beq_iff a b), fun _ _ => rfl⟩

theorem duration_hash_congr (a b : Duration) (h : Dur.eq a b = true) : Dur.hash a = Dur.hash b := by
  rw [(dur_beq_iff a b).1 h]

/-- for normalised durations `compare_to` orders by the number of nanoseconds -/
theorem duration_cmp_iff_timeline : CmpIffTimeline Dur.compareTo (fun _ => 0) Duration.toNanos DurNorm :=
  fun a b ha hb _ => ⟨_, rfl, dur_cmp_sign a b ha hb⟩

theorem duration_cmp_total_order : CmpTotalOrder Dur.compareTo Dur.eq (fun _ => 0) DurNorm := by
  apply totalOrder_of_timeline _ _ _ _ _ duration_cmp_iff_timeline
  intro a b ha hb _
  rw [duration_eq_iff_components]
  simp only [Duration.toNanos, DurNorm, NPD] at *
  omega

theorem duration_ops_agree_with_cmp :
    OpsAgree Dur.lt Dur.le Dur.gt Dur.ge Dur.compareTo ∧ MaxAgree Dur.max Dur.compareTo true ∧
    MinAgree Dur.min Dur.compareTo true := by
  refine ⟨fun a b => ?_, fun a b => ?_, fun a b => ?_⟩
  · simp only [Dur.lt, Dur.le, Dur.gt, Dur.ge, Dur.compareTo, Except.map, dur_lt_cmp, dur_le_cmp, dur_gt_cmp,
      dur_ge_cmp, and_self]
  · have sw := dur_cmp_swap a b
    rw [Dur.max, pyMax_ok _ _ _ (Duration.compareTo b a > 0) (by simp only [Dur.gt, dur_gt_cmp])]
    simp only [Dur.compareTo, Except.map]
    congr 1; split <;> split <;> first | rfl | (exfalso; omega)
  · have sw := dur_cmp_swap a b
    rw [Dur.min, pyMin_ok _ _ _ (Duration.compareTo b a < 0) (by simp only [Dur.lt, dur_lt_cmp])]
    simp only [Dur.compareTo, Except.map]
    congr 1; split <;> split <;> first | rfl | (exfalso; omega)

/-! ## Instant -/

theorem instant_eq_iff_components (a b : Instant) :
    Inst.eq a b = true ↔ (a.dur.days = b.dur.days ∧ a.dur.nod = b.dur.nod) := by
  simp [Inst.eq, Duration.beq]

theorem inst_eq_iff (a b : Instant) : Inst.eq a b = true ↔ a = b := by
  cases a; cases b; simp [Inst.eq, dur_beq_iff]

theorem instant_eq_equivalence : EqEquivalence Inst.eq ∧ NeNegates Inst.eq Inst.ne :=
  ⟨eqEquivalence_of_iff_eq _ inst_eq_iff, fun _ _ => rfl⟩

theorem instant_hash_congr (a b : Instant) (h : Inst.eq a b = true) : Inst.hash a = Inst.hash b := by
  rw [(inst_eq_iff a b).1 h]

theorem instant_cmp_iff_timeline :
    CmpIffTimeline Inst.compareTo (fun _ => 0) (fun i => Duration.toNanos i.dur) (fun i => DurNorm i.dur) :=
  fun a b ha hb _ => ⟨_, rfl, dur_cmp_sign a.dur b.dur ha hb⟩

theorem instant_cmp_total_order : CmpTotalOrder Inst.compareTo Inst.eq (fun _ => 0) (fun i => DurNorm i.dur) := by
  apply totalOrder_of_timeline _ _ _ _ _ instant_cmp_iff_timeline
  intro a b ha hb _
  rw [instant_eq_iff_components]
  simp only [Duration.toNanos, DurNorm, NPD] at *
  omega

theorem instant_ops_agree_with_cmp :
    OpsAgree Inst.lt Inst.le Inst.gt Inst.ge Inst.compareTo ∧ MaxAgree Inst.max Inst.compareTo true ∧
    MinAgree Inst.min Inst.compareTo true := by
  refine ⟨fun a b => ?_, fun a b => ?_, fun a b => ?_⟩
  · simp only [Inst.lt, Inst.le, Inst.gt, Inst.ge, Inst.compareTo, Except.map, dur_lt_cmp, dur_le_cmp, dur_gt_cmp,
      dur_ge_cmp, and_self]
  · have sw := dur_cmp_swap a.dur b.dur
    rw [Inst.max, pyMax_ok _ _ _ (Duration.compareTo b.dur a.dur > 0) (by simp only [Inst.gt, dur_gt_cmp])]
    simp only [Inst.compareTo, Except.map]
    congr 1; split <;> split <;> first | rfl | (exfalso; omega)
  · have sw := dur_cmp_swap a.dur b.dur
    rw [Inst.min, pyMin_ok _ _ _ (Duration.compareTo b.dur a.dur < 0) (by simp only [Inst.lt, dur_lt_cmp])]
    simp only [Inst.compareTo, Except.map]
    congr 1; split <;> split <;> first | rfl | (exfalso; omega)

/-! ## Offset -/

theorem offset_eq_iff_components (a b : Offset) : Off.eq a b = true ↔ a.seconds = b.seconds := by
  simp [Off.eq]

theorem off_eq_iff (a b : Offset) : Off.eq a b = true ↔ a = b := by
  cases a; cases b; simp [Off.eq]

theorem offset_eq_equivalence : EqEquivalence Off.eq ∧ NeNegates Off.eq Off.ne :=
  ⟨eqEquivalence_of_iff_eq _ off_eq_iff, fun _ _ => rfl⟩

theorem offset_hash_congr (a b : Offset) (h : Off.eq a b = true) : Off.hash a = Off.hash b := by
  rw [(off_eq_iff a b).1 h]

theorem offset_cmp_iff_timeline : CmpIffTimeline Off.compareTo (fun _ => 0) (fun o => o.seconds) (fun _ => True) := by
  intro a b _ _ _
  refine ⟨_, rfl, ?_⟩
  simp only [SameSign, Offset.compareTo]; omega

theorem offset_cmp_total_order : CmpTotalOrder Off.compareTo Off.eq (fun _ => 0) (fun _ => True) := by
  apply totalOrder_of_timeline _ _ _ _ _ offset_cmp_iff_timeline
  intro a b _ _ _
  rw [offset_eq_iff_components]

theorem offset_ops_agree_with_cmp :
    OpsAgree Off.lt Off.le Off.gt Off.ge Off.compareTo ∧ MaxAgree Off.max Off.compareTo false ∧
    MinAgree Off.min Off.compareTo false := by
  refine ⟨fun a b => ?_, fun a b => ?_, fun a b => ?_⟩
  · simp only [Off.lt, Off.le, Off.gt, Off.ge, Off.compareTo, Except.map, and_self]
  · rw [Off.max, pyMax_ok _ _ _ (Offset.compareTo a b > 0) (by simp only [Off.gt])]
    simp only [Off.compareTo, Except.map]
    congr 1; split <;> split <;> first | rfl | (exfalso; omega)
  · rw [Off.min, pyMin_ok _ _ _ (Offset.compareTo a b < 0) (by simp only [Off.lt])]
    simp only [Off.compareTo, Except.map]
    congr 1; split <;> split <;> first | rfl | (exfalso; omega)

/-! ## LocalTime -/

theorem localTime_eq_iff_components (a b : LocalTime) : LocalTime.eq a b = true ↔ a.nanos = b.nanos := by
  simp [LocalTime.eq]

theorem lt_eq_iff (a b : LocalTime) : LocalTime.eq a b = true ↔ a = b := by
  cases a; cases b; simp [LocalTime.eq]

theorem localTime_eq_equivalence : EqEquivalence LocalTime.eq ∧ NeNegates LocalTime.eq LocalTime.ne :=
  ⟨eqEquivalence_of_iff_eq _ lt_eq_iff, fun _ _ => rfl⟩

theorem localTime_hash_congr (a b : LocalTime) (h : LocalTime.eq a b = true) : LocalTime.hash a = LocalTime.hash b := by
  rw [(lt_eq_iff a b).1 h]

theorem localTime_cmp_iff_timeline :
    CmpIffTimeline LocalTime.compareTo (fun _ => 0) (fun t => t.nanos) (fun _ => True) := by
  intro a b _ _ _
  refine ⟨_, rfl, ?_⟩
  simp only [SameSign]; omega

theorem localTime_cmp_total_order : CmpTotalOrder LocalTime.compareTo LocalTime.eq (fun _ => 0) (fun _ => True) := by
  apply totalOrder_of_timeline _ _ _ _ _ localTime_cmp_iff_timeline
  intro a b _ _ _
  rw [localTime_eq_iff_components]

theorem localTime_ops_agree_with_cmp :
    OpsAgree LocalTime.lt LocalTime.le LocalTime.gt LocalTime.ge LocalTime.compareTo ∧
    MaxAgree LocalTime.max LocalTime.compareTo false ∧ MinAgree LocalTime.min LocalTime.compareTo false := by
  refine ⟨fun a b => ?_, fun a b => ?_, fun a b => ?_⟩
  · simp only [LocalTime.lt, LocalTime.le, LocalTime.gt, LocalTime.ge, LocalTime.compareTo, Except.map]
    refine ⟨?_, ?_, ?_, ?_⟩ <;> congr 1 <;> rw [Bool.eq_iff_iff] <;> simp only [decide_eq_true_eq] <;> omega
  · rw [LocalTime.max, pyMax_ok _ _ _ (a.nanos > b.nanos) (by simp only [LocalTime.gt])]
    simp only [LocalTime.compareTo, Except.map]
    congr 1; split <;> split <;> first | rfl | (exfalso; omega)
  · rw [LocalTime.min, pyMin_ok _ _ _ (a.nanos < b.nanos) (by simp only [LocalTime.lt])]
    simp only [LocalTime.compareTo, Except.map]
    congr 1; split <;> split <;> first | rfl | (exfalso; omega)

/-! ## LocalDate -/

/-- what the order theorems need from a date: a scriptural Hebrew month exists in its year -/
def LdValid (a : LocalDate) : Prop := YmdValid a.ordinal a.ymd

/-- the timeline key of a date inside its calendar (packed year / month — civil month for the scriptural Hebrew
    calendar — / day; by `packed_order_iff_fields` its order is the lexicographic order of those fields) -/
def ldKey (a : LocalDate) : Int := dateKey a.ordinal a.ymd

theorem ld_eq_iff (a b : LocalDate) : LocalDate.eq a b = true ↔ a = b := by
  cases a; cases b; simp [LocalDate.eq]

theorem localDate_eq_iff_components (o1 y1 m1 d1 o2 y2 m2 d2 : Int) (h1 : FieldsOK m1 d1) (h2 : FieldsOK m2 d2)
    (ho1 : OrdOK o1) (ho2 : OrdOK o2) :
    LocalDate.eq (LocalDate.ofFields o1 y1 m1 d1) (LocalDate.ofFields o2 y2 m2 d2) = true ↔
      (o1 = o2 ∧ y1 = y2 ∧ m1 = m2 ∧ d1 = d2) := by
  rw [ld_eq_iff]
  simp only [LocalDate.ofFields, LocalDate.mk.injEq]
  exact packCal_injective _ _ _ _ _ _ _ _ h1 h2 ho1 ho2

theorem localDate_eq_equivalence : EqEquivalence LocalDate.eq ∧ NeNegates LocalDate.eq LocalDate.ne :=
  ⟨eqEquivalence_of_iff_eq _ ld_eq_iff, fun _ _ => rfl⟩

theorem localDate_hash_congr (a b : LocalDate) (h : LocalDate.eq a b = true) : LocalDate.hash a = LocalDate.hash b := by
  rw [(ld_eq_iff a b).1 h]

theorem ld_cmp_ok (a b : LocalDate) (g : a.ordinal = b.ordinal) :
    LocalDate.compareTo a b = .ok (calCompare a.ordinal a.ymd b.ymd) := by
  simp only [LocalDate.compareTo, sameCal, g, if_true, LocalDate.trustedCompareTo]

theorem ld_cmp_err (a b : LocalDate) (g : a.ordinal ≠ b.ordinal) :
    LocalDate.compareTo a b = .error .valueError := by
  simp only [LocalDate.compareTo, sameCal, g, if_false]

theorem localDate_cmp_iff_timeline : CmpIffTimeline LocalDate.compareTo LocalDate.ordinal ldKey LdValid := by
  intro a b va vb g
  refine ⟨_, ld_cmp_ok a b g, ?_⟩
  simp only [LdValid, ldKey] at *
  rw [← g] at vb ⊢
  exact calCompare_sign _ _ _ va vb

theorem ld_key_eq (a b : LocalDate) (va : LdValid a) (vb : LdValid b) (g : a.ordinal = b.ordinal) :
    ldKey a = ldKey b ↔ LocalDate.eq a b = true := by
  simp only [LdValid, ldKey] at *
  rw [← g] at vb ⊢
  rw [dateKey_inj _ _ _ va vb, ld_eq_iff]
  constructor
  · intro h
    cases a; cases b
    simp only [LocalDate.ordinal, LocalDate.ymd] at *
    congr 1
    exact (ymdc_split _ _).2 ⟨g, h⟩
  · intro h; rw [h]

theorem localDate_cmp_total_order : CmpTotalOrder LocalDate.compareTo LocalDate.eq LocalDate.ordinal LdValid :=
  totalOrder_of_timeline _ _ _ _ _ localDate_cmp_iff_timeline ld_key_eq

theorem localDate_ops_agree_with_cmp :
    OpsAgree LocalDate.lt LocalDate.le LocalDate.gt LocalDate.ge LocalDate.compareTo ∧
    MaxAgree LocalDate.max LocalDate.compareTo true ∧ MinAgree LocalDate.min LocalDate.compareTo true := by
  refine ⟨fun a b => ?_, fun a b => ?_, fun a b => ?_⟩
  · by_cases g : a.ordinal = b.ordinal <;>
      simp [LocalDate.lt, LocalDate.le, LocalDate.gt, LocalDate.ge, LocalDate.compareTo, sameCal, g, Except.map]
  · by_cases g : a.ordinal = b.ordinal
    · have sw := calCompare_swap b.ordinal a.ymd b.ymd
      rw [LocalDate.max, if_pos g, pyMax_ok _ _ _ (calCompare b.ordinal b.ymd a.ymd > 0)
        (by rw [LocalDate.gt, sameCal, if_pos g.symm, LocalDate.trustedCompareTo]), ld_cmp_ok a b g, g]
      simp only [Except.map]
      congr 1; split <;> split <;> first | rfl | (exfalso; omega)
    · rw [LocalDate.max, if_neg g, ld_cmp_err a b g]; rfl
  · by_cases g : a.ordinal = b.ordinal
    · have sw := calCompare_swap b.ordinal a.ymd b.ymd
      rw [LocalDate.min, if_pos g, pyMin_ok _ _ _ (calCompare b.ordinal b.ymd a.ymd < 0)
        (by rw [LocalDate.lt, sameCal, if_pos g.symm, LocalDate.trustedCompareTo]), ld_cmp_ok a b g, g]
      simp only [Except.map]
      congr 1; split <;> split <;> first | rfl | (exfalso; omega)
    · rw [LocalDate.min, if_neg g, ld_cmp_err a b g]; rfl

/-- ordering dates of different calendars raises ValueError in every operator, `compare_to`, `min` and `max` -/
theorem localDate_cross_calendar_raises (a b : LocalDate) (g : a.ordinal ≠ b.ordinal) :
    LocalDate.lt a b = .error .valueError ∧ LocalDate.le a b = .error .valueError ∧
    LocalDate.gt a b = .error .valueError ∧ LocalDate.ge a b = .error .valueError ∧
    LocalDate.compareTo a b = .error .valueError ∧ LocalDate.max a b = .error .valueError ∧
    LocalDate.min a b = .error .valueError := by
  simp [LocalDate.lt, LocalDate.le, LocalDate.gt, LocalDate.ge, LocalDate.compareTo, LocalDate.max, LocalDate.min,
    sameCal, g]

/-- … while equality of dates of different calendars is simply False -/
theorem localDate_cross_calendar_eq_false (a b : LocalDate) (g : a.ordinal ≠ b.ordinal) :
    LocalDate.eq a b = false ∧ LocalDate.ne a b = true := by
  have : ¬ a.ymdc = b.ymdc := by
    intro h; apply g; simp only [LocalDate.ordinal, h]
  simp [LocalDate.eq, LocalDate.ne, this]

/-! ## Hebrew scriptural month order -/

theorem scripturalToCivil_injective (y m1 m2 : Int) (h1 : HebMonthOK y m1) (h2 : HebMonthOK y m2)
    (h : scripturalToCivil y m1 = scripturalToCivil y m2) : m1 = m2 := civil_inj y m1 m2 h1 h2 h

/-- The scriptural comparison is the lexicographic order of (year, civil month, day): the year begins with
    Tishri (scriptural month 7 = civil month 1), and ties are exactly equal dates. -/
theorem hebrewScriptural_cmp_iff_civil_lex (l r : Int)
    (hl : HebMonthOK (ymdYear l) (ymdMonth l)) (hr : HebMonthOK (ymdYear r) (ymdMonth r)) :
    (calCompare HEBREW_SCRIPTURAL l r < 0 ↔
      (ymdYear l < ymdYear r ∨ (ymdYear l = ymdYear r ∧
        (scripturalToCivil (ymdYear l) (ymdMonth l) < scripturalToCivil (ymdYear r) (ymdMonth r) ∨
          (scripturalToCivil (ymdYear l) (ymdMonth l) = scripturalToCivil (ymdYear r) (ymdMonth r) ∧
            ymdDay l < ymdDay r))))) ∧
    (calCompare HEBREW_SCRIPTURAL l r = 0 ↔ l = r) := by
  have s := calCompare_sign HEBREW_SCRIPTURAL l r (fun _ => hl) (fun _ => hr)
  have inj := dateKey_inj HEBREW_SCRIPTURAL l r (fun _ => hl) (fun _ => hr)
  have cl := civil_range _ _ hl
  have cr := civil_range _ _ hr
  have fl := (repack l).2
  have fr := (repack r).2
  obtain ⟨s1, s2, _⟩ := s
  refine ⟨?_, by rw [s2, inj]⟩
  rw [s1]
  simp only [dateKey, if_true, civilKey]
  exact packed_lt_iff _ _ _ _ _ _ ⟨cl.1, by omega, fl.2.2.1, fl.2.2.2⟩ ⟨cr.1, by omega, fr.2.2.1, fr.2.2.2⟩

/-- across the Tishri boundary the scriptural order is the opposite of the raw packed order:
    1 Tishri 5780 (month 7) precedes 29 Elul 5780 (month 6), and in the leap year 5782 Adar II (13) precedes Nisan (1) -/
theorem hebrewScriptural_tishri_boundary :
    calCompare HEBREW_SCRIPTURAL (packYMD 5780 7 1) (packYMD 5780 6 29) < 0 ∧ packYMD 5780 6 29 < packYMD 5780 7 1 ∧
    calCompare HEBREW_SCRIPTURAL (packYMD 5782 13 1) (packYMD 5782 1 1) < 0 ∧
    calCompare 4 (packYMD 5780 6 29) (packYMD 5780 7 1) < 0 := by decide

/-! ## LocalDateTime -/

def LdtValid (a : LocalDateTime) : Prop := LdValid a.date ∧ 0 ≤ a.time.nanos ∧ a.time.nanos < NPD

/-- timeline key inside a calendar: the date key, then the nanosecond of the day -/
def ldtKey (a : LocalDateTime) : Int := ldKey a.date * NPD + a.time.nanos

theorem ldt_eq_iff (a b : LocalDateTime) : LocalDateTime.eq a b = true ↔ a = b := by
  cases a; cases b; simp [LocalDateTime.eq, ld_eq_iff, lt_eq_iff]

theorem localDateTime_eq_iff_components (a b : LocalDateTime) :
    LocalDateTime.eq a b = true ↔ (a.date.ymdc = b.date.ymdc ∧ a.time.nanos = b.time.nanos) := by
  simp [LocalDateTime.eq, LocalDate.eq, LocalTime.eq]

theorem localDateTime_eq_equivalence :
    EqEquivalence LocalDateTime.eq ∧ NeNegates LocalDateTime.eq LocalDateTime.ne :=
  ⟨eqEquivalence_of_iff_eq _ ldt_eq_iff, fun _ _ => rfl⟩

/-- whatever the identity hash of the calendar objects is -/
theorem localDateTime_hash_congr (calHash : Int → Int) (a b : LocalDateTime) (h : LocalDateTime.eq a b = true) :
    LocalDateTime.hash calHash a = LocalDateTime.hash calHash b := by
  rw [(ldt_eq_iff a b).1 h]

/-- the value `compare_to` returns inside one calendar -/
def ldtCmp (a b : LocalDateTime) : Int :=
  if calCompare a.date.ordinal a.date.ymd b.date.ymd ≠ 0 then calCompare a.date.ordinal a.date.ymd b.date.ymd
  else a.time.nanos - b.time.nanos

theorem ldt_cmp_ok (a b : LocalDateTime) (g : a.date.ordinal = b.date.ordinal) :
    LocalDateTime.compareTo a b = .ok (ldtCmp a b) := by
  simp only [LocalDateTime.compareTo, ld_cmp_ok _ _ g, LocalTime.compareTo, ldtCmp]
  split <;> rfl

theorem ldtCmp_swap (a b : LocalDateTime) (g : a.date.ordinal = b.date.ordinal) :
    (ldtCmp a b < 0 ↔ ldtCmp b a > 0) ∧ (ldtCmp a b > 0 ↔ ldtCmp b a < 0) := by
  have sw := calCompare_swap b.date.ordinal a.date.ymd b.date.ymd
  simp only [ldtCmp, g]
  split <;> split <;> omega

theorem ldt_cmp_err (a b : LocalDateTime) (g : a.date.ordinal ≠ b.date.ordinal) :
    LocalDateTime.compareTo a b = .error .valueError := by
  simp only [LocalDateTime.compareTo, ld_cmp_err _ _ g]

theorem localDateTime_cmp_iff_timeline :
    CmpIffTimeline LocalDateTime.compareTo (fun a => a.date.ordinal) ldtKey LdtValid := by
  intro a b va vb g
  refine ⟨_, ldt_cmp_ok a b g, ?_⟩
  obtain ⟨c, hc, s⟩ := localDate_cmp_iff_timeline a.date b.date va.1 vb.1 g
  rw [ld_cmp_ok _ _ g] at hc
  cases hc
  simp only [SameSign, ldtKey, LdtValid, NPD, ldtCmp] at *
  split <;> omega

theorem localDateTime_cmp_total_order :
    CmpTotalOrder LocalDateTime.compareTo LocalDateTime.eq (fun a => a.date.ordinal) LdtValid := by
  apply totalOrder_of_timeline _ _ _ _ _ localDateTime_cmp_iff_timeline
  intro a b va vb g
  have k := ld_key_eq a.date b.date va.1 vb.1 g
  rw [ld_eq_iff] at k
  rw [ldt_eq_iff]
  simp only [ldtKey, LdtValid, NPD] at *
  constructor
  · intro h
    have hk : ldKey a.date = ldKey b.date := by omega
    have hd := k.1 hk
    cases a; cases b
    simp only [LocalDateTime.mk.injEq] at *
    refine ⟨hd, ?_⟩
    rename_i t1 _ t2
    cases t1; cases t2
    simp only [LocalTime.mk.injEq] at *
    omega
  · intro h; rw [h]

theorem localDateTime_ops_agree_with_cmp :
    OpsAgree LocalDateTime.lt LocalDateTime.le LocalDateTime.gt LocalDateTime.ge LocalDateTime.compareTo ∧
    MaxAgree LocalDateTime.max LocalDateTime.compareTo true ∧ MinAgree LocalDateTime.min LocalDateTime.compareTo true := by
  refine ⟨fun a b => ?_, fun a b => ?_, fun a b => ?_⟩
  · by_cases g : a.date.ordinal = b.date.ordinal
    · simp only [LocalDateTime.lt, LocalDateTime.le, LocalDateTime.gt, LocalDateTime.ge, LocalDateTime.withGuard,
        if_pos g, ldt_cmp_ok a b g, Except.map, and_self]
    · simp only [LocalDateTime.lt, LocalDateTime.le, LocalDateTime.gt, LocalDateTime.ge, LocalDateTime.withGuard,
        if_neg g, ldt_cmp_err a b g, Except.map, and_self]
  · by_cases g : a.date.ordinal = b.date.ordinal
    · have sw := ldtCmp_swap a b g
      rw [LocalDateTime.max, pyMax_ok _ _ _ (ldtCmp b a > 0)
        (by rw [LocalDateTime.gt, LocalDateTime.withGuard, if_pos g.symm, ldt_cmp_ok b a g.symm]),
        ldt_cmp_ok a b g]
      simp only [Except.map]
      congr 1; split <;> split <;> first | rfl | (exfalso; omega)
    · rw [LocalDateTime.max, pyMax_err _ _ _ .valueError
        (by rw [LocalDateTime.gt, LocalDateTime.withGuard, if_neg (Ne.symm g)]), ldt_cmp_err a b g]; rfl
  · by_cases g : a.date.ordinal = b.date.ordinal
    · have sw := ldtCmp_swap a b g
      rw [LocalDateTime.min, pyMin_ok _ _ _ (ldtCmp b a < 0)
        (by rw [LocalDateTime.lt, LocalDateTime.withGuard, if_pos g.symm, ldt_cmp_ok b a g.symm]),
        ldt_cmp_ok a b g]
      simp only [Except.map]
      congr 1; split <;> split <;> first | rfl | (exfalso; omega)
    · rw [LocalDateTime.min, pyMin_err _ _ _ .valueError
        (by rw [LocalDateTime.lt, LocalDateTime.withGuard, if_neg (Ne.symm g)]), ldt_cmp_err a b g]; rfl

theorem localDateTime_cross_calendar_raises (a b : LocalDateTime) (g : a.date.ordinal ≠ b.date.ordinal) :
    LocalDateTime.lt a b = .error .valueError ∧ LocalDateTime.le a b = .error .valueError ∧
    LocalDateTime.gt a b = .error .valueError ∧ LocalDateTime.ge a b = .error .valueError ∧
    LocalDateTime.compareTo a b = .error .valueError ∧ LocalDateTime.max a b = .error .valueError ∧
    LocalDateTime.min a b = .error .valueError ∧ LocalDateTime.eq a b = false := by
  have hne : ¬ a.date.ymdc = b.date.ymdc := by
    intro h; apply g; simp only [LocalDate.ordinal, h]
  refine ⟨?_, ?_, ?_, ?_, ldt_cmp_err a b g, ?_, ?_, ?_⟩
  · simp only [LocalDateTime.lt, LocalDateTime.withGuard, if_neg g]
  · simp only [LocalDateTime.le, LocalDateTime.withGuard, if_neg g]
  · simp only [LocalDateTime.gt, LocalDateTime.withGuard, if_neg g]
  · simp only [LocalDateTime.ge, LocalDateTime.withGuard, if_neg g]
  · rw [LocalDateTime.max, pyMax_err _ _ _ .valueError
      (by rw [LocalDateTime.gt, LocalDateTime.withGuard, if_neg (Ne.symm g)])]
  · rw [LocalDateTime.min, pyMin_err _ _ _ .valueError
      (by rw [LocalDateTime.lt, LocalDateTime.withGuard, if_neg (Ne.symm g)])]
  · simp [LocalDateTime.eq, LocalDate.eq, hne]

/-! ## YearMonth -/

def YmValid (a : YearMonth) : Prop := YmdValid a.ordinal a.ymd
def ymKey (a : YearMonth) : Int := dateKey a.ordinal a.ymd

theorem ym_eq_iff (a b : YearMonth) : YearMonth.eq a b = true ↔ a = b := by
  cases a; cases b; simp [YearMonth.eq]

theorem yearMonth_eq_iff_components (o1 y1 m1 o2 y2 m2 : Int) (h1 : FieldsOK m1 1) (h2 : FieldsOK m2 1)
    (ho1 : OrdOK o1) (ho2 : OrdOK o2) :
    YearMonth.eq (YearMonth.ofFields o1 y1 m1) (YearMonth.ofFields o2 y2 m2) = true ↔ (o1 = o2 ∧ y1 = y2 ∧ m1 = m2) := by
  rw [ym_eq_iff]
  simp only [YearMonth.ofFields, YearMonth.mk.injEq]
  rw [packCal_injective _ _ _ _ _ _ _ _ h1 h2 ho1 ho2]
  simp

theorem yearMonth_eq_equivalence : EqEquivalence YearMonth.eq ∧ NeNegates YearMonth.eq YearMonth.ne :=
  ⟨eqEquivalence_of_iff_eq _ ym_eq_iff, fun _ _ => rfl⟩

theorem yearMonth_hash_congr (a b : YearMonth) (h : YearMonth.eq a b = true) : YearMonth.hash a = YearMonth.hash b := by
  rw [(ym_eq_iff a b).1 h]

theorem ym_cmp_ok (a b : YearMonth) (g : a.ordinal = b.ordinal) :
    YearMonth.compareTo a b = .ok (calCompare a.ordinal a.ymd b.ymd) := by
  simp only [YearMonth.compareTo, sameCal, g, if_true, YearMonth.trustedCompareTo]

theorem yearMonth_cmp_iff_timeline : CmpIffTimeline YearMonth.compareTo YearMonth.ordinal ymKey YmValid := by
  intro a b va vb g
  refine ⟨_, ym_cmp_ok a b g, ?_⟩
  simp only [YmValid, ymKey] at *
  rw [← g] at vb ⊢
  exact calCompare_sign _ _ _ va vb

theorem yearMonth_cmp_total_order : CmpTotalOrder YearMonth.compareTo YearMonth.eq YearMonth.ordinal YmValid := by
  apply totalOrder_of_timeline _ _ _ _ _ yearMonth_cmp_iff_timeline
  intro a b va vb g
  simp only [YmValid, ymKey] at *
  rw [← g] at vb ⊢
  rw [dateKey_inj _ _ _ va vb, ym_eq_iff]
  constructor
  · intro h
    cases a; cases b
    simp only [YearMonth.ordinal, YearMonth.ymd] at *
    congr 1
    exact (ymdc_split _ _).2 ⟨g, h⟩
  · intro h; rw [h]

theorem yearMonth_ops_agree_with_cmp :
    OpsAgree YearMonth.lt YearMonth.le YearMonth.gt YearMonth.ge YearMonth.compareTo := by
  intro a b
  by_cases g : a.ordinal = b.ordinal <;>
    simp [YearMonth.lt, YearMonth.le, YearMonth.gt, YearMonth.ge, YearMonth.compareTo, sameCal, g, Except.map]

theorem yearMonth_cross_calendar_raises (a b : YearMonth) (g : a.ordinal ≠ b.ordinal) :
    YearMonth.lt a b = .error .valueError ∧ YearMonth.le a b = .error .valueError ∧
    YearMonth.gt a b = .error .valueError ∧ YearMonth.ge a b = .error .valueError ∧
    YearMonth.compareTo a b = .error .valueError ∧ YearMonth.eq a b = false := by
  have hne : ¬ a.som = b.som := by
    intro h; apply g; simp only [YearMonth.ordinal, h]
  simp [YearMonth.lt, YearMonth.le, YearMonth.gt, YearMonth.ge, YearMonth.compareTo, YearMonth.eq, sameCal, g, hne]

/-! ## AnnualDate -/

theorem ad_eq_iff (a b : AnnualDate) : AnnualDate.eq a b = true ↔ a = b := by
  cases a; cases b; simp [AnnualDate.eq]

theorem annualDate_eq_iff_components (m1 d1 m2 d2 : Int) (h1 : FieldsOK m1 d1) (h2 : FieldsOK m2 d2) :
    AnnualDate.eq (AnnualDate.ofFields m1 d1) (AnnualDate.ofFields m2 d2) = true ↔ (m1 = m2 ∧ d1 = d2) := by
  rw [ad_eq_iff]
  simp only [AnnualDate.ofFields, AnnualDate.mk.injEq]
  rw [packed_eq_iff _ _ _ _ _ _ h1 h2]
  simp

theorem annualDate_eq_equivalence : EqEquivalence AnnualDate.eq ∧ NeNegates AnnualDate.eq AnnualDate.ne :=
  ⟨eqEquivalence_of_iff_eq _ ad_eq_iff, fun _ _ => rfl⟩

theorem annualDate_hash_congr (a b : AnnualDate) (h : AnnualDate.eq a b = true) :
    AnnualDate.hash a = AnnualDate.hash b := by
  rw [(ad_eq_iff a b).1 h]

/-- the order is that of the packed (month, day) value, i.e. (by `packed_order_iff_fields`) month then day -/
theorem annualDate_cmp_iff_timeline :
    CmpIffTimeline AnnualDate.compareTo (fun _ => 0) (fun a => a.value) (fun _ => True) := by
  intro a b _ _ _
  refine ⟨_, rfl, ?_⟩
  simp only [SameSign]; omega

theorem annualDate_cmp_total_order : CmpTotalOrder AnnualDate.compareTo AnnualDate.eq (fun _ => 0) (fun _ => True) := by
  apply totalOrder_of_timeline _ _ _ _ _ annualDate_cmp_iff_timeline
  intro a b _ _ _
  simp [AnnualDate.eq]

theorem annualDate_ops_agree_with_cmp :
    OpsAgree AnnualDate.lt AnnualDate.le AnnualDate.gt AnnualDate.ge AnnualDate.compareTo := by
  intro a b
  simp only [AnnualDate.lt, AnnualDate.le, AnnualDate.gt, AnnualDate.ge, AnnualDate.compareTo, Except.map, and_self]

/-! ## OffsetDate, OffsetTime, OffsetDateTime, ZonedDateTime -/

theorem od_eq_iff (a b : OffsetDate) : OffsetDate.eq a b = true ↔ a = b := by
  cases a; cases b; simp [OffsetDate.eq, ld_eq_iff, off_eq_iff]

theorem offsetDate_eq_iff_components (a b : OffsetDate) :
    OffsetDate.eq a b = true ↔ (a.date.ymdc = b.date.ymdc ∧ a.offset.seconds = b.offset.seconds) := by
  simp [OffsetDate.eq, LocalDate.eq, Off.eq]

theorem offsetDate_eq_equivalence : EqEquivalence OffsetDate.eq ∧ NeNegates OffsetDate.eq OffsetDate.ne :=
  ⟨eqEquivalence_of_iff_eq _ od_eq_iff, fun _ _ => rfl⟩

theorem offsetDate_hash_congr (a b : OffsetDate) (h : OffsetDate.eq a b = true) :
    OffsetDate.hash a = OffsetDate.hash b := by
  rw [(od_eq_iff a b).1 h]

theorem ot_eq_iff (a b : OffsetTime) : OffsetTime.eq a b = true ↔ a = b := by
  cases a; cases b
  simp only [OffsetTime.eq, Bool.and_eq_true, lt_eq_iff, off_eq_iff, OffsetTime.timeOfDay, OffsetTime.offset,
    LocalTime.mk.injEq, Offset.mk.injEq, OffsetTime.mk.injEq, TWO47]
  omega

/-- equality of the packed value is equality of (nanosecond of day, offset) for nanoseconds below 2^47 -/
theorem offsetTime_eq_iff_components (n1 s1 n2 s2 : Int) (h1 : 0 ≤ n1 ∧ n1 < TWO47) (h2 : 0 ≤ n2 ∧ n2 < TWO47) :
    OffsetTime.eq (OffsetTime.ofFields n1 s1) (OffsetTime.ofFields n2 s2) = true ↔ (n1 = n2 ∧ s1 = s2) := by
  rw [ot_eq_iff]
  simp only [OffsetTime.ofFields, OffsetTime.mk.injEq, TWO47] at *
  omega

theorem offsetTime_eq_equivalence : EqEquivalence OffsetTime.eq ∧ NeNegates OffsetTime.eq OffsetTime.ne :=
  ⟨eqEquivalence_of_iff_eq _ ot_eq_iff, fun _ _ => rfl⟩

theorem offsetTime_hash_congr (a b : OffsetTime) (h : OffsetTime.eq a b = true) :
    OffsetTime.hash a = OffsetTime.hash b := by
  rw [(ot_eq_iff a b).1 h]

theorem odt_eq_iff (a b : OffsetDateTime) : OffsetDateTime.eq a b = true ↔ a = b := by
  cases a; cases b; simp [OffsetDateTime.eq, ld_eq_iff, ot_eq_iff]

/-- equality includes the offset: local date, nanosecond of day and offset must all agree -/
theorem offsetDateTime_eq_iff_components (a b : OffsetDateTime) :
    OffsetDateTime.eq a b = true ↔
      (a.date.ymdc = b.date.ymdc ∧ a.ot.timeOfDay.nanos = b.ot.timeOfDay.nanos ∧
        a.ot.offset.seconds = b.ot.offset.seconds) := by
  simp [OffsetDateTime.eq, LocalDate.eq, OffsetTime.eq, LocalTime.eq, Off.eq]

theorem offsetDateTime_eq_equivalence :
    EqEquivalence OffsetDateTime.eq ∧ NeNegates OffsetDateTime.eq OffsetDateTime.ne :=
  ⟨eqEquivalence_of_iff_eq _ odt_eq_iff, fun _ _ => rfl⟩

theorem offsetDateTime_hash_congr (a b : OffsetDateTime) (h : OffsetDateTime.eq a b = true) :
    OffsetDateTime.hash a = OffsetDateTime.hash b := by
  rw [(odt_eq_iff a b).1 h]

/-- two offset date-times that denote the same instant (local time minus offset) but carry different offsets
    are not equal: 2020-01-01T00:00+00 and 2020-01-01T01:00+01 -/
theorem offsetDateTime_equal_instant_not_equal :
    let a : OffsetDateTime := ⟨LocalDate.ofFields 0 2020 1 1, OffsetTime.ofFields 0 0⟩
    let b : OffsetDateTime := ⟨LocalDate.ofFields 0 2020 1 1, OffsetTime.ofFields 3600000000000 3600⟩
    a.date = b.date ∧
    a.ot.timeOfDay.nanos - a.ot.offset.seconds * NPS = b.ot.timeOfDay.nanos - b.ot.offset.seconds * NPS ∧
    OffsetDateTime.eq a b = false ∧ OffsetDateTime.ne a b = true := by decide

theorem zone_eq_iff (a b : Zone) : Zone.eq a b = true ↔ a = b := by
  cases a <;> cases b <;> simp [Zone.eq, and_assoc]

theorem zdt_eq_iff (a b : ZonedDateTime) : ZonedDateTime.eq a b = true ↔ a = b := by
  cases a; cases b; simp [ZonedDateTime.eq, odt_eq_iff, zone_eq_iff]

/-- equality is equality of the offset date-time and of the zone (fixed zones by offset/id/name, others by identity) -/
theorem zonedDateTime_eq_iff_components (a b : ZonedDateTime) :
    ZonedDateTime.eq a b = true ↔ (OffsetDateTime.eq a.odt b.odt = true ∧ Zone.eq a.zone b.zone = true) := by
  simp [ZonedDateTime.eq]

theorem zonedDateTime_eq_equivalence :
    EqEquivalence ZonedDateTime.eq ∧ NeNegates ZonedDateTime.eq ZonedDateTime.ne :=
  ⟨eqEquivalence_of_iff_eq _ zdt_eq_iff, fun _ _ => rfl⟩

/-! ## Interval, DateInterval, Period, ZoneInterval, fixed zones -/

theorem iv_eq_iff (a b : Interval) : Interval.eq a b = true ↔ a = b := by
  cases a; cases b; simp [Interval.eq, inst_eq_iff]

theorem interval_eq_iff_components (a b : Interval) :
    Interval.eq a b = true ↔ (a.start = b.start ∧ a.stop = b.stop) := by
  simp [Interval.eq, inst_eq_iff]

theorem interval_eq_equivalence : EqEquivalence Interval.eq ∧ NeNegates Interval.eq Interval.ne :=
  ⟨eqEquivalence_of_iff_eq _ iv_eq_iff, fun _ _ => rfl⟩

theorem interval_hash_congr (a b : Interval) (h : Interval.eq a b = true) : Interval.hash a = Interval.hash b := by
  rw [(iv_eq_iff a b).1 h]

theorem div_eq_iff (a b : DateInterval) : DateInterval.eq a b = true ↔ a = b := by
  cases a; cases b; simp [DateInterval.eq, ld_eq_iff]

theorem dateInterval_eq_iff_components (a b : DateInterval) :
    DateInterval.eq a b = true ↔ (a.start = b.start ∧ a.stop = b.stop) := by
  simp [DateInterval.eq, ld_eq_iff]

theorem dateInterval_eq_equivalence : EqEquivalence DateInterval.eq ∧ NeNegates DateInterval.eq DateInterval.ne :=
  ⟨eqEquivalence_of_iff_eq _ div_eq_iff, fun _ _ => rfl⟩

theorem dateInterval_hash_congr (a b : DateInterval) (h : DateInterval.eq a b = true) :
    DateInterval.hash a = DateInterval.hash b := by
  rw [(div_eq_iff a b).1 h]

theorem per_eq_iff (a b : Period) : Period.eq a b = true ↔ a = b := by
  cases a; cases b; simp [Period.eq, and_assoc]

theorem period_eq_iff_components (a b : Period) : Period.eq a b = true ↔ a.toList = b.toList := by
  rw [per_eq_iff]
  cases a; cases b; simp [Period.toList]

theorem period_eq_equivalence : EqEquivalence Period.eq ∧ NeNegates Period.eq Period.ne :=
  ⟨eqEquivalence_of_iff_eq _ per_eq_iff, fun _ _ => rfl⟩

/-- whatever the built-in tuple hash is -/
theorem period_hash_congr (tupleHash : List Int → Int) (a b : Period) (h : Period.eq a b = true) :
    Period.hash tupleHash a = Period.hash tupleHash b := by
  rw [(per_eq_iff a b).1 h]

theorem zi_eq_iff (a b : ZoneInterval) : ZoneInterval.eq a b = true ↔ a = b := by
  cases a; cases b; simp [ZoneInterval.eq, inst_eq_iff, off_eq_iff, and_assoc]

theorem zoneInterval_eq_iff_components (a b : ZoneInterval) :
    ZoneInterval.eq a b = true ↔
      (a.nameCode = b.nameCode ∧ a.rawStart = b.rawStart ∧ a.rawEnd = b.rawEnd ∧ a.wall = b.wall ∧
        a.savings = b.savings) := by
  simp [ZoneInterval.eq, inst_eq_iff, off_eq_iff, and_assoc]

theorem zoneInterval_eq_equivalence : EqEquivalence ZoneInterval.eq ∧ NeNegates ZoneInterval.eq ZoneInterval.ne :=
  ⟨eqEquivalence_of_iff_eq _ zi_eq_iff, fun _ _ => rfl⟩

/-- whatever `hash(str)` is -/
theorem zoneInterval_hash_congr (strHash : Int → Int) (a b : ZoneInterval) (h : ZoneInterval.eq a b = true) :
    ZoneInterval.hash strHash a = ZoneInterval.hash strHash b := by
  rw [(zi_eq_iff a b).1 h]

theorem fz_eq_iff (a b : FixedZone) : FixedZone.eq a b = true ↔ a = b := by
  cases a; cases b; simp [FixedZone.eq, off_eq_iff, and_assoc]

theorem fixedZone_eq_iff_components (a b : FixedZone) :
    FixedZone.eq a b = true ↔ (a.offset = b.offset ∧ a.idCode = b.idCode ∧ a.nameCode = b.nameCode) := by
  simp [FixedZone.eq, off_eq_iff, and_assoc]

theorem fixedZone_eq_equivalence : EqEquivalence FixedZone.eq ∧ NeNegates FixedZone.eq FixedZone.ne :=
  ⟨eqEquivalence_of_iff_eq _ fz_eq_iff, fun _ _ => rfl⟩

theorem fixedZone_hash_congr (strHash : Int → Int) (a b : FixedZone) (h : FixedZone.eq a b = true) :
    FixedZone.hash strHash a = FixedZone.hash strHash b := by
  rw [(fz_eq_iff a b).1 h]

/-! ## the hypotheses are satisfiable on non-trivial values -/

example : LdValid (LocalDate.ofFields 5 5782 13 1) ∧ LdValid (LocalDate.ofFields 5 5780 6 29) ∧
    LdValid (LocalDate.ofFields 0 (-5) 2 29) := by
  refine ⟨?_, ?_, ?_⟩ <;> intro _ <;> unfold HebMonthOK <;> decide

example : ¬ LdValid (LocalDate.ofFields 5 5780 13 1) := by
  intro h
  have h' := h (by decide)
  unfold HebMonthOK at h'
  revert h'; decide

example : DurNorm ⟨-3, 5⟩ ∧ FieldsOK 13 30 ∧ OrdOK 18 := by
  unfold DurNorm FieldsOK OrdOK; decide

end Pyoda.C12
