/-
  GenAgreeC14V — agreement between the slices of `TzdbDateTimeZoneSource.validate()` GENERATED from the Python source
  (`PyodaGen/C14V.lean`) and the validation model (`PyodaModel/Codec/Validate.lean`).  `validate()` is a sequence of
  independent checks, each raising `InvalidPyodaDataError`; the model's groups 1–2, 3, 5 and 6 are runs of its top-level
  statements, translated one procedure per run (loops over lists, nested for group 3 with the `mapped_tzdb_ids` set).
  Each theorem: the procedure returns normally iff the model's Boolean holds, and raises `InvalidPyodaDataError` otherwise.
  Group 4 (the per-Windows-id lookup) is outside the translated subset.
-/
import PyodaGen.C14V
import PyodaModel.Codec.Validate
import PyodaProofs.Basic

namespace Pyoda.GenAgree.C14V
open Pyoda Pyoda.Codec Pyoda.Gen.Codec

/-- a check: normal return or `InvalidPyodaDataError` -/
def chk (b : Bool) : R Unit := if b then .ok () else .error .invalidData

theorem ok_bind {α β} (a : α) (f : α → R β) : ((.ok a : R α) >>= f) = f a := rfl

/-! ## groups 1 and 2 -/

theorem gen_Validate_canonAndPrimary_loop1_eq (idMap : List (Str × Str)) (wm : WindowsZones) : ∀ l : List (Str × Str),
    Gen.C14V.Validate.canonAndPrimary.loop1 idMap wm l () = chk (l.all (fun e => decide (dictGet? idMap e.2 = some e.2))) := by
  intro l
  induction l with
  | nil => rfl
  | cons e r ih =>
    obtain ⟨key, value⟩ := e
    unfold Gen.C14V.Validate.canonAndPrimary.loop1
    simp only [strDictGet, List.all_cons]
    cases h : dictGet? idMap value with
    | none => simp [chk]
    | some canonical =>
      by_cases hv : value = canonical
      · subst hv
        simp only [ne_eq, not_true_eq_false, if_false, decide_true, Bool.true_and]
        exact ih
      · have : ¬ (some canonical = some value) := by intro hh; injection hh with hh; exact hv hh.symm
        simp [hv, this, chk]

theorem gen_Validate_canonAndPrimary_loop2_eq (idMap : List (Str × Str)) (wm : WindowsZones) : ∀ l : List MapZone,
    Gen.C14V.Validate.canonAndPrimary.loop2 idMap wm l () = chk (l.all (fun z => known (primaryMapping wm.mapZones) z.windowsId)) := by
  intro l
  induction l with
  | nil => rfl
  | cons z r ih =>
    unfold Gen.C14V.Validate.canonAndPrimary.loop2
    simp only [strDictContains, primaryMappingOf, sourceWindows, List.all_cons, known]
    by_cases h : (dictGet? (primaryMapping wm.mapZones) z.windowsId).isSome = true
    · simp only [h, Bool.not_true, Bool.false_eq_true, if_false, Bool.true_and]
      exact ih
    · have h' : (dictGet? (primaryMapping wm.mapZones) z.windowsId).isSome = false := by simpa using h
      simp [h', chk]

theorem gen_Validate_canonAndPrimary_eq (idMap : List (Str × Str)) (wm : WindowsZones) :
    Gen.C14V.Validate.canonAndPrimary idMap wm = chk (canonClosed idMap && hasPrimary wm.mapZones) := by
  unfold Gen.C14V.Validate.canonAndPrimary canonClosed hasPrimary
  simp only [id, gen_Validate_canonAndPrimary_loop1_eq, gen_Validate_canonAndPrimary_loop2_eq]
  cases h1 : idMap.all (fun e => decide (dictGet? idMap e.2 = some e.2)) with
  | false => rfl
  | true =>
    cases h2 : wm.mapZones.all (fun z => known (primaryMapping wm.mapZones) z.windowsId) <;> rfl

/-! ## groups 5 and 6 -/

theorem gen_Validate_locations_loop1_eq (idMap : List (Str × Str)) (locs : List LocView) : ∀ l : List LocView,
    Gen.C14V.Validate.locations.loop1 idMap locs l () = chk ((l.map (·.zoneId)).all (known idMap)) := by
  intro l
  induction l with
  | nil => rfl
  | cons z r ih =>
    unfold Gen.C14V.Validate.locations.loop1
    simp only [strDictContains, List.map_cons, List.all_cons, known]
    by_cases h : (dictGet? idMap z.zoneId).isSome = true
    · simp only [h, Bool.not_true, Bool.false_eq_true, if_false, Bool.true_and]
      exact ih
    · have h' : (dictGet? idMap z.zoneId).isSome = false := by simpa using h
      simp [h', chk]

theorem gen_Validate_locations_eq (idMap : List (Str × Str)) (locs : List LocView) :
    Gen.C14V.Validate.locations idMap locs = chk (locsOK idMap (some (locs.map (·.zoneId)))) := by
  unfold Gen.C14V.Validate.locations locsOK
  cases locs with
  | nil => simp [chk]
  | cons z r =>
    simp only [ne_eq, reduceCtorEq, not_false_eq_true, if_true, gen_Validate_locations_loop1_eq]
    cases h : ((z :: r).map (·.zoneId)).all (known idMap) <;> rfl

theorem gen_Validate_locationsNone_eq (idMap : List (Str × Str)) :
    (.ok (Gen.C14V.Validate.locationsNone idMap) : R Unit) = chk (locsOK idMap none) := rfl

/-- every 1970 location has a country (the constructor of `TzdbZone1970Location` refuses an empty collection); without it
    the message of the error would itself raise `IndexError` (`countries[0]`) -/
def HasCountry (l : Loc70View) : Prop := l.countries ≠ []

theorem gen_Validate_locations1970_loop1_eq (idMap : List (Str × Str)) (locs : List Loc70View) : ∀ l : List Loc70View, (∀ x ∈ l, HasCountry x) →
    Gen.C14V.Validate.locations1970.loop1 idMap locs l () = chk ((l.map (·.zoneId)).all (known idMap)) := by
  intro l
  induction l with
  | nil => intro _; rfl
  | cons z r ih =>
    intro hc
    unfold Gen.C14V.Validate.locations1970.loop1
    simp only [strDictContains, List.map_cons, List.all_cons, known]
    by_cases h : (dictGet? idMap z.zoneId).isSome = true
    · simp only [h, Bool.not_true, Bool.false_eq_true, if_false, Bool.true_and]
      exact ih (fun x hx => hc x (List.mem_cons_of_mem _ hx))
    · have h' : (dictGet? idMap z.zoneId).isSome = false := by simpa using h
      have hz : z.countries ≠ [] := hc z List.mem_cons_self
      cases hcs : z.countries with
      | nil => exact absurd hcs hz
      | cons c cs => simp [h', chk, pyListGet, bind, Except.bind]

theorem gen_Validate_locations1970_eq (idMap : List (Str × Str)) (locs : List Loc70View) (hc : ∀ x ∈ locs, HasCountry x) :
    Gen.C14V.Validate.locations1970 idMap locs = chk (locsOK idMap (some (locs.map (·.zoneId)))) := by
  unfold Gen.C14V.Validate.locations1970 locsOK
  cases locs with
  | nil => simp [chk]
  | cons z r =>
    simp only [ne_eq, reduceCtorEq, not_false_eq_true, if_true, gen_Validate_locations1970_loop1_eq idMap (z :: r) (z :: r) hc]
    cases h : ((z :: r).map (·.zoneId)).all (known idMap) <;> rfl

theorem gen_Validate_locations1970None_eq (idMap : List (Str × Str)) :
    (.ok (Gen.C14V.Validate.locations1970None idMap) : R Unit) = chk (locsOK idMap none) := rfl

/-! ## group 3: every tzdb id is known; no id twice outside the primary entries (the `mapped_tzdb_ids` set) -/

/-- the inner loop over the ids of one map zone, as a function of the set so far (`none` = it raised) -/
def innerSpec (idMap : List (Str × Str)) (z : MapZone) : List Str → List Str → Option (List Str)
  | [], seen => some seen
  | id :: rest, seen =>
    if known idMap id = true then
      (if z.isPrimary = true then innerSpec idMap z rest seen
       else if id ∈ seen then none else innerSpec idMap z rest (seen ++ [id]))
    else none

def outerSpec (idMap : List (Str × Str)) : List MapZone → List Str → Option (List Str)
  | [], seen => some seen
  | z :: zs, seen =>
    match innerSpec idMap z z.tzdbIds seen with
    | some s => outerSpec idMap zs s
    | none => none

theorem primary_iff (z : MapZone) : z.isPrimary = true ↔ z.territory = PRIMARY_TERRITORY := by
  unfold MapZone.isPrimary; simp

theorem gen_Validate_tzdbIds_loop2_eq (idMap : List (Str × Str)) (wm : WindowsZones) (z : MapZone) : ∀ (l seen : List Str),
    Gen.C14V.Validate.tzdbIds.loop2 idMap wm z l seen =
      (match innerSpec idMap z l seen with | some s => .ok s | none => .error .invalidData) := by
  intro l
  induction l with
  | nil => intro seen; rfl
  | cons id r ih =>
    intro seen
    unfold Gen.C14V.Validate.tzdbIds.loop2 innerSpec
    simp only [strDictContains, known, strSetContains, strSetAdd]
    by_cases hk : (dictGet? idMap id).isSome = true
    · simp only [hk, Bool.not_true, Bool.false_eq_true, if_false, if_true]
      by_cases hp : z.isPrimary = true
      · have ht : ¬ z.territory ≠ PRIMARY_TERRITORY := by simpa using (primary_iff z).1 hp
        simp only [ht, if_false, hp, if_true]
        exact ih seen
      · have ht : z.territory ≠ PRIMARY_TERRITORY := fun h => hp ((primary_iff z).2 h)
        simp only [ht, ne_eq, not_false_eq_true, if_true, hp, if_false]
        by_cases hm : id ∈ seen
        · simp [hm]
        · simp only [hm, decide_false, Bool.false_eq_true, if_false]
          exact ih (seen ++ [id])
    · have hk' : (dictGet? idMap id).isSome = false := by simpa using hk
      simp [hk']

theorem gen_Validate_tzdbIds_loop1_eq (idMap : List (Str × Str)) (wm : WindowsZones) : ∀ (zs : List MapZone) (seen : List Str),
    Gen.C14V.Validate.tzdbIds.loop1 idMap wm zs seen =
      (match outerSpec idMap zs seen with | some s => .ok s | none => .error .invalidData) := by
  intro zs
  induction zs with
  | nil => intro seen; rfl
  | cons z r ih =>
    intro seen
    unfold Gen.C14V.Validate.tzdbIds.loop1 outerSpec
    rw [gen_Validate_tzdbIds_loop2_eq]
    cases h : innerSpec idMap z z.tzdbIds seen with
    | none => rfl
    | some s => simp only [ok_bind]; exact ih s

theorem nodupB_iff (l : List Str) : nodupB l = true ↔ l.Nodup := by
  induction l with
  | nil => simp [nodupB]
  | cons x xs ih => simp [nodupB, ih]

theorem ite_iff_congr {α} {b c : Prop} [Decidable b] [Decidable c] {x u y v : α} (h : b ↔ c) (hx : x = u) (hy : y = v) :
    ite b x y = ite c u v := by
  subst hx hy
  by_cases hb : b
  · rw [if_pos hb, if_pos (h.1 hb)]
  · rw [if_neg hb, if_neg (fun hc => hb (h.2 hc))]

/-- the inner loop in closed form -/
theorem inner_closed (idMap : List (Str × Str)) (z : MapZone) : ∀ (l seen : List Str),
    innerSpec idMap z l seen =
      (if (∀ id ∈ l, known idMap id = true) ∧ (z.isPrimary = true ∨ (l.Nodup ∧ ∀ x ∈ l, x ∉ seen))
       then some (if z.isPrimary = true then seen else seen ++ l) else none) := by
  intro l
  induction l with
  | nil => intro seen; by_cases hp : z.isPrimary = true <;> simp [innerSpec, hp]
  | cons id r ih =>
    intro seen
    unfold innerSpec
    by_cases hk : known idMap id = true
    · rw [if_pos hk]
      by_cases hp : z.isPrimary = true
      · rw [if_pos hp, ih seen]
        refine ite_iff_congr ?_ (by rw [if_pos hp, if_pos hp]) rfl
        simp only [hp, true_or, and_true, List.mem_cons, forall_eq_or_imp, hk, true_and]
      · rw [if_neg hp]
        by_cases hm : id ∈ seen
        · rw [if_pos hm, if_neg]
          intro hh
          rcases hh.2 with h | h
          · exact hp h
          · exact h.2 id List.mem_cons_self hm
        · rw [if_neg hm, ih (seen ++ [id])]
          refine ite_iff_congr ?_ (by rw [if_neg hp, if_neg hp]; simp) rfl
          have hp' : z.isPrimary = false := by simpa using hp
          simp only [hp', Bool.false_eq_true, false_or, List.mem_cons, forall_eq_or_imp, hk, true_and, List.nodup_cons, List.mem_append,
            List.mem_singleton, not_or, hm, not_false_eq_true, List.not_mem_nil, or_false, and_true]
          constructor
          · rintro ⟨h1, h2, h3⟩
            exact ⟨h1, ⟨fun hh => (h3 id hh).2 rfl, h2⟩, fun x hx => (h3 x hx).1⟩
          · rintro ⟨h1, ⟨h2, h3⟩, h4⟩
            exact ⟨h1, h3, fun x hx => ⟨h4 x hx, fun he => h2 (he ▸ hx)⟩⟩
    · rw [if_neg hk, if_neg]
      intro hh
      exact hk (hh.1 id List.mem_cons_self)

/-- the outer loop in closed form -/
theorem outer_closed (idMap : List (Str × Str)) : ∀ (zs : List MapZone) (seen : List Str),
    (outerSpec idMap zs seen).isSome =
      decide ((∀ z ∈ zs, ∀ id ∈ z.tzdbIds, known idMap id = true) ∧ (nonPrimaryIds zs).Nodup ∧ ∀ x ∈ nonPrimaryIds zs, x ∉ seen) := by
  intro zs
  induction zs with
  | nil => intro seen; simp [outerSpec, nonPrimaryIds]
  | cons z r ih =>
    intro seen
    unfold outerSpec
    rw [inner_closed]
    by_cases hp : z.isPrimary = true
    · have hn : nonPrimaryIds (z :: r) = nonPrimaryIds r := by simp [nonPrimaryIds, hp]
      rw [hn]
      by_cases hall : ∀ id ∈ z.tzdbIds, known idMap id = true
      · rw [if_pos ⟨hall, Or.inl hp⟩, if_pos hp]
        show (outerSpec idMap r seen).isSome = _
        rw [ih seen]
        congr 1
        apply propext
        constructor
        · rintro ⟨h1, h2⟩
          exact ⟨fun y hy => (List.mem_cons.1 hy).elim (fun h => h ▸ hall) (fun h => h1 y h), h2⟩
        · rintro ⟨h1, h2⟩
          exact ⟨fun y hy => h1 y (List.mem_cons_of_mem _ hy), h2⟩
      · rw [if_neg (fun hh => hall hh.1)]
        show false = decide _
        symm
        rw [decide_eq_false_iff_not]
        intro hh
        exact hall (hh.1 z List.mem_cons_self)
    · have hp' : z.isPrimary = false := by simpa using hp
      have hn : nonPrimaryIds (z :: r) = z.tzdbIds ++ nonPrimaryIds r := by simp [nonPrimaryIds, hp']
      rw [hn]
      by_cases hc : (∀ id ∈ z.tzdbIds, known idMap id = true) ∧ z.tzdbIds.Nodup ∧ ∀ x ∈ z.tzdbIds, x ∉ seen
      · rw [if_pos ⟨hc.1, Or.inr hc.2⟩, if_neg hp]
        show (outerSpec idMap r (seen ++ z.tzdbIds)).isSome = _
        rw [ih (seen ++ z.tzdbIds)]
        congr 1
        apply propext
        simp only [List.nodup_append, List.mem_append, not_or]
        constructor
        · rintro ⟨h1, h2, h3⟩
          refine ⟨fun y hy => (List.mem_cons.1 hy).elim (fun h => h ▸ hc.1) (fun h => h1 y h), ⟨hc.2.1, h2, ?_⟩, ?_⟩
          · intro a ha b hb hab; subst hab; exact (h3 a hb).2 ha
          · intro x hx
            rcases hx with hx | hx
            · exact hc.2.2 x hx
            · exact (h3 x hx).1
        · rintro ⟨h1, ⟨_, h2, h3⟩, h4⟩
          exact ⟨fun y hy => h1 y (List.mem_cons_of_mem _ hy), h2, fun x hx => ⟨h4 x (Or.inr hx), fun hh => h3 x hh x hx rfl⟩⟩
      · rw [if_neg (fun hh => hc ⟨hh.1, hh.2.elim (fun h => absurd h hp) (fun h => h)⟩)]
        show false = decide _
        symm
        rw [decide_eq_false_iff_not]
        intro hh
        apply hc
        refine ⟨hh.1 z List.mem_cons_self, (List.nodup_append.1 hh.2.1).1, fun x hx => hh.2.2 x (List.mem_append_left _ hx)⟩

theorem gen_Validate_tzdbIds_eq (idMap : List (Str × Str)) (wm : WindowsZones) :
    Gen.C14V.Validate.tzdbIds idMap wm = chk (idsOK idMap wm.mapZones) := by
  unfold Gen.C14V.Validate.tzdbIds
  dsimp only
  rw [gen_Validate_tzdbIds_loop1_eq]
  have hb : idsOK idMap wm.mapZones = (outerSpec idMap wm.mapZones []).isSome := by
    rw [outer_closed, Bool.eq_iff_iff]
    unfold idsOK
    simp only [Bool.and_eq_true, List.all_eq_true, nodupB_iff, List.not_mem_nil, not_false_eq_true, implies_true, and_true,
      decide_eq_true_eq]
  rw [hb]
  cases outerSpec idMap wm.mapZones [] <;> rfl

end Pyoda.GenAgree.C14V
