/- C14: canonical zone bytes. A strict (canonical) decode is a decode, and re-encoding reproduces the bytes. -/
import PyodaModel.Codec.Canonical
import PyodaProofs.C14Pool

namespace Pyoda.C14
open Pyoda Pyoda.Codec

theorem bind_ok {α β} (x : R α) (f : α → R β) (b : β) (h : (x >>= f) = .ok b) : ∃ a, x = .ok a ∧ f a = .ok b := by
  cases x with
  | error e => cases h
  | ok a => exact ⟨a, rfl, h⟩

theorem strictBy_ok {α} (read : Bytes → R (α × Bytes)) (write : α → R Bytes) (bs : Bytes) (v : α) (r : Bytes)
    (h : strictBy read write bs = .ok (v, r)) : read bs = .ok (v, r) ∧ ∃ c, write v = .ok c ∧ bs = c ++ r := by
  unfold strictBy at h
  obtain ⟨⟨v', r'⟩, h1, h⟩ := bind_ok _ _ _ h
  simp only at h
  cases hw : write v' with
  | error e => rw [hw] at h; cases h
  | ok c =>
    rw [hw] at h
    simp only at h
    split at h
    · rename_i heq
      cases h
      exact ⟨h1, c, hw, heq⟩
    · cases h

theorem readStringS_ok (pool : Pool) (bs : Bytes) (s : Str) (r : Bytes) (h : readStringS pool bs = .ok (s, r)) :
    readString pool bs = .ok (s, r) ∧ ∃ c, writeString pool s = .ok (c, pool) ∧ bs = c ++ r := by
  unfold readStringS at h
  obtain ⟨⟨s', r'⟩, h1, h⟩ := bind_ok _ _ _ h
  simp only at h
  cases hw : writeString pool s' with
  | error e => rw [hw] at h; cases h
  | ok p =>
    obtain ⟨c, pool'⟩ := p
    rw [hw] at h
    simp only at h
    split at h
    · rename_i heq
      cases h
      obtain ⟨hp, hb⟩ := heq
      subst hp
      exact ⟨h1, c, hw, hb⟩
    · cases h

theorem yearOffsetCtor_ok (mode : TransitionMode) (month dom dow : Int) (adv : Bool) (tod : Int) (addDay : Bool)
    (y : ZoneYearOffset) (h : yearOffsetCtor mode month dom dow adv tod addDay = .ok y) :
    y = ⟨mode, month, dom, dow, adv, tod, addDay⟩ := by
  unfold yearOffsetCtor at h
  simp only [bind, Except.bind, pure, Except.pure] at h
  repeat' split at h
  all_goals (first | (cases h; rfl) | cases h)

theorem ofNat?_toNat (n : Nat) (m : TransitionMode) (h : TransitionMode.ofNat? n = some m) : m.toNat = n := by
  unfold TransitionMode.ofNat? at h
  split at h <;> cases h <;> rfl

theorem localTimeFromMillis_ok (ms tod : Int) (h : localTimeFromMillis ms = .ok tod) :
    0 ≤ ms ∧ ms ≤ MsPD - 1 ∧ tod = ms * NPMs := by
  unfold localTimeFromMillis at h
  rw [checkRange_bind] at h
  obtain ⟨hr, h⟩ := h
  cases h
  exact ⟨hr.1, hr.2, rfl⟩

theorem readYearOffsetS_ok (bs : Bytes) (y : ZoneYearOffset) (r : Bytes) (h : readYearOffsetS bs = .ok (y, r)) :
    readYearOffset bs = .ok (y, r) ∧ ∃ c, writeYearOffset y = .ok c ∧ bs = c ++ r := by
  unfold readYearOffsetS at h
  obtain ⟨⟨flags, r0⟩, hb, h⟩ := bind_ok _ _ _ h
  simp only at h
  cases hm : TransitionMode.ofNat? (flags / 32) with
  | none => rw [hm] at h; cases h
  | some mode =>
    rw [hm] at h
    simp only at h
    obtain ⟨⟨month, r1⟩, h1, h⟩ := bind_ok _ _ _ h
    obtain ⟨⟨dom, r2⟩, h2, h⟩ := bind_ok _ _ _ h
    obtain ⟨⟨ms, r3⟩, h3, h⟩ := bind_ok _ _ _ h
    obtain ⟨tod, h4, h⟩ := bind_ok _ _ _ h
    obtain ⟨y', h5, h⟩ := bind_ok _ _ _ h
    try simp only at h1 h2 h3 h4 h5 h
    cases h
    obtain ⟨p1, c1, w1, e1⟩ := strictBy_ok _ _ _ _ _ h1
    obtain ⟨p2, c2, w2, e2⟩ := strictBy_ok _ _ _ _ _ h2
    obtain ⟨p3, c3, w3, e3⟩ := strictBy_ok _ _ _ _ _ h3
    obtain ⟨hms0, hms1, htod⟩ := localTimeFromMillis_ok _ _ h4
    have hy := yearOffsetCtor_ok _ _ _ _ _ _ _ _ h5
    have hbs : bs = flags :: r0 := by
      cases bs with
      | nil => cases hb
      | cons b t => simp only [readByte] at hb; cases hb; rfl
    constructor
    · unfold readYearOffset
      simp only [hb, bind, Except.bind, hm, p1, p2, p3, h4, h5]
    · -- the writer
      have hmode : mode.toNat = flags / 32 := ofNat?_toNat _ _ hm
      have hfl : flags / 32 ≤ 2 := by rw [← hmode]; cases mode <;> simp [TransitionMode.toNat]
      subst hy
      refine ⟨flags :: (c1 ++ c2 ++ c3), ?_, ?_⟩
      · unfold writeYearOffset
        simp only
        have ea : (if (flags / 2 % 2 == 1) = true then (2 : Int) else 0) = 2 * ((flags / 2 % 2 : Nat) : Int) := by
          have : flags / 2 % 2 = 0 ∨ flags / 2 % 2 = 1 := by omega
          rcases this with h | h <;> simp [h]
        have eb : (if (flags % 2 == 1) = true then (1 : Int) else 0) = ((flags % 2 : Nat) : Int) := by
          have : flags % 2 = 0 ∨ flags % 2 = 1 := by omega
          rcases this with h | h <;> simp [h]
        have ef : ((mode.toNat : Nat) : Int) * 32 + ((flags / 4 % 8 : Nat) : Int) * 4 +
            (if (flags / 2 % 2 == 1) = true then (2 : Int) else 0) + (if (flags % 2 == 1) = true then (1 : Int) else 0) = (flags : Int) := by
          rw [ea, eb, hmode]; omega
        rw [ef, writeByte_ok _ (by omega), w1, w2]
        have e1' : pyTdiv tod NPT = .ok (tod / 100) := pyTdiv_nonneg tod NPT (by rw [htod]; unfold NPMs; omega)
          (by rw [htod]; unfold NPMs decBound; unfold MsPD at hms1; omega) (by decide) (by decide)
        have e2' : pyTdiv (tod / 100) 10000 = .ok ms := by
          rw [pyTdiv_nonneg (tod / 100) 10000 (by rw [htod]; unfold NPMs; omega)
            (by rw [htod]; unfold NPMs decBound; unfold MsPD at hms1; omega) (by decide) (by decide)]
          congr 1; rw [htod]; unfold NPMs; omega
        simp only [bind, Except.bind, e1', e2', w3, Int.toNat_natCast]
        simp only [List.cons_append, List.nil_append, List.append_assoc]
      · rw [hbs, e1, e2, e3]
        simp only [List.cons_append, List.append_assoc]

theorem readAlternatingMapS_ok (pool : Pool) (bs : Bytes) (m : AlternatingMap) (r : Bytes)
    (h : readAlternatingMapS pool bs = .ok (m, r)) :
    readAlternatingMap pool bs = .ok (m, r) ∧ ∃ c, writeAlternatingMap pool m = .ok (c, pool) ∧ bs = c ++ r := by
  unfold readAlternatingMapS at h
  obtain ⟨⟨so, r1⟩, h1, h⟩ := bind_ok _ _ _ h
  obtain ⟨⟨sn, r2⟩, h2, h⟩ := bind_ok _ _ _ h
  obtain ⟨⟨sy, r3⟩, h3, h⟩ := bind_ok _ _ _ h
  obtain ⟨⟨dn, r4⟩, h4, h⟩ := bind_ok _ _ _ h
  obtain ⟨⟨dy, r5⟩, h5, h⟩ := bind_ok _ _ _ h
  obtain ⟨⟨sv, r6⟩, h6, h⟩ := bind_ok _ _ _ h
  obtain ⟨m', h7, h⟩ := bind_ok _ _ _ h
  try simp only at h1 h2 h3 h4 h5 h6 h7 h
  cases h
  obtain ⟨p1, c1, w1, e1⟩ := strictBy_ok _ _ _ _ _ h1
  obtain ⟨p2, c2, w2, e2⟩ := readStringS_ok _ _ _ _ h2
  obtain ⟨p3, c3, w3, e3⟩ := readYearOffsetS_ok _ _ _ h3
  obtain ⟨p4, c4, w4, e4⟩ := readStringS_ok _ _ _ _ h4
  obtain ⟨p5, c5, w5, e5⟩ := readYearOffsetS_ok _ _ _ h5
  obtain ⟨p6, c6, w6, e6⟩ := strictBy_ok _ _ _ _ _ h6
  have hm : m = ⟨so, ⟨sn, ⟨0⟩, sy, INT_MIN, INT_MAX⟩, ⟨dn, sv, dy, INT_MIN, INT_MAX⟩⟩ := by
    have : alternatingMapCtor so ⟨sn, ⟨0⟩, sy, INT_MIN, INT_MAX⟩ ⟨dn, sv, dy, INT_MIN, INT_MAX⟩ =
        .ok ⟨so, ⟨sn, ⟨0⟩, sy, INT_MIN, INT_MAX⟩, ⟨dn, sv, dy, INT_MIN, INT_MAX⟩⟩ := rfl
    rw [this] at h7
    cases h7; rfl
  constructor
  · unfold readAlternatingMap
    simp only [p1, p2, p3, p4, p5, p6, h7, bind, Except.bind]
  · subst hm
    refine ⟨c1 ++ c2 ++ c3 ++ c4 ++ c5 ++ c6, ?_, ?_⟩
    · unfold writeAlternatingMap
      simp only [w1, w2, w3, w4, w5, w6, bind, Except.bind]
    · rw [e1, e2, e3, e4, e5, e6]
      simp only [List.append_assoc]

theorem zoneIntervalCtor_ok (name : Str) (st en : Instant) (wall sav : Offset) (p : ZoneInterval)
    (h : zoneIntervalCtor name st en wall sav = .ok p) : p = ⟨name, st, en, wall, sav⟩ := by
  unfold zoneIntervalCtor at h
  split at h
  · cases h
  · cases h; rfl

theorem lastEnd_cons (p q : ZoneInterval) (r : List ZoneInterval) : lastEnd (p :: q :: r) = lastEnd (q :: r) := rfl

theorem readPeriodsS_ok (pool : Pool) : ∀ (n : Nat) (start : Instant) (bs : Bytes) (ps : List ZoneInterval) (r : Bytes)
    (prev : Option Instant) (b0 : Bytes), readPeriodsS pool n start bs = .ok (ps, r) → 1 ≤ n →
    writeTransition prev start = .ok b0 →
    readPeriods pool n start bs = .ok (ps, r) ∧ ps.length = n ∧
    ∃ wb tb c, writePeriods pool prev ps = .ok (wb, pool) ∧
      writeTransition (lastStart prev ps) (lastEnd ps) = .ok tb ∧ bs = c ++ r ∧ wb ++ tb = b0 ++ c := by
  intro n
  induction n with
  | zero => intro _ _ _ _ _ _ _ hn; omega
  | succ n ih =>
    intro start bs ps r prev b0 h _ hb0
    simp only [readPeriodsS] at h
    obtain ⟨⟨name, r1⟩, h1, h⟩ := bind_ok _ _ _ h
    obtain ⟨⟨wall, r2⟩, h2, h⟩ := bind_ok _ _ _ h
    obtain ⟨⟨sav, r3⟩, h3, h⟩ := bind_ok _ _ _ h
    obtain ⟨⟨next, r4⟩, h4, h⟩ := bind_ok _ _ _ h
    obtain ⟨p, h5, h⟩ := bind_ok _ _ _ h
    obtain ⟨⟨ps', r5⟩, h6, h⟩ := bind_ok _ _ _ h
    try simp only at h1 h2 h3 h4 h5 h6 h
    cases h
    obtain ⟨p1, c1, w1, e1⟩ := readStringS_ok _ _ _ _ h1
    obtain ⟨p2, c2, w2, e2⟩ := strictBy_ok _ _ _ _ _ h2
    obtain ⟨p3, c3, w3, e3⟩ := strictBy_ok _ _ _ _ _ h3
    obtain ⟨p4, c4, w4, e4⟩ := strictBy_ok _ _ _ _ _ h4
    have hp := zoneIntervalCtor_ok _ _ _ _ _ _ h5
    cases n with
    | zero =>
      simp only [readPeriodsS] at h6
      cases h6
      refine ⟨?_, rfl, ?_⟩
      · rw [readPeriods_succ]
        simp only [p1, p2, p3, p4, h5, bind, Except.bind, readPeriods]
      · subst hp
        refine ⟨b0 ++ c1 ++ c2 ++ c3, c4, c1 ++ c2 ++ c3 ++ c4, ?_, w4, ?_, ?_⟩
        · rw [writePeriods_cons]
          simp only [writePeriods, hb0, w1, w2, w3, bind, Except.bind, List.append_nil]
        · rw [e1, e2, e3, e4]; simp only [List.append_assoc]
        · simp only [List.append_assoc]
    | succ n =>
      obtain ⟨q1, hlen, wb', tb', c', hw', ht', ec', he'⟩ := ih next r4 ps' r (some start) c4 h6 (by omega) w4
      refine ⟨?_, by simp [hlen], ?_⟩
      · rw [readPeriods_succ]
        simp only [p1, p2, p3, p4, h5, q1, bind, Except.bind]
      · subst hp
        cases ps' with
        | nil => simp at hlen
        | cons q rs =>
          refine ⟨b0 ++ c1 ++ c2 ++ c3 ++ wb', tb', c1 ++ c2 ++ c3 ++ c4 ++ c', ?_, ?_, ?_, ?_⟩
          · rw [writePeriods_cons]
            simp only [hb0, w1, w2, w3, hw', bind, Except.bind]
          · exact ht'
          · rw [e1, e2, e3, e4, ec']; simp only [List.append_assoc]
          · simp only [List.append_assoc]
            rw [he']

/-- a strict (canonical) decode is a decode, and writing the zone back reproduces exactly the bytes consumed -/
theorem readPrecalculatedDataS_ok (pool : Pool) (id : Str) (bs : Bytes) (z : PrecalculatedZone) (r : Bytes)
    (h : readPrecalculatedDataS pool id bs = .ok (z, r)) :
    readPrecalculatedData pool id bs = .ok (z, r) ∧ ∃ c, writePrecalculated pool z = .ok (c, pool) ∧ bs = c ++ r := by
  unfold readPrecalculatedDataS at h
  obtain ⟨⟨size, r0⟩, h0, h⟩ := bind_ok _ _ _ h
  try simp only at h0 h
  split at h
  · cases h
  · rename_i hsz
    obtain ⟨⟨start, r1⟩, h1, h⟩ := bind_ok _ _ _ h
    obtain ⟨⟨periods, r2⟩, h2, h⟩ := bind_ok _ _ _ h
    obtain ⟨⟨flag, r3⟩, h3, h⟩ := bind_ok _ _ _ h
    try simp only at h1 h2 h3 h
    obtain ⟨p0, c0, w0, e0⟩ := strictBy_ok _ _ _ _ _ h0
    obtain ⟨p1, c1, w1, e1⟩ := strictBy_ok _ _ _ _ _ h1
    obtain ⟨hs0, hs1, hc0⟩ := writeCount_eq_ok _ _ w0
    obtain ⟨q2, hlen, wb, tb, c2, hw, ht, e2, he⟩ := readPeriodsS_ok pool size.toNat start r1 periods r2 none c1 h2 (by omega) w1
    have hr3 : r2 = flag :: r3 := by
      cases r2 with
      | nil => cases h3
      | cons b t => simp only [readByte] at h3; cases h3; rfl
    have hcount : writeCount (periods.length : Int) = .ok c0 := by
      have : (periods.length : Int) = size := by rw [hlen]; omega
      rw [this]; exact w0
    cases periods with
    | nil => simp at hlen; omega
    | cons p ps =>
    split at h
    · rename_i hf1
      obtain ⟨⟨m, r4⟩, h4, h⟩ := bind_ok _ _ _ h
      try simp only at h4 h
      cases h
      obtain ⟨p4, c4, w4, e4⟩ := readAlternatingMapS_ok _ _ _ _ h4
      constructor
      · unfold readPrecalculatedData
        simp only [p0, p1, q2, h3, hf1, p4, bind, Except.bind, if_true]
      · refine ⟨c0 ++ wb ++ tb ++ [1] ++ c4, ?_, ?_⟩
        · unfold writePrecalculated
          simp only [hcount, hw, tailZoneStart_lastEnd, ht, w4, bind, Except.bind]
          rfl
        · rw [e0, e1, e2, hr3, e4, hf1]
          simp only [List.append_assoc, List.cons_append, List.nil_append]
          rw [← List.append_assoc wb tb, he]
          simp only [List.append_assoc]
    · split at h
      · rename_i hf1 hf0
        cases h
        constructor
        · unfold readPrecalculatedData
          simp only [p0, p1, q2, h3, hf1, bind, Except.bind, if_false]
        · refine ⟨c0 ++ wb ++ tb ++ [0], ?_, ?_⟩
          · unfold writePrecalculated
            simp only [hcount, hw, tailZoneStart_lastEnd, ht, bind, Except.bind]
            rfl
          · rw [e0, e1, e2, hr3, hf0]
            simp only [List.append_assoc, List.cons_append, List.nil_append]
            rw [← List.append_assoc wb tb, he]
            simp only [List.append_assoc]
      · cases h

/-- canonical zone bytes: the strict decoder accepts them to the last byte -/
def Canonical (pool : Pool) (id : Str) (bs : Bytes) : Prop := ∃ z, readPrecalculatedDataS pool id bs = .ok (z, [])

theorem write_read_canonical_aux (pool : Pool) (id : Str) (bs : Bytes) (z : PrecalculatedZone)
    (hc : Canonical pool id bs) (hr : readPrecalculatedData pool id bs = .ok (z, [])) :
    writePrecalculated pool z = .ok (bs, pool) := by
  obtain ⟨z', hs⟩ := hc
  obtain ⟨h1, c, h2, h3⟩ := readPrecalculatedDataS_ok pool id bs z' [] hs
  rw [hr] at h1
  cases h1
  rw [List.append_nil] at h3
  rw [h3]; exact h2

/-- the Boolean check used on the real files implies `Canonical` for the zone payload -/
theorem canonicalZoneField_sound (pool : Pool) (field : Bytes) (h : canonicalZoneField pool field = .ok (some true)) :
    ∃ id r, readString pool field = .ok (id, 2 :: r) ∧ Canonical pool id r := by
  unfold canonicalZoneField at h
  obtain ⟨⟨id, r0⟩, h1, h⟩ := bind_ok _ _ _ h
  obtain ⟨⟨ty, r1⟩, h2, h⟩ := bind_ok _ _ _ h
  simp only at h
  split at h
  · rename_i hty
    have hr0 : r0 = 2 :: r1 := by
      cases r0 with
      | nil => cases h2
      | cons b t => simp only [readByte] at h2; cases h2; rw [hty]
    cases hp : readPrecalculated pool id r1 with
    | error e => rw [hp] at h; cases h
    | ok pz =>
      rw [hp] at h
      simp only at h
      cases hs : readPrecalculatedDataS pool id r1 with
      | error e => rw [hs] at h; simp only at h; cases h
      | ok q =>
        obtain ⟨z, rest⟩ := q
        rw [hs] at h
        simp only at h
        have : rest = [] := by
          cases rest with
          | nil => rfl
          | cons _ _ => simp at h
        subst this
        exact ⟨id, r1, by rw [h1, hr0], z, hs⟩
  · cases h

end Pyoda.C14
