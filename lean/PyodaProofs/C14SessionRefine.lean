/-
  C14 sessions, part 1: the stateful reader refines the pure readers.

  `lift f` runs a pure reader `f : Bytes → R (α × Bytes)` on the abstract remaining bytes `abs = buffered ++ input`
  of a reader state and leaves the rest in the stream with the look-ahead buffer empty. `Ref fS f` says that the
  state machine `fS` (written in terms of `read_byte`, as the Python method is) IS `lift f`; `RefN` says so for
  states whose buffer is empty (what every call of `read_byte` leaves behind).
-/
import PyodaModel.Codec.Session
import PyodaProofs.Basic

namespace Pyoda.C14
open Pyoda Pyoda.Codec Pyoda.Codec.Session

def lift {α} (f : Bytes → R (α × Bytes)) : RM α := fun st =>
  match f st.abs with
  | .ok (v, r) => .ok (v, ⟨r, none, st.pool⟩)
  | .error e => .error e

def Ref {α} (pool : Pool) (fS : RM α) (f : Bytes → R (α × Bytes)) : Prop :=
  ∀ st, st.pool = pool → fS st = lift f st
def RefN {α} (pool : Pool) (fS : RM α) (f : Bytes → R (α × Bytes)) : Prop :=
  ∀ st, st.pool = pool → st.buffered = none → fS st = lift f st

theorem Ref.toN {α} {pool} {fS : RM α} {f} (h : Ref pool fS f) : RefN pool fS f := fun st hp _ => h st hp

theorem Ref.congr {α} {pool} {fS : RM α} {f f'} (h : Ref pool fS f') (e : ∀ bs, f' bs = f bs) : Ref pool fS f := by
  have : f' = f := funext e
  rw [← this]; exact h

theorem RefN.congr {α} {pool} {fS : RM α} {f f'} (h : RefN pool fS f') (e : ∀ bs, f' bs = f bs) : RefN pool fS f := by
  have : f' = f := funext e
  rw [← this]; exact h

theorem abs_none (st : RState) (h : st.buffered = none) : st.abs = st.input := by
  unfold RState.abs; rw [h]

theorem RefN.pure {α} (pool : Pool) (x : α) : RefN pool (pure x : RM α) (fun bs => .ok (x, bs)) := by
  intro st hp h
  obtain ⟨i, b, p⟩ := st
  simp only at h hp
  subst h hp
  rfl

theorem Ref.throw {α} (pool : Pool) (e : PyExc) : Ref pool (throw e : RM α) (fun _ => .error e) := by
  intro st _
  rfl

/-- a computation that does not touch the reader (a constructor called with values already read) -/
theorem RefN.liftR {α} (pool : Pool) (x : R α) : RefN pool (monadLift x : RM α) (fun bs => x >>= fun a => .ok (a, bs)) := by
  intro st hp h
  obtain ⟨i, b, p⟩ := st
  simp only at h hp
  subst h hp
  cases x <;> rfl

theorem lift_bind_aux {α β} (pool : Pool) (f : Bytes → R (α × Bytes)) (gS : α → RM β) (g : α → Bytes → R (β × Bytes))
    (hg : ∀ a, RefN pool (gS a) (g a)) (st : RState) (hp : st.pool = pool) :
    (lift f st >>= fun p => gS p.1 p.2) = lift (fun bs => f bs >>= fun p => g p.1 p.2) st := by
  simp only [lift]
  cases hfe : f st.abs with
  | error e => rfl
  | ok p =>
    obtain ⟨a, r⟩ := p
    have h := hg a ⟨r, none, st.pool⟩ hp rfl
    simp only [lift, RState.abs] at h
    simp only [bind, Except.bind, h]

/-- sequencing: a refining first step followed by steps that refine on empty-buffer states -/
theorem Ref.bind {α β} {pool} {fS : RM α} {f : Bytes → R (α × Bytes)} {gS : α → RM β} {g : α → Bytes → R (β × Bytes)}
    (hf : Ref pool fS f) (hg : ∀ a, RefN pool (gS a) (g a)) :
    Ref pool (fS >>= gS) (fun bs => f bs >>= fun p => g p.1 p.2) := by
  intro st hp
  have e1 : (fS >>= gS) st = (fS st >>= fun p => gS p.1 p.2) := rfl
  rw [e1, hf st hp]
  exact lift_bind_aux pool f gS g hg st hp

theorem RefN.bind {α β} {pool} {fS : RM α} {f : Bytes → R (α × Bytes)} {gS : α → RM β} {g : α → Bytes → R (β × Bytes)}
    (hf : RefN pool fS f) (hg : ∀ a, RefN pool (gS a) (g a)) :
    RefN pool (fS >>= gS) (fun bs => f bs >>= fun p => g p.1 p.2) := by
  intro st hp hst
  have e1 : (fS >>= gS) st = (fS st >>= fun p => gS p.1 p.2) := rfl
  rw [e1, hf st hp hst]
  exact lift_bind_aux pool f gS g hg st hp

/-- `read_byte` -/
theorem readByteM_refines (pool : Pool) : Ref pool readByteM readByte := by
  intro st _
  obtain ⟨i, b, p⟩ := st
  cases b with
  | some x => rfl
  | none => cases i <;> rfl

theorem readInt16M_refines (pool : Pool) : Ref pool readInt16M readInt16 :=
  Ref.bind (readByteM_refines pool) (fun h => RefN.bind (readByteM_refines pool).toN (fun l => RefN.pure pool (h * 256 + l)))

theorem readInt32M_refines (pool : Pool) : Ref pool readInt32M readInt32 :=
  Ref.bind (readInt16M_refines pool) (fun h => RefN.bind (readInt16M_refines pool).toN
    (fun l => RefN.pure pool (h % 65536 * 65536 + l % 65536)))

theorem readInt64M_refines (pool : Pool) : Ref pool readInt64M readInt64 :=
  Ref.bind (readInt32M_refines pool) (fun _ => RefN.bind (readInt32M_refines pool).toN (fun _ => RefN.pure pool _))

/-! ## varints, counts -/

theorem readByteM_cons (st : RState) (b : Nat) (r : Bytes) (h : st.abs = b :: r) :
    readByteM st = .ok (b, ⟨r, none, st.pool⟩) := by
  have := readByteM_refines st.pool st rfl
  rw [this]; simp only [lift, h, readByte]

theorem readByteM_nil (st : RState) (h : st.abs = []) : readByteM st = .error .invalidData := by
  have := readByteM_refines st.pool st rfl
  rw [this]; simp only [lift, h, readByte]

theorem readVarintLoopM_eq : ∀ (fuel acc shift : Nat) (st : RState), st.abs.length < fuel →
    readVarintLoopM fuel acc shift st = lift (fun bs => readVarintAux bs acc shift) st := by
  intro fuel
  induction fuel with
  | zero => intro _ _ st h; omega
  | succ fuel ih =>
    intro acc shift st hlen
    have e1 : readVarintLoopM (fuel + 1) acc shift st =
        (readByteM st >>= fun p => (if p.1 < 128 then (pure (acc + (p.1 % 128) * 2 ^ shift) : RM Nat)
          else readVarintLoopM fuel (acc + (p.1 % 128) * 2 ^ shift) (shift + 7)) p.2) := rfl
    rw [e1]
    cases hab : st.abs with
    | nil =>
      rw [readByteM_nil st hab]
      simp only [lift, hab, readVarintAux]
      rfl
    | cons b r =>
      rw [readByteM_cons st b r hab]
      simp only [bind, Except.bind]
      by_cases hb : b < 128
      · simp only [lift, hab, readVarintAux, hb, if_true]
        rfl
      · rw [hab] at hlen
        simp only [List.length_cons] at hlen
        have := ih (acc + (b % 128) * 2 ^ shift) (shift + 7) ⟨r, none, st.pool⟩ (by simp only [RState.abs]; omega)
        simp only [hb, if_false, this]
        simp only [lift, hab]
        rw [show (⟨r, none, st.pool⟩ : RState).abs = r from rfl]
        simp only [readVarintAux, hb, if_false]

theorem readVarintM_refines (pool : Pool) : Ref pool readVarintM readVarint := by
  intro st _
  exact readVarintLoopM_eq _ 0 0 st (Nat.lt_succ_self _)

theorem readCountM_refines (pool : Pool) : Ref pool readCountM readCount := by
  refine Ref.bind (readVarintM_refines pool)
    (g := fun (u : Nat) r => if (u : Int) > INT_MAX then .error .invalidData else .ok ((u : Int), r)) (fun u => ?_)
  by_cases h : (u : Int) > INT_MAX
  · simp only [h, if_true]; exact (Ref.throw pool _).toN
  · simp only [h, if_false]; exact RefN.pure pool _

theorem readSignedCountM_refines (pool : Pool) : Ref pool readSignedCountM readSignedCount :=
  Ref.bind (readVarintM_refines pool) (fun u => RefN.pure pool (unzigzag u))


/-! ## milliseconds, offsets, transitions -/

theorem readMillisecondsM_refines (pool : Pool) : Ref pool readMillisecondsM readMilliseconds := by
  refine Ref.bind (readByteM_refines pool)
    (g := fun (first : Nat) r =>
      if first < 128 then .ok ((first : Int) * MS30MIN - MsPD, r)
      else
        if first / 32 = 4 then do
          let (b, r) ← readByte r
          .ok (((first % 32 * 256 + b : Nat) : Int) * MSMIN - MsPD, r)
        else if first / 32 = 5 then do
          let (w, r) ← readInt16 r
          .ok (((first % 32 * 65536 + w % 65536 : Nat) : Int) * MSSEC - MsPD, r)
        else if first / 32 = 6 then do
          let (b, r) ← readByte r
          let (w, r) ← readInt16 r
          .ok (((first % 32 * 16777216 + b * 65536 + w % 65536 : Nat) : Int) - MsPD, r)
        else .error .invalidData) (fun first => ?_)
  by_cases h1 : first < 128
  · simp only [h1, if_true]; exact RefN.pure pool _
  · simp only [h1, if_false]
    by_cases h4 : first / 32 = 4
    · simp only [h4, if_true]
      exact RefN.bind (readByteM_refines pool).toN (fun b => RefN.pure pool _)
    · simp only [h4, if_false]
      by_cases h5 : first / 32 = 5
      · simp only [h5, if_true]
        exact RefN.bind (readInt16M_refines pool).toN (fun w => RefN.pure pool _)
      · simp only [h5, if_false]
        by_cases h6 : first / 32 = 6
        · simp only [h6, if_true]
          exact RefN.bind (readByteM_refines pool).toN (fun b => RefN.bind (readInt16M_refines pool).toN (fun w => RefN.pure pool _))
        · simp only [h6, if_false]
          exact (Ref.throw pool _).toN

/-- monad laws: `(x >>= pure-ish tail)` forms produced by the sequencing lemmas -/
theorem bind_ok_pair {α β} (x : R α) (k : α → R β) (r : Bytes) :
    ((x >>= fun a => (Except.ok (a, r) : R (α × Bytes))) >>= fun p => (k p.1 >>= fun b => (Except.ok (b, p.2) : R (β × Bytes)))) =
    (x >>= fun a => k a >>= fun b => Except.ok (b, r)) := by
  cases x <;> rfl

theorem readOffsetM_refines (pool : Pool) : Ref pool readOffsetM readOffset :=
  Ref.bind (readMillisecondsM_refines pool) (fun ms => RefN.liftR pool (Offset.fromMilliseconds ms))


/-- two constructor calls in a row -/
theorem RefN.liftR2 {α β} (pool : Pool) (x : R α) (k : α → R β) :
    RefN pool ((monadLift x : RM α) >>= fun a => (monadLift (k a) : RM β))
      (fun bs => x >>= fun a => k a >>= fun b => .ok (b, bs)) :=
  (RefN.bind (RefN.liftR pool x) (fun a => RefN.liftR pool (k a))).congr (fun bs => bind_ok_pair x k bs)

theorem readTransitionM_refines (pool : Pool) (previous : Option Instant) :
    Ref pool (readTransitionM previous) (readTransition previous) := by
  refine Ref.bind (readCountM_refines pool) (g := fun value r => readTransitionBody previous value r) (fun value => ?_)
  unfold readTransitionBody
  by_cases h1 : value < MIN_HOURS
  · simp only [h1, if_true]
    by_cases h2 : value = MARKER_MIN
    · simp only [h2, if_true]; exact RefN.pure pool _
    · simp only [h2, if_false]
      by_cases h3 : value = MARKER_MAX
      · simp only [h3, if_true]; exact RefN.pure pool _
      · simp only [h3, if_false]
        by_cases h4 : value = MARKER_RAW
        · simp only [h4, if_true]
          exact RefN.bind (readInt64M_refines pool).toN (fun t => RefN.liftR pool (Instant.fromUnixTicks t))
        · simp only [h4, if_false]; exact (Ref.throw pool _).toN
  · simp only [h1, if_false]
    by_cases h5 : value < MIN_MINUTES
    · simp only [h5, if_true]
      cases previous with
      | none => exact (Ref.throw pool _).toN
      | some p => exact RefN.liftR2 pool (Duration.fromHours value) (fun d => p.plus d)
    · simp only [h5, if_false]
      exact RefN.liftR2 pool (Duration.fromMinutes value) (fun d => EPOCH1800.plus d)


/-! ## strings (the payload of an unpooled string is taken from the stream directly), dictionaries -/

theorem readStringM_refines (pool : Pool) : Ref pool readStringM (readString pool) := by
  refine Ref.bind (readCountM_refines pool)
    (g := fun n r => match pool with
      | none =>
        match takeExact n.toNat r with
        | none => .error .invalidData
        | some (data, r) => if validUtf8 data then .ok (data, r) else .error .unicodeError
      | some p =>
        match p[n.toNat]? with
        | some s => .ok (s, r)
        | none => .error .invalidData) (fun n => ?_)
  intro st hp hb
  obtain ⟨i, b, p⟩ := st
  simp only at hp hb
  subst hp hb
  cases p with
  | none =>
    simp only [lift, RState.abs, bind, StateT.bind, get, getThe, MonadStateOf.get, StateT.get, Except.bind,
      pure, Except.pure]
    cases takeExact n.toNat i with
    | none => rfl
    | some q =>
      obtain ⟨data, r⟩ := q
      by_cases hv : validUtf8 data = true
      · simp only [hv, if_true]; rfl
      · simp only [hv]; rfl
  | some p =>
    simp only [lift, RState.abs, bind, StateT.bind, get, getThe, MonadStateOf.get, StateT.get, Except.bind,
      pure, Except.pure]
    cases p[n.toNat]? <;> rfl


theorem readNM_refines {α} (pool : Pool) (fS : RM α) (f : Bytes → R (α × Bytes)) (h : RefN pool fS f) :
    ∀ n, RefN pool (readNM fS n) (readN f n) := by
  intro n
  induction n with
  | zero => exact RefN.pure pool []
  | succ n ih => exact RefN.bind h (fun a => RefN.bind ih (fun as => RefN.pure pool (a :: as)))

theorem readPairM_refines (pool : Pool) : Ref pool readPairM
    (fun bs => do
      let (k, r) ← readString pool bs
      let (v, r) ← readString pool r
      .ok ((k, v), r)) :=
  Ref.bind (readStringM_refines pool) (fun k => RefN.bind (readStringM_refines pool).toN (fun v => RefN.pure pool (k, v)))

theorem readDictionaryM_refines (pool : Pool) : Ref pool readDictionaryM (readDictionary pool) := by
  refine (Ref.bind (readCountM_refines pool) (fun n => RefN.bind
    (readNM_refines pool _ _ (readPairM_refines pool).toN n.toNat)
    (fun es => RefN.pure pool (es.foldl (fun d e => dictInsert d e.1 e.2) [])))).congr ?_
  intro bs
  unfold readDictionary readDictionaryEntries
  cases readCount bs with
  | error e => rfl
  | ok p => rfl

/-! ## year offsets and recurrences: sequences of calls on the reader, then the constructor -/

theorem readYearOffsetM_refines (pool : Pool) : Ref pool readYearOffsetM readYearOffset := by
  refine Ref.bind (readByteM_refines pool)
    (g := fun flags r =>
      match TransitionMode.ofNat? (flags / 32) with
      | none => .error .valueError
      | some mode => do
        let (month, r) ← readCount r
        let (dom, r) ← readSignedCount r
        let (ms, r) ← readMilliseconds r
        let tod ← localTimeFromMillis ms
        let y ← yearOffsetCtor mode month dom ((flags / 4 % 8 : Nat) : Int) (flags / 2 % 2 == 1) tod (flags % 2 == 1)
        .ok (y, r)) (fun flags => ?_)
  cases TransitionMode.ofNat? (flags / 32) with
  | none => exact (Ref.throw pool _).toN
  | some mode =>
    exact RefN.bind (readCountM_refines pool).toN (fun month =>
      RefN.bind (readSignedCountM_refines pool).toN (fun dom =>
        RefN.bind (readMillisecondsM_refines pool).toN (fun ms =>
          RefN.liftR2 pool (localTimeFromMillis ms)
            (fun tod => yearOffsetCtor mode month dom ((flags / 4 % 8 : Nat) : Int) (flags / 2 % 2 == 1) tod (flags % 2 == 1)))))

theorem readRecurrenceM_refines (pool : Pool) : Ref pool readRecurrenceM (readRecurrence pool) := by
  refine (Ref.bind (readStringM_refines pool) (fun name =>
    RefN.bind (readOffsetM_refines pool).toN (fun savings =>
      RefN.bind (readYearOffsetM_refines pool).toN (fun yo =>
        RefN.bind (readCountM_refines pool).toN (fun fy =>
          RefN.bind (readCountM_refines pool).toN (fun ty =>
            RefN.liftR pool (recurrenceCtor ⟨name, savings, yo, if fy = 0 then INT_MIN else fy, ty⟩))))))).congr ?_
  intro bs
  unfold readRecurrence readRecurrenceFields
  cases readString pool bs with
  | error e => rfl
  | ok p1 =>
    obtain ⟨name, r1⟩ := p1
    simp only [bind, Except.bind]
    cases readOffset r1 with
    | error e => rfl
    | ok p2 =>
      obtain ⟨sav, r2⟩ := p2
      simp only []
      cases readYearOffset r2 with
      | error e => rfl
      | ok p3 =>
        obtain ⟨yo, r3⟩ := p3
        simp only []
        cases readCount r3 with
        | error e => rfl
        | ok p4 =>
          obtain ⟨fy, r4⟩ := p4
          simp only []
          cases readCount r4 with
          | error e => rfl
          | ok p5 => rfl

/-! ## every read call of a session -/

theorem readValM_refines (pool : Pool) (k : Kind) : Ref pool (readValM k) (readVal pool k) := by
  cases k with
  | byte => exact Ref.bind (readByteM_refines pool) (fun b => RefN.pure pool (Val.byte (b : Int)))
  | count => exact Ref.bind (readCountM_refines pool) (fun n => RefN.pure pool (Val.count n))
  | scount => exact Ref.bind (readSignedCountM_refines pool) (fun n => RefN.pure pool (Val.scount n))
  | ms => exact Ref.bind (readMillisecondsM_refines pool) (fun n => RefN.pure pool (Val.ms n))
  | offset => exact Ref.bind (readOffsetM_refines pool) (fun n => RefN.pure pool (Val.offset n))
  | trans p => exact Ref.bind (readTransitionM_refines pool p) (fun n => RefN.pure pool (Val.trans p n))
  | str => exact Ref.bind (readStringM_refines pool) (fun n => RefN.pure pool (Val.str n))
  | dict => exact Ref.bind (readDictionaryM_refines pool) (fun n => RefN.pure pool (Val.dict n))
  | yo => exact Ref.bind (readYearOffsetM_refines pool) (fun n => RefN.pure pool (Val.yo n))
  | recur => exact Ref.bind (readRecurrenceM_refines pool) (fun n => RefN.pure pool (Val.recur n))

end Pyoda.C14
