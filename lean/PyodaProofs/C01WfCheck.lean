/-
  Soundness of the executable well-formedness checker (`PyodaModel/Calendar/WfCheck.lean`):
  `wfCheck c = true → WF c`, for every calendar description.  The only non-trivial step is the year estimate: the
  checker looks at the first and the last day of each year, and `tdiv` by a positive constant is monotone, so the
  bounds hold for every day in between.

  For the calendars without a symbolic `WF` instance (Hebrew civil/scriptural, Um Al Qura, Badi, Persian
  astronomical) the hypothesis `wfCheck c = true` is discharged by evaluating the checker on the compiled driver
  (`cal.wf`, every run of the check) — the Lean compiler is trusted for that step.
-/
import PyodaModel.Calendar
import PyodaProofs.Basic
import PyodaProofs.C01Lemmas

namespace Pyoda.C01
open Pyoda Pyoda.Calendar

theorem allInts_spec (lo hi : Int) (p : Int → Bool) (h : allInts lo hi p = true) (y : Int)
    (h1 : lo ≤ y) (h2 : y ≤ hi) : p y = true := by
  simp only [allInts, List.all_eq_true, List.mem_range] at h
  have := h (y - lo).toNat (by omega)
  have e : lo + ((y - lo).toNat : Int) = y := by omega
  rw [e] at this; exact this

theorem tdiv_mono (a b k : Int) (hk : 0 < k) (h : a ≤ b) : Int.tdiv a k ≤ Int.tdiv b k := by
  rw [tdiv_pos a k hk, tdiv_pos b k hk]
  by_cases ha : 0 ≤ a
  · rw [if_pos ha, if_pos (by omega)]
    exact Int.ediv_le_ediv hk h
  · rw [if_neg ha]
    by_cases hb : 0 ≤ b
    · rw [if_pos hb]
      have h1 : 0 ≤ (-a) / k := Int.ediv_nonneg (by omega) (by omega)
      have h2 : 0 ≤ b / k := Int.ediv_nonneg hb (by omega)
      omega
    · rw [if_neg hb]
      have := Int.ediv_le_ediv hk (show -b ≤ -a by omega)
      omega

theorem estOf_mono (c : Calc) (hA : 0 < c.avg10 + 1) (d d' : Int) (h : d ≤ d') : estOf c d ≤ estOf c d' := by
  unfold estOf
  have := tdiv_mono ((d - c.daysAtYear1) * 10) ((d' - c.daysAtYear1) * 10) (c.avg10 + 1) hA (by omega)
  omega

/-- the checker is sound: what it tests year by year is exactly `WF` -/
theorem wfCheck_sound (c : Calc) (h : wfCheck c = true) : WF c := by
  simp only [wfCheck, Bool.and_eq_true] at h
  obtain ⟨⟨hhead, hrec⟩, hyear⟩ := h
  simp only [headCheck, Bool.and_eq_true, decide_eq_true_eq] at hhead
  have hrecur : ∀ y, c.searchLo ≤ y → y ≤ c.maxYear → c.start (y + 1) = c.start y + c.len y ∧ 0 < c.len y := by
    intro y h1 h2
    have := allInts_spec _ _ _ hrec y h1 h2
    simp only [recCheck, Bool.and_eq_true, decide_eq_true_eq] at this
    exact this
  have yr : ∀ y, c.minYear ≤ y → y ≤ c.maxYear → yearCheck c y = true :=
    fun y h1 h2 => allInts_spec _ _ _ hyear y h1 h2
  have hA : 0 < c.avg10 + 1 := by omega
  refine
    { dom_lo := by omega, search_lo := by omega, dom_hi := by omega, year_order := by omega,
      recur := fun y h1 h2 => hrecur y (by omega) h2,
      recur_lo := fun y h1 h2 => hrecur y h1 (by omega),
      avg_ok := by omega, small := by omega,
      est := ?_, split_ok := ?_, unsplit_ok := ?_, pack_year := by omega, pack_month := ?_, pack_day := ?_,
      month_order := ?_, month_key_inj := ?_, plain_key := ?_ }
  · -- estimate: end points + monotonicity
    intro y d hy hy2 hs he
    have hy' := yr y hy hy2
    simp only [yearCheck, Bool.and_eq_true, decide_eq_true_eq] at hy'
    obtain ⟨⟨⟨⟨⟨⟨⟨e1, e2⟩, e3⟩, e4⟩, _⟩, _⟩, _⟩, _⟩ := hy'
    have m1 := estOf_mono c hA (c.start y) d hs
    have m2 := estOf_mono c hA d (c.start (y + 1) - 1) (by omega)
    show c.searchLo ≤ estOf c d ∧ estOf c d ≤ c.maxYear + 1 ∧ estOf c d ≤ y + 60 ∧ y ≤ estOf c d + 60
    omega
  · intro y doy hy hy2 h1 h2
    have hy' := yr y hy hy2
    simp only [yearCheck, Bool.and_eq_true] at hy'
    have hs := allInts_spec _ _ _ hy'.1.2 doy h1 h2
    simp only [Bool.and_eq_true, decide_eq_true_eq] at hs
    obtain ⟨⟨⟨⟨s1, s2⟩, s3⟩, s4⟩, s5⟩ := hs
    exact ⟨s1, s2, s3, s4, s5⟩
  · intro y m dd hy hy2 h1 h2 h3 h4
    have hy' := yr y hy hy2
    simp only [yearCheck, Bool.and_eq_true] at hy'
    have hm := allInts_spec _ _ _ hy'.2 m h1 h2
    simp only [monthCheck, Bool.and_eq_true] at hm
    have hd := allInts_spec _ _ _ hm.1.2 dd h3 h4
    simp only [Bool.and_eq_true, decide_eq_true_eq] at hd
    exact ⟨hd.1.1, hd.1.2, hd.2⟩
  · intro y hy hy2
    have hy' := yr y hy hy2
    simp only [yearCheck, Bool.and_eq_true, decide_eq_true_eq] at hy'
    exact ⟨hy'.1.1.1.2, hy'.1.1.2⟩
  · intro y m hy hy2 h1 h2
    have hy' := yr y hy hy2
    simp only [yearCheck, Bool.and_eq_true] at hy'
    have hm := allInts_spec _ _ _ hy'.2 m h1 h2
    simp only [monthCheck, Bool.and_eq_true, decide_eq_true_eq] at hm
    exact ⟨hm.1.1.1.1, hm.1.1.1.2⟩
  · intro y m1 m2 hy hy2 h1 h2 h3 h4 hk
    have hy' := yr y hy hy2
    simp only [yearCheck, Bool.and_eq_true] at hy'
    have hm := allInts_spec _ _ _ hy'.2 m1 h1 h2
    simp only [monthCheck, Bool.and_eq_true] at hm
    have h2' := allInts_spec _ _ _ hm.2 m2 h3 h4
    simp only [Bool.and_eq_true, decide_eq_true_eq] at h2'
    exact h2'.1 hk
  · intro y m1 m2 hy hy2 h1 h2 h3 h4 hk
    have hy' := yr y hy hy2
    simp only [yearCheck, Bool.and_eq_true] at hy'
    have hm := allInts_spec _ _ _ hy'.2 m1 h1 h2
    simp only [monthCheck, Bool.and_eq_true] at hm
    have h2' := allInts_spec _ _ _ hm.2 m2 h3 h4
    simp only [Bool.and_eq_true, decide_eq_true_eq] at h2'
    exact h2'.2 hk
  · intro hoc y m hy hy2 h1 h2
    have hy' := yr y hy hy2
    simp only [yearCheck, Bool.and_eq_true] at hy'
    have hm := allInts_spec _ _ _ hy'.2 m h1 h2
    simp only [monthCheck, Bool.and_eq_true, decide_eq_true_eq] at hm
    exact hm.1.1.2 hoc

/-- all of C01 for a calendar follows from one evaluation of the checker -/
theorem wf_of_ordinal (n : Nat) (c : Calc) (_hc : calcOf n = some c) (h : wfCheck c = true) : WF c :=
  wfCheck_sound c h

/-! non-vacuity: the checker is a real test — it rejects a calendar whose year lengths do not match its year
    starts (a Gregorian calendar that forgets leap days) and a description with an inverted year range, and accepts
    the genuine rows -/
example : recCheck { Greg.cal with len := fun _ => 365 } 2024 = false := by decide
example : recCheck Greg.cal 2024 = true := by decide
example : yearCheck Greg.cal 2024 = true := by decide +kernel
example : headCheck Greg.cal = true ∧ headCheck { Greg.cal with minYear := 5, maxYear := 4 } = false := by decide

end Pyoda.C01
