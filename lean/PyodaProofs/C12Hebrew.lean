/-
  C12 — the scriptural Hebrew month order against day numbers.

  `PyodaModel.Calendar.Systems` (namespace `Heb`) carries the Hebrew calculator: `Heb.toMonthS y m` is
  `_get_days_from_start_of_year_to_start_of_month` (scriptural month number), `Heb.dimS` the month lengths,
  `Heb.start y` the day number of 1 Tishri minus … (year start).  The day number of a date is
  `Heb.start y + Heb.toMonthS y m + d - 1` (generic layer of the Calendar model).

  Proved here: inside the validity domain the scriptural comparison of `CalendarSystem._compare` is the
  lexicographic comparison of (year, day of year) — `hebrewScriptural_cmp_iff_days_partial`.  The remaining step to
  absolute day numbers (`hebrewScriptural_cmp_iff_daysStatement`) needs only that consecutive year starts differ
  by at least the year's length, which is the Hebrew instance of the C01 year-table theorem (bulk kernel
  evaluation over the 9999 years), not repeated here.
-/
import PyodaModel.Compare
import PyodaModel.Calendar.Systems
import PyodaProofs.Basic
import PyodaProofs.C12Lemmas

namespace Pyoda.C12
open Pyoda Pyoda.Compare Pyoda.Calendar

/-- `toMonthS` with the year-dependent quantities as parameters -/
def toMonthP (lp : Bool) (h k m : Int) : Int :=
  let a1 : Int := if lp then 30 else 29
  let a2 : Int := if lp then 29 else 0
  if m = 1 then 30 + h + k + (29 + 30) + a1 + a2
  else if m = 2 then 30 + h + k + (29 + 30) + a1 + a2 + 30
  else if m = 3 then 30 + h + k + 29 + 30 + a1 + a2 + (30 + 29)
  else if m = 4 then 30 + h + k + 29 + 30 + a1 + a2 + (30 + 29 + 30)
  else if m = 5 then 30 + h + k + 29 + 30 + a1 + a2 + (30 + 29 + 30 + 29)
  else if m = 6 then 30 + h + k + 29 + 30 + a1 + a2 + (30 + 29 + 30 + 29 + 30)
  else if m = 7 then 0
  else if m = 8 then 30
  else if m = 9 then 30 + h
  else if m = 10 then 30 + h + k
  else if m = 11 then 30 + h + k + 29
  else if m = 12 then 30 + h + k + 29 + 30
  else if m = 13 then 30 + h + k + 29 + 30 + a1
  else 0

def dimP (lp : Bool) (h k m : Int) : Int :=
  if m = 2 ∨ m = 4 ∨ m = 6 ∨ m = 10 ∨ m = 13 then 29
  else if m = 8 then h
  else if m = 9 then k
  else if m = 12 then (if lp then 30 else 29)
  else 30

def civP (lp : Bool) (m : Int) : Int := if m ≥ 7 then m - 6 else if lp then m + 7 else m + 6

theorem toMonthS_eq (y m : Int) : Heb.toMonthS y m = toMonthP (Heb.isLeap y) (Heb.heshvan y) (Heb.kislev y) m := rfl
theorem dimS_eq (y m : Int) : Heb.dimS y m = dimP (Heb.isLeap y) (Heb.heshvan y) (Heb.kislev y) m := rfl

theorem isLeap_eq (y : Int) : Heb.isLeap y = hebIsLeap y := by
  simp only [Heb.isLeap, hebIsLeap]
  rw [fmod_pos _ _ (by decide)]

theorem civ_eq (y m : Int) : scripturalToCivil y m = civP (hebIsLeap y) m := rfl

theorem heshvan_range (y : Int) : Heb.heshvan y = 29 ∨ Heb.heshvan y = 30 := by
  simp only [Heb.heshvan]; split <;> simp

theorem kislev_range (y : Int) : Heb.kislev y = 29 ∨ Heb.kislev y = 30 := by
  simp only [Heb.kislev]; split <;> simp

/-- a month that comes earlier in the civil order ends before the later month starts -/
theorem heb_month_mono (lp : Bool) (h k m1 m2 : Int) (hh : h = 29 ∨ h = 30) (hk : k = 29 ∨ k = 30)
    (v1 : 1 ≤ m1 ∧ m1 ≤ (if lp then 13 else 12)) (v2 : 1 ≤ m2 ∧ m2 ≤ (if lp then 13 else 12))
    (hc : civP lp m1 < civP lp m2) : toMonthP lp h k m1 + dimP lp h k m1 ≤ toMonthP lp h k m2 := by
  cases lp
  · simp only [Bool.false_eq_true, if_false] at v1 v2
    have e1 : m1 = 1 ∨ m1 = 2 ∨ m1 = 3 ∨ m1 = 4 ∨ m1 = 5 ∨ m1 = 6 ∨ m1 = 7 ∨ m1 = 8 ∨ m1 = 9 ∨ m1 = 10 ∨ m1 = 11 ∨ m1 = 12 := by omega
    have e2 : m2 = 1 ∨ m2 = 2 ∨ m2 = 3 ∨ m2 = 4 ∨ m2 = 5 ∨ m2 = 6 ∨ m2 = 7 ∨ m2 = 8 ∨ m2 = 9 ∨ m2 = 10 ∨ m2 = 11 ∨ m2 = 12 := by omega
    rcases e1 with rfl | rfl | rfl | rfl | rfl | rfl | rfl | rfl | rfl | rfl | rfl | rfl <;>
    rcases e2 with rfl | rfl | rfl | rfl | rfl | rfl | rfl | rfl | rfl | rfl | rfl | rfl <;>
    simp [toMonthP, dimP, civP] at hc ⊢ <;> omega
  · simp only [if_true] at v1 v2
    have e1 : m1 = 1 ∨ m1 = 2 ∨ m1 = 3 ∨ m1 = 4 ∨ m1 = 5 ∨ m1 = 6 ∨ m1 = 7 ∨ m1 = 8 ∨ m1 = 9 ∨ m1 = 10 ∨ m1 = 11 ∨ m1 = 12 ∨ m1 = 13 := by omega
    have e2 : m2 = 1 ∨ m2 = 2 ∨ m2 = 3 ∨ m2 = 4 ∨ m2 = 5 ∨ m2 = 6 ∨ m2 = 7 ∨ m2 = 8 ∨ m2 = 9 ∨ m2 = 10 ∨ m2 = 11 ∨ m2 = 12 ∨ m2 = 13 := by omega
    rcases e1 with rfl | rfl | rfl | rfl | rfl | rfl | rfl | rfl | rfl | rfl | rfl | rfl | rfl <;>
    rcases e2 with rfl | rfl | rfl | rfl | rfl | rfl | rfl | rfl | rfl | rfl | rfl | rfl | rfl <;>
    simp [toMonthP, dimP, civP] at hc ⊢ <;> omega

/-- day of the year (1 = 1 Tishri) as the Hebrew calculator computes it -/
def hebDayOfYear (y m d : Int) : Int := Heb.toMonthS y m + d

/-- a scriptural date the calendar accepts: the month exists in the year, the day exists in the month -/
def HebDateOK (y m d : Int) : Prop := HebMonthOK y m ∧ 1 ≤ d ∧ d ≤ Heb.dimS y m

theorem heb_day_range (y m : Int) (_h : HebMonthOK y m) : 29 ≤ Heb.dimS y m ∧ Heb.dimS y m ≤ 30 := by
  have hh := heshvan_range y
  have hk := kislev_range y
  rw [dimS_eq]
  simp only [dimP]
  generalize Heb.heshvan y = hv at *
  generalize Heb.kislev y = kv at *
  split
  · omega
  · split
    · omega
    · split
      · omega
      · split
        · split <;> omega
        · omega

/-- Full statement: the scriptural comparison agrees with the comparison of day numbers
    `Heb.start y + day-of-year - 1`. -/
def hebrewScriptural_cmp_iff_daysStatement : Prop :=
  ∀ y1 m1 d1 y2 m2 d2 : Int, 1 ≤ y1 → y1 ≤ 9999 → 1 ≤ y2 → y2 ≤ 9999 → HebDateOK y1 m1 d1 → HebDateOK y2 m2 d2 →
    SameSign (calCompare HEBREW_SCRIPTURAL (packYMD y1 m1 d1) (packYMD y2 m2 d2))
      (Heb.start y1 + hebDayOfYear y1 m1 d1 - 1) (Heb.start y2 + hebDayOfYear y2 m2 d2 - 1)

/-- Proved part: the scriptural comparison is the lexicographic comparison of (year, day of year); in particular
    inside one year it is exactly the comparison of the day numbers (months before Tishri in scriptural numbering,
    1 … 6, come after months 7 … 13). -/
theorem hebrewScriptural_cmp_iff_days_partial (y1 m1 d1 y2 m2 d2 : Int)
    (h1 : HebDateOK y1 m1 d1) (h2 : HebDateOK y2 m2 d2) :
    (calCompare HEBREW_SCRIPTURAL (packYMD y1 m1 d1) (packYMD y2 m2 d2) < 0 ↔
      (y1 < y2 ∨ (y1 = y2 ∧ hebDayOfYear y1 m1 d1 < hebDayOfYear y2 m2 d2))) ∧
    (calCompare HEBREW_SCRIPTURAL (packYMD y1 m1 d1) (packYMD y2 m2 d2) = 0 ↔
      (y1 = y2 ∧ hebDayOfYear y1 m1 d1 = hebDayOfYear y2 m2 d2)) := by
  obtain ⟨hm1, hd1l, hd1u⟩ := h1
  obtain ⟨hm2, hd2l, hd2u⟩ := h2
  have r1 := heb_day_range y1 m1 hm1
  have r2 := heb_day_range y2 m2 hm2
  have f1 : FieldsOK m1 d1 := by
    simp only [HebMonthOK, FieldsOK] at *
    refine ⟨hm1.1, ?_, hd1l, by omega⟩
    have := hm1.2; split at this <;> omega
  have f2 : FieldsOK m2 d2 := by
    simp only [HebMonthOK, FieldsOK] at *
    refine ⟨hm2.1, ?_, hd2l, by omega⟩
    have := hm2.2; split at this <;> omega
  obtain ⟨u1y, u1m, u1d⟩ := unpack_pack' y1 m1 d1 f1
  obtain ⟨u2y, u2m, u2d⟩ := unpack_pack' y2 m2 d2 f2
  simp only [calCompare, if_true, u1y, u1m, u1d, u2y, u2m, u2d, hebDayOfYear]
  by_cases hy : y1 = y2
  · subst hy
    have mono12 := heb_month_mono (Heb.isLeap y1) (Heb.heshvan y1) (Heb.kislev y1) m1 m2 (heshvan_range y1)
      (kislev_range y1) (by rw [isLeap_eq]; exact hm1) (by rw [isLeap_eq]; exact hm2)
    have mono21 := heb_month_mono (Heb.isLeap y1) (Heb.heshvan y1) (Heb.kislev y1) m2 m1 (heshvan_range y1)
      (kislev_range y1) (by rw [isLeap_eq]; exact hm2) (by rw [isLeap_eq]; exact hm1)
    have inj := civil_inj y1 m1 m2 hm1 hm2
    rw [dimS_eq] at hd1u hd2u
    rw [toMonthS_eq, toMonthS_eq, civ_eq, civ_eq]
    rw [isLeap_eq] at *
    rw [civ_eq, civ_eq] at inj
    generalize civP (hebIsLeap y1) m1 = c1 at *
    generalize civP (hebIsLeap y1) m2 = c2 at *
    by_cases hc : c1 = c2
    · have hm : m1 = m2 := inj hc
      subst hm
      simp only [Int.sub_self, ne_eq, not_true_eq_false, if_false, hc, true_and, Int.lt_irrefl, false_or]
      omega
    · by_cases hlt : c1 < c2
      · have := mono12 hlt
        have hne : c1 - c2 ≠ 0 := by omega
        simp only [Int.sub_self, ne_eq, not_true_eq_false, if_false, hne, not_false_eq_true, if_true, true_and,
          Int.lt_irrefl, false_or, false_iff]
        omega
      · have := mono21 (by omega)
        have hne : c1 - c2 ≠ 0 := by omega
        simp only [Int.sub_self, ne_eq, not_true_eq_false, if_false, hne, not_false_eq_true, if_true, true_and,
          Int.lt_irrefl, false_or, false_iff]
        omega
  · have hne : y1 - y2 ≠ 0 := by omega
    simp only [ne_eq, hne, not_false_eq_true, if_true, hy, false_and, or_false, and_true]
    omega

/-! the hypotheses are satisfiable: Adar II of the leap year 5782, 30 Heshvan 5780, 29 Elul 5780 -/
example : HebDateOK 5782 13 29 ∧ HebDateOK 5780 6 29 ∧ HebDateOK 5780 7 30 := by
  unfold HebDateOK HebMonthOK; decide

example : hebDayOfYear 5780 7 1 = 1 ∧ hebDayOfYear 5780 6 29 = Heb.len 5780 := by decide

end Pyoda.C12
