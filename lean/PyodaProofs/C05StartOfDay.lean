/-
  C05 — start of day, full statement: `at_start_of_day` returns the EARLIEST instant whose local date is the
  requested date.  Instants in the intervals adjacent to local midnight are handled by the mapping theorems
  (soundness, completeness, order); instants further away cannot carry the date because every finite interval
  lasts at least 36 h while wall offsets stay within ±18 h (`Spec.minlen`, `Spec.bounded`).
-/
import PyodaProofs.C05

namespace Pyoda.C05
open Pyoda Pyoda.Zone

section
variable {g : Int → ZI} (h : Spec g) {get : Int → R ZI} (hget : Agrees get g)
include h hget

/-- the intervals a mapping reports are the zone's intervals at valid instants -/
theorem mapLocal_intervals_valid {l : Int} (hl : Interior l) (m : Mapping) (hm : mapLocal get l = .ok m) :
    (∃ u, MINI ≤ u ∧ u ≤ MAXI ∧ m.early = g u) ∧ (∃ v, MINI ≤ v ∧ v ≤ MAXI ∧ m.late = g v) := by
  have hv := iv_valid_l h hl
  have hI := h.part l hv.1 hv.2
  have wI := h.bounded l
  have cI := containsLocal_iff_aux (g l) l (h.shaped _) hl
  rw [mapLocal_eq h hget hl] at hm
  simp only [Except.ok.injEq] at hm
  subst hm
  have wl : ∃ u, MINI ≤ u ∧ u ≤ MAXI ∧ g l = g u := ⟨l, hv.1, hv.2, rfl⟩
  have wp : MINI < (g l).s → ∃ u, MINI ≤ u ∧ u ≤ MAXI ∧ g ((g l).s - 1) = g u :=
    fun hs => ⟨(g l).s - 1, by omega, by omega, rfl⟩
  have wn : (g l).e ≤ MAXI → ∃ u, MINI ≤ u ∧ u ≤ MAXI ∧ g (g l).e = g u :=
    fun he => ⟨(g l).e, by omega, he, rfl⟩
  by_cases c1 : (g l).containsLocal l = true
  · simp only [c1, if_true]
    by_cases c2 : MINI < (g l).s ∧ (g ((g l).s - 1)).containsLocal l = true
    · rw [if_pos c2]; exact ⟨wp c2.1, wl⟩
    · rw [if_neg c2]
      by_cases c3 : (g l).e ≤ MAXI ∧ (g (g l).e).containsLocal l = true
      · rw [if_pos c3]; exact ⟨wl, wn c3.1⟩
      · rw [if_neg c3]; exact ⟨wl, wl⟩
  · simp only [c1, if_false, Bool.false_eq_true]
    have c1' : ¬((g l).s ≤ l - (g l).wall * NPS ∧ l - (g l).wall * NPS < (g l).e) := fun x => c1 (cI.mpr x)
    by_cases c2 : MINI < (g l).s ∧ (g ((g l).s - 1)).containsLocal l = true
    · rw [if_pos c2]; exact ⟨wp c2.1, wp c2.1⟩
    · rw [if_neg c2]
      by_cases c3 : (g l).e ≤ MAXI ∧ (g (g l).e).containsLocal l = true
      · rw [if_pos c3]; exact ⟨wn c3.1, wn c3.1⟩
      · rw [if_neg c3]
        by_cases c4 : l - (g l).wall * NPS < (g l).s
        · rw [if_pos c4]
          exact ⟨wp (by simp only [Interior] at hl; zconsts; omega), wl⟩
        · rw [if_neg c4]
          exact ⟨wl, wn (by simp only [Interior] at hl; zconsts; omega)⟩

omit hget in
/-- the distance argument: if `r` is at or before every instant rendering as local midnight `l`, instants
    before `r` in `r`'s own interval render before `l`, and `r` itself renders at or before `l` through some
    offset within ±18 h, then no instant before `r` falls on the date of `l` -/
theorem no_earlier_on_date {l : Int} (hl : Interior l) (hmid : l % NPD = 0) (r : Int) (hr : MINI ≤ r ∧ r ≤ MAXI)
    (hA : ∀ t, MINI ≤ t → t < r → g t = g r → t + (g t).wall * NPS < l)
    (hB : ∃ w : Int, -64800 ≤ w ∧ w ≤ 64800 ∧ r + w * NPS ≤ l)
    (hC : ∀ t', MINI ≤ t' → t' ≤ MAXI → t' + (g t').wall * NPS = l → r ≤ t') :
    ∀ t, MINI ≤ t → t < r → dayOf (t + (g t).wall * NPS) ≠ dayOf l := by
  intro t ht1 ht2 hday
  have hT := h.part t ht1 (by omega)
  have wT := h.bounded t
  have hge : l ≤ t + (g t).wall * NPS := by simp only [dayOf, NPD] at *; omega
  by_cases hc : r < (g t).e
  · have e := h.const t r ht1 (by omega) hr.1 hr.2 (by omega) hc
    have := hA t ht1 ht2 e.symm
    omega
  · by_cases hs : (g t).s ≤ l - (g t).wall * NPS
    · -- the instant of `t`'s interval that renders exactly as `l` is at or before `t`, hence before `r`
      have v1 : MINI ≤ l - (g t).wall * NPS := by simp only [Interior] at hl; zconsts; omega
      have e := h.const t (l - (g t).wall * NPS) ht1 (by omega) v1 (by omega) hs (by omega)
      have := hC (l - (g t).wall * NPS) v1 (by omega) (by rw [e]; omega)
      omega
    · -- `t`'s interval lies entirely before `r` and starts, in local terms, after `l`: it would be too short
      obtain ⟨w, w1, w2, w3⟩ := hB
      have hsv : MINI ≤ (g t).s := by simp only [Interior] at hl; zconsts; omega
      have := h.minlen t hsv (by omega)
      zconsts; omega

/-- **start of day, full statement**: the result of `at_start_of_day` falls on the requested date and no earlier
    valid instant does -/
theorem startOfDay_spec : startOfDayStatement (get := get) g := by
  intro l hl hmid r hr
  obtain ⟨m, hm⟩ : ∃ m, mapLocal get l = .ok m := ⟨_, mapLocal_eq h hget hl⟩
  have hsound := mapLocal_sound h hget hl m hm
  have hcomp := mapLocal_complete h hget hl m hm
  have hcnt := (mapLocal_count_le_two h hget hl m hm).1
  obtain ⟨⟨u, u1, u2, hu⟩, ⟨v, v1, v2, hv'⟩⟩ := mapLocal_intervals_valid h hget hl m hm
  obtain ⟨p1, p2⟩ := startOfDay_spec_partial h hget hl m hm
  by_cases h0 : m.count = 0
  · -- local midnight is skipped: the result is the start of the interval after the gap
    obtain ⟨q1, q2, _⟩ := p2 h0
    obtain ⟨g1, g2, g3⟩ := mapLocal_gap h hget hl m hm h0
    by_cases hd : dayOf (m.late.s + m.late.wall * NPS) = dayOf l
    · rw [q1 hd] at hr
      have er : r = m.late.s := by injection hr with hr; exact hr.symm
      have hV := h.part v v1 v2
      have hrv : MINI ≤ r ∧ r ≤ MAXI := by
        rw [er, ← g1, hu]
        rcases (h.ends u).2 with hq | hq
        · exfalso; rw [hu, hq] at g2; have := h.bounded u; simp only [Interior] at hl; zconsts; omega
        · exact hq
      have egr : g r = g v := h.const v r v1 v2 hrv.1 hrv.2 (by rw [er, hv']; omega) (by rw [er, hv']; omega)
      refine ⟨by rw [egr, er, ← hv']; exact hd, ?_⟩
      apply no_earlier_on_date h hl hmid r hrv
      · intro t t1 t2 e
        exfalso
        have := h.part t t1 (by omega)
        rw [e, egr, ← hv', ← er] at this
        omega
      · refine ⟨m.early.wall, by rw [hu]; exact (h.bounded u).1, by rw [hu]; exact (h.bounded u).2, ?_⟩
        rw [er, ← g1]; exact g2
      · intro t' t1 t2 t3
        have := hcomp t' ⟨t1, t2, t3⟩
        simp [results, h0] at this
    · rw [q2 hd] at hr; cases hr
  · -- local midnight exists: the result is its earliest instant
    rw [p1 h0] at hr
    have er : r = l - m.early.wall * NPS := by injection hr with hr; exact hr.symm
    have hmem : r ∈ results m l := by
      rw [er]
      have : m.count = 1 ∨ m.count = 2 := by omega
      rcases this with c | c <;> simp [results, c]
    obtain ⟨r1, r2, r3⟩ := hsound r hmem
    refine ⟨by rw [r3], ?_⟩
    apply no_earlier_on_date h hl hmid r ⟨r1, r2⟩
    · intro t t1 t2 e
      rw [e]; omega
    · exact ⟨(g r).wall, (h.bounded r).1, (h.bounded r).2, by omega⟩
    · intro t' t1 t2 t3
      have hin := hcomp t' ⟨t1, t2, t3⟩
      have : m.count = 1 ∨ m.count = 2 := by omega
      rcases this with c | c
      · simp [results, c] at hin; omega
      · have hs := (mapLocal_sorted h hget hl m hm c).1
        simp [results, c] at hin
        omega

end

/-! ### non-vacuity: in the toy zone (one-hour gap at the epoch) local midnight 1970-01-01 is skipped; the day
    starts at the transition, and the theorem applies -/
example : atStartOfDay (getT toy) 0 = .ok 0 := by decide
example : Interior 0 ∧ (0 : Int) % NPD = 0 := by simp only [Interior]; zconsts; omega
example : ∀ t, MINI ≤ t → t < 0 → dayOf (t + (toy t).wall * NPS) ≠ dayOf 0 :=
  (startOfDay_spec toy_spec (getT_agrees toy) 0 (by simp only [Interior]; zconsts; omega) (by decide) 0 (by decide)).2

end Pyoda.C05
