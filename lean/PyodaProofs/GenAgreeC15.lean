/-
  GenAgreeC15 — agreement between the datetime bridges GENERATED from pyoda_time's Python source (`PyodaGen/C15.lean`)
  and the bridge model (`PyodaModel/Bridge.lean`).  The standard library's objects are the model's structures; what
  their constructors, accessors and operators do is hand-written in `PyodaGen/GlueC15.lean` and compared with CPython by
  C15's correspondence.  A naive and an aware datetime are different argument types of the translation, so the theorems
  come per kind of argument (`TzView.naive`, `TzView.offset t`).
-/
import PyodaGen.C15
import PyodaModel.Bridge
import PyodaProofs.Basic

namespace Pyoda.GenAgree.C15
open Pyoda Pyoda.Bridge Pyoda.Gen.Bridge

theorem ok_bind {α β} (a : α) (f : α → R β) : ((.ok a : R α) >>= f) = f a := rfl
theorem err_bind {α β} (e : PyExc) (f : α → R β) : ((.error e : R α) >>= f) = .error e := rfl

theorem mkDate_epoch : mkDate 1970 1 1 = .ok ORD_EPOCH := by decide
theorem mkDateTime3_bcl : mkDateTime3 1 1 1 = .ok ⟨1, 0⟩ := by decide
theorem mkDateTime3_epoch : mkDateTime3 1970 1 1 = .ok ⟨ORD_EPOCH, 0⟩ := by decide

/-! ## `_to_ticks` -/

theorem gen_toTicksNaive_eq (x : PyDateTime) : Gen.C15.toTicksNaive x = .ok (toTicksDt x) := by
  unfold Gen.C15.toTicksNaive
  rw [mkDateTime3_bcl]
  rfl

theorem gen_toTicksAware_eq (x : AwareDt) : Gen.C15.toTicksAware x = .ok (toTicksDt x.naive) := by
  unfold Gen.C15.toTicksAware
  rw [mkDateTime3_bcl]
  rfl

theorem gen_toTicksTd_eq (t : PyTimedelta) : Gen.C15.toTicksTd t = toTicksTd t := rfl

/-! ## LocalDate, LocalTime -/

theorem mkTd_days (d : Int) : mkTdDays d = PyTimedelta.ofUs (d * UsPD) := by
  unfold mkTdDays mkTd
  congr 1
  omega

theorem mkTd_seconds (s : Int) : mkTdSeconds s = PyTimedelta.ofUs (s * UsPS) := by
  unfold mkTdSeconds mkTd
  congr 1
  omega

theorem mkTd_daysUs (d us : Int) : mkTdDaysUs d us = PyTimedelta.ofUs (d * UsPD + us) := by
  unfold mkTdDaysUs mkTd
  congr 1
  omega

theorem gen_LocalDate_toDate_eq (d : Date) : Gen.C15.LocalDate.toDate d = dateToPy d := by
  unfold Gen.C15.LocalDate.toDate dateToPy
  rw [mkDate_epoch, mkTd_days]
  rfl

theorem gen_LocalDate_fromDate_eq (ord : Int) : Gen.C15.LocalDate.fromDate ord = dateFromPy ord := by
  unfold Gen.C15.LocalDate.fromDate dateFromPy
  rw [mkDate_epoch]
  rfl

theorem gen_LocalTime_toTime_eq (t : LocalTime) : Gen.C15.LocalTime.toTime t = timeToPy t.nod := by
  unfold Gen.C15.LocalTime.toTime timeToPy
  rfl

theorem gen_LocalTime_fromTime_eq (us : Int) :
    Gen.C15.LocalTime.fromTime us = (timeFromPy us >>= fun nod => .ok (⟨nod⟩ : LocalTime)) := by
  unfold Gen.C15.LocalTime.fromTime timeFromPy Gen.Bridge.fromTicksSinceMidnight
  simp only [timeHour, timeMinute, timeSecond, timeMicrosecond]
  have e : (us / UsPH * 36000000000 + us % UsPH / UsPMin * 600000000 + us % UsPMin / UsPS * 10000000 + us % UsPS * 10) =
      (us / UsPH * TPH + us % UsPH / UsPMin * TPMin + us % UsPMin / UsPS * TPS + us % UsPS * TPUs) := rfl
  rw [e]
  cases checkRange (us / UsPH * TPH + us % UsPH / UsPMin * TPMin + us % UsPMin / UsPS * TPS + us % UsPS * TPUs) 0 (TPD - 1) <;> rfl

/-! ## LocalDateTime.from_naive_datetime -/

theorem gen_LocalDateTime_fromNaive_eq (x : PyDateTime) (c : Cal) :
    Gen.C15.LocalDateTime.fromNaive x c = ldtFromAny x .naive c := by
  unfold Gen.C15.LocalDateTime.fromNaive ldtFromAny ldtFromPy
  rw [gen_toTicksNaive_eq]
  simp only [Gen.checkArgument, decide_true, if_true, ok_bind]
  rcases h : Duration.ticksToDaysAndTickOfDay (toTicksDt x) with e | ⟨days, tod⟩
  · rfl
  · simp only [ok_bind]
    show (Gen.Bridge.dateOfDays (days - 719162) c >>= fun d => .ok (Gen.Bridge.ldtPair d ⟨tod * 100⟩)) = _
    unfold Gen.Bridge.dateOfDays Gen.Bridge.ldtPair
    rfl

theorem gen_LocalDateTime_fromAware_eq (x : AwareDt) (c : Cal) :
    Gen.C15.LocalDateTime.fromAware x c = ldtFromAny x.naive (.offset x.utcoffset) c := by
  unfold Gen.C15.LocalDateTime.fromAware ldtFromAny
  simp [Gen.checkArgument, bind, Except.bind]

/-! ## Instant -/

theorem gen_Instant_toDatetimeUtc_eq (i : Instant) : Gen.C15.Instant.toDatetimeUtc i = instToPy i := by
  unfold Gen.C15.Instant.toDatetimeUtc instToPy
  by_cases h : Duration.lt i.dur Pyoda.Bridge.bclEpoch.dur = true
  · have h' : Gen.Bridge.instLt i Gen.Bridge.bclEpoch = true := h
    rw [if_pos h, if_pos h']
  · have h' : ¬ Gen.Bridge.instLt i Gen.Bridge.bclEpoch = true := h
    rw [if_neg h, if_neg h', mkDateTime3_epoch]
    simp only [ok_bind]
    rcases hq : pyTdiv i.dur.nod 1000 with e | us
    · have hq' : pyTdiv i.dur.nod NPUs = .error e := hq
      rw [hq']; simp only [err_bind]
    · have hq' : pyTdiv i.dur.nod NPUs = .ok us := hq
      rw [hq']
      simp only [ok_bind, mkTd_daysUs]

theorem gen_Instant_fromAwareNaive_eq (x : PyDateTime) : Gen.C15.Instant.fromAwareNaive x = instFromAware x .naive := by
  unfold Gen.C15.Instant.fromAwareNaive instFromAware
  simp [Gen.checkArgument, bind, Except.bind]

theorem gen_Instant_fromAware_eq (x : AwareDt) : Gen.C15.Instant.fromAware x = instFromAware x.naive (.offset x.utcoffset) := by
  unfold Gen.C15.Instant.fromAware instFromAware
  rw [gen_toTicksAware_eq]
  simp only [Gen.checkArgument, decide_true, if_true, ok_bind]
  rfl

/-! ## Duration, Offset -/

/-- `Duration.from_timedelta`: the code adds days and seconds before it converts the microseconds, the model converts all three
    first; the two orders can only be told apart when `from_microseconds` raises, which it does not for the microseconds
    field of a timedelta (`0 ≤ microseconds < 10^6`; hypothesis `hc`, see `fromMicroseconds_field_ok`) -/
theorem gen_Duration_fromTimedelta_eq (t : PyTimedelta) (hc : ∃ c, Duration.fromMicroseconds t.micros = .ok c) :
    Gen.C15.Duration.fromTimedelta t = durFromPy t := by
  unfold Gen.C15.Duration.fromTimedelta durFromPy
  obtain ⟨c, hc⟩ := hc
  rw [hc]
  rcases ha : Duration.fromDays t.days with e | a
  · rfl
  · rcases hb : Duration.fromSeconds t.seconds with e | b
    · rfl
    · rcases hab : Duration.add a b with e | ab
      · simp only [ok_bind, hab, err_bind]
      · simp only [ok_bind, hab]

example : ∃ c, Duration.fromMicroseconds (⟨3, 17, 999999⟩ : PyTimedelta).micros = .ok c := ⟨⟨0, 999999000⟩, by decide⟩

theorem gen_Duration_toTimedelta_eq (d : Duration) : Gen.C15.Duration.toTimedelta d = durToPy d := by
  unfold Gen.C15.Duration.toTimedelta durToPy
  rcases hq : pyTdiv d.nanosecondOfDay 1000 with e | us
  · have hq' : pyTdiv d.nanosecondOfDay NPUs = .error e := hq
    rw [hq']; simp only [err_bind]
  · have hq' : pyTdiv d.nanosecondOfDay NPUs = .ok us := hq
    rw [hq']
    simp only [ok_bind, mkTd_daysUs]

theorem gen_Offset_toTimedelta_eq (o : Offset) : Gen.C15.Offset.toTimedelta o = offToPy o := by
  unfold Gen.C15.Offset.toTimedelta offToPy
  rw [mkTd_seconds]

end Pyoda.GenAgree.C15
