/-
  C08 (generic engine) — every LocalTime pattern that `compile` accepts consists of well-formed time steps, hence
  (with `parseCompiled_time_valid`) every success of every LocalTime pattern carries a time inside the day.
-/
import PyodaProofs.C08Stepped

namespace Pyoda.C08
open Pyoda Pyoda.Text

/-- the handler kept the steps so far and added only steps satisfying `P` -/
def GrowsP (P : Step → Bool) (st st' : CSt) : Prop := ∃ added, st'.steps = st.steps ++ added ∧ added.all P = true

theorem growsP_refl (P : Step → Bool) (st : CSt) : GrowsP P st st := ⟨[], by simp, rfl⟩

theorem growsP_addStep (P : Step → Bool) (st : CSt) (s : Step) (h : P s = true) : GrowsP P st (addStep st s) :=
  ⟨[s], rfl, by simp [h]⟩

theorem growsP_of_steps_eq (P : Step → Bool) (st st1 st' : CSt) (e : st1.steps = st.steps) (g : GrowsP P st1 st') :
    GrowsP P st st' := by
  obtain ⟨a, h1, h2⟩ := g; exact ⟨a, by rw [h1, e], h2⟩

/-- the closure conditions of the LocalTime handler table -/
structure TimeClosed (P : Step → Bool) : Prop where
  lit : ∀ t, P (.lit t) = true
  semi : P .semi = true
  amPm : ∀ n, P (.amPm n) = true
  frac : ∀ n fx, n ≤ 9 → P (.frac n 9 fx) = true
  dotFrac : ∀ n c, n ≤ 9 → P (.dotFrac n 9 c) = true
  h12 : ∀ n, P (.num .hours12 .hours12 n 2 1 12) = true
  h24 : ∀ n, P (.num .hours24 .hours24 n 2 0 23) = true
  mi : ∀ n, P (.num .minutes .minutes n 2 0 59) = true
  se : ∀ n, P (.num .seconds .seconds n 2 0 59) = true

theorem handlePadded_growsP (P : Step → Bool) (c : Char) (rest : Text) (st : CSt) (maxCount bit : Nat) (minV maxV : Int)
    (slot : Slot) (hP : ∀ n, P (.num slot slot n maxCount minV maxV) = true)
    (st' : CSt) (k : Nat) (h : handlePadded c rest st maxCount bit minV maxV slot = .ok (st', k)) : GrowsP P st st' := by
  unfold handlePadded at h
  cases h1 : repeatCount c rest maxCount with
  | error e => rw [h1] at h; cases h
  | ok n =>
    rw [h1] at h; dsimp only at h
    cases h2 : addField st bit with
    | error e => rw [h2] at h; cases h
    | ok st1 =>
      rw [h2] at h; injection h with h; injection h with h _
      rw [← h]
      exact growsP_of_steps_eq P st st1 _ (addField_steps st st1 bit h2) (growsP_addStep P st1 _ (hP n))

theorem handleCounted_growsP (P : Step → Bool) (c : Char) (rest : Text) (st : CSt) (maxCount bit : Nat) (mk : Nat → Step)
    (hmk : ∀ n, P (mk n) = true)
    (st' : CSt) (k : Nat) (h : handleCounted c rest st maxCount bit mk = .ok (st', k)) : GrowsP P st st' := by
  unfold handleCounted at h
  cases h1 : repeatCount c rest maxCount with
  | error e => rw [h1] at h; cases h
  | ok n =>
    rw [h1] at h; dsimp only at h
    cases h2 : addField st bit with
    | error e => rw [h2] at h; cases h
    | ok st1 =>
      rw [h2] at h; injection h with h; injection h with h _
      rw [← h]
      exact growsP_of_steps_eq P st st1 _ (addField_steps st st1 bit h2) (growsP_addStep P st1 _ (hmk n))

theorem handleDot_growsP (P : Step → Bool) (hc : TimeClosed P) (comma : Bool) (rest : Text) (st st' : CSt) (k : Nat)
    (h : handleDot comma rest st = .ok (st', k)) : GrowsP P st st' := by
  unfold handleDot at h
  split at h
  · rename_i r
    cases h1 : repeatCount 'F' r 9 with
    | error e => rw [h1] at h; cases h
    | ok n =>
      rw [h1] at h; dsimp only at h
      have hn := (repeatCount_bounds 'F' r 9 n h1).2.1
      cases h2 : addField st F.fraction with
      | error e => rw [h2] at h; cases h
      | ok st1 =>
        rw [h2] at h; injection h with h; injection h with h _
        rw [← h]
        exact growsP_of_steps_eq P st st1 _ (addField_steps st st1 _ h2) (growsP_addStep P st1 _ (hc.dotFrac n comma hn))
  · injection h with h; injection h with h _
    rw [← h]
    cases comma
    · exact growsP_addStep P st _ (hc.lit _)
    · exact growsP_addStep P st _ hc.semi

theorem handleFraction_growsP (P : Step → Bool) (hc : TimeClosed P) (c : Char) (rest : Text) (st st' : CSt) (k : Nat)
    (h : handleFraction c rest st = .ok (st', k)) : GrowsP P st st' := by
  unfold handleFraction at h
  cases h1 : repeatCount c rest 9 with
  | error e => rw [h1] at h; cases h
  | ok n =>
    rw [h1] at h; dsimp only at h
    have hn := (repeatCount_bounds c rest 9 n h1).2.1
    cases h2 : addField st F.fraction with
    | error e => rw [h2] at h; cases h
    | ok st1 =>
      rw [h2] at h; injection h with h; injection h with h _
      rw [← h]
      exact growsP_of_steps_eq P st st1 _ (addField_steps st st1 _ h2) (growsP_addStep P st1 _ (hc.frac n _ hn))

theorem handleDefault_growsP (P : Step → Bool) (hc : TimeClosed P) (c : Char) (st st' : CSt) (k : Nat)
    (h : handleDefault c st = .ok (st', k)) : GrowsP P st st' := by
  unfold handleDefault at h
  split at h
  · cases h
  · injection h with h; injection h with h _; rw [← h]; exact growsP_addStep P st _ (hc.lit _)

theorem handleCommon_growsP (P : Step → Bool) (hc : TimeClosed P) (c : Char) (rest : Text) (st st' : CSt) (k : Nat)
    (h : handleCommon c rest st = some (.ok (st', k))) : GrowsP P st st' := by
  unfold handleCommon at h
  split at h
  · injection h with h
    unfold handlePercent at h
    split at h
    · cases h
    · split at h
      · cases h
      · injection h with h; injection h with h _; rw [← h]; exact growsP_refl P st
  · split at h
    · injection h with h
      unfold handleQuote at h
      cases hq : quotedString c rest with
      | error e => rw [hq] at h; cases h
      | ok p => rw [hq] at h; injection h with h; injection h with h _; rw [← h]; exact growsP_addStep P st _ (hc.lit _)
    · split at h
      · injection h with h
        unfold handleBackslash at h
        split at h
        · cases h
        · injection h with h; injection h with h _; rw [← h]; exact growsP_addStep P st _ (hc.lit _)
      · cases h

theorem handleTime_growsP (P : Step → Bool) (hc : TimeClosed P) (cu : Culture) (c : Char) (rest : Text) (st st' : CSt) (k : Nat)
    (h : handleTime cu c rest st = .ok (st', k)) : GrowsP P st st' := by
  unfold handleTime at h
  cases hcm : handleCommon c rest st with
  | some r => rw [hcm] at h; dsimp only at h; rw [h] at hcm; exact handleCommon_growsP P hc c rest st st' k hcm
  | none =>
    rw [hcm] at h; dsimp only at h
    by_cases c1 : c = '.'
    · rw [if_pos c1] at h; exact handleDot_growsP P hc _ _ _ _ _ h
    rw [if_neg c1] at h
    by_cases c2 : c = ';'
    · rw [if_pos c2] at h; exact handleDot_growsP P hc _ _ _ _ _ h
    rw [if_neg c2] at h
    by_cases c3 : c = ':'
    · rw [if_pos c3] at h; injection h with h; injection h with h _; rw [← h]; exact growsP_addStep P st _ (hc.lit _)
    rw [if_neg c3] at h
    by_cases c4 : c = 'h'
    · rw [if_pos c4] at h; exact handlePadded_growsP P _ _ _ _ _ _ _ _ hc.h12 _ _ h
    rw [if_neg c4] at h
    by_cases c5 : c = 'H'
    · rw [if_pos c5] at h; exact handlePadded_growsP P _ _ _ _ _ _ _ _ hc.h24 _ _ h
    rw [if_neg c5] at h
    by_cases c6 : c = 'm'
    · rw [if_pos c6] at h; exact handlePadded_growsP P _ _ _ _ _ _ _ _ hc.mi _ _ h
    rw [if_neg c6] at h
    by_cases c7 : c = 's'
    · rw [if_pos c7] at h; exact handlePadded_growsP P _ _ _ _ _ _ _ _ hc.se _ _ h
    rw [if_neg c7] at h
    by_cases c8 : c = 'f' ∨ c = 'F'
    · rw [if_pos c8] at h; exact handleFraction_growsP P hc _ _ _ _ _ h
    rw [if_neg c8] at h
    by_cases c9 : c = 't'
    · rw [if_pos c9] at h; exact handleCounted_growsP P _ _ _ _ _ _ hc.amPm _ _ h
    rw [if_neg c9] at h
    exact handleDefault_growsP P hc _ _ _ _ h

theorem compileLoop_time_all (P : Step → Bool) (hc : TimeClosed P) (cu : Culture) : ∀ (fuel : Nat) (text : Text) (st st' : CSt),
    compileLoop .time cu fuel text st = .ok st' → st.steps.all P = true → st'.steps.all P = true := by
  intro fuel
  induction fuel with
  | zero =>
    intro text st st' h hs
    cases text with
    | nil => unfold compileLoop at h; injection h with h; rw [← h]; exact hs
    | cons c r => unfold compileLoop at h; cases h
  | succ f ih =>
    intro text st st' h hs
    cases text with
    | nil => unfold compileLoop at h; injection h with h; rw [← h]; exact hs
    | cons c rest =>
      unfold compileLoop at h
      cases hh : handleChar .time cu c rest st with
      | error e => rw [hh] at h; cases h
      | ok p =>
        obtain ⟨st1, k⟩ := p
        rw [hh] at h; dsimp only at h
        obtain ⟨added, e1, e2⟩ := handleTime_growsP P hc cu c rest st st1 k (by unfold handleChar at hh; exact hh)
        exact ih _ st1 st' h (by rw [e1, List.all_append, hs, e2]; rfl)

theorem timeStepWF_closed : TimeClosed timeStepWF := by
  refine ⟨fun _ => rfl, rfl, fun _ => rfl, ?_, ?_, fun _ => rfl, fun _ => rfl, fun _ => rfl, fun _ => rfl⟩
  · intro n fx hn; simp [timeStepWF, hn]
  · intro n c hn; simp [timeStepWF, hn]

/-- every LocalTime pattern `compile` accepts is a stepped pattern of well-formed time steps -/
theorem compileTime_wf (cu : Culture) (ptext : Text) (p : Pat) (h : compileTime cu ptext = .ok p) :
    ∃ c, p = .stepped c ∧ c.steps.all timeStepWF = true := by
  have key : ∀ cu' t, steppedOf (compileCustom .time cu' t) = .ok p → ∃ c, p = .stepped c ∧ c.steps.all timeStepWF = true := by
    intro cu' t hh
    unfold steppedOf at hh
    cases hc : compileCustom .time cu' t with
    | error e => rw [hc] at hh; cases hh
    | ok c =>
      rw [hc] at hh; injection hh with hh
      refine ⟨c, hh.symm, ?_⟩
      unfold compileCustom at hc
      cases h1 : compileLoop .time cu' t.length t ⟨0, []⟩ with
      | error e => rw [h1] at hc; cases hc
      | ok st =>
        rw [h1] at hc; dsimp only at hc
        split at hc
        · cases hc
        · injection hc with hc; rw [← hc]
          exact compileLoop_time_all timeStepWF timeStepWF_closed cu' _ _ _ _ h1 rfl
  unfold compileTime at h
  split at h
  · cases h
  · repeat' (first | exact key _ _ h | cases h | split at h)
  · exact key _ _ h

/-- **success_value_valid** for LocalTime: whatever pattern text was accepted, in whatever culture record, a
    successful parse of any text carries a time of day inside the day -/
theorem time_success_valid (cu : Culture) (ptext : Text) (p : Pat) (hp : compileTime cu ptext = .ok p) (l : Text) (v : List Int)
    (h : parsePat .time l p = .ok (some v)) : ∃ nod, v = [nod] ∧ 0 ≤ nod ∧ nod < 86400000000000 := by
  obtain ⟨c, rfl, hw⟩ := compileTime_wf cu ptext p hp
  simp only [parsePat] at h
  exact parseCompiled_time_valid c l v hw h

/-- the same for Offset patterns (any accepted pattern text, any culture record): an offset within ±18 h -/
theorem offset_success_valid (cu : Culture) (ptext : Text) (p : Pat) (_hp : compileOffset cu ptext = .ok p) (l : Text)
    (v : List Int) (h : parsePat .offset l p = .ok (some v)) : ∃ s, v = [s] ∧ -64800 ≤ s ∧ s ≤ 64800 :=
  parsePat_offset_valid l p v h

end Pyoda.C08
