/-
  GenAgreeC10 — agreement between the LocalTime / _TimePeriodField members GENERATED from pyoda_time's Python
  source (`PyodaGen/C10.lean`, written by tools/py2lean.py on every check) and the hand-written model
  `PyodaModel/TimeOfDay.lean`.

  `_TimePeriodField` keeps its unit in two instance attributes; the generated definitions take them as the
  parameters `unit_nanoseconds`, `units_per_day`, and the theorems instantiate them with `u.nanos`, `u.unitsPerDay`
  for each of the seven units `u : TimeUnit` (that `units_per_day = int(NANOSECONDS_PER_DAY / unit_nanoseconds)`,
  a float division in `__init__`, yields those values is tied by correspondence only).
-/
import PyodaGen.C10
import PyodaModel.TimeOfDay
import PyodaProofs.Basic

set_option linter.unusedSimpArgs false

namespace Pyoda.GenAgree.C10
open Pyoda

local macro "unfold_consts" : tactic =>
  `(tactic| simp only [NPD, NPH, NPMin, NPS, NPMs, NPUs, NPT, TPD, TPS, TPH, SPD, MsPD, UsPD, MinPD, HPD,
      LocalTime.TPMs] at *)

theorem gen_LocalTime_ctor_eq (n : Int) : Gen.C10.LocalTime.ctor n = ⟨n⟩ := rfl

theorem gen_LocalTime_new_eq (h m s ms : Int) : Gen.C10.LocalTime.new h m s ms = LocalTime.new h m s ms := by
  unfold Gen.C10.LocalTime.new LocalTime.new LocalTime.guarded
  unfold_consts
  split <;> simp only [*, if_true, if_false, bind_assoc] <;> rfl

theorem gen_LocalTime_fromHMSMsT_eq (h m s ms t : Int) :
    Gen.C10.LocalTime.fromHMSMsT h m s ms t = LocalTime.fromHMSMsT h m s ms t := by
  unfold Gen.C10.LocalTime.fromHMSMsT LocalTime.fromHMSMsT LocalTime.guarded
  unfold_consts
  split <;> simp only [*, if_true, if_false, bind_assoc] <;> rfl

theorem gen_LocalTime_fromHMST_eq (h m s t : Int) : Gen.C10.LocalTime.fromHMST h m s t = LocalTime.fromHMST h m s t := by
  unfold Gen.C10.LocalTime.fromHMST LocalTime.fromHMST LocalTime.guarded
  unfold_consts
  split <;> simp only [*, if_true, if_false, bind_assoc] <;> rfl

theorem gen_LocalTime_fromHMSNTrusted_eq (h m s n : Int) :
    Gen.C10.LocalTime.fromHMSNTrusted h m s n = ⟨h * NPH + m * NPMin + s * NPS + n⟩ := rfl

theorem gen_LocalTime_fromHMSN_eq (h m s n : Int) : Gen.C10.LocalTime.fromHMSN h m s n = LocalTime.fromHMSN h m s n := by
  unfold Gen.C10.LocalTime.fromHMSN LocalTime.fromHMSN LocalTime.guarded
  unfold_consts
  split <;> simp only [*, if_true, if_false, bind_assoc] <;> rfl

theorem gen_LocalTime_fromNanosSinceMidnight_eq (n : Int) :
    Gen.C10.LocalTime.fromNanosSinceMidnight n = LocalTime.fromNanosSinceMidnight n := by
  unfold Gen.C10.LocalTime.fromNanosSinceMidnight LocalTime.fromNanosSinceMidnight LocalTime.guarded
  unfold_consts
  split <;> simp only [*, if_true, if_false] <;> rfl

theorem gen_LocalTime_fromTicksSinceMidnight_eq (n : Int) :
    Gen.C10.LocalTime.fromTicksSinceMidnight n = LocalTime.fromTicksSinceMidnight n := by
  unfold Gen.C10.LocalTime.fromTicksSinceMidnight LocalTime.fromTicksSinceMidnight LocalTime.fromUnitsSinceMidnight
    LocalTime.guarded
  unfold_consts
  split <;> simp only [*, if_true, if_false] <;> rfl

theorem gen_LocalTime_fromMillisecondsSinceMidnight_eq (n : Int) :
    Gen.C10.LocalTime.fromMillisecondsSinceMidnight n = LocalTime.fromMillisecondsSinceMidnight n := by
  unfold Gen.C10.LocalTime.fromMillisecondsSinceMidnight LocalTime.fromMillisecondsSinceMidnight
    LocalTime.fromUnitsSinceMidnight LocalTime.guarded
  unfold_consts
  split <;> simp only [*, if_true, if_false] <;> rfl

theorem gen_LocalTime_fromSecondsSinceMidnight_eq (n : Int) :
    Gen.C10.LocalTime.fromSecondsSinceMidnight n = LocalTime.fromSecondsSinceMidnight n := by
  unfold Gen.C10.LocalTime.fromSecondsSinceMidnight LocalTime.fromSecondsSinceMidnight
    LocalTime.fromUnitsSinceMidnight LocalTime.guarded
  unfold_consts
  split <;> simp only [*, if_true, if_false] <;> rfl

theorem gen_LocalTime_fromMinutesSinceMidnight_eq (n : Int) :
    Gen.C10.LocalTime.fromMinutesSinceMidnight n = LocalTime.fromMinutesSinceMidnight n := by
  unfold Gen.C10.LocalTime.fromMinutesSinceMidnight LocalTime.fromMinutesSinceMidnight
    LocalTime.fromUnitsSinceMidnight LocalTime.guarded
  unfold_consts
  split <;> simp only [*, if_true, if_false] <;> rfl

theorem gen_LocalTime_fromHoursSinceMidnight_eq (n : Int) :
    Gen.C10.LocalTime.fromHoursSinceMidnight n = LocalTime.fromHoursSinceMidnight n := by
  unfold Gen.C10.LocalTime.fromHoursSinceMidnight LocalTime.fromHoursSinceMidnight
    LocalTime.fromUnitsSinceMidnight LocalTime.guarded
  unfold_consts
  split <;> simp only [*, if_true, if_false] <;> rfl

theorem gen_LocalTime_hour_eq (t : LocalTime) : Gen.C10.LocalTime.hour t = t.hour := rfl
theorem gen_LocalTime_clockHourOfHalfDay_eq (t : LocalTime) :
    Gen.C10.LocalTime.clockHourOfHalfDay t = t.clockHourOfHalfDay := rfl
theorem gen_LocalTime_minute_eq (t : LocalTime) : Gen.C10.LocalTime.minute t = t.minute := rfl
theorem gen_LocalTime_second_eq (t : LocalTime) : Gen.C10.LocalTime.second t = t.second := rfl
theorem gen_LocalTime_millisecond_eq (t : LocalTime) : Gen.C10.LocalTime.millisecond t = t.millisecond := rfl
theorem gen_LocalTime_microsecond_eq (t : LocalTime) : Gen.C10.LocalTime.microsecond t = t.microsecond := rfl
theorem gen_LocalTime_tickOfDay_eq (t : LocalTime) : Gen.C10.LocalTime.tickOfDay t = t.tickOfDay := rfl
theorem gen_LocalTime_tickOfSecond_eq (t : LocalTime) : Gen.C10.LocalTime.tickOfSecond t = t.tickOfSecond := rfl
theorem gen_LocalTime_nanosecondOfSecond_eq (t : LocalTime) :
    Gen.C10.LocalTime.nanosecondOfSecond t = t.nanosecondOfSecond := rfl
theorem gen_LocalTime_nanosecondOfDay_eq (t : LocalTime) : Gen.C10.LocalTime.nanosecondOfDay t = t.nanosecondOfDay := rfl
theorem gen_LocalTime_beq_eq (a b : LocalTime) : Gen.C10.LocalTime.beq a b = LocalTime.beq a b := rfl
theorem gen_LocalTime_bne_eq (a b : LocalTime) : Gen.C10.LocalTime.bne a b = !LocalTime.beq a b := by
  unfold Gen.C10.LocalTime.bne
  rw [gen_LocalTime_beq_eq]
  cases LocalTime.beq a b <;> rfl
theorem gen_LocalTime_lt_eq (a b : LocalTime) : Gen.C10.LocalTime.lt a b = LocalTime.lt a b := rfl
theorem gen_LocalTime_le_eq (a b : LocalTime) : Gen.C10.LocalTime.le a b = LocalTime.le a b := rfl
theorem gen_LocalTime_gt_eq (a b : LocalTime) : Gen.C10.LocalTime.gt a b = LocalTime.gt a b := rfl
theorem gen_LocalTime_ge_eq (a b : LocalTime) : Gen.C10.LocalTime.ge a b = LocalTime.ge a b := rfl
theorem gen_LocalTime_compareTo_eq (a b : LocalTime) : Gen.C10.LocalTime.compareTo a b = LocalTime.compareTo a b := rfl

/-! ## `_TimePeriodField` -/

theorem gen_TimeUnit_addLocalTime_eq (u : TimeUnit) (t : LocalTime) (v : Int) :
    Gen.C10.TimeUnit.addLocalTime u.nanos u.unitsPerDay t v = u.addLocalTime t v := by
  unfold Gen.C10.TimeUnit.addLocalTime TimeUnit.addLocalTime
  simp only [gen_LocalTime_ctor_eq, gen_LocalTime_nanosecondOfDay_eq, LocalTime.nanosecondOfDay]
  by_cases h1 : v > 0
  · simp only [h1, if_true]
    by_cases h2 : v > u.unitsPerDay <;> simp only [h2, if_true, if_false] <;> rfl
  · simp only [h1, if_false]
    by_cases h2 : v ≤ u.unitsPerDay <;> simp only [h2, if_true, if_false] <;> rfl

/-- every unit has a non-zero `units_per_day`, so the floor divisions of the day carry cannot raise -/
theorem gen_TimeUnit_addLocalTimeWithExtraDays_eq (u : TimeUnit) (t : LocalTime) (v : Int) :
    Gen.C10.TimeUnit.addLocalTimeWithExtraDays u.nanos u.unitsPerDay t v = .ok (u.addLocalTimeWithExtraDays t v) := by
  have hu : u.unitsPerDay ≠ 0 := by cases u <;> decide
  unfold Gen.C10.TimeUnit.addLocalTimeWithExtraDays TimeUnit.addLocalTimeWithExtraDays TimeUnit.splitDays
    Gen.pyFloorDiv
  simp only [gen_LocalTime_ctor_eq, gen_LocalTime_nanosecondOfDay_eq, LocalTime.nanosecondOfDay, if_neg hu]
  by_cases h0 : v = 0
  · simp only [h0, if_true]
  · simp only [h0, if_false]
    by_cases h1 : v ≥ 0
    · simp only [h1, if_true]
      by_cases h2 : v ≥ u.unitsPerDay
      · simp only [h2, if_true, decide_true, bind, Except.bind]
        simp only [NPD, Int.zero_add]
        split <;> simp only [*, if_true, if_false]
      · simp only [h2, if_false, decide_false, Bool.false_eq_true]
        simp only [NPD, Int.zero_add]
        split <;> simp only [*, if_true, if_false]
    · simp only [h1, if_false]
      by_cases h2 : v ≤ -u.unitsPerDay
      · simp only [h2, if_true, decide_true, bind, Except.bind]
        simp only [NPD, Int.zero_add]
        split <;> simp only [*, if_true, if_false]
      · simp only [h2, if_false, decide_false, Bool.false_eq_true]
        simp only [NPD, Int.zero_add]
        split <;> simp only [*, if_true, if_false]

theorem gen_Duration_toNanos_eq (d : Duration) : Gen.C10.Duration.toNanos d = d.toNanos := rfl

theorem gen_TimeUnit_getUnitsInDuration_eq (u : TimeUnit) (d : Duration) :
    Gen.C10.TimeUnit.getUnitsInDuration u.nanos u.unitsPerDay d = pyTdiv d.toNanos u.nanos := rfl

end Pyoda.GenAgree.C10
