/-
  C13 — results do not depend on call history or on concurrent use.
  Property theorems only; helper lemmas live in PyodaProofs.C13Lemmas.

  Sequential: for every finite history the cached answer is the uncached one
    (year-start cache, Hebrew global cache, zone-interval hash cache, `_Cache`, lazily filled maps).
  Concurrent: for every schedule of the atomic actions (one slot read/write, one lock acquire/release)
    every completed year lookup returns the computed value; lock-protected lazy creation hands one object to
    everybody; check-then-create without the lock (the pinned provider map, fixed-zone cache and calendar
    registry) does not: `lazy_unlocked_counterexample`.
-/
import PyodaModel.Cache
import PyodaProofs.C13Lemmas

namespace Pyoda.C13
open Pyoda.Cache

/-! ## year-start cache -/
section
open YearCache

/-- Within `-65536 ≤ y < 64512` (i.e. `y >> 10 ∈ [-64, 62]`: 127 consecutive validator values, none of them the 63
    of the invalid entry) slot index and validator together determine the year. -/
theorem year_key_injective {y y' : Int} (hy : InRange y) (hy' : InRange y')
    (hi : indexOf y = indexOf y') (hv : validator y = validator y') : y = y' :=
  key_injective hy hy' hi hv

/-- the range is tight: one step below or above it a year aliases an in-range year or the invalid entry -/
example : indexOf (-65537) = indexOf 65535 ∧ validator (-65537) = validator 65535 ∧ validator 65535 = validator invalidYear ∧
    validator 64512 = validator invalidYear := by decide

/-- Any finite history of in-range years, colliding or not: every answer is the computed value. -/
theorem yearCache_transparent (compute : Int → Int) (ys : List Int) (h : ∀ y ∈ ys, InRange y) :
    (YearCache.run compute YearCache.init ys).2.map (·.value) = ys.map compute :=
  (run_correct compute ys YearCache.init (good_init compute) h).2

/-- years 5 and 1029 share slot 5; each query evicts the other and still gets its own value -/
example : indexOf 5 = indexOf 1029 ∧
    (YearCache.run (fun y => 365 * y + 1) YearCache.init [5, 1029, 5, 5, 1029]).2 =
      [⟨1826, false⟩, ⟨375586, false⟩, ⟨1826, false⟩, ⟨1826, true⟩, ⟨375586, false⟩] := by decide

/-- The global Hebrew cache (value = elapsed days and two flags, next year's slot consulted while computing):
    every answer is what a cache-free evaluation packs, for all histories of years whose successor is in range too. -/
theorem hebrewCache_transparent (elapsed : Int → Int) (ys : List Int) (h : ∀ y ∈ ys, InRange y ∧ InRange (y + 1)) :
    (Hebrew.run elapsed YearCache.init ys).2.map (·.value) = ys.map (Hebrew.entryOf elapsed) :=
  (hrun_correct elapsed ys YearCache.init (good_init _) h).2

example : (Hebrew.run Hebrew.elapsedDaysNoCache YearCache.init [5, 1029, 5, 4, 1028]).2.map (·.value)
    = [5, 1029, 5, 4, 1028].map (Hebrew.entryOf Hebrew.elapsedDaysNoCache) := by decide

end

/-! ## zone-interval hash cache -/
section
open ZoneHashCache

/-- Over a base map that is a partition of the instants from `Instant.min_value` up to the end-of-time sentinel
    `hi`, with enough fuel for one 32-day period, every lookup of every history of askable instants succeeds and
    returns exactly the base map's interval. -/
theorem zoneCache_transparent (cfg : Cfg) (hi : Int) (hp : Partition cfg.get (cfg.minDays * NPD) hi)
    (hfuel : 32 * 86400000000000 < cfg.fuel) (ts : List Int) (h : ∀ t ∈ ts, Askable cfg hi t) :
    ∃ s outs, ZoneHashCache.run cfg ZoneHashCache.init ts = some (s, outs) ∧ outs.map (·.iv) = ts.map cfg.get := by
  obtain ⟨s, outs, h1, _, h2⟩ := zrun_correct hp hfuel ts ZoneHashCache.init (by intro i n hn; cases hn) h
  exact ⟨s, outs, h1, h2⟩

/-- a zone with one transition, 5 ns into period 512 -/
def twoZone : Int → Interval := fun t =>
  if t < 1415577600000000005 then ⟨beforeMin, 1415577600000000005⟩ else ⟨1415577600000000005, afterMax⟩

/-- the hypotheses are satisfiable with the real sentinels, and every valid `Instant` is askable -/
example : Partition twoZone (instantMinDays * NPD) afterMax := by
  constructor
  · intro t ht ht'
    simp only [twoZone, instantMinDays, NPD, beforeMin, afterMax] at *
    split <;> simp only <;> omega
  · intro t u ht ht' hu h1 h2
    simp only [twoZone, instantMinDays, NPD, beforeMin, afterMax] at *
    split at h1 <;> split at h2 <;> simp only at h1 h2 <;> split <;> simp_all <;> omega

example (t : Int) (h1 : instantMinDays * NPD ≤ t) (h2 : t < 2932897 * NPD) :
    Askable ⟨twoZone, instantMinDays, 32 * 86400000000000 + 1⟩ afterMax t := by
  simp only [Askable, periodOf, instantMinDays, NPD, afterMax] at *
  omega

/-- periods 0 and 512 share slot 0: instants 16 384 days apart evict each other and are still answered correctly -/
example : slotOf (periodOf 0) = slotOf (periodOf 1415577600000000000) ∧
    (ZoneHashCache.run ⟨twoZone, instantMinDays, 40⟩ ZoneHashCache.init
        [0, 1415577600000000000, 0, 1415577600000000005, 1415577600000000004]).map (fun r => r.2.map (fun o => (o.iv, o.hit, o.chainLen)))
      = some [(twoZone 0, false, 1), (twoZone 0, false, 2), (twoZone 0, false, 1),
              (twoZone 1415577600000000005, false, 2), (twoZone 0, true, 2)] := by decide

end

/-! ## `_Cache` (least-recently-added, bounded) -/
section
open Lru

theorem lru_transparent (f : Int → Int) (size : Nat) (hsz : 1 ≤ size) (ks : List Int) :
    (Lru.run f size Lru.init ks).2.map (·.res) = ks.map (fun k => .ok (f k)) :=
  (run_correct_lru f size hsz ks Lru.init (lruInv_init f size)).2

/-- after every history the dictionary holds at most `size` entries, its keys are exactly the queue, without repeats -/
theorem lru_size_le (f : Int → Int) (size : Nat) (hsz : 1 ≤ size) (ks : List Int) :
    (Lru.run f size Lru.init ks).1.dict.length ≤ size ∧
    (Lru.run f size Lru.init ks).1.dict.map Prod.fst = (Lru.run f size Lru.init ks).1.keys ∧
    (Lru.run f size Lru.init ks).1.keys.Nodup :=
  let h := (run_correct_lru f size hsz ks Lru.init (lruInv_init f size)).1
  ⟨h.le, h.keysEq, h.nodup⟩

example : (Lru.run (fun k => 7 * k + 1) 2 Lru.init [1, 2, 1, 3, 1]).2.map (·.hit) = [false, false, true, false, false] ∧
    (Lru.run (fun k => 7 * k + 1) 2 Lru.init [1, 2, 1, 3, 1]).1.keys = [3, 1] := by decide

/-- with a bound of zero the real method raises KeyError (the key evicts itself): the hypothesis `1 ≤ size` is needed -/
example : (Lru.run (fun k => k) 0 Lru.init [1]).2.map (·.res) = [.error .keyError] := by decide

end

/-! ## lazily created objects -/
section
open Lazy Interleave

/-- Sequential use: whatever the order of lookups, the same key always gets the same object (and unknown keys none). -/
theorem lazy_same_object (known : Nat → Bool) (ks : List Nat) :
    ∀ p ∈ ks.zip (srun known sinit ks).2, ∀ q ∈ ks.zip (srun known sinit ks).2, p.1 = q.1 → p.2 = q.2 := by
  intro p hp q hq hk
  rw [srun_answers known ks sinit p hp, srun_answers known ks sinit q hq, hk]

/-- … and a known key does get an object -/
theorem lazy_known_some (known : Nat → Bool) (s : SState) (k : Nat) (hk : known k = true) :
    ∃ o, (sget known s k).2 = some o := by
  obtain ⟨o, h, _⟩ := sget_binds known s k hk
  exact ⟨o, h⟩

example : (srun (fun k => k < 10) sinit [3, 7, 3, 12, 7, 3]).2 = [some 0, some 1, some 0, none, some 1, some 0] := by decide

/-- With the lock, under EVERY schedule of any number of threads making their first lookup of one key:
    all threads that have finished hold the same object, and at most one object was ever created. -/
theorem lazy_locked_same_object_interleaved (sched : List Nat) :
    (∀ i j oi oj, (runLocked sched).threads i = .done oi → (runLocked sched).threads j = .done oj → oi = oj) ∧
    (runLocked sched).shared.next ≤ 1 := by
  have h := runSched_global stepLocked LockedInv lockedInv_step sched sys0 lockedInv_init
  refine ⟨?_, h.once⟩
  intro i j oi oj hi hj
  unfold runLocked at hi hj
  have h1 := h.obj i oi (by rw [hi]; rfl)
  have h2 := h.obj j oj (by rw [hj]; rfl)
  omega

/-- the lock does not prevent progress: round-robin lets three threads finish -/
example : (List.range 3).map (fun i => result ((runLocked (roundRobin 3 12)).threads i)) = [some 0, some 0, some 0] := by
  decide

/-- Without the lock (the pinned `DateTimeZoneCache`, `DateTimeZone.for_offset`, `CalendarSystem` registry):
    both threads read "absent", both create, both store, each returns its own object. -/
theorem lazy_unlocked_counterexample :
    ∃ sched : List Nat, ∃ o0 o1 : Nat, (runUnlocked sched).threads 0 = .done o0 ∧
      (runUnlocked sched).threads 1 = .done o1 ∧ o0 ≠ o1 :=
  ⟨[0, 1, 0, 1, 0, 1, 0, 1], 0, 1, by decide⟩

end

/-! ## the year cache under interleaving -/
section
open YearCache YearCacheConc

/-- Any number of threads, any programs of in-range years, ANY schedule of the atomic actions
    (read slot / compute / write slot / return from the local entry): every completed lookup returned the computed
    value, and each thread's completed lookups are, in order, a prefix of its program. -/
theorem yearCache_interleaved (compute : Int → Int) (progs : Nat → List Int)
    (h : ∀ i, ∀ y ∈ progs i, InRange y) (sched : List Nat) (i : Nat) :
    (∀ p ∈ ((YearCacheConc.runSched compute progs sched).threads i).out, p.2 = compute p.1) ∧
    ∃ rest, ((YearCacheConc.runSched compute progs sched).threads i).out.reverse.map (·.1) ++ rest = progs i := by
  have hinv := runSched_inv (YearCacheConc.step compute) (Good compute) (fun i t => ThreadInv compute (progs i) t)
    (fun tid s t hs ht => conc_step compute (progs tid) tid s t hs ht) sched (sys0 progs) (good_init compute)
    (fun i => ⟨h i, (by intro p hp; cases hp), trivial, (by simp [sys0, pending])⟩)
  have ht := hinv.2 i
  unfold YearCacheConc.runSched
  obtain ⟨_, hout, _, hpre⟩ := ht
  rw [List.append_assoc] at hpre
  exact ⟨hout, ⟨_, hpre⟩⟩

/-- two threads hammering slot 5 with years 5 and 1029, interleaved action by action: all four lookups complete and are right -/
example : (List.range 2).map (fun i => ((YearCacheConc.runSched (fun y => 365 * y + 1) (fun i => if i = 0 then [5, 1029] else [1029, 5])
      [0, 1, 0, 1, 0, 1, 0, 1, 0, 1, 0, 1, 0, 1, 0, 1]).threads i).out.reverse)
    = [[(5, 1826), (1029, 375586)], [(1029, 375586), (5, 1826)]] := by decide

end
end Pyoda.C13
