/-
  C09 — `Period.between` for every calendar family and for the other operand kinds.

  `DateLaws k` bundles what the proofs need from a calendar: C01's `WF`, the year-length side condition, and
  `FieldLaw` for its years and months units.  It holds for the regular family (`dateLaws_regular`), for Badi
  (`C09Badi.lean`) and for the Hebrew calendars (`C09Hebrew.lean`).  From it follow, for `LocalDate`, `YearMonth`
  and `LocalDateTime` operands: the components come back in the units asked for, all of one sign, start + period
  lies between start and end and equals end when the finest unit is requested.
-/
import PyodaModel.DateArith
import PyodaProofs.C09
import PyodaProofs.C09Generic

namespace Pyoda.C09
open Pyoda Pyoda.Calendar Pyoda.DateArith Pyoda.C01

structure DateLaws (k : Cal) : Prop where
  wf : WF k.c
  ylen : YearLen k.c
  years : FieldLaw k.c (yearsField k)
  months : FieldLaw k.c (monthsField k)

theorem DateLaws.weeks {k : Cal} (L : DateLaws k) : FieldLaw k.c (weeksField k) := fixedField_law L.wf L.ylen 7 (Or.inr rfl)
theorem DateLaws.days {k : Cal} (L : DateLaws k) : FieldLaw k.c (daysField k) := fixedField_law L.wf L.ylen 1 (Or.inl rfl)
theorem DateLaws.daysExact {k : Cal} (L : DateLaws k) : FieldExact k.c (daysField k) := daysField_exact L.wf L.ylen

theorem dateLaws_regular (k : Cal) (M : Int) (hk : RegularCal k M) (hl : YearLen k.c) : DateLaws k :=
  ⟨hk.wf, hl, yearsField_law k M hk, monthsField_law k M hk⟩

/-- `Period.between(LocalDate, LocalDate, units)` for any calendar with `DateLaws` (statement as `betweenDates_spec`) -/
theorem betweenDates_laws (k : Cal) (L : DateLaws k) (mask : Nat)
    (hmask : 0 < mask ∧ mask < 16) (s e : Ymd) (hs : Valid k.c s) (he : Valid k.c e) :
    ∃ y m w d r, betweenDates k mask s e = .ok [y, m, w, d, 0, 0, 0, 0, 0, 0] ∧
      plusParts (yearsField k) (monthsField k) (weeksField k) (daysField k) s y m w d = .ok r ∧ Valid k.c r ∧
      (bit mask 0 = false → y = 0) ∧ (bit mask 1 = false → m = 0) ∧ (bit mask 2 = false → w = 0) ∧
      (bit mask 3 = false → d = 0) ∧
      (dayNo k.c s ≤ dayNo k.c e → 0 ≤ y ∧ 0 ≤ m ∧ 0 ≤ w ∧ 0 ≤ d ∧ dayNo k.c s ≤ dayNo k.c r ∧ dayNo k.c r ≤ dayNo k.c e) ∧
      (dayNo k.c e ≤ dayNo k.c s → y ≤ 0 ∧ m ≤ 0 ∧ w ≤ 0 ∧ d ≤ 0 ∧ dayNo k.c e ≤ dayNo k.c r ∧ dayNo k.c r ≤ dayNo k.c s) ∧
      (bit mask 3 = true → r = e) := by
  have ly := L.years
  have lm := L.months
  have lw := L.weeks
  have ld := L.days
  have lx := L.daysExact
  obtain ⟨p, p1, p2, p3, z0, z1, z2, z3, pf, pb⟩ :=
    dateComponents_spec (yearsField k) (monthsField k) (weeksField k) (daysField k) ly lm lw ld mask s e hs he
  have hend : bit mask 3 = true → p.rest = e := fun hb =>
    dateComponents_hits_end (yearsField k) (monthsField k) (weeksField k) (daysField k) ly lm lw ld lx mask hb s e hs he p p1
  refine ⟨p.years, p.months, p.weeks, p.days, p.rest, ?_, p2, p3, z0, z1, z2, z3, pf, pb, hend⟩
  -- the shortcuts of `between` return the same components
  have hcu : checkUnits mask timeMask = .ok () := by
    unfold checkUnits
    rw [if_neg (by rw [mask_time_free mask hmask.2]; omega)]
  unfold betweenDates
  rw [hcu]
  dsimp only
  -- what the decomposition does on each unit
  obtain ⟨n1, r1, a1, b1, v1, c1, t1, _, _⟩ := stepField_spec (yearsField k) ly (bit mask 0) s e hs he
  obtain ⟨n2, r2, a2, b2, v2, c2, t2, _, _⟩ := stepField_spec (monthsField k) lm (bit mask 1) r1 e v1 he
  obtain ⟨n3, r3, a3, b3, v3, c3, t3, _, _⟩ := stepField_spec (weeksField k) lw (bit mask 2) r2 e v2 he
  obtain ⟨n4, r4, a4, b4, v4, c4, t4, _, _⟩ := stepField_spec (daysField k) ld (bit mask 3) r3 e v3 he
  have hp : p = ⟨r4, n1, n2, n3, n4⟩ := by
    unfold dateComponents at p1
    simp only [a1, a2, a3, a4] at p1
    exact (Except.ok.inj p1).symm
  subst hp
  dsimp only at *
  by_cases heq : s = e
  · rw [if_pos heq]
    subst heq
    have q1 := pf (by omega)
    have q2 := pb (by omega)
    have e1 : n1 = 0 := by omega
    have e2 : n2 = 0 := by omega
    have e3 : n3 = 0 := by omega
    have e4 : n4 = 0 := by omega
    rw [e1, e2, e3, e4]; rfl
  · rw [if_neg heq]
    by_cases m1 : mask = 1
    · rw [if_pos m1]
      subst m1
      have hbt : yearsBetween k s e = .ok n1 := t1 (by decide)
      rw [hbt, c2 (by decide), c3 (by decide), c4 (by decide)]; rfl
    · rw [if_neg m1]
      by_cases m2 : mask = 2
      · rw [if_pos m2]
        subst m2
        have e1 : n1 = 0 := c1 (by decide)
        subst e1
        have hr1 : r1 = s := by
          have := ly.add_zero s; rw [this] at b1; exact (Except.ok.inj b1).symm
        subst hr1
        have hbt : monthsBetween k r1 e = .ok n2 := t2 (by decide)
        rw [hbt, c3 (by decide), c4 (by decide)]; rfl
      · rw [if_neg m2]
        by_cases m4 : mask = 4
        · rw [if_pos m4]
          subst m4
          have e1 : n1 = 0 := c1 (by decide)
          subst e1
          have hr1 : r1 = s := by
            have := ly.add_zero s; rw [this] at b1; exact (Except.ok.inj b1).symm
          subst hr1
          have e2 : n2 = 0 := c2 (by decide)
          subst e2
          have hr2 : r2 = r1 := by
            have := lm.add_zero r1; rw [this] at b2; exact (Except.ok.inj b2).symm
          subst hr2
          have hbt : fixedBetween k.c 7 r2 e = .ok n3 := t3 (by decide)
          rw [hbt, c4 (by decide)]; rfl
        · rw [if_neg m4]
          by_cases m8 : mask = 8
          · rw [if_pos m8]
            subst m8
            have e1 : n1 = 0 := c1 (by decide)
            subst e1
            have hr1 : r1 = s := by
              have := ly.add_zero s; rw [this] at b1; exact (Except.ok.inj b1).symm
            subst hr1
            have e2 : n2 = 0 := c2 (by decide)
            subst e2
            have hr2 : r2 = r1 := by
              have := lm.add_zero r1; rw [this] at b2; exact (Except.ok.inj b2).symm
            subst hr2
            have e3 : n3 = 0 := c3 (by decide)
            subst e3
            have hr3 : r3 = r2 := by
              have := lw.add_zero r2; rw [this] at b3; exact (Except.ok.inj b3).symm
            subst hr3
            have hbt : fixedBetween k.c 1 r3 e = .ok n4 := t4 (by decide)
            rw [hbt]; rfl
          · rw [if_neg m8]
            unfold dateComponents
            simp only [a1, a2, a3, a4]


/-! ## year-months -/

theorem mask_ym_ok : ∀ mask : Nat, mask < 4 → mask &&& (1023 - 3) = 0 := by decide

/-- what `Period.between(YearMonth, YearMonth, MONTHS)` needs beyond `DateLaws` to reach the end exactly: on the first
    of a month the years unit keeps day 1 and the months unit is exact -/
structure MonthStartLaws (k : Cal) : Prop where
  years_day1 : ∀ s n r, Valid k.c s → s.2.2 = 1 → (yearsField k).add s n = .ok r → r.2.2 = 1
  months_exact : ∀ s e, Valid k.c s → Valid k.c e → s.2.2 = 1 → e.2.2 = 1 →
    ∃ n, (monthsField k).between s e = .ok n ∧ (monthsField k).add s n = .ok e

/-- `Period.between(YearMonth, YearMonth, units)` (units ⊆ {years, months}, not empty): only years and months are
    reported, each zero unless requested (`between_units_subset`), of one sign (`between_one_sign`); adding them to the
    first day of the start month gives a valid date between the two month starts (`between_bounded`), and the start
    of the end month itself when months are requested (`between_hits_end`). -/
theorem betweenYearMonths_laws (k : Cal) (L : DateLaws k) (mask : Nat) (hmask : 0 < mask ∧ mask < 4) (s e : Int × Int)
    (hs : Valid k.c (s.1, s.2, 1)) (he : Valid k.c (e.1, e.2, 1)) :
    ∃ y m r, betweenYearMonths k mask s e = .ok [y, m, 0, 0, 0, 0, 0, 0, 0, 0] ∧
      plusParts (yearsField k) (monthsField k) (weeksField k) (daysField k) (s.1, s.2, 1) y m 0 0 = .ok r ∧ Valid k.c r ∧
      (bit mask 0 = false → y = 0) ∧ (bit mask 1 = false → m = 0) ∧
      (dayNo k.c (s.1, s.2, 1) ≤ dayNo k.c (e.1, e.2, 1) →
        0 ≤ y ∧ 0 ≤ m ∧ dayNo k.c (s.1, s.2, 1) ≤ dayNo k.c r ∧ dayNo k.c r ≤ dayNo k.c (e.1, e.2, 1)) ∧
      (dayNo k.c (e.1, e.2, 1) ≤ dayNo k.c (s.1, s.2, 1) →
        y ≤ 0 ∧ m ≤ 0 ∧ dayNo k.c (e.1, e.2, 1) ≤ dayNo k.c r ∧ dayNo k.c r ≤ dayNo k.c (s.1, s.2, 1)) ∧
      (bit mask 1 = true → MonthStartLaws k → r = (e.1, e.2, 1)) := by
  have ly := L.years
  have lm := L.months
  have lw := L.weeks
  have ld := L.days
  have hb2 : bit mask 2 = false := by
    have : mask = 1 ∨ mask = 2 ∨ mask = 3 := by omega
    rcases this with rfl | rfl | rfl <;> decide
  have hb3 : bit mask 3 = false := by
    have : mask = 1 ∨ mask = 2 ∨ mask = 3 := by omega
    rcases this with rfl | rfl | rfl <;> decide
  obtain ⟨n1, r1, a1, b1, v1, c1, t1, f1, g1⟩ := stepField_spec (yearsField k) ly (bit mask 0) (s.1, s.2, 1) (e.1, e.2, 1) hs he
  obtain ⟨n2, r2, a2, b2, v2, c2, t2, f2, g2⟩ := stepField_spec (monthsField k) lm (bit mask 1) r1 (e.1, e.2, 1) v1 he
  have a3 : stepField (weeksField k) (bit mask 2) r2 (e.1, e.2, 1) = .ok (0, r2) := by rw [hb2]; rfl
  have a4 : stepField (daysField k) (bit mask 3) r2 (e.1, e.2, 1) = .ok (0, r2) := by rw [hb3]; rfl
  have hdc : dateComponents (yearsField k) (monthsField k) (weeksField k) (daysField k) mask (s.1, s.2, 1) (e.1, e.2, 1)
      = .ok ⟨r2, n1, n2, 0, 0⟩ := by
    unfold dateComponents; simp only [a1, a2, a3, a4]
  have hpp : plusParts (yearsField k) (monthsField k) (weeksField k) (daysField k) (s.1, s.2, 1) n1 n2 0 0 = .ok r2 := by
    unfold plusParts; simp only [b1, b2, lw.add_zero r2, ld.add_zero r2]
  refine ⟨n1, n2, r2, ?_, hpp, v2, c1, c2, ?_, ?_, ?_⟩
  · have hcu : checkUnits mask (1023 - 3) = .ok () := by
      unfold checkUnits
      rw [if_neg (by rw [mask_ym_ok mask hmask.2]; omega)]
    unfold betweenYearMonths
    rw [hcu]
    dsimp only
    by_cases heq : s = e
    · rw [if_pos heq]
      subst heq
      have q1 := f1 (by omega)
      have q2 := g1 (by omega)
      have e1 : n1 = 0 := by omega
      have q3 := f2 (by omega)
      have q4 := g2 (by omega)
      have e2 : n2 = 0 := by omega
      rw [e1, e2]; rfl
    · rw [if_neg heq]
      by_cases m1 : mask = 1
      · rw [if_pos m1]
        subst m1
        have hbt : yearsBetween k (s.1, s.2, 1) (e.1, e.2, 1) = .ok n1 := t1 (by decide)
        rw [hbt, c2 (by decide)]; rfl
      · rw [if_neg m1]
        by_cases m2 : mask = 2
        · rw [if_pos m2]
          subst m2
          have e1 : n1 = 0 := c1 (by decide)
          subst e1
          have hr1 : r1 = (s.1, s.2, 1) := by
            have := ly.add_zero (s.1, s.2, 1); rw [this] at b1; exact (Except.ok.inj b1).symm
          subst hr1
          have hbt : monthsBetween k (s.1, s.2, 1) (e.1, e.2, 1) = .ok n2 := t2 (by decide)
          rw [hbt]; rfl
        · rw [if_neg m2]
          rw [hdc]
  · intro hle
    obtain ⟨p1, p2, p3⟩ := f1 hle
    obtain ⟨q1, q2, q3⟩ := f2 p3
    exact ⟨p1, q1, by omega, q3⟩
  · intro hle
    obtain ⟨p1, p2, p3⟩ := g1 hle
    obtain ⟨q1, q2, q3⟩ := g2 p2
    exact ⟨p1, q1, q2, by omega⟩
  · intro hbit hM
    have d1 : r1.2.2 = 1 := hM.years_day1 (s.1, s.2, 1) n1 r1 hs rfl b1
    obtain ⟨n, x1, x2⟩ := hM.months_exact r1 (e.1, e.2, 1) v1 he d1 rfl
    have := t2 hbit
    rw [x1] at this
    cases this
    rw [x2] at b2
    exact (Except.ok.inj b2).symm

/-! ### the regular family has `MonthStartLaws` -/

theorem addMonthsRegular_day_le (c : Calc) (M : Int) (s : Ymd) (n : Int) (r : Ymd)
    (hr : addMonthsRegular c M s n = .ok r) : r.2.2 ≤ s.2.2 := by
  unfold addMonthsRegular at hr
  by_cases h0 : n = 0
  · rw [if_pos h0] at hr; cases hr; omega
  · rw [if_neg h0] at hr
    cases hq : pyTdiv (s.2.1 - 1 + n) M with
    | error x => rw [hq] at hr; cases hr
    | ok q =>
      rw [hq] at hr
      dsimp only at hr
      unfold rangeOrOverflow at hr
      split at hr
      · cases hr
      · cases hr; exact Int.min_le_left _ _

theorem monthStart_regular (k : Cal) (M : Int) (hk : RegularCal k M) : MonthStartLaws k where
  years_day1 := by
    intro s n r hs hd ha
    obtain ⟨vr, _⟩ := (yearsField_unit k M hk).add_inv s n r hs ha
    obtain ⟨_, _, _, _, d1, _⟩ := validate_inv vr
    have ha' : addYears k s n = .ok r := ha
    unfold addYears at ha'
    by_cases h0 : n = 0
    · rw [if_pos h0] at ha'; cases ha'; exact hd
    · rw [if_neg h0] at ha'
      cases hc : checkRange n (k.c.minYear - s.1) (k.c.maxYear - s.1) with
      | error x => rw [hc] at ha'; cases ha'
      | ok u =>
        rw [hc] at ha'
        dsimp only at ha'
        unfold setYear at ha'
        rw [hk.fam] at ha'
        dsimp only at ha'
        cases ha'
        have : (setYearRegular k.c s (s.1 + n)).2.2 ≤ s.2.2 := Int.min_le_left _ _
        omega
  months_exact := by
    intro s e hs he hd1 hd2
    have u := monthsField_unit k M hk
    obtain ⟨simple, a1, v1, k1⟩ := u.add_ok s e e (e.1 * M + e.2.1 - 1 - (s.1 * M + s.2.1 - 1)) hs he he (by omega) (by omega)
    have hle : simple.2.2 ≤ s.2.2 := by
      have a1' : addMonths k s (e.1 * M + e.2.1 - 1 - (s.1 * M + s.2.1 - 1)) = .ok simple := a1
      unfold addMonths at a1'
      rw [hk.fam] at a1'
      exact addMonthsRegular_day_le _ _ _ _ _ a1'
    obtain ⟨_, _, m1, m2, d1, _⟩ := validate_inv v1
    obtain ⟨_, _, n1, n2, _, _⟩ := validate_inv he
    rw [hk.months] at m2 n2
    have hse : simple = e := by
      have e1 : simple.1 = e.1 ∧ simple.2.1 = e.2.1 := by
        rcases hk.mM with rfl | rfl <;> omega
      have e3 : simple.2.2 = e.2.2 := by omega
      exact Prod.ext e1.1 (Prod.ext e1.2 e3)
    subst hse
    have hb := u.between_eq s simple simple hs he a1
    refine ⟨_, hb, ?_⟩
    unfold correctByOne
    rw [cmp_self]
    simp only [Int.le_refl, if_true, ge_iff_le]
    split <;> exact a1

end Pyoda.C09
