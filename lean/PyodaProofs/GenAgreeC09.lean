/-
  GenAgreeC09 — agreement between the month/year arithmetic GENERATED from pyoda_time's Python source
  (`PyodaGen/C09.lean`: `_RegularYearMonthDayCalculator`, the Hebrew and Badi overrides of `_add_months` / `_set_year` /
  `_months_between` / `compare`, and the date period fields `_FixedLengthDatePeriodField`, `_YearsPeriodField`,
  `_MonthsPeriodField`) and the hand-written model `PyodaModel/DateArith.lean`.

  Dates are `_YearMonthDay` triples (`Gen.YMD`) in the calculators and `LocalDate` objects (`Gen.LDate`: packed date +
  calendar) in the fields; the model uses plain triples `Ymd`.  `ofYMD`/`toYMD` convert.  A calculator enters the
  calculators' code through its virtual `_get_days_in_month` (abstract callee `dim`, instantiated with the model's month
  length) and its `Final` attributes (parameters); it enters the fields as the object `calcObj c …` whose members are the
  model's range-checked functions.
-/
import PyodaGen.C09
import PyodaModel.DateArith
import PyodaProofs.Basic

namespace Pyoda.GenAgree.C09
open Pyoda Pyoda.Calendar Pyoda.DateArith

def ofYMD (p : Gen.YMD) : Ymd := (p.year, p.month, p.day)
def toYMD (p : Ymd) : Gen.YMD := ⟨p.1, p.2.1, p.2.2⟩

theorem toYMD_ofYMD (p : Gen.YMD) : toYMD (ofYMD p) = p := rfl
theorem ofYMD_toYMD (p : Ymd) : ofYMD (toYMD p) = p := rfl

/-- the month length of the model as the virtual `_get_days_in_month` -/
def dimOf (c : Calc) : Int → Int → R Int := fun y m => .ok (c.dim y m)

theorem gen_Calc_minYear_eq (n : Int) : Gen.C09.Calc.minYear n = n := rfl
theorem gen_Calc_maxYear_eq (n : Int) : Gen.C09.Calc.maxYear n = n := rfl
theorem gen_Calc_minYearOf_eq (k : Gen.CalcObj) : Gen.C09.Calc.minYearOf k = k.minYear := rfl
theorem gen_Calc_maxYearOf_eq (k : Gen.CalcObj) : Gen.C09.Calc.maxYearOf k = k.maxYear := rfl

/-! ## `_RegularYearMonthDayCalculator` -/

theorem gen_Regular_monthsInYear_eq (M y : Int) : Gen.C09.Regular.monthsInYear M y = M := rfl

theorem gen_Regular_setYear_eq (c : Calc) (p : Gen.YMD) (y : Int) :
    Gen.C09.Regular.setYear (dimOf c) p y = .ok (toYMD (setYearRegular c (ofYMD p) y)) := rfl

theorem pyFloorMod_ok (a b : Int) (hb : b ≠ 0) : Gen.pyFloorMod a b = .ok (Int.fmod a b) := by
  unfold Gen.pyFloorMod; rw [if_neg hb]

/-- `_add_months` of the regular calendars (`M` months in every year, `M ≠ 0`) -/
theorem gen_Regular_addMonths_eq (c : Calc) (M : Int) (hM : M ≠ 0) (p : Gen.YMD) (months : Int) :
    Gen.C09.Regular.addMonths (dimOf c) M c.minYear c.maxYear p months =
      (addMonthsRegular c M (ofYMD p) months).map toYMD := by
  unfold Gen.C09.Regular.addMonths addMonthsRegular
  by_cases h0 : months = 0
  · simp only [h0, if_true]; rfl
  · simp only [h0, if_false, gen_Calc_minYear_eq, gen_Calc_maxYear_eq, ofYMD]
    by_cases hge : p.month - 1 + months ≥ 0
    · simp only [hge, if_true]
      cases hq : pyTdiv (p.month - 1 + months) M with
      | error e => rfl
      | ok q =>
        simp only [bind, Except.bind, pyFloorMod_ok _ _ hM, regularTarget, hge, if_true, rangeOrOverflow, dimOf]
        by_cases hr : p.year + q < c.minYear ∨ p.year + q > c.maxYear
        · simp only [hr, if_true]; rfl
        · simp only [hr, if_false]; rfl
    · simp only [hge, if_false]
      cases hq : pyTdiv (p.month - 1 + months) M with
      | error e => rfl
      | ok q =>
        have hneg : p.month - 1 + months < 0 := by omega
        simp only [bind, Except.bind, pyFloorMod_ok _ _ hM, regularTarget, hge, if_false, hneg, if_true, rangeOrOverflow, dimOf]
        by_cases hz : Int.fmod (-(p.month - 1 + months)) M = 0
        · simp only [hz, if_true]
          by_cases h1 : M - M + 1 = 1
          · simp only [h1, if_true]
            by_cases hr : p.year + q - 1 + 1 < c.minYear ∨ p.year + q - 1 + 1 > c.maxYear
            · simp only [hr, if_true]; rfl
            · simp only [hr, if_false]; rfl
          · exact absurd (by omega) h1
        · simp only [hz, if_false]
          by_cases h1 : M - Int.fmod (-(p.month - 1 + months)) M + 1 = 1
          · simp only [h1, if_true]
            by_cases hr : p.year + q - 1 + 1 < c.minYear ∨ p.year + q - 1 + 1 > c.maxYear
            · simp only [hr, if_true]; rfl
            · simp only [hr, if_false]; rfl
          · simp only [h1, if_false]
            by_cases hr : p.year + q - 1 < c.minYear ∨ p.year + q - 1 > c.maxYear
            · simp only [hr, if_true]; rfl
            · simp only [hr, if_false]; rfl

/-- the comparison operators of `_YearMonthDay` are the model's packed comparison (calendars without their own `compare`) -/
theorem ymd_le_iff (c : Calc) (hc : c.ownCompare = false) (a b : Gen.YMD) :
    Gen.YMD.le a b = true ↔ cmpYmd c (ofYMD a) (ofYMD b) ≤ 0 := by
  unfold Gen.YMD.le Gen.YMD.packed cmpYmd packYmd ofYMD
  simp only [hc, Bool.false_eq_true, if_false, decide_eq_true_eq]
  omega

theorem ymd_ge_iff (c : Calc) (hc : c.ownCompare = false) (a b : Gen.YMD) :
    Gen.YMD.ge a b = true ↔ cmpYmd c (ofYMD a) (ofYMD b) ≥ 0 := by
  unfold Gen.YMD.ge Gen.YMD.packed cmpYmd packYmd ofYMD
  simp only [hc, Bool.false_eq_true, if_false, decide_eq_true_eq]
  omega

theorem ymd_lt_iff (c : Calc) (hc : c.ownCompare = false) (a b : Gen.YMD) :
    Gen.YMD.lt a b = true ↔ cmpYmd c (ofYMD a) (ofYMD b) < 0 := by
  unfold Gen.YMD.lt Gen.YMD.packed cmpYmd packYmd ofYMD
  simp only [hc, Bool.false_eq_true, if_false, decide_eq_true_eq]
  omega

/-- the shared tail of the regular and Badi `_months_between` -/
theorem correct_tail (c : Calc) (hc : c.ownCompare = false) (s e simple : Gen.YMD) (diff : Int) :
    (if Gen.YMD.le s e = true then (Except.ok (if Gen.YMD.le simple e = true then diff else diff - 1) : R Int)
      else .ok (if Gen.YMD.ge simple e = true then diff else diff + 1)) =
      .ok (correctByOne c (ofYMD s) (ofYMD e) (ofYMD simple) diff) := by
  unfold correctByOne
  by_cases h1 : cmpYmd c (ofYMD s) (ofYMD e) ≤ 0
  · rw [if_pos ((ymd_le_iff c hc s e).mpr h1), if_pos h1]
    by_cases h2 : cmpYmd c (ofYMD simple) (ofYMD e) ≤ 0
    · rw [if_pos ((ymd_le_iff c hc simple e).mpr h2), if_pos h2]
    · rw [if_neg (fun x => h2 ((ymd_le_iff c hc simple e).mp x)), if_neg h2]
  · rw [if_neg (fun x => h1 ((ymd_le_iff c hc s e).mp x)), if_neg h1]
    by_cases h2 : cmpYmd c (ofYMD simple) (ofYMD e) ≥ 0
    · rw [if_pos ((ymd_ge_iff c hc simple e).mpr h2), if_pos h2]
    · rw [if_neg (fun x => h2 ((ymd_ge_iff c hc simple e).mp x)), if_neg h2]

theorem gen_Regular_monthsBetween_eq (c : Calc) (hc : c.ownCompare = false) (M : Int) (hM : M ≠ 0) (s e : Gen.YMD) :
    Gen.C09.Regular.monthsBetween (dimOf c) M c.minYear c.maxYear s e = monthsBetweenRegular c M (ofYMD s) (ofYMD e) := by
  unfold Gen.C09.Regular.monthsBetween monthsBetweenRegular
  simp only [gen_Regular_addMonths_eq c M hM]
  show ((addMonthsRegular c M (ofYMD s) ((e.year - s.year) * M + e.month - s.month)).map toYMD >>= _) =
    (match addMonthsRegular c M (ofYMD s) ((e.year - s.year) * M + e.month - s.month) with
      | .error x => .error x
      | .ok simple => .ok (correctByOne c (ofYMD s) (ofYMD e) simple ((e.year - s.year) * M + e.month - s.month)))
  cases addMonthsRegular c M (ofYMD s) ((e.year - s.year) * M + e.month - s.month) with
  | error x => rfl
  | ok simple =>
    show (if Gen.YMD.le s e = true then _ else _) = _
    rw [correct_tail c hc s e (toYMD simple)]
    rfl

/-! ## Hebrew: `numbering s` is the value of `HebrewMonthNumbering` (CIVIL = 1, SCRIPTURAL = 2) -/

def numbering (scriptural : Bool) : Int := if scriptural then 2 else 1

theorem gen_Heb_isLeap_eq (y : Int) : Gen.C09.Heb.isLeap y = Heb.isLeap y := rfl

theorem gen_Heb_civilToScriptural_eq (y m : Int) : Gen.C09.Heb.civilToScriptural y m = Heb.civilToScriptural y m := by
  unfold Gen.C09.Heb.civilToScriptural Heb.civilToScriptural
  simp only [gen_Heb_isLeap_eq]
  rfl

theorem gen_Heb_scripturalToCivil_eq (y m : Int) : Gen.C09.Heb.scripturalToCivil y m = Heb.scripturalToCivil y m := by
  unfold Gen.C09.Heb.scripturalToCivil Heb.scripturalToCivil
  simp only [gen_Heb_isLeap_eq]
  rfl

theorem gen_HebCalc_calendarToCivilMonth_eq (s : Bool) (y m : Int) :
    Gen.C09.HebCalc.calendarToCivilMonth (numbering s) y m = Hebrew.toCivil s y m := by
  unfold Gen.C09.HebCalc.calendarToCivilMonth numbering Hebrew.toCivil
  cases s <;> simp [gen_Heb_scripturalToCivil_eq]

theorem gen_HebCalc_calendarToScripturalMonth_eq (s : Bool) (y m : Int) :
    Gen.C09.HebCalc.calendarToScripturalMonth (numbering s) y m = Hebrew.toScriptural s y m := by
  unfold Gen.C09.HebCalc.calendarToScripturalMonth numbering Hebrew.toScriptural
  cases s <;> simp [gen_Heb_civilToScriptural_eq]

theorem gen_HebCalc_civilToCalendarMonth_eq (s : Bool) (y m : Int) :
    Gen.C09.HebCalc.civilToCalendarMonth (numbering s) y m = Hebrew.fromCivil s y m := by
  unfold Gen.C09.HebCalc.civilToCalendarMonth numbering Hebrew.fromCivil
  cases s <;> simp [gen_Heb_civilToScriptural_eq]

theorem gen_HebCalc_scripturalToCalendarMonth_eq (s : Bool) (y m : Int) :
    Gen.C09.HebCalc.scripturalToCalendarMonth (numbering s) y m = Hebrew.fromScriptural s y m := by
  unfold Gen.C09.HebCalc.scripturalToCalendarMonth numbering Hebrew.fromScriptural
  cases s <;> simp [gen_Heb_scripturalToCivil_eq]

theorem gen_HebCalc_isLeap_eq (y : Int) : Gen.C09.HebCalc.isLeap y = Heb.isLeap y := rfl
theorem gen_HebCalc_monthsInYear_eq (y : Int) : Gen.C09.HebCalc.monthsInYear y = Hebrew.monthsIn y := rfl

/-- `compare` of the Hebrew calculators: the packed comparison (civil numbering) or year, civil month, day (scriptural) -/
theorem gen_HebCalc_compare_eq (s : Bool) (a b : Gen.YMD) :
    Gen.C09.HebCalc.compare (numbering s) a b = cmpYmd (Heb.cal s) (ofYMD a) (ofYMD b) := by
  unfold Gen.C09.HebCalc.compare cmpYmd numbering
  cases s
  · simp [Heb.cal, Gen.YMD.compareTo, Gen.YMD.packed, packYmd, ofYMD]
  · have e : ∀ y m, Gen.C09.HebCalc.calendarToCivilMonth 2 y m = Heb.scripturalToCivil y m := fun y m => by
      have := gen_HebCalc_calendarToCivilMonth_eq true y m
      simpa [numbering, Hebrew.toCivil] using this
    simp [Heb.cal, e, ofYMD]

theorem gen_HebCalc_addMonths_loop1_eq (dim : Int → Int → R Int) (n a b : Int) (f : Nat) (months year : Int) :
    Gen.C09.HebCalc.addMonths.loop1 dim n a b f months year = Hebrew.fwdLoop f months year := by
  induction f generalizing months year with
  | zero => rfl
  | succ k ih =>
    unfold Gen.C09.HebCalc.addMonths.loop1 Hebrew.fwdLoop
    simp only [gen_HebCalc_monthsInYear_eq, ih]

theorem gen_HebCalc_addMonths_loop2_eq (dim : Int → Int → R Int) (n a b : Int) (f : Nat) (months year : Int) :
    Gen.C09.HebCalc.addMonths.loop2 dim n a b f months year = Hebrew.backLoop f months year := by
  induction f generalizing months year with
  | zero => rfl
  | succ k ih =>
    unfold Gen.C09.HebCalc.addMonths.loop2 Hebrew.backLoop
    simp only [gen_HebCalc_monthsInYear_eq, ih]

theorem gen_HebCalc_addMonths_eq (s : Bool) (c : Calc) (p : Gen.YMD) (months : Int) :
    Gen.C09.HebCalc.addMonths (dimOf c) (numbering s) c.minYear c.maxYear p months =
      (Hebrew.addMonths s c (ofYMD p) months).map toYMD := by
  unfold Gen.C09.HebCalc.addMonths Hebrew.addMonths
  by_cases h0 : months = 0
  · simp only [h0, if_true]; rfl
  · simp only [h0, if_false, gen_Calc_minYear_eq, gen_Calc_maxYear_eq, ofYMD, gen_HebCalc_calendarToCivilMonth_eq,
      gen_HebCalc_addMonths_loop1_eq, gen_HebCalc_addMonths_loop2_eq, gen_HebCalc_monthsInYear_eq,
      gen_HebCalc_civilToCalendarMonth_eq, Hebrew.loopFuel]
    cases pyTdiv months 235 with
    | error e => rfl
    | ok q =>
      simp only [bind, Except.bind, Hebrew.walk, Hebrew.loopFuel]
      by_cases hp : csharpMod months 235 > 0
      · simp only [hp, if_true]
        cases Hebrew.fwdLoop 32 (csharpMod months 235 + (Hebrew.toCivil s p.year p.month - 1)) (p.year + q * 19) with
        | error e => rfl
        | ok r =>
          simp only [dimOf, rangeOrOverflow]
          by_cases hr : r.2 < c.minYear ∨ r.2 > c.maxYear
          · simp only [hr, if_true]; rfl
          · simp only [hr, if_false]; rfl
      · simp only [hp, if_false]
        cases Hebrew.backLoop 32 (csharpMod months 235 - (Hebrew.monthsIn (p.year + q * 19) - Hebrew.toCivil s p.year p.month)) (p.year + q * 19) with
        | error e => rfl
        | ok r =>
          simp only [dimOf, rangeOrOverflow]
          by_cases hr : r.2 < c.minYear ∨ r.2 > c.maxYear
          · simp only [hr, if_true]; rfl
          · simp only [hr, if_false]; rfl


/-- `_set_year` of the Hebrew calculators; `_HebrewScripturalCalculator._days_in_month` is the model's `Heb.dimS` -/
theorem gen_HebCalc_setYear_eq (s : Bool) (p : Gen.YMD) (y : Int) :
    Gen.C09.HebCalc.setYear (fun y m => .ok (Heb.dimS y m)) (numbering s) p y = .ok (toYMD (Hebrew.setYear s (ofYMD p) y)) := by
  unfold Gen.C09.HebCalc.setYear Hebrew.setYear
  simp only [gen_HebCalc_calendarToScripturalMonth_eq, gen_HebCalc_scripturalToCalendarMonth_eq, gen_HebCalc_isLeap_eq, ofYMD,
    bind, Except.bind]
  by_cases hL : Heb.isLeap y = true <;> by_cases hL0 : Heb.isLeap p.year = true <;> by_cases h13 : Hebrew.toScriptural s p.year p.month = 13 <;>
    by_cases h12 : Hebrew.toScriptural s p.year p.month = 12 <;> by_cases hd : p.day = 30 <;> by_cases h8 : Hebrew.toScriptural s p.year p.month = 8 <;> by_cases h9 : Hebrew.toScriptural s p.year p.month = 9 <;>
    by_cases d12 : Heb.dimS y 12 = 30 <;> by_cases d8 : Heb.dimS y 8 = 30 <;>
    by_cases d9 : Heb.dimS y 9 = 30 <;>
    first
    | omega
    | simp_all [toYMD]

/-! ## Badi -/

theorem beq_eq_decide (a b : Int) : (a == b) = decide (a = b) := by
  by_cases h : a = b <;> simp [h]

theorem gen_Badi_isInAyyamiHa_eq (p : Gen.YMD) : Gen.C09.Badi.isInAyyamiHa p = BadiArith.inAyyamiHa (ofYMD p) := by
  unfold Gen.C09.Badi.isInAyyamiHa BadiArith.inAyyamiHa ofYMD
  rw [beq_eq_decide, Bool.decide_and]

theorem range_tail (c : Calc) (ny m d : Int) :
    (if ny < c.minYear ∨ ny > c.maxYear then (Except.error .overflowError : R Gen.YMD) else .ok ⟨ny, m, d⟩) =
      (if ny < c.minYear ∨ ny > c.maxYear then (Except.error .overflowError : R Ymd) else .ok (ny, m, d)).map toYMD := by
  split <;> rfl

theorem gen_Badi_addMonths_eq (c : Calc) (p : Gen.YMD) (months : Int) :
    Gen.C09.Badi.addMonths c.minYear c.maxYear p months = (BadiArith.addMonths c (ofYMD p) months).map toYMD := by
  unfold Gen.C09.Badi.addMonths BadiArith.addMonths
  simp only [gen_Badi_isInAyyamiHa_eq, gen_Calc_minYear_eq, gen_Calc_maxYear_eq, rangeOrOverflow]
  by_cases h0 : months = 0
  · simp only [h0, if_true]; rfl
  · simp only [h0, if_false]
    by_cases ha : BadiArith.inAyyamiHa (ofYMD p) = true
    · simp only [ha, if_true, true_and, decide_eq_true_eq]
      by_cases hb : months < 0
      · simp only [hb, if_true]
        exact range_tail c _ _ _
      · simp only [hb, if_false]
        exact range_tail c _ _ _
    · have ha' : BadiArith.inAyyamiHa (ofYMD p) = false := by simpa using ha
      simp only [ha', Bool.false_eq_true, if_false, false_and]
      exact range_tail c _ _ _

theorem gen_Badi_monthsBetween_eq (c : Calc) (hc : c.ownCompare = false) (s e : Gen.YMD) :
    Gen.C09.Badi.monthsBetween c.minYear c.maxYear s e = BadiArith.monthsBetween c (ofYMD s) (ofYMD e) := by
  unfold Gen.C09.Badi.monthsBetween BadiArith.monthsBetween
  simp only [gen_Badi_isInAyyamiHa_eq, gen_Badi_addMonths_eq]
  by_cases h : BadiArith.inAyyamiHa (ofYMD s) = true ∧ Gen.YMD.lt e s = true
  · have h' : BadiArith.inAyyamiHa (ofYMD s) = true ∧ cmpYmd c (ofYMD e) (ofYMD s) < 0 := ⟨h.1, (ymd_lt_iff c hc e s).mp h.2⟩
    rw [if_pos h]
    simp only [h', and_self, if_true]
    show ((BadiArith.addMonths c (ofYMD s) ((e.year - s.year) * 19 + e.month - (s.month + 1))).map toYMD >>= _) =
      (match BadiArith.addMonths c (ofYMD s) ((e.year - s.year) * 19 + e.month - (s.month + 1)) with
        | .error x => .error x
        | .ok simple => .ok (correctByOne c (ofYMD s) (ofYMD e) simple ((e.year - s.year) * 19 + e.month - (s.month + 1))))
    cases BadiArith.addMonths c (ofYMD s) ((e.year - s.year) * 19 + e.month - (s.month + 1)) with
    | error x => rfl
    | ok simple =>
      show (if Gen.YMD.le s e = true then _ else _) = _
      rw [correct_tail c hc s e (toYMD simple)]; rfl
  · have h' : ¬ (BadiArith.inAyyamiHa (ofYMD s) = true ∧ cmpYmd c (ofYMD e) (ofYMD s) < 0) :=
      fun x => h ⟨x.1, (ymd_lt_iff c hc e s).mpr x.2⟩
    rw [if_neg h]
    simp only [h', if_false]
    show ((BadiArith.addMonths c (ofYMD s) ((e.year - s.year) * 19 + e.month - s.month)).map toYMD >>= _) =
      (match BadiArith.addMonths c (ofYMD s) ((e.year - s.year) * 19 + e.month - s.month) with
        | .error x => .error x
        | .ok simple => .ok (correctByOne c (ofYMD s) (ofYMD e) simple ((e.year - s.year) * 19 + e.month - s.month)))
    cases BadiArith.addMonths c (ofYMD s) ((e.year - s.year) * 19 + e.month - s.month) with
    | error x => rfl
    | ok simple =>
      show (if Gen.YMD.le s e = true then _ else _) = _
      rw [correct_tail c hc s e (toYMD simple)]; rfl

/-- `_set_year` of the Badi calculator; `_get_days_in_ayyami_ha(new_year)` (years 1 … 1000 after the range check) is the
    model's `Badi.ayyamiHa` -/
theorem gen_Badi_setYear_eq (c : Calc) (ayy : Int → R Int) (hayy : ∀ y, 1 ≤ y → y ≤ 1000 → ayy y = .ok (Badi.ayyamiHa y))
    (p : Gen.YMD) (y : Int) :
    Gen.C09.Badi.setYear ayy p y = (BadiArith.setYear c (ofYMD p) y).map toYMD := by
  unfold Gen.C09.Badi.setYear BadiArith.setYear checkRange
  simp only [gen_Badi_isInAyyamiHa_eq]
  by_cases hr : y < 1 ∨ y > 1000
  · simp only [hr, if_true]; rfl
  · simp only [hr, if_false, bind, Except.bind]
    by_cases ha : BadiArith.inAyyamiHa (ofYMD p) = true
    · simp only [ha, if_true, hayy y (by omega) (by omega)]; rfl
    · have ha' : BadiArith.inAyyamiHa (ofYMD p) = false := by simpa using ha
      simp only [ha', Bool.false_eq_true, if_false]; rfl

/-! ## the date period fields: `LocalDate` objects over the calculator object of a model calendar -/

/-- the `_YearMonthDayCalculator` object of the model calendar `c`: its virtual members are the model's range-checked
    functions; `_set_year`, `_add_months`, `_months_between` are given (they depend on the calendar family) -/
def calcObj (c : Calc) (sy : Gen.YMD → Int → R Gen.YMD) (am : Gen.YMD → Int → R Gen.YMD) (mb : Gen.YMD → Gen.YMD → R Int) :
    Gen.CalcObj where
  startOfYear := c.startR
  daysInYear := c.lenR
  daysSinceEpoch := fun p => daysOfYmdRaw c p.year p.month p.day
  ymdOfDays := fun d => (ymdOfDays c d).map toYMD
  daysInMonth := fun y m => .ok (c.dim y m)
  monthsInYear := fun y => .ok (c.months y)
  validate := validate c
  dayOfYear := fun p => .ok (dayOfYear c p.year p.month p.day)
  ymdOfYearDay := fun y doy => (ofYearDay c y doy).map toYMD
  minYear := c.minYear
  maxYear := c.maxYear
  setYear := sy
  addMonths := am
  monthsBetween := mb

/-- the `CalendarSystem` object: the calculator and the four range attributes (`lo`, `hi` = `_min_days`, `_max_days`) -/
def calSys (c : Calc) (k : Gen.CalcObj) (lo hi : Int) : Gen.CalSys := ⟨k, c.minYear, c.maxYear, lo, hi⟩

/-- the `LocalDate` with fields `p` in that calendar -/
def dateOf (cs : Gen.CalSys) (p : Ymd) : Gen.LDate := ⟨⟨toYMD p, cs⟩⟩

theorem gen_CalendarSystem_minDays_eq (cs : Gen.CalSys) : Gen.C09.CalendarSystem.minDays cs = cs.minDays := rfl
theorem gen_CalendarSystem_maxDays_eq (cs : Gen.CalSys) : Gen.C09.CalendarSystem.maxDays cs = cs.maxDays := rfl
theorem gen_CalendarSystem_calculator_eq (cs : Gen.CalSys) : Gen.C09.CalendarSystem.calculator cs = cs.calculator := rfl
theorem gen_CalendarSystem_getDaysSinceEpoch_eq (cs : Gen.CalSys) (p : Gen.YMD) :
    Gen.C09.CalendarSystem.getDaysSinceEpoch cs p = cs.calculator.daysSinceEpoch p := rfl
theorem gen_LocalDate_ofYmdc_eq (x : Gen.YMDC) : Gen.C09.LocalDate.ofYmdc x = ⟨x⟩ := rfl
theorem gen_LocalDate_calendarOrdinal_eq (d : Gen.LDate) : Gen.C09.LocalDate.calendarOrdinal d = d.ymdc.calendar := rfl
theorem gen_LocalDate_calendar_eq (d : Gen.LDate) : Gen.C09.LocalDate.calendar d = d.ymdc.calendar := rfl
theorem gen_LocalDate_year_eq (d : Gen.LDate) : Gen.C09.LocalDate.year d = d.ymdc.ymd.year := rfl
theorem gen_LocalDate_month_eq (d : Gen.LDate) : Gen.C09.LocalDate.month d = d.ymdc.ymd.month := rfl
theorem gen_LocalDate_day_eq (d : Gen.LDate) : Gen.C09.LocalDate.day d = d.ymdc.ymd.day := rfl
theorem gen_LocalDate_yearMonthDay_eq (d : Gen.LDate) : Gen.C09.LocalDate.yearMonthDay d = d.ymdc.ymd := rfl
theorem gen_LocalDate_daysSinceEpoch_eq (d : Gen.LDate) :
    Gen.C09.LocalDate.daysSinceEpoch d = d.ymdc.calendar.calculator.daysSinceEpoch d.ymdc.ymd := rfl

/-- `CalendarSystem._get_year_month_day_calendar_from_days_since_epoch` is the model's `fromDays` -/
theorem gen_CalendarSystem_ymdcFromDays_eq (c : Calc) (sy am mb) (lo hi : Int) (hlo : minDays c = .ok lo) (hhi : maxDays c = .ok hi)
    (d : Int) :
    Gen.C09.CalendarSystem.ymdcFromDays (calSys c (calcObj c sy am mb) lo hi) d =
      (fromDays c d).map (fun r => ⟨toYMD r, calSys c (calcObj c sy am mb) lo hi⟩) := by
  unfold Gen.C09.CalendarSystem.ymdcFromDays fromDays
  rw [hlo, hhi]
  simp only [gen_CalendarSystem_minDays_eq, gen_CalendarSystem_maxDays_eq, gen_CalendarSystem_calculator_eq, calSys, calcObj,
    bind, Except.bind]
  unfold checkRange
  by_cases h : d < lo ∨ d > hi
  · simp only [h, if_true]; rfl
  · simp only [h, if_false]
    cases ymdOfDays c d <;> rfl

theorem gen_LocalDate_ofDays_eq (c : Calc) (sy am mb) (lo hi : Int) (hlo : minDays c = .ok lo) (hhi : maxDays c = .ok hi) (d : Int) :
    Gen.C09.LocalDate.ofDays d (calSys c (calcObj c sy am mb) lo hi) =
      (fromDays c d).map (dateOf (calSys c (calcObj c sy am mb) lo hi)) := by
  unfold Gen.C09.LocalDate.ofDays
  rw [gen_CalendarSystem_ymdcFromDays_eq c sy am mb lo hi hlo hhi]
  cases fromDays c d <;> rfl

/-- `_FixedLengthDatePeriodField(unit_days).add` (days and weeks): both fast paths and the general path -/
theorem gen_FixedField_add_eq (c : Calc) (sy am mb) (lo hi : Int) (hlo : minDays c = .ok lo) (hhi : maxDays c = .ok hi)
    (u : Int) (p : Ymd) (v : Int) :
    Gen.C09.FixedField.add u (dateOf (calSys c (calcObj c sy am mb) lo hi) p) v =
      (addFixed c u p v).map (dateOf (calSys c (calcObj c sy am mb) lo hi)) := by
  unfold Gen.C09.FixedField.add addFixed
  by_cases h0 : v = 0
  · simp only [h0, if_true]; rfl
  · simp only [h0, if_false]
    by_cases hfast : 300 > v * u ∧ v * u > -300
    · have hfast' : -300 < v * u ∧ v * u < 300 := ⟨hfast.2, hfast.1⟩
      simp only [hfast, hfast', and_self, if_true]
      unfold fastPath
      simp only [gen_LocalDate_calendar_eq, gen_CalendarSystem_calculator_eq, gen_LocalDate_yearMonthDay_eq, gen_LocalDate_year_eq,
        gen_LocalDate_month_eq, gen_LocalDate_day_eq, gen_Calc_minYearOf_eq, gen_Calc_maxYearOf_eq, gen_LocalDate_ofYmdc_eq,
        dateOf, toYMD, calSys, calcObj, bind, Except.bind, dayOfYear]
      by_cases h1 : 1 ≤ p.2.2 + v * u
      · simp only [h1, if_true, true_and]
        by_cases h2 : p.2.2 + v * u ≤ c.dim p.1 p.2.1
        · simp only [h2, if_true]; rfl
        · simp only [h2, if_false]
          by_cases h3 : c.toMonth p.1 p.2.1 + p.2.2 + v * u < 1
          · simp only [h3, if_true]
            cases c.lenR (p.1 - 1) with
            | error e => rfl
            | ok l =>
              simp only
              by_cases h4 : p.1 - 1 < c.minYear
              · simp only [h4, if_true]; rfl
              · simp only [h4, if_false]
                cases ofYearDay c (p.1 - 1) (c.toMonth p.1 p.2.1 + p.2.2 + v * u + l) <;> rfl
          · simp only [h3, if_false]
            cases c.lenR p.1 with
            | error e => rfl
            | ok l =>
              simp only
              by_cases h5 : c.toMonth p.1 p.2.1 + p.2.2 + v * u > l
              · simp only [h5, if_true]
                by_cases h6 : p.1 + 1 > c.maxYear
                · simp only [h6, if_true]; rfl
                · simp only [h6, if_false]
                  cases ofYearDay c (p.1 + 1) (c.toMonth p.1 p.2.1 + p.2.2 + v * u - l) <;> rfl
              · simp only [h5, if_false]
                cases ofYearDay c p.1 (c.toMonth p.1 p.2.1 + p.2.2 + v * u) <;> rfl
      · simp only [h1, if_false, false_and]
        by_cases h3 : c.toMonth p.1 p.2.1 + p.2.2 + v * u < 1
        · simp only [h3, if_true]
          cases c.lenR (p.1 - 1) with
          | error e => rfl
          | ok l =>
            simp only
            by_cases h4 : p.1 - 1 < c.minYear
            · simp only [h4, if_true]; rfl
            · simp only [h4, if_false]
              cases ofYearDay c (p.1 - 1) (c.toMonth p.1 p.2.1 + p.2.2 + v * u + l) <;> rfl
        · simp only [h3, if_false]
          cases c.lenR p.1 with
          | error e => rfl
          | ok l =>
            simp only
            by_cases h5 : c.toMonth p.1 p.2.1 + p.2.2 + v * u > l
            · simp only [h5, if_true]
              by_cases h6 : p.1 + 1 > c.maxYear
              · simp only [h6, if_true]; rfl
              · simp only [h6, if_false]
                cases ofYearDay c (p.1 + 1) (c.toMonth p.1 p.2.1 + p.2.2 + v * u - l) <;> rfl
            · simp only [h5, if_false]
              cases ofYearDay c p.1 (c.toMonth p.1 p.2.1 + p.2.2 + v * u) <;> rfl
    · have hfast' : ¬ (-300 < v * u ∧ v * u < 300) := fun x => hfast ⟨x.2, x.1⟩
      simp only [hfast, hfast', if_false]
      unfold slowPath daysOf
      rw [gen_LocalDate_daysSinceEpoch_eq, gen_LocalDate_calendar_eq]
      show (daysOfYmdRaw c p.1 p.2.1 p.2.2 >>= fun t => Gen.C09.LocalDate.ofDays (t + v * u) _) = _
      cases daysOfYmdRaw c p.1 p.2.1 p.2.2 with
      | error e => rfl
      | ok d0 => exact gen_LocalDate_ofDays_eq c sy am mb lo hi hlo hhi (d0 + v * u)

/-- `_FixedLengthDatePeriodField.units_between`: `Period._internal_days_between` is the model's `daysBetween`; the division
    keeps the Decimal-domain guard, hence the bounds -/
theorem gen_FixedField_unitsBetween_eq (c : Calc) (cs : Gen.CalSys) (u : Int) (s e : Ymd) (n : Int)
    (hn : daysBetween c s e = .ok n) (hu : u ≠ 0) (hu1 : -decBound < u) (hu2 : u < decBound) (hn1 : -decBound < n) (hn2 : n < decBound) :
    Gen.C09.FixedField.unitsBetween (fun a b => daysBetween c (ofYMD a.ymdc.ymd) (ofYMD b.ymdc.ymd)) u (dateOf cs s) (dateOf cs e) =
      fixedBetween c u s e := by
  unfold Gen.C09.FixedField.unitsBetween fixedBetween
  show (daysBetween c s e >>= fun t => pyTdiv t u) = _
  rw [hn]
  exact pyTdiv_ok n u hu hn1 hn2 hu1 hu2

/-- an error of the day-number lookups is the error of `units_between` -/
theorem gen_FixedField_unitsBetween_error (c : Calc) (cs : Gen.CalSys) (u : Int) (s e : Ymd) (x : PyExc)
    (hn : daysBetween c s e = .error x) :
    Gen.C09.FixedField.unitsBetween (fun a b => daysBetween c (ofYMD a.ymdc.ymd) (ofYMD b.ymdc.ymd)) u (dateOf cs s) (dateOf cs e) =
      fixedBetween c u s e := by
  unfold Gen.C09.FixedField.unitsBetween fixedBetween
  show (daysBetween c s e >>= fun t => pyTdiv t u) = _
  rw [hn]; rfl

/-- `_YearsPeriodField.add`; the calculator's `_set_year` is the model's per-family `setYear` -/
theorem gen_YearsField_add_eq (k : Cal) (am mb) (lo hi : Int) (p : Ymd) (v : Int) :
    Gen.C09.YearsField.add
        (dateOf (calSys k.c (calcObj k.c (fun q y => (setYear k (ofYMD q) y).map toYMD) am mb) lo hi) p) v =
      (addYears k p v).map (dateOf (calSys k.c (calcObj k.c (fun q y => (setYear k (ofYMD q) y).map toYMD) am mb) lo hi)) := by
  unfold Gen.C09.YearsField.add addYears
  by_cases h0 : v = 0
  · simp only [h0, if_true]; rfl
  · simp only [h0, if_false, gen_LocalDate_calendar_eq, gen_CalendarSystem_calculator_eq, gen_LocalDate_yearMonthDay_eq,
      gen_Calc_minYearOf_eq, gen_Calc_maxYearOf_eq, gen_LocalDate_ofYmdc_eq, dateOf, calSys, calcObj, toYMD, ofYMD]
    cases checkRange v (k.c.minYear - p.1) (k.c.maxYear - p.1) with
    | error e => rfl
    | ok _ =>
      simp only [bind, Except.bind]
      cases setYear k (p.1, p.2.1, p.2.2) (p.1 + v) <;> rfl

/-- `_MonthsPeriodField.add`; the calculator's `_add_months` is the model's per-family `addMonths` -/
theorem gen_MonthsField_add_eq (k : Cal) (sy mb) (lo hi : Int) (p : Ymd) (v : Int) :
    Gen.C09.MonthsField.add
        (dateOf (calSys k.c (calcObj k.c sy (fun q n => (addMonths k (ofYMD q) n).map toYMD) mb) lo hi) p) v =
      (addMonths k p v).map (dateOf (calSys k.c (calcObj k.c sy (fun q n => (addMonths k (ofYMD q) n).map toYMD) mb) lo hi)) := by
  unfold Gen.C09.MonthsField.add
  simp only [gen_LocalDate_calendar_eq, gen_CalendarSystem_calculator_eq, gen_LocalDate_yearMonthDay_eq, gen_LocalDate_ofYmdc_eq,
    dateOf, calSys, calcObj, toYMD, ofYMD, bind, Except.bind]
  cases addMonths k (p.1, p.2.1, p.2.2) v <;> rfl

theorem gen_MonthsField_unitsBetween_eq (k : Cal) (sy am) (lo hi : Int) (s e : Ymd) :
    Gen.C09.MonthsField.unitsBetween
        (dateOf (calSys k.c (calcObj k.c sy am (fun a b => monthsBetween k (ofYMD a) (ofYMD b))) lo hi) s)
        (dateOf (calSys k.c (calcObj k.c sy am (fun a b => monthsBetween k (ofYMD a) (ofYMD b))) lo hi) e) =
      monthsBetween k s e := rfl

/-! ## the calculators assembled per family: the generated `_add_months` of each family is the model's dispatcher -/

/-- regular calendars: `k.c.months y` months in every year -/
theorem gen_addMonths_regular (k : Cal) (hk : k.fam = .regular) (M : Int) (hM : M ≠ 0) (hmon : ∀ y, k.c.months y = M)
    (p : Gen.YMD) (n : Int) :
    Gen.C09.Regular.addMonths (dimOf k.c) M k.c.minYear k.c.maxYear p n = (addMonths k (ofYMD p) n).map toYMD := by
  rw [gen_Regular_addMonths_eq k.c M hM]
  unfold addMonths
  rw [hk, hmon]

theorem gen_addMonths_hebrew (k : Cal) (scr : Bool) (hk : k.fam = .hebrew scr) (p : Gen.YMD) (n : Int) :
    Gen.C09.HebCalc.addMonths (dimOf k.c) (numbering scr) k.c.minYear k.c.maxYear p n = (addMonths k (ofYMD p) n).map toYMD := by
  rw [gen_HebCalc_addMonths_eq scr k.c]
  unfold addMonths
  rw [hk]

theorem gen_addMonths_badi (k : Cal) (hk : k.fam = .badi) (p : Gen.YMD) (n : Int) :
    Gen.C09.Badi.addMonths k.c.minYear k.c.maxYear p n = (addMonths k (ofYMD p) n).map toYMD := by
  rw [gen_Badi_addMonths_eq k.c]
  unfold addMonths
  rw [hk]

/-! ## kernel evaluation on concrete dates (ISO: the Gregorian calculator of the model, 12 months) -/

example : Gen.C09.Regular.addMonths (dimOf Greg.cal) 12 Greg.cal.minYear Greg.cal.maxYear ⟨2023, 1, 31⟩ 1 = .ok ⟨2023, 2, 28⟩ := by decide
example : Gen.C09.Regular.addMonths (dimOf Greg.cal) 12 Greg.cal.minYear Greg.cal.maxYear ⟨2023, 1, 31⟩ (-13) = .ok ⟨2021, 12, 31⟩ := by decide
example : Gen.C09.Regular.monthsBetween (dimOf Greg.cal) 12 Greg.cal.minYear Greg.cal.maxYear ⟨2023, 1, 31⟩ ⟨2023, 3, 30⟩ = .ok 1 := by decide
example : Gen.C09.HebCalc.addMonths (dimOf (Heb.cal false)) 1 1 9999 ⟨5784, 6, 1⟩ 1 = .ok ⟨5784, 7, 1⟩ := by decide
example : Gen.C09.Badi.addMonths 1 999 ⟨180, 18, 22⟩ (-1) = .ok ⟨180, 18, 3⟩ := by decide

end Pyoda.GenAgree.C09
