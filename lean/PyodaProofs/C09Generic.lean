/-
  C09 — calendar-independent lemmas used for the Hebrew and Badi units and for `Period.between` on year-months and
  date-times: the "difference corrected by one" scheme for a fixed start date whose backward count may start one key
  later (Badi Ayyam-i-Ha), and the years unit for any `_set_year` that returns a valid date of the requested year.
-/
import PyodaModel.DateArith
import PyodaProofs.C09Lemmas

namespace Pyoda.C09
open Pyoda Pyoda.Calendar Pyoda.DateArith Pyoda.C01

variable {c : Calc}

/-- `FieldLaw.law` for one start date `s`.  `K` is the coarse key of dates, `Kb ∈ {K s, K s + 1}` the key the backward
    count starts from. -/
theorem coarse_law_at (h : WF c) (f : Field) (K : Ymd → Int) (s : Ymd) (hs : Valid c s) (Kb : Int)
    (hKb : Kb = K s ∨ Kb = K s + 1)
    (hK : ∀ a b, Valid c a → Valid c b → K a < K b → dayNo c a < dayNo c b)
    (hzero : f.add s 0 = .ok s)
    (haddF : ∀ n b, 0 < n → Valid c b → K s + n ≤ K b → ∃ r, f.add s n = .ok r ∧ Valid c r ∧ K r = K s + n)
    (haddB : ∀ n a, n < 0 → Valid c a → K a ≤ Kb + n →
      ∃ r, f.add s n = .ok r ∧ Valid c r ∧ K r = Kb + n ∧ dayNo c r ≤ dayNo c s)
    (hbetweenF : ∀ e simple, Valid c e → dayNo c s ≤ dayNo c e → f.add s (K e - K s) = .ok simple →
      f.between s e = .ok (correctByOne c s e simple (K e - K s)))
    (hbetweenB : ∀ e simple, Valid c e → dayNo c e < dayNo c s → f.add s (K e - Kb) = .ok simple →
      f.between s e = .ok (correctByOne c s e simple (K e - Kb)))
    (e : Ymd) (he : Valid c e) :
    ∃ n r, f.between s e = .ok n ∧ f.add s n = .ok r ∧ Valid c r ∧
      (dayNo c s ≤ dayNo c e → 0 ≤ n ∧ dayNo c s ≤ dayNo c r ∧ dayNo c r ≤ dayNo c e) ∧
      (dayNo c e ≤ dayNo c s → n ≤ 0 ∧ dayNo c e ≤ dayNo c r ∧ dayNo c r ≤ dayNo c s) := by
  have hK' : ∀ a b, Valid c a → Valid c b → dayNo c a ≤ dayNo c b → K a ≤ K b := by
    intro a b ha hb hle
    by_cases hlt : K b < K a
    · have := hK b a hb ha hlt; omega
    · omega
  have cs := cmp_sign h s e hs he
  by_cases hle : dayNo c s ≤ dayNo c e
  · -- forward
    have hk := hK' s e hs he hle
    have key : ∃ simple, f.add s (K e - K s) = .ok simple ∧ Valid c simple ∧ K simple = K e ∧ dayNo c s ≤ dayNo c simple := by
      by_cases h0 : K e - K s = 0
      · rw [h0]; exact ⟨s, hzero, hs, by omega, by omega⟩
      · obtain ⟨r, r1, r2, r3⟩ := haddF (K e - K s) e (by omega) he (by omega)
        exact ⟨r, r1, r2, by omega, by have := hK s r hs r2 (by omega); omega⟩
    obtain ⟨simple, a1, v1, k1, o1⟩ := key
    have hb := hbetweenF e simple he hle a1
    have cq := cmp_sign h simple e v1 he
    unfold correctByOne at hb
    rw [if_pos (by have := cs.1; have := cs.2.1; have := cs.2.2; omega)] at hb
    by_cases hq : cmpYmd c simple e ≤ 0
    · rw [if_pos hq] at hb
      have hqd : dayNo c simple ≤ dayNo c e := by have := cq.2.2; omega
      refine ⟨_, simple, hb, a1, v1, fun _ => ⟨by omega, o1, hqd⟩, ?_⟩
      intro hge
      have e3 := valid_inj h e s he hs (by omega)
      subst e3
      have h0 : K e - K e = 0 := by omega
      rw [h0, hzero] at a1; cases a1
      exact ⟨by omega, by omega, by omega⟩
    · rw [if_neg hq] at hb
      have hqd : dayNo c simple > dayNo c e := by have := cq.2.2; omega
      have hne : K e - K s ≠ 0 := by
        intro h0; rw [h0, hzero] at a1; cases a1; omega
      have key2 : ∃ r, f.add s (K e - K s - 1) = .ok r ∧ Valid c r ∧ dayNo c s ≤ dayNo c r ∧ dayNo c r < dayNo c e := by
        by_cases h1 : K e - K s - 1 = 0
        · rw [h1]; exact ⟨s, hzero, hs, by omega, hK s e hs he (by omega)⟩
        · obtain ⟨r, r1, r2, r3⟩ := haddF (K e - K s - 1) e (by omega) he (by omega)
          exact ⟨r, r1, r2, by have := hK s r hs r2 (by omega); omega, hK r e r2 he (by omega)⟩
      obtain ⟨r, a2, v2, o2, o3⟩ := key2
      exact ⟨_, r, hb, a2, v2, fun _ => ⟨by omega, o2, by omega⟩, fun hge => by omega⟩
  · -- backward
    have hlt : dayNo c e < dayNo c s := by omega
    have hk := hK' e s he hs (by omega)
    have key : ∃ simple, f.add s (K e - Kb) = .ok simple ∧ Valid c simple ∧ K simple = K e ∧ dayNo c simple ≤ dayNo c s := by
      by_cases h0 : K e - Kb = 0
      · rw [h0]; exact ⟨s, hzero, hs, by omega, by omega⟩
      · obtain ⟨r, r1, r2, r3, r4⟩ := haddB (K e - Kb) e (by omega) he (by omega)
        exact ⟨r, r1, r2, by omega, r4⟩
    obtain ⟨simple, a1, v1, k1, o1⟩ := key
    have hb := hbetweenB e simple he hlt a1
    have cq := cmp_sign h simple e v1 he
    unfold correctByOne at hb
    rw [if_neg (by have := cs.2.2; omega)] at hb
    by_cases hq : cmpYmd c simple e ≥ 0
    · rw [if_pos hq] at hb
      have hqd : dayNo c e ≤ dayNo c simple := by have := cq.1; omega
      exact ⟨_, simple, hb, a1, v1, fun hh => by omega, fun _ => ⟨by omega, hqd, o1⟩⟩
    · rw [if_neg hq] at hb
      have hqd : dayNo c simple < dayNo c e := by have := cq.1; omega
      have hne : K e - Kb ≠ 0 := by
        intro h0; rw [h0, hzero] at a1; cases a1; omega
      have key2 : ∃ r, f.add s (K e - Kb + 1) = .ok r ∧ Valid c r ∧ dayNo c e < dayNo c r ∧ dayNo c r ≤ dayNo c s := by
        by_cases h1 : K e - Kb + 1 = 0
        · rw [h1]; exact ⟨s, hzero, hs, by omega, by omega⟩
        · obtain ⟨r, r1, r2, r3, r4⟩ := haddB (K e - Kb + 1) e (by omega) he (by omega)
          exact ⟨r, r1, r2, hK e r he r2 (by omega), r4⟩
      obtain ⟨r, a2, v2, o2, o3⟩ := key2
      exact ⟨_, r, hb, a2, v2, fun hh => by omega, fun _ => ⟨by omega, by omega, o3⟩⟩

/-- The years unit of any calendar whose `_set_year` returns a valid date of the requested year. -/
theorem yearsField_unit_of_setYear (k : Cal) (h : WF k.c)
    (hset : ∀ s Y, Valid k.c s → k.c.minYear ≤ Y → Y ≤ k.c.maxYear → ∃ r, setYear k s Y = .ok r ∧ Valid k.c r ∧ r.1 = Y) :
    CoarseUnit k.c (yearsField k) (fun p => p.1) := by
  refine ⟨fun a b ha hb hlt => dayNo_lt_of_year_lt h a b ha hb hlt, ?_, ?_, ?_, ?_⟩
  · intro s; show addYears k s 0 = .ok s; unfold addYears; rw [if_pos rfl]
  · intro s a b n hs ha hb h1 h2
    obtain ⟨ay, _, _⟩ := validate_inv ha
    obtain ⟨_, by2, _⟩ := validate_inv hb
    show ∃ r, addYears k s n = .ok r ∧ Valid k.c r ∧ r.1 = s.1 + n
    unfold addYears
    by_cases h0 : n = 0
    · rw [if_pos h0]; exact ⟨s, rfl, hs, by omega⟩
    · rw [if_neg h0]
      unfold checkRange
      rw [if_neg (by omega)]
      exact hset s (s.1 + n) hs (by omega) (by omega)
  · intro s n r hs ha
    have ha' : addYears k s n = .ok r := ha
    unfold addYears at ha'
    by_cases h0 : n = 0
    · rw [if_pos h0] at ha'; cases ha'; exact ⟨hs, by omega⟩
    · rw [if_neg h0] at ha'
      unfold checkRange at ha'
      by_cases hr : n < k.c.minYear - s.1 ∨ n > k.c.maxYear - s.1
      · rw [if_pos hr] at ha'; cases ha'
      · rw [if_neg hr] at ha'
        obtain ⟨r', q1, q2, q3⟩ := hset s (s.1 + n) hs (by omega) (by omega)
        have ha'' : setYear k s (s.1 + n) = .ok r := ha'
        rw [q1] at ha''
        cases ha''
        exact ⟨q2, q3⟩
  · intro s e simple _ _ ha
    show yearsBetween k s e = _
    unfold yearsBetween
    have ha' : addYears k s (e.1 - s.1) = .ok simple := ha
    dsimp only
    rw [ha']

end Pyoda.C09
