/-
  GenAgreeC01Heb — agreement between the Hebrew calendar arithmetic GENERATED from pyoda_time's Python source
  (`PyodaGen/C01Heb.lean`: `_hebrew_scriptural_calculator.py`, `_hebrew_month_converter.py`,
  `_hebrew_year_month_day_calculator.py`) and the hand-written model (`Heb.*` of PyodaModel/Calendar/Systems.lean).

  `_HebrewScripturalCalculator.__get_or_populate_cache` is a dict that is filled on demand.  Its consumers are translated
  with that call as the abstract callee `cacheOf`; the theorems below instantiate it with the value a cache-free
  evaluation packs, `entry y = (elapsed y << 2) | heshvan-long | kislev-short` (`Cache.YearCache.Hebrew.entryOf`), which
  is what every call returns whatever the history of calls was (C13 `hebrewCache_transparent`).
  The generated `__elapsed_days_no_cache` keeps the Decimal-domain guard of `_towards_zero_division` (`pyTdiv`); the
  agreement carries the bound `|year| < 10^23`.
-/
import PyodaGen.C01Heb
import PyodaModel.Calendar.Systems
import PyodaModel.Cache.YearCache
import PyodaProofs.Basic

namespace Pyoda.GenAgree.C01Heb
open Pyoda Pyoda.Calendar

/-- what `__get_or_populate_cache(year)` returns: the packed cache-free value -/
def entry (y : Int) : Int := Cache.YearCache.Hebrew.entryOf Heb.elapsed y

/-- the cache answers with the cache-free value (C13 `hebrewCache_transparent`) -/
def Transparent (cacheOf : Int → R Int) : Prop := ∀ y, cacheOf y = .ok (entry y)

example : Transparent (fun y => .ok (entry y)) := fun _ => rfl

theorem entry_eq (y : Int) :
    entry y = Heb.elapsed y * 4 + (if csharpMod (Heb.len y) 10 = 5 then 1 else 0) + (if csharpMod (Heb.len y) 10 = 3 then 2 else 0) := rfl

theorem nat_and_two (n : Nat) : n &&& 2 = 2 * (n / 2 % 2) := by
  have hd : (n &&& 2) / 2 ^ 2 = 0 := by rw [Nat.and_div_two_pow]; simp
  have hm : (n &&& 2) % 2 ^ 2 = (n % 2 ^ 2) &&& (2 % 2 ^ 2) := Nat.and_mod_two_pow
  have h4 : n % 4 = 0 ∨ n % 4 = 1 ∨ n % 4 = 2 ∨ n % 4 = 3 := by omega
  have e := Nat.div_add_mod (n &&& 2) 4
  rcases h4 with h | h | h | h <;> simp [h] at hm hd <;> omega

/-- `x & 2` on two's-complement integers is bit 1 of `x` -/
theorem pyAnd_two (x : Int) : Gen.pyAnd x 2 = 2 * ((x / 2) % 2) := by
  cases x with
  | ofNat n =>
    show ((n &&& 2 : Nat) : Int) = 2 * (((n : Nat) : Int) / 2 % 2)
    rw [nat_and_two]; omega
  | negSucc n =>
    show ((2 - (2 &&& n) : Nat) : Int) = 2 * (Int.negSucc n / 2 % 2)
    rw [Nat.and_comm, nat_and_two]
    have e : (Int.negSucc n) = -((n : Int) + 1) := rfl
    rw [e]; omega

theorem entry_low (y : Int) : Int.fmod (entry y) 2 ≠ 0 ↔ csharpMod (Heb.len y) 10 = 5 := by
  rw [entry_eq, fmod_pos _ _ (by decide)]
  split <;> split <;> omega

theorem entry_bit1 (y : Int) : Gen.pyAnd (entry y) 2 ≠ 0 ↔ csharpMod (Heb.len y) 10 = 3 := by
  rw [pyAnd_two, entry_eq]
  split <;> split <;> omega

theorem entry_shift (y : Int) : entry y >>> 2 = Heb.elapsed y := by
  rw [Int.shiftRight_eq_div_pow, entry_eq]
  show _ / (4 : Int) = _
  split <;> split <;> omega

/-! ## `_HebrewScripturalCalculator` -/

theorem gen_Heb_isLeap_eq (y : Int) : Gen.C01Heb.Heb.isLeap y = Heb.isLeap y := rfl

theorem beq_eq_decide (a b : Int) : (a == b) = decide (a = b) := by
  by_cases h : a = b <;> simp [h]

/-- `__elapsed_days_no_cache`: every operand of `_towards_zero_division` stays far inside its exact domain -/
theorem gen_Heb_elapsedNoCache_eq (y : Int) (h1 : -100000000000000000000000 < y) (h2 : y < 100000000000000000000000) :
    Gen.C01Heb.Heb.elapsedNoCache y = .ok (Heb.elapsed y) := by
  unfold Gen.C01Heb.Heb.elapsedNoCache Heb.elapsed
  dsimp only
  have c19 := csharpMod_pos (y - 1) 19 (by decide)
  have t1 : Int.tdiv (y - 1) 19 = if 0 ≤ y - 1 then (y - 1) / 19 else -((-(y - 1)) / 19) := tdiv_pos _ _ (by decide)
  rw [pyTdiv_bind _ _ _ (by decide) (by unfold decBound; omega) (by unfold decBound; omega) (by decide) (by decide)]
  have hm1 : -20 < csharpMod (y - 1) 19 ∧ csharpMod (y - 1) 19 < 20 := by rw [c19]; split <;> omega
  rw [pyTdiv_bind _ _ _ (by decide) (by unfold decBound; omega) (by unfold decBound; omega) (by decide) (by decide)]
  have t2 : Int.tdiv (csharpMod (y - 1) 19 * 7 + 1) 19 =
      if 0 ≤ csharpMod (y - 1) 19 * 7 + 1 then (csharpMod (y - 1) 19 * 7 + 1) / 19 else -((-(csharpMod (y - 1) 19 * 7 + 1)) / 19) :=
    tdiv_pos _ _ (by decide)
  generalize hme : 235 * Int.tdiv (y - 1) 19 + 12 * csharpMod (y - 1) 19 + Int.tdiv (csharpMod (y - 1) 19 * 7 + 1) 19 = me
  have hmeb : -2000000000000000000000000 < me ∧ me < 2000000000000000000000000 := by
    rw [← hme, t1, t2]; split <;> split <;> omega
  have c1080 := csharpMod_pos me 1080 (by decide)
  have hp : -1081 < csharpMod me 1080 ∧ csharpMod me 1080 < 1081 := by rw [c1080]; split <;> omega
  rw [pyTdiv_bind _ _ _ (by decide) (by unfold decBound; omega) (by unfold decBound; omega) (by decide) (by decide)]
  rw [pyTdiv_bind _ _ _ (by decide) (by unfold decBound; omega) (by unfold decBound; omega) (by decide) (by decide)]
  have t3 : Int.tdiv me 1080 = if 0 ≤ me then me / 1080 else -((-me) / 1080) := tdiv_pos _ _ (by decide)
  have t4 : Int.tdiv (204 + 793 * csharpMod me 1080) 1080 =
      if 0 ≤ 204 + 793 * csharpMod me 1080 then (204 + 793 * csharpMod me 1080) / 1080 else -((-(204 + 793 * csharpMod me 1080)) / 1080) :=
    tdiv_pos _ _ (by decide)
  generalize hhe : 5 + 12 * me + 793 * Int.tdiv me 1080 + Int.tdiv (204 + 793 * csharpMod me 1080) 1080 = he
  have hheb : -30000000000000000000000000 < he ∧ he < 30000000000000000000000000 := by
    rw [← hhe, t3, t4]; split <;> split <;> omega
  rw [pyTdiv_bind _ _ _ (by decide) (by unfold decBound; omega) (by unfold decBound; omega) (by decide) (by decide)]
  simp only [gen_Heb_isLeap_eq, beq_eq_decide]
  by_cases hl1 : Heb.isLeap y = true <;> by_cases hl2 : Heb.isLeap (y - 1) = true <;> simp [hl1, hl2, or_assoc]

theorem gen_Heb_elapsedDays_eq (cacheOf : Int → R Int) (hc : Transparent cacheOf) (y : Int) :
    Gen.C01Heb.Heb.elapsedDays cacheOf y = .ok (Heb.elapsed y) := by
  unfold Gen.C01Heb.Heb.elapsedDays
  rw [hc y]
  show Except.ok (entry y >>> 2) = _
  rw [entry_shift]

theorem gen_Heb_isHeshvanLong_eq (cacheOf : Int → R Int) (hc : Transparent cacheOf) (y : Int) :
    Gen.C01Heb.Heb.isHeshvanLong cacheOf y = .ok (Heb.heshvanLong y) := by
  unfold Gen.C01Heb.Heb.isHeshvanLong Heb.heshvanLong
  rw [hc y]
  show Except.ok (decide (Int.fmod (entry y) 2 ≠ 0)) = _
  rw [beq_eq_decide]
  congr 1
  exact decide_eq_decide.mpr (entry_low y)

theorem gen_Heb_isKislevShort_eq (cacheOf : Int → R Int) (hc : Transparent cacheOf) (y : Int) :
    Gen.C01Heb.Heb.isKislevShort cacheOf y = .ok (Heb.kislevShort y) := by
  unfold Gen.C01Heb.Heb.isKislevShort Heb.kislevShort
  rw [hc y]
  show Except.ok (decide (Gen.pyAnd (entry y) 2 ≠ 0)) = _
  rw [beq_eq_decide]
  congr 1
  exact decide_eq_decide.mpr (entry_bit1 y)

theorem gen_Heb_daysInMonth_eq (cacheOf : Int → R Int) (hc : Transparent cacheOf) (y m : Int) :
    Gen.C01Heb.Heb.daysInMonth cacheOf y m = .ok (Heb.dimS y m) := by
  unfold Gen.C01Heb.Heb.daysInMonth Heb.dimS Heb.heshvan Heb.kislev
  simp only [gen_Heb_isHeshvanLong_eq cacheOf hc, gen_Heb_isKislevShort_eq cacheOf hc, gen_Heb_isLeap_eq, bind, Except.bind]
  repeat' split
  all_goals first | rfl | simp_all

theorem gen_Heb_daysInYear_eq (cacheOf : Int → R Int) (hc : Transparent cacheOf) (y : Int) :
    Gen.C01Heb.Heb.daysInYear cacheOf y = .ok (Heb.len y) := by
  unfold Gen.C01Heb.Heb.daysInYear Heb.len
  simp only [gen_Heb_elapsedDays_eq cacheOf hc, bind, Except.bind]

theorem heshvan_of_entry (y : Int) : (if Int.fmod (entry y) 2 ≠ 0 then (30 : Int) else 29) = Heb.heshvan y := by
  unfold Heb.heshvan Heb.heshvanLong
  rw [beq_eq_decide]
  by_cases h : csharpMod (Heb.len y) 10 = 5
  · rw [if_pos ((entry_low y).mpr h)]; simp [h]
  · rw [if_neg (fun x => h ((entry_low y).mp x))]; simp [h]

theorem kislev_of_entry (y : Int) : (if Gen.pyAnd (entry y) 2 ≠ 0 then (29 : Int) else 30) = Heb.kislev y := by
  unfold Heb.kislev Heb.kislevShort
  rw [beq_eq_decide]
  by_cases h : csharpMod (Heb.len y) 10 = 3
  · rw [if_pos ((entry_bit1 y).mpr h)]; simp [h]
  · rw [if_neg (fun x => h ((entry_bit1 y).mp x))]; simp [h]

/-- the month-start table for the months the calendar has; any other month number raises ValueError -/
theorem gen_Heb_toMonth_eq (cacheOf : Int → R Int) (hc : Transparent cacheOf) (y m : Int) (h1 : 1 ≤ m) (h2 : m ≤ 13) :
    Gen.C01Heb.Heb.toMonth cacheOf y m = .ok (Heb.toMonthS y m) := by
  unfold Gen.C01Heb.Heb.toMonth Heb.toMonthS
  rw [hc y]
  simp only [bind, Except.bind, heshvan_of_entry, kislev_of_entry, gen_Heb_isLeap_eq]
  have hm : m = 1 ∨ m = 2 ∨ m = 3 ∨ m = 4 ∨ m = 5 ∨ m = 6 ∨ m = 7 ∨ m = 8 ∨ m = 9 ∨ m = 10 ∨ m = 11 ∨ m = 12 ∨ m = 13 := by omega
  rcases hm with h | h | h | h | h | h | h | h | h | h | h | h | h <;> subst h <;> rfl

theorem gen_Heb_toMonth_rejects (cacheOf : Int → R Int) (hc : Transparent cacheOf) (y m : Int) (h : m < 1 ∨ 13 < m) :
    Gen.C01Heb.Heb.toMonth cacheOf y m = .error .valueError := by
  unfold Gen.C01Heb.Heb.toMonth
  rw [hc y]
  simp only [bind, Except.bind]
  rw [if_neg (by omega), if_neg (by omega), if_neg (by omega), if_neg (by omega), if_neg (by omega), if_neg (by omega),
    if_neg (by omega), if_neg (by omega), if_neg (by omega), if_neg (by omega), if_neg (by omega), if_neg (by omega),
    if_neg (by omega)]

/-- pushes a conditional out of the fields of the returned `_YearMonthDay` -/
theorem ok_ymd_ite (c : Prop) [Decidable c] (y : Int) (a b : Int × Int) :
    (Except.ok ⟨y, (if c then a else b).1, (if c then a else b).2⟩ : R Gen.YMD) =
      if c then .ok ⟨y, a.1, a.2⟩ else .ok ⟨y, b.1, b.2⟩ := by
  split <;> rfl

theorem gen_Heb_split_eq (cacheOf : Int → R Int) (hc : Transparent cacheOf) (y doy : Int) :
    Gen.C01Heb.Heb.split cacheOf y doy = .ok ⟨y, (Heb.splitS y doy).1, (Heb.splitS y doy).2⟩ := by
  unfold Gen.C01Heb.Heb.split Heb.splitS
  rw [hc y]
  simp only [bind, Except.bind, heshvan_of_entry, kislev_of_entry, gen_Heb_isLeap_eq]
  by_cases hl : Heb.isLeap y = true
  · simp only [hl, if_true, true_and, ok_ymd_ite]
  · have hl' : Heb.isLeap y = false := by simpa using hl
    simp only [hl', Bool.false_eq_true, if_false, false_and, ok_ymd_ite]

/-! ## `_HebrewMonthConverter` -/

theorem gen_Heb_civilToScriptural_eq (y m : Int) : Gen.C01Heb.Heb.civilToScriptural y m = Heb.civilToScriptural y m := by
  unfold Gen.C01Heb.Heb.civilToScriptural Heb.civilToScriptural
  simp only [gen_Heb_isLeap_eq]
  rfl

theorem gen_Heb_scripturalToCivil_eq (y m : Int) : Gen.C01Heb.Heb.scripturalToCivil y m = Heb.scripturalToCivil y m := by
  unfold Gen.C01Heb.Heb.scripturalToCivil Heb.scripturalToCivil
  simp only [gen_Heb_isLeap_eq]
  rfl

/-! ## `_HebrewYearMonthDayCalculator`: `numbering s` is the value of `HebrewMonthNumbering` (CIVIL = 1, SCRIPTURAL = 2) -/

def numbering (scriptural : Bool) : Int := if scriptural then 2 else 1

theorem gen_HebCalc_calendarToCivilMonth_eq (s : Bool) (y m : Int) :
    Gen.C01Heb.HebCalc.calendarToCivilMonth (numbering s) y m = (Heb.cal s).monthKey y m := by
  unfold Gen.C01Heb.HebCalc.calendarToCivilMonth numbering
  cases s <;> simp [Heb.cal, gen_Heb_scripturalToCivil_eq]

theorem gen_HebCalc_calendarToScripturalMonth_eq (s : Bool) (y m : Int) :
    Gen.C01Heb.HebCalc.calendarToScripturalMonth (numbering s) y m = (if s then m else Heb.civilToScriptural y m) := by
  unfold Gen.C01Heb.HebCalc.calendarToScripturalMonth numbering
  cases s <;> simp [gen_Heb_civilToScriptural_eq]

theorem gen_HebCalc_civilToCalendarMonth_eq (s : Bool) (y m : Int) :
    Gen.C01Heb.HebCalc.civilToCalendarMonth (numbering s) y m = (if s then Heb.civilToScriptural y m else m) := by
  unfold Gen.C01Heb.HebCalc.civilToCalendarMonth numbering
  cases s <;> simp [gen_Heb_civilToScriptural_eq]

theorem gen_HebCalc_scripturalToCalendarMonth_eq (s : Bool) (y m : Int) :
    Gen.C01Heb.HebCalc.scripturalToCalendarMonth (numbering s) y m = (if s then m else Heb.scripturalToCivil y m) := by
  unfold Gen.C01Heb.HebCalc.scripturalToCalendarMonth numbering
  cases s <;> simp [gen_Heb_scripturalToCivil_eq]

theorem gen_HebCalc_isLeap_eq (s : Bool) (y : Int) : Gen.C01Heb.HebCalc.isLeap y = (Heb.cal s).leap y := rfl

theorem gen_HebCalc_monthsInYear_eq (s : Bool) (y : Int) : Gen.C01Heb.HebCalc.monthsInYear y = (Heb.cal s).months y := rfl

theorem gen_HebCalc_daysInYear_eq (cacheOf : Int → R Int) (hc : Transparent cacheOf) (s : Bool) (y : Int) :
    Gen.C01Heb.HebCalc.daysInYear cacheOf y = .ok ((Heb.cal s).len y) :=
  gen_Heb_daysInYear_eq cacheOf hc y

theorem gen_HebCalc_startOfYear_eq (cacheOf : Int → R Int) (hc : Transparent cacheOf) (s : Bool) (y : Int) :
    Gen.C01Heb.HebCalc.startOfYear cacheOf y = .ok ((Heb.cal s).start y) := by
  unfold Gen.C01Heb.HebCalc.startOfYear
  simp only [gen_Heb_elapsedDays_eq cacheOf hc, bind, Except.bind]
  rfl

theorem gen_HebCalc_daysInMonth_eq (cacheOf : Int → R Int) (hc : Transparent cacheOf) (s : Bool) (y m : Int) :
    Gen.C01Heb.HebCalc.daysInMonth cacheOf (numbering s) y m = .ok ((Heb.cal s).dim y m) := by
  unfold Gen.C01Heb.HebCalc.daysInMonth
  rw [gen_Heb_daysInMonth_eq cacheOf hc, gen_HebCalc_calendarToScripturalMonth_eq]
  rfl

/-- the calendar's month-start function, for months whose scriptural number is one of 1 … 13 (all valid months) -/
theorem gen_HebCalc_toMonth_eq (cacheOf : Int → R Int) (hc : Transparent cacheOf) (s : Bool) (y m : Int)
    (h1 : 1 ≤ (if s then m else Heb.civilToScriptural y m)) (h2 : (if s then m else Heb.civilToScriptural y m) ≤ 13) :
    Gen.C01Heb.HebCalc.toMonth cacheOf (numbering s) y m = .ok ((Heb.cal s).toMonth y m) := by
  unfold Gen.C01Heb.HebCalc.toMonth
  rw [gen_HebCalc_calendarToScripturalMonth_eq]
  rw [gen_Heb_toMonth_eq cacheOf hc y _ h1 h2]
  rfl

theorem gen_HebCalc_split_eq (cacheOf : Int → R Int) (hc : Transparent cacheOf) (s : Bool) (y doy : Int) :
    Gen.C01Heb.HebCalc.split cacheOf (numbering s) y doy =
      .ok ⟨y, ((Heb.cal s).split y doy).1, ((Heb.cal s).split y doy).2⟩ := by
  unfold Gen.C01Heb.HebCalc.split numbering
  rw [gen_Heb_split_eq cacheOf hc]
  cases s
  · simp [Heb.cal, bind, Except.bind, gen_Heb_scripturalToCivil_eq]
  · simp [Heb.cal, bind, Except.bind]

/-! ## kernel evaluation on concrete years (the hypotheses are satisfiable; 5784 is a leap year of 383 days) -/

example : Gen.C01Heb.Heb.elapsedNoCache 5784 = .ok (Heb.elapsed 5784) := by decide
example : Gen.C01Heb.Heb.daysInYear (fun y => .ok (entry y)) 5784 = .ok 383 := by decide
example : Gen.C01Heb.HebCalc.split (fun y => .ok (entry y)) 1 5784 1 = .ok ⟨5784, 1, 1⟩ := by decide
example : Gen.C01Heb.HebCalc.split (fun y => .ok (entry y)) 2 5784 1 = .ok ⟨5784, 7, 1⟩ := by decide

end Pyoda.GenAgree.C01Heb
