/- Helper lemmas for C14: the period list and the precalculated zone (inline strings). -/
import PyodaProofs.C14Composite
import PyodaProofs.C14Transition

namespace Pyoda.C14
open Pyoda Pyoda.Codec

/-- one period as the reader will rebuild it: starts where the previous one ended, non-empty, end in the
    transition writer's domain relative to the start -/
def PeriodOk (start : Instant) (p : ZoneInterval) : Prop :=
  p.rawStart = start ∧ StrDom p.name ∧ OffsetDom p.wall ∧ OffsetDom p.savings ∧
  TransDom (some start) p.rawEnd ∧ Duration.ge start.dur p.rawEnd.dur = false

/-- adjoining periods from `start` on -/
def Chain : Instant → List ZoneInterval → Prop
  | _, [] => False
  | start, [p] => PeriodOk start p
  | start, p :: q :: r => PeriodOk start p ∧ Chain p.rawEnd (q :: r)

def lastEnd : List ZoneInterval → Instant
  | [] => Instant.afterMax
  | [p] => p.rawEnd
  | _ :: q :: r => lastEnd (q :: r)

theorem writeString_none (s : Str) (h : StrDom s) : writeString none s = .ok (writeVarint s.length ++ s, none) := by
  unfold writeString writeStringInline
  rw [writeCount_ok (s.length : Int) ⟨by omega, h.2⟩]
  simp [bind, Except.bind]

theorem readString_none (s : Str) (h : StrDom s) (rest : Bytes) :
    readString none (writeVarint s.length ++ s ++ rest) = .ok (s, rest) := by
  obtain ⟨bs, h1, h2⟩ := readString_inline s h.1 h.2 rest
  unfold writeStringInline at h1
  rw [writeCount_ok (s.length : Int) ⟨by omega, h.2⟩] at h1
  simp only [bind, Except.bind, Int.toNat_natCast] at h1
  cases h1
  exact h2

theorem chain_head (start : Instant) (p : ZoneInterval) (ps : List ZoneInterval) (h : Chain start (p :: ps)) :
    PeriodOk start p := by
  cases ps with
  | nil => exact h
  | cons q r => exact h.1

theorem readPeriods_succ (pool : Pool) (n : Nat) (start : Instant) (bs : Bytes) :
    readPeriods pool (n + 1) start bs = (do
      let (name, r) ← readString pool bs
      let (wall, r) ← readOffset r
      let (savings, r) ← readOffset r
      let (next, r) ← readTransition (some start) r
      let p ← zoneIntervalCtor name start next wall savings
      let (ps, r) ← readPeriods pool n next r
      .ok (p :: ps, r)) := rfl

theorem writePeriods_cons (pool : Pool) (previous : Option Instant) (p : ZoneInterval) (ps : List ZoneInterval) :
    writePeriods pool previous (p :: ps) = (do
      let t ← writeTransition previous p.rawStart
      let (n, pool) ← writeString pool p.name
      let w ← writeOffset p.wall
      let s ← writeOffset p.savings
      let (rest, pool) ← writePeriods pool (some p.rawStart) ps
      .ok (t ++ n ++ w ++ s ++ rest, pool)) := rfl

theorem periods_roundtrip : ∀ (ps : List ZoneInterval) (prev : Option Instant) (s0 : Instant), Chain s0 ps →
    ∀ b0, writeTransition prev s0 = .ok b0 →
    ∃ tl, (∀ rest, readPeriods none ps.length s0 (tl ++ rest) = .ok (ps, rest)) ∧
      ∃ wb, writePeriods none prev ps = .ok (wb, none) ∧
        ∃ tb, writeTransition (lastStart prev ps) (lastEnd ps) = .ok tb ∧ wb ++ tb = b0 ++ tl := by
  intro ps
  induction ps with
  | nil => intro prev s0 h; exact absurd h (by simp [Chain])
  | cons p ps ih =>
    intro prev s0 hc b0 hb0
    obtain ⟨hs, hn, hw, hsv, htd, hlt⟩ := chain_head s0 p ps hc
    cases p with | mk name st en wall sav =>
    simp only at hs hn hw hsv htd hlt
    subst hs
    obtain ⟨wbW, wW, _⟩ := readOffset_writeOffset wall hw []
    obtain ⟨wbS, wS, _⟩ := readOffset_writeOffset sav hsv []
    have rW : ∀ rest, readOffset (wbW ++ rest) = .ok (wall, rest) := by
      intro rest
      obtain ⟨b, h1, h2⟩ := readOffset_writeOffset wall hw rest
      rw [wW] at h1; cases h1; exact h2
    have rS : ∀ rest, readOffset (wbS ++ rest) = .ok (sav, rest) := by
      intro rest
      obtain ⟨b, h1, h2⟩ := readOffset_writeOffset sav hsv rest
      rw [wS] at h1; cases h1; exact h2
    have wT := writeTransition_eq (some st) en htd
    have rT : ∀ rest, readTransition (some st) (formBytes (expectedForm (some st) en) ++ rest) = .ok (en, rest) := by
      intro rest
      obtain ⟨b, h1, h2⟩ := readTransition_writeTransition (some st) en htd rest
      rw [wT] at h1; cases h1; exact h2
    have hctor : zoneIntervalCtor name st en wall sav = .ok ⟨name, st, en, wall, sav⟩ := by
      unfold zoneIntervalCtor; simp [hlt]
    cases ps with
    | nil =>
      refine ⟨writeVarint name.length ++ name ++ wbW ++ wbS ++ formBytes (expectedForm (some st) en), ?_, ?_⟩
      · intro rest
        simp only [List.length_cons, List.length_nil, Nat.zero_add, List.append_assoc]
        rw [readPeriods_succ]
        have := readString_none name hn (wbW ++ (wbS ++ (formBytes (expectedForm (some st) en) ++ rest)))
        simp only [List.append_assoc] at this
        simp only [this, rW, rS, rT, hctor, bind, Except.bind, readPeriods]
      · refine ⟨b0 ++ (writeVarint name.length ++ name) ++ wbW ++ wbS, ?_, _, wT, ?_⟩
        · rw [writePeriods_cons]
          simp only [writePeriods, hb0, writeString_none name hn, wW, wS, bind, Except.bind, List.append_nil]
        · simp only [List.append_assoc]
    | cons q r =>
      obtain ⟨_, hc'⟩ := hc
      have hq := chain_head en q r hc'
      obtain ⟨tl', hr', wb', hw', tb', ht', he'⟩ := ih (some st) en hc' _ wT
      refine ⟨writeVarint name.length ++ name ++ wbW ++ wbS ++ formBytes (expectedForm (some st) en) ++ tl', ?_, ?_⟩
      · intro rest
        simp only [List.length_cons, List.append_assoc]
        rw [readPeriods_succ]
        have := readString_none name hn (wbW ++ (wbS ++ (formBytes (expectedForm (some st) en) ++ (tl' ++ rest))))
        simp only [List.append_assoc] at this
        have h2 := hr' rest
        simp only [List.length_cons] at h2
        simp only [this, rW, rS, rT, hctor, bind, Except.bind, h2]
      · refine ⟨b0 ++ (writeVarint name.length ++ name) ++ wbW ++ wbS ++ wb', ?_, tb', ht', ?_⟩
        · rw [writePeriods_cons]
          simp only [hb0, writeString_none name hn, wW, wS, hw', bind, Except.bind]
        · simp only [List.append_assoc]
          rw [he']

theorem tailZoneStart_lastEnd (id : Str) (p : ZoneInterval) (ps : List ZoneInterval) (tz : Option AlternatingMap) :
    (PrecalculatedZone.mk id (p :: ps) tz).tailZoneStart = .ok (lastEnd (p :: ps)) := by
  unfold PrecalculatedZone.tailZoneStart
  simp only
  induction ps generalizing p with
  | nil => rfl
  | cons q r ih =>
    have : (p :: q :: r).getLast? = (q :: r).getLast? := by simp [List.getLast?_cons_cons]
    rw [this]
    exact ih q

/-- precalculated zones the reader can rebuild: at least one period, the periods adjoining and non-empty with
    transitions in the transition writer's domain, strings valid UTF-8, offsets within ±18 h, the optional tail map
    in `MapDom` -/
def ZoneDom (z : PrecalculatedZone) : Prop :=
  (z.periods.length : Int) ≤ INT_MAX ∧
  (∃ p ps, z.periods = p :: ps ∧ Chain p.rawStart z.periods ∧ TransDom none p.rawStart) ∧
  (match z.tailZone with | none => True | some m => MapDom m)

theorem readPrecalculated_writePrecalculated (z : PrecalculatedZone) (h : ZoneDom z) (rest : Bytes) :
    ∃ bs, writePrecalculated none z = .ok (bs, none) ∧ readPrecalculatedData none z.id (bs ++ rest) = .ok (z, rest) := by
  obtain ⟨hlen, ⟨p, ps, hps, hchain, hfirst⟩, htail⟩ := h
  cases z with | mk id periods tz =>
  simp only at hlen hps hchain hfirst htail
  subst hps
  have wT0 := writeTransition_eq none p.rawStart hfirst
  obtain ⟨tl, hr, wb, hw, tb, ht, he⟩ := periods_roundtrip (p :: ps) none p.rawStart hchain _ wT0
  have hc := writeCount_ok ((p :: ps).length : Int) ⟨by omega, hlen⟩
  have rT0 : ∀ rest, readTransition none (formBytes (expectedForm none p.rawStart) ++ rest) = .ok (p.rawStart, rest) := by
    intro rest
    obtain ⟨b, h1, h2⟩ := readTransition_writeTransition none p.rawStart hfirst rest
    rw [wT0] at h1; cases h1; exact h2
  have hts := tailZoneStart_lastEnd id p ps tz
  cases tz with
  | none =>
    refine ⟨writeVarint (p :: ps).length ++ wb ++ tb ++ [0], ?_, ?_⟩
    · unfold writePrecalculated
      simp only [hc, hw, hts, ht, bind, Except.bind, Int.toNat_natCast]
      rfl
    · unfold readPrecalculatedData
      have e : writeVarint (p :: ps).length ++ wb ++ tb ++ [0] ++ rest =
          writeVarint (p :: ps).length ++ (formBytes (expectedForm none p.rawStart) ++ (tl ++ (0 :: rest))) := by
        simp only [List.append_assoc]
        rw [← List.append_assoc wb tb, he]
        simp only [List.append_assoc, List.cons_append, List.nil_append]
      rw [e]
      have hrc := readCount_varint ((p :: ps).length : Int) ⟨by omega, hlen⟩ (formBytes (expectedForm none p.rawStart) ++ (tl ++ (0 :: rest)))
      simp only [Int.toNat_natCast] at hrc
      simp only [hrc, rT0, hr, bind, Except.bind, Int.toNat_natCast, readByte]
      rfl
  | some m =>
    simp only at htail
    obtain ⟨mb, hm1, hm2⟩ := readAlternatingMap_writeAlternatingMap m htail rest
    refine ⟨writeVarint (p :: ps).length ++ wb ++ tb ++ [1] ++ mb, ?_, ?_⟩
    · unfold writePrecalculated
      simp only [hc, hw, hts, ht, hm1, bind, Except.bind, Int.toNat_natCast]
      rfl
    · unfold readPrecalculatedData
      have e : writeVarint (p :: ps).length ++ wb ++ tb ++ [1] ++ mb ++ rest =
          writeVarint (p :: ps).length ++ (formBytes (expectedForm none p.rawStart) ++ (tl ++ (1 :: (mb ++ rest)))) := by
        simp only [List.append_assoc]
        rw [← List.append_assoc wb tb, he]
        simp only [List.append_assoc, List.cons_append, List.nil_append]
      rw [e]
      have hrc := readCount_varint ((p :: ps).length : Int) ⟨by omega, hlen⟩ (formBytes (expectedForm none p.rawStart) ++ (tl ++ (1 :: (mb ++ rest))))
      simp only [Int.toNat_natCast] at hrc
      simp only [hrc, rT0, hr, bind, Except.bind, Int.toNat_natCast, readByte, hm2]
      rfl
end Pyoda.C14
