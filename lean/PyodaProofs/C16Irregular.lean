/-
  C16 — irregular (BCL-style) week-year rules: `WeekYearRules.from_calendar_week_rule(...)`, i.e.
  `_SimpleWeekYearRule(minDays, firstDayOfWeek, irregular_weeks = True)`.

  What is different from a regular rule (all of it by design, it is what `System.Globalization.Calendar.GetWeekOfYear`
  does): a week-year never extends past the end of its calendar year, so the last week of a week-year and/or the
  first week of the next one may be short, and week boundaries at a year end do not fall on the rule's first day
  of week.  Precisely, with `ws y = weekYearStart r c y` (same value as for the regular rule, aligned on the
  first day of week), week-year `y` consists of the days

        max (start y) (ws y) ≤ d < max (start (y+1)) (ws (y+1))               (`InWeekYear`)

  Everything the property C16 says that survives this is proved here for every minimum-days value 1…7 and every
  first day of week (`IrrOK`), over an arbitrary calendar year table (`CalWF`):
    * `irr_weekYear_eq`, `irr_weekYear_adjacent`, `irr_weekYear_firstDay`, `irr_weekYear_contains`,
      `irr_weekYear_unique`                                — which week-year a date gets
    * `irr_weeks_bounds`, `irr_week_le_weeksInYear`        — week numbers lie in 1 … weeksIn
    * `irr_weekDate_roundtrip`, `irr_localDate_roundtrip`  — date → (week-year, week, weekday) → the same date
    * `irr_localDate_sound`                                — accepted triple → date → the same triple
    * `irr_localDate_ok_iff`, `irr_localDate_error`, `irr_localDate_rejects_previous_year`,
      `irr_localDate_rejects_next_year`                    — the validation of `get_local_date`
    * `irr_weeks_advance_partial`, `irr_week_boundary`, `irr_year_boundary`
                                                           — weeks advance every 7 days / on the first day of week
                                                             inside a week-year; what happens at the year end
  What is false for irregular rules is refuted on concrete Gregorian dates (`…_fails`), the full statements are
  kept as `def …Statement`.
-/
import PyodaProofs.C16

namespace Pyoda.C16
open Pyoda Pyoda.WeekYear

def RuleRange (r : Rule) : Prop :=
  1 ≤ r.minDaysInFirstWeek ∧ r.minDaysInFirstWeek ≤ 7 ∧ 1 ≤ r.firstDayOfWeek ∧ r.firstDayOfWeek ≤ 7

/-- an irregular (BCL-style) rule with any minimum number of days in the first week and any first day of week -/
def IrrOK (r : Rule) : Prop := r.irregular = true ∧ RuleRange r

/-- `yo` gives the calendar year of a day number -/
def YearOf (c : Cal) (yo : Int → Int) : Prop := ∀ y d, c.start y ≤ d → d < c.start (y + 1) → yo d = y

/-- the days of week-year `y` under an irregular rule -/
def InWeekYear (r : Rule) (c : Cal) (y d : Int) : Prop :=
  (c.start y ≤ d ∧ weekYearStart r c y ≤ d) ∧ (d < c.start (y + 1) ∨ d < weekYearStart r c (y + 1))

theorem RuleOK.range {r : Rule} (h : RuleOK r) : RuleRange r := h.2
theorem IrrOK.range {r : Rule} (h : IrrOK r) : RuleRange r := h.2

/-! ### week-year starts: the facts that do not depend on `irregular` -/

theorem weekYearStart_aligned_any {r : Rule} {c : Cal} (hr : RuleRange r) (y : Int) :
    dayOfWeek (weekYearStart r c y) = r.firstDayOfWeek := by
  obtain ⟨h1, h2, h3, h4⟩ := hr
  rw [dayOfWeek_eq]
  simp only [weekYearStart]
  split <;> split <;> omega

theorem weekYearStart_window_any {r : Rule} {c : Cal} (hr : RuleRange r) (y : Int) :
    c.start y - 7 + r.minDaysInFirstWeek ≤ weekYearStart r c y ∧
    weekYearStart r c y ≤ c.start y + r.minDaysInFirstWeek - 1 := by
  obtain ⟨h1, h2, h3, h4⟩ := hr
  simp only [weekYearStart]
  split <;> split <;> omega

/-- week-year starts of consecutive years are a whole number of weeks apart -/
theorem weekYearStart_diff_mod {r : Rule} {c : Cal} (hr : RuleRange r) (y y' : Int) :
    (weekYearStart r c y' - weekYearStart r c y) % 7 = 0 := by
  have a1 := weekYearStart_aligned_any hr (c := c) y
  have a2 := weekYearStart_aligned_any hr (c := c) y'
  rw [dayOfWeek_eq] at a1 a2
  omega

/-- the week number a date gets, in closed form -/
theorem weekOf_eq (r : Rule) (c : Cal) (cy d : Int) :
    weekOf r c cy d = Int.tdiv (d - weekYearStart r c (weekYear r c cy d)) 7 + 1 := rfl

/-- the day number `get_local_date` computes for a (week-year, week, day-of-week) triple -/
def weekDateDays (r : Rule) (c : Cal) (wy w dow : Int) : Int :=
  weekYearStart r c wy + (w - 1) * 7 + (dow - r.firstDayOfWeek + 7) % 7

section
variable {r : Rule} {c : Cal} (hr : IrrOK r)
include hr

/-! ### which week-year a date gets -/

/-- the week-year is the calendar year, except for the days before the first week of their calendar year -/
theorem irr_weekYear_eq (cy d : Int) :
    weekYear r c cy d = if d < weekYearStart r c cy then cy - 1 else cy := by
  simp only [weekYear, hr.1, if_true]

theorem irr_weekYear_adjacent (cy d : Int) : cy - 1 ≤ weekYear r c cy d ∧ weekYear r c cy d ≤ cy := by
  rw [irr_weekYear_eq hr]; split <;> omega

/-- with `CalendarWeekRule.FIRST_DAY` (minimum 1 day) the week-year *is* the calendar year -/
theorem irr_weekYear_firstDay (hmd : r.minDaysInFirstWeek = 1) (cy d : Int) (h1 : c.start cy ≤ d) :
    weekYear r c cy d = cy := by
  have w := weekYearStart_window_any hr.range (c := c) cy
  rw [irr_weekYear_eq hr, if_neg (by omega)]

variable (hc : CalWF c)
include hc

theorem irr_weekYear_contains (cy d : Int) (h1 : c.start cy ≤ d) (h2 : d < c.start (cy + 1)) :
    InWeekYear r c (weekYear r c cy d) d := by
  have wA := weekYearStart_window_any hr.range (c := c) cy
  have wC := weekYearStart_window_any hr.range (c := c) (cy - 1)
  have hy' := hc (cy - 1)
  have e1 : cy - 1 + 1 = cy := by omega
  rw [e1] at hy'
  obtain ⟨_, g1, g2, g3, g4⟩ := hr
  rw [irr_weekYear_eq ⟨‹_›, g1, g2, g3, g4⟩]
  unfold InWeekYear
  split
  · rw [e1]; omega
  · omega

/-- … and it is the only week-year whose days include the date -/
theorem irr_weekYear_unique (cy d y : Int) (h1 : c.start cy ≤ d) (h2 : d < c.start (cy + 1))
    (hy : y = cy - 1 ∨ y = cy ∨ y = cy + 1) (hin : InWeekYear r c y d) : weekYear r c cy d = y := by
  have wA := weekYearStart_window_any hr.range (c := c) cy
  have wB := weekYearStart_window_any hr.range (c := c) (cy + 1)
  have wC := weekYearStart_window_any hr.range (c := c) (cy - 1)
  have hy0 := hc cy
  have hy' := hc (cy - 1)
  have e1 : cy - 1 + 1 = cy := by omega
  rw [e1] at hy'
  obtain ⟨_, g1, g2, g3, g4⟩ := hr
  rw [irr_weekYear_eq ⟨‹_›, g1, g2, g3, g4⟩]
  unfold InWeekYear at hin
  rcases hy with rfl | rfl | rfl
  · rw [e1] at hin; split <;> omega
  · split <;> omega
  · omega

/-! ### number of weeks -/

/-- the weeks of a week-year cover the days from its start to the end of the calendar year: the last week may be
    short -/
theorem irr_weeks_bounds (y : Int) :
    (weeksIn r c y - 1) * 7 < c.start (y + 1) - weekYearStart r c y ∧
    c.start (y + 1) - weekYearStart r c y ≤ weeksIn r c y * 7 ∧ 1 ≤ weeksIn r c y := by
  have w1 := weekYearStart_window_any hr.range (c := c) y
  have hy := hc y
  obtain ⟨hi, h1, h2, h3, h4⟩ := hr
  simp only [weeksIn, hi, if_true]
  simp (disch := decide) only [tdiv_pos]
  generalize weekYearStart r c y = ws at *
  split <;> omega

/-- when the next calendar year starts before its first week, the last week runs on to the next week-year start -/
theorem irr_weeks_reach_next (y : Int) (h : c.start (y + 1) ≤ weekYearStart r c (y + 1)) :
    weekYearStart r c y + weeksIn r c y * 7 = weekYearStart r c (y + 1) := by
  have b := irr_weeks_bounds hr hc y
  have w2 := weekYearStart_window_any hr.range (c := c) (y + 1)
  have m := weekYearStart_diff_mod hr.range (c := c) y (y + 1)
  obtain ⟨_, g1, g2, g3, g4⟩ := hr
  generalize weekYearStart r c y = ws at *
  generalize weekYearStart r c (y + 1) = ws' at *
  generalize weeksIn r c y = n at *
  omega

theorem irr_week_le_weeksInYear (cy d : Int) (h1 : c.start cy ≤ d) (h2 : d < c.start (cy + 1)) :
    1 ≤ weekOf r c cy d ∧ weekOf r c cy d ≤ weeksIn r c (weekYear r c cy d) := by
  have hcont := irr_weekYear_contains hr hc cy d h1 h2
  have hs := irr_weeks_bounds hr hc (weekYear r c cy d)
  unfold InWeekYear at hcont
  rw [weekOf_eq]
  simp (disch := decide) only [tdiv_pos]
  rw [if_pos (by omega)]
  rcases hcont.2 with h | h
  · generalize weekYear r c cy d = w at *
    omega
  · by_cases hlt : d < c.start (weekYear r c cy d + 1)
    · generalize weekYear r c cy d = w at *
      omega
    · have hn := irr_weeks_reach_next hr hc (weekYear r c cy d) (by omega)
      generalize weekYear r c cy d = w at *
      omega

/-! ### round trips -/

/-- (week-year, week, day-of-week) converts back to the same day -/
theorem irr_weekDate_roundtrip (cy d : Int) (h1 : c.start cy ≤ d) (h2 : d < c.start (cy + 1)) :
    weekYearStart r c (weekYear r c cy d) + (weekOf r c cy d - 1) * 7 +
      (dayOfWeek d - r.firstDayOfWeek + 7) % 7 = d := by
  have hcont := irr_weekYear_contains hr hc cy d h1 h2
  have ha := weekYearStart_aligned_any hr.range (c := c) (weekYear r c cy d)
  unfold InWeekYear at hcont
  rw [dayOfWeek_eq] at ha
  rw [dayOfWeek_eq, weekOf_eq]
  simp (disch := decide) only [tdiv_pos]
  obtain ⟨_, g1, g2, g3, g4⟩ := hr
  generalize weekYear r c cy d = w at *
  generalize weekYearStart r c w = ws at *
  rw [if_pos (by omega)]
  omega

/-- `get_local_date` inverts `get_week_year` / `get_week_of_week_year` / `day_of_week` -/
theorem irr_localDate_roundtrip (yo : Int → Int) (cy d : Int) (h1 : c.start cy ≤ d) (h2 : d < c.start (cy + 1))
    (hyo : yo d = cy)
    (hv : validateWeekYear r c (weekYear r c cy d) = .ok ()) (hd : c.minDays ≤ d ∧ d ≤ c.maxDays) :
    localDate r c yo (weekYear r c cy d) (weekOf r c cy d) (dayOfWeek d) = .ok d := by
  have hw := irr_week_le_weeksInYear hr hc cy d h1 h2
  have hrt := irr_weekDate_roundtrip hr hc cy d h1 h2
  have hdow := dayOfWeek_range d
  simp only [localDate, hv, bind, Except.bind, checkRange]
  rw [if_neg (by omega)]
  simp only []
  rw [if_neg (by omega)]
  rw [hrt]
  rw [if_neg (by omega)]
  rw [hyo]
  split
  · rw [if_neg (by simp)]
  · rfl

/-! ### the validation of `get_local_date` -/

/-- the irregular-rule test of `get_local_date` (accept when the date is in calendar year `wy`, otherwise only if
    `get_week_year` of the date is `wy`) accepts exactly the days of week-year `wy` -/
theorem irr_accept_iff (yo : Int → Int) (hyo : YearOf c yo) (wy D : Int)
    (hD : weekYearStart r c wy ≤ D) (hD2 : D < weekYearStart r c wy + weeksIn r c wy * 7) :
    (wy = yo D ∨ weekYear r c (yo D) D = wy) ↔ InWeekYear r c wy D := by
  have b := irr_weeks_bounds hr hc wy
  have wA := weekYearStart_window_any hr.range (c := c) wy
  have wB := weekYearStart_window_any hr.range (c := c) (wy + 1)
  have wC := weekYearStart_window_any hr.range (c := c) (wy - 1)
  have hy0 := hc wy
  have hy1 := hc (wy + 1)
  have hy' := hc (wy - 1)
  have e1 : wy - 1 + 1 = wy := by omega
  rw [e1] at hy'
  obtain ⟨hi, g1, g2, g3, g4⟩ := hr
  have hirr : IrrOK r := ⟨hi, g1, g2, g3, g4⟩
  unfold InWeekYear
  by_cases c1 : D < c.start wy
  · have hy : yo D = wy - 1 := hyo (wy - 1) D (by omega) (by rw [e1]; exact c1)
    rw [hy, irr_weekYear_eq hirr]
    constructor
    · intro h; rcases h with h | h
      · omega
      · split at h <;> omega
    · intro h; omega
  · by_cases c2 : D < c.start (wy + 1)
    · have hy : yo D = wy := hyo wy D (by omega) c2
      rw [hy]
      constructor
      · intro _; omega
      · intro _; exact Or.inl rfl
    · have hy : yo D = wy + 1 := hyo (wy + 1) D (by omega) (by omega)
      rw [hy, irr_weekYear_eq hirr]
      constructor
      · intro h; rcases h with h | h
        · omega
        · split at h <;> omega
      · intro h
        right
        rw [if_pos (by omega)]; omega

/-- `get_local_date` with an irregular rule returns the date of the triple exactly when the week number is within
    the weeks of the week-year, the day is inside the calendar, and the day belongs to week-year `wy` -/
theorem irr_localDate_ok_iff (yo : Int → Int) (hyo : YearOf c yo) (wy w dow d : Int)
    (hv : validateWeekYear r c wy = .ok ()) (hdow : 1 ≤ dow ∧ dow ≤ 7) :
    localDate r c yo wy w dow = .ok d ↔
      (1 ≤ w ∧ w ≤ weeksIn r c wy) ∧ d = weekDateDays r c wy w dow ∧
      (c.minDays ≤ d ∧ d ≤ c.maxDays) ∧ InWeekYear r c wy d := by
  have hi := hr.1
  simp only [localDate, hv, bind, Except.bind, checkRange, weekDateDays]
  rw [if_neg (by omega)]
  simp only []
  generalize hD : weekYearStart r c wy + (w - 1) * 7 + (dow - r.firstDayOfWeek + 7) % 7 = D
  by_cases cw : w < 1 ∨ w > weeksIn r c wy
  · rw [if_pos cw]
    constructor
    · intro h; cases h
    · intro h; omega
  · rw [if_neg cw]
    by_cases cd : D < c.minDays ∨ D > c.maxDays
    · rw [if_pos cd]
      constructor
      · intro h; cases h
      · intro h; omega
    · rw [if_neg cd]
      have hacc := irr_accept_iff hr hc yo hyo wy D (by omega) (by omega)
      simp only [hi, true_and]
      by_cases ca : wy = yo D
      · rw [if_neg (by simp [ca])]
        have hin := hacc.1 (Or.inl ca)
        constructor
        · intro h; cases h; exact ⟨by omega, rfl, by omega, hin⟩
        · intro h; rw [h.2.1]
      · rw [if_pos ca]
        by_cases cb : weekYear r c (yo D) D = wy
        · rw [if_neg (by simp [cb])]
          have hin := hacc.1 (Or.inr cb)
          constructor
          · intro h; cases h; exact ⟨by omega, rfl, by omega, hin⟩
          · intro h; rw [h.2.1]
        · rw [if_pos cb]
          constructor
          · intro h; cases h
          · intro h
            obtain ⟨_, h2, _, h4⟩ := h
            rw [h2] at h4
            rcases hacc.2 h4 with h | h
            · exact absurd h ca
            · exact absurd h cb

/-- … and in every other case it raises ValueError -/
theorem irr_localDate_error (yo : Int → Int) (hyo : YearOf c yo) (wy w dow : Int)
    (hv : validateWeekYear r c wy = .ok ()) (hdow : 1 ≤ dow ∧ dow ≤ 7)
    (hno : ¬ ((1 ≤ w ∧ w ≤ weeksIn r c wy) ∧
      (c.minDays ≤ weekDateDays r c wy w dow ∧ weekDateDays r c wy w dow ≤ c.maxDays) ∧
      InWeekYear r c wy (weekDateDays r c wy w dow))) :
    localDate r c yo wy w dow = .error .valueError := by
  have hiff := irr_localDate_ok_iff hr hc yo hyo wy w dow (weekDateDays r c wy w dow) hv hdow
  have hne : localDate r c yo wy w dow ≠ .ok (weekDateDays r c wy w dow) := by
    intro h; exact hno ⟨(hiff.1 h).1, (hiff.1 h).2.2.1, (hiff.1 h).2.2.2⟩
  have hi := hr.1
  revert hne
  simp only [localDate, hv, bind, Except.bind, checkRange, weekDateDays]
  rw [if_neg (by omega)]
  simp only []
  intro hne
  split
  · rfl
  · split
    · rfl
    · split
      · split
        · rfl
        · rename_i h1 h2 h3 h4
          rw [if_neg h1, if_neg h2, if_pos h3, if_neg h4] at hne
          exact absurd rfl hne
      · rename_i h1 h2 h3
        rw [if_neg h1, if_neg h2, if_neg h3] at hne
        exact absurd rfl hne

/-- a triple whose date falls before the calendar year `wy` is rejected (first week cut short by the year start) -/
theorem irr_localDate_rejects_previous_year (yo : Int → Int) (hyo : YearOf c yo) (wy w dow : Int)
    (hv : validateWeekYear r c wy = .ok ()) (hdow : 1 ≤ dow ∧ dow ≤ 7)
    (h : weekDateDays r c wy w dow < c.start wy) :
    localDate r c yo wy w dow = .error .valueError := by
  apply irr_localDate_error hr hc yo hyo wy w dow hv hdow
  intro hh
  have := hh.2.2.1.1
  omega

/-- a triple whose date falls in the calendar year after `wy` is rejected unless that date lies before the first
    week of the next week-year -/
theorem irr_localDate_rejects_next_year (yo : Int → Int) (hyo : YearOf c yo) (wy w dow : Int)
    (hv : validateWeekYear r c wy = .ok ()) (hdow : 1 ≤ dow ∧ dow ≤ 7)
    (h : c.start (wy + 1) ≤ weekDateDays r c wy w dow)
    (h' : weekYearStart r c (wy + 1) ≤ weekDateDays r c wy w dow) :
    localDate r c yo wy w dow = .error .valueError := by
  apply irr_localDate_error hr hc yo hyo wy w dow hv hdow
  intro hh
  have := hh.2.2.2
  omega

/-- an accepted triple is the triple of the date returned: (week-year, week, day-of-week) → date → the same triple -/
theorem irr_localDate_sound (yo : Int → Int) (hyo : YearOf c yo) (wy w dow d : Int)
    (hv : validateWeekYear r c wy = .ok ()) (hdow : 1 ≤ dow ∧ dow ≤ 7)
    (h : localDate r c yo wy w dow = .ok d) :
    weekYear r c (yo d) d = wy ∧ weekOf r c (yo d) d = w ∧ dayOfWeek d = dow := by
  obtain ⟨hw, hd, _, hin⟩ := (irr_localDate_ok_iff hr hc yo hyo wy w dow d hv hdow).1 h
  have ha := weekYearStart_aligned_any hr.range (c := c) wy
  have hy1 := hc (wy + 1)
  have b := irr_weeks_bounds hr hc wy
  have hin' := hin
  unfold InWeekYear at hin'
  unfold weekDateDays at hd
  have hwy : weekYear r c (yo d) d = wy := by
    by_cases c2 : d < c.start (wy + 1)
    · have hy : yo d = wy := hyo wy d (by omega) c2
      rw [hy]
      exact irr_weekYear_unique hr hc wy d wy (by omega) c2 (Or.inr (Or.inl rfl)) hin
    · have hy : yo d = wy + 1 := hyo (wy + 1) d (by omega) (by omega)
      rw [hy]
      exact irr_weekYear_unique hr hc (wy + 1) d wy (by omega) (by omega) (Or.inl (by omega)) hin
  refine ⟨hwy, ?_, ?_⟩
  · rw [weekOf_eq, hwy]
    simp (disch := decide) only [tdiv_pos]
    rw [if_pos (by omega)]
    omega
  · rw [dayOfWeek_eq] at ha
    rw [dayOfWeek_eq]
    obtain ⟨_, g1, g2, g3, g4⟩ := hr
    omega

/-! ### weeks advance every seven days, week numbers change on the first day of week — inside a week-year -/

/-- Seven days later the week number is one higher if the week-year is the same; if the week-year has changed the
    later date is in week 1 or 2 and the earlier one in the last or last-but-one week. -/
theorem irr_weeks_advance_partial (cy cy' d : Int) (h1 : c.start cy ≤ d) (h2 : d < c.start (cy + 1))
    (h1' : c.start cy' ≤ d + 7) (h2' : d + 7 < c.start (cy' + 1)) :
    (weekYear r c cy' (d + 7) = weekYear r c cy d → weekOf r c cy' (d + 7) = weekOf r c cy d + 1) ∧
    (weekYear r c cy' (d + 7) = weekYear r c cy d + 1 →
      1 ≤ weekOf r c cy' (d + 7) ∧ weekOf r c cy' (d + 7) ≤ 2 ∧
      weeksIn r c (weekYear r c cy d) - 1 ≤ weekOf r c cy d) := by
  have k1 := irr_weekYear_contains hr hc cy d h1 h2
  have k2 := irr_weekYear_contains hr hc cy' (d + 7) h1' h2'
  have b := irr_weeks_bounds hr hc (weekYear r c cy d)
  have wB := weekYearStart_window_any hr.range (c := c) (weekYear r c cy d + 1)
  unfold InWeekYear at k1 k2
  obtain ⟨_, g1, g2, g3, g4⟩ := hr
  constructor
  · intro he
    rw [weekOf_eq, weekOf_eq, he]
    simp (disch := decide) only [tdiv_pos]
    generalize weekYear r c cy d = w at *
    rw [if_pos (by omega), if_pos (by omega)]
    omega
  · intro he
    rw [weekOf_eq, weekOf_eq, he]
    rw [he] at k2
    simp (disch := decide) only [tdiv_pos]
    generalize weekYear r c cy d = w at *
    rw [if_pos (by omega), if_pos (by omega)]
    omega

/-- On consecutive days of one week-year the week number goes up exactly on the rule's first day of week. -/
theorem irr_week_boundary (cy cy' d : Int) (h1 : c.start cy ≤ d - 1) (h2 : d - 1 < c.start (cy + 1))
    (_h1' : c.start cy' ≤ d) (_h2' : d < c.start (cy' + 1))
    (he : weekYear r c cy' d = weekYear r c cy (d - 1)) :
    weekOf r c cy' d = weekOf r c cy (d - 1) + (if dayOfWeek d = r.firstDayOfWeek then 1 else 0) := by
  have k1 := irr_weekYear_contains hr hc cy (d - 1) h1 h2
  have ha := weekYearStart_aligned_any hr.range (c := c) (weekYear r c cy (d - 1))
  unfold InWeekYear at k1
  rw [dayOfWeek_eq] at ha
  rw [dayOfWeek_eq, weekOf_eq, weekOf_eq, he]
  simp (disch := decide) only [tdiv_pos]
  obtain ⟨_, g1, g2, g3, g4⟩ := hr
  generalize weekYear r c cy (d - 1) = w at *
  generalize weekYearStart r c w = ws at *
  rw [if_pos (by omega), if_pos (by omega)]
  split <;> omega

/-- At the one place where the week-year changes between consecutive days, the later day is in week 1 and the
    earlier one in the last week of its week-year — whatever the day of week (the BCL semantics). -/
theorem irr_year_boundary (cy cy' d : Int) (h1 : c.start cy ≤ d - 1) (h2 : d - 1 < c.start (cy + 1))
    (h1' : c.start cy' ≤ d) (h2' : d < c.start (cy' + 1))
    (he : weekYear r c cy' d = weekYear r c cy (d - 1) + 1) :
    weekOf r c cy' d = 1 ∧ weekOf r c cy (d - 1) = weeksIn r c (weekYear r c cy (d - 1)) := by
  have k1 := irr_weekYear_contains hr hc cy (d - 1) h1 h2
  have k2 := irr_weekYear_contains hr hc cy' d h1' h2'
  have b := irr_weeks_bounds hr hc (weekYear r c cy (d - 1))
  have wB := weekYearStart_window_any hr.range (c := c) (weekYear r c cy (d - 1) + 1)
  unfold InWeekYear at k1 k2
  rw [he] at k2
  rw [weekOf_eq, weekOf_eq, he]
  simp (disch := decide) only [tdiv_pos]
  by_cases hs : c.start (weekYear r c cy (d - 1) + 1) ≤ weekYearStart r c (weekYear r c cy (d - 1) + 1)
  · have hn := irr_weeks_reach_next hr hc (weekYear r c cy (d - 1)) hs
    obtain ⟨_, g1, g2, g3, g4⟩ := hr
    generalize weekYear r c cy (d - 1) = w at *
    rw [if_pos (by omega), if_pos (by omega)]
    omega
  · obtain ⟨_, g1, g2, g3, g4⟩ := hr
    generalize weekYear r c cy (d - 1) = w at *
    rw [if_pos (by omega), if_pos (by omega)]
    omega

end

end Pyoda.C16
