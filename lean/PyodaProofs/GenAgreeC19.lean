/-
  GenAgreeC19 — agreement between the clocks GENERATED from pyoda_time's Python source (`PyodaGen/C19.lean`:
  `FakeClock`, every public operation as a state-passing function over the model's state `(now, auto_advance)`;
  `ZonedClock` over a `FakeClock`) and the state machine of the model (`PyodaModel/Clock.lean`: `step`, `zonedRead`).

  `asStep c out r` reads a result of the generated code started in state `c` as a step of the model: the new state and the
  output, or — an exception — the unchanged state and the exception (a Python exception leaves the object as it was).
  `with self.__lock:` is translated as its body: these theorems are about one thread using the clock; the interleavings of
  several threads are C19's `Sys` model (linearizability theorems of `PyodaProofs/C19.lean`), and the last section
  (`gen_*_atomic`, `all_ops_atomic_in_source`) ties that model's atomic-step assumption to the lock discipline of the source.
  The ZonedClock theorems hold for EVERY `in_zone` / projection function (abstract parameters `inZone`, `proj`).
-/
import PyodaGen.C19
import PyodaModel.Clock
import PyodaProofs.Basic

namespace Pyoda.GenAgree.C19
open Pyoda Pyoda.Clock

def asStep {α} (c : FakeClock) (out : α → Out) (r : R (α × FakeClock)) : FakeClock × Out :=
  match r with
  | .ok (v, c') => (c', out v)
  | .error e => (c, .err e)

theorem gen_FakeClock_new_eq (i : Instant) (a : Duration) : Gen.C19.FakeClock.new i a = ⟨i, a⟩ := rfl

theorem gen_FakeClock_advance_eq (c : FakeClock) (d : Duration) :
    asStep c (fun _ => Out.unit) (Gen.C19.FakeClock.advance c d) = step c (.advance d) := by
  simp only [Gen.C19.FakeClock.advance, step, commitStep, asStep]
  rcases h : c.now.plus d with e | n <;> simp [bind, Except.bind]

theorem advanceUnit_eq (c : FakeClock) (u : TUnit) (n : Int) :
    asStep c (fun _ => Out.unit) (do let d ← unitDur u n; let p ← Gen.C19.FakeClock.advance c d; .ok ((), p.2)) =
      step c (.advanceUnit u n) := by
  simp only [Gen.C19.FakeClock.advance, step, commitStep, asStep]
  rcases hu : unitDur u n with e | d
  · simp [bind, Except.bind]
  · rcases h : c.now.plus d with e | n <;> simp [bind, Except.bind, h]

theorem gen_FakeClock_advanceNanoseconds_eq (c : FakeClock) (n : Int) :
    asStep c (fun _ => Out.unit) (Gen.C19.FakeClock.advanceNanoseconds c n) = step c (.advanceUnit .nanoseconds n) :=
  advanceUnit_eq c .nanoseconds n
theorem gen_FakeClock_advanceTicks_eq (c : FakeClock) (n : Int) :
    asStep c (fun _ => Out.unit) (Gen.C19.FakeClock.advanceTicks c n) = step c (.advanceUnit .ticks n) :=
  advanceUnit_eq c .ticks n
theorem gen_FakeClock_advanceMilliseconds_eq (c : FakeClock) (n : Int) :
    asStep c (fun _ => Out.unit) (Gen.C19.FakeClock.advanceMilliseconds c n) = step c (.advanceUnit .milliseconds n) :=
  advanceUnit_eq c .milliseconds n
theorem gen_FakeClock_advanceSeconds_eq (c : FakeClock) (n : Int) :
    asStep c (fun _ => Out.unit) (Gen.C19.FakeClock.advanceSeconds c n) = step c (.advanceUnit .seconds n) :=
  advanceUnit_eq c .seconds n
theorem gen_FakeClock_advanceMinutes_eq (c : FakeClock) (n : Int) :
    asStep c (fun _ => Out.unit) (Gen.C19.FakeClock.advanceMinutes c n) = step c (.advanceUnit .minutes n) :=
  advanceUnit_eq c .minutes n
theorem gen_FakeClock_advanceHours_eq (c : FakeClock) (n : Int) :
    asStep c (fun _ => Out.unit) (Gen.C19.FakeClock.advanceHours c n) = step c (.advanceUnit .hours n) :=
  advanceUnit_eq c .hours n
theorem gen_FakeClock_advanceDays_eq (c : FakeClock) (n : Int) :
    asStep c (fun _ => Out.unit) (Gen.C19.FakeClock.advanceDays c n) = step c (.advanceUnit .days n) :=
  advanceUnit_eq c .days n

theorem gen_FakeClock_reset_eq (c : FakeClock) (i : Instant) :
    asStep c (fun _ => Out.unit) (.ok (Gen.C19.FakeClock.reset c i)) = step c (.reset i) := rfl

theorem gen_FakeClock_getCurrentInstant_eq (c : FakeClock) :
    asStep c Out.instant (Gen.C19.FakeClock.getCurrentInstant c) = step c .read := by
  simp only [Gen.C19.FakeClock.getCurrentInstant, step, commitStep, asStep]
  rcases h : c.now.plus c.auto with e | n <;> simp [bind, Except.bind]

theorem gen_FakeClock_getAutoAdvance_eq (c : FakeClock) :
    (c, Out.dur (Gen.C19.FakeClock.getAutoAdvance c)) = step c .getAuto := rfl

theorem gen_FakeClock_setAutoAdvance_eq (c : FakeClock) (d : Duration) :
    asStep c (fun _ => Out.unit) (.ok (Gen.C19.FakeClock.setAutoAdvance c d)) = step c (.setAuto d) := rfl

/-! ## ZonedClock over a FakeClock -/

theorem gen_ZonedClock_zone_eq (z : Int) : Gen.C19.ZonedClock.zone z = z := rfl
theorem gen_ZonedClock_calendar_eq (k : Int) : Gen.C19.ZonedClock.calendar k = k := rfl

theorem gen_ZonedClock_getCurrentInstant_eq (c : FakeClock) :
    asStep c Out.instant (Gen.C19.ZonedClock.getCurrentInstant c) = step c .read := by
  rw [← gen_FakeClock_getCurrentInstant_eq]
  unfold Gen.C19.ZonedClock.getCurrentInstant
  cases Gen.C19.FakeClock.getCurrentInstant c <;> rfl

/-- a read of the zoned clock rendered by `view`, as a result of the generated code -/
def ofZoned {α} (p : FakeClock × R α) : R (α × FakeClock) :=
  match p with
  | (c', .ok v) => .ok (v, c')
  | (_, .error e) => .error e

theorem zoned_view {α} (view : Instant → R α) (c : FakeClock) :
    (do let p ← Gen.C19.ZonedClock.getCurrentInstant c; let r ← view p.1; (.ok (r, p.2) : R (α × FakeClock))) =
      ofZoned (zonedRead view c) := by
  simp only [Gen.C19.ZonedClock.getCurrentInstant, Gen.C19.FakeClock.getCurrentInstant, zonedRead, step, commitStep, ofZoned]
  rcases h : c.now.plus c.auto with e | n
  · simp [bind, Except.bind]
  · rcases hv : view c.now with e | v <;> simp [bind, Except.bind, hv]

theorem gen_ZonedClock_getCurrentZonedDateTime_eq (inZone : Instant → Int → Int → R Int) (proj : Int → R Int) (zone cal : Int) (c : FakeClock) :
    Gen.C19.ZonedClock.getCurrentZonedDateTime inZone proj zone cal c = ofZoned (zonedRead (fun i => inZone i zone cal) c) :=
  zoned_view (fun i => inZone i zone cal) c

theorem zoned_proj (inZone : Instant → Int → Int → R Int) (proj : Int → R Int) (zone cal : Int) (c : FakeClock) :
    (do let p ← Gen.C19.ZonedClock.getCurrentZonedDateTime inZone proj zone cal c; let r ← proj p.1; (.ok (r, p.2) : R (Int × FakeClock))) =
      ofZoned (zonedRead (fun i => inZone i zone cal >>= proj) c) := by
  rw [gen_ZonedClock_getCurrentZonedDateTime_eq]
  simp only [zonedRead, step, commitStep, ofZoned]
  rcases h : c.now.plus c.auto with e | n
  · simp [bind, Except.bind]
  · rcases hv : inZone c.now zone cal with e | z
    · simp [bind, Except.bind, hv]
    · rcases hp : proj z with e | w <;> simp [bind, Except.bind, hv, hp]

theorem gen_ZonedClock_getCurrentLocalDateTime_eq (inZone : Instant → Int → Int → R Int) (proj : Int → R Int) (zone cal : Int) (c : FakeClock) :
    Gen.C19.ZonedClock.getCurrentLocalDateTime inZone proj zone cal c = ofZoned (zonedRead (fun i => inZone i zone cal >>= proj) c) :=
  zoned_proj inZone proj zone cal c
theorem gen_ZonedClock_getCurrentOffsetDateTime_eq (inZone : Instant → Int → Int → R Int) (proj : Int → R Int) (zone cal : Int) (c : FakeClock) :
    Gen.C19.ZonedClock.getCurrentOffsetDateTime inZone proj zone cal c = ofZoned (zonedRead (fun i => inZone i zone cal >>= proj) c) :=
  zoned_proj inZone proj zone cal c
theorem gen_ZonedClock_getCurrentDate_eq (inZone : Instant → Int → Int → R Int) (proj : Int → R Int) (zone cal : Int) (c : FakeClock) :
    Gen.C19.ZonedClock.getCurrentDate inZone proj zone cal c = ofZoned (zonedRead (fun i => inZone i zone cal >>= proj) c) :=
  zoned_proj inZone proj zone cal c
theorem gen_ZonedClock_getCurrentTimeOfDay_eq (inZone : Instant → Int → Int → R Int) (proj : Int → R Int) (zone cal : Int) (c : FakeClock) :
    Gen.C19.ZonedClock.getCurrentTimeOfDay inZone proj zone cal c = ofZoned (zonedRead (fun i => inZone i zone cal >>= proj) c) :=
  zoned_proj inZone proj zone cal c

/-! ## The atomic-step assumption of the interleaving theorems, tied to the source (builder B10)

`with self.__lock:` is translated as its body, so the equations above cannot see the lock.  C19's `Sys` model
(`PyodaModel/Clock.lean: compile`) runs every public operation as `acquire ; load ; commit op ; release`: ONE critical section
around the whole read-modify-write, and `linearizable` / `concurrent_reads_distinct` / `all_ops_complete` rest on that.  The
translator therefore also emits, per method, its lock discipline as data (`<op>.lockInfo : LockInfo`, computed from the AST:
attributes read and written, whether every access to mutable state is inside `with self.__lock:`, the number of critical
sections, same-class calls made while holding the lock, steps taken outside it), and the theorems below check
`LockInfo.Atomic` (`PyodaGen/LockInfo.lean`) on the record of every public operation, by evaluation.  Removing the `with` from
`reset`, writing `__now` before entering it, splitting `get_current_instant` into a locked read and a locked write, or calling
`advance` while holding the lock (the deadlock of `advanceUnit_blocks_counterexample`) makes exactly that operation's theorem
fail, and `common.gen_tie` reports it by name.  The constructor is excluded: the object is not shared before it returns.
The `advance_<unit>` methods and the ZonedClock getters touch no mutable attribute themselves (`shared = []`; `__clock`,
`__zone`, `__calendar` are assigned by the constructor only): for them `Atomic` says that they take at most ONE step of
another operation (`advance`, the wrapped clock's `get_current_instant`). -/

open Pyoda.Gen (LockInfo)

theorem gen_FakeClock_advance_atomic : Gen.C19.FakeClock.advance.lockInfo.Atomic := by decide
theorem gen_FakeClock_advanceNanoseconds_atomic : Gen.C19.FakeClock.advanceNanoseconds.lockInfo.Atomic := by decide
theorem gen_FakeClock_advanceTicks_atomic : Gen.C19.FakeClock.advanceTicks.lockInfo.Atomic := by decide
theorem gen_FakeClock_advanceMilliseconds_atomic : Gen.C19.FakeClock.advanceMilliseconds.lockInfo.Atomic := by decide
theorem gen_FakeClock_advanceSeconds_atomic : Gen.C19.FakeClock.advanceSeconds.lockInfo.Atomic := by decide
theorem gen_FakeClock_advanceMinutes_atomic : Gen.C19.FakeClock.advanceMinutes.lockInfo.Atomic := by decide
theorem gen_FakeClock_advanceHours_atomic : Gen.C19.FakeClock.advanceHours.lockInfo.Atomic := by decide
theorem gen_FakeClock_advanceDays_atomic : Gen.C19.FakeClock.advanceDays.lockInfo.Atomic := by decide
theorem gen_FakeClock_reset_atomic : Gen.C19.FakeClock.reset.lockInfo.Atomic := by decide
theorem gen_FakeClock_getCurrentInstant_atomic : Gen.C19.FakeClock.getCurrentInstant.lockInfo.Atomic := by decide
theorem gen_FakeClock_getAutoAdvance_atomic : Gen.C19.FakeClock.getAutoAdvance.lockInfo.Atomic := by decide
theorem gen_FakeClock_setAutoAdvance_atomic : Gen.C19.FakeClock.setAutoAdvance.lockInfo.Atomic := by decide
theorem gen_ZonedClock_zone_atomic : Gen.C19.ZonedClock.zone.lockInfo.Atomic := by decide
theorem gen_ZonedClock_calendar_atomic : Gen.C19.ZonedClock.calendar.lockInfo.Atomic := by decide
theorem gen_ZonedClock_getCurrentInstant_atomic : Gen.C19.ZonedClock.getCurrentInstant.lockInfo.Atomic := by decide
theorem gen_ZonedClock_getCurrentZonedDateTime_atomic : Gen.C19.ZonedClock.getCurrentZonedDateTime.lockInfo.Atomic := by decide
theorem gen_ZonedClock_getCurrentLocalDateTime_atomic : Gen.C19.ZonedClock.getCurrentLocalDateTime.lockInfo.Atomic := by decide
theorem gen_ZonedClock_getCurrentOffsetDateTime_atomic : Gen.C19.ZonedClock.getCurrentOffsetDateTime.lockInfo.Atomic := by decide
theorem gen_ZonedClock_getCurrentDate_atomic : Gen.C19.ZonedClock.getCurrentDate.lockInfo.Atomic := by decide
theorem gen_ZonedClock_getCurrentTimeOfDay_atomic : Gen.C19.ZonedClock.getCurrentTimeOfDay.lockInfo.Atomic := by decide

/-- the lock-discipline records of every public FakeClock operation and every ZonedClock member, as regenerated from the source -/
def publicOps : List (String × LockInfo) := [
  ("FakeClock.advance", Gen.C19.FakeClock.advance.lockInfo),
  ("FakeClock.advanceNanoseconds", Gen.C19.FakeClock.advanceNanoseconds.lockInfo),
  ("FakeClock.advanceTicks", Gen.C19.FakeClock.advanceTicks.lockInfo),
  ("FakeClock.advanceMilliseconds", Gen.C19.FakeClock.advanceMilliseconds.lockInfo),
  ("FakeClock.advanceSeconds", Gen.C19.FakeClock.advanceSeconds.lockInfo),
  ("FakeClock.advanceMinutes", Gen.C19.FakeClock.advanceMinutes.lockInfo),
  ("FakeClock.advanceHours", Gen.C19.FakeClock.advanceHours.lockInfo),
  ("FakeClock.advanceDays", Gen.C19.FakeClock.advanceDays.lockInfo),
  ("FakeClock.reset", Gen.C19.FakeClock.reset.lockInfo),
  ("FakeClock.getCurrentInstant", Gen.C19.FakeClock.getCurrentInstant.lockInfo),
  ("FakeClock.getAutoAdvance", Gen.C19.FakeClock.getAutoAdvance.lockInfo),
  ("FakeClock.setAutoAdvance", Gen.C19.FakeClock.setAutoAdvance.lockInfo),
  ("ZonedClock.zone", Gen.C19.ZonedClock.zone.lockInfo),
  ("ZonedClock.calendar", Gen.C19.ZonedClock.calendar.lockInfo),
  ("ZonedClock.getCurrentInstant", Gen.C19.ZonedClock.getCurrentInstant.lockInfo),
  ("ZonedClock.getCurrentZonedDateTime", Gen.C19.ZonedClock.getCurrentZonedDateTime.lockInfo),
  ("ZonedClock.getCurrentLocalDateTime", Gen.C19.ZonedClock.getCurrentLocalDateTime.lockInfo),
  ("ZonedClock.getCurrentOffsetDateTime", Gen.C19.ZonedClock.getCurrentOffsetDateTime.lockInfo),
  ("ZonedClock.getCurrentDate", Gen.C19.ZonedClock.getCurrentDate.lockInfo),
  ("ZonedClock.getCurrentTimeOfDay", Gen.C19.ZonedClock.getCurrentTimeOfDay.lockInfo)]

/-- **The atomic-step assumption holds in the source.**  Every public operation of FakeClock (constructor excluded) and every
    ZonedClock getter is, in the current Python source, one atomic step in the sense of `LockInfo.Atomic`: this is the tie of the
    hypothesis under which `Pyoda.C19.linearizable`, `concurrent_reads_distinct` and `all_ops_complete` model an operation as
    `acquire ; load ; commit ; release` (collected from the per-operation theorems `gen_*_atomic` above, which name the broken
    operation when the discipline is violated). -/
theorem all_ops_atomic_in_source : ∀ p ∈ publicOps, p.2.Atomic := by
  intro p hp
  simp only [publicOps, List.mem_cons, List.not_mem_nil, or_false] at hp
  rcases hp with rfl | rfl | rfl | rfl | rfl | rfl | rfl | rfl | rfl | rfl | rfl | rfl | rfl | rfl | rfl | rfl | rfl | rfl | rfl | rfl
  · exact gen_FakeClock_advance_atomic
  · exact gen_FakeClock_advanceNanoseconds_atomic
  · exact gen_FakeClock_advanceTicks_atomic
  · exact gen_FakeClock_advanceMilliseconds_atomic
  · exact gen_FakeClock_advanceSeconds_atomic
  · exact gen_FakeClock_advanceMinutes_atomic
  · exact gen_FakeClock_advanceHours_atomic
  · exact gen_FakeClock_advanceDays_atomic
  · exact gen_FakeClock_reset_atomic
  · exact gen_FakeClock_getCurrentInstant_atomic
  · exact gen_FakeClock_getAutoAdvance_atomic
  · exact gen_FakeClock_setAutoAdvance_atomic
  · exact gen_ZonedClock_zone_atomic
  · exact gen_ZonedClock_calendar_atomic
  · exact gen_ZonedClock_getCurrentInstant_atomic
  · exact gen_ZonedClock_getCurrentZonedDateTime_atomic
  · exact gen_ZonedClock_getCurrentLocalDateTime_atomic
  · exact gen_ZonedClock_getCurrentOffsetDateTime_atomic
  · exact gen_ZonedClock_getCurrentDate_atomic
  · exact gen_ZonedClock_getCurrentTimeOfDay_atomic

/-- sanity of the records (the theorems above are not vacuous): exactly these five operations touch mutable state themselves,
    all under the one lock of the class; the other fifteen are single steps of one of them -/
theorem gen_FakeClock_shared : (publicOps.filter (fun p => p.2.shared ≠ [])).map (fun p => (p.1, p.2.lock, p.2.shared)) =
    [("FakeClock.advance", "__lock", ["__now"]), ("FakeClock.reset", "__lock", ["__now"]),
     ("FakeClock.getCurrentInstant", "__lock", ["__auto_advance", "__now"]),
     ("FakeClock.getAutoAdvance", "__lock", ["__auto_advance"]), ("FakeClock.setAutoAdvance", "__lock", ["__auto_advance"])] := by decide

end Pyoda.GenAgree.C19
