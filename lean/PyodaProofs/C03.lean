/-
  C03 — Duration, Instant, Offset do exact integer arithmetic.
  Property theorems only; helper lemmas live in PyodaProofs.Basic.
  `val d` is the number of nanoseconds a Duration denotes, `Norm d` the normalisation
  invariant (0 ≤ nano-of-day < one day), `InRange d` the documented range of days.
-/
import PyodaModel.Elapsed
import PyodaProofs.Basic

namespace Pyoda.C03
open Pyoda Pyoda.Duration

def val (d : Duration) : Int := d.days * NPD + d.nod
def Norm (d : Duration) : Prop := 0 ≤ d.nod ∧ d.nod < NPD
def InRange (d : Duration) : Prop := MIN_DAYS ≤ d.days ∧ d.days ≤ MAX_DAYS
/-- the documented range in nanoseconds -/
def NsInRange (n : Int) : Prop := MIN_NANOS ≤ n ∧ n ≤ MAX_NANOS

inductive TUnit | hours | minutes | seconds | milliseconds | microseconds
def TUnit.nanos : TUnit → Int
  | .hours => NPH | .minutes => NPMin | .seconds => NPS | .milliseconds => NPMs | .microseconds => NPUs
def fromUnit : TUnit → Int → R Duration
  | .hours => fromHours | .minutes => fromMinutes | .seconds => fromSeconds
  | .milliseconds => fromMilliseconds | .microseconds => fromMicroseconds

local macro "unfold_consts" : tactic =>
  `(tactic| simp only [NPD, NPH, NPMin, NPS, NPMs, NPUs, NPT, TPD, TPS, TPH, SPD, MsPD, UsPD, MinPD, HPD,
      MIN_DAYS, MAX_DAYS, MIN_NANOS, MAX_NANOS, decBound, Instant.MIN_DAYS, Instant.MAX_DAYS] at *)

/-- Construction from any unit: the result is normalised, in range and denotes exactly `n` units. -/
theorem fromUnits_exact (u : TUnit) (n : Int) (d : Duration) (h : fromUnit u n = .ok d) :
    Norm d ∧ InRange d ∧ val d = n * u.nanos := by
  cases u <;>
  · simp only [fromUnit, fromHours, fromMinutes, fromSeconds, fromMilliseconds, fromMicroseconds,
      fromUnits] at h
    rw [checkRange_bind] at h
    obtain ⟨hr, h⟩ := h
    unfold_consts
    rw [pyTdiv_bind _ _ _ (by decide) (by unfold_consts; omega) (by unfold_consts; omega) (by decide) (by decide)] at h
    simp (disch := decide) only [tdiv_pos] at h
    simp only [Norm, InRange, val, TUnit.nanos]
    unfold_consts
    split at h <;> split at h <;> (simp only [Except.ok.injEq] at h; subst h; simp only; omega)

theorem fromUnits_raises_iff (u : TUnit) (n : Int) :
    (∃ e, fromUnit u n = .error e) ↔ ¬ NsInRange (n * u.nanos) := by
  cases u <;>
  · simp only [fromUnit, fromHours, fromMinutes, fromSeconds, fromMilliseconds, fromMicroseconds,
      fromUnits, NsInRange, TUnit.nanos]
    constructor
    · rintro ⟨e, h⟩
      rw [checkRange_bind_err] at h
      rcases h with ⟨hr, _⟩ | ⟨hr, h⟩
      · unfold_consts; omega
      · exfalso
        unfold_consts
        rw [pyTdiv_bind _ _ _ (by decide) (by unfold_consts; omega) (by unfold_consts; omega) (by decide) (by decide)] at h
        exact ite_ok_ne_error _ _ _ h
    · intro hn
      refine ⟨.valueError, ?_⟩
      rw [checkRange_bind_err]
      left
      refine ⟨?_, rfl⟩
      unfold_consts; omega

theorem fromUnits_error_kind (u : TUnit) (n : Int) (e : PyExc) (h : fromUnit u n = .error e) :
    e = .valueError := by
  cases u <;>
  · simp only [fromUnit, fromHours, fromMinutes, fromSeconds, fromMilliseconds, fromMicroseconds,
      fromUnits] at h
    rw [checkRange_bind_err] at h
    rcases h with ⟨_, he⟩ | ⟨hr, h⟩
    · exact he
    · exfalso
      unfold_consts
      rw [pyTdiv_bind _ _ _ (by decide) (by unfold_consts; omega) (by unfold_consts; omega) (by decide) (by decide)] at h
      exact ite_ok_ne_error _ _ _ h

theorem ctor_ok (days nod : Int) (d : Duration) :
    ctor days nod = .ok d ↔ (MIN_DAYS ≤ days ∧ days ≤ MAX_DAYS) ∧ d = ⟨days, nod⟩ := by
  unfold ctor
  by_cases h : days < MIN_DAYS ∨ days > MAX_DAYS
  · simp only [h, if_true]; constructor
    · intro h'; cases h'
    · intro ⟨h1, _⟩; omega
  · simp only [h, if_false, Except.ok.injEq]; constructor
    · intro h'; exact ⟨by omega, h'.symm⟩
    · intro ⟨_, h'⟩; exact h'.symm

theorem ctor_err (days nod : Int) (e : PyExc) :
    ctor days nod = .error e ↔ (days < MIN_DAYS ∨ days > MAX_DAYS) ∧ e = .valueError := by
  unfold ctor
  by_cases h : days < MIN_DAYS ∨ days > MAX_DAYS
  · simp only [h, if_true, Except.error.injEq, true_and]; exact eq_comm
  · simp only [h, if_false, false_and]; constructor
    · intro h'; cases h'
    · intro h'; exact h'.elim

/-- `Duration.from_nanoseconds(n)` (int): exact, normalised, in range. -/
theorem fromNanoseconds_exact (n : Int) (d : Duration) (h : fromNanoseconds n = .ok d) :
    Norm d ∧ InRange d ∧ val d = n := by
  unfold fromNanoseconds at h
  rw [checkRange_bind] at h
  obtain ⟨hr, h⟩ := h
  unfold_consts
  split at h
  · rw [ctor_ok] at h
    obtain ⟨hd, rfl⟩ := h
    simp only [fdiv_pos _ _ (by decide : (0:Int) < 86400000000000), fmod_pos _ _ (by decide : (0:Int) < 86400000000000)] at *
    simp only [Norm, InRange, val]; unfold_consts; omega
  · rw [pyTdiv_bind _ _ _ (by decide) (by unfold_consts; omega) (by unfold_consts; omega) (by decide) (by decide)] at h
    rw [ctor_ok] at h
    obtain ⟨hd, rfl⟩ := h
    simp (disch := decide) only [tdiv_pos] at *
    simp only [Norm, InRange, val]; unfold_consts
    split at hd <;> omega

theorem fromNanoseconds_raises_iff (n : Int) :
    (∃ e, fromNanoseconds n = .error e) ↔ ¬ NsInRange n := by
  unfold fromNanoseconds NsInRange
  constructor
  · rintro ⟨e, h⟩
    rw [checkRange_bind_err] at h
    rcases h with ⟨hr, _⟩ | ⟨hr, h⟩
    · omega
    · exfalso
      unfold_consts
      split at h
      · rw [ctor_err] at h
        simp only [fdiv_pos _ _ (by decide : (0:Int) < 86400000000000)] at h
        unfold_consts; omega
      · rw [pyTdiv_bind _ _ _ (by decide) (by unfold_consts; omega) (by unfold_consts; omega) (by decide) (by decide)] at h
        rw [ctor_err] at h
        simp (disch := decide) only [tdiv_pos] at h
        unfold_consts
        obtain ⟨h, _⟩ := h
        split at h <;> omega
  · intro hn
    refine ⟨.valueError, ?_⟩
    rw [checkRange_bind_err]; left; exact ⟨by omega, rfl⟩

/-- `Duration.from_ticks(t)` (int): exact, normalised, in range. -/
theorem fromTicks_exact (t : Int) (d : Duration) (h : fromTicks t = .ok d) :
    Norm d ∧ InRange d ∧ val d = t * NPT := by
  unfold fromTicks at h
  rw [checkRange_bind] at h
  obtain ⟨hr, h⟩ := h
  unfold ticksToDaysAndTickOfDay at h
  unfold_consts
  split at h
  · simp only [bind, Except.bind, Except.ok.injEq] at h
    subst h
    simp only [shr14, fdiv_pos _ _ (by decide : (0:Int) < 52734375)]
    simp only [Norm, InRange, val]; unfold_consts; omega
  · rw [pyTdiv_ok _ _ (by decide) (by unfold_consts; omega) (by unfold_consts; omega) (by decide) (by decide)] at h
    simp only [bind, Except.bind, Except.ok.injEq] at h
    subst h
    simp (disch := decide) only [tdiv_pos]
    simp only [Norm, InRange, val]; unfold_consts
    split <;> omega

theorem fromTicks_raises_iff (t : Int) :
    (∃ e, fromTicks t = .error e) ↔ ¬ NsInRange (t * NPT) := by
  unfold fromTicks NsInRange
  constructor
  · rintro ⟨e, h⟩
    rw [checkRange_bind_err] at h
    rcases h with ⟨hr, _⟩ | ⟨hr, h⟩
    · unfold_consts; omega
    · exfalso
      unfold ticksToDaysAndTickOfDay at h
      unfold_consts
      split at h
      · simp [bind, Except.bind] at h
      · rw [pyTdiv_ok _ _ (by decide) (by unfold_consts; omega) (by unfold_consts; omega) (by decide) (by decide)] at h
        simp [bind, Except.bind] at h
  · intro hn
    refine ⟨.valueError, ?_⟩
    rw [checkRange_bind_err]; left; refine ⟨?_, rfl⟩; unfold_consts; omega

/-! ### arithmetic -/

theorem add_exact (a b d : Duration) (ha : Norm a) (hb : Norm b) (h : add a b = .ok d) :
    Norm d ∧ InRange d ∧ val d = val a + val b := by
  unfold add at h
  simp only [Norm, InRange, val] at *
  split at h <;> (rw [ctor_ok] at h; obtain ⟨hd, rfl⟩ := h; unfold_consts; (try simp only []); omega)

theorem add_raises_iff (a b : Duration) (ha : Norm a) (hb : Norm b) :
    (∃ e, add a b = .error e) ↔ ¬ NsInRange (val a + val b) := by
  unfold add NsInRange
  simp only [Norm, val] at *
  split <;>
  · simp only [ctor_err]
    unfold_consts
    constructor
    · rintro ⟨e, h, _⟩; omega
    · intro h; exact ⟨.valueError, by omega, rfl⟩

theorem sub_exact (a b d : Duration) (ha : Norm a) (hb : Norm b) (h : sub a b = .ok d) :
    Norm d ∧ InRange d ∧ val d = val a - val b := by
  unfold sub at h
  simp only [Norm, InRange, val] at *
  split at h <;> (rw [ctor_ok] at h; obtain ⟨hd, rfl⟩ := h; unfold_consts; (try simp only []); omega)

theorem sub_raises_iff (a b : Duration) (ha : Norm a) (hb : Norm b) :
    (∃ e, sub a b = .error e) ↔ ¬ NsInRange (val a - val b) := by
  unfold sub NsInRange
  simp only [Norm, val] at *
  split <;>
  · simp only [ctor_err]
    unfold_consts
    constructor
    · rintro ⟨e, h, _⟩; omega
    · intro h; exact ⟨.valueError, by omega, rfl⟩

theorem neg_exact (a : Duration) (ha : Norm a) :
    (∀ d, neg a = .ok d → Norm d ∧ InRange d ∧ val d = - val a) ∧
    ((∃ e, neg a = .error e) ↔ ¬ NsInRange (- val a)) := by
  unfold neg NsInRange
  simp only [Norm, InRange, val] at *
  constructor
  · intro d h
    split at h <;> (rw [ctor_ok] at h; obtain ⟨hd, rfl⟩ := h; unfold_consts; (try simp only []); omega)
  · split <;>
    · simp only [ctor_err]
      unfold_consts
      constructor
      · rintro ⟨e, h, _⟩; omega
      · intro h; exact ⟨.valueError, by omega, rfl⟩

/-- `Duration * int`: exact product or an error, never a wrapped value. -/
theorem mulInt_exact (a : Duration) (k : Int) :
    (∀ d, mulInt a k = .ok d → Norm d ∧ InRange d ∧ val d = val a * k) ∧
    ((∃ e, mulInt a k = .error e) ↔ ¬ NsInRange (val a * k)) := by
  unfold mulInt
  exact ⟨fun d h => fromNanoseconds_exact _ d h, fromNanoseconds_raises_iff _⟩

/-- `Duration / int` truncates toward zero (divisor inside the Decimal-exact domain). -/
theorem divInt_exact (a : Duration) (k : Int) (d : Duration) (ha : Norm a) (hr : InRange a)
    (hk : k ≠ 0) (hk1 : -decBound < k) (hk2 : k < decBound) (h : divInt a k = .ok d) :
    Norm d ∧ InRange d ∧ val d = Int.tdiv (val a) k := by
  unfold divInt at h
  have h1 : -decBound < a.toNanos ∧ a.toNanos < decBound := by
    simp only [Norm, InRange, toNanos] at *; unfold_consts; omega
  rw [pyTdiv_bind _ _ _ hk h1.1 h1.2 hk1 hk2] at h
  exact fromNanoseconds_exact _ d h

/-! ### comparison -/

theorem lt_iff_val (a b : Duration) (ha : Norm a) (hb : Norm b) : lt a b = true ↔ val a < val b := by
  simp only [lt, Norm, val, Bool.or_eq_true, Bool.and_eq_true, decide_eq_true_eq] at *
  unfold_consts; omega

theorem eq_iff_val (a b : Duration) (ha : Norm a) (hb : Norm b) : beq a b = true ↔ val a = val b := by
  simp only [beq, Norm, val, Bool.and_eq_true, decide_eq_true_eq] at *
  unfold_consts; omega

theorem eq_iff_struct (a b : Duration) : beq a b = true ↔ a = b := by
  cases a; cases b
  simp [beq]

theorem compareTo_sign (a b : Duration) (ha : Norm a) (hb : Norm b) :
    (compareTo a b < 0 ↔ val a < val b) ∧ (compareTo a b = 0 ↔ val a = val b) ∧
    (compareTo a b > 0 ↔ val a > val b) := by
  simp only [compareTo, Norm, val] at *
  unfold_consts
  split <;> omega

/-! ### accessors -/

theorem daysAcc_eq_tdiv (d : Duration) (h : Norm d) : daysAcc d = Int.tdiv (val d) NPD := by
  simp only [daysAcc, Norm, val] at *
  unfold_consts
  simp (disch := decide) only [tdiv_pos]
  split <;> split <;> omega

theorem nanosecondOfDay_eq_tmod (d : Duration) (h : Norm d) :
    nanosecondOfDay d = val d - Int.tdiv (val d) NPD * NPD := by
  simp only [nanosecondOfDay, Norm, val] at *
  unfold_consts
  simp (disch := decide) only [tdiv_pos]
  split <;> (try split) <;> (try split) <;> omega

theorem hours_exact (d : Duration) (h : Norm d) :
    hours d = .ok (Int.tdiv (val d - Int.tdiv (val d) NPD * NPD) NPH) := by
  unfold hours
  rw [← nanosecondOfDay_eq_tmod d h]
  apply pyTdiv_ok
  · decide
  · simp only [nanosecondOfDay, Norm] at *; unfold_consts; split <;> (try split) <;> omega
  · simp only [nanosecondOfDay, Norm] at *; unfold_consts; split <;> (try split) <;> omega
  · decide
  · decide

/-! ### Instant -/

def IValid (i : Instant) : Prop := Instant.MIN_DAYS ≤ i.dur.days ∧ i.dur.days ≤ Instant.MAX_DAYS
def InstNsInRange (n : Int) : Prop := Instant.MIN_DAYS * NPD ≤ n ∧ n < (Instant.MAX_DAYS + 1) * NPD

/-- Unix-time conversion floors toward the start of time. -/
theorem toUnixSeconds_floor (i : Instant) (hn : Norm i.dur) (hv : IValid i) :
    i.toUnixSeconds = .ok (val i.dur / NPS) ∧ i.toUnixMilliseconds = .ok (val i.dur / NPMs) ∧
    i.toUnixTicks = .ok (val i.dur / NPT) := by
  simp only [Instant.toUnixSeconds, Instant.toUnixMilliseconds, Instant.toUnixTicks, Norm, IValid, val] at *
  unfold_consts
  refine ⟨?_, ?_, ?_⟩ <;>
  · rw [pyTdiv_bind _ _ _ (by decide) (by unfold_consts; omega) (by unfold_consts; omega) (by decide) (by decide)]
    simp (disch := decide) only [tdiv_pos]
    simp only [Except.ok.injEq]
    split <;> omega

theorem fromUnixSeconds_toUnixSeconds (s : Int) (i : Instant) (h : Instant.fromUnixSeconds s = .ok i) :
    Norm i.dur ∧ IValid i ∧ val i.dur = s * NPS ∧ i.toUnixSeconds = .ok s := by
  unfold Instant.fromUnixSeconds at h
  rw [checkRange_bind] at h
  obtain ⟨hr, h⟩ := h
  cases hd : fromSeconds s with
  | error e => rw [hd] at h; cases h
  | ok d =>
    rw [hd] at h
    simp only [bind, Except.bind, Except.ok.injEq] at h
    subst h
    have := fromUnits_exact .seconds s d hd
    obtain ⟨h1, h2, h3⟩ := this
    simp only [TUnit.nanos] at h3
    have hv : IValid ⟨d⟩ := by
      simp only [IValid, Norm, val] at *; unfold_consts; omega
    refine ⟨h1, hv, h3, ?_⟩
    rw [(toUnixSeconds_floor ⟨d⟩ h1 hv).1]
    simp only [Except.ok.injEq]
    rw [h3]; unfold_consts; omega

theorem instant_plus_exact (i : Instant) (d : Duration) (r : Instant) (hi : Norm i.dur) (hd : Norm d)
    (h : i.plus d = .ok r) : Norm r.dur ∧ IValid r ∧ val r.dur = val i.dur + val d := by
  unfold Instant.plus at h
  cases hs : add i.dur d with
  | error e => rw [hs] at h; cases h
  | ok s =>
    rw [hs] at h
    simp only [bind, Except.bind, Instant.fromUntrusted] at h
    obtain ⟨h1, _, h3⟩ := add_exact _ _ _ hi hd hs
    split at h
    · cases h
    · simp only [Except.ok.injEq] at h; subst h
      refine ⟨h1, ?_, h3⟩
      simp only [IValid]; omega

theorem instant_plus_raises_iff (i : Instant) (d : Duration) (hi : Norm i.dur) (hd : Norm d) :
    (∃ e, i.plus d = .error e) ↔ ¬ InstNsInRange (val i.dur + val d) := by
  unfold Instant.plus
  cases hs : add i.dur d with
  | error e =>
    simp only [bind, Except.bind]
    have := (add_raises_iff _ _ hi hd).mp ⟨e, hs⟩
    constructor
    · intro _
      simp only [NsInRange, InstNsInRange] at *; unfold_consts; omega
    · intro _; exact ⟨e, rfl⟩
  | ok s =>
    obtain ⟨h1, _, h3⟩ := add_exact _ _ _ hi hd hs
    simp only [bind, Except.bind, Instant.fromUntrusted, InstNsInRange]
    rw [← h3]
    simp only [Norm, val] at *
    unfold_consts
    by_cases hc : s.days < -4371222 ∨ s.days > 2932896
    · simp only [hc, if_true]
      constructor
      · intro _; omega
      · intro _; exact ⟨_, rfl⟩
    · simp only [hc, if_false]
      constructor
      · rintro ⟨e, h⟩; cases h
      · intro h; omega

theorem instant_minus_exact (a b : Instant) (d : Duration) (ha : Norm a.dur) (hb : Norm b.dur)
    (h : a.minus b = .ok d) : Norm d ∧ val d = val a.dur - val b.dur := by
  have := sub_exact _ _ _ ha hb h
  exact ⟨this.1, this.2.2⟩

/-- `_safe_plus`: inside the range the exact (normalised) local value, beyond it the before-min / after-max
    sentinel; it never raises for a valid instant and a valid offset. -/
theorem safePlus_spec (i : Instant) (o : Offset) (hn : Norm i.dur) (hv : IValid i)
    (ho : Offset.MIN_S ≤ o.seconds ∧ o.seconds ≤ Offset.MAX_S) :
    (InstNsInRange (val i.dur + o.seconds * NPS) →
      i.safePlus o = .ok ⟨⟨(val i.dur + o.seconds * NPS) / NPD, (val i.dur + o.seconds * NPS) % NPD⟩⟩) ∧
    (val i.dur + o.seconds * NPS < Instant.MIN_DAYS * NPD → i.safePlus o = .ok LocalInstant.beforeMin) ∧
    (val i.dur + o.seconds * NPS ≥ (Instant.MAX_DAYS + 1) * NPD → i.safePlus o = .ok LocalInstant.afterMax) := by
  simp only [Instant.safePlus, Instant.plusOffset, Duration.plusSmallNanos, Offset.nanoseconds,
    LocalInstant.ofDuration, ctor, checkRange, bind, Except.bind, Norm, IValid, val, InstNsInRange,
    Offset.MIN_S, Offset.MAX_S, LocalInstant.beforeMin, LocalInstant.afterMax] at *
  unfold_consts
  refine ⟨?_, ?_, ?_⟩ <;> grind

/-! ### Offset -/

theorem offset_add_exact (a b : Offset) :
    (∀ r, Offset.add a b = .ok r → r.seconds = a.seconds + b.seconds ∧ Offset.MIN_S ≤ r.seconds ∧ r.seconds ≤ Offset.MAX_S) ∧
    ((∃ e, Offset.add a b = .error e) ↔ ¬ (Offset.MIN_S ≤ a.seconds + b.seconds ∧ a.seconds + b.seconds ≤ Offset.MAX_S)) := by
  simp only [Offset.add, Offset.fromSeconds, Offset.ctor, Offset.MIN_S, Offset.MAX_S]
  constructor
  · intro r h
    rw [checkRange_bind] at h
    obtain ⟨hr, h⟩ := h
    rw [checkRange_bind] at h
    obtain ⟨_, h⟩ := h
    simp only [Except.ok.injEq] at h; subst h; exact ⟨rfl, hr.1, hr.2⟩
  · constructor
    · rintro ⟨e, h⟩
      rw [checkRange_bind_err] at h
      rcases h with ⟨h, _⟩ | ⟨hr, h⟩
      · omega
      · rw [checkRange_bind_err] at h
        rcases h with ⟨h, _⟩ | ⟨_, h⟩
        · omega
        · cases h
    · intro h
      refine ⟨.valueError, ?_⟩
      rw [checkRange_bind_err]; left; exact ⟨by omega, rfl⟩

/-- Offsets built from finer units truncate toward zero to whole seconds, within ±18 h, else `ValueError`. -/
theorem offset_fromUnit_trunc (n : Int) :
    (∀ r, Offset.fromMilliseconds n = .ok r → r.seconds = Int.tdiv n 1000 ∧ -64800000 ≤ n ∧ n ≤ 64800000) ∧
    (∀ r, Offset.fromTicks n = .ok r → r.seconds = Int.tdiv n TPS) ∧
    (∀ r, Offset.fromNanoseconds n = .ok r → r.seconds = Int.tdiv n NPS) ∧
    ((∃ e, Offset.fromMilliseconds n = .error e) ↔ (n < -64800000 ∨ n > 64800000)) := by
  simp only [Offset.fromMilliseconds, Offset.fromTicks, Offset.fromNanoseconds, Offset.ctor]
  unfold_consts
  refine ⟨?_, ?_, ?_, ?_⟩
  · intro r h
    rw [checkRange_bind] at h
    obtain ⟨hr, h⟩ := h
    rw [pyTdiv_bind _ _ _ (by decide) (by unfold_consts; omega) (by unfold_consts; omega) (by decide) (by decide)] at h
    rw [checkRange_bind] at h
    obtain ⟨_, h⟩ := h
    simp only [Except.ok.injEq] at h; subst h
    exact ⟨rfl, by omega, by omega⟩
  · intro r h
    rw [checkRange_bind] at h
    obtain ⟨hr, h⟩ := h
    rw [pyTdiv_bind _ _ _ (by decide) (by unfold_consts; omega) (by unfold_consts; omega) (by decide) (by decide)] at h
    rw [checkRange_bind] at h
    obtain ⟨_, h⟩ := h
    simp only [Except.ok.injEq] at h; subst h; rfl
  · intro r h
    rw [checkRange_bind] at h
    obtain ⟨hr, h⟩ := h
    rw [pyTdiv_bind _ _ _ (by decide) (by unfold_consts; omega) (by unfold_consts; omega) (by decide) (by decide)] at h
    rw [checkRange_bind] at h
    obtain ⟨_, h⟩ := h
    simp only [Except.ok.injEq] at h; subst h; rfl
  · constructor
    · rintro ⟨e, h⟩
      rw [checkRange_bind_err] at h
      rcases h with ⟨h, _⟩ | ⟨hr, h⟩
      · omega
      · exfalso
        rw [pyTdiv_bind _ _ _ (by decide) (by unfold_consts; omega) (by unfold_consts; omega) (by decide) (by decide)] at h
        rw [checkRange_bind_err] at h
        simp only [Offset.MIN_S, Offset.MAX_S] at h
        simp (disch := decide) only [tdiv_pos] at h
        rcases h with ⟨h, _⟩ | ⟨_, h⟩
        · split at h <;> omega
        · cases h
    · intro h
      refine ⟨.valueError, ?_⟩
      rw [checkRange_bind_err]; left; exact ⟨by omega, rfl⟩

/-! ### non-vacuity: concrete values meeting the hypotheses -/
example : fromUnit .seconds (-1) = .ok ⟨-1, 86399000000000⟩ := by decide
example : Norm ⟨-1, 86399000000000⟩ ∧ InRange ⟨-1, 86399000000000⟩ := by
  simp only [Norm, InRange]; unfold_consts; omega
example : fromTicks 231928234847999999999 = .ok ⟨268435456, 86399999999900⟩ := by decide
example : add ⟨1, 86399999999999⟩ ⟨0, 1⟩ = .ok ⟨2, 0⟩ := by decide
example : (∃ e, add ⟨MAX_DAYS, NPD - 1⟩ ⟨0, 1⟩ = .error e) := ⟨.valueError, by decide⟩
example : (Instant.mk ⟨-1, 1⟩).toUnixSeconds = .ok (-86400) := by decide

end Pyoda.C03
