/-
  C09 — Hebrew `_months_between`: the two search loops terminate within their fuel and return the largest count (in the
  direction of travel) whose addition does not pass the end; hence the months unit satisfies `FieldLaw` and the Hebrew
  calendars have `DateLaws`.  (With the repaired probe: a sum that leaves the calendar counts as lying beyond the end.)
-/
import PyodaModel.DateArith
import PyodaProofs.C09Hebrew

namespace Pyoda.C09
open Pyoda Pyoda.Calendar Pyoda.DateArith Pyoda.C01

/-! ## month positions order dates -/

theorem hebBefore_mono (y z : Int) (h : y ≤ z) : hebBefore y ≤ hebBefore z := by
  unfold hebBefore
  have : 7 * y ≤ 7 * z := by omega
  generalize 7 * y = a at *
  generalize 7 * z = b at *
  omega

theorem hebBefore_step (y z : Int) (h : y < z) : hebBefore (y + 1) ≤ hebBefore z := hebBefore_mono _ _ (by omega)

theorem hebPos_range (scr : Bool) (a : Ymd) (ha : Valid (Heb.cal scr) a) :
    hebBefore a.1 ≤ hebPos scr a ∧ hebPos scr a < hebBefore (a.1 + 1) ∧ 0 ≤ hebPos scr a ∧ hebPos scr a < 123700 := by
  obtain ⟨y1, y2, m1, m2, _⟩ := heb_valid_inv scr a ha
  have hc := heb_civil_range scr a.1 a.2.1 ⟨m1, m2⟩
  have hr := heb_recur a.1
  have h1 := hebBefore_mono 1 a.1 y1
  have h2 := hebBefore_mono (a.1 + 1) 10000 (by omega)
  have e1 : hebBefore 1 = 0 := by decide
  have e2 : hebBefore 10000 = 123671 := by decide
  unfold hebPos
  omega

theorem hebPos_lt (scr : Bool) (hw : WF (Heb.cal scr)) (a b : Ymd) (ha : Valid (Heb.cal scr) a) (hb : Valid (Heb.cal scr) b)
    (hlt : hebPos scr a < hebPos scr b) : dayNo (Heb.cal scr) a < dayNo (Heb.cal scr) b := by
  have ra := hebPos_range scr a ha
  have rb := hebPos_range scr b hb
  by_cases hy : a.1 < b.1
  · exact dayNo_lt_of_year_lt hw a b ha hb hy
  · by_cases hy2 : b.1 < a.1
    · have := hebBefore_step b.1 a.1 hy2; omega
    · have hyy : a.1 = b.1 := by omega
      obtain ⟨y1, y2, m1, m2, d1, d2⟩ := validate_inv ha
      obtain ⟨z1, z2, n1, n2, e1, e2⟩ := validate_inv hb
      rw [← hyy] at n2 e2
      have hk : ∀ m, (Heb.cal scr).monthKey a.1 m = Hebrew.toCivil scr a.1 m := by intro m; cases scr <;> rfl
      have := hw.month_order a.1 a.2.1 b.2.1 y1 y2 m1 m2 n1 n2 (by
        rw [hk, hk]; unfold hebPos at hlt; rw [← hyy] at hlt; omega)
      unfold dayNo
      rw [← hyy]
      omega

theorem hebPos_le_of_dayNo_le (scr : Bool) (hw : WF (Heb.cal scr)) (a b : Ymd) (ha : Valid (Heb.cal scr) a)
    (hb : Valid (Heb.cal scr) b) (hle : dayNo (Heb.cal scr) a ≤ dayNo (Heb.cal scr) b) : hebPos scr a ≤ hebPos scr b := by
  by_cases hlt : hebPos scr b < hebPos scr a
  · have := hebPos_lt scr hw b a hb ha hlt; omega
  · omega

/-! ## the probe `compare(start + diff months, end)` -/

/-- what the search loops see at offset `x`: negative strictly before the end's month position, positive strictly after
    it, and at the end's own month the comparison of a valid date `start + T months` with the end -/
theorem heb_probe_spec (scr : Bool) (hw : WF (Heb.cal scr)) (s e : Ymd) (hs : Valid (Heb.cal scr) s) (he : Valid (Heb.cal scr) e)
    (x : Int) (hx : -1000000 < x ∧ x < 1000000) :
    (x < hebPos scr e - hebPos scr s → ∃ v, Hebrew.probe scr (Heb.cal scr) s e x = .ok v ∧ v < 0) ∧
    (x > hebPos scr e - hebPos scr s → ∃ v, Hebrew.probe scr (Heb.cal scr) s e x = .ok v ∧ v > 0) ∧
    (x = hebPos scr e - hebPos scr s → ∃ r, Hebrew.addMonths scr (Heb.cal scr) s x = .ok r ∧ Valid (Heb.cal scr) r ∧
      hebPos scr r = hebPos scr e ∧ Hebrew.probe scr (Heb.cal scr) s e x = .ok (cmpYmd (Heb.cal scr) r e) ∧
      (x = 0 → r = s) ∧ (x ≠ 0 → hebPos scr r = hebPos scr s + x)) := by
  have rs := hebPos_range scr s hs
  have re := hebPos_range scr e he
  unfold Hebrew.probe
  by_cases h0 : x = 0
  · subst h0
    have hz : Hebrew.addMonths scr (Heb.cal scr) s 0 = .ok s := by unfold Hebrew.addMonths; rw [if_pos rfl]
    rw [hz]
    dsimp only
    have cs := cmp_sign hw s e hs he
    refine ⟨fun hlt => ⟨_, rfl, ?_⟩, fun hgt => ⟨_, rfl, ?_⟩, fun heq => ⟨s, rfl, hs, by omega, rfl, fun _ => rfl, fun hc => absurd rfl hc⟩⟩
    · have := hebPos_lt scr hw s e hs he (by omega); exact cs.1.2 this
    · have := hebPos_lt scr hw e s he hs (by omega); exact cs.2.2.2 this
  · obtain ⟨Y, a1, a2, a3, a4⟩ := heb_addMonths_spec scr hw s hs x h0 (by unfold decBound; omega)
    by_cases hY : 1 ≤ Y ∧ Y ≤ 9999
    · obtain ⟨r, q1, q2, q3, q4, q5, q6⟩ := a3 hY
      rw [q1]
      dsimp only
      have cr := cmp_sign hw r e q2 he
      refine ⟨fun hlt => ⟨_, rfl, ?_⟩, fun hgt => ⟨_, rfl, ?_⟩, fun heq => ⟨r, rfl, q2, by omega, rfl, fun hc => absurd hc h0, fun _ => q4⟩⟩
      · have := hebPos_lt scr hw r e q2 he (by omega); exact cr.1.2 this
      · have := hebPos_lt scr hw e r he q2 (by omega); exact cr.2.2.2 this
    · rw [a4 hY]
      dsimp only
      -- outside the calendar: upwards iff x > 0, and then beyond every valid date
      obtain ⟨sy1, sy2, _⟩ := heb_valid_inv scr s hs
      obtain ⟨ey1, ey2, _⟩ := heb_valid_inv scr e he
      have e1 : hebBefore 1 = 0 := by decide
      have e2 : hebBefore 10000 = 123671 := by decide
      by_cases hpos : x > 0
      · rw [if_pos hpos]
        have hYhi : Y > 9999 := by
          by_cases hc : Y < 1
          · have := hebBefore_step Y 1 hc; omega
          · omega
        have := hebBefore_mono 10000 Y (by omega)
        have := hebBefore_mono (e.1 + 1) 10000 (by omega)
        refine ⟨fun hlt => by omega, fun _ => ⟨1, rfl, by omega⟩, fun heq => by omega⟩
      · rw [if_neg hpos]
        have hYlo : Y < 1 := by
          by_cases hc : Y > 9999
          · have := hebBefore_mono 10000 Y (by omega)
            have := hebBefore_mono (s.1 + 1) 10000 (by omega)
            omega
          · omega
        have := hebBefore_step Y 1 hYlo
        refine ⟨fun _ => ⟨-1, rfl, by omega⟩, fun hgt => by omega, fun heq => by omega⟩

/-! ## the search loops -/

/-- `while cond(probe diff): diff -= 1` with a threshold `R`: true above it, false at and below it -/
theorem seek_down_spec (scr : Bool) (c : Calc) (s e : Ymd) (cond : Int → Bool) (R : Int)
    (hT : ∀ x, R < x → x < 999000 → ∃ v, Hebrew.probe scr c s e x = .ok v ∧ cond v = true)
    (hF : ∀ x, x ≤ R → -999000 < x → ∃ v, Hebrew.probe scr c s e x = .ok v ∧ cond v = false) :
    ∀ (fuel : Nat) (d : Int), d - R < fuel → 0 < fuel → -998000 < d → d < 998000 → -998000 < R →
      Hebrew.seek scr c s e cond (-1) fuel d = .ok (min d R) := by
  intro fuel
  induction fuel with
  | zero => intro d _ h0; omega
  | succ f ih =>
    intro d h1 _ h3 h4 h5
    unfold Hebrew.seek
    by_cases hd : d ≤ R
    · obtain ⟨v, p1, p2⟩ := hF d hd (by omega)
      rw [p1]; dsimp only; rw [p2]
      simp only [Bool.false_eq_true, if_false]
      rw [Int.min_eq_left hd]
    · obtain ⟨v, p1, p2⟩ := hT d (by omega) (by omega)
      rw [p1]; dsimp only; rw [p2]
      simp only [if_true]
      rw [ih (d + -1) (by omega) (by omega) (by omega) (by omega) h5]
      congr 1
      rw [Int.min_eq_right (by omega), Int.min_eq_right (by omega)]

/-- `while cond(probe diff): diff += 1` with a threshold `R`: true at and below it, false above it -/
theorem seek_up_spec (scr : Bool) (c : Calc) (s e : Ymd) (cond : Int → Bool) (R : Int)
    (hT : ∀ x, x ≤ R → -999000 < x → ∃ v, Hebrew.probe scr c s e x = .ok v ∧ cond v = true)
    (hF : ∀ x, R < x → x < 999000 → ∃ v, Hebrew.probe scr c s e x = .ok v ∧ cond v = false) :
    ∀ (fuel : Nat) (d : Int), R + 1 - d < fuel → 0 < fuel → -998000 < d → d < 998000 → R < 997000 →
      Hebrew.seek scr c s e cond 1 fuel d = .ok (max d (R + 1)) := by
  intro fuel
  induction fuel with
  | zero => intro d _ h0; omega
  | succ f ih =>
    intro d h1 _ h3 h4 h5
    unfold Hebrew.seek
    by_cases hd : R < d
    · obtain ⟨v, p1, p2⟩ := hF d hd (by omega)
      rw [p1]; dsimp only; rw [p2]
      simp only [Bool.false_eq_true, if_false]
      rw [Int.max_eq_left (by omega)]
    · obtain ⟨v, p1, p2⟩ := hT d (by omega) (by omega)
      rw [p1]; dsimp only; rw [p2]
      simp only [if_true]
      rw [ih (d + 1) (by omega) (by omega) (by omega) (by omega) h5]
      congr 1
      rw [Int.max_eq_right (by omega), Int.max_eq_right (by omega)]

/-- the estimate is within two months of the true difference of month positions -/
theorem heb_estimate_close (scr : Bool) (s e : Ymd) :
    -2 ≤ Hebrew.estimate scr s e - (hebPos scr e - hebPos scr s) ∧ Hebrew.estimate scr s e - (hebPos scr e - hebPos scr s) ≤ 2 := by
  unfold Hebrew.estimate hebPos hebBefore
  simp (disch := decide) only [tdiv_pos]
  generalize Hebrew.toCivil scr e.1 e.2.1 = ce
  generalize Hebrew.toCivil scr s.1 s.2.1 = cs
  have h1 : e.1 * 235 = 228 * e.1 + 7 * e.1 := by omega
  have h2 : s.1 * 235 = 228 * s.1 + 7 * s.1 := by omega
  rw [h1, h2]
  generalize 7 * e.1 = a
  generalize 7 * s.1 = b
  split <;> omega

/-- month addition whose target position lies between the positions of two valid dates succeeds -/
theorem heb_add_between (scr : Bool) (hw : WF (Heb.cal scr)) (s a b : Ymd) (hs : Valid (Heb.cal scr) s)
    (ha : Valid (Heb.cal scr) a) (hb : Valid (Heb.cal scr) b) (x : Int) (h1 : hebPos scr a ≤ hebPos scr s + x)
    (h2 : hebPos scr s + x ≤ hebPos scr b) :
    ∃ r, Hebrew.addMonths scr (Heb.cal scr) s x = .ok r ∧ Valid (Heb.cal scr) r ∧ hebPos scr r = hebPos scr s + x ∧
      (x = 0 → r = s) := by
  have rs := hebPos_range scr s hs
  have ra := hebPos_range scr a ha
  have rb := hebPos_range scr b hb
  by_cases h0 : x = 0
  · subst h0
    exact ⟨s, by unfold Hebrew.addMonths; rw [if_pos rfl], hs, by omega, fun _ => rfl⟩
  · obtain ⟨Y, a1, a2, a3, _⟩ := heb_addMonths_spec scr hw s hs x h0 (by unfold decBound; omega)
    obtain ⟨ay1, ay2, _⟩ := heb_valid_inv scr a ha
    obtain ⟨by1, by2, _⟩ := heb_valid_inv scr b hb
    have hY : 1 ≤ Y ∧ Y ≤ 9999 := by
      constructor
      · by_cases hc : Y < 1
        · have := hebBefore_step Y a.1 (by omega); omega
        · omega
      · by_cases hc : Y > 9999
        · have := hebBefore_step b.1 Y (by omega); omega
        · omega
    obtain ⟨r, q1, q2, _, q4, _⟩ := a3 hY
    exact ⟨r, q1, q2, q4, fun hc => absurd hc h0⟩

/-- the value `_months_between` returns, with `T` the difference of month positions and `rT = start + T months` (a valid
    date in the end's month): `T` itself when `rT` is not beyond the end in the direction of travel, else one less in
    magnitude.  Both search loops finish within their fuel. -/
theorem heb_monthsBetween_value (scr : Bool) (hw : WF (Heb.cal scr)) (s e : Ymd) (hs : Valid (Heb.cal scr) s)
    (he : Valid (Heb.cal scr) e) :
    ∃ rT, Hebrew.addMonths scr (Heb.cal scr) s (hebPos scr e - hebPos scr s) = .ok rT ∧ Valid (Heb.cal scr) rT ∧
      hebPos scr rT = hebPos scr e ∧ (hebPos scr e - hebPos scr s = 0 → rT = s) ∧
      Hebrew.monthsBetween scr (Heb.cal scr) s e = .ok
        (if cmpYmd (Heb.cal scr) s e ≤ 0 then
          (if cmpYmd (Heb.cal scr) rT e ≤ 0 then hebPos scr e - hebPos scr s else hebPos scr e - hebPos scr s - 1)
         else (if cmpYmd (Heb.cal scr) rT e ≥ 0 then hebPos scr e - hebPos scr s else hebPos scr e - hebPos scr s + 1)) ∧
      (∀ x, hebPos scr e - hebPos scr s < x → x < 900000 → ∃ v, Hebrew.probe scr (Heb.cal scr) s e x = .ok v ∧ v > 0) ∧
      (∀ x, x < hebPos scr e - hebPos scr s → -900000 < x → ∃ v, Hebrew.probe scr (Heb.cal scr) s e x = .ok v ∧ v < 0) := by
  have rs := hebPos_range scr s hs
  have re := hebPos_range scr e he
  have hest := heb_estimate_close scr s e
  have cs := cmp_sign hw s e hs he
  have hprobe := fun x hx => heb_probe_spec scr hw s e hs he x hx
  obtain ⟨rT, t1, t2, t3, t4, t5, t6⟩ := (hprobe (hebPos scr e - hebPos scr s) (by omega)).2.2 rfl
  refine ⟨rT, t1, t2, t3, t5, ?_, fun x h1 h2 => (hprobe x (by omega)).2.1 h1, fun x h1 h2 => (hprobe x (by omega)).1 h1⟩
  unfold Hebrew.monthsBetween
  dsimp only
  generalize hT : hebPos scr e - hebPos scr s = T at *
  generalize Hebrew.estimate scr s e = est at *
  by_cases hdir : cmpYmd (Heb.cal scr) s e ≤ 0
  · rw [if_pos hdir, if_pos hdir]
    obtain ⟨R, hR⟩ : ∃ R, R = if cmpYmd (Heb.cal scr) rT e ≤ 0 then T else T - 1 := ⟨_, rfl⟩
    have hRb : T - 1 ≤ R ∧ R ≤ T := by rw [hR]; split <;> omega
    have hAbove : ∀ x, R < x → x < 999000 → ∃ v, Hebrew.probe scr (Heb.cal scr) s e x = .ok v ∧ v > 0 := by
      intro x hx hx2
      by_cases hxT : x = T
      · subst hxT
        refine ⟨_, t4, ?_⟩
        by_cases hc : cmpYmd (Heb.cal scr) rT e ≤ 0
        · rw [hR, if_pos hc] at hx; omega
        · omega
      · exact (hprobe x (by omega)).2.1 (by omega)
    have hBelow : ∀ x, x ≤ R → -999000 < x → ∃ v, Hebrew.probe scr (Heb.cal scr) s e x = .ok v ∧ v ≤ 0 := by
      intro x hx hx2
      by_cases hxT : x = T
      · subst hxT
        refine ⟨_, t4, ?_⟩
        by_cases hc : cmpYmd (Heb.cal scr) rT e ≤ 0
        · exact hc
        · rw [hR, if_neg hc] at hx; omega
      · obtain ⟨v, v1, v2⟩ := (hprobe x (by omega)).1 (by omega)
        exact ⟨v, v1, by omega⟩
    have l1 := seek_down_spec scr (Heb.cal scr) s e (fun v => decide (v > 0)) R
      (fun x h1 h2 => by obtain ⟨v, v1, v2⟩ := hAbove x h1 h2; exact ⟨v, v1, by simp; omega⟩)
      (fun x h1 h2 => by obtain ⟨v, v1, v2⟩ := hBelow x h1 h2; exact ⟨v, v1, by simp; omega⟩)
      Hebrew.seekFuel est (by show est - R < ((16 : Nat) : Int); omega) (by decide) (by omega) (by omega) (by omega)
    rw [l1]
    dsimp only
    have l2 := seek_up_spec scr (Heb.cal scr) s e (fun v => decide (v ≤ 0)) R
      (fun x h1 h2 => by obtain ⟨v, v1, v2⟩ := hBelow x h1 h2; exact ⟨v, v1, by simp; omega⟩)
      (fun x h1 h2 => by obtain ⟨v, v1, v2⟩ := hAbove x h1 h2; exact ⟨v, v1, by simp; omega⟩)
      Hebrew.seekFuel (min est R) (by show R + 1 - min est R < ((16 : Nat) : Int); omega) (by decide) (by omega) (by omega)
      (by omega)
    rw [l2]
    dsimp only
    have emax : max (min est R) (R + 1) - 1 = R := by omega
    rw [emax, hR]
  · rw [if_neg hdir, if_neg hdir]
    obtain ⟨R, hR⟩ : ∃ R, R = if cmpYmd (Heb.cal scr) rT e ≥ 0 then T else T + 1 := ⟨_, rfl⟩
    have hRb : T ≤ R ∧ R ≤ T + 1 := by rw [hR]; split <;> omega
    have hBelow : ∀ x, x ≤ R - 1 → -999000 < x → ∃ v, Hebrew.probe scr (Heb.cal scr) s e x = .ok v ∧ v < 0 := by
      intro x hx hx2
      by_cases hxT : x = T
      · subst hxT
        refine ⟨_, t4, ?_⟩
        by_cases hc : cmpYmd (Heb.cal scr) rT e ≥ 0
        · rw [hR, if_pos hc] at hx; omega
        · omega
      · exact (hprobe x (by omega)).1 (by omega)
    have hAbove : ∀ x, R - 1 < x → x < 999000 → ∃ v, Hebrew.probe scr (Heb.cal scr) s e x = .ok v ∧ v ≥ 0 := by
      intro x hx hx2
      by_cases hxT : x = T
      · subst hxT
        refine ⟨_, t4, ?_⟩
        by_cases hc : cmpYmd (Heb.cal scr) rT e ≥ 0
        · exact hc
        · rw [hR, if_neg hc] at hx; omega
      · obtain ⟨v, v1, v2⟩ := (hprobe x (by omega)).2.1 (by omega)
        exact ⟨v, v1, by omega⟩
    have l1 := seek_up_spec scr (Heb.cal scr) s e (fun v => decide (v < 0)) (R - 1)
      (fun x h1 h2 => by obtain ⟨v, v1, v2⟩ := hBelow x h1 h2; exact ⟨v, v1, by simp; omega⟩)
      (fun x h1 h2 => by obtain ⟨v, v1, v2⟩ := hAbove x h1 h2; exact ⟨v, v1, by simp; omega⟩)
      Hebrew.seekFuel est (by show R - 1 + 1 - est < ((16 : Nat) : Int); omega) (by decide) (by omega) (by omega) (by omega)
    rw [l1]
    dsimp only
    have l2 := seek_down_spec scr (Heb.cal scr) s e (fun v => decide (v ≥ 0)) (R - 1)
      (fun x h1 h2 => by obtain ⟨v, v1, v2⟩ := hAbove x h1 h2; exact ⟨v, v1, by simp; omega⟩)
      (fun x h1 h2 => by obtain ⟨v, v1, v2⟩ := hBelow x h1 h2; exact ⟨v, v1, by simp; omega⟩)
      Hebrew.seekFuel (max est (R - 1 + 1)) (by show max est (R - 1 + 1) - (R - 1) < ((16 : Nat) : Int); omega) (by decide)
      (by omega) (by omega) (by omega)
    rw [l2]
    dsimp only
    have emin : min (max est (R - 1 + 1)) (R - 1) + 1 = R := by omega
    rw [emin, hR]

/-- the Hebrew months unit satisfies `FieldLaw`, and its count is maximal: one more month (in the direction of travel)
    lands strictly beyond the end whenever that addition succeeds -/
theorem heb_months_law_max (scr : Bool) (hw : WF (Heb.cal scr)) (s e : Ymd) (hs : Valid (Heb.cal scr) s)
    (he : Valid (Heb.cal scr) e) :
    ∃ n r, Hebrew.monthsBetween scr (Heb.cal scr) s e = .ok n ∧ Hebrew.addMonths scr (Heb.cal scr) s n = .ok r ∧
      Valid (Heb.cal scr) r ∧
      (dayNo (Heb.cal scr) s ≤ dayNo (Heb.cal scr) e → 0 ≤ n ∧ dayNo (Heb.cal scr) s ≤ dayNo (Heb.cal scr) r ∧
        dayNo (Heb.cal scr) r ≤ dayNo (Heb.cal scr) e ∧
        ∀ r', Hebrew.addMonths scr (Heb.cal scr) s (n + 1) = .ok r' → dayNo (Heb.cal scr) e < dayNo (Heb.cal scr) r') ∧
      (dayNo (Heb.cal scr) e ≤ dayNo (Heb.cal scr) s → n ≤ 0 ∧ dayNo (Heb.cal scr) e ≤ dayNo (Heb.cal scr) r ∧
        dayNo (Heb.cal scr) r ≤ dayNo (Heb.cal scr) s ∧
        (dayNo (Heb.cal scr) e < dayNo (Heb.cal scr) s →
          ∀ r', Hebrew.addMonths scr (Heb.cal scr) s (n - 1) = .ok r' → dayNo (Heb.cal scr) r' < dayNo (Heb.cal scr) e)) := by
  have rs := hebPos_range scr s hs
  have re := hebPos_range scr e he
  have cs := cmp_sign hw s e hs he
  obtain ⟨rT, t1, t2, t3, t5, hval, hAb, hBe⟩ := heb_monthsBetween_value scr hw s e hs he
  have cT := cmp_sign hw rT e t2 he
  generalize hT : hebPos scr e - hebPos scr s = T at *
  -- a probe that is an actual addition
  have hprobe_add : ∀ x r', Hebrew.addMonths scr (Heb.cal scr) s x = .ok r' →
      Hebrew.probe scr (Heb.cal scr) s e x = .ok (cmpYmd (Heb.cal scr) r' e) := by
    intro x r' hx; unfold Hebrew.probe; rw [hx]
  by_cases hdir : cmpYmd (Heb.cal scr) s e ≤ 0
  · rw [if_pos hdir] at hval
    have hle : dayNo (Heb.cal scr) s ≤ dayNo (Heb.cal scr) e := by have := cs.2.2; omega
    have hT0 : 0 ≤ T := by have := hebPos_le_of_dayNo_le scr hw s e hs he hle; omega
    obtain ⟨R, hR⟩ : ∃ R, R = if cmpYmd (Heb.cal scr) rT e ≤ 0 then T else T - 1 := ⟨_, rfl⟩
    rw [← hR] at hval
    have hRb : T - 1 ≤ R ∧ R ≤ T := by rw [hR]; split <;> omega
    have hR0 : 0 ≤ R := by
      by_cases hz : T = 0
      · have : rT = s := t5 hz
        rw [this] at hR; rw [hR, if_pos hdir]; omega
      · omega
    obtain ⟨r, r1, r2, r3, r4⟩ := heb_add_between scr hw s s e hs hs he R (by omega) (by omega)
    refine ⟨R, r, hval, r1, r2, ?_, ?_⟩
    · intro _
      refine ⟨hR0, ?_, ?_, ?_⟩
      · by_cases hz : R = 0
        · rw [r4 hz]; omega
        · have := hebPos_lt scr hw s r hs r2 (by omega); omega
      · by_cases hc : cmpYmd (Heb.cal scr) rT e ≤ 0
        · rw [hR, if_pos hc] at r1
          rw [t1] at r1; cases r1
          have := cT.2.2; omega
        · have hRT : R = T - 1 := by rw [hR, if_neg hc]
          have := hebPos_lt scr hw r e r2 he (by omega); omega
      · intro r' hr'
        have vr := heb_addMonths_valid scr hw s hs (R + 1) r' hr'
        have cr := cmp_sign hw r' e vr he
        have hp := hprobe_add (R + 1) r' hr'
        by_cases hc : cmpYmd (Heb.cal scr) rT e ≤ 0
        · have hRT : R = T := by rw [hR, if_pos hc]
          obtain ⟨v, v1, v2⟩ := hAb (R + 1) (by omega) (by omega)
          rw [hp] at v1; cases v1
          exact cr.2.2.1 v2
        · have hRT : R + 1 = T := by rw [hR, if_neg hc]; omega
          rw [hRT, t1] at hr'; cases hr'
          have := cT.2.2.1 (by omega); omega
    · intro hge
      have heq := valid_inj hw e s he hs (by omega)
      subst heq
      have hz : T = 0 := by omega
      have hrs : rT = e := t5 hz
      have hR0' : R = 0 := by rw [hR, hrs, if_pos hdir]; exact hz
      rw [hR0'] at r4 ⊢
      rw [r4 rfl]
      exact ⟨by omega, by omega, by omega, fun hh => by omega⟩
  · rw [if_neg hdir] at hval
    have hlt : dayNo (Heb.cal scr) e < dayNo (Heb.cal scr) s := by have := cs.2.2; omega
    have hT0 : T ≤ 0 := by have := hebPos_le_of_dayNo_le scr hw e s he hs (by omega); omega
    obtain ⟨R, hR⟩ : ∃ R, R = if cmpYmd (Heb.cal scr) rT e ≥ 0 then T else T + 1 := ⟨_, rfl⟩
    rw [← hR] at hval
    have hRb : T ≤ R ∧ R ≤ T + 1 := by rw [hR]; split <;> omega
    have hR0 : R ≤ 0 := by
      by_cases hz : T = 0
      · have : rT = s := t5 hz
        rw [this] at hR; rw [hR, if_pos (by omega)]; omega
      · omega
    obtain ⟨r, r1, r2, r3, r4⟩ := heb_add_between scr hw s e s hs he hs R (by omega) (by omega)
    refine ⟨R, r, hval, r1, r2, fun hh => by omega, ?_⟩
    intro _
    refine ⟨hR0, ?_, ?_, ?_⟩
    · by_cases hc : cmpYmd (Heb.cal scr) rT e ≥ 0
      · rw [hR, if_pos hc] at r1
        rw [t1] at r1; cases r1
        have := cT.1; omega
      · have hRT : R = T + 1 := by rw [hR, if_neg hc]
        have := hebPos_lt scr hw e r he r2 (by omega); omega
    · by_cases hz : R = 0
      · rw [r4 hz]; omega
      · have := hebPos_lt scr hw r s r2 hs (by omega); omega
    · intro _ r' hr'
      have vr := heb_addMonths_valid scr hw s hs (R - 1) r' hr'
      have cr := cmp_sign hw r' e vr he
      have hp := hprobe_add (R - 1) r' hr'
      by_cases hc : cmpYmd (Heb.cal scr) rT e ≥ 0
      · have hRT : R = T := by rw [hR, if_pos hc]
        obtain ⟨v, v1, v2⟩ := hBe (R - 1) (by omega) (by omega)
        rw [hp] at v1; cases v1
        exact cr.1.1 v2
      · have hRT : R - 1 = T := by rw [hR, if_neg hc]; omega
        rw [hRT, t1] at hr'; cases hr'
        have := cT.1.1 (by omega); omega

theorem heb_monthsField_law (scr : Bool) (hw : WF (Heb.cal scr)) : FieldLaw (Heb.cal scr) (monthsField (hebCal scr)) where
  add_zero := by intro s; show Hebrew.addMonths scr (Heb.cal scr) s 0 = .ok s; unfold Hebrew.addMonths; rw [if_pos rfl]
  law := by
    intro s e hs he
    obtain ⟨n, r, h1, h2, h3, h4, h5⟩ := heb_months_law_max scr hw s e hs he
    exact ⟨n, r, h1, h2, h3, fun hle => by have := h4 hle; exact ⟨this.1, this.2.1, this.2.2.1⟩,
      fun hle => by have := h5 hle; exact ⟨this.1, this.2.1, this.2.2.1⟩⟩

/-- the Hebrew calendars satisfy `DateLaws`: all `Period.between` laws of `C09Between`/`C09DateTime` apply to them -/
theorem dateLaws_hebrew (scr : Bool) (hw : WF (Heb.cal scr)) (hl : YearLen (Heb.cal scr)) : DateLaws (hebCal scr) :=
  ⟨hw, hl, heb_yearsField_law scr hw, heb_monthsField_law scr hw⟩

end Pyoda.C09
