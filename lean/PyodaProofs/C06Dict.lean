import PyodaModel.Codec.Validate
namespace Pyoda.C06
open Pyoda Pyoda.Codec

abbrev Dict := List (Str × Str)

theorem dictGet?_nil (k : Str) : dictGet? [] k = none := rfl

theorem dictGet?_cons (e : Str × Str) (d : Dict) (k : Str) :
    dictGet? (e :: d) k = if e.1 = k then some e.2 else dictGet? d k := by
  unfold dictGet?
  rw [List.find?_cons]
  by_cases h : e.1 = k <;> simp [h]

theorem dictGet?_append_single (d : Dict) (k v k' : Str) (h : dictGet? d k' = none) :
    dictGet? (d ++ [(k, v)]) k' = if k = k' then some v else none := by
  induction d with
  | nil => simp [dictGet?_cons, dictGet?_nil]
  | cons e d ih =>
    rw [List.cons_append, dictGet?_cons]
    rw [dictGet?_cons] at h
    by_cases he : e.1 = k'
    · simp [he] at h
    · simp only [he, if_false] at h ⊢; exact ih h

theorem any_key_iff (d : Dict) (k : Str) : (d.any (fun e => decide (e.1 = k))) = (dictGet? d k).isSome := by
  induction d with
  | nil => rfl
  | cons e d ih =>
    rw [List.any_cons, dictGet?_cons, ih]
    by_cases he : e.1 = k <;> simp [he]

theorem dictInsert_def (d : Dict) (k v : Str) :
    dictInsert d k v = if (dictGet? d k).isSome then d.map (fun e => if e.1 = k then (k, v) else e) else d ++ [(k, v)] := by
  unfold dictInsert
  rw [← any_key_iff]

theorem dictGet?_map_upd (d : Dict) (k v k' : Str) :
    dictGet? (d.map (fun e => if e.1 = k then (k, v) else e)) k' =
      if k' = k then (if (dictGet? d k).isSome then some v else none) else dictGet? d k' := by
  induction d with
  | nil => simp [dictGet?_nil]
  | cons e d ih =>
    rw [List.map_cons, dictGet?_cons, ih]
    by_cases hk : k' = k
    · subst hk
      by_cases he : e.1 = k'
      · simp [he, dictGet?_cons]
      · simp [he, dictGet?_cons]
    · by_cases he : e.1 = k
      · have : ¬ k = k' := fun h => hk h.symm
        simp [he, hk, this, dictGet?_cons]
      · simp [he, hk, dictGet?_cons]

/-- Python `d[k] = v; d.get(k')` -/
theorem dictGet?_insert (d : Dict) (k v k' : Str) :
    dictGet? (dictInsert d k v) k' = if k' = k then some v else dictGet? d k' := by
  rw [dictInsert_def]
  by_cases h : (dictGet? d k).isSome
  · rw [if_pos h, dictGet?_map_upd]; simp [h]
  · rw [if_neg h]
    by_cases hk : k' = k
    · subst hk
      have hn : dictGet? d k' = none := by simpa using h
      rw [dictGet?_append_single _ _ _ _ hn]; simp
    · rw [if_neg hk]
      induction d with
      | nil => simp [dictGet?_cons, dictGet?_nil]; intro h'; exact absurd h'.symm hk
      | cons e d ih =>
        rw [List.cons_append, dictGet?_cons, dictGet?_cons]
        by_cases he : e.1 = k'
        · simp [he]
        · simp only [he, if_false]
          apply ih
          rw [dictGet?_cons] at h
          by_cases hek : e.1 = k
          · simp [hek] at h
          · simpa [hek] using h

theorem mem_dictInsert (d : Dict) (k v : Str) (e : Str × Str) (h : e ∈ dictInsert d k v) : e ∈ d ∨ e = (k, v) := by
  rw [dictInsert_def] at h
  split at h
  · rcases List.mem_map.mp h with ⟨a, ha, rfl⟩
    by_cases hk : a.1 = k
    · right; simp [hk]
    · left; simpa [hk] using ha
  · rcases List.mem_append.mp h with h | h
    · exact .inl h
    · right; simpa using h

theorem dictGet?_some_mem (d : Dict) (k v : Str) (h : dictGet? d k = some v) : (k, v) ∈ d := by
  induction d with
  | nil => simp [dictGet?_nil] at h
  | cons e d ih =>
    rw [dictGet?_cons] at h
    by_cases he : e.1 = k
    · simp only [he, if_true, Option.some.injEq] at h
      have : e = (k, v) := by cases e; simp_all
      rw [this]; exact List.mem_cons_self
    · simp only [he, if_false] at h
      exact List.mem_cons_of_mem _ (ih h)

theorem mem_get_isSome (d : Dict) (e : Str × Str) (h : e ∈ d) : (dictGet? d e.1).isSome = true := by
  induction d with
  | nil => cases h
  | cons a d ih =>
    rw [dictGet?_cons]
    by_cases ha : a.1 = e.1
    · simp [ha]
    · simp only [ha, if_false]
      rcases List.mem_cons.mp h with rfl | h
      · exact absurd rfl ha
      · exact ih h

theorem known_insert (d : Dict) (k v k' : Str) : known (dictInsert d k v) k' = (decide (k' = k) || known d k') := by
  unfold known
  rw [dictGet?_insert]
  by_cases h : k' = k <;> simp [h]

theorem known_of_mem (d : Dict) (e : Str × Str) (h : e ∈ d) : known d e.1 = true := mem_get_isSome d e h

theorem known_iff_exists (d : Dict) (k : Str) : known d k = true ↔ ∃ v, (k, v) ∈ d := by
  constructor
  · intro h
    unfold known at h
    rcases Option.isSome_iff_exists.mp h with ⟨v, hv⟩
    exact ⟨v, dictGet?_some_mem d k v hv⟩
  · rintro ⟨v, hv⟩; exact known_of_mem d (k, v) hv

/-! ### `insertAll` -/

theorem insertAll_nil (d : Dict) : insertAll d [] = d := rfl
theorem insertAll_cons (d : Dict) (p : Str × Str) (ps : Dict) :
    insertAll d (p :: ps) = insertAll (dictInsert d p.1 p.2) ps := rfl

theorem mem_insertAll (ps d : Dict) (e : Str × Str) (h : e ∈ insertAll d ps) : e ∈ d ∨ e ∈ ps := by
  induction ps generalizing d with
  | nil => exact .inl h
  | cons p ps ih =>
    rw [insertAll_cons] at h
    rcases ih _ h with h | h
    · rcases mem_dictInsert _ _ _ _ h with h | h
      · exact .inl h
      · right; rw [h]; exact List.mem_cons_self
    · exact .inr (List.mem_cons_of_mem _ h)

theorem insertAll_get_not_key (ps d : Dict) (k : Str) (h : k ∉ ps.map (·.1)) :
    dictGet? (insertAll d ps) k = dictGet? d k := by
  induction ps generalizing d with
  | nil => rfl
  | cons p ps ih =>
    rw [insertAll_cons, ih]
    · rw [dictGet?_insert, if_neg]
      intro hk; apply h; simp [hk]
    · intro hk; apply h; simp only [List.map_cons]; exact List.mem_cons_of_mem _ hk

/-- keys assigned once: the map holds the assigned value -/
theorem insertAll_get (ps d : Dict) (k v : Str) (hn : (ps.map (·.1)).Nodup) (hm : (k, v) ∈ ps) :
    dictGet? (insertAll d ps) k = some v := by
  induction ps generalizing d with
  | nil => cases hm
  | cons p ps ih =>
    rw [insertAll_cons]
    simp only [List.map_cons, List.nodup_cons] at hn
    rcases List.mem_cons.mp hm with h | h
    · subst h
      rw [insertAll_get_not_key _ _ _ hn.1, dictGet?_insert]; simp
    · exact ih _ hn.2 h

theorem known_insertAll (ps d : Dict) (k : Str) :
    known (insertAll d ps) k = (known d k || decide (k ∈ ps.map (·.1))) := by
  induction ps generalizing d with
  | nil => simp [insertAll_nil]
  | cons p ps ih =>
    rw [insertAll_cons, ih, known_insert]
    simp only [List.map_cons, List.mem_cons]
    by_cases h : k = p.1 <;> simp [h]

end Pyoda.C06
