/-
  GenAgreeC16 — agreement between the week-year rule / weekday navigation code GENERATED from pyoda_time's Python
  source (`PyodaGen/C16.lean`, written by tools/py2lean.py on every check) and the hand-written model
  `PyodaModel/WeekYear.lean`.

  Objects: a `CalendarSystem` is the structure `Gen.CalSys` (its calculator and the four range attributes), its
  `_YearMonthDayCalculator` the record of functions `Gen.CalcObj`, a `LocalDate` the structure `Gen.LDate`
  (PyodaGen/Objects.lean).  The model sees a calendar only through its year table `c : Cal`; `Tabled k c` says that
  the calculator object `k` answers `_get_start_of_year_in_days` / `_get_days_in_year` from that table.  The day
  number of a date (`_get_days_since_epoch`, C01) enters as the hypothesis `k.daysSinceEpoch ymd = .ok d`.
  Where the code calls `_towards_zero_division` the generated definition keeps the Decimal-domain guard (`pyTdiv`);
  those agreements carry the bound `|operand| < 10^27` (`decBound`) as a hypothesis.
-/
import PyodaGen.C16
import PyodaModel.WeekYear
import PyodaProofs.Basic

namespace Pyoda.GenAgree.C16
open Pyoda Pyoda.WeekYear

/-- the calculator object answers year starts and year lengths from the year table `c` -/
structure Tabled (k : Gen.CalcObj) (c : Cal) : Prop where
  start : ∀ y, k.startOfYear y = .ok (c.start y)
  len : ∀ y, k.daysInYear y = .ok (c.len y)

/-- the `CalendarSystem` object with calculator `k` and the range attributes of `c` -/
def calSys (k : Gen.CalcObj) (c : Cal) : Gen.CalSys := ⟨k, c.minYear, c.maxYear, c.minDays, c.maxDays⟩

/-- the `LocalDate` object with fields `ymd` in that calendar -/
def dateOf (k : Gen.CalcObj) (c : Cal) (ymd : Gen.YMD) : Gen.LDate := ⟨⟨ymd, calSys k c⟩⟩

/-- a table-backed calculator exists for every table (the hypotheses below are satisfiable) -/
def tableCalc (c : Cal) (daysOf : Gen.YMD → R Int) (ymdOf : Int → R Gen.YMD) : Gen.CalcObj :=
  { startOfYear := fun y => .ok (c.start y), daysInYear := fun y => .ok (c.len y), daysSinceEpoch := daysOf,
    ymdOfDays := ymdOf, daysInMonth := fun _ _ => .error .notImplemented, monthsInYear := fun _ => .error .notImplemented,
    validate := fun _ _ _ => .error .notImplemented }

example (c : Cal) (f : Gen.YMD → R Int) (g : Int → R Gen.YMD) : Tabled (tableCalc c f g) c := ⟨fun _ => rfl, fun _ => rfl⟩

theorem checkRange_then_ok (v lo hi : Int) : (checkRange v lo hi >>= fun _ => (Except.ok () : R Unit)) = checkRange v lo hi := by
  unfold checkRange
  by_cases h : v < lo ∨ v > hi <;> simp only [h, if_true, if_false] <;> rfl

/-! ## `CalendarSystem` and `LocalDate` members -/

theorem gen_checkNotNullCal_eq (cs : Gen.CalSys) : Gen.C16.checkNotNullCal cs = cs := rfl
theorem gen_CalendarSystem_minYear_eq (k : Gen.CalcObj) (c : Cal) : Gen.C16.CalendarSystem.minYear (calSys k c) = c.minYear := rfl
theorem gen_CalendarSystem_maxYear_eq (k : Gen.CalcObj) (c : Cal) : Gen.C16.CalendarSystem.maxYear (calSys k c) = c.maxYear := rfl
theorem gen_CalendarSystem_minDays_eq (k : Gen.CalcObj) (c : Cal) : Gen.C16.CalendarSystem.minDays (calSys k c) = c.minDays := rfl
theorem gen_CalendarSystem_maxDays_eq (k : Gen.CalcObj) (c : Cal) : Gen.C16.CalendarSystem.maxDays (calSys k c) = c.maxDays := rfl
theorem gen_CalendarSystem_calculator_eq (k : Gen.CalcObj) (c : Cal) : Gen.C16.CalendarSystem.calculator (calSys k c) = k := rfl

theorem gen_CalendarSystem_getDaysSinceEpoch_eq (cs : Gen.CalSys) (ymd : Gen.YMD) :
    Gen.C16.CalendarSystem.getDaysSinceEpoch cs ymd = cs.calculator.daysSinceEpoch ymd := rfl

/-- `CalendarSystem._get_day_of_week`: the weekday formula always lands in 1 … 7, so `IsoDayOfWeek(...)` cannot fail -/
theorem gen_CalendarSystem_getDayOfWeek_eq (cs : Gen.CalSys) (ymd : Gen.YMD) (d : Int)
    (hd : cs.calculator.daysSinceEpoch ymd = .ok d) :
    Gen.C16.CalendarSystem.getDayOfWeek cs ymd = .ok (dayOfWeek d) := by
  unfold Gen.C16.CalendarSystem.getDayOfWeek Gen.C16.CalendarSystem.calculator dayOfWeek Gen.isoDayOfWeek
  rw [hd]
  simp only [bind, Except.bind]
  have h7 : (0 : Int) < 7 := by decide
  have a1 := Int.emod_nonneg (d + 3) (Int.ne_of_gt h7)
  have a2 := Int.emod_lt_of_pos (d + 3) h7
  have b1 := Int.emod_nonneg (d + 4) (Int.ne_of_gt h7)
  have b2 := Int.emod_lt_of_pos (d + 4) h7
  rw [if_pos]
  rw [csharpMod_pos _ _ h7, csharpMod_pos _ _ h7]
  split <;> split <;> omega

theorem gen_LocalDate_ofYmdc_eq (x : Gen.YMDC) : Gen.C16.LocalDate.ofYmdc x = ⟨x⟩ := rfl
theorem gen_LocalDate_calendarOrdinal_eq (date : Gen.LDate) : Gen.C16.LocalDate.calendarOrdinal date = date.ymdc.calendar := rfl
theorem gen_LocalDate_calendar_eq (date : Gen.LDate) : Gen.C16.LocalDate.calendar date = date.ymdc.calendar := rfl
theorem gen_LocalDate_year_eq (date : Gen.LDate) : Gen.C16.LocalDate.year date = date.ymdc.ymd.year := rfl
theorem gen_LocalDate_yearMonthDay_eq (date : Gen.LDate) : Gen.C16.LocalDate.yearMonthDay date = date.ymdc.ymd := rfl

theorem gen_LocalDate_daysSinceEpoch_eq (date : Gen.LDate) :
    Gen.C16.LocalDate.daysSinceEpoch date = date.ymdc.calendar.calculator.daysSinceEpoch date.ymdc.ymd := rfl

theorem gen_LocalDate_dayOfWeek_eq (date : Gen.LDate) (d : Int)
    (hd : date.ymdc.calendar.calculator.daysSinceEpoch date.ymdc.ymd = .ok d) :
    Gen.C16.LocalDate.dayOfWeek date = .ok (dayOfWeek d) :=
  gen_CalendarSystem_getDayOfWeek_eq date.ymdc.calendar date.ymdc.ymd d hd

/-- an error of the day-number lookup is the error of `day_of_week` -/
theorem gen_LocalDate_dayOfWeek_error (date : Gen.LDate) (e : PyExc)
    (hd : date.ymdc.calendar.calculator.daysSinceEpoch date.ymdc.ymd = .error e) :
    Gen.C16.LocalDate.dayOfWeek date = .error e := by
  show Gen.C16.CalendarSystem.getDayOfWeek date.ymdc.calendar date.ymdc.ymd = _
  unfold Gen.C16.CalendarSystem.getDayOfWeek Gen.C16.CalendarSystem.calculator
  rw [hd]; rfl

theorem gen_LocalDate_plusDays_eq (addDays : Gen.LDate → Int → R Gen.LDate) (date : Gen.LDate) (n : Int) :
    Gen.C16.LocalDate.plusDays addDays date n = addDays date n := rfl

/-! ## weekday navigation: `LocalDate.next/previous`, `DateAdjusters` -/

theorem gen_LocalDate_next_eq (addDays : Gen.LDate → Int → R Gen.LDate) (date : Gen.LDate) (d t : Int)
    (hd : date.ymdc.calendar.calculator.daysSinceEpoch date.ymdc.ymd = .ok d) :
    Gen.C16.LocalDate.next addDays date t = (do adjusterFactory t; addDays date (nextDiff d t)) := by
  unfold Gen.C16.LocalDate.next adjusterFactory checkRange nextDiff
  by_cases h : t < 1 ∨ t > 7
  · simp only [h, if_true]; rfl
  · simp only [h, if_false, gen_LocalDate_dayOfWeek_eq date d hd, gen_LocalDate_plusDays_eq, bind, Except.bind]
    by_cases h2 : t - dayOfWeek d ≤ 0 <;> simp only [h2, if_true, if_false]

theorem gen_LocalDate_previous_eq (addDays : Gen.LDate → Int → R Gen.LDate) (date : Gen.LDate) (d t : Int)
    (hd : date.ymdc.calendar.calculator.daysSinceEpoch date.ymdc.ymd = .ok d) :
    Gen.C16.LocalDate.previous addDays date t = (do adjusterFactory t; addDays date (prevDiff d t)) := by
  unfold Gen.C16.LocalDate.previous adjusterFactory checkRange prevDiff
  by_cases h : t < 1 ∨ t > 7
  · simp only [h, if_true]; rfl
  · simp only [h, if_false, gen_LocalDate_dayOfWeek_eq date d hd, gen_LocalDate_plusDays_eq, bind, Except.bind]
    by_cases h2 : t - dayOfWeek d ≥ 0 <;> simp only [h2, if_true, if_false]

theorem gen_DateAdjusters_next_eq (addDays : Gen.LDate → Int → R Gen.LDate) (date : Gen.LDate) (d t : Int)
    (hd : date.ymdc.calendar.calculator.daysSinceEpoch date.ymdc.ymd = .ok d) :
    Gen.C16.DateAdjusters.next addDays t date = (do adjusterFactory t; addDays date (nextDiff d t)) := by
  unfold Gen.C16.DateAdjusters.next
  rw [gen_LocalDate_next_eq addDays date d t hd]
  unfold adjusterFactory checkRange
  by_cases h : t < 1 ∨ t > 7 <;> simp only [h, if_true, if_false] <;> rfl

theorem gen_DateAdjusters_previous_eq (addDays : Gen.LDate → Int → R Gen.LDate) (date : Gen.LDate) (d t : Int)
    (hd : date.ymdc.calendar.calculator.daysSinceEpoch date.ymdc.ymd = .ok d) :
    Gen.C16.DateAdjusters.previous addDays t date = (do adjusterFactory t; addDays date (prevDiff d t)) := by
  unfold Gen.C16.DateAdjusters.previous
  rw [gen_LocalDate_previous_eq addDays date d t hd]
  unfold adjusterFactory checkRange
  by_cases h : t < 1 ∨ t > 7 <;> simp only [h, if_true, if_false] <;> rfl

/-- `DateAdjusters.next_or_same(t)(date)`: the date itself when it already falls on `t` (the model's difference 0),
    otherwise `plus_days` of the model's `nextOrSameDiff` -/
theorem gen_DateAdjusters_nextOrSame_eq (addDays : Gen.LDate → Int → R Gen.LDate) (date : Gen.LDate) (d t : Int)
    (hd : date.ymdc.calendar.calculator.daysSinceEpoch date.ymdc.ymd = .ok d) :
    Gen.C16.DateAdjusters.nextOrSame addDays t date =
      (do adjusterFactory t; if dayOfWeek d = t then .ok date else addDays date (nextOrSameDiff d t)) := by
  unfold Gen.C16.DateAdjusters.nextOrSame
  rw [gen_LocalDate_next_eq addDays date d t hd, gen_LocalDate_dayOfWeek_eq date d hd]
  unfold adjusterFactory checkRange nextOrSameDiff
  by_cases h : t < 1 ∨ t > 7
  · simp only [h, if_true]; rfl
  · simp only [h, if_false, bind, Except.bind]
    by_cases h2 : dayOfWeek d = t <;> simp only [h2, if_true, if_false]

theorem gen_DateAdjusters_previousOrSame_eq (addDays : Gen.LDate → Int → R Gen.LDate) (date : Gen.LDate) (d t : Int)
    (hd : date.ymdc.calendar.calculator.daysSinceEpoch date.ymdc.ymd = .ok d) :
    Gen.C16.DateAdjusters.previousOrSame addDays t date =
      (do adjusterFactory t; if dayOfWeek d = t then .ok date else addDays date (prevOrSameDiff d t)) := by
  unfold Gen.C16.DateAdjusters.previousOrSame
  rw [gen_LocalDate_previous_eq addDays date d t hd, gen_LocalDate_dayOfWeek_eq date d hd]
  unfold adjusterFactory checkRange prevOrSameDiff
  by_cases h : t < 1 ∨ t > 7
  · simp only [h, if_true]; rfl
  · simp only [h, if_false, bind, Except.bind]
    by_cases h2 : dayOfWeek d = t <;> simp only [h2, if_true, if_false]

/-- `LocalDate.from_year_month_week_and_day`: `mkIso` is the ISO `LocalDate(year, month, day)` constructor, `isoDim`
    is `CalendarSystem.iso.get_days_in_month`; `f` is the day number of the first of the month -/
theorem gen_LocalDate_fromYearMonthWeekAndDay_eq (mkIso : Int → Int → Int → R Gen.LDate) (isoDim : Int → Int → R Int)
    (y m occ dow : Int) (s : Gen.LDate) (f dim : Int) (hs : mkIso y m 1 = .ok s)
    (hf : s.ymdc.calendar.calculator.daysSinceEpoch s.ymdc.ymd = .ok f) (hdim : isoDim y m = .ok dim) :
    Gen.C16.LocalDate.fromYearMonthWeekAndDay mkIso isoDim y m occ dow =
      (do let t ← nthWeekdayOfMonth f dim occ dow; mkIso y m t) := by
  unfold Gen.C16.LocalDate.fromYearMonthWeekAndDay nthWeekdayOfMonth checkRange
  rw [hs]
  simp only [bind, Except.bind]
  by_cases h1 : occ < 1 ∨ occ > 5
  · simp only [h1, if_true]
  · simp only [h1, if_false]
    by_cases h2 : dow < 1 ∨ dow > 7
    · simp only [h2, if_true]
    · simp only [h2, if_false, gen_LocalDate_dayOfWeek_eq s f hf, hdim]
      by_cases h3 : dow - dayOfWeek f + 1 ≤ 0
      · simp only [h3, if_true]
        by_cases h4 : dow - dayOfWeek f + 1 + 7 + (occ - 1) * 7 > dim <;> simp only [h4, if_true, if_false]
      · simp only [h3, if_false]
        by_cases h4 : dow - dayOfWeek f + 1 + (occ - 1) * 7 > dim <;> simp only [h4, if_true, if_false]

/-- a failing `LocalDate(year, month, 1)` (invalid year or month) is the failure of the whole call -/
theorem gen_LocalDate_fromYearMonthWeekAndDay_error (mkIso : Int → Int → Int → R Gen.LDate) (isoDim : Int → Int → R Int)
    (y m occ dow : Int) (e : PyExc) (hs : mkIso y m 1 = .error e) :
    Gen.C16.LocalDate.fromYearMonthWeekAndDay mkIso isoDim y m occ dow = .error e := by
  unfold Gen.C16.LocalDate.fromYearMonthWeekAndDay
  rw [hs]; rfl

/-! ## `_SimpleWeekYearRule` -/

theorem gen_Rule_weekYearStart_eq (k : Gen.CalcObj) (c : Cal) (h : Tabled k c) (md fd : Int) (irr : Bool) (wy : Int) :
    Gen.C16.Rule.weekYearStart md fd k wy = .ok (weekYearStart ⟨md, fd, irr⟩ c wy) := by
  unfold Gen.C16.Rule.weekYearStart weekYearStart
  rw [h.start]
  simp only [bind, Except.bind, fmod_pos _ _ (by decide : (0 : Int) < 7), decide_eq_true_eq]

theorem gen_Rule_validateWeekYear_eq (k : Gen.CalcObj) (c : Cal) (h : Tabled k c) (md fd : Int) (irr : Bool) (wy : Int) :
    Gen.C16.Rule.validateWeekYear md fd irr wy (calSys k c) = validateWeekYear ⟨md, fd, irr⟩ c wy := by
  unfold Gen.C16.Rule.validateWeekYear validateWeekYear
  simp only [gen_CalendarSystem_minYear_eq, gen_CalendarSystem_maxYear_eq, gen_CalendarSystem_minDays_eq,
    gen_CalendarSystem_maxDays_eq, gen_CalendarSystem_calculator_eq, gen_Rule_weekYearStart_eq k c h md fd irr]
  by_cases h1 : c.minYear < wy ∧ wy < c.maxYear
  · simp only [h1, and_self, if_true]
  · simp only [h1, if_false, bind, Except.bind]
    exact checkRange_then_ok _ _ _

/-- a calendar year of the calendar is always an acceptable week-year -/
theorem validateWeekYear_ok (r : Rule) (c : Cal) (wy : Int) (h1 : c.minYear ≤ wy) (h2 : wy ≤ c.maxYear) :
    validateWeekYear r c wy = .ok () := by
  unfold validateWeekYear checkRange
  by_cases h : c.minYear < wy ∧ wy < c.maxYear
  · simp only [h, and_self, if_true]
  · simp only [h, if_false]
    rw [if_neg]
    intro hc
    rcases hc with hc | hc
    · split at hc <;> omega
    · split at hc <;> omega

/-- the operand of the division in `get_weeks_in_week_year` -/
def weeksOperand (r : Rule) (c : Cal) (wy : Int) : Int :=
  c.len wy + (c.start wy - weekYearStart r c wy) + (if r.irregular then 6 else r.minDaysInFirstWeek - 1)

theorem gen_Rule_getWeeksInWeekYear_eq (k : Gen.CalcObj) (c : Cal) (h : Tabled k c) (md fd : Int) (irr : Bool) (wy : Int)
    (hb1 : -decBound < weeksOperand ⟨md, fd, irr⟩ c wy) (hb2 : weeksOperand ⟨md, fd, irr⟩ c wy < decBound) :
    Gen.C16.Rule.getWeeksInWeekYear md fd irr wy (calSys k c) = weeksInChecked ⟨md, fd, irr⟩ c wy := by
  unfold Gen.C16.Rule.getWeeksInWeekYear weeksInChecked weeksIn
  unfold weeksOperand at hb1 hb2
  simp only [gen_CalendarSystem_calculator_eq, gen_Rule_validateWeekYear_eq k c h, gen_Rule_weekYearStart_eq k c h md fd irr,
    h.start, h.len]
  cases validateWeekYear ⟨md, fd, irr⟩ c wy with
  | error e => rfl
  | ok _ =>
    simp only [bind, Except.bind]
    cases irr with
    | true => exact pyTdiv_ok _ _ (by decide) hb1 hb2 (by decide) (by decide)
    | false => exact pyTdiv_ok _ _ (by decide) hb1 hb2 (by decide) (by decide)

/-- `get_week_year` of a date of the calendar (its year is one of the calendar's years) with day number `d` -/
theorem gen_Rule_getWeekYear_eq (k : Gen.CalcObj) (c : Cal) (h : Tabled k c) (md fd : Int) (irr : Bool) (ymd : Gen.YMD) (d : Int)
    (hd : k.daysSinceEpoch ymd = .ok d) (hy1 : c.minYear ≤ ymd.year) (hy2 : ymd.year ≤ c.maxYear)
    (hb1 : -decBound < weeksOperand ⟨md, fd, irr⟩ c ymd.year) (hb2 : weeksOperand ⟨md, fd, irr⟩ c ymd.year < decBound) :
    Gen.C16.Rule.getWeekYear md fd irr (dateOf k c ymd) = .ok (weekYear ⟨md, fd, irr⟩ c ymd.year d) := by
  unfold Gen.C16.Rule.getWeekYear weekYear
  have hcal : Gen.C16.LocalDate.calendar (dateOf k c ymd) = calSys k c := rfl
  have hymd : Gen.C16.LocalDate.yearMonthDay (dateOf k c ymd) = ymd := rfl
  simp only [hcal, hymd, gen_CalendarSystem_calculator_eq, gen_Rule_weekYearStart_eq k c h md fd irr, hd, bind, Except.bind]
  by_cases h1 : d < weekYearStart ⟨md, fd, irr⟩ c ymd.year
  · simp only [h1, if_true]
  · simp only [h1, if_false]
    cases irr with
    | true => simp only [if_true]
    | false =>
      simp only [Bool.false_eq_true, if_false]
      rw [gen_Rule_getWeeksInWeekYear_eq k c h md fd false ymd.year hb1 hb2]
      unfold weeksInChecked
      rw [validateWeekYear_ok _ c _ hy1 hy2]
      rfl

/-- for an irregular rule `get_week_year` never asks for the number of weeks: no bound, no validation -/
theorem gen_Rule_getWeekYear_irregular (k : Gen.CalcObj) (c : Cal) (h : Tabled k c) (md fd : Int) (ymd : Gen.YMD) (d : Int)
    (hd : k.daysSinceEpoch ymd = .ok d) :
    Gen.C16.Rule.getWeekYear md fd true (dateOf k c ymd) = .ok (weekYear ⟨md, fd, true⟩ c ymd.year d) := by
  unfold Gen.C16.Rule.getWeekYear weekYear
  have hcal : Gen.C16.LocalDate.calendar (dateOf k c ymd) = calSys k c := rfl
  have hymd : Gen.C16.LocalDate.yearMonthDay (dateOf k c ymd) = ymd := rfl
  simp only [hcal, hymd, gen_CalendarSystem_calculator_eq, gen_Rule_weekYearStart_eq k c h md fd true, hd, bind, Except.bind]
  by_cases h1 : d < weekYearStart ⟨md, fd, true⟩ c ymd.year
  · simp only [h1, if_true]
  · simp only [h1, if_false, if_true]

/-- `get_week_of_week_year`; the second bound is on the distance from the start of the week-year -/
theorem gen_Rule_getWeekOfWeekYear_eq (k : Gen.CalcObj) (c : Cal) (h : Tabled k c) (md fd : Int) (irr : Bool) (ymd : Gen.YMD) (d : Int)
    (hd : k.daysSinceEpoch ymd = .ok d) (hy1 : c.minYear ≤ ymd.year) (hy2 : ymd.year ≤ c.maxYear)
    (hb1 : -decBound < weeksOperand ⟨md, fd, irr⟩ c ymd.year) (hb2 : weeksOperand ⟨md, fd, irr⟩ c ymd.year < decBound)
    (hw1 : -decBound < d - weekYearStart ⟨md, fd, irr⟩ c (weekYear ⟨md, fd, irr⟩ c ymd.year d))
    (hw2 : d - weekYearStart ⟨md, fd, irr⟩ c (weekYear ⟨md, fd, irr⟩ c ymd.year d) < decBound) :
    Gen.C16.Rule.getWeekOfWeekYear md fd irr (dateOf k c ymd) = .ok (weekOf ⟨md, fd, irr⟩ c ymd.year d) := by
  unfold Gen.C16.Rule.getWeekOfWeekYear weekOf
  have hcal : Gen.C16.LocalDate.calendar (dateOf k c ymd) = calSys k c := rfl
  have hymd : Gen.C16.LocalDate.yearMonthDay (dateOf k c ymd) = ymd := rfl
  simp only [hcal, hymd, gen_CalendarSystem_calculator_eq, gen_Rule_getWeekYear_eq k c h md fd irr ymd d hd hy1 hy2 hb1 hb2,
    gen_Rule_weekYearStart_eq k c h md fd irr, hd, bind, Except.bind]
  rw [pyTdiv_ok _ _ (by decide) hw1 hw2 (by decide) (by decide)]

/-- `get_local_date`: the model returns the day number, the code the `LocalDate` built from the calculator's
    `_get_year_month_day` of that day number.  `ymdOf` is that conversion, and `hround` says that converting back gives
    the same day number (C01 `days_ymd_days`); the model's `yearOf` is the year field of the conversion. -/
theorem gen_Rule_getLocalDate_eq (k : Gen.CalcObj) (c : Cal) (h : Tabled k c) (md fd : Int) (irr : Bool) (wy week dow : Int)
    (ymdOf : Int → Gen.YMD) (hymd : ∀ x, k.ymdOfDays x = .ok (ymdOf x)) (hround : ∀ x, k.daysSinceEpoch (ymdOf x) = .ok x)
    (hb1 : -decBound < weeksOperand ⟨md, fd, irr⟩ c wy) (hb2 : weeksOperand ⟨md, fd, irr⟩ c wy < decBound) :
    Gen.C16.Rule.getLocalDate md fd irr wy week dow (calSys k c) =
      (do let x ← localDate ⟨md, fd, irr⟩ c (fun x => (ymdOf x).year) wy week dow; .ok (dateOf k c (ymdOf x))) := by
  unfold Gen.C16.Rule.getLocalDate localDate
  have hw := gen_Rule_getWeeksInWeekYear_eq k c h md fd irr wy hb1 hb2
  unfold weeksInChecked at hw
  simp only [gen_Rule_validateWeekYear_eq k c h, hw, gen_CalendarSystem_calculator_eq, gen_CalendarSystem_minDays_eq,
    gen_CalendarSystem_maxDays_eq, gen_Rule_weekYearStart_eq k c h md fd irr, hymd]
  cases validateWeekYear ⟨md, fd, irr⟩ c wy with
  | error e => rfl
  | ok _ =>
    simp only [bind, Except.bind]
    unfold checkRange
    by_cases h1 : dow < 1 ∨ dow > 7
    · simp only [h1, if_true]
    · simp only [h1, if_false, fmod_pos _ _ (by decide : (0 : Int) < 7)]
      by_cases h2 : week < 1 ∨ week > weeksIn ⟨md, fd, irr⟩ c wy
      · simp only [h2, if_true]
      · simp only [h2, if_false]
        by_cases h3 : weekYearStart ⟨md, fd, irr⟩ c wy + (week - 1) * 7 + (dow - fd + 7) % 7 < c.minDays ∨
            weekYearStart ⟨md, fd, irr⟩ c wy + (week - 1) * 7 + (dow - fd + 7) % 7 > c.maxDays
        · simp only [h3, if_true]
        · simp only [h3, if_false]
          have hret : ∀ x, Gen.C16.LocalDate.ofYmdc (Gen.YMDC.mk (ymdOf x) (calSys k c)) = dateOf k c (ymdOf x) := fun _ => rfl
          have hyr : ∀ x, Gen.C16.LocalDate.year (dateOf k c (ymdOf x)) = (ymdOf x).year := fun _ => rfl
          simp only [hret, hyr]
          cases irr with
          | false => simp only [Bool.false_eq_true, false_and, if_false]
          | true =>
            simp only [true_and]
            by_cases h4 : wy ≠ (ymdOf (weekYearStart ⟨md, fd, true⟩ c wy + (week - 1) * 7 + (dow - fd + 7) % 7)).year
            · simp only [h4, if_true, ne_eq, not_false_eq_true,
                gen_Rule_getWeekYear_irregular k c h md fd _ _ (hround _)]
              split <;> rfl
            · simp only [h4, if_false]

/-! ## the hypotheses are satisfiable: a concrete table (364-day years starting on a Monday three days before the
      epoch) with its day-number conversions, and the generated code evaluated on it -/

def demoCal : Cal := ⟨fun y => (y - 1970) * 364 - 3, fun _ => 364, 1900, 2100, (1900 - 1970) * 364 - 3, (2101 - 1970) * 364 - 4⟩
def demoDaysOf (ymd : Gen.YMD) : R Int := .ok ((ymd.year - 1970) * 364 - 3 + (ymd.day - 1))
def demoYmdOf (x : Int) : Gen.YMD := ⟨1970 + (x + 3) / 364, 1, (x + 3) % 364 + 1⟩
def demoCalc : Gen.CalcObj := tableCalc demoCal demoDaysOf (fun x => .ok (demoYmdOf x))

example : Tabled demoCalc demoCal := ⟨fun _ => rfl, fun _ => rfl⟩
example : ∀ x, demoCalc.daysSinceEpoch (demoYmdOf x) = .ok x := by
  intro x; show Except.ok _ = Except.ok x; unfold demoYmdOf; congr 1; simp only; omega
example : Gen.C16.Rule.getWeekYear 4 1 false (dateOf demoCalc demoCal ⟨1971, 1, 1⟩) = .ok 1971 := by decide
example : Gen.C16.Rule.getWeekOfWeekYear 4 1 false (dateOf demoCalc demoCal ⟨1971, 1, 9⟩) = .ok 2 := by decide
example : Gen.C16.Rule.getWeeksInWeekYear 4 1 false 1971 (calSys demoCalc demoCal) = .ok 52 := by decide
example : (Gen.C16.Rule.getLocalDate 4 1 false 1971 2 2 (calSys demoCalc demoCal)).map (·.ymdc.ymd) = .ok ⟨1971, 1, 9⟩ := by decide
example : (Gen.C16.Rule.getLocalDate 4 1 false 1971 53 2 (calSys demoCalc demoCal)).map (·.ymdc.ymd) = .error .valueError := by decide
example : -decBound < weeksOperand ⟨4, 1, false⟩ demoCal 1971 ∧ weeksOperand ⟨4, 1, false⟩ demoCal 1971 < decBound := by decide

end Pyoda.GenAgree.C16
