/- Persian "simple" (33-year rule): density fact checked in the kernel, then `WF`. -/
import PyodaProofs.C01Persian

namespace Pyoda.C01
open Pyoda Pyoda.Calendar

theorem dens_simple : Dens Pers.leapSimple := by unfold Dens Pers.densOk; decide +kernel

theorem persianSimple_wf : WF Pers.simple := persian_wf Pers.leapSimple (-492268) dens_simple (by decide)

end Pyoda.C01
