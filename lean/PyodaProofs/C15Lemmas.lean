/-
  Helper lemmas for C15 (no property statements): closed forms of the time-of-day fields and of the
  bridge functions on their domains, timedelta normalisation.
-/
import PyodaModel.Bridge
import PyodaProofs.Basic
import PyodaProofs.C03

namespace Pyoda.C15
open Pyoda Pyoda.C03 Pyoda.Bridge

local macro "unfold_consts" : tactic =>
  `(tactic| simp only [NPD, NPH, NPMin, NPS, NPMs, NPUs, NPT, TPD, TPS, TPH, SPD, UsPD, decBound,
      Duration.MIN_DAYS, Duration.MAX_DAYS, Instant.MIN_DAYS, Instant.MAX_DAYS,
      OffsetTime.NANO_BITS_POW, Offset.MIN_S, Offset.MAX_S, ORD_EPOCH, MAX_ORD, UsPS, UsPH, UsPMin, TD_MAX_DAYS,
      BCL_DAYS, TPMin, TPUs] at *)

/-! ### domains of the standard-library values -/
def DateOK (o : Int) : Prop := 1 ≤ o ∧ o ≤ MAX_ORD
def TimeOK (us : Int) : Prop := 0 ≤ us ∧ us < UsPD
def NodOK (n : Int) : Prop := 0 ≤ n ∧ n < NPD
def OffOK (s : Int) : Prop := Offset.MIN_S ≤ s ∧ s ≤ Offset.MAX_S

theorem shr13 (x : Int) : x >>> 13 = x / 8192 := by rw [Int.shiftRight_eq_div_pow]; rfl
theorem shr11 (x : Int) : x >>> 11 = x / 2048 := by rw [Int.shiftRight_eq_div_pow]; rfl
theorem shr47 (x : Int) : x >>> 47 = x / 140737488355328 := by rw [Int.shiftRight_eq_div_pow]; rfl

theorem ltHour_eq (n : Int) (h : NodOK n) : ltHour n = .ok (n / NPH) := by
  obtain ⟨h0, h1⟩ := h
  unfold ltHour
  unfold_consts
  rw [pyTdiv_ok _ _ (by decide) (by unfold_consts; rw [shr13]; omega) (by unfold_consts; rw [shr13]; omega) (by decide) (by decide)]
  rw [shr13]
  simp (disch := decide) only [tdiv_pos]
  congr 1
  split <;> omega

theorem ltMinute_eq (n : Int) (h : NodOK n) : ltMinute n = .ok (n / NPMin % 60) := by
  obtain ⟨h0, h1⟩ := h
  unfold ltMinute
  unfold_consts
  rw [pyTdiv_bind _ _ _ (by decide) (by unfold_consts; rw [shr11]; omega) (by unfold_consts; rw [shr11]; omega) (by decide) (by decide)]
  rw [shr11, csharpMod_pos _ _ (by decide)]
  simp (disch := decide) only [tdiv_pos]
  congr 1
  split <;> split <;> omega

theorem ltSecond_eq (n : Int) (h : NodOK n) : ltSecond n = .ok (n / NPS % 60) := by
  obtain ⟨h0, h1⟩ := h
  unfold ltSecond
  unfold_consts
  rw [pyTdiv_bind _ _ _ (by decide) (by unfold_consts; omega) (by unfold_consts; omega) (by decide) (by decide)]
  rw [csharpMod_pos _ _ (by decide)]
  simp (disch := decide) only [tdiv_pos]
  congr 1
  split <;> split <;> omega

theorem ltMicrosecond_eq (n : Int) (h : NodOK n) : ltMicrosecond n = .ok (n / NPUs % 1000000) := by
  obtain ⟨h0, h1⟩ := h
  unfold ltMicrosecond
  unfold_consts
  rw [pyTdiv_bind _ _ _ (by decide) (by unfold_consts; omega) (by unfold_consts; omega) (by decide) (by decide)]
  rw [csharpMod_pos _ _ (by decide)]
  simp (disch := decide) only [tdiv_pos]
  congr 1
  split <;> split <;> omega

theorem ltNanoOfSecond_eq (n : Int) (h : NodOK n) : ltNanoOfSecond n = n % NPS := by
  obtain ⟨h0, h1⟩ := h
  unfold ltNanoOfSecond int32Overflow
  unfold_consts
  rw [csharpMod_pos _ _ (by decide), fmod_pos _ _ (by decide)]
  split <;> omega

theorem ofFields_ok (ord h m s us : Int) (ho : DateOK ord) (hh : 0 ≤ h ∧ h ≤ 23) (hm : 0 ≤ m ∧ m ≤ 59)
    (hs : 0 ≤ s ∧ s ≤ 59) (hu : 0 ≤ us ∧ us ≤ 999999) :
    PyDateTime.ofFields ord h m s us = .ok ⟨ord, h * UsPH + m * UsPMin + s * UsPS + us⟩ := by
  simp only [PyDateTime.ofFields, checkRange, DateOK, bind, Except.bind] at *
  have e1 : ¬ (ord < 1 ∨ ord > MAX_ORD) := by omega
  have e2 : ¬ (h < 0 ∨ h > 23) := by omega
  have e3 : ¬ (m < 0 ∨ m > 59) := by omega
  have e4 : ¬ (s < 0 ∨ s > 59) := by omega
  have e5 : ¬ (us < 0 ∨ us > 999999) := by omega
  simp only [e1, e2, e3, e4, e5, if_false]

/-- `LocalTime.from_time` is exact … -/
theorem time_from_exact (us : Int) (h : TimeOK us) : timeFromPy us = .ok (us * NPUs) := by
  obtain ⟨h0, h1⟩ := h
  simp only [timeFromPy, checkRange, int64Overflow, bind, Except.bind]
  unfold_consts
  have ht : us / 3600000000 * 36000000000 + us % 3600000000 / 60000000 * 600000000 + us % 60000000 / 1000000 * 10000000 +
      us % 1000000 * 10 = us * 10 := by omega
  simp only [ht]
  have e : ¬ (us * 10 < 0 ∨ us * 10 > 864000000000 - 1) := by omega
  simp only [e, if_false, fmod_pos _ _ (by decide : (0:Int) < 18446744073709551616), Except.ok.injEq]
  omega

/-- closed form of `to_naive_datetime` on normalised times -/
theorem ldtToPy_eq (d : Date) (n : Int) (h : NodOK n) :
    ldtToPy d n =
      if d.days < gregCal.minDays ∨ d.days > gregCal.maxDays then .error .valueError
      else if d.days + ORD_EPOCH < 1 then .error .runtimeError
      else .ok ⟨d.days + ORD_EPOCH, n / NPUs⟩ := by
  have h' := h
  obtain ⟨h0, h1⟩ := h'
  simp only [ldtToPy, Date.withCalendar, Date.ofDays, checkRange, bind, Except.bind]
  by_cases hr : d.days < gregCal.minDays ∨ d.days > gregCal.maxDays
  · simp only [hr, if_true]
  · simp only [hr, if_false]
    by_cases h2 : d.days + ORD_EPOCH < 1
    · simp only [h2, if_true]
    · simp only [h2, if_false]
      rw [ltHour_eq n h, ltMinute_eq n h, ltSecond_eq n h, ltMicrosecond_eq n h]
      simp only []
      rw [ofFields_ok _ _ _ _ _ (by simp only [DateOK, gregCal] at *; unfold_consts; omega) (by unfold_consts; omega)
        (by omega) (by omega) (by omega)]
      congr 2
      unfold_consts
      omega

theorem toTicksDt_eq (x : PyDateTime) (hx : PyDateTime.wf x) : toTicksDt x = ((x.ord - 1) * UsPD + x.us) * TPUs := by
  simp only [toTicksDt, toTicksTd, PyDateTime.sub, PyDateTime.wf] at *
  unfold_consts
  omega

theorem ticksSplit_nonneg (t : Int) (h0 : 0 ≤ t) :
    Duration.ticksToDaysAndTickOfDay t = .ok (t / TPD, t % TPD) := by
  simp only [Duration.ticksToDaysAndTickOfDay, ge_iff_le, h0, if_true, shr14]
  unfold_consts
  simp only [fdiv_pos _ _ (by decide : (0:Int) < 52734375), Except.ok.injEq, Prod.mk.injEq]
  omega

/-- `from_naive_datetime` is exact: same day number, microseconds × 1000, the requested calendar. -/
theorem ldt_from_exact (x : PyDateTime) (c : Cal) (hx : PyDateTime.wf x) :
    ldtFromPy x c = (Date.ofDays c (x.ord - ORD_EPOCH)).map (fun d => (d, x.us * NPUs)) := by
  have hw := hx
  simp only [PyDateTime.wf] at hw
  simp only [ldtFromPy, bind, Except.bind]
  rw [toTicksDt_eq x hx, ticksSplit_nonneg _ (by unfold_consts; omega)]
  simp only []
  have e1 : ((x.ord - 1) * UsPD + x.us) * TPUs / TPD - BCL_DAYS = x.ord - ORD_EPOCH := by unfold_consts; omega
  have e2 : ((x.ord - 1) * UsPD + x.us) * TPUs % TPD * NPT = x.us * NPUs := by unfold_consts; omega
  rw [e1, e2]
  cases Date.ofDays c (x.ord - ORD_EPOCH) <;> rfl

theorem iso_contains_stdlib (x : PyDateTime) (hx : PyDateTime.wf x) :
    isoCal.minDays ≤ x.ord - ORD_EPOCH ∧ x.ord - ORD_EPOCH ≤ isoCal.maxDays := by
  simp only [PyDateTime.wf, isoCal] at *; unfold_consts; omega

def TdUsOK (us : Int) : Prop := -TD_MAX_DAYS * UsPD ≤ us ∧ us < (TD_MAX_DAYS + 1) * UsPD

theorem ofUs_ok (us : Int) (t : PyTimedelta) (h : PyTimedelta.ofUs us = .ok t) : t.totalUs = us ∧ t.wf ∧ TdUsOK us := by
  simp only [PyTimedelta.ofUs, PyTimedelta.totalUs, PyTimedelta.wf, TdUsOK] at *
  unfold_consts
  grind

theorem ofUs_raises_iff (us : Int) : (∃ e, PyTimedelta.ofUs us = .error e) ↔ ¬ TdUsOK us := by
  simp only [PyTimedelta.ofUs, TdUsOK]
  unfold_consts
  by_cases h : us / 86400000000 < -999999999 ∨ us / 86400000000 > 999999999
  · simp only [h, if_true]; constructor
    · intro _; omega
    · intro _; exact ⟨_, rfl⟩
  · simp only [h, if_false]; constructor
    · rintro ⟨e, he⟩; cases he
    · intro hr; omega

/-- every timedelta is the normal form of its own total -/
theorem ofUs_totalUs (t : PyTimedelta) (h : t.wf) : PyTimedelta.ofUs t.totalUs = .ok t := by
  obtain ⟨d, s, u⟩ := t
  simp only [PyTimedelta.ofUs, PyTimedelta.totalUs, PyTimedelta.wf] at *
  unfold_consts
  have e : ¬ ((d * 86400000000 + s * 1000000 + u) / 86400000000 < -999999999 ∨
      (d * 86400000000 + s * 1000000 + u) / 86400000000 > 999999999) := by omega
  simp only [e, if_false, Except.ok.injEq, PyTimedelta.mk.injEq]
  omega

/-- microseconds since ordinal 0 of the instant an aware datetime denotes (local − utc offset) -/
def awareUs (x : PyDateTime) (off : Int) : Int := x.ord * UsPD + x.us - off * UsPS

theorem instToPy_eq (i : Instant) (hn : Norm i.dur) (hv : IValid i) :
    instToPy i = if i.dur.days < -BCL_DAYS then .error .runtimeError
      else .ok ⟨i.dur.days + ORD_EPOCH, i.dur.nod / NPUs⟩ := by
  obtain ⟨⟨d, n⟩⟩ := i
  simp only [Norm, IValid] at hn hv
  simp only [instToPy, Duration.lt, bclEpoch, bind, Except.bind]
  unfold_consts
  by_cases h : d < -719162
  · simp [h]
  · have h2 : ¬ (n < 0) := by omega
    simp only [h, h2, decide_false, Bool.and_false, Bool.or_false, Bool.false_eq_true, if_false]
    rw [pyTdiv_ok _ _ (by decide) (by unfold_consts; omega) (by unfold_consts; omega) (by decide) (by decide)]
    simp (disch := decide) only [tdiv_pos]
    have hp : (0 : Int) ≤ n := by omega
    simp only [hp, if_true, PyTimedelta.ofUs, PyDateTime.addTd, PyTimedelta.totalUs]
    unfold_consts
    grind

theorem tdOfOff (off : Int) (ho : -SPD < off ∧ off < SPD) :
    ∃ t, PyTimedelta.ofUs (off * UsPS) = .ok t ∧ toTicksTd t = off * TPS ∧ t.totalUs = off * UsPS := by
  cases h : PyTimedelta.ofUs (off * UsPS) with
  | error e =>
    exfalso
    have := (ofUs_raises_iff (off * UsPS)).mp ⟨e, h⟩
    simp only [TdUsOK] at this; unfold_consts; omega
  | ok t =>
    obtain ⟨h1, h2, _⟩ := ofUs_ok _ t h
    refine ⟨t, rfl, ?_, h1⟩
    simp only [toTicksTd, PyTimedelta.totalUs, PyTimedelta.wf] at *
    unfold_consts; omega

theorem norm_bcl : Norm bclEpoch.dur := by simp only [Norm, bclEpoch]; unfold_consts; omega

theorem offFromPy_eq (t : PyTimedelta) (ht : t.wf) :
    offFromPy t = if t.totalUs < -64800 * UsPS ∨ t.totalUs > 64800 * UsPS then .error .valueError
      else .ok ⟨Int.tdiv t.totalUs UsPS⟩ := by
  obtain ⟨d, s, u⟩ := t
  simp only [PyTimedelta.wf, PyTimedelta.totalUs] at *
  simp only [offFromPy, Offset.fromTicks, Offset.ctor, checkRange, PyTimedelta.totalUs, bind, Except.bind]
  unfold_consts
  by_cases h : (d * 86400000000 + s * 1000000 + u) < -64800 * 1000000 ∨ (d * 86400000000 + s * 1000000 + u) > 64800 * 1000000
  · have e : (d * 86400000000 + s * 1000000 + u) * 10 < -18 * 36000000000 ∨ (d * 86400000000 + s * 1000000 + u) * 10 > 18 * 36000000000 := by omega
    simp only [h, e, if_true]
  · have e : ¬ ((d * 86400000000 + s * 1000000 + u) * 10 < -18 * 36000000000 ∨ (d * 86400000000 + s * 1000000 + u) * 10 > 18 * 36000000000) := by omega
    simp only [h, e, if_false]
    rw [pyTdiv_ok _ _ (by decide) (by unfold_consts; omega) (by unfold_consts; omega) (by decide) (by decide)]
    simp (disch := decide) only [tdiv_pos]
    generalize d * 86400000000 + s * 1000000 + u = T at *
    grind

def OffUsOK (us : Int) : Prop := -64800 * UsPS ≤ us ∧ us ≤ 64800 * UsPS

theorem durToPy_eq (d : Duration) (hn : Norm d) : durToPy d = PyTimedelta.ofUs (Int.tdiv (val d) NPUs) := by
  obtain ⟨a, b⟩ := d
  simp only [Norm, val] at *
  simp only [durToPy, Duration.nanosecondOfDay, Duration.daysAcc]
  unfold_consts
  rw [pyTdiv_bind _ _ _ (by decide) (by unfold_consts; split <;> (try split) <;> omega) (by unfold_consts; split <;> (try split) <;> omega) (by decide) (by decide)]
  congr 1
  simp (disch := decide) only [tdiv_pos]
  grind


theorem odtToPy_eq (x : OffsetDateTime) (hn : NodOK x.nanosecondOfDay) (ho : OffOK x.offsetSeconds) :
    odtToPy x = (ldtToPy x.date x.nanosecondOfDay).map (fun p => (p, x.offsetSeconds)) := by
  rw [ldtToPy_eq _ _ hn]
  simp only [odtToPy, OffsetDateTime.withCalendar, Date.withCalendar, Date.ofDays, checkRange, bind, Except.bind]
  by_cases hr : x.date.days < gregCal.minDays ∨ x.date.days > gregCal.maxDays
  · simp only [hr, if_true, Except.map]
  · simp only [hr, if_false]
    have e : ¬ (x.offsetSeconds ≤ -SPD ∨ x.offsetSeconds ≥ SPD) := by
      simp only [OffOK] at ho; unfold_consts; omega
    simp only [OffsetDateTime.offsetSeconds, OffsetDateTime.nanosecondOfDay] at *
    simp only [e, if_false]
    rw [ldtToPy_eq _ _ hn]
    simp only [hr, if_false]
    by_cases h2 : x.date.days + ORD_EPOCH < 1
    · simp only [h2, if_true, Except.map]
    · simp only [h2, if_false, Except.map]

theorem odt_from_exact (x : PyDateTime) (off : Int) (hx : PyDateTime.wf x) (ho : OffOK off) :
    odtFromPy x off = .ok (OffsetDateTime.ofLocal ⟨isoCal, x.ord - ORD_EPOCH⟩ (x.us * NPUs) ⟨off⟩) := by
  obtain ⟨t, ht, _, htt⟩ := tdOfOff off (by simp only [OffOK] at ho; unfold_consts; omega)
  have hiso := iso_contains_stdlib x hx
  have e : ¬ (x.ord - ORD_EPOCH < isoCal.minDays ∨ x.ord - ORD_EPOCH > isoCal.maxDays) := by omega
  simp only [odtFromPy, ldt_from_exact x isoCal hx, Date.ofDays, checkRange, e, if_false, ht, bind, Except.bind, Except.map]
  have htw : t.wf := (ofUs_ok _ t ht).2.1
  rw [offFromPy_eq t htw, htt]
  simp only [OffOK] at ho
  have e2 : ¬ (off * UsPS < -64800 * UsPS ∨ off * UsPS > 64800 * UsPS) := by unfold_consts; omega
  simp only [e2, if_false]
  have e3 : Int.tdiv (off * UsPS) UsPS = off := by
    unfold_consts
    simp (disch := decide) only [tdiv_pos]
    split <;> omega
  rw [e3]

end Pyoda.C15
