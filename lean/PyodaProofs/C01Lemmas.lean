/-
  Generic part of property C01: a well-formedness predicate `WF` on a calendar description (`Calc`) and the lemmas
  about the year search (`_get_year`: estimate, backward and forward correction loops) that hold for every
  well-formed calendar.  Property theorems are in `C01.lean`; per-calendar instances of `WF` in `C01Instances*.lean`.
-/
import PyodaModel.Calendar
import PyodaProofs.Basic

namespace Pyoda.C01
open Pyoda Pyoda.Calendar

/-- Decidable-in-principle, bounded facts about one calendar from which the whole property follows. -/
structure WF (c : Calc) : Prop where
  dom_lo : c.domLo ≤ c.minYear
  /-- the year search may go below `minYear` only as far as `searchLo`, where lookups are still defined -/
  search_lo : c.domLo ≤ c.searchLo ∧ c.searchLo ≤ c.minYear
  dom_hi : c.maxYear + 1 ≤ c.domHi
  year_order : c.minYear ≤ c.maxYear
  /-- year-start recurrence and positivity of year lengths -/
  recur : ∀ y, c.minYear ≤ y → y ≤ c.maxYear → c.start (y + 1) = c.start y + c.len y ∧ 0 < c.len y
  /-- the same for the sentinel years `searchLo … minYear - 1` (none for most calendars) -/
  recur_lo : ∀ y, c.searchLo ≤ y → y < c.minYear → c.start (y + 1) = c.start y + c.len y ∧ 0 < c.len y
  avg_ok : 0 < c.avg10 + 1 ∧ c.avg10 + 1 < 1000000000
  small : -1000000000 < c.start c.minYear ∧ c.start (c.maxYear + 1) < 1000000000 ∧
          -1000000000 < c.daysAtYear1 ∧ c.daysAtYear1 < 1000000000
  /-- the estimate stays where year starts are defined and within 60 years of the true year -/
  est : ∀ y d, c.minYear ≤ y → y ≤ c.maxYear → c.start y ≤ d → d < c.start (y + 1) →
        c.searchLo ≤ Int.tdiv ((d - c.daysAtYear1) * 10) (c.avg10 + 1) + 1 ∧
        Int.tdiv ((d - c.daysAtYear1) * 10) (c.avg10 + 1) + 1 ≤ c.maxYear + 1 ∧
        Int.tdiv ((d - c.daysAtYear1) * 10) (c.avg10 + 1) + 1 ≤ y + 60 ∧
        y ≤ Int.tdiv ((d - c.daysAtYear1) * 10) (c.avg10 + 1) + 1 + 60
  /-- day-of-year ↦ (month, day) lands in the tables and is inverted by `toMonth + day` -/
  split_ok : ∀ y doy, c.minYear ≤ y → y ≤ c.maxYear → 1 ≤ doy → doy ≤ c.len y →
        1 ≤ (c.split y doy).1 ∧ (c.split y doy).1 ≤ c.months y ∧ 1 ≤ (c.split y doy).2 ∧
        (c.split y doy).2 ≤ c.dim y (c.split y doy).1 ∧ c.toMonth y (c.split y doy).1 + (c.split y doy).2 = doy
  /-- (month, day) inside the tables ↦ day-of-year inside the year, inverted by `split` -/
  unsplit_ok : ∀ y m dd, c.minYear ≤ y → y ≤ c.maxYear → 1 ≤ m → m ≤ c.months y → 1 ≤ dd → dd ≤ c.dim y m →
        1 ≤ c.toMonth y m + dd ∧ c.toMonth y m + dd ≤ c.len y ∧ c.split y (c.toMonth y m + dd) = (m, dd)
  /-- fields fit the bit-packed representation -/
  pack_year : -16383 ≤ c.minYear ∧ c.maxYear ≤ 16384
  pack_month : ∀ y, c.minYear ≤ y → y ≤ c.maxYear → 1 ≤ c.months y ∧ c.months y ≤ 32
  pack_day : ∀ y m, c.minYear ≤ y → y ≤ c.maxYear → 1 ≤ m → m ≤ c.months y → 1 ≤ c.dim y m ∧ c.dim y m ≤ 64
  /-- the calendar's month order agrees with the position of the months in the year -/
  month_order : ∀ y m1 m2, c.minYear ≤ y → y ≤ c.maxYear → 1 ≤ m1 → m1 ≤ c.months y → 1 ≤ m2 → m2 ≤ c.months y →
        c.monthKey y m1 < c.monthKey y m2 → c.toMonth y m1 + c.dim y m1 ≤ c.toMonth y m2
  month_key_inj : ∀ y m1 m2, c.minYear ≤ y → y ≤ c.maxYear → 1 ≤ m1 → m1 ≤ c.months y → 1 ≤ m2 → m2 ≤ c.months y →
        c.monthKey y m1 = c.monthKey y m2 → m1 = m2
  plain_key : c.ownCompare = false → ∀ y m, c.minYear ≤ y → y ≤ c.maxYear → 1 ≤ m → m ≤ c.months y → c.monthKey y m = m

variable {c : Calc}

theorem recurAll (h : WF c) (y : Int) (h1 : c.searchLo ≤ y) (h2 : y ≤ c.maxYear) :
    c.start (y + 1) = c.start y + c.len y ∧ 0 < c.len y := by
  by_cases hy : c.minYear ≤ y
  · exact h.recur y hy h2
  · exact h.recur_lo y h1 (by omega)

theorem yearOk_ok' (h : WF c) {y : Int} (h1 : c.searchLo ≤ y) (h2 : y ≤ c.maxYear + 1) : c.yearOk y = .ok () := by
  unfold Calc.yearOk
  have := h.search_lo; have := h.dom_hi
  rw [if_neg (by omega)]

theorem yearOk_ok (h : WF c) {y : Int} (h1 : c.minYear ≤ y) (h2 : y ≤ c.maxYear + 1) : c.yearOk y = .ok () :=
  yearOk_ok' h (by have := h.search_lo; omega) h2

theorem startR_ok' (h : WF c) {y : Int} (h1 : c.searchLo ≤ y) (h2 : y ≤ c.maxYear + 1) :
    c.startR y = .ok (c.start y) := by
  unfold Calc.startR; rw [yearOk_ok' h h1 h2]; rfl

theorem startR_ok (h : WF c) {y : Int} (h1 : c.minYear ≤ y) (h2 : y ≤ c.maxYear + 1) :
    c.startR y = .ok (c.start y) :=
  startR_ok' h (by have := h.search_lo; omega) h2

theorem lenR_ok' (h : WF c) {y : Int} (h1 : c.searchLo ≤ y) (h2 : y ≤ c.maxYear + 1) :
    c.lenR y = .ok (c.len y) := by
  unfold Calc.lenR; rw [yearOk_ok' h h1 h2]; rfl

theorem lenR_ok (h : WF c) {y : Int} (h1 : c.minYear ≤ y) (h2 : y ≤ c.maxYear + 1) :
    c.lenR y = .ok (c.len y) :=
  lenR_ok' h (by have := h.search_lo; omega) h2

/-- year starts are monotone on `[searchLo, maxYear + 1]` -/
theorem start_mono_nat (h : WF c) (y : Int) (hy : c.searchLo ≤ y) :
    ∀ n : Nat, y + n ≤ c.maxYear + 1 → c.start y ≤ c.start (y + n) := by
  intro n
  induction n with
  | zero => intro _; simp
  | succ n ih =>
    intro hb
    have h1 := ih (by omega)
    have h2 := recurAll h (y + n) (by omega) (by omega)
    have e : y + ((n + 1 : Nat) : Int) = y + n + 1 := by omega
    rw [e]; omega

theorem start_mono' (h : WF c) {y z : Int} (hy : c.searchLo ≤ y) (hyz : y ≤ z) (hz : z ≤ c.maxYear + 1) :
    c.start y ≤ c.start z := by
  have := start_mono_nat h y hy (z - y).toNat (by omega)
  have e : y + ((z - y).toNat : Int) = z := by omega
  rw [e] at this; exact this

theorem start_mono (h : WF c) {y z : Int} (hy : c.minYear ≤ y) (hyz : y ≤ z) (hz : z ≤ c.maxYear + 1) :
    c.start y ≤ c.start z :=
  start_mono' h (by have := h.search_lo; omega) hyz hz

theorem start_strict (h : WF c) {y z : Int} (hy : c.minYear ≤ y) (hyz : y < z) (hz : z ≤ c.maxYear + 1) :
    c.start y < c.start z := by
  have h1 := h.recur y hy (by omega)
  have h2 := start_mono h (y := y + 1) (z := z) (by omega) (by omega) hz
  omega

/-- every day of the range lies in exactly one year -/
theorem year_exists (h : WF c) (d : Int) (hlo : c.start c.minYear ≤ d) (hhi : d < c.start (c.maxYear + 1)) :
    ∃ y, c.minYear ≤ y ∧ y ≤ c.maxYear ∧ c.start y ≤ d ∧ d < c.start (y + 1) := by
  have key : ∀ n : Nat, c.minYear + n ≤ c.maxYear + 1 → d < c.start (c.minYear + n) →
      ∃ y, c.minYear ≤ y ∧ y ≤ c.maxYear ∧ c.start y ≤ d ∧ d < c.start (y + 1) := by
    intro n
    induction n with
    | zero => intro _ hd; simp at hd; omega
    | succ n ih =>
      intro hb hd
      by_cases hc : d < c.start (c.minYear + n)
      · exact ih (by omega) hc
      · refine ⟨c.minYear + n, by omega, by omega, by omega, ?_⟩
        have e : c.minYear + ((n + 1 : Nat) : Int) = c.minYear + n + 1 := by omega
        rw [e] at hd; exact hd
  have := h.year_order
  have e : c.minYear + ((c.maxYear + 1 - c.minYear).toNat : Int) = c.maxYear + 1 := by omega
  exact key (c.maxYear + 1 - c.minYear).toNat (by omega) (by rw [e]; exact hhi)

theorem year_unique (h : WF c) {d y z : Int} (hy : c.minYear ≤ y) (hy2 : y ≤ c.maxYear)
    (hz : c.minYear ≤ z) (hz2 : z ≤ c.maxYear)
    (h1 : c.start y ≤ d) (h2 : d < c.start (y + 1)) (h3 : c.start z ≤ d) (h4 : d < c.start (z + 1)) : y = z := by
  by_cases hlt : y < z
  · have := start_mono h (y := y + 1) (z := z) (by omega) (by omega) (by omega); omega
  · by_cases hgt : z < y
    · have := start_mono h (y := z + 1) (z := y) (by omega) (by omega) (by omega); omega
    · omega

/-- backward correction loop -/
theorem back_spec (h : WF c) (d y : Int) (hy : c.minYear ≤ y) (hy2 : y ≤ c.maxYear)
    (hs : c.start y ≤ d) (he : d < c.start (y + 1)) :
    ∀ (f : Nat) (cand : Int), y ≤ cand → cand ≤ c.maxYear + 1 → (cand - y).toNat < f →
      backLoop c f cand (d - c.start cand) = .ok (y, d - c.start y) := by
  intro f
  induction f with
  | zero => intro cand _ _ hf; omega
  | succ f ih =>
    intro cand hyc hch hf
    unfold backLoop
    by_cases hneg : d - c.start cand < 0
    · rw [if_pos hneg]
      have hlt : y < cand := by
        by_cases hq : y = cand
        · subst hq; omega
        · omega
      rw [lenR_ok h (by omega) (by omega)]
      have hw := (h.recur (cand - 1) (by omega) (by omega)).1
      have e1 : cand - 1 + 1 = cand := by omega
      rw [e1] at hw
      have e2 : d - c.start cand + c.len (cand - 1) = d - c.start (cand - 1) := by omega
      show backLoop c f (cand - 1) (d - c.start cand + c.len (cand - 1)) = _
      rw [e2]
      exact ih (cand - 1) (by omega) (by omega) (by omega)
    · rw [if_neg hneg]
      by_cases hq : y = cand
      · subst hq; rfl
      · have := start_mono h (y := y + 1) (z := cand) (by omega) (by omega) hch
        omega

/-- forward correction loop (may start at a sentinel year below `minYear`) -/
theorem fwd_spec (h : WF c) (d y : Int) (hy : c.minYear ≤ y) (hy2 : y ≤ c.maxYear)
    (hs : c.start y ≤ d) (he : d < c.start (y + 1)) :
    ∀ (f : Nat) (cand : Int), c.searchLo ≤ cand → cand ≤ y → (y - cand).toNat < f →
      fwdLoop c f cand (d - c.start cand) = .ok (y, d - c.start y) := by
  intro f
  induction f with
  | zero => intro cand _ _ hf; omega
  | succ f ih =>
    intro cand hlo hcy hf
    unfold fwdLoop
    rw [lenR_ok' h hlo (by omega)]
    have hw := recurAll h cand hlo (by omega)
    show (if d - c.start cand ≥ c.len cand then fwdLoop c f (cand + 1) (d - c.start cand - c.len cand)
          else Except.ok (cand, d - c.start cand)) = _
    by_cases hge : d - c.start cand ≥ c.len cand
    · rw [if_pos hge]
      have hlt : cand < y := by
        by_cases hq : y = cand
        · subst hq; omega
        · omega
      have e2 : d - c.start cand - c.len cand = d - c.start (cand + 1) := by omega
      rw [e2]
      exact ih (cand + 1) (by omega) (by omega) (by omega)
    · rw [if_neg hge]
      by_cases hq : y = cand
      · subst hq; rfl
      · have := start_mono' h (y := cand + 1) (z := y) (by omega) (by omega) (by omega)
        omega

theorem estimate_ok (h : WF c) (d y : Int) (hy : c.minYear ≤ y) (hy2 : y ≤ c.maxYear)
    (hs : c.start y ≤ d) (he : d < c.start (y + 1)) :
    estimate c d = .ok (Int.tdiv ((d - c.daysAtYear1) * 10) (c.avg10 + 1) + 1) := by
  unfold estimate
  have hs1 := start_mono h (y := c.minYear) (z := y) (by omega) hy (by omega)
  have hs2 := start_mono h (y := y + 1) (z := c.maxYear + 1) (by omega) (by omega) (by omega)
  have := h.small; have := h.avg_ok
  rw [pyTdiv_ok _ _ (by omega) (by unfold decBound; omega) (by unfold decBound; omega)
    (by unfold decBound; omega) (by unfold decBound; omega)]
  rfl

/-- `_get_year` finds the year that contains the day, and the zero-based day of that year -/
theorem getYear_spec (h : WF c) (d y : Int) (hy : c.minYear ≤ y) (hy2 : y ≤ c.maxYear)
    (hs : c.start y ≤ d) (he : d < c.start (y + 1)) :
    getYear c d = .ok (y, d - c.start y) := by
  unfold getYear
  rw [estimate_ok h d y hy hy2 hs he]
  obtain ⟨e1, e2, e3, e4⟩ := h.est y d hy hy2 hs he
  generalize Int.tdiv ((d - c.daysAtYear1) * 10) (c.avg10 + 1) + 1 = e at *
  show (do let s ← c.startR e; (if d - s < 0 then backLoop c yearFuel e (d - s) else fwdLoop c yearFuel e (d - s))) = _
  rw [startR_ok' h e1 e2]
  show (if d - c.start e < 0 then backLoop c yearFuel e (d - c.start e) else fwdLoop c yearFuel e (d - c.start e)) = _
  by_cases hneg : d - c.start e < 0
  · rw [if_pos hneg]
    have hye : y ≤ e := by
      by_cases hq : e < y
      · have := start_mono' h (y := e) (z := y) e1 (by omega) (by omega); omega
      · omega
    exact back_spec h d y hy hy2 hs he yearFuel e hye e2 (by unfold yearFuel; omega)
  · rw [if_neg hneg]
    have hey : e ≤ y := by
      by_cases hq : y < e
      · have := start_mono h (y := y + 1) (z := e) (by omega) (by omega) e2; omega
      · omega
    exact fwd_spec h d y hy hy2 hs he yearFuel e e1 hey (by unfold yearFuel; omega)

end Pyoda.C01
