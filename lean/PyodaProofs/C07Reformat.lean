/-
  C07 (generic engine) — re-formatting a successfully parsed text reproduces that text, for every pattern whose
  steps are literals and fixed-width non-negative numeric fields (`count = maxCount`, e.g. `HH`, `mm`, `dd`, `yyyy`),
  each slot set at most once: `reformat_idempotent`.
-/
import PyodaProofs.C07Stepped
import PyodaProofs.C07b

namespace Pyoda.C07
open Pyoda Pyoda.Text

/-! ## digit strings -/

theorem scanDigits_inv : ∀ (m acc cnt : Nat) (l : Text) (v cnt' : Nat) (rest : Text),
    scanDigits m acc cnt l = (v, cnt', rest) →
    ∃ ds, l = ds ++ rest ∧ (∀ c ∈ ds, isDigit c = true) ∧ cnt' = cnt + ds.length ∧ v = digitsValue acc ds ∧ ds.length ≤ m := by
  intro m
  induction m with
  | zero =>
    intro acc cnt l v cnt' rest h
    simp only [scanDigits] at h
    injection h with h1 h2; injection h2 with h2 h3
    exact ⟨[], by simp [h3], by simp, by simp [h2], by simp [digitsValue, h1], by simp⟩
  | succ m ih =>
    intro acc cnt l v cnt' rest h
    cases l with
    | nil =>
      simp only [scanDigits] at h
      injection h with h1 h2; injection h2 with h2 h3
      exact ⟨[], by simp [h3], by simp, by simp [h2], by simp [digitsValue, h1], by simp⟩
    | cons c t =>
      simp only [scanDigits] at h
      by_cases hc : isDigit c = true
      · rw [if_pos hc] at h
        obtain ⟨ds, e1, e2, e3, e4, e5⟩ := ih _ _ t v cnt' rest h
        refine ⟨c :: ds, by simp [e1], ?_, by simp [e3]; omega, by simp [digitsValue, e4], by simp; omega⟩
        intro x hx
        simp only [List.mem_cons] at hx
        rcases hx with rfl | hx
        · exact hc
        · exact e2 x hx
      · rw [if_neg hc] at h
        injection h with h1 h2; injection h2 with h2 h3
        exact ⟨[], by simp [h3], by simp, by simp [h2], by simp [digitsValue, h1], by simp⟩

theorem padN_digitsValue : ∀ (ds : Text) (acc k : Nat), (∀ c ∈ ds, isDigit c = true) →
    padN (k + ds.length) (digitsValue acc ds) = padN k acc ++ ds := by
  intro ds
  induction ds with
  | nil => intro acc k _; simp [digitsValue]
  | cons c t ih =>
    intro acc k h
    have hc : isDigit c = true := h c (by simp)
    have ht : ∀ x ∈ t, isDigit x = true := fun x hx => h x (by simp [hx])
    have hd : digitVal c < 10 := by
      unfold isDigit at hc; simp only [Bool.and_eq_true, decide_eq_true_eq] at hc; unfold digitVal; omega
    have e : k + (c :: t).length = (k + 1) + t.length := by simp; omega
    have := ih (acc * 10 + digitVal c) (k + 1) ht
    simp only [digitsValue, List.foldl_cons] at this ⊢
    rw [e, this, padN_succ]
    have q1 : (acc * 10 + digitVal c) / 10 = acc := by omega
    have q2 : (acc * 10 + digitVal c) % 10 = digitVal c := by omega
    rw [q1, q2, digitChar_digitVal c hc]
    simp

theorem digitsValue_lt : ∀ (ds : Text) (acc k : Nat), (∀ c ∈ ds, isDigit c = true) → acc < 10 ^ k →
    digitsValue acc ds < 10 ^ (k + ds.length) := by
  intro ds
  induction ds with
  | nil => intro acc k _ h; simpa [digitsValue] using h
  | cons c t ih =>
    intro acc k h hacc
    have hc : isDigit c = true := h c (by simp)
    have ht : ∀ x ∈ t, isDigit x = true := fun x hx => h x (by simp [hx])
    have hd : digitVal c < 10 := by
      unfold isDigit at hc; simp only [Bool.and_eq_true, decide_eq_true_eq] at hc; unfold digitVal; omega
    have h1 : acc * 10 + digitVal c < 10 ^ (k + 1) := by rw [Nat.pow_succ]; omega
    have := ih (acc * 10 + digitVal c) (k + 1) ht h1
    simp only [digitsValue, List.foldl_cons] at this ⊢
    have e : k + (c :: t).length = (k + 1) + t.length := by simp; omega
    rw [e]; exact this

/-- a full-width field that parses is exactly `n` digit characters: the zero-padded value -/
theorem parseDigits_fixed_inv (n : Nat) (l : Text) (v : Nat) (rest : Text) (h : parseDigits n n l = some (v, rest)) :
    l = padN n v ++ rest ∧ v < 10 ^ n := by
  unfold parseDigits at h
  dsimp only at h
  cases hs : scanDigits n 0 0 l with
  | mk v' p =>
    obtain ⟨c', r'⟩ := p
    rw [hs] at h
    dsimp only at h
    split at h
    · cases h
    · rename_i hc
      injection h with h; injection h with h1 h2
      obtain ⟨ds, e1, e2, e3, e4, e5⟩ := scanDigits_inv n 0 0 l v' c' r' hs
      have hlen : ds.length = n := by omega
      have hp := padN_digitsValue ds 0 0 e2
      have hl := digitsValue_lt ds 0 0 e2 (by simp)
      simp only [Nat.zero_add, padN_zero, List.nil_append] at hp hl
      rw [hlen] at hp hl
      rw [← h1, e4]
      refine ⟨?_, hl⟩
      rw [hp, ← h2]; exact e1

/-- a full-width non-negative field action that succeeds consumed exactly the zero-padded value -/
theorem parseField_fixed_inv (n : Nat) (minV maxV : Int) (l : Text) (v : Int) (rest : Text) (hmin : 0 ≤ minV)
    (h : parseField n n minV maxV l = some (v, rest)) :
    0 ≤ v ∧ v.toNat < 10 ^ n ∧ l = padN n v.toNat ++ rest := by
  have hr := parseField_bounds n n minV maxV l v rest h
  unfold parseField at h
  dsimp only at h
  by_cases c1 : ((matchChar '-' l).isSome = true ∧ minV ≥ 0)
  · rw [if_pos c1] at h; cases h
  · rw [if_neg c1] at h
    have hneg : (matchChar '-' l).isSome = false := by
      cases hh : (matchChar '-' l).isSome with
      | false => rfl
      | true => exact absurd ⟨hh, hmin⟩ c1
    simp only [hneg, Bool.false_eq_true, if_false] at h
    cases hp : parseDigits n n l with
    | none => rw [hp] at h; cases h
    | some q =>
      obtain ⟨w, r⟩ := q
      rw [hp] at h
      dsimp only at h
      split at h
      · cases h
      · injection h with h; injection h with h1 h2
        obtain ⟨e, hl⟩ := parseDigits_fixed_inv n l w r hp
        subst h2
        have : v.toNat = w := by omega
        rw [this]
        exact ⟨by omega, hl, e⟩

/-! ## the criterion and the theorem -/

/-- literal or full-width non-negative numeric field -/
def fixedStep : Step → Bool
  | .lit _ => true
  | .num _ _ count maxCount minV _ => decide (count = maxCount) && decide (1 ≤ count) && decide (0 ≤ minV)
  | _ => false

/-- slots the steps assign -/
def setSlots : List Step → List Slot
  | [] => []
  | .num _ st _ _ _ _ :: ss => st :: setSlots ss
  | _ :: ss => setSlots ss

/-- the accessors return, for every numeric field, what the bucket holds in the field's slot -/
def Agrees (get : Getter) (b : Bucket) : List Step → Prop
  | [] => True
  | .num g st _ _ _ _ :: ss => get g = b st ∧ Agrees get b ss
  | _ :: ss => Agrees get b ss

theorem formatNum_fixed (n : Nat) (minV v : Int) (hn : 1 ≤ n) (hmin : 0 ≤ minV) (h0 : 0 ≤ v) (hlt : v.toNat < 10 ^ n) :
    formatNum n n minV v = padN n v.toNat := by
  have hv : v ≥ 0 := h0
  have p : padSigned v n = leftPadNonNeg v.toNat n := by unfold padSigned; rw [if_pos hv]
  unfold formatNum
  split
  · rename_i hc; obtain ⟨rfl, _, _⟩ := hc
    unfold format2; rw [p]; exact leftPadNonNeg_eq_padN _ _ hn hlt
  · split
    · rename_i hc; obtain ⟨rfl, _⟩ := hc
      unfold format4; rw [if_neg (by omega), p]; exact leftPadNonNeg_eq_padN _ _ hn hlt
    · unfold leftPadFill; rw [if_pos hv]; exact leftPadNonNeg_eq_padN _ _ hn hlt

/-- parse actions leave alone the slots they do not set -/
theorem parseSteps_frame (cu : Culture) : ∀ (ss : List Step) (l : Text) (b b' : Bucket) (rest : Text),
    ss.all fixedStep = true → parseSteps cu ss l b = .ok (some (b', rest)) → ∀ s, s ∉ setSlots ss → b' s = b s := by
  intro ss
  induction ss with
  | nil =>
    intro l b b' rest _ h s _
    simp only [parseSteps] at h; injection h with h; injection h with h; injection h with h1 _; rw [h1]
  | cons t ts ih =>
    intro l b b' rest hf h s hs
    simp only [List.all_cons, Bool.and_eq_true] at hf
    cases t with
    | lit u =>
      simp only [parseSteps, parseStep] at h
      cases hm : matchText u l with
      | none => rw [hm] at h; cases h
      | some r => rw [hm] at h; exact ih r b b' rest hf.2 h s (by simpa [setSlots] using hs)
    | num g st count maxCount minV maxV =>
      simp only [parseSteps, parseStep] at h
      cases hm : parseField count maxCount minV maxV l with
      | none => rw [hm] at h; cases h
      | some q =>
        obtain ⟨v, r⟩ := q
        rw [hm] at h
        simp only [setSlots, List.mem_cons, not_or] at hs
        have := ih r (b.set st v) b' rest hf.2 h s hs.2
        rw [this]; unfold Bucket.set; rw [if_neg hs.1]
    | _ => simp [fixedStep] at hf

/-- **reformat_idempotent**: if a pattern made of literals and full-width non-negative numeric fields (each slot set
    once) parses a text completely, then formatting any value whose accessors return the parsed field values
    reproduces exactly that text. -/
theorem reformat_idempotent (cu : Culture) (used : Nat) (get : Getter) : ∀ (ss : List Step) (l buf : Text) (b b' : Bucket) (rest : Text),
    ss.all fixedStep = true → (setSlots ss).Nodup →
    parseSteps cu ss l b = .ok (some (b', rest)) → Agrees get b' ss →
    ∃ out, l = out ++ rest ∧ formatSteps cu used get ss buf = .ok (buf ++ out) := by
  intro ss
  induction ss with
  | nil =>
    intro l buf b b' rest _ _ h _
    simp only [parseSteps] at h; injection h with h; injection h with h; injection h with _ h2
    exact ⟨[], by simp [h2], by simp [formatSteps]⟩
  | cons t ts ih =>
    intro l buf b b' rest hf hnd h ha
    simp only [List.all_cons, Bool.and_eq_true] at hf
    cases t with
    | lit u =>
      simp only [parseSteps, parseStep] at h
      cases hm : matchText u l with
      | none => rw [hm] at h; cases h
      | some r =>
        rw [hm] at h
        have hl : l = u ++ r := by
          unfold matchText at hm
          split at hm
          · rename_i ht; injection hm with hm
            have := List.take_append_drop u.length l
            rw [ht] at this; rw [← hm]; exact this.symm
          · cases hm
        obtain ⟨out, e1, e2⟩ := ih r (buf ++ u) b b' rest hf.2 (by simpa [setSlots] using hnd) h (by simpa [Agrees] using ha)
        exact ⟨u ++ out, by rw [hl, e1, List.append_assoc], by simp only [formatSteps, formatStep, e2, List.append_assoc]⟩
    | num g st count maxCount minV maxV =>
      simp only [fixedStep, Bool.and_eq_true, decide_eq_true_eq] at hf
      obtain ⟨⟨⟨hcm, hc1⟩, hmin⟩, hts⟩ := hf
      subst hcm
      simp only [parseSteps, parseStep] at h
      cases hm : parseField count count minV maxV l with
      | none => rw [hm] at h; cases h
      | some q =>
        obtain ⟨v, r⟩ := q
        rw [hm] at h
        obtain ⟨h0, hlt, hl⟩ := parseField_fixed_inv count minV maxV l v r hmin hm
        simp only [setSlots, List.nodup_cons] at hnd
        simp only [Agrees] at ha
        have hb' : b' st = v := by
          rw [parseSteps_frame cu ts r (b.set st v) b' rest hts h st hnd.1]
          unfold Bucket.set; simp
        obtain ⟨out, e1, e2⟩ := ih r (buf ++ padN count v.toNat) (b.set st v) b' rest hts hnd.2 h ha.2
        refine ⟨padN count v.toNat ++ out, by rw [hl, e1, List.append_assoc], ?_⟩
        simp only [formatSteps, formatStep]
        rw [ha.1, hb', formatNum_fixed count minV v hc1 hmin h0 hlt, e2, List.append_assoc]
    | _ => simp [fixedStep] at hf

/-- instance: the ISO date steps and the `HH:mm:ss` steps are fixed-width with distinct slots -/
example : isoDateSteps.all fixedStep = false := by decide   -- `uuuu` may be negative: outside this criterion
example : (isoTimeSteps.take 5).all fixedStep = true ∧ (setSlots (isoTimeSteps.take 5)).Nodup := by decide

end Pyoda.C07
