import PyodaProofs.C15
import PyodaProofs.C15Lemmas
import PyodaProofs.C15Aware

#print axioms Pyoda.C15.date_from_to_id
#print axioms Pyoda.C15.time_from_to_id
#print axioms Pyoda.C15.ldt_from_to_id
#print axioms Pyoda.C15.inst_from_to_id
#print axioms Pyoda.C15.inst_from_to_id_utc
#print axioms Pyoda.C15.odt_from_to_id
#print axioms Pyoda.C15.dur_from_to_id
#print axioms Pyoda.C15.off_from_to_id
#print axioms Pyoda.C15.date_to_truncates
#print axioms Pyoda.C15.time_to_truncates
#print axioms Pyoda.C15.ldt_to_truncates
#print axioms Pyoda.C15.inst_to_truncates
#print axioms Pyoda.C15.odt_to_truncates
#print axioms Pyoda.C15.dur_to_truncates
#print axioms Pyoda.C15.off_from_truncates
#print axioms Pyoda.C15.off_to_exact
#print axioms Pyoda.C15.inst_from_exact
#print axioms Pyoda.C15.dur_from_exact
#print axioms Pyoda.C15.date_to_raises_iff_out_of_range
#print axioms Pyoda.C15.ldt_to_raises_iff_out_of_range
#print axioms Pyoda.C15.inst_to_raises_iff_out_of_range
#print axioms Pyoda.C15.odt_to_raises_iff_out_of_range
#print axioms Pyoda.C15.dur_to_raises_iff_out_of_range
#print axioms Pyoda.C15.off_from_raises_iff_out_of_range
#print axioms Pyoda.C15.inst_from_raises_iff
#print axioms Pyoda.C15.inst_aware_exact
#print axioms Pyoda.C15.inst_aware_raises_iff
#print axioms Pyoda.C15.inst_aware_to_id
#print axioms Pyoda.C15.inst_aware_fixed
#print axioms Pyoda.C15.aware_without_offset_raises
#print axioms Pyoda.C15.odtFromAware_eq
#print axioms Pyoda.C15.odt_aware_raises_iff
#print axioms Pyoda.C15.odt_aware_error_is_valueError
#print axioms Pyoda.C15.odt_aware_exact
#print axioms Pyoda.C15.odt_aware_same_instant
#print axioms Pyoda.C15.odt_aware_fixed
#print axioms Pyoda.C15.odt_aware_to_id
#print axioms Pyoda.C15.ldt_any
#print axioms Pyoda.C15.time_any_from_to_id
