import PyodaProofs.C02

#print axioms Pyoda.C02.gregorian_leap_matches
#print axioms Pyoda.C02.gregorian_leap_matches_python
#print axioms Pyoda.C02.gregorian_matches_reference
#print axioms Pyoda.C02.gregorian_monthLength_matches
#print axioms Pyoda.C02.iso_matches_pydatetime
#print axioms Pyoda.C02.dayOfWeek_matches
#print axioms Pyoda.C02.julian_leap_matches
#print axioms Pyoda.C02.julian_matches_reference
#print axioms Pyoda.C02.julian_monthLength_matches
#print axioms Pyoda.C02.coptic_leap_matches
#print axioms Pyoda.C02.coptic_matches_reference
#print axioms Pyoda.C02.coptic_monthLength_matches
#print axioms Pyoda.C02.islPattern_base15
#print axioms Pyoda.C02.islPattern_base16
#print axioms Pyoda.C02.islPattern_indian
#print axioms Pyoda.C02.islPattern_habash
#print axioms Pyoda.C02.islamic_yearStart_matches
#print axioms Pyoda.C02.islamic_leap_matches
#print axioms Pyoda.C02.islamic_matches_reference
#print axioms Pyoda.C02.islamic_epochs
#print axioms Pyoda.C02.islamic_monthLength_matches
