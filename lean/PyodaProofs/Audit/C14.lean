import PyodaProofs.C14

#print axioms Pyoda.C14.read_write_byte
#print axioms Pyoda.C14.read_write_varint
#print axioms Pyoda.C14.read_write_count
#print axioms Pyoda.C14.read_write_signedCount
#print axioms Pyoda.C14.signedCount_form
#print axioms Pyoda.C14.read_write_int64
#print axioms Pyoda.C14.read_write_milliseconds
#print axioms Pyoda.C14.milliseconds_form
#print axioms Pyoda.C14.read_write_offset
#print axioms Pyoda.C14.read_write_string_inline
#print axioms Pyoda.C14.read_write_string_pooled
#print axioms Pyoda.C14.read_write_transition
#print axioms Pyoda.C14.transition_form
#print axioms Pyoda.C14.transition_subtick_truncates
#print axioms Pyoda.C14.write_dom_raises_byte
#print axioms Pyoda.C14.write_dom_raises_count
#print axioms Pyoda.C14.write_dom_raises_milliseconds
#print axioms Pyoda.C14.write_dom_raises_transition
#print axioms Pyoda.C14.pinned_milliseconds_counterexample
#print axioms Pyoda.C14.read_write_yearOffset
#print axioms Pyoda.C14.read_write_alternatingMap
#print axioms Pyoda.C14.read_write_recurrence
#print axioms Pyoda.C14.read_write_precalculatedZone
