import PyodaProofs.C13
import PyodaProofs.C13Conc
import PyodaProofs.GenAgreeC13
import PyodaProofs.GenAgreeC13Z

#print axioms Pyoda.C13.year_key_injective
#print axioms Pyoda.C13.yearCache_transparent
#print axioms Pyoda.C13.hebrewCache_transparent
#print axioms Pyoda.C13.zoneCache_transparent
#print axioms Pyoda.C13.lru_transparent
#print axioms Pyoda.C13.lru_size_le
#print axioms Pyoda.C13.lazy_same_object
#print axioms Pyoda.C13.lazy_known_some
#print axioms Pyoda.C13.yearCache_interleaved
#print axioms Pyoda.C13.lazy_locked_same_object_interleaved
#print axioms Pyoda.C13.lazy_unlocked_counterexample
#print axioms Pyoda.C13.zoneCache_interleaved
#print axioms Pyoda.C13.hebrewCache_interleaved
#print axioms Pyoda.C13.lru_locked_linearizable
#print axioms Pyoda.C13.formatInfo_transparent
#print axioms Pyoda.GenAgree.C13.gen_Cache_getOrAdd_loop1_eq
#print axioms Pyoda.GenAgree.C13.gen_Cache_new_eq
#print axioms Pyoda.GenAgree.C13.gen_Cache_count_eq
#print axioms Pyoda.GenAgree.C13.gen_Cache_clear_eq
#print axioms Pyoda.GenAgree.C13.gen_Cache_getOrAdd_eq
#print axioms Pyoda.GenAgree.C13.gen_Cache_getOrAdd_atomic
#print axioms Pyoda.GenAgree.C13.gen_Cache_count_atomic
#print axioms Pyoda.GenAgree.C13.gen_Cache_clear_atomic
#print axioms Pyoda.GenAgree.C13.gen_Cache_getOrAdd_callbacks
#print axioms Pyoda.GenAgree.C13.cache_ops_atomic_in_source
#print axioms Pyoda.GenAgree.C13Z.gen_Node_interval_eq
#print axioms Pyoda.GenAgree.C13Z.gen_Node_period_eq
#print axioms Pyoda.GenAgree.C13Z.gen_Node_createNode_loop1_eq
#print axioms Pyoda.GenAgree.C13Z.gen_Node_createNode_eq
#print axioms Pyoda.GenAgree.C13Z.gen_Cache_getZoneInterval_loop1_eq
#print axioms Pyoda.GenAgree.C13Z.gen_Cache_getZoneInterval_loop2_eq
#print axioms Pyoda.GenAgree.C13Z.gen_Cache_getZoneInterval_loop3_eq
#print axioms Pyoda.GenAgree.C13Z.gen_Cache_getZoneInterval_eq
#print axioms Pyoda.GenAgree.C13Z.gen_Cache_getZoneInterval_gil_ops
#print axioms Pyoda.GenAgree.C13Z.gen_Node_accessors_frozen
