import PyodaProofs.C13
import PyodaProofs.C13Conc

#print axioms Pyoda.C13.year_key_injective
#print axioms Pyoda.C13.yearCache_transparent
#print axioms Pyoda.C13.hebrewCache_transparent
#print axioms Pyoda.C13.zoneCache_transparent
#print axioms Pyoda.C13.lru_transparent
#print axioms Pyoda.C13.lru_size_le
#print axioms Pyoda.C13.lazy_same_object
#print axioms Pyoda.C13.lazy_known_some
#print axioms Pyoda.C13.yearCache_interleaved
#print axioms Pyoda.C13.lazy_locked_same_object_interleaved
#print axioms Pyoda.C13.lazy_unlocked_counterexample
#print axioms Pyoda.C13.zoneCache_interleaved
#print axioms Pyoda.C13.hebrewCache_interleaved
#print axioms Pyoda.C13.lru_locked_linearizable
#print axioms Pyoda.C13.formatInfo_transparent
