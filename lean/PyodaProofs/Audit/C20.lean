import PyodaProofs.C20

#print axioms Pyoda.C20.loadAndUse_outcome
#print axioms Pyoda.C20.fromStream_outcome
#print axioms Pyoda.C20.forId_outcome
#print axioms Pyoda.C20.short_header_rejected
#print axioms Pyoda.C20.truncation_inside_field
#print axioms Pyoda.C20.readN_consumes
#print axioms Pyoda.C20.readNTicks_linear
#print axioms Pyoda.C20.readFields_fuel_irrelevant
#print axioms Pyoda.C20.element_readers_progress
#print axioms Pyoda.C20.truncation_anywhere
#print axioms Pyoda.C20.loadAndUse_work_bound
#print axioms Pyoda.C20.payloads_fit
#print axioms Pyoda.C20.fromStream_as_written
#print axioms Pyoda.C20.forId_as_written
#print axioms Pyoda.C20.loadAndUseRaw_outcome
