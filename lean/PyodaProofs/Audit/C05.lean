import PyodaProofs.C05
import PyodaProofs.C05Resolvers
import PyodaProofs.C05StartOfDay
import PyodaProofs.C04Spec
import PyodaProofs.C04Zone

#print axioms Pyoda.C05.containsLocal_iff
#print axioms Pyoda.C05.mapLocal_sound
#print axioms Pyoda.C05.mapLocal_complete
#print axioms Pyoda.C05.mapLocal_count_le_two
#print axioms Pyoda.C05.mapLocal_sorted
#print axioms Pyoda.C05.mapLocal_gap
#print axioms Pyoda.C05.instant_roundtrip
#print axioms Pyoda.C05.strict_spec
#print axioms Pyoda.C05.lenient_spec
#print axioms Pyoda.C05.startOfDay_spec_partial
#print axioms Pyoda.C05.toy_spec
#print axioms Pyoda.C04.dataOK_gives_spec
#print axioms Pyoda.C04.zoneOK_gives_spec
#print axioms Pyoda.C05.mapLocal_intervals_valid
#print axioms Pyoda.C05.no_earlier_on_date
#print axioms Pyoda.C05.startOfDay_spec
#print axioms Pyoda.C05.single_first_last_spec
#print axioms Pyoda.C05.first_last_are_results
#print axioms Pyoda.C05.gap_transition_valid
#print axioms Pyoda.C05.resolveLocal_spec
#print axioms Pyoda.C05.strict_lenient_are_combinations
