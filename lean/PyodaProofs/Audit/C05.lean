import PyodaProofs.C05
import PyodaProofs.C05Resolvers
import PyodaProofs.C05StartOfDay
import PyodaProofs.C04Spec
import PyodaProofs.C04Zone
import PyodaProofs.GenAgreeC05

#print axioms Pyoda.C05.containsLocal_iff
#print axioms Pyoda.C05.mapLocal_sound
#print axioms Pyoda.C05.mapLocal_complete
#print axioms Pyoda.C05.mapLocal_count_le_two
#print axioms Pyoda.C05.mapLocal_sorted
#print axioms Pyoda.C05.mapLocal_gap
#print axioms Pyoda.C05.instant_roundtrip
#print axioms Pyoda.C05.strict_spec
#print axioms Pyoda.C05.lenient_spec
#print axioms Pyoda.C05.startOfDay_spec_partial
#print axioms Pyoda.C05.toy_spec
#print axioms Pyoda.C04.dataOK_gives_spec
#print axioms Pyoda.C04.zoneOK_gives_spec
#print axioms Pyoda.C05.mapLocal_intervals_valid
#print axioms Pyoda.C05.no_earlier_on_date
#print axioms Pyoda.C05.startOfDay_spec
#print axioms Pyoda.C05.single_first_last_spec
#print axioms Pyoda.C05.first_last_are_results
#print axioms Pyoda.C05.gap_transition_valid
#print axioms Pyoda.C05.resolveLocal_spec
#print axioms Pyoda.C05.strict_lenient_are_combinations
#print axioms Pyoda.GenAgree.C05.gen_ZoneInterval_rawStart_eq
#print axioms Pyoda.GenAgree.C05.gen_ZoneInterval_rawEnd_eq
#print axioms Pyoda.GenAgree.C05.gen_ZoneInterval_wallOffset_eq
#print axioms Pyoda.GenAgree.C05.gen_ZoneInterval_savings_eq
#print axioms Pyoda.GenAgree.C05.gen_ZoneInterval_hasStart_eq
#print axioms Pyoda.GenAgree.C05.gen_ZoneInterval_hasEnd_eq
#print axioms Pyoda.GenAgree.C05.gen_ZoneInterval_start_eq
#print axioms Pyoda.GenAgree.C05.gen_ZoneInterval_end_eq
#print axioms Pyoda.GenAgree.C05.gen_ZoneInterval_containsInstant_eq
#print axioms Pyoda.GenAgree.C05.gen_ZoneInterval_containsLocal_eq
#print axioms Pyoda.GenAgree.C05.gen_ZoneLocalMapping_earlyInterval_eq
#print axioms Pyoda.GenAgree.C05.gen_ZoneLocalMapping_lateInterval_eq
#print axioms Pyoda.GenAgree.C05.gen_Zone_getEarlierMatchingInterval_eq
#print axioms Pyoda.GenAgree.C05.gen_Zone_getLaterMatchingInterval_eq
#print axioms Pyoda.GenAgree.C05.gen_Zone_getIntervalBeforeGap_eq
#print axioms Pyoda.GenAgree.C05.gen_Zone_getIntervalAfterGap_eq
#print axioms Pyoda.GenAgree.C05.gen_Zone_mapLocal_eq
#print axioms Pyoda.GenAgree.C05.gen_Precalc_loop_rel
#print axioms Pyoda.GenAgree.C05.gen_Precalc_getZoneIntervalNoTail_eq
#print axioms Pyoda.GenAgree.C05.gen_Precalc_getZoneIntervalNoTail_loop1_eq
#print axioms Pyoda.GenAgree.C05.gen_Precalc_getZoneIntervalTail_loop1_eq
#print axioms Pyoda.GenAgree.C05.gen_Precalc_getZoneIntervalTail_eq
#print axioms Pyoda.GenAgree.C05.gen_ZoneLocalMapping_count_eq
#print axioms Pyoda.GenAgree.C05.gen_ZoneLocalMapping_first_eq
#print axioms Pyoda.GenAgree.C05.gen_ZoneLocalMapping_last_eq
#print axioms Pyoda.GenAgree.C05.gen_ZoneLocalMapping_single_eq
#print axioms Pyoda.GenAgree.C05.gen_first_is_model
#print axioms Pyoda.GenAgree.C05.gen_last_is_model
#print axioms Pyoda.GenAgree.C05.gen_single_is_model
