import PyodaProofs.C17
import PyodaProofs.C17Read

#print axioms Pyoda.C17.isoDate_fixed_width
#print axioms Pyoda.C17.isoDate_sign_width_rule
#print axioms Pyoda.C17.isoDate_eq_py
#print axioms Pyoda.C17.isoTime_fixed_width
#print axioms Pyoda.C17.isoDateTime_shape
#print axioms Pyoda.C17.fraction_no_trailing_zero
#print axioms Pyoda.C17.long_form_nine_digits
#print axioms Pyoda.C17.isoTimeGeneral_eq_py
#print axioms Pyoda.C17.isoTime_eq_py_of_micros
#print axioms Pyoda.C17.instant_ends_in_Z
#print axioms Pyoda.C17.offset_shape
#print axioms Pyoda.C17.offset_whole_minutes_eq_py
#print axioms Pyoda.C17.stdlib_reads_isoDate
#print axioms Pyoda.C17.stdlib_reads_isoTime
#print axioms Pyoda.C17.stdlib_reads_isoDateTime
#print axioms Pyoda.C17.stdlib_reads_isoInstant
#print axioms Pyoda.C17.stdlib_reads_offset
