import PyodaProofs.C01
import PyodaProofs.C01Lemmas
import PyodaProofs.C01Instances
import PyodaProofs.C01Islamic
import PyodaProofs.C01Persian
import PyodaProofs.C01PersianSimple
import PyodaProofs.C01PersianArithmetic
import PyodaProofs.C01IsoFast
import PyodaProofs.C01WfCheck
import PyodaProofs.GenAgreeC01

#print axioms Pyoda.C01.getYear_spec
#print axioms Pyoda.C01.days_ymd_days
#print axioms Pyoda.C01.ymd_days_ymd
#print axioms Pyoda.C01.strict_mono
#print axioms Pyoda.C01.cmp_neg_of_days_lt
#print axioms Pyoda.C01.derived_fields
#print axioms Pyoda.C01.era_roundtrip
#print axioms Pyoda.C01.eras_reachable
#print axioms Pyoda.C01.out_of_range_rejected
#print axioms Pyoda.C01.invalid_fields_rejected
#print axioms Pyoda.C01.with_calendar_roundtrip
#print axioms Pyoda.C01.pack_unpack
#print axioms Pyoda.C01.viaPacked_id
#print axioms Pyoda.C01.greg_wf
#print axioms Pyoda.C01.jul_wf
#print axioms Pyoda.C01.copt_wf
#print axioms Pyoda.C01.isl_wf
#print axioms Pyoda.C01.islamic_wf
#print axioms Pyoda.C01.persian_wf
#print axioms Pyoda.C01.persianSimple_wf
#print axioms Pyoda.C01.persianArithmetic_wf
#print axioms Pyoda.C01.wfCheck_sound
#print axioms Pyoda.C01.estOf_mono
#print axioms Pyoda.C01.tdiv_mono
#print axioms Pyoda.C01.gregorian_days_ymd_days
#print axioms Pyoda.C01.gregorian_ymd_days_ymd
#print axioms Pyoda.C01.gregorian_out_of_range_rejected
#print axioms Pyoda.C01.julian_days_ymd_days
#print axioms Pyoda.C01.coptic_days_ymd_days
#print axioms Pyoda.C01.greg_daysOfYmdFast_eq
#print axioms Pyoda.C01.greg_ymdOfDaysFast_eq
#print axioms Pyoda.C01.greg_validate_eq
#print axioms Pyoda.GenAgree.C01.gen_Greg_isGregorianLeapYear_eq
#print axioms Pyoda.GenAgree.C01.gen_Greg_isLeap_eq
#print axioms Pyoda.GenAgree.C01.gen_Greg_len_eq
#print axioms Pyoda.GenAgree.C01.gen_Greg_start_eq
#print axioms Pyoda.GenAgree.C01.gen_Greg_validate_eq
#print axioms Pyoda.GenAgree.C01.gen_Greg_validateYmd_eq
#print axioms Pyoda.GenAgree.C01.gen_GJ_len_eq
#print axioms Pyoda.GenAgree.C01.gen_GJ_dim_eq
#print axioms Pyoda.GenAgree.C01.gen_GJ_toMonth_eq
#print axioms Pyoda.GenAgree.C01.gen_GJ_split_eq
#print axioms Pyoda.GenAgree.C01.gen_Greg_dim_eq
#print axioms Pyoda.GenAgree.C01.gen_Greg_toMonth_eq
#print axioms Pyoda.GenAgree.C01.gen_Greg_split_eq
#print axioms Pyoda.GenAgree.C01.gen_Jul_isLeap_eq
#print axioms Pyoda.GenAgree.C01.gen_Jul_start_eq
#print axioms Pyoda.GenAgree.C01.gen_Jul_len_eq
#print axioms Pyoda.GenAgree.C01.gen_Jul_dim_eq
#print axioms Pyoda.GenAgree.C01.gen_Jul_toMonth_eq
#print axioms Pyoda.GenAgree.C01.gen_Jul_split_eq
#print axioms Pyoda.GenAgree.C01.gen_Copt_isLeap_eq
#print axioms Pyoda.GenAgree.C01.gen_Copt_len_eq
#print axioms Pyoda.GenAgree.C01.gen_Copt_dim_eq
#print axioms Pyoda.GenAgree.C01.gen_Copt_toMonth_eq
#print axioms Pyoda.GenAgree.C01.gen_Copt_split_eq
#print axioms Pyoda.GenAgree.C01.gen_Copt_start_eq
#print axioms Pyoda.GenAgree.C01.gen_Isl_len_eq
#print axioms Pyoda.GenAgree.C01.gen_Isl_len_model
#print axioms Pyoda.GenAgree.C01.gen_Isl_dim_eq
#print axioms Pyoda.GenAgree.C01.gen_Isl_toMonth_eq
#print axioms Pyoda.GenAgree.C01.gen_Isl_split_eq
#print axioms Pyoda.GenAgree.C01.gen_Pers_len_eq
#print axioms Pyoda.GenAgree.C01.gen_Pers_dim_eq
#print axioms Pyoda.GenAgree.C01.gen_Pers_toMonth_eq
#print axioms Pyoda.GenAgree.C01.gen_Pers_split_eq
#print axioms Pyoda.GenAgree.C01.gen_Pers_leapArithmetic_eq
#print axioms Pyoda.GenAgree.C01.gen_Isl_isLeap_eq
#print axioms Pyoda.GenAgree.C01.gen_Pers_leapSimple_eq
#print axioms Pyoda.GenAgree.C01.gen_Isl_start_loop1_eq
#print axioms Pyoda.GenAgree.C01.gen_Isl_start_loop2_eq
#print axioms Pyoda.GenAgree.C01.gen_Isl_start_eq
#print axioms Pyoda.GenAgree.C01.gen_dayOfWeek_eq
#print axioms Pyoda.GenAgree.C01.gen_Calc_minYear_eq
#print axioms Pyoda.GenAgree.C01.gen_Calc_maxYear_eq
#print axioms Pyoda.GenAgree.C01.gen_Calc_daysAtStartOfYear1_eq
#print axioms Pyoda.GenAgree.C01.gen_Calc_getYear_loop1_eq
#print axioms Pyoda.GenAgree.C01.gen_Calc_getYear_loop2_agree
#print axioms Pyoda.GenAgree.C01.gen_Calc_getYear_agree
#print axioms Pyoda.GenAgree.C01.gen_Calc_getYearMonthDay_eq
#print axioms Pyoda.GenAgree.C01.gen_Calc_ymdOfDays_agree
#print axioms Pyoda.GenAgree.C01.gen_Calc_daysOfYmdRaw_eq
#print axioms Pyoda.GenAgree.C01.gen_Calc_validate_eq
#print axioms Pyoda.GenAgree.C01.gen_Calc_dayOfYear_eq
