import PyodaProofs.C11
import PyodaProofs.C11Lemmas

#print axioms Pyoda.C11.local_eq_instant_plus_offset
#print axioms Pyoda.C11.ofInstant_raises_iff
#print axioms Pyoda.C11.toInstant_ofInstant
#print axioms Pyoda.C11.toInstant_eq_local_minus_offset
#print axioms Pyoda.C11.withOffset_same_instant
#print axioms Pyoda.C11.withOffset_raises_iff
#print axioms Pyoda.C11.withCalendar_same_instant_same_day
#print axioms Pyoda.C11.withCalendar_raises_iff
#print axioms Pyoda.C11.with_date_keeps_time_offset
#print axioms Pyoda.C11.with_time_keeps_date_offset
#print axioms Pyoda.C11.plus_duration_exact
#print axioms Pyoda.C11.minus_duration_exact
#print axioms Pyoda.C11.zoned_plus_duration
#print axioms Pyoda.C11.zoned_withZone_same_instant
#print axioms Pyoda.C11.zoned_withCalendar_same_instant
#print axioms Pyoda.C11.zoned_ofLocal_checks_offset
#print axioms Pyoda.C11.sub_is_elapsed
#print axioms Pyoda.C11.zoned_sub_is_elapsed
#print axioms Pyoda.C11.offsetTime_pack_unpack
#print axioms Pyoda.C11.offsetTime_unpack_pack
