import PyodaProofs.C16

#print axioms Pyoda.C16.dayOfWeek_eq
#print axioms Pyoda.C16.weekYearStart_aligned
#print axioms Pyoda.C16.weekYearStart_window
#print axioms Pyoda.C16.weeks_span
#print axioms Pyoda.C16.weekYear_contains
#print axioms Pyoda.C16.weekYear_adjacent
#print axioms Pyoda.C16.week_le_weeksInYear
#print axioms Pyoda.C16.weekDate_roundtrip
#print axioms Pyoda.C16.localDate_roundtrip
#print axioms Pyoda.C16.weeks_advance
#print axioms Pyoda.C16.next_spec
#print axioms Pyoda.C16.previous_spec
#print axioms Pyoda.C16.nextOrSame_spec
#print axioms Pyoda.C16.previousOrSame_spec
#print axioms Pyoda.C16.nthWeekday_spec
#print axioms Pyoda.C16.pyIsoWeek1Monday_eq
#print axioms Pyoda.C16.iso_rule_matches_isocalendar
#print axioms Pyoda.C16.iso_matches_isocalendar_gregorian
