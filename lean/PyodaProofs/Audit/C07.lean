import PyodaProofs.C07
import PyodaProofs.C07b
import PyodaProofs.C07Stepped
import PyodaProofs.C07Reformat
import PyodaProofs.C07Instances
import PyodaProofs.C07DateTime
import PyodaProofs.C07Text
import PyodaProofs.C07TextInstances
import PyodaProofs.C07Duration
import PyodaProofs.C07Segmented
import PyodaProofs.C07SegmentedInstances
import PyodaProofs.C07Calendar
import PyodaProofs.C07Instant
import PyodaProofs.GenAgreeC07N

#print axioms Pyoda.C07.parseDigits_leftPad
#print axioms Pyoda.C07.parseDigits_pad2
#print axioms Pyoda.C07.parseDigits_pad4
#print axioms Pyoda.C07.parseFraction_appendFraction
#print axioms Pyoda.C07.parseFraction_appendFraction_exact
#print axioms Pyoda.C07.parseFraction_appendFractionTruncate
#print axioms Pyoda.C07.appendFractionTruncate_removes_dot
#print axioms Pyoda.C07.iso_time_roundtrip
#print axioms Pyoda.C07.iso_time_long_roundtrip
#print axioms Pyoda.C07.iso_time_general_roundtrip
#print axioms Pyoda.C07.iso_date_roundtrip
#print axioms Pyoda.C07.iso_datetime_roundtrip
#print axioms Pyoda.C07.iso_datetime_general_roundtrip
#print axioms Pyoda.C07.iso_datetime_bcl_roundtrip
#print axioms Pyoda.C07.iso_instant_roundtrip
#print axioms Pyoda.C07.iso_instant_general_roundtrip
#print axioms Pyoda.C07.iso_offset_roundtrip
#print axioms Pyoda.C07.iso_offset_z_roundtrip
#print axioms Pyoda.C07.iso_time_format_injective
#print axioms Pyoda.C07.iso_date_format_injective
#print axioms Pyoda.C07.iso_time_general_reformat
#print axioms Pyoda.C07.iso_time_general_parsed_chars
#print axioms Pyoda.C07.formatNum_eq
#print axioms Pyoda.C07.parseField_numOut
#print axioms Pyoda.C07.truncOut_cases
#print axioms Pyoda.C07.step_roundtrip
#print axioms Pyoda.C07.steps_roundtrip
#print axioms Pyoda.C07.lastSafe_sound
#print axioms Pyoda.C07.follow_sound
#print axioms Pyoda.C07.delimited_stepsOK
#print axioms Pyoda.C07.stepped_roundtrip
#print axioms Pyoda.C07.pattern_roundtrip
#print axioms Pyoda.C07.isoTime_compiles
#print axioms Pyoda.C07.isoTime_delimited
#print axioms Pyoda.C07.isoDate_compiles
#print axioms Pyoda.C07.isoDate_delimited
#print axioms Pyoda.C07.offsetLong_compiles
#print axioms Pyoda.C07.offsetLong_delimited
#print axioms Pyoda.C07.isoTime_generic_roundtrip
#print axioms Pyoda.C07.parseDigits_fixed_inv
#print axioms Pyoda.C07.parseField_fixed_inv
#print axioms Pyoda.C07.parseSteps_frame
#print axioms Pyoda.C07.reformat_idempotent
#print axioms Pyoda.C07.isoDate_generic_roundtrip
#print axioms Pyoda.C07.offsetLong_generic_roundtrip
#print axioms Pyoda.C07.datetime_pattern_roundtrip
#print axioms Pyoda.C07.isoDateTime_compiles
#print axioms Pyoda.C07.isoDateTime_delimited
#print axioms Pyoda.C07.isoDateTime_generic_roundtrip
#print axioms Pyoda.C07.mCI_short
#print axioms Pyoda.C07.mCI_long
#print axioms Pyoda.C07.findLongest_inv
#print axioms Pyoda.C07.parseLongest_formatted
#print axioms Pyoda.C07.monthText_roundtrip
#print axioms Pyoda.C07.dayText_roundtrip
#print axioms Pyoda.C07.amPm_roundtrip
#print axioms Pyoda.C07.eraScan_sound
#print axioms Pyoda.C07.era_roundtrip
#print axioms Pyoda.C07.calendar_roundtrip
#print axioms Pyoda.C07.notCharCI_sound
#print axioms Pyoda.C07.invariant_monthNamesOK
#print axioms Pyoda.C07.invariant_dayNamesOK
#print axioms Pyoda.C07.invariant_amPmOK
#print axioms Pyoda.C07.invariant_eraOK
#print axioms Pyoda.C07.invariant_dangers
#print axioms Pyoda.C07.longDate_compiles
#print axioms Pyoda.C07.longDate_delimited
#print axioms Pyoda.C07.longDate_generic_roundtrip
#print axioms Pyoda.C07.clock_compiles
#print axioms Pyoda.C07.clock_delimited
#print axioms Pyoda.C07.clock_generic_roundtrip
#print axioms Pyoda.C07.annualIso_compiles
#print axioms Pyoda.C07.annualIso_delimited
#print axioms Pyoda.C07.annualIso_generic_roundtrip
#print axioms Pyoda.C07.durRoundtrip_compiles
#print axioms Pyoda.C07.durJson_compiles
#print axioms Pyoda.C07.durRoundtrip_delimited
#print axioms Pyoda.C07.durJson_delimited
#print axioms Pyoda.C07.dur_getters
#print axioms Pyoda.C07.dur_totalHours
#print axioms Pyoda.C07.dur_value
#print axioms Pyoda.C07.durRoundtrip_generic_roundtrip
#print axioms Pyoda.C07.durJson_generic_roundtrip
#print axioms Pyoda.C07.spec_nonDigit
#print axioms Pyoda.C07.spec_notChar
#print axioms Pyoda.C07.spec_notCharCI
#print axioms Pyoda.C07.followF_sound
#print axioms Pyoda.C07.delimitedF_stepsOK
#print axioms Pyoda.C07.lastSafeList_sound
#print axioms Pyoda.C07.segs_roundtrip
#print axioms Pyoda.C07.segFollow_sound
#print axioms Pyoda.C07.delimitedSegs_segsOK
#print axioms Pyoda.C07.segmented_roundtrip
#print axioms Pyoda.C07.embedded_compiles
#print axioms Pyoda.C07.embedded_delimited
#print axioms Pyoda.C07.embedded_generic_roundtrip
#print axioms Pyoda.C07.eraC_roundtrip
#print axioms Pyoda.C07.matchText_diverge
#print axioms Pyoda.C07.parseCalendarId_of_diverge
#print axioms Pyoda.C07.calIdOK_all
#print axioms Pyoda.C07.fullDate_compiles
#print axioms Pyoda.C07.fullDate_delimited
#print axioms Pyoda.C07.calendar_years_four_digits
#print axioms Pyoda.C07.fullDate_generic_roundtrip
#print axioms Pyoda.C07.validDate_of_validate
#print axioms Pyoda.C07.instantFields_spec
#print axioms Pyoda.C07.daysOfDate_spec
#print axioms Pyoda.C07.instant_adapter_roundtrip
#print axioms Pyoda.C07.isoInstant_compiles
#print axioms Pyoda.C07.isoInstant_delimited
#print axioms Pyoda.C07.isoInstantPattern_roundtrip
#print axioms Pyoda.C07.isoInstant_generic_roundtrip
#print axioms Pyoda.GenAgree.C07N.gen_FormatHelper_leftPadNonNegative_eq
#print axioms Pyoda.GenAgree.C07N.gen_FormatHelper_leftPadNonNegative_dom
#print axioms Pyoda.GenAgree.C07N.gen_FormatHelper_format2DigitsNonNegative_eq
#print axioms Pyoda.GenAgree.C07N.gen_FormatHelper_format4DigitsValueFits_eq
#print axioms Pyoda.GenAgree.C07N.gen_FormatHelper_leftPad_eq
#print axioms Pyoda.GenAgree.C07N.gen_FormatHelper_appendFraction_eq
#print axioms Pyoda.GenAgree.C07N.gen_FormatHelper_formatInvariant_eq
#print axioms Pyoda.GenAgree.C07N.gen_FormatHelper_appendFractionTruncate_eq
#print axioms Pyoda.GenAgree.C07N.gen_Cursor_length_eq
#print axioms Pyoda.GenAgree.C07N.gen_Cursor_value_eq
#print axioms Pyoda.GenAgree.C07N.gen_Cursor_index_eq
#print axioms Pyoda.GenAgree.C07N.gen_Cursor_current_eq
#print axioms Pyoda.GenAgree.C07N.gen_Cursor_hasMoreCharacters_eq
#print axioms Pyoda.GenAgree.C07N.gen_Cursor_move_eq
#print axioms Pyoda.GenAgree.C07N.gen_Cursor_moveNext_eq
#print axioms Pyoda.GenAgree.C07N.gen_Cursor_movePrevious_eq
#print axioms Pyoda.GenAgree.C07N.gen_Cursor_parseDigits_eq
#print axioms Pyoda.GenAgree.C07N.gen_Cursor_parseDigits_model
#print axioms Pyoda.GenAgree.C07N.gen_Cursor_parseFraction_eq
#print axioms Pyoda.GenAgree.C07N.gen_Cursor_parseFraction_model
#print axioms Pyoda.GenAgree.C07N.gen_Cursor_matchText_eq
#print axioms Pyoda.GenAgree.C07N.gen_Cursor_matchText_rest
#print axioms Pyoda.GenAgree.C07N.gen_Cursor_getDigit_eq
#print axioms Pyoda.GenAgree.C07N.gen_Cursor_remainder_eq
#print axioms Pyoda.GenAgree.C07N.gen_Cursor_peekNext_eq
#print axioms Pyoda.GenAgree.C07N.gen_StringBuilder_length_eq
#print axioms Pyoda.GenAgree.C07N.gen_StringBuilder_getitem_eq
#print axioms Pyoda.GenAgree.C07N.gen_StringBuilder_toString_eq
