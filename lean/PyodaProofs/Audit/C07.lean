import PyodaProofs.C07
import PyodaProofs.C07b

#print axioms Pyoda.C07.parseDigits_leftPad
#print axioms Pyoda.C07.parseDigits_pad2
#print axioms Pyoda.C07.parseDigits_pad4
#print axioms Pyoda.C07.parseFraction_appendFraction
#print axioms Pyoda.C07.parseFraction_appendFraction_exact
#print axioms Pyoda.C07.parseFraction_appendFractionTruncate
#print axioms Pyoda.C07.appendFractionTruncate_removes_dot
#print axioms Pyoda.C07.iso_time_roundtrip
#print axioms Pyoda.C07.iso_time_long_roundtrip
#print axioms Pyoda.C07.iso_time_general_roundtrip
#print axioms Pyoda.C07.iso_date_roundtrip
#print axioms Pyoda.C07.iso_datetime_roundtrip
#print axioms Pyoda.C07.iso_datetime_general_roundtrip
#print axioms Pyoda.C07.iso_datetime_bcl_roundtrip
#print axioms Pyoda.C07.iso_instant_roundtrip
#print axioms Pyoda.C07.iso_instant_general_roundtrip
#print axioms Pyoda.C07.iso_offset_roundtrip
#print axioms Pyoda.C07.iso_offset_z_roundtrip
#print axioms Pyoda.C07.iso_time_format_injective
#print axioms Pyoda.C07.iso_date_format_injective
#print axioms Pyoda.C07.iso_time_general_reformat
#print axioms Pyoda.C07.iso_time_general_parsed_chars
