import PyodaProofs.C10

#print axioms Pyoda.C10.localTime_inv_factories
#print axioms Pyoda.C10.localTime_inv
#print axioms Pyoda.C10.factories_raise_iff
#print axioms Pyoda.C10.accessors_decompose
#print axioms Pyoda.C10.hour_shift_eq
#print axioms Pyoda.C10.minute_shift_eq
#print axioms Pyoda.C10.addLocalTime_mod
#print axioms Pyoda.C10.plusPeriod_time_mod
#print axioms Pyoda.C10.addWithDays_exact
#print axioms Pyoda.C10.addLocalDateTime_exact
#print axioms Pyoda.C10.addLocalDateTime_raises_iff
#print axioms Pyoda.C10.plusPeriod_exact
#print axioms Pyoda.C10.plusPeriod_order
#print axioms Pyoda.C10.unitsBetween_trunc
#print axioms Pyoda.C10.compare_iff
