import PyodaProofs.C19

#print axioms Pyoda.C19.fakeClock_refines_spec
#print axioms Pyoda.C19.step_preserves_wf
#print axioms Pyoda.C19.all_ops_complete
#print axioms Pyoda.C19.schedule_length_bounded
#print axioms Pyoda.C19.linearizable
#print axioms Pyoda.C19.concurrent_reads_distinct
#print axioms Pyoda.C19.sequential_reads_distinct
#print axioms Pyoda.C19.advanceUnit_blocks_counterexample
#print axioms Pyoda.C19.zonedClock_spec
