import PyodaProofs.C19
import PyodaProofs.GenAgreeC19

#print axioms Pyoda.C19.fakeClock_refines_spec
#print axioms Pyoda.C19.step_preserves_wf
#print axioms Pyoda.C19.all_ops_complete
#print axioms Pyoda.C19.schedule_length_bounded
#print axioms Pyoda.C19.linearizable
#print axioms Pyoda.C19.concurrent_reads_distinct
#print axioms Pyoda.C19.sequential_reads_distinct
#print axioms Pyoda.C19.advanceUnit_blocks_counterexample
#print axioms Pyoda.C19.zonedClock_spec
#print axioms Pyoda.GenAgree.C19.gen_FakeClock_new_eq
#print axioms Pyoda.GenAgree.C19.gen_FakeClock_advance_eq
#print axioms Pyoda.GenAgree.C19.gen_FakeClock_advanceNanoseconds_eq
#print axioms Pyoda.GenAgree.C19.gen_FakeClock_advanceTicks_eq
#print axioms Pyoda.GenAgree.C19.gen_FakeClock_advanceMilliseconds_eq
#print axioms Pyoda.GenAgree.C19.gen_FakeClock_advanceSeconds_eq
#print axioms Pyoda.GenAgree.C19.gen_FakeClock_advanceMinutes_eq
#print axioms Pyoda.GenAgree.C19.gen_FakeClock_advanceHours_eq
#print axioms Pyoda.GenAgree.C19.gen_FakeClock_advanceDays_eq
#print axioms Pyoda.GenAgree.C19.gen_FakeClock_reset_eq
#print axioms Pyoda.GenAgree.C19.gen_FakeClock_getCurrentInstant_eq
#print axioms Pyoda.GenAgree.C19.gen_FakeClock_getAutoAdvance_eq
#print axioms Pyoda.GenAgree.C19.gen_FakeClock_setAutoAdvance_eq
#print axioms Pyoda.GenAgree.C19.gen_ZonedClock_zone_eq
#print axioms Pyoda.GenAgree.C19.gen_ZonedClock_calendar_eq
#print axioms Pyoda.GenAgree.C19.gen_ZonedClock_getCurrentInstant_eq
#print axioms Pyoda.GenAgree.C19.gen_ZonedClock_getCurrentZonedDateTime_eq
#print axioms Pyoda.GenAgree.C19.gen_ZonedClock_getCurrentLocalDateTime_eq
#print axioms Pyoda.GenAgree.C19.gen_ZonedClock_getCurrentOffsetDateTime_eq
#print axioms Pyoda.GenAgree.C19.gen_ZonedClock_getCurrentDate_eq
#print axioms Pyoda.GenAgree.C19.gen_ZonedClock_getCurrentTimeOfDay_eq
