import PyodaProofs.C09
import PyodaProofs.C09Instances
import PyodaProofs.C09Generic
import PyodaProofs.C09Between
import PyodaProofs.C09DateTime
import PyodaProofs.C09Badi
import PyodaProofs.C09Hebrew
import PyodaProofs.C09HebrewMonths
import PyodaProofs.C09All
import PyodaProofs.C09MonthStart
import PyodaProofs.C09Maximal

#print axioms Pyoda.C09.plusDays_exact
#print axioms Pyoda.C09.plusWeeks_exact
#print axioms Pyoda.C09.fastPath_eq_slowPath
#print axioms Pyoda.C09.addMonths_regular_spec
#print axioms Pyoda.C09.addMonths_regular_zero
#print axioms Pyoda.C09.addMonths_hebrew_spec
#print axioms Pyoda.C09.hebrew_month_count
#print axioms Pyoda.C09.addMonths_badi_spec
#print axioms Pyoda.C09.setYear_spec
#print axioms Pyoda.C09.addYears_spec
#print axioms Pyoda.C09.unitsBetween_maximal
#print axioms Pyoda.C09.unitsBetween_maximal_coarse
#print axioms Pyoda.C09.yearsBetween_maximal
#print axioms Pyoda.C09.monthsBetween_maximal
#print axioms Pyoda.C09.betweenDates_spec
#print axioms Pyoda.C09.between_bounded
#print axioms Pyoda.C09.between_hits_end
#print axioms Pyoda.C09.between_one_sign
#print axioms Pyoda.C09.between_units_subset
#print axioms Pyoda.C09.timeComponents_exact
#print axioms Pyoda.C09.betweenTimes_spec
#print axioms Pyoda.C09.normalize_preserves_total
#print axioms Pyoda.C09.toDuration_total
#print axioms Pyoda.C09.yearLen_gregorian
#print axioms Pyoda.C09.yearLen_julian
#print axioms Pyoda.C09.yearLen_coptic
#print axioms Pyoda.C09.regular_gregorian
#print axioms Pyoda.C09.regular_julian
#print axioms Pyoda.C09.regular_coptic
#print axioms Pyoda.C09.yearLen_islamic
#print axioms Pyoda.C09.yearLen_persian
#print axioms Pyoda.C09.yearLen_umAlQura
#print axioms Pyoda.C09.yearLen_badi
#print axioms Pyoda.C09.yearLenCheck_sound
#print axioms Pyoda.C09.regular_islamic_all
#print axioms Pyoda.C09.regular_persianSimple
#print axioms Pyoda.C09.regular_persianArithmetic
#print axioms Pyoda.C09.regular_persianAstronomical
#print axioms Pyoda.C09.regular_umAlQura
#print axioms Pyoda.C09.coarse_law_at
#print axioms Pyoda.C09.yearsField_unit_of_setYear
#print axioms Pyoda.C09.badi_monthsField_law
#print axioms Pyoda.C09.badi_yearsField_law
#print axioms Pyoda.C09.badi_addMonths_valid
#print axioms Pyoda.C09.badi_setYear_valid
#print axioms Pyoda.C09.dateLaws_regular
#print axioms Pyoda.C09.betweenDates_laws
#print axioms Pyoda.C09.betweenYearMonths_laws
#print axioms Pyoda.C09.monthStart_regular
#print axioms Pyoda.C09.adjustedEnd_spec
#print axioms Pyoda.C09.betweenDateTimes_core
#print axioms Pyoda.C09.betweenDateTimes_laws
#print axioms Pyoda.C09.hebSetYear_scr
#print axioms Pyoda.C09.heb_setYear_valid
#print axioms Pyoda.C09.heb_yearsField_law
#print axioms Pyoda.C09.heb_addMonths_spec
#print axioms Pyoda.C09.heb_addMonths_valid
#print axioms Pyoda.C09.heb_probe_spec
#print axioms Pyoda.C09.heb_estimate_close
#print axioms Pyoda.C09.heb_monthsBetween_value
#print axioms Pyoda.C09.heb_months_law_max
#print axioms Pyoda.C09.heb_monthsField_law
#print axioms Pyoda.C09.dateLaws_hebrew
#print axioms Pyoda.C09.dateLaws_badi
#print axioms Pyoda.C09.dateLaws_all
#print axioms Pyoda.C09.between_dates_all
#print axioms Pyoda.C09.plusDays_exact_all
#print axioms Pyoda.C09.plusMonths_valid_all
#print axioms Pyoda.C09.plusYears_valid_all
#print axioms Pyoda.C09.monthStart_badi
#print axioms Pyoda.C09.monthStart_hebrew
#print axioms Pyoda.C09.monthStart_all
#print axioms Pyoda.C09.coarse_max_at
#print axioms Pyoda.C09.yearsBetween_maximal_hebrew
#print axioms Pyoda.C09.yearsBetween_maximal_badi
#print axioms Pyoda.C09.badi_addMonths_key
#print axioms Pyoda.C09.monthsBetween_maximal_badi
