import PyodaProofs.C08

#print axioms Pyoda.C08.parseDigits_total
#print axioms Pyoda.C08.parseFraction_total
#print axioms Pyoda.C08.parseInt64_total
#print axioms Pyoda.C08.parseField_range
#print axioms Pyoda.C08.iso_parse_total
#print axioms Pyoda.C08.iso_date_success_valid
#print axioms Pyoda.C08.iso_time_success_valid
#print axioms Pyoda.C08.iso_datetime_success_valid
#print axioms Pyoda.C08.iso_offset_success_valid
#print axioms Pyoda.C08.guard_needed_offset
#print axioms Pyoda.C08.guard_needed_rollover
#print axioms Pyoda.C08.offset_19_is_failure
#print axioms Pyoda.C08.rollover_at_max_is_failure
#print axioms Pyoda.C08.year_below_minimum_is_failure
#print axioms Pyoda.C08.trailing_nul_is_failure
