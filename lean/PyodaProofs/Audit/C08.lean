import PyodaProofs.C08
import PyodaProofs.C08Create
import PyodaProofs.C08Stepped
import PyodaProofs.C08StepsWF
import PyodaProofs.C08DateTime
import PyodaProofs.C08DateTimeWF

#print axioms Pyoda.C08.parseDigits_total
#print axioms Pyoda.C08.parseFraction_total
#print axioms Pyoda.C08.parseInt64_total
#print axioms Pyoda.C08.parseField_range
#print axioms Pyoda.C08.iso_parse_total
#print axioms Pyoda.C08.iso_date_success_valid
#print axioms Pyoda.C08.iso_time_success_valid
#print axioms Pyoda.C08.iso_datetime_success_valid
#print axioms Pyoda.C08.iso_offset_success_valid
#print axioms Pyoda.C08.guard_needed_offset
#print axioms Pyoda.C08.guard_needed_rollover
#print axioms Pyoda.C08.offset_19_is_failure
#print axioms Pyoda.C08.rollover_at_max_is_failure
#print axioms Pyoda.C08.year_below_minimum_is_failure
#print axioms Pyoda.C08.trailing_nul_is_failure
#print axioms Pyoda.C08.repeatCount_onlyInvalid
#print axioms Pyoda.C08.quotedString_onlyInvalid
#print axioms Pyoda.C08.embeddedPattern_onlyInvalid
#print axioms Pyoda.C08.handleChar_onlyInvalid
#print axioms Pyoda.C08.compileLoop_onlyInvalid
#print axioms Pyoda.C08.compileTime_total
#print axioms Pyoda.C08.compileDate_total
#print axioms Pyoda.C08.compileOffset_total
#print axioms Pyoda.C08.compile_total
#print axioms Pyoda.C08.invariantCulture_offsetTextsCustom
#print axioms Pyoda.C08.parseStep_total
#print axioms Pyoda.C08.parseSteps_total
#print axioms Pyoda.C08.parseCompiled_total
#print axioms Pyoda.C08.parsePat_total
#print axioms Pyoda.C08.compileCustom_modelled
#print axioms Pyoda.C08.time_parse_total
#print axioms Pyoda.C08.offset_parse_total
#print axioms Pyoda.C08.date_parse_total
#print axioms Pyoda.C08.parsePat_offset_valid
#print axioms Pyoda.C08.timeValue_valid
#print axioms Pyoda.C08.parseCompiled_time_valid
#print axioms Pyoda.C08.compileTime_wf
#print axioms Pyoda.C08.time_success_valid
#print axioms Pyoda.C08.offset_success_valid
#print axioms Pyoda.C08.compileDateTime_total
#print axioms Pyoda.C08.invariantCulture_dtTextsNoL
#print axioms Pyoda.C08.dtValue_total
#print axioms Pyoda.C08.datetime_parse_total
#print axioms Pyoda.C08.parseLongest_index
#print axioms Pyoda.C08.parseStep_dt_ok
#print axioms Pyoda.C08.parseSteps_dt_ok
#print axioms Pyoda.C08.dateValueT_valid
#print axioms Pyoda.C08.timeValueT_valid
#print axioms Pyoda.C08.dtValue_valid
#print axioms Pyoda.C08.parseCompiled_date_valid
#print axioms Pyoda.C08.parseCompiled_datetime_valid
#print axioms Pyoda.C08.compileLoop_inv
#print axioms Pyoda.C08.compileDate_wf
#print axioms Pyoda.C08.compileDateTime_wf
#print axioms Pyoda.C08.invariantCulture_monthHeadsEmpty
#print axioms Pyoda.C08.date_success_valid
#print axioms Pyoda.C08.datetime_success_valid
#print axioms Pyoda.C08.compileAnnual_total
#print axioms Pyoda.C08.compileDuration_total
#print axioms Pyoda.C08.durFromNanos_ok
#print axioms Pyoda.C08.durationValue_total
#print axioms Pyoda.C08.annual_parse_total
#print axioms Pyoda.C08.duration_parse_total
#print axioms Pyoda.C08.compileAnnual_wf
#print axioms Pyoda.C08.annualValue_valid
#print axioms Pyoda.C08.annual_success_valid
#print axioms Pyoda.C08.durationValue_valid
#print axioms Pyoda.C08.parseCompiled_duration_valid
#print axioms Pyoda.C08.duration_success_valid
