import PyodaProofs.C06
import PyodaProofs.C06Source
import PyodaProofs.C06Validate
import PyodaProofs.C06Maps

#print axioms Pyoda.C06.ids_sorted
#print axioms Pyoda.C06.ids_perm
#print axioms Pyoda.C06.fixed_id_roundtrip
#print axioms Pyoda.C06.fixed_id_range
#print axioms Pyoda.C06.alias_yields_canonical_data
#print axioms Pyoda.C06.rule_offset_spec
#print axioms Pyoda.C06.fromStreamX_stream
#print axioms Pyoda.C06.versionId_eq
#print axioms Pyoda.C06.sourceValid_sound
#print axioms Pyoda.C06.sourceValid_iff
#print axioms Pyoda.C06.firstFailure_zero_iff
#print axioms Pyoda.C06.mem_primaryMapping
#print axioms Pyoda.C06.sourceValid_eq_strict
#print axioms Pyoda.C06.strict_imp_valid
#print axioms Pyoda.C06.exact_duplicate_accepted
#print axioms Pyoda.C06.windowsToTzdb_canonical
#print axioms Pyoda.C06.tzdbToWindows_entries
#print axioms Pyoda.C06.tzdbToWindows_direct
