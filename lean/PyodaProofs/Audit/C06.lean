import PyodaProofs.C06

#print axioms Pyoda.C06.ids_sorted
#print axioms Pyoda.C06.ids_perm
#print axioms Pyoda.C06.fixed_id_roundtrip
#print axioms Pyoda.C06.fixed_id_range
#print axioms Pyoda.C06.alias_yields_canonical_data
#print axioms Pyoda.C06.rule_offset_spec
