import PyodaProofs.C06
import PyodaProofs.C06Source
import PyodaProofs.C06Validate
import PyodaProofs.C06Maps
import PyodaProofs.GenAgreeC14
import PyodaProofs.GenAgreeC14S
import PyodaProofs.GenAgreeC14V
import PyodaProofs.GenAgreeC14W

#print axioms Pyoda.C06.ids_sorted
#print axioms Pyoda.C06.ids_perm
#print axioms Pyoda.C06.fixed_id_roundtrip
#print axioms Pyoda.C06.fixed_id_range
#print axioms Pyoda.C06.alias_yields_canonical_data
#print axioms Pyoda.C06.rule_offset_spec
#print axioms Pyoda.C06.fromStreamX_stream
#print axioms Pyoda.C06.versionId_eq
#print axioms Pyoda.C06.sourceValid_sound
#print axioms Pyoda.C06.sourceValid_iff
#print axioms Pyoda.C06.firstFailure_zero_iff
#print axioms Pyoda.C06.mem_primaryMapping
#print axioms Pyoda.C06.sourceValid_eq_strict
#print axioms Pyoda.C06.strict_imp_valid
#print axioms Pyoda.C06.exact_duplicate_accepted
#print axioms Pyoda.C06.windowsToTzdb_canonical
#print axioms Pyoda.C06.tzdbToWindows_entries
#print axioms Pyoda.C06.tzdbToWindows_direct
#print axioms Pyoda.GenAgree.C14.gen_Reader_ctor_eq
#print axioms Pyoda.GenAgree.C14.gen_Reader_readByte_eq
#print axioms Pyoda.GenAgree.C14.gen_Reader_hasMoreData_eq
#print axioms Pyoda.GenAgree.C14.gen_Reader_readInt16_eq
#print axioms Pyoda.GenAgree.C14.gen_Reader_readInt32_eq
#print axioms Pyoda.GenAgree.C14.gen_Reader_readInt64_eq
#print axioms Pyoda.GenAgree.C14.gen_Reader_readVarint_loop1_eq
#print axioms Pyoda.GenAgree.C14.gen_Reader_readVarint_eq
#print axioms Pyoda.GenAgree.C14.gen_Reader_readCount_eq
#print axioms Pyoda.GenAgree.C14.gen_Reader_readSignedCount_eq
#print axioms Pyoda.GenAgree.C14.gen_Reader_readMilliseconds_eq
#print axioms Pyoda.GenAgree.C14.gen_Reader_readOffset_eq
#print axioms Pyoda.GenAgree.C14.gen_Reader_readTransitionNone_eq
#print axioms Pyoda.GenAgree.C14.gen_Reader_readTransitionSome_eq
#print axioms Pyoda.GenAgree.C14.gen_Reader_readString_loop1_eq
#print axioms Pyoda.GenAgree.C14.gen_Reader_readString_eq
#print axioms Pyoda.GenAgree.C14.gen_Reader_readDictionary_loop1_eq
#print axioms Pyoda.GenAgree.C14.gen_Reader_readDictionary_eq
#print axioms Pyoda.GenAgree.C14.gen_YearOffset_read_eq
#print axioms Pyoda.GenAgree.C14.gen_Recurrence_read_eq
#print axioms Pyoda.GenAgree.C14.gen_MapZone_ctor_eq
#print axioms Pyoda.GenAgree.C14.gen_MapZone_read_loop1_eq
#print axioms Pyoda.GenAgree.C14.gen_MapZone_read_eq
#print axioms Pyoda.GenAgree.C14.gen_ZoneLocation_read_eq
#print axioms Pyoda.GenAgree.C14.gen_WindowsZones_read_loop1_eq
#print axioms Pyoda.GenAgree.C14.gen_WindowsZones_read_eq
#print axioms Pyoda.GenAgree.C14.gen_Zone1970Location_read_loop1_eq
#print axioms Pyoda.GenAgree.C14.gen_Zone1970Location_read_eq
#print axioms Pyoda.GenAgree.C14.gen_FixedZone_read_eq
#print axioms Pyoda.GenAgree.C14.gen_AltMap_read_eq
#print axioms Pyoda.GenAgree.C14.gen_PrecalcZone_read_loop1_eq
#print axioms Pyoda.GenAgree.C14.gen_PrecalcZone_read_eq
#print axioms Pyoda.GenAgree.C14S.gen_Field_ctor_eq
#print axioms Pyoda.GenAgree.C14S.gen_Field_getId_eq
#print axioms Pyoda.GenAgree.C14S.gen_readFields_step
#print axioms Pyoda.GenAgree.C14S.gen_Field_readFieldsNext_loop1_eq
#print axioms Pyoda.GenAgree.C14S.gen_Field_readFieldsNext_eq
#print axioms Pyoda.GenAgree.C14V.gen_Validate_canonAndPrimary_loop1_eq
#print axioms Pyoda.GenAgree.C14V.gen_Validate_canonAndPrimary_loop2_eq
#print axioms Pyoda.GenAgree.C14V.gen_Validate_canonAndPrimary_eq
#print axioms Pyoda.GenAgree.C14V.gen_Validate_locations_loop1_eq
#print axioms Pyoda.GenAgree.C14V.gen_Validate_locations_eq
#print axioms Pyoda.GenAgree.C14V.gen_Validate_locationsNone_eq
#print axioms Pyoda.GenAgree.C14V.gen_Validate_locations1970_loop1_eq
#print axioms Pyoda.GenAgree.C14V.gen_Validate_locations1970_eq
#print axioms Pyoda.GenAgree.C14V.gen_Validate_locations1970None_eq
#print axioms Pyoda.GenAgree.C14V.gen_Validate_tzdbIds_loop2_eq
#print axioms Pyoda.GenAgree.C14V.gen_Validate_tzdbIds_loop1_eq
#print axioms Pyoda.GenAgree.C14V.gen_Validate_tzdbIds_eq
#print axioms Pyoda.GenAgree.C14W.gen_Writer_ctor_eq
#print axioms Pyoda.GenAgree.C14W.gen_Writer_writeByte_eq
#print axioms Pyoda.GenAgree.C14W.gen_Writer_writeVarint_loop1_eq
#print axioms Pyoda.GenAgree.C14W.gen_Writer_writeVarint_eq
#print axioms Pyoda.GenAgree.C14W.gen_Writer_writeVarint_neg
#print axioms Pyoda.GenAgree.C14W.gen_Writer_writeCount_eq
#print axioms Pyoda.GenAgree.C14W.gen_Writer_writeSignedCount_eq
#print axioms Pyoda.GenAgree.C14W.gen_Writer_writeInt16_eq
#print axioms Pyoda.GenAgree.C14W.gen_Writer_writeInt32_eq
#print axioms Pyoda.GenAgree.C14W.gen_Writer_writeInt64_eq
#print axioms Pyoda.GenAgree.C14W.gen_Writer_writeMilliseconds_eq
#print axioms Pyoda.GenAgree.C14W.gen_Writer_writeOffset_eq
#print axioms Pyoda.GenAgree.C14W.gen_Writer_writeString_eq
#print axioms Pyoda.GenAgree.C14W.gen_checkNotNullDict_eq
#print axioms Pyoda.GenAgree.C14W.gen_Writer_writeDictionary_loop1_eq
#print axioms Pyoda.GenAgree.C14W.gen_Writer_writeDictionary_eq
#print axioms Pyoda.GenAgree.C14W.gen_Writer_writeTransitionNone_eq
#print axioms Pyoda.GenAgree.C14W.gen_Writer_writeTransitionSome_eq
