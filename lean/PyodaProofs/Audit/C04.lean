import PyodaProofs.C04
import PyodaProofs.C04Spec
import PyodaProofs.C04Tail
import PyodaProofs.C04TailRules
import PyodaProofs.C04Seq
import PyodaProofs.C04TailEnd
import PyodaProofs.C04Zone
import PyodaProofs.C04Walk
import PyodaProofs.GenAgreeC05

#print axioms Pyoda.C04.search_spec
#print axioms Pyoda.C04.precalc_get_contains
#print axioms Pyoda.C04.precalc_get_unique
#print axioms Pyoda.C04.precalc_abut
#print axioms Pyoda.C04.periodsWF_sound
#print axioms Pyoda.C04.fixed_partition
#print axioms Pyoda.C04.tail_seam
#print axioms Pyoda.C04.altmap_get_shape
#print axioms Pyoda.C04.precalc_spec
#print axioms Pyoda.C04.agrees
#print axioms Pyoda.C04.dataOK_sound
#print axioms Pyoda.C04.dataOK_gives_spec
#print axioms Pyoda.C04.altmap_get_dst
#print axioms Pyoda.C04.altmap_get_std
#print axioms Pyoda.C04.altmap_partition
#print axioms Pyoda.C04.recSpec_of_rule
#print axioms Pyoda.C04.ruleOK_sound
#print axioms Pyoda.C04.tailOK_sound
#print axioms Pyoda.C04.tail_partition_of_tailOK
#print axioms Pyoda.C04.tail_partition_of_tailOK_stdFirst
#print axioms Pyoda.C04.SeqSpec.partition
#print axioms Pyoda.C04.SeqSpec.index_unique
#print axioms Pyoda.C04.recSpec_of_rule_end
#print axioms Pyoda.C04.getD_last
#print axioms Pyoda.C04.getS_last
#print axioms Pyoda.C04.ruleOKE_sound
#print axioms Pyoda.C04.tailOKE_sound
#print axioms Pyoda.C04.tail_seq
#print axioms Pyoda.C04.tail_partition_end
#print axioms Pyoda.C04.tail_valid
#print axioms Pyoda.C04.tail_walls
#print axioms Pyoda.C04.tailLen_sound
#print axioms Pyoda.C04.SeqSpec.glue
#print axioms Pyoda.C04.stored_seq
#print axioms Pyoda.C04.seam_seq
#print axioms Pyoda.C04.zoneSeq_spec
#print axioms Pyoda.C04.zoneOK_sound
#print axioms Pyoda.C04.zoneOK_gives_spec
#print axioms Pyoda.C04.zoneOK_sound_max
#print axioms Pyoda.C04.maximal_differ
#print axioms Pyoda.C04.walk_partition
#print axioms Pyoda.C04.zoneOK_walk
#print axioms Pyoda.C04.dataOK_zoneSeq
#print axioms Pyoda.C04.dataOK_walk
#print axioms Pyoda.C04.fixed_zoneSeq
#print axioms Pyoda.C04.adjacent_differ
#print axioms Pyoda.C04.adjacent_differ_notail
#print axioms Pyoda.GenAgree.C05.gen_ZoneInterval_rawStart_eq
#print axioms Pyoda.GenAgree.C05.gen_ZoneInterval_rawEnd_eq
#print axioms Pyoda.GenAgree.C05.gen_ZoneInterval_wallOffset_eq
#print axioms Pyoda.GenAgree.C05.gen_ZoneInterval_savings_eq
#print axioms Pyoda.GenAgree.C05.gen_ZoneInterval_hasStart_eq
#print axioms Pyoda.GenAgree.C05.gen_ZoneInterval_hasEnd_eq
#print axioms Pyoda.GenAgree.C05.gen_ZoneInterval_start_eq
#print axioms Pyoda.GenAgree.C05.gen_ZoneInterval_end_eq
#print axioms Pyoda.GenAgree.C05.gen_ZoneInterval_containsInstant_eq
#print axioms Pyoda.GenAgree.C05.gen_ZoneInterval_containsLocal_eq
#print axioms Pyoda.GenAgree.C05.gen_ZoneLocalMapping_earlyInterval_eq
#print axioms Pyoda.GenAgree.C05.gen_ZoneLocalMapping_lateInterval_eq
#print axioms Pyoda.GenAgree.C05.gen_Zone_getEarlierMatchingInterval_eq
#print axioms Pyoda.GenAgree.C05.gen_Zone_getLaterMatchingInterval_eq
#print axioms Pyoda.GenAgree.C05.gen_Zone_getIntervalBeforeGap_eq
#print axioms Pyoda.GenAgree.C05.gen_Zone_getIntervalAfterGap_eq
#print axioms Pyoda.GenAgree.C05.gen_Zone_mapLocal_eq
#print axioms Pyoda.GenAgree.C05.gen_Precalc_loop_rel
#print axioms Pyoda.GenAgree.C05.gen_Precalc_getZoneIntervalNoTail_eq
#print axioms Pyoda.GenAgree.C05.gen_Precalc_getZoneIntervalNoTail_loop1_eq
#print axioms Pyoda.GenAgree.C05.gen_Precalc_getZoneIntervalTail_loop1_eq
#print axioms Pyoda.GenAgree.C05.gen_Precalc_getZoneIntervalTail_eq
#print axioms Pyoda.GenAgree.C05.gen_ZoneLocalMapping_count_eq
#print axioms Pyoda.GenAgree.C05.gen_ZoneLocalMapping_first_eq
#print axioms Pyoda.GenAgree.C05.gen_ZoneLocalMapping_last_eq
#print axioms Pyoda.GenAgree.C05.gen_ZoneLocalMapping_single_eq
#print axioms Pyoda.GenAgree.C05.gen_first_is_model
#print axioms Pyoda.GenAgree.C05.gen_last_is_model
#print axioms Pyoda.GenAgree.C05.gen_single_is_model
