import PyodaProofs.C04
import PyodaProofs.C04Spec
import PyodaProofs.C04Tail
import PyodaProofs.C04TailRules

#print axioms Pyoda.C04.search_spec
#print axioms Pyoda.C04.precalc_get_contains
#print axioms Pyoda.C04.precalc_get_unique
#print axioms Pyoda.C04.precalc_abut
#print axioms Pyoda.C04.periodsWF_sound
#print axioms Pyoda.C04.fixed_partition
#print axioms Pyoda.C04.tail_seam
#print axioms Pyoda.C04.altmap_get_shape
#print axioms Pyoda.C04.precalc_spec
#print axioms Pyoda.C04.agrees
#print axioms Pyoda.C04.dataOK_sound
#print axioms Pyoda.C04.dataOK_gives_spec
#print axioms Pyoda.C04.altmap_get_dst
#print axioms Pyoda.C04.altmap_get_std
#print axioms Pyoda.C04.altmap_partition
#print axioms Pyoda.C04.recSpec_of_rule
#print axioms Pyoda.C04.ruleOK_sound
#print axioms Pyoda.C04.tailOK_sound
#print axioms Pyoda.C04.tail_partition_of_tailOK
#print axioms Pyoda.C04.tail_partition_of_tailOK_stdFirst
