import PyodaProofs.C04
import PyodaProofs.C04Spec

#print axioms Pyoda.C04.search_spec
#print axioms Pyoda.C04.precalc_get_contains
#print axioms Pyoda.C04.precalc_get_unique
#print axioms Pyoda.C04.precalc_abut
#print axioms Pyoda.C04.periodsWF_sound
#print axioms Pyoda.C04.fixed_partition
#print axioms Pyoda.C04.tail_seam
#print axioms Pyoda.C04.altmap_get_shape
#print axioms Pyoda.C04.precalc_spec
#print axioms Pyoda.C04.agrees
#print axioms Pyoda.C04.dataOK_sound
#print axioms Pyoda.C04.dataOK_gives_spec
