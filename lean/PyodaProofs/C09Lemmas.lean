/- Helper lemmas for property C09 (no property statements here). -/
import PyodaModel.DateArith
import PyodaProofs.Basic
import PyodaProofs.C01

namespace Pyoda.C09
open Pyoda Pyoda.Calendar Pyoda.DateArith Pyoda.C01

/-- one step of `__time_components_between` -/
theorem stepTime_spec (on : Bool) (t u : Int) (hu : 0 < u) :
    (stepTime on t u).1 * u + (stepTime on t u).2 = t ∧
    (0 ≤ t → 0 ≤ (stepTime on t u).1 ∧ 0 ≤ (stepTime on t u).2 ∧ (stepTime on t u).2 ≤ t) ∧
    (t ≤ 0 → (stepTime on t u).1 ≤ 0 ∧ (stepTime on t u).2 ≤ 0 ∧ t ≤ (stepTime on t u).2) ∧
    (on = true → -u < (stepTime on t u).2 ∧ (stepTime on t u).2 < u ∧ (stepTime on t u).2 = t - (Int.tdiv t u) * u) ∧
    (on = false → (stepTime on t u).1 = 0 ∧ (stepTime on t u).2 = t) := by
  cases on
  · simp [stepTime]
  · simp only [stepTime, Bool.not_true, Bool.false_eq_true, if_false]
    have h1 := Int.mul_tdiv_add_tmod t u
    have h2 : 0 ≤ t → 0 ≤ Int.tmod t u := fun h => Int.tmod_nonneg u h
    have h3 : Int.tmod t u < u := Int.tmod_lt_of_pos t hu
    have h4 : t ≤ 0 → Int.tmod t u ≤ 0 := by
      intro h
      have := Int.tmod_nonneg u (show 0 ≤ -t by omega)
      rw [Int.neg_tmod] at this; omega
    have h5 : -u < Int.tmod t u := by
      have := Int.tmod_lt_of_pos (-t) hu
      rw [Int.neg_tmod] at this; omega
    have h6 : 0 ≤ t → 0 ≤ Int.tdiv t u := fun h => Int.tdiv_nonneg h (Int.le_of_lt hu)
    have h7 : t ≤ 0 → Int.tdiv t u ≤ 0 := by
      intro h
      have := Int.tdiv_nonneg (show 0 ≤ -t by omega) (Int.le_of_lt hu)
      rw [Int.neg_tdiv] at this; omega
    have h8 : u * Int.tdiv t u = Int.tdiv t u * u := Int.mul_comm _ _
    rw [h8] at h1
    have h9 : 0 ≤ t → 0 ≤ Int.tdiv t u * u := fun h => Int.mul_nonneg (h6 h) (Int.le_of_lt hu)
    have h10 : t ≤ 0 → Int.tdiv t u * u ≤ 0 := by
      intro h
      have := Int.mul_nonneg (show 0 ≤ -Int.tdiv t u by have := h7 h; omega) (Int.le_of_lt hu)
      rw [Int.neg_mul] at this; omega
    refine ⟨by omega, ?_, ?_, ?_, ?_⟩
    · intro h; have := h2 h; have := h6 h; have := h9 h; omega
    · intro h; have := h4 h; have := h7 h; have := h10 h; omega
    · intro _; exact ⟨by omega, by omega, trivial⟩
    · intro h; cases h

theorem csharpMod_nonneg (a b : Int) (ha : 0 ≤ a) (hb : 0 < b) : csharpMod a b = a % b := by
  rw [csharpMod_pos a b hb, if_neg (by omega)]

theorem neg_emod_of_ne (x b : Int) (hb : 0 < b) (h0 : x % b ≠ 0) : (-x) % b = b - x % b := by
  have h1 := Int.emod_nonneg x (show b ≠ 0 by omega)
  have h2 := Int.emod_lt_of_pos x hb
  have e : -x = (b - x % b) + b * (-(x / b) - 1) := by
    have := Int.emod_add_mul_ediv x b
    rw [Int.mul_sub, Int.mul_neg]; omega
  rw [e, Int.add_mul_emod_self_left, Int.emod_eq_of_lt (by omega) (by omega)]

theorem neg_emod_of_eq (x b : Int) (h0 : x % b = 0) : (-x) % b = 0 := by
  have e : -x = 0 + b * (-(x / b)) := by
    have := Int.emod_add_mul_ediv x b
    rw [Int.mul_neg]; omega
  rw [e, Int.add_mul_emod_self_left]; rfl

theorem csharpMod_neg (x b : Int) (hx : 0 ≤ x) (hb : 0 < b) : csharpMod (-x) b = -(x % b) := by
  rw [csharpMod_pos (-x) b hb]
  by_cases h0 : x % b = 0
  · rw [neg_emod_of_eq x b h0, if_neg (by omega)]; omega
  · have h1 := Int.emod_nonneg x (show b ≠ 0 by omega)
    have h2 := Int.emod_lt_of_pos x hb
    have h3 : x ≠ 0 := by intro h; subst h; simp at h0
    rw [neg_emod_of_ne x b hb h0, if_pos (by omega)]; omega

theorem tdiv_nonneg_eq (t k : Int) (h : 0 ≤ t) : Int.tdiv t k = t / k := Int.tdiv_eq_ediv_of_nonneg h

theorem tdiv_neg_eq (s k : Int) (h : 0 ≤ s) : Int.tdiv (-s) k = -(s / k) := by
  rw [Int.neg_tdiv, Int.tdiv_eq_ediv_of_nonneg h]

theorem normal_sum (s : Int) :
    s % 1000000 + (s / 1000000 % 1000) * 1000000 + (s / 1000000000 % 60) * 1000000000 + (s / 60000000000 % 60) * 60000000000
      + (s / 3600000000000 % 24) * 3600000000000 + (s / 86400000000000) * 86400000000000 = s := by
  omega

end Pyoda.C09
