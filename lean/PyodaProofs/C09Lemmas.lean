/- Helper lemmas for property C09 (no property statements here). -/
import PyodaModel.DateArith
import PyodaProofs.Basic
import PyodaProofs.C01

namespace Pyoda.C09
open Pyoda Pyoda.Calendar Pyoda.DateArith Pyoda.C01

/-- one step of `__time_components_between` -/
theorem stepTime_spec (on : Bool) (t u : Int) (hu : 0 < u) :
    (stepTime on t u).1 * u + (stepTime on t u).2 = t ∧
    (0 ≤ t → 0 ≤ (stepTime on t u).1 ∧ 0 ≤ (stepTime on t u).2 ∧ (stepTime on t u).2 ≤ t) ∧
    (t ≤ 0 → (stepTime on t u).1 ≤ 0 ∧ (stepTime on t u).2 ≤ 0 ∧ t ≤ (stepTime on t u).2) ∧
    (on = true → -u < (stepTime on t u).2 ∧ (stepTime on t u).2 < u ∧ (stepTime on t u).2 = t - (Int.tdiv t u) * u) ∧
    (on = false → (stepTime on t u).1 = 0 ∧ (stepTime on t u).2 = t) := by
  cases on
  · simp [stepTime]
  · simp only [stepTime, Bool.not_true, Bool.false_eq_true, if_false]
    have h1 := Int.mul_tdiv_add_tmod t u
    have h2 : 0 ≤ t → 0 ≤ Int.tmod t u := fun h => Int.tmod_nonneg u h
    have h3 : Int.tmod t u < u := Int.tmod_lt_of_pos t hu
    have h4 : t ≤ 0 → Int.tmod t u ≤ 0 := by
      intro h
      have := Int.tmod_nonneg u (show 0 ≤ -t by omega)
      rw [Int.neg_tmod] at this; omega
    have h5 : -u < Int.tmod t u := by
      have := Int.tmod_lt_of_pos (-t) hu
      rw [Int.neg_tmod] at this; omega
    have h6 : 0 ≤ t → 0 ≤ Int.tdiv t u := fun h => Int.tdiv_nonneg h (Int.le_of_lt hu)
    have h7 : t ≤ 0 → Int.tdiv t u ≤ 0 := by
      intro h
      have := Int.tdiv_nonneg (show 0 ≤ -t by omega) (Int.le_of_lt hu)
      rw [Int.neg_tdiv] at this; omega
    have h8 : u * Int.tdiv t u = Int.tdiv t u * u := Int.mul_comm _ _
    rw [h8] at h1
    have h9 : 0 ≤ t → 0 ≤ Int.tdiv t u * u := fun h => Int.mul_nonneg (h6 h) (Int.le_of_lt hu)
    have h10 : t ≤ 0 → Int.tdiv t u * u ≤ 0 := by
      intro h
      have := Int.mul_nonneg (show 0 ≤ -Int.tdiv t u by have := h7 h; omega) (Int.le_of_lt hu)
      rw [Int.neg_mul] at this; omega
    refine ⟨by omega, ?_, ?_, ?_, ?_⟩
    · intro h; have := h2 h; have := h6 h; have := h9 h; omega
    · intro h; have := h4 h; have := h7 h; have := h10 h; omega
    · intro _; exact ⟨by omega, by omega, trivial⟩
    · intro h; cases h

theorem csharpMod_nonneg (a b : Int) (ha : 0 ≤ a) (hb : 0 < b) : csharpMod a b = a % b := by
  rw [csharpMod_pos a b hb, if_neg (by omega)]

theorem neg_emod_of_ne (x b : Int) (hb : 0 < b) (h0 : x % b ≠ 0) : (-x) % b = b - x % b := by
  have h1 := Int.emod_nonneg x (show b ≠ 0 by omega)
  have h2 := Int.emod_lt_of_pos x hb
  have e : -x = (b - x % b) + b * (-(x / b) - 1) := by
    have := Int.emod_add_mul_ediv x b
    rw [Int.mul_sub, Int.mul_neg]; omega
  rw [e, Int.add_mul_emod_self_left, Int.emod_eq_of_lt (by omega) (by omega)]

theorem neg_emod_of_eq (x b : Int) (h0 : x % b = 0) : (-x) % b = 0 := by
  have e : -x = 0 + b * (-(x / b)) := by
    have := Int.emod_add_mul_ediv x b
    rw [Int.mul_neg]; omega
  rw [e, Int.add_mul_emod_self_left]; rfl

theorem csharpMod_neg (x b : Int) (hx : 0 ≤ x) (hb : 0 < b) : csharpMod (-x) b = -(x % b) := by
  rw [csharpMod_pos (-x) b hb]
  by_cases h0 : x % b = 0
  · rw [neg_emod_of_eq x b h0, if_neg (by omega)]; omega
  · have h1 := Int.emod_nonneg x (show b ≠ 0 by omega)
    have h2 := Int.emod_lt_of_pos x hb
    have h3 : x ≠ 0 := by intro h; subst h; simp at h0
    rw [neg_emod_of_ne x b hb h0, if_pos (by omega)]; omega

theorem tdiv_nonneg_eq (t k : Int) (h : 0 ≤ t) : Int.tdiv t k = t / k := Int.tdiv_eq_ediv_of_nonneg h

theorem tdiv_neg_eq (s k : Int) (h : 0 ≤ s) : Int.tdiv (-s) k = -(s / k) := by
  rw [Int.neg_tdiv, Int.tdiv_eq_ediv_of_nonneg h]

theorem normal_sum (s : Int) :
    s % 1000000 + (s / 1000000 % 1000) * 1000000 + (s / 1000000000 % 60) * 1000000000 + (s / 60000000000 % 60) * 60000000000
      + (s / 3600000000000 % 24) * 3600000000000 + (s / 86400000000000) * 86400000000000 = s := by
  omega

/-! ## day numbers of valid dates -/

variable {c : Calc}

/-- the day number `LocalDate._days_since_epoch` of a (year, month, day) triple -/
def dayNo (c : Calc) (p : Ymd) : Int := c.start p.1 + c.toMonth p.1 p.2.1 + p.2.2 - 1

/-- the triple is a date the calendar accepts -/
def Valid (c : Calc) (p : Ymd) : Prop := validate c p.1 p.2.1 p.2.2 = .ok ()

/-- first and last day number of the calendar -/
def loDay (c : Calc) : Int := c.start c.minYear
def hiDay (c : Calc) : Int := c.start (c.maxYear + 1) - 1

/-- every year of the calendar has at least 299 days (needed by the ±1-year fast path of day addition) -/
def YearLen (c : Calc) : Prop := ∀ y, c.minYear ≤ y → y ≤ c.maxYear → 299 ≤ c.len y

theorem daysOf_valid (h : WF c) (p : Ymd) (hv : Valid c p) : daysOf c p = .ok (dayNo c p) := by
  obtain ⟨hy, hy2, _⟩ := validate_inv hv
  unfold daysOf dayNo
  exact daysOfYmdRaw_eq h hy hy2

theorem valid_range (h : WF c) (p : Ymd) (hv : Valid c p) : loDay c ≤ dayNo c p ∧ dayNo c p ≤ hiDay c ∧
    c.start p.1 ≤ dayNo c p ∧ dayNo c p < c.start (p.1 + 1) := by
  obtain ⟨hy, hy2, hm, hm2, hd, hd2⟩ := validate_inv hv
  obtain ⟨u1, u2, _⟩ := h.unsplit_ok p.1 p.2.1 p.2.2 hy hy2 hm hm2 hd hd2
  have hr := h.recur p.1 hy hy2
  have hs1 := start_mono h (y := c.minYear) (z := p.1) (by omega) hy (by omega)
  have hs2 := start_mono h (y := p.1 + 1) (z := c.maxYear + 1) (by omega) (by omega) (by omega)
  unfold dayNo loDay hiDay
  omega

theorem fromDays_valid (h : WF c) (p : Ymd) (hv : Valid c p) : fromDays c (dayNo c p) = .ok p := by
  obtain ⟨d, h1, _, _, h4⟩ := ymd_days_ymd h p.1 p.2.1 p.2.2 hv
  obtain ⟨hy, hy2, _⟩ := validate_inv hv
  unfold daysOfYmd at h1
  rw [hv] at h1
  have h1' : daysOfYmdRaw c p.1 p.2.1 p.2.2 = .ok d := h1
  rw [daysOfYmdRaw_eq h hy hy2] at h1'
  have e : dayNo c p = d := by
    unfold dayNo
    exact Except.ok.inj h1'
  rw [e, h4]

/-- valid dates with the same day number are the same date -/
theorem valid_inj (h : WF c) (p q : Ymd) (hp : Valid c p) (hq : Valid c q) (e : dayNo c p = dayNo c q) : p = q := by
  have h1 := fromDays_valid h p hp
  have h2 := fromDays_valid h q hq
  rw [e, h2] at h1
  exact (Except.ok.inj h1).symm

/-- `_get_year_month_day(year, day_of_year)` for a day of year inside the year -/
theorem ofYearDay_spec (h : WF c) (y doy : Int) (hy : c.minYear ≤ y) (hy2 : y ≤ c.maxYear) (h1 : 1 ≤ doy)
    (h2 : doy ≤ c.len y) :
    ∃ q, ofYearDay c y doy = .ok q ∧ Valid c q ∧ dayNo c q = c.start y + doy - 1 ∧
      fromDays c (c.start y + doy - 1) = .ok q := by
  obtain ⟨s1, s2, s3, s4, s5⟩ := h.split_ok y doy hy hy2 h1 h2
  have hr := h.recur y hy hy2
  refine ⟨(y, (c.split y doy).1, (c.split y doy).2), ?_, ?_, ?_, ?_⟩
  · unfold ofYearDay; rw [splitR_ok h hy hy2 h1 h2]
  · exact validate_ok h hy hy2 s1 s2 s3 s4
  · unfold dayNo; dsimp only; omega
  · have := fromDays_in_year h (c.start y + doy - 1) y hy hy2 (by omega) (by omega)
    have e : c.start y + doy - 1 - c.start y + 1 = doy := by omega
    rw [e] at this; exact this

/-- the result of a successful day-number lookup -/
theorem fromDays_spec (h : WF c) (d : Int) (hlo : loDay c ≤ d) (hhi : d ≤ hiDay c) :
    ∃ q, fromDays c d = .ok q ∧ Valid c q ∧ dayNo c q = d := by
  obtain ⟨y, m, dd, h1, h2, h3⟩ := days_ymd_days h d hlo hhi
  refine ⟨(y, m, dd), h1, h2, ?_⟩
  obtain ⟨hy, hy2, _⟩ := validate_inv h2
  unfold daysOfYmd at h3
  rw [h2] at h3
  have h3' : daysOfYmdRaw c y m dd = .ok d := h3
  rw [daysOfYmdRaw_eq h hy hy2] at h3'
  unfold dayNo
  exact Except.ok.inj h3'

/-! ## `_FixedLengthDatePeriodField.add` -/

/-- what it means for a date operation to be exact on the day-number line: inside the calendar the result is the
    (valid) date with day number `target`, the same one the day-number constructor yields; outside it raises -/
def ExactAt (c : Calc) (r : R Ymd) (target : Int) : Prop :=
  (loDay c ≤ target ∧ target ≤ hiDay c → ∃ q, r = .ok q ∧ Valid c q ∧ dayNo c q = target ∧ fromDays c target = .ok q) ∧
  (¬ (loDay c ≤ target ∧ target ≤ hiDay c) → ∃ e, r = .error e)

theorem slowPath_exact (h : WF c) (p : Ymd) (hv : Valid c p) (k : Int) :
    ExactAt c (slowPath c p k) (dayNo c p + k) := by
  unfold slowPath
  rw [daysOf_valid h p hv]
  dsimp only
  constructor
  · intro hr
    obtain ⟨q, h1, h2, h3⟩ := fromDays_spec h _ hr.1 hr.2
    exact ⟨q, h1, h2, h3, h1⟩
  · intro hr
    refine ⟨.valueError, out_of_range_rejected h _ ?_⟩
    unfold loDay hiDay at hr; omega

theorem fastPath_exact (h : WF c) (hl : YearLen c) (p : Ymd) (hv : Valid c p) (k : Int) (hk : -300 < k ∧ k < 300) :
    ExactAt c (fastPath c p k) (dayNo c p + k) := by
  obtain ⟨y, m, d⟩ := p
  obtain ⟨hy, hy2, hm, hm2, hd, hd2⟩ := validate_inv hv
  obtain ⟨u1, u2, _⟩ := h.unsplit_ok y m d hy hy2 hm hm2 hd hd2
  have hr := h.recur y hy hy2
  have hyo := h.year_order
  have hlo := start_mono h (y := c.minYear) (z := y) (by omega) hy (by omega)
  have hhi := start_mono h (y := y + 1) (z := c.maxYear + 1) (by omega) (by omega) (by omega)
  unfold fastPath
  dsimp only at *
  by_cases hA : 1 ≤ d + k ∧ d + k ≤ c.dim y m
  · -- same month
    rw [if_pos hA]
    have hv' : Valid c (y, m, d + k) := validate_ok h hy hy2 hm hm2 hA.1 hA.2
    have hrng := valid_range h _ hv'
    have e : dayNo c (y, m, d + k) = dayNo c (y, m, d) + k := by unfold dayNo; dsimp only; omega
    constructor
    · intro _
      refine ⟨_, rfl, hv', e, ?_⟩
      rw [← e]; exact fromDays_valid h _ hv'
    · intro hn; rw [← e] at hn; omega
  · rw [if_neg hA]
    have e0 : dayNo c (y, m, d) + k = c.start y + (c.toMonth y m + d + k) - 1 := by unfold dayNo; dsimp only; omega
    by_cases hB : c.toMonth y m + d + k < 1
    · rw [if_pos hB]
      by_cases hmin : y - 1 < c.minYear
      · -- before the first year
        have hy0 : y = c.minYear := by omega
        constructor
        · intro hr'; exfalso; unfold loDay at hr'; subst hy0; omega
        · intro _
          cases hlen : c.lenR (y - 1) with
          | error e => exact ⟨e, rfl⟩
          | ok l => dsimp only; rw [if_pos hmin]; exact ⟨_, rfl⟩
      · rw [lenR_ok h (by omega) (by omega)]
        dsimp only
        rw [if_neg hmin]
        have hr1 := h.recur (y - 1) (by omega) (by omega)
        have hl1 := hl (y - 1) (by omega) (by omega)
        have e1 : y - 1 + 1 = y := by omega
        rw [e1] at hr1
        obtain ⟨q, q1, q2, q3, q4⟩ := ofYearDay_spec h (y - 1) (c.toMonth y m + d + k + c.len (y - 1)) (by omega) (by omega)
          (by omega) (by omega)
        have e2 : c.start (y - 1) + (c.toMonth y m + d + k + c.len (y - 1)) - 1 = dayNo c (y, m, d) + k := by omega
        rw [e2] at q3 q4
        have hlo1 := start_mono h (y := c.minYear) (z := y - 1) (by omega) (by omega) (by omega)
        constructor
        · intro _; exact ⟨q, q1, q2, q3, q4⟩
        · intro hn; exfalso; unfold loDay hiDay at hn; omega
    · rw [if_neg hB]
      rw [lenR_ok h hy (by omega)]
      dsimp only
      by_cases hC : c.toMonth y m + d + k > c.len y
      · rw [if_pos hC]
        by_cases hmax : y + 1 > c.maxYear
        · rw [if_pos hmax]
          have hy0 : y = c.maxYear := by omega
          constructor
          · intro hr'; exfalso; unfold hiDay at hr'; subst hy0; omega
          · intro _; exact ⟨_, rfl⟩
        · rw [if_neg hmax]
          have hr1 := h.recur (y + 1) (by omega) (by omega)
          have hl1 := hl (y + 1) (by omega) (by omega)
          obtain ⟨q, q1, q2, q3, q4⟩ := ofYearDay_spec h (y + 1) (c.toMonth y m + d + k - c.len y) (by omega) (by omega)
            (by omega) (by omega)
          have e2 : c.start (y + 1) + (c.toMonth y m + d + k - c.len y) - 1 = dayNo c (y, m, d) + k := by omega
          rw [e2] at q3 q4
          have hhi1 := start_mono h (y := y + 1 + 1) (z := c.maxYear + 1) (by omega) (by omega) (by omega)
          constructor
          · intro _; exact ⟨q, q1, q2, q3, q4⟩
          · intro hn; exfalso; unfold loDay hiDay at hn; omega
      · rw [if_neg hC]
        obtain ⟨q, q1, q2, q3, q4⟩ := ofYearDay_spec h y (c.toMonth y m + d + k) hy hy2 (by omega) (by omega)
        rw [← e0] at q3 q4
        constructor
        · intro _; exact ⟨q, q1, q2, q3, q4⟩
        · intro hn; exfalso; unfold loDay hiDay at hn; omega

theorem addFixed_exact (h : WF c) (hl : YearLen c) (u : Int) (p : Ymd) (hv : Valid c p) (n : Int) :
    ExactAt c (addFixed c u p n) (dayNo c p + n * u) := by
  unfold addFixed
  by_cases h0 : n = 0
  · rw [if_pos h0]
    subst h0
    have hr := valid_range h p hv
    have e : dayNo c p + 0 * u = dayNo c p := by omega
    rw [e]
    constructor
    · intro _; exact ⟨p, rfl, hv, rfl, fromDays_valid h p hv⟩
    · intro hn; omega
  · rw [if_neg h0]
    by_cases hf : -300 < n * u ∧ n * u < 300
    · rw [if_pos hf]; exact fastPath_exact h hl p hv _ hf
    · rw [if_neg hf]; exact slowPath_exact h p hv _

/-! ## ordering of valid dates -/

theorem cmp_lt_of_dayNo_lt (h : WF c) (a b : Ymd) (ha : Valid c a) (hb : Valid c b) (hlt : dayNo c a < dayNo c b) :
    cmpYmd c a b < 0 := by
  have ra := valid_range h a ha
  have rb := valid_range h b hb
  exact cmp_neg_of_days_lt h (dayNo c a) (dayNo c b) ra.1 hlt rb.2.1 a b (fromDays_valid h a ha) (fromDays_valid h b hb)

theorem cmp_self (a : Ymd) : cmpYmd c a a = 0 := by
  unfold cmpYmd
  cases c.ownCompare <;> simp

theorem cmp_antisymm (a b : Ymd) : cmpYmd c a b < 0 → cmpYmd c b a > 0 := by
  unfold cmpYmd
  cases c.ownCompare
  · simp only [Bool.false_eq_true, if_false]; omega
  · simp only [if_true]
    intro hlt
    by_cases hy : a.1 - b.1 ≠ 0
    · rw [if_pos hy] at hlt; rw [if_pos (by omega)]; omega
    · rw [if_neg hy] at hlt; rw [if_neg (by omega)]
      have hyy : a.1 = b.1 := by omega
      rw [hyy] at hlt ⊢
      by_cases hm : c.monthKey b.1 a.2.1 - c.monthKey b.1 b.2.1 ≠ 0
      · rw [if_pos hm] at hlt; rw [if_pos (by omega)]; omega
      · rw [if_neg hm] at hlt; rw [if_neg (by omega)]; omega

/-- the calendar's comparison of two valid dates has the sign of the difference of their day numbers -/
theorem cmp_sign (h : WF c) (a b : Ymd) (ha : Valid c a) (hb : Valid c b) :
    (cmpYmd c a b < 0 ↔ dayNo c a < dayNo c b) ∧ (cmpYmd c a b = 0 ↔ dayNo c a = dayNo c b) ∧
    (cmpYmd c a b > 0 ↔ dayNo c a > dayNo c b) := by
  have t1 : dayNo c a < dayNo c b → cmpYmd c a b < 0 := cmp_lt_of_dayNo_lt h a b ha hb
  have t2 : dayNo c a > dayNo c b → cmpYmd c a b > 0 := fun hgt => cmp_antisymm b a (cmp_lt_of_dayNo_lt h b a hb ha hgt)
  have t3 : dayNo c a = dayNo c b → cmpYmd c a b = 0 := by
    intro e; rw [valid_inj h a b ha hb e]; exact cmp_self b
  refine ⟨⟨fun hc => ?_, t1⟩, ⟨fun hc => ?_, t3⟩, ⟨fun hc => ?_, t2⟩⟩
  · by_cases h1 : dayNo c a < dayNo c b
    · exact h1
    · by_cases h2 : dayNo c a = dayNo c b
      · have := t3 h2; omega
      · have := t2 (by omega); omega
  · by_cases h1 : dayNo c a < dayNo c b
    · have := t1 h1; omega
    · by_cases h2 : dayNo c a = dayNo c b
      · exact h2
      · have := t2 (by omega); omega
  · by_cases h1 : dayNo c a < dayNo c b
    · have := t1 h1; omega
    · by_cases h2 : dayNo c a = dayNo c b
      · have := t3 h2; omega
      · omega

/-! ## the law every date unit has to satisfy for `Period.between`, and its consequences -/

/-- one unit of `__date_components_between`: the count `between s e` can be added to `s`, the result is a valid
    date between `s` and `e` (inclusive), and the count has the sign of the direction of travel -/
structure FieldLaw (c : Calc) (f : Field) : Prop where
  add_zero : ∀ s, f.add s 0 = .ok s
  law : ∀ s e, Valid c s → Valid c e → ∃ n r, f.between s e = .ok n ∧ f.add s n = .ok r ∧ Valid c r ∧
      (dayNo c s ≤ dayNo c e → 0 ≤ n ∧ dayNo c s ≤ dayNo c r ∧ dayNo c r ≤ dayNo c e) ∧
      (dayNo c e ≤ dayNo c s → n ≤ 0 ∧ dayNo c e ≤ dayNo c r ∧ dayNo c r ≤ dayNo c s)

/-- a unit that always reaches the end (days) -/
def FieldExact (c : Calc) (f : Field) : Prop :=
  ∀ s e, Valid c s → Valid c e → ∃ n, f.between s e = .ok n ∧ f.add s n = .ok e

/-- `LocalDate + Period(years, months, weeks, days)` -/
def plusParts (fy fm fw fd : Field) (s : Ymd) (y m w d : Int) : R Ymd :=
  match fy.add s y with
  | .error x => .error x
  | .ok s1 =>
    match fm.add s1 m with
    | .error x => .error x
    | .ok s2 =>
      match fw.add s2 w with
      | .error x => .error x
      | .ok s3 => fd.add s3 d

theorem stepField_spec (f : Field) (hf : FieldLaw c f) (on : Bool) (s e : Ymd) (hs : Valid c s) (he : Valid c e) :
    ∃ n r, stepField f on s e = .ok (n, r) ∧ f.add s n = .ok r ∧ Valid c r ∧ (on = false → n = 0) ∧
      (on = true → f.between s e = .ok n) ∧
      (dayNo c s ≤ dayNo c e → 0 ≤ n ∧ dayNo c s ≤ dayNo c r ∧ dayNo c r ≤ dayNo c e) ∧
      (dayNo c e ≤ dayNo c s → n ≤ 0 ∧ dayNo c e ≤ dayNo c r ∧ dayNo c r ≤ dayNo c s) := by
  cases on
  · refine ⟨0, s, rfl, hf.add_zero s, hs, fun _ => rfl, (fun hc => by cases hc), ?_, ?_⟩ <;> intro _ <;> omega
  · obtain ⟨n, r, h1, h2, h3, h4, h5⟩ := hf.law s e hs he
    refine ⟨n, r, ?_, h2, h3, (fun hc => by cases hc), (fun _ => h1), h4, h5⟩
    unfold stepField
    simp only [Bool.not_true, Bool.false_eq_true, if_false, h1, h2]

/-- the whole decomposition: every intermediate date is valid and lies between start and end, the counts have one
    sign, counts of units not asked for are zero, and adding the counts to the start in turn gives `rest` -/
theorem dateComponents_spec (fy fm fw fd : Field) (hy : FieldLaw c fy) (hm : FieldLaw c fm) (hw : FieldLaw c fw)
    (hd : FieldLaw c fd) (mask : Nat) (s e : Ymd) (hs : Valid c s) (he : Valid c e) :
    ∃ p, dateComponents fy fm fw fd mask s e = .ok p ∧ plusParts fy fm fw fd s p.years p.months p.weeks p.days = .ok p.rest ∧
      Valid c p.rest ∧
      (bit mask 0 = false → p.years = 0) ∧ (bit mask 1 = false → p.months = 0) ∧ (bit mask 2 = false → p.weeks = 0) ∧
      (bit mask 3 = false → p.days = 0) ∧
      (dayNo c s ≤ dayNo c e → 0 ≤ p.years ∧ 0 ≤ p.months ∧ 0 ≤ p.weeks ∧ 0 ≤ p.days ∧
        dayNo c s ≤ dayNo c p.rest ∧ dayNo c p.rest ≤ dayNo c e) ∧
      (dayNo c e ≤ dayNo c s → p.years ≤ 0 ∧ p.months ≤ 0 ∧ p.weeks ≤ 0 ∧ p.days ≤ 0 ∧
        dayNo c e ≤ dayNo c p.rest ∧ dayNo c p.rest ≤ dayNo c s) := by
  obtain ⟨n1, r1, a1, b1, v1, z1, _, f1, g1⟩ := stepField_spec fy hy (bit mask 0) s e hs he
  obtain ⟨n2, r2, a2, b2, v2, z2, _, f2, g2⟩ := stepField_spec fm hm (bit mask 1) r1 e v1 he
  obtain ⟨n3, r3, a3, b3, v3, z3, _, f3, g3⟩ := stepField_spec fw hw (bit mask 2) r2 e v2 he
  obtain ⟨n4, r4, a4, b4, v4, z4, _, f4, g4⟩ := stepField_spec fd hd (bit mask 3) r3 e v3 he
  refine ⟨⟨r4, n1, n2, n3, n4⟩, ?_, ?_, v4, z1, z2, z3, z4, ?_, ?_⟩
  · unfold dateComponents; simp only [a1, a2, a3, a4]
  · unfold plusParts; simp only [b1, b2, b3, b4]
  · intro hle
    obtain ⟨p1, p2, p3⟩ := f1 hle
    obtain ⟨q1, q2, q3⟩ := f2 p3
    obtain ⟨t1, t2, t3⟩ := f3 q3
    obtain ⟨w1, w2, w3⟩ := f4 t3
    dsimp only
    omega
  · intro hle
    obtain ⟨p1, p2, p3⟩ := g1 hle
    obtain ⟨q1, q2, q3⟩ := g2 p2
    obtain ⟨t1, t2, t3⟩ := g3 q2
    obtain ⟨w1, w2, w3⟩ := g4 t2
    dsimp only
    omega

/-- with an exact last unit switched on the decomposition ends at `e` -/
theorem dateComponents_hits_end (fy fm fw fd : Field) (hy : FieldLaw c fy) (hm : FieldLaw c fm) (hw : FieldLaw c fw)
    (_hd : FieldLaw c fd) (hx : FieldExact c fd) (mask : Nat) (hbit : bit mask 3 = true) (s e : Ymd) (hs : Valid c s)
    (he : Valid c e) (p : DateParts) (hp : dateComponents fy fm fw fd mask s e = .ok p) : p.rest = e := by
  obtain ⟨n1, r1, a1, b1, v1, z1, _, f1, g1⟩ := stepField_spec fy hy (bit mask 0) s e hs he
  obtain ⟨n2, r2, a2, b2, v2, z2, _, f2, g2⟩ := stepField_spec fm hm (bit mask 1) r1 e v1 he
  obtain ⟨n3, r3, a3, b3, v3, z3, _, f3, g3⟩ := stepField_spec fw hw (bit mask 2) r2 e v2 he
  obtain ⟨n4, x1, x2⟩ := hx r3 e v3 he
  unfold dateComponents at hp
  simp only [a1, a2, a3] at hp
  unfold stepField at hp
  simp only [hbit, Bool.not_true, Bool.false_eq_true, if_false, x1, x2] at hp
  cases hp
  rfl

/-! ## the day and week units satisfy the law in every well-formed calendar -/

theorem daysBetween_valid (h : WF c) (s e : Ymd) (hs : Valid c s) (he : Valid c e) :
    daysBetween c s e = .ok (dayNo c e - dayNo c s) := by
  unfold daysBetween
  by_cases heq : s = e
  · rw [if_pos heq, heq]; congr 1; omega
  · rw [if_neg heq, daysOf_valid h s hs, daysOf_valid h e he]

theorem fixedBetween_valid (h : WF c) (u : Int) (s e : Ymd) (hs : Valid c s) (he : Valid c e) :
    fixedBetween c u s e = .ok (Int.tdiv (dayNo c e - dayNo c s) u) := by
  unfold fixedBetween
  rw [daysBetween_valid h s e hs he]

theorem fixedField_law (h : WF c) (hl : YearLen c) (u : Int) (hu : u = 1 ∨ u = 7) :
    FieldLaw c ⟨addFixed c u, fixedBetween c u⟩ where
  add_zero := by intro s; show addFixed c u s 0 = .ok s; unfold addFixed; rw [if_pos rfl]
  law := by
    intro s e hs he
    have rs := valid_range h s hs
    have re := valid_range h e he
    have hb : fixedBetween c u s e = .ok (Int.tdiv (dayNo c e - dayNo c s) u) := fixedBetween_valid h u s e hs he
    have hex := addFixed_exact h hl u s hs (Int.tdiv (dayNo c e - dayNo c s) u)
    have key : (dayNo c s ≤ dayNo c e → 0 ≤ Int.tdiv (dayNo c e - dayNo c s) u ∧
          dayNo c s ≤ dayNo c s + Int.tdiv (dayNo c e - dayNo c s) u * u ∧
          dayNo c s + Int.tdiv (dayNo c e - dayNo c s) u * u ≤ dayNo c e) ∧
        (dayNo c e ≤ dayNo c s → Int.tdiv (dayNo c e - dayNo c s) u ≤ 0 ∧
          dayNo c e ≤ dayNo c s + Int.tdiv (dayNo c e - dayNo c s) u * u ∧
          dayNo c s + Int.tdiv (dayNo c e - dayNo c s) u * u ≤ dayNo c s) := by
      rcases hu with rfl | rfl <;>
      · simp (disch := decide) only [tdiv_pos]
        constructor <;> intro hle <;> split <;> omega
    obtain ⟨q, q1, q2, q3, _⟩ := hex.1 (by
      by_cases hle : dayNo c s ≤ dayNo c e
      · have := key.1 hle; omega
      · have := key.2 (by omega); omega)
    refine ⟨_, q, hb, q1, q2, ?_, ?_⟩
    · intro hle; rw [q3]; exact key.1 hle
    · intro hle; rw [q3]; exact key.2 hle

theorem daysField_exact (h : WF c) (hl : YearLen c) : FieldExact c ⟨addFixed c 1, fixedBetween c 1⟩ := by
  intro s e hs he
  have re := valid_range h e he
  refine ⟨_, fixedBetween_valid h 1 s e hs he, ?_⟩
  have hex := addFixed_exact h hl 1 s hs (Int.tdiv (dayNo c e - dayNo c s) 1)
  have e1 : dayNo c s + Int.tdiv (dayNo c e - dayNo c s) 1 * 1 = dayNo c e := by
    simp (disch := decide) only [tdiv_pos]; split <;> omega
  rw [e1] at hex
  obtain ⟨q, q1, q2, q3, _⟩ := hex.1 ⟨re.1, re.2.1⟩
  show addFixed c 1 s _ = .ok e
  rw [q1, valid_inj h q e q2 he q3]

/-! ## units counted on a coarse key (year, or month index): the "difference, corrected by one" scheme -/

/-- `K` is the coarse position a unit counts on (the year for years, `year·M + month − 1` for months).  If dates with
    a smaller key are earlier, adding `n` units moves the key by exactly `n` (whenever the target key lies between
    keys of valid dates) and `between` is the key difference corrected by one as the code does, then the unit
    satisfies `FieldLaw`. -/
theorem coarse_law (h : WF c) (f : Field) (K : Ymd → Int)
    (hK : ∀ a b, Valid c a → Valid c b → K a < K b → dayNo c a < dayNo c b)
    (hzero : ∀ s, f.add s 0 = .ok s)
    (hadd : ∀ s a b n, Valid c s → Valid c a → Valid c b → K a ≤ K s + n → K s + n ≤ K b →
      ∃ r, f.add s n = .ok r ∧ Valid c r ∧ K r = K s + n)
    (hbetween : ∀ s e simple, Valid c s → Valid c e → f.add s (K e - K s) = .ok simple →
      f.between s e = .ok (correctByOne c s e simple (K e - K s))) :
    FieldLaw c f where
  add_zero := hzero
  law := by
    intro s e hs he
    -- contrapositive of hK
    have hK' : ∀ a b, Valid c a → Valid c b → dayNo c a ≤ dayNo c b → K a ≤ K b := by
      intro a b ha hb hle
      by_cases hlt : K b < K a
      · have := hK b a hb ha hlt; omega
      · omega
    obtain ⟨simple, a1, v1, k1⟩ := hadd s e e (K e - K s) hs he he (by omega) (by omega)
    have hb := hbetween s e simple hs he a1
    have cs := cmp_sign h s e hs he
    have cq := cmp_sign h simple e v1 he
    have k1' : K simple = K e := by omega
    unfold correctByOne at hb
    by_cases hle : dayNo c s ≤ dayNo c e
    · have hk := hK' s e hs he hle
      rw [if_pos (by have := cs.1; have := cs.2.1; have := cs.2.2; omega)] at hb
      by_cases hq : cmpYmd c simple e ≤ 0
      · rw [if_pos hq] at hb
        have hqd : dayNo c simple ≤ dayNo c e := by have := cq.2.2; omega
        have hsr : dayNo c s ≤ dayNo c simple := by
          by_cases h0 : K e - K s = 0
          · rw [h0, hzero s] at a1; cases a1; omega
          · have := hK s simple hs v1 (by omega); omega
        refine ⟨_, simple, hb, a1, v1, fun _ => ⟨by omega, hsr, hqd⟩, ?_⟩
        intro hge
        have e2 : dayNo c e = dayNo c s := by omega
        have e3 := valid_inj h e s he hs e2
        subst e3
        have h0 : K e - K e = 0 := by omega
        rw [h0, hzero e] at a1; cases a1
        exact ⟨by omega, by omega, by omega⟩
      · rw [if_neg hq] at hb
        have hqd : dayNo c simple > dayNo c e := by have := cq.2.2; omega
        have hne : K e - K s ≠ 0 := by
          intro h0; rw [h0, hzero s] at a1; cases a1; omega
        obtain ⟨r, a2, v2, k2⟩ := hadd s s e (K e - K s - 1) hs hs he (by omega) (by omega)
        have hre : dayNo c r < dayNo c e := hK r e v2 he (by omega)
        have hsr : dayNo c s ≤ dayNo c r := by
          by_cases h0 : K e - K s - 1 = 0
          · rw [h0, hzero s] at a2; cases a2; omega
          · have := hK s r hs v2 (by omega); omega
        refine ⟨_, r, hb, a2, v2, fun _ => ⟨by omega, hsr, by omega⟩, ?_⟩
        intro hge; exfalso; omega
    · have hlt : dayNo c e < dayNo c s := by omega
      have hk := hK' e s he hs (by omega)
      rw [if_neg (by have := cs.2.2; omega)] at hb
      by_cases hq : cmpYmd c simple e ≥ 0
      · rw [if_pos hq] at hb
        have hqd : dayNo c e ≤ dayNo c simple := by have := cq.1; omega
        have hsr : dayNo c simple ≤ dayNo c s := by
          by_cases h0 : K e - K s = 0
          · rw [h0, hzero s] at a1; cases a1; omega
          · have := hK simple s v1 hs (by omega); omega
        exact ⟨_, simple, hb, a1, v1, fun hh => by omega, fun _ => ⟨by omega, hqd, hsr⟩⟩
      · rw [if_neg hq] at hb
        have hqd : dayNo c simple < dayNo c e := by have := cq.1; omega
        have hne : K e - K s ≠ 0 := by
          intro h0; rw [h0, hzero s] at a1; cases a1; omega
        obtain ⟨r, a2, v2, k2⟩ := hadd s e s (K e - K s + 1) hs he hs (by omega) (by omega)
        have hre : dayNo c e < dayNo c r := hK e r he v2 (by omega)
        have hsr : dayNo c r ≤ dayNo c s := by
          by_cases h0 : K e - K s + 1 = 0
          · rw [h0, hzero s] at a2; cases a2; omega
          · have := hK r s v2 hs (by omega); omega
        exact ⟨_, r, hb, a2, v2, fun hh => by omega, fun _ => ⟨by omega, by omega, hsr⟩⟩

/-- the hypotheses of `coarse_law`, bundled -/
structure CoarseUnit (c : Calc) (f : Field) (K : Ymd → Int) : Prop where
  key_mono : ∀ a b, Valid c a → Valid c b → K a < K b → dayNo c a < dayNo c b
  add_zero : ∀ s, f.add s 0 = .ok s
  add_ok : ∀ s a b n, Valid c s → Valid c a → Valid c b → K a ≤ K s + n → K s + n ≤ K b →
    ∃ r, f.add s n = .ok r ∧ Valid c r ∧ K r = K s + n
  /-- whatever the addition returns is a valid date at the expected key -/
  add_inv : ∀ s n r, Valid c s → f.add s n = .ok r → Valid c r ∧ K r = K s + n
  between_eq : ∀ s e simple, Valid c s → Valid c e → f.add s (K e - K s) = .ok simple →
    f.between s e = .ok (correctByOne c s e simple (K e - K s))

theorem CoarseUnit.toLaw {f : Field} {K : Ymd → Int} (h : WF c) (u : CoarseUnit c f K) : FieldLaw c f :=
  coarse_law h f K u.key_mono u.add_zero u.add_ok u.between_eq

/-! ## the regular family (`_RegularYearMonthDayCalculator`) -/

/-- the year and month `_RegularYearMonthDayCalculator._add_months` computes are floor quotient and remainder of the
    zero-based month index `m - 1 + n` by the number of months per year -/
theorem regularTarget_eq (M y m n : Int) (hM : M = 12 ∨ M = 13) :
    regularTarget M y m n (Int.tdiv (m - 1 + n) M) = (y + (m - 1 + n) / M, (m - 1 + n) % M + 1) := by
  rcases hM with rfl | rfl <;>
  · unfold regularTarget
    simp (disch := decide) only [tdiv_pos, fmod_pos]
    by_cases h : m - 1 + n ≥ 0
    · simp only [h, if_true]
    · simp only [h, if_false]
      repeat' split
      all_goals (refine Prod.ext ?_ ?_ <;> dsimp only <;> omega)

theorem addMonthsRegular_spec (c : Calc) (M : Int) (hM : M = 12 ∨ M = 13) (y m d n : Int) (hn : n ≠ 0)
    (hb : -decBound < m - 1 + n ∧ m - 1 + n < decBound) :
    ∃ Y Mo, Y * M + (Mo - 1) = y * M + (m - 1) + n ∧ 1 ≤ Mo ∧ Mo ≤ M ∧
      (c.minYear ≤ Y ∧ Y ≤ c.maxYear → addMonthsRegular c M (y, m, d) n = .ok (Y, Mo, min d (c.dim Y Mo))) ∧
      (¬ (c.minYear ≤ Y ∧ Y ≤ c.maxYear) → addMonthsRegular c M (y, m, d) n = .error .overflowError) := by
  refine ⟨y + (m - 1 + n) / M, (m - 1 + n) % M + 1, ?_, ?_, ?_, ?_, ?_⟩
  · rcases hM with rfl | rfl <;> omega
  · rcases hM with rfl | rfl <;> omega
  · rcases hM with rfl | rfl <;> omega
  all_goals
    intro hr
    unfold addMonthsRegular
    rw [if_neg hn]
    dsimp only
    rw [pyTdiv_ok _ M (by rcases hM with rfl | rfl <;> decide) hb.1 hb.2
      (by rcases hM with rfl | rfl <;> decide) (by rcases hM with rfl | rfl <;> decide)]
    dsimp only
    rw [regularTarget_eq M y m n hM]
    unfold rangeOrOverflow
    dsimp only
  · rw [if_neg (by omega)]
  · rw [if_pos (by omega)]


/-- a calendar of the regular family: the same number of months (12 or 13) in every year, packed comparison -/
structure RegularCal (k : Cal) (M : Int) : Prop where
  fam : k.fam = .regular
  wf : WF k.c
  mM : M = 12 ∨ M = 13
  months : ∀ y, k.c.months y = M
  plain : k.c.ownCompare = false

theorem dayNo_lt_of_year_lt (h : WF c) (a b : Ymd) (ha : Valid c a) (hb : Valid c b) (hlt : a.1 < b.1) :
    dayNo c a < dayNo c b := by
  have ra := valid_range h a ha
  have rb := valid_range h b hb
  obtain ⟨hy, hy2, _⟩ := validate_inv ha
  obtain ⟨hz, hz2, _⟩ := validate_inv hb
  have := start_mono h (y := a.1 + 1) (z := b.1) (by omega) (by omega) (by omega)
  omega

theorem dayNo_lt_of_month_lt (h : WF c) (hp : c.ownCompare = false) (a b : Ymd) (ha : Valid c a) (hb : Valid c b)
    (hy : a.1 = b.1) (hlt : a.2.1 < b.2.1) : dayNo c a < dayNo c b := by
  obtain ⟨y1, y2, m1, m2, d1, d2⟩ := validate_inv ha
  obtain ⟨z1, z2, n1, n2, e1, e2⟩ := validate_inv hb
  rw [← hy] at n2 e2
  have hk1 := h.plain_key hp a.1 a.2.1 y1 y2 m1 m2
  have hk2 := h.plain_key hp a.1 b.2.1 y1 y2 n1 n2
  have := h.month_order a.1 a.2.1 b.2.1 y1 y2 m1 m2 n1 n2 (by rw [hk1, hk2]; exact hlt)
  unfold dayNo
  rw [← hy]
  omega

/-- validity of what `_set_year` returns in the regular family -/
theorem setYearRegular_valid (k : Cal) (M : Int) (hk : RegularCal k M) (s : Ymd) (hs : Valid k.c s) (Y : Int)
    (hY : k.c.minYear ≤ Y ∧ Y ≤ k.c.maxYear) : Valid k.c (setYearRegular k.c s Y) := by
  have h := hk.wf
  obtain ⟨sy, sy2, sm, sm2, sd, sd2⟩ := validate_inv hs
  rw [hk.months] at sm2
  have hp := h.pack_day Y s.2.1 hY.1 hY.2 sm (by rw [hk.months]; exact sm2)
  unfold setYearRegular Valid
  dsimp only
  exact validate_ok h hY.1 hY.2 sm (by rw [hk.months]; exact sm2) (Int.le_min.2 ⟨sd, hp.1⟩) (Int.min_le_right _ _)

theorem yearsField_unit (k : Cal) (M : Int) (hk : RegularCal k M) : CoarseUnit k.c (yearsField k) (fun p => p.1) := by
  have h := hk.wf
  refine ⟨fun a b ha hb hlt => dayNo_lt_of_year_lt h a b ha hb hlt, ?_, ?_, ?_, ?_⟩
  · intro s; show addYears k s 0 = .ok s; unfold addYears; rw [if_pos rfl]
  · intro s a b n hs ha hb h1 h2
    obtain ⟨ay, _, _⟩ := validate_inv ha
    obtain ⟨_, by2, _⟩ := validate_inv hb
    obtain ⟨sy, sy2, sm, sm2, sd, sd2⟩ := validate_inv hs
    show ∃ r, addYears k s n = .ok r ∧ Valid k.c r ∧ r.1 = s.1 + n
    unfold addYears
    by_cases h0 : n = 0
    · rw [if_pos h0]; exact ⟨s, rfl, hs, by omega⟩
    · rw [if_neg h0]
      unfold checkRange
      rw [if_neg (by omega)]
      dsimp only
      unfold setYear
      rw [hk.fam]
      dsimp only
      refine ⟨_, rfl, ?_, rfl⟩
      unfold setYearRegular Valid
      dsimp only
      rw [hk.months] at sm2
      have hp := h.pack_day (s.1 + n) s.2.1 (by omega) (by omega) sm (by rw [hk.months]; exact sm2)
      exact validate_ok h (by omega) (by omega) sm (by rw [hk.months]; exact sm2) (by omega) (by omega)
  · intro s n r hs ha
    have ha' : addYears k s n = .ok r := ha
    obtain ⟨sy, sy2, _⟩ := validate_inv hs
    unfold addYears at ha'
    by_cases h0 : n = 0
    · rw [if_pos h0] at ha'; cases ha'; exact ⟨hs, by omega⟩
    · rw [if_neg h0] at ha'
      unfold checkRange at ha'
      by_cases hr : n < k.c.minYear - s.1 ∨ n > k.c.maxYear - s.1
      · rw [if_pos hr] at ha'; cases ha'
      · rw [if_neg hr] at ha'
        dsimp only at ha'
        unfold setYear at ha'
        rw [hk.fam] at ha'
        dsimp only at ha'
        cases ha'
        exact ⟨setYearRegular_valid k M hk s hs _ (by omega), rfl⟩
  · intro s e simple _ _ ha
    show yearsBetween k s e = _
    unfold yearsBetween
    dsimp only
    have ha' : addYears k s (e.1 - s.1) = .ok simple := ha
    rw [ha']

theorem yearsField_law (k : Cal) (M : Int) (hk : RegularCal k M) : FieldLaw k.c (yearsField k) :=
  (yearsField_unit k M hk).toLaw hk.wf

theorem pyTdiv_ok_inv (x y q : Int) (hq : pyTdiv x y = .ok q) : -decBound < x ∧ x < decBound := by
  unfold pyTdiv at hq
  by_cases hy : y = 0
  · rw [if_pos hy] at hq; split at hq <;> cases hq
  · rw [if_neg hy] at hq
    by_cases hd : inDecDomain x y = true
    · unfold inDecDomain at hd
      simp only [Bool.and_eq_true, decide_eq_true_eq] at hd
      omega
    · rw [if_neg hd] at hq; cases hq

theorem monthsField_unit (k : Cal) (M : Int) (hk : RegularCal k M) :
    CoarseUnit k.c (monthsField k) (fun p => p.1 * M + p.2.1 - 1) := by
  have h := hk.wf
  have hM := hk.mM
  have hpy := h.pack_year
  have hadd_eq : ∀ p n, addMonths k p n = addMonthsRegular k.c M p n := by
    intro p n; unfold addMonths; rw [hk.fam]; dsimp only; rw [hk.months]
  refine ⟨?_, ?_, ?_, ?_, ?_⟩
  · intro a b ha hb hlt
    obtain ⟨_, _, m1, m2, _⟩ := validate_inv ha
    obtain ⟨_, _, n1, n2, _⟩ := validate_inv hb
    rw [hk.months] at m2 n2
    by_cases hy : a.1 < b.1
    · exact dayNo_lt_of_year_lt h a b ha hb hy
    · have hyy : a.1 = b.1 := by rcases hM with rfl | rfl <;> omega
      exact dayNo_lt_of_month_lt h hk.plain a b ha hb hyy (by rw [hyy] at hlt; omega)
  · intro s; show addMonths k s 0 = .ok s; rw [hadd_eq]; unfold addMonthsRegular; rw [if_pos rfl]
  · intro s a b n hs ha hb h1 h2
    obtain ⟨ay, ay2, am, am2, _⟩ := validate_inv ha
    obtain ⟨by1, by2, bm, bm2, _⟩ := validate_inv hb
    obtain ⟨sy, sy2, sm, sm2, sd, sd2⟩ := validate_inv hs
    rw [hk.months] at am2 bm2 sm2
    show ∃ r, addMonths k s n = .ok r ∧ Valid k.c r ∧ r.1 * M + r.2.1 - 1 = s.1 * M + s.2.1 - 1 + n
    rw [hadd_eq]
    by_cases h0 : n = 0
    · unfold addMonthsRegular; rw [if_pos h0]; exact ⟨s, rfl, hs, by omega⟩
    · have hbnd : -decBound < s.2.1 - 1 + n ∧ s.2.1 - 1 + n < decBound := by
        unfold decBound; rcases hM with rfl | rfl <;> omega
      obtain ⟨Y, Mo, e1, e2, e3, e4, _⟩ := addMonthsRegular_spec k.c M hM s.1 s.2.1 s.2.2 n h0 hbnd
      have hY : k.c.minYear ≤ Y ∧ Y ≤ k.c.maxYear := by rcases hM with rfl | rfl <;> omega
      have hp := h.pack_day Y Mo hY.1 hY.2 e2 (by rw [hk.months]; exact e3)
      refine ⟨_, e4 hY, validate_ok h hY.1 hY.2 e2 (by rw [hk.months]; exact e3) (Int.le_min.2 ⟨sd, hp.1⟩)
        (Int.min_le_right _ _), ?_⟩
      dsimp only; omega
  · intro s n r hs ha
    have ha' : addMonths k s n = .ok r := ha
    rw [hadd_eq] at ha'
    obtain ⟨sy, sy2, sm, sm2, sd, sd2⟩ := validate_inv hs
    rw [hk.months] at sm2
    by_cases h0 : n = 0
    · unfold addMonthsRegular at ha'; rw [if_pos h0] at ha'; cases ha'; exact ⟨hs, by omega⟩
    · have hbnd : -decBound < s.2.1 - 1 + n ∧ s.2.1 - 1 + n < decBound := by
        have hu := ha'
        unfold addMonthsRegular at hu
        rw [if_neg h0] at hu
        cases hq : pyTdiv (s.2.1 - 1 + n) M with
        | error x => rw [hq] at hu; cases hu
        | ok q => exact pyTdiv_ok_inv _ _ _ hq
      obtain ⟨Y, Mo, e1, e2, e3, e4, e5⟩ := addMonthsRegular_spec k.c M hM s.1 s.2.1 s.2.2 n h0 hbnd
      by_cases hY : k.c.minYear ≤ Y ∧ Y ≤ k.c.maxYear
      · have hp := h.pack_day Y Mo hY.1 hY.2 e2 (by rw [hk.months]; exact e3)
        have e6 := e4 hY
        have e7 : addMonthsRegular k.c M s n = addMonthsRegular k.c M (s.1, s.2.1, s.2.2) n := rfl
        rw [e7, e6] at ha'
        cases ha'
        refine ⟨validate_ok h hY.1 hY.2 e2 (by rw [hk.months]; exact e3) (Int.le_min.2 ⟨sd, hp.1⟩) (Int.min_le_right _ _), ?_⟩
        dsimp only; omega
      · have e6 := e5 hY
        have e7 : addMonthsRegular k.c M s n = addMonthsRegular k.c M (s.1, s.2.1, s.2.2) n := rfl
        rw [e7, e6] at ha'; cases ha'
  · intro s e simple _ _ ha
    show monthsBetween k s e = _
    unfold monthsBetween
    rw [hk.fam]
    dsimp only
    rw [hk.months]
    unfold monthsBetweenRegular
    dsimp only
    have e1 : (e.1 - s.1) * M + e.2.1 - s.2.1 = e.1 * M + e.2.1 - 1 - (s.1 * M + s.2.1 - 1) := by
      rcases hM with rfl | rfl <;> omega
    have ha' : addMonthsRegular k.c M s (e.1 * M + e.2.1 - 1 - (s.1 * M + s.2.1 - 1)) = .ok simple := by
      rw [← hadd_eq]; exact ha
    rw [e1, ha']

theorem monthsField_law (k : Cal) (M : Int) (hk : RegularCal k M) : FieldLaw k.c (monthsField k) :=
  (monthsField_unit k M hk).toLaw hk.wf

/-! ## Hebrew month arithmetic: the 235-month cycle -/

/-- months before civil year `y` in the Hebrew calendar (19-year cycle of 235 months) -/
def hebBefore (y : Int) : Int := 12 * y - 13 + (7 * y + 13) / 19

theorem monthsIn_eq (y : Int) : Hebrew.monthsIn y = if (7 * y + 1) % 19 < 7 then 13 else 12 := by
  unfold Hebrew.monthsIn Heb.isLeap
  simp (disch := decide) only [fmod_pos]
  rw [Int.mul_comm y 7]
  by_cases h : (7 * y + 1) % 19 < 7 <;> simp [h]

theorem heb_recur (y : Int) : hebBefore (y + 1) = hebBefore y + Hebrew.monthsIn y := by
  rw [monthsIn_eq]; unfold hebBefore
  have e1 : 7 * (y + 1) + 13 = 7 * y + 20 := by omega
  rw [e1]
  generalize 7 * y = z
  split <;> omega

theorem heb_cycle (y q : Int) : hebBefore (y + q * 19) = hebBefore y + 235 * q ∧ Hebrew.monthsIn (y + q * 19) = Hebrew.monthsIn y := by
  rw [monthsIn_eq, monthsIn_eq]; unfold hebBefore
  constructor
  · have e1 : 7 * (y + q * 19) + 13 = 7 * y + 13 + 19 * (7 * q) := by omega
    rw [e1, Int.add_mul_ediv_left _ _ (by decide)]; omega
  · have : (7 * (y + q * 19) + 1) % 19 = (7 * y + 1) % 19 := by omega
    rw [this]

theorem fwdLoop_spec : ∀ (fuel : Nat) (ms yr : Int), 0 ≤ ms → ms < 12 * fuel →
    ∃ ms' yr', Hebrew.fwdLoop fuel ms yr = .ok (ms', yr') ∧ 0 ≤ ms' ∧ ms' < Hebrew.monthsIn yr' ∧ hebBefore yr' + ms' = hebBefore yr + ms := by
  intro fuel
  induction fuel with
  | zero => intro ms yr h1 h2; omega
  | succ f ih =>
    intro ms yr h1 h2
    unfold Hebrew.fwdLoop
    have hm := monthsIn_eq yr
    by_cases hc : ms ≥ Hebrew.monthsIn yr
    · rw [if_pos hc]
      obtain ⟨a, b, e1, e2, e3, e4⟩ := ih (ms - Hebrew.monthsIn yr) (yr + 1) (by omega) (by split at hm <;> omega)
      refine ⟨a, b, e1, e2, e3, ?_⟩
      rw [e4, heb_recur]; omega
    · rw [if_neg hc]; exact ⟨ms, yr, rfl, h1, by omega, rfl⟩

theorem backLoop_spec : ∀ (fuel : Nat) (ms yr : Int), ms ≤ 0 → -(12 * (fuel : Int)) < ms →
    ∃ ms' yr', Hebrew.backLoop fuel ms yr = .ok (ms', yr') ∧ ms' ≤ 0 ∧ 0 < ms' + Hebrew.monthsIn yr' ∧
      hebBefore (yr' + 1) + ms' = hebBefore (yr + 1) + ms := by
  intro fuel
  induction fuel with
  | zero => intro ms yr h1 h2; omega
  | succ f ih =>
    intro ms yr h1 h2
    unfold Hebrew.backLoop
    have hm := monthsIn_eq yr
    by_cases hc : ms + Hebrew.monthsIn yr ≤ 0
    · rw [if_pos hc]
      obtain ⟨a, b, e1, e2, e3, e4⟩ := ih (ms + Hebrew.monthsIn yr) (yr - 1) hc (by split at hm <;> omega)
      refine ⟨a, b, e1, e2, e3, ?_⟩
      have := heb_recur yr
      have e5 : yr - 1 + 1 = yr := by omega
      rw [e4, e5]; omega
    · rw [if_neg hc]; exact ⟨ms, yr, rfl, h1, by omega, rfl⟩

/-- the civil-month walk of `_add_months` after the cycle shift -/
theorem walk_spec (y0 civ ms : Int) (hc : 1 ≤ civ ∧ civ ≤ Hebrew.monthsIn y0) (hm : -235 < ms ∧ ms < 235) :
    ∃ Y C, Hebrew.walk y0 civ ms = .ok (Y, C) ∧ 1 ≤ C ∧ C ≤ Hebrew.monthsIn Y ∧
      hebBefore Y + C - 1 = hebBefore y0 + civ - 1 + ms := by
  have h13 := monthsIn_eq y0
  unfold Hebrew.walk
  by_cases hp : ms > 0
  · rw [if_pos hp]
    obtain ⟨a, b, e1, e2, e3, e4⟩ := fwdLoop_spec Hebrew.loopFuel (ms + (civ - 1)) y0 (by omega)
      (by show _ < 12 * ((32 : Nat) : Int); split at h13 <;> omega)
    rw [e1]
    exact ⟨b, a + 1, rfl, by omega, by omega, by omega⟩
  · rw [if_neg hp]
    obtain ⟨a, b, e1, e2, e3, e4⟩ := backLoop_spec Hebrew.loopFuel (ms - (Hebrew.monthsIn y0 - civ)) y0 (by omega)
      (by show -(12 * ((32 : Nat) : Int)) < _; split at h13 <;> omega)
    rw [e1]
    have r0 := heb_recur y0
    have r1 := heb_recur b
    exact ⟨b, Hebrew.monthsIn b + a, rfl, by omega, by omega, by omega⟩

/-- civil ↦ calendar ↦ civil month number is the identity on the months of the year -/
theorem toCivil_fromCivil (scr : Bool) (Y C : Int) (hC : 1 ≤ C ∧ C ≤ Hebrew.monthsIn Y) :
    Hebrew.toCivil scr Y (Hebrew.fromCivil scr Y C) = C := by
  unfold Hebrew.toCivil Hebrew.fromCivil
  cases scr
  · rfl
  · simp only [if_true]
    unfold Heb.scripturalToCivil Heb.civilToScriptural
    unfold Hebrew.monthsIn at hC
    cases hl : Heb.isLeap Y <;> simp only [hl, if_true, Bool.false_eq_true, if_false] at hC ⊢ <;>
      (repeat' split) <;> omega

/-- `_HebrewYearMonthDayCalculator._add_months`, in full: the position of the month along the civil order
    (`hebBefore year + civil month − 1`, with 235 months per 19 years) moves by exactly `n` -/
theorem addMonthsHebrew_spec (scr : Bool) (c : Calc) (y m d n : Int) (hn : n ≠ 0)
    (hb : -decBound < n ∧ n < decBound)
    (hc : 1 ≤ Hebrew.toCivil scr y m ∧ Hebrew.toCivil scr y m ≤ Hebrew.monthsIn y) :
    ∃ Y C, 1 ≤ C ∧ C ≤ Hebrew.monthsIn Y ∧
      hebBefore Y + C - 1 = hebBefore y + Hebrew.toCivil scr y m - 1 + n ∧
      Hebrew.toCivil scr Y (Hebrew.fromCivil scr Y C) = C ∧
      (c.minYear ≤ Y ∧ Y ≤ c.maxYear → Hebrew.addMonths scr c (y, m, d) n =
        .ok (Y, Hebrew.fromCivil scr Y C, min (c.dim Y (Hebrew.fromCivil scr Y C)) d)) ∧
      (¬ (c.minYear ≤ Y ∧ Y ≤ c.maxYear) → Hebrew.addMonths scr c (y, m, d) n = .error .overflowError) := by
  have hcyc := heb_cycle y (Int.tdiv n 235)
  have hr : -235 < csharpMod n 235 ∧ csharpMod n 235 < 235 ∧ n = 235 * Int.tdiv n 235 + csharpMod n 235 := by
    simp (disch := decide) only [csharpMod_pos, tdiv_pos]
    repeat' split
    all_goals omega
  obtain ⟨Y, C, w1, w2, w3, w4⟩ := walk_spec (y + Int.tdiv n 235 * 19) (Hebrew.toCivil scr y m) (csharpMod n 235)
    (by rw [hcyc.2]; exact hc) ⟨hr.1, hr.2.1⟩
  refine ⟨Y, C, w2, w3, by rw [w4, hcyc.1]; omega, toCivil_fromCivil scr Y C ⟨w2, w3⟩, ?_, ?_⟩
  all_goals
    intro hY
    unfold Hebrew.addMonths
    rw [if_neg hn]
    rw [pyTdiv_ok n 235 (by decide) hb.1 hb.2 (by decide) (by decide)]
    dsimp only
    rw [w1]
    dsimp only
    unfold rangeOrOverflow
  · rw [if_neg (by omega)]
  · rw [if_pos (by omega)]

end Pyoda.C09
